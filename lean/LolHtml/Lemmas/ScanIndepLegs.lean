import LolHtml.Lemmas.CongrStep
import LolHtml.Lemmas.ObsParse
import LolHtml.Lemmas.ObsHandover
import LolHtml.Lemmas.ScanLexSim
/-!
C06, scanner-mode half of handler independence, the two "legs" that connect the dispatcher-sink machines
to the logging-sink machines of `Lemmas/ScanLexSim.lean`:

* leg S (`scanCong`): the plain run's tag scanner with the dispatcher of `H` as sink ⇄ the tag scanner with the
  logging sink `scanLog`: same registers, same simulator, and the dispatcher is the fold of `H`'s hint
  handlers over the log (`foldHints`);
* leg L (`lexCong`): the observing run's lexer with the dispatcher of `withObs H o` as sink ⇄ the lexer with the
  logging sink `lexLog`: same registers, same simulator, and the observing dispatcher is `ObsR false`-related
  to the fold of `H`'s hint handlers over the log of tag lexemes.

Hypotheses on `H`: `StayScan` (a hint is never answered `lex`: the plain run stays in the tag scanner unless
the tree-builder simulator asks for a lexeme) and `HashOnly` (`H` looks at a tag name through its hash only —
the log records hashes).
-/
set_option linter.unusedSimpArgs false
set_option linter.unusedVariables false

namespace LolHtml.Model

variable {γ : Type}

/-- the hint `H` receives for a logged tag event -/
def hintEv (H : Controller γ) (d : Disp γ) : TagEv → Disp γ
  | .start h ns => (Disp.startTagHint H (.hash h) ns d).1
  | .end_ h => (Disp.endTagHint H (.hash h) d).1

/-- the plain run's dispatcher after the hints of a log -/
def foldHints (H : Controller γ) (d0 : Disp γ) (log : List TagEv) : Disp γ := log.foldl (hintEv H) d0

theorem foldHints_snoc (H : Controller γ) (d0 : Disp γ) (log : List TagEv) (ev : TagEv) :
    foldHints H d0 (log ++ [ev]) = hintEv H (foldHints H d0 log) ev := by
  simp [foldHints, List.foldl_append]

/-- `H` looks at a tag name through its hash only -/
structure HashOnly (H : Controller γ) : Prop where
  start : ∀ g n ns, H.startTag g n ns = H.startTag g (.hash (lnHash n)) ns
  end_ : ∀ g n, H.endTag g n = H.endTag g (.hash (lnHash n))

/-- in tag-scanner mode `H` answers every hint with `scan` (and stays in that mode) -/
structure StayScan (H : Controller γ) : Prop where
  start : ∀ d n ns, ScanMode H d →
    (Disp.startTagHint H n ns d).2 = .ok .scan ∧ ScanMode H (Disp.startTagHint H n ns d).1
  end_ : ∀ d n, ScanMode H d → (Disp.endTagHint H n d).2 = .ok .scan ∧ ScanMode H (Disp.endTagHint H n d).1

theorem startTagHint_hashOnly {H : Controller γ} (ho : HashOnly H) (n : LocalName) (ns : Ns) (d : Disp γ) :
    Disp.startTagHint H n ns d = Disp.startTagHint H (.hash (lnHash n)) ns d := by
  unfold Disp.startTagHint
  rw [ho.start d.ctl n ns]

theorem endTagHint_hashOnly {H : Controller γ} (ho : HashOnly H) (n : LocalName) (d : Disp γ) :
    Disp.endTagHint H n d = Disp.endTagHint H (.hash (lnHash n)) d := by
  unfold Disp.endTagHint
  simp only [fun g => ho.end_ g n]

/-! ### leg S -/

/-- the congruence of leg S -/
def scanCong (H : Controller γ) (d0 : Disp γ) : Cong (Disp γ) L where
  Rx x₁ x₂ := x₁.sink = foldHints H d0 x₂.sink ∧ ScanMode H x₁.sink ∧ x₁.sim = x₂.sim
  Jr r := ∃ s, r = .scanner s
  Stop _ := False
  Good _ := True

section
variable {H : Controller γ} {d0 : Disp γ} {tbl : Table} {cfg : TagCfg} {inp : Bytes}

set_option quotPrecheck false in
local notation "envH" => (Env.mk tbl cfg (dispOps H) : Env (Disp γ))

theorem scanS_same {c : Common} {s : ScanRegs} {x₁ : Ctx (Disp γ)} {x₂ : Ctx L} {sig : Option Signal}
    (h : (scanCong H d0).Rx x₁ x₂) :
    (scanCong H d0).Out ((⟨c, .scanner s, x₁⟩ : M (Disp γ)), sig) ((⟨c, .scanner s, x₂⟩ : M L), sig) :=
  Or.inr ⟨⟨rfl, rfl, ⟨s, rfl⟩, h⟩, rfl, trivial⟩

theorem scanS_emitHint (hs : StayScan H) (ho : HashOnly H) (c : Common) (s : ScanRegs) (x₁ : Ctx (Disp γ)) (x₂ : Ctx L)
    (ts : Nat) (ie : Bool) (hx : (scanCong H d0).Rx x₁ x₂) :
    (scanCong H d0).Out (scanEmitHint envH inp c s x₁ ts ie) (scanEmitHint (envS tbl cfg) inp c s x₂ ts ie) := by
  obtain ⟨hd, hm, hsim⟩ := hx
  unfold scanEmitHint
  cases hn : LocalName.new inp ⟨s.tagNameStart, c.pos⟩ s.tagNameHash with
  | none => exact scanS_same ⟨hd, hm, hsim⟩
  | some name =>
    dsimp only [dispOps, envS, scanLog]
    cases ie with
    | true =>
      simp only [if_true]
      obtain ⟨h1, h2⟩ := hs.end_ x₁.sink name hm
      rw [h1]
      dsimp only
      refine scanS_same ⟨?_, h2, hsim⟩
      dsimp only
      rw [foldHints_snoc, ← hd, endTagHint_hashOnly ho]
      rfl
    | false =>
      simp only [Bool.false_eq_true, if_false]
      obtain ⟨h1, h2⟩ := hs.start x₁.sink name x₁.sim.currentNs hm
      rw [h1]
      dsimp only
      refine scanS_same ⟨?_, h2, hsim⟩
      dsimp only
      rw [foldHints_snoc, ← hd, startTagHint_hashOnly ho, hsim]
      rfl

theorem scanS_finishTagName (hs : StayScan H) (ho : HashOnly H) (c : Common) (s : ScanRegs) (x₁ : Ctx (Disp γ)) (x₂ : Ctx L)
    (hx : (scanCong H d0).Rx x₁ x₂) :
    (scanCong H d0).Out (scanFinishTagName envH inp c s x₁) (scanFinishTagName (envS tbl cfg) inp c s x₂) := by
  have hsim := hx.2.2
  unfold scanFinishTagName
  cases s.tagStart with
  | none => exact scanS_same hx
  | some tagStart =>
    dsimp only [envS]
    rw [hsim]
    cases (if s.isInEndTag = true then x₂.sim.feedbackForEndTag cfg s.tagNameHash
            else x₂.sim.feedbackForStartTag cfg s.tagNameHash) with
    | error e => exact scanS_same hx
    | ok sf =>
      dsimp only
      split
      · exact scanS_same ⟨hx.1, hx.2.1, rfl⟩
      · exact scanS_emitHint hs ho _ _ _ _ _ _ ⟨hx.1, hx.2.1, rfl⟩

theorem scanS_ok (hs : StayScan H) (ho : HashOnly H) : (scanCong H d0).OkS envH (envS tbl cfg) inp where
  tbl := rfl
  stop_err := fun r h => h.elim
  good_none := trivial
  good_panic := fun _ => trivial
  good_eoi := fun _ => trivial
  act := by
    intro a m₁ m₂ hm
    obtain ⟨c, r, x₁, x₂, rfl, rfl, ⟨s, rfl⟩, hx⟩ := hm.cases
    simp only [act]
    by_cases hf : a = .finishTagName
    · subst hf
      simp only [scanAct]
      exact scanS_finishTagName hs ho c s x₁ x₂ hx
    · cases a <;> first
        | exact absurd rfl hf
        | (simp only [scanAct]; exact scanS_same hx)
        | (simp only [scanAct]; split <;> exact scanS_same hx)
  silent := fun _ _ _ h => h
  pc := fun _ _ _ h => h
  jr_enter := by
    intro c r ⟨s, hs⟩
    subst hs
    exact ⟨_, rfl⟩
  jr_leave := by
    intro r ⟨s, hs⟩
    subst hs
    exact ⟨_, rfl⟩
  jr_adjust := by
    intro r ⟨s, hs⟩
    subst hs
    simp only [adjustR]
    split <;> exact ⟨_, rfl⟩

end

/-! ### leg L -/

/-- the congruence of leg L; the observing run "stops" when it panics in the dispatcher -/
def lexCong (H : Controller γ) (o : Flags) (d0 : Disp γ) : Cong (Disp (γ × Flags)) L where
  Rx x₁ x₂ := ObsR false x₁.sink (foldHints H d0 x₂.sink) ∧ ScanMode H (foldHints H d0 x₂.sink) ∧ x₁.sim = x₂.sim
  Jr r := ∃ l, r = .lexer l
  Stop r := ∃ s, r.2 = some (.err (.panic s)) ∧ s ≠ "debug_assert: Tag should exist at this point"
  Good _ := True

section
variable {H : Controller γ} {o : Flags} {d0 : Disp γ} {tbl : Table} {cfg : TagCfg} {inp : Bytes}

set_option quotPrecheck false in
local notation "envO" => (Env.mk tbl cfg (dispOps (withObs H o)) : Env (Disp (γ × Flags)))

/-- a tag lexeme whose name cannot be sliced: the observing dispatcher panics -/
theorem handleTag_name_none {d' : Disp (γ × Flags)} {d : Disp γ} (h : ObsR false d' d) (hm : ScanMode H d) (lx : TagLexeme)
    (hnone : match lx.outline with
      | .startTag name hsh _ _ _ => LocalName.new inp name hsh = none
      | .endTag name hsh => LocalName.new inp name hsh = none) :
    IsPanic (Disp.handleTag (withObs H o) inp lx d').2 := by
  obtain ⟨f1, f2, _, f4⟩ := flush_obs (H := H) (o := o) h
  rw [flush_idle hm.tp] at f1 f2
  have g2 : (d'.flushPendingText (withObs H o)).1.gotFlagsFromHint = false := f2.gf'
  have p2 : (d'.flushPendingText (withObs H o)).1.pendingAux = false := f2.pa'
  rw [handleTag_eq, DRes.bind_ok' _ f1, g2]
  simp only [Bool.false_eq_true, if_false]
  have hadj : ((d'.flushPendingText (withObs H o)).1.adjustFlagsForTag (withObs H o) inp lx).2 =
      .error (.panic "Bytes::slice out of range (tag name)") := by
    unfold Disp.adjustFlagsForTag
    rw [if_neg (by rw [p2]; simp)]
    cases hol : lx.outline with
    | startTag name hsh ns as sc =>
      rw [hol] at hnone
      simp only at hnone
      dsimp only
      rw [hnone]
    | endTag name hsh =>
      rw [hol] at hnone
      simp only at hnone
      dsimp only
      rw [hnone]
  rw [DRes.bind_err' _ hadj]
  exact ⟨_, rfl, by decide⟩

theorem lexL_same {c : Common} {l : LexRegs} {x₁ : Ctx (Disp (γ × Flags))} {x₂ : Ctx L} {sig : Option Signal}
    (h : (lexCong H o d0).Rx x₁ x₂) :
    (lexCong H o d0).Out ((⟨c, .lexer l, x₁⟩ : M (Disp (γ × Flags))), sig) ((⟨c, .lexer l, x₂⟩ : M L), sig) :=
  Or.inr ⟨⟨rfl, rfl, ⟨l, rfl⟩, h⟩, rfl, trivial⟩

theorem lexL_emitNonTag (c : Common) (l : LexRegs) (x₁ : Ctx (Disp (γ × Flags))) (x₂ : Ctx L)
    (ol : Option NonTagOutline) (e : Nat) (hx : (lexCong H o d0).Rx x₁ x₂) :
    (lexCong H o d0).Out (lexEmitNonTag envO inp c l x₁ ol e) (lexEmitNonTag (envL tbl cfg) inp c l x₂ ol e) := by
  obtain ⟨hR, hm, hsim⟩ := hx
  unfold lexEmitNonTag
  dsimp only [dispOps, envL, lexLog]
  rcases nonTag_scan_obs (H := H) (o := o) (inp := inp) hR hm ⟨x₁.prevConsumed, ⟨l.lexemeStart, e⟩, ol⟩ with
    ⟨s, hp, hne⟩ | ⟨hres, hR'⟩
  · left
    rw [hp]
    exact ⟨s, rfl, hne⟩
  · rw [hres]
    exact Or.inr ⟨⟨rfl, rfl, ⟨_, rfl⟩, hR', hm, hsim⟩, rfl, trivial⟩

theorem lexL_emitText (c : Common) (l : LexRegs) (x₁ : Ctx (Disp (γ × Flags))) (x₂ : Ctx L)
    (hx : (lexCong H o d0).Rx x₁ x₂) :
    (lexCong H o d0).Out (lexEmitText envO inp c l x₁) (lexEmitText (envL tbl cfg) inp c l x₂) := by
  unfold lexEmitText
  split
  · exact lexL_emitNonTag _ _ _ _ _ _ hx
  · exact lexL_same hx

theorem lexL_emitEof (m₁ : M (Disp (γ × Flags))) (m₂ : M L) (hm : (lexCong H o d0).MR m₁ m₂) :
    (lexCong H o d0).Out (lexEmitEof envO inp m₁) (lexEmitEof (envL tbl cfg) inp m₂) := by
  obtain ⟨c, r, x₁, x₂, rfl, rfl, ⟨l, rfl⟩, hx⟩ := hm.cases
  unfold lexEmitEof
  exact lexL_emitNonTag _ _ _ _ _ _ hx

theorem lexL_andThen {r₁ : M (Disp (γ × Flags)) × Option Signal} {r₂ : M L × Option Signal}
    {g₁ : M (Disp (γ × Flags)) → M (Disp (γ × Flags)) × Option Signal} {g₂ : M L → M L × Option Signal}
    (hr : (lexCong H o d0).Out r₁ r₂) (hg : ∀ m₁ m₂, (lexCong H o d0).MR m₁ m₂ → (lexCong H o d0).Out (g₁ m₁) (g₂ m₂)) :
    (lexCong H o d0).Out (andThen r₁ g₁) (andThen r₂ g₂) := by
  unfold andThen
  rcases hr with ⟨s, hs, hne⟩ | ⟨hm, hs, hgd⟩
  · left
    rw [hs]
    exact ⟨s, rfl, hne⟩
  · cases h2 : r₁.2 with
    | some s =>
      have : r₂.2 = some s := by rw [← hs, h2]
      rw [this]
      exact Or.inr ⟨hm, rfl, trivial⟩
    | none =>
      have : r₂.2 = none := by rw [← hs, h2]
      rw [this]
      exact hg _ _ hm

theorem forced_end_tag' (d : Disp γ) (ln : LocalName) (htp : d.textPending = false)
    (hstop : ({ d with ctl := (H.endTag d.ctl ln).1 } : Disp γ).shouldStopRemoving H = true) :
    (Disp.endTagHint H ln d).2 = .ok .lex := by
  unfold Disp.endTagHint
  rw [flush_idle htp, DRes.bind_ok' _ rfl]
  dsimp only
  rw [if_pos hstop]
  unfold Disp.applyHintFlags
  simp [Disp.nextDirective, Flags.isEmpty]

theorem lexL_emitTagLexeme (hs : StayScan H) (hh : HashOnly H) (ed : EmitDiscipline H) (ho : o.sticky = true)
    (c : Common) (l : LexRegs) (x₁ : Ctx (Disp (γ × Flags))) (x₂ : Ctx L)
    (sim : Sim) (t : TagOutline) (e : Nat) (hx : (lexCong H o d0).Rx x₁ x₂) :
    (lexCong H o d0).Out (lexEmitTagLexeme envO inp c l x₁ sim t e) (lexEmitTagLexeme (envL tbl cfg) inp c l x₂ sim t e) := by
  obtain ⟨hR, hm, hsim⟩ := hx
  unfold lexEmitTagLexeme
  dsimp only [dispOps, envL, lexLog]
  cases t with
  | startTag n h ns as sc =>
    cases hln : LocalName.new inp n h with
    | none =>
      obtain ⟨s, hp, hne⟩ := handleTag_name_none (H := H) (o := o) (inp := inp) hR hm
        ⟨x₁.prevConsumed, ⟨l.lexemeStart, e⟩, .startTag n h ns as sc⟩ hln
      left
      rw [hp]
      exact ⟨s, rfl, hne⟩
    | some ln =>
      have hst := hs.start (foldHints H d0 x₂.sink) ln ns hm
      rcases startTag_event_obs (inp := inp) ed ho hR hm ⟨x₁.prevConsumed, ⟨l.lexemeStart, e⟩, .startTag n h ns as sc⟩ rfl hln with
        ⟨e', he, _⟩ | ⟨_, ⟨s, hp, hne⟩ | ⟨hres, hR', hm'⟩⟩ | ⟨hlex, _⟩
      · rw [hst.1] at he; cases he
      · left
        rw [hp]
        exact ⟨s, rfl, hne⟩
      · rw [hres]
        refine Or.inr ⟨⟨rfl, rfl, ⟨_, rfl⟩, ?_, ?_, rfl⟩, rfl, trivial⟩
        · dsimp only
          rw [foldHints_snoc]
          have : hintEv H (foldHints H d0 x₂.sink) (.start h ns) = (Disp.startTagHint H ln ns (foldHints H d0 x₂.sink)).1 := by
            rw [startTagHint_hashOnly hh ln, lnHash_new hln]; rfl
          rw [this]
          exact hR'
        · dsimp only
          rw [foldHints_snoc]
          have : hintEv H (foldHints H d0 x₂.sink) (.start h ns) = (Disp.startTagHint H ln ns (foldHints H d0 x₂.sink)).1 := by
            rw [startTagHint_hashOnly hh ln, lnHash_new hln]; rfl
          rw [this]
          exact hm'
      · rw [hst.1] at hlex; cases hlex
  | endTag n h =>
    cases hln : LocalName.new inp n h with
    | none =>
      obtain ⟨s, hp, hne⟩ := handleTag_name_none (H := H) (o := o) (inp := inp) hR hm
        ⟨x₁.prevConsumed, ⟨l.lexemeStart, e⟩, .endTag n h⟩ hln
      left
      rw [hp]
      exact ⟨s, rfl, hne⟩
    | some ln =>
      have hst := hs.end_ (foldHints H d0 x₂.sink) ln hm
      rcases endTag_event_obs (inp := inp) ed ho hR hm ⟨x₁.prevConsumed, ⟨l.lexemeStart, e⟩, .endTag n h⟩ rfl hln with
        ⟨hstop, _⟩ | ⟨_, ⟨s, hp, hne⟩ | ⟨hres, hR', hm'⟩⟩ | ⟨hlex, _⟩
      · have := forced_end_tag' (H := H) _ ln hm.tp hstop
        rw [hst.1] at this; cases this
      · left
        rw [hp]
        exact ⟨s, rfl, hne⟩
      · rw [hres]
        refine Or.inr ⟨⟨rfl, rfl, ⟨_, rfl⟩, ?_, ?_, rfl⟩, rfl, trivial⟩
        · dsimp only
          rw [foldHints_snoc]
          have : hintEv H (foldHints H d0 x₂.sink) (.end_ h) = (Disp.endTagHint H ln (foldHints H d0 x₂.sink)).1 := by
            rw [endTagHint_hashOnly hh ln, lnHash_new hln]; rfl
          rw [this]
          exact hR'
        · dsimp only
          rw [foldHints_snoc]
          have : hintEv H (foldHints H d0 x₂.sink) (.end_ h) = (Disp.endTagHint H ln (foldHints H d0 x₂.sink)).1 := by
            rw [endTagHint_hashOnly hh ln, lnHash_new hln]; rfl
          rw [this]
          exact hm'
      · rw [hst.1] at hlex; cases hlex

theorem lexL_emitTag (hs : StayScan H) (hh : HashOnly H) (ed : EmitDiscipline H) (ho : o.sticky = true)
    (c : Common) (l : LexRegs) (x₁ : Ctx (Disp (γ × Flags))) (x₂ : Ctx L) (hx : (lexCong H o d0).Rx x₁ x₂) :
    (lexCong H o d0).Out (lexEmitTag envO inp c l x₁) (lexEmitTag (envL tbl cfg) inp c l x₂) := by
  have hsim := hx.2.2
  unfold lexEmitTag
  cases l.curTag with
  | none => exact lexL_same hx
  | some token =>
    dsimp only [envL]
    rw [hsim]
    cases lexGetFeedback cfg x₂.sim l.fd token with
    | error e => exact lexL_same hx
    | ok sf =>
      dsimp only
      split
      · exact lexL_same ⟨hx.1, hx.2.1, rfl⟩
      · exact lexL_emitTagLexeme hs hh ed ho _ _ _ _ _ _ _ hx

theorem lexAct_nosink_env {κ₁ κ₂ : Type} (e₁ : Env κ₁) (e₂ : Env κ₂) (a : ActName) (ha : a.callsSink = false) (c : Common)
    (l : LexRegs) (x₁ : Ctx κ₁) (x₂ : Ctx κ₂) :
    (lexAct e₁ a inp c l x₁).1.c = (lexAct e₂ a inp c l x₂).1.c ∧
    (lexAct e₁ a inp c l x₁).1.r = (lexAct e₂ a inp c l x₂).1.r ∧
    (lexAct e₁ a inp c l x₁).2 = (lexAct e₂ a inp c l x₂).2 := by
  cases a <;> simp only [ActName.callsSink, Bool.true_eq_false] at ha <;> simp only [lexAct] <;>
    (repeat' split) <;> simp_all

theorem lexL_ok (hs : StayScan H) (hh : HashOnly H) (ed : EmitDiscipline H) (ho : o.sticky = true) :
    (lexCong H o d0).OkS envO (envL tbl cfg) inp where
  tbl := rfl
  stop_err := fun r ⟨s, hs, _⟩ => ⟨_, hs⟩
  good_none := trivial
  good_panic := fun _ => trivial
  good_eoi := fun _ => trivial
  act := by
    intro a m₁ m₂ hm
    obtain ⟨c, r, x₁, x₂, rfl, rfl, ⟨l, rfl⟩, hx⟩ := hm.cases
    simp only [act]
    by_cases ha : a.callsSink = false
    · obtain ⟨h1, h2, h3⟩ := lexAct_nosink_env (inp := inp) envO (envL tbl cfg) a ha c l x₁ x₂
      have e1 := lexAct_x (env := envO) (inp := inp) a ha c l x₁
      have e2 := lexAct_x (env := envL tbl cfg) (inp := inp) a ha c l x₂
      have hk := lexAct_kind (env := envO) (inp := inp) a c l x₁
      obtain ⟨c', l', x', hd⟩ := lexer_destruct _ hk
      right
      exact ⟨⟨h1, h2, ⟨l', by rw [hd]⟩, by rw [e1, e2]; exact hx⟩, h3, trivial⟩
    · cases a <;> simp only [ActName.callsSink, not_true_eq_false, not_false_eq_true] at ha <;> simp only [lexAct]
      case emitText => exact lexL_emitText _ _ _ _ hx
      case emitTextAndEof => exact lexL_andThen (lexL_emitText _ _ _ _ hx) (fun m₁ m₂ hm => lexL_emitEof m₁ m₂ hm)
      case emitCurrentToken => exact lexL_emitNonTag _ _ _ _ _ _ hx
      case emitCurrentTokenAndEof =>
        exact lexL_andThen (lexL_emitNonTag _ _ _ _ _ _ hx) (fun m₁ m₂ hm => lexL_emitEof m₁ m₂ hm)
      case emitRawWithoutToken => exact lexL_emitNonTag _ _ _ _ _ _ hx
      case emitRawWithoutTokenAndEof =>
        exact lexL_andThen (lexL_emitNonTag _ _ _ _ _ _ hx) (fun m₁ m₂ hm => lexL_emitEof m₁ m₂ hm)
      case emitTag => exact lexL_emitTag hs hh ed ho _ _ _ _ hx
      case finishTagName => cases l.curTag <;> exact lexL_same hx
  silent := by
    intro a m₁ ha ⟨s, hs, hne⟩
    obtain ⟨c, r, x⟩ := m₁
    cases r with
    | lexer l =>
      simp only [act] at hs
      rcases lexAct_nosink_sig envO a ha c l x with h | h
      · rw [h] at hs; cases hs
      · rw [h] at hs
        simp only [Option.some.injEq, Signal.err.injEq, Err.panic.injEq] at hs
        exact hne hs.symm
    | scanner sc =>
      simp only [act] at hs
      have hnf : a ≠ .finishTagName := by intro h; subst h; simp [ActName.callsSink] at ha
      obtain ⟨c', s', hr⟩ := scanAct_ret (env := envO) (inp := inp) a hnf c sc x
      rw [hr] at hs
      cases hs
  pc := fun _ _ _ h => h
  jr_enter := by
    intro c r ⟨l, hl⟩
    subst hl
    exact ⟨_, rfl⟩
  jr_leave := by
    intro r ⟨l, hl⟩
    subst hl
    exact ⟨_, rfl⟩
  jr_adjust := by
    intro r ⟨l, hl⟩
    subst hl
    exact ⟨_, rfl⟩

end
end LolHtml.Model
