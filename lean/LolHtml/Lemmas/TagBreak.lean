import LolHtml.Lemmas.TagRun
import LolHtml.Lemmas.SpecAttrsWf
/-!
A start tag that straddles two input slices. The first slice ends inside the tag: the lexer breaks
(`break_on_end_of_input`), consumes the bytes before `<`, re-bases its registers (`Align`); the next
slice is `inp.drop i ++ more`; the run over it from the re-based machine reaches `emit_tag` with the
outline `Spec.Attrs` reads from `inp ++ more`, re-based by `i`.
-/
namespace LolHtml.Model.TagStates
open LolHtml LolHtml.Model LolHtml.Spec.Attrs

variable {κ : Type}

/-! ### list facts -/

theorem slice_drop {α : Type} (l : List α) (i a b : Nat) : slice (l.drop i) a b = slice l (i + a) (i + b) := by
  unfold slice
  rw [List.take_drop, List.drop_drop]

theorem slice_append_left {α : Type} (l1 l2 : List α) (s e : Nat) (h : e ≤ l1.length) :
    slice (l1 ++ l2) s e = slice l1 s e := by
  unfold slice
  rw [List.take_append_of_le_length h]

theorem valueless_align (n : Range) (o : Nat) : (valueless n).align o = valueless (n.align o) := rfl

/-- the frame of the next slice -/
def Frame.next (F : Frame κ) (il2 : Bool) : Frame κ :=
  ⟨il2, F.ca, F.lsh, F.ltt, 0, F.cnt.map (·.align F.ls), F.fd, F.x⟩

section
variable {env : Env κ} (hok : TagStatesOk env.tbl = true) {inp : Bytes} (F : Frame κ)
include hok

/-- the step taken from a middle state is the end-of-input step of a tag state -/
theorem mid_endStep (h start : Nat) (mid : Mid) (m' : M κ) (hmid : AtMid inp F h start mid m') :
    ∃ cE lE, stateFn env inp m' = eofStep env inp cE lE F.x ∧ cE.nextPos = inp.length + 1 ∧ cE.isLast = F.il ∧
      lE.lexemeStart = F.ls := by
  cases mid with
  | name =>
    obtain ⟨en, cq, cattr, nm0, rfl, hq, hsl, hh⟩ := hmid
    have hb : inp[inp.length]? = none := List.getElem?_eq_none (Nat.le_refl _)
    exact ⟨_, _, step31_eof hok hb, rfl, rfl, rfl⟩
  | attrs nm acc st =>
    obtain ⟨pm, S, en, cq, tps, cattr, rfl, ⟨hq, hrel⟩, hple, hend⟩ := hmid
    have plain : (∀ q n vs, st ≠ .valueQuoted q n vs) → inp[pm]? = none ∧ pm = inp.length := by
      intro hne
      have hdrop : inp.drop pm = [] := by
        rcases hend with h | ⟨q, n, vs, h, _⟩
        · exact h
        · exact absurd h (hne q n vs)
      exact ⟨getElem?_none_of_drop_nil hdrop, by rw [List.drop_eq_nil_iff] at hdrop; omega⟩
    cases st with
    | beforeAttrName sol =>
      obtain ⟨hb, hp⟩ := plain (by intro q n vs hc; simp at hc)
      subst hp
      simp only at hrel
      cases sol with
      | false =>
        simp only [Bool.false_eq_true, if_false] at hrel
        subst hrel
        exact ⟨_, _, step33_eof hok hb, rfl, rfl, rfl⟩
      | true =>
        simp only [if_true] at hrel
        subst hrel
        exact ⟨_, _, step32_eof hok hb, rfl, rfl, rfl⟩
    | attrName s =>
      obtain ⟨hb, hp⟩ := plain (by intro q n vs hc; simp at hc)
      subst hp
      obtain ⟨hS, _, _⟩ := hrel
      subst hS
      exact ⟨_, _, step34_eof hok hb, rfl, rfl, rfl⟩
    | afterAttrName n =>
      obtain ⟨hb, hp⟩ := plain (by intro q n vs hc; simp at hc)
      subst hp
      obtain ⟨hS, _⟩ := hrel
      subst hS
      exact ⟨_, _, step35_eof hok hb, rfl, rfl, rfl⟩
    | beforeAttrValue n =>
      obtain ⟨hb, hp⟩ := plain (by intro q n vs hc; simp at hc)
      subst hp
      obtain ⟨hS, _⟩ := hrel
      subst hS
      exact ⟨_, _, step36_eof hok hb, rfl, rfl, rfl⟩
    | valueQuoted q n vs =>
      obtain ⟨ha, hcq, hS, hen⟩ := hrel
      subst hcq
      have hf : findByte cq (inp.drop pm) = none := by
        rcases hend with h | ⟨q', n', vs', h, hf⟩
        · rw [h]; rfl
        · simp only [St.valueQuoted.injEq] at h
          obtain ⟨rfl, _, _⟩ := h
          exact hf
      have hnp : pm + 1 + (inp.drop pm).length = inp.length + 1 := by simp only [List.length_drop]; omega
      rcases hS with ⟨rfl, rfl⟩ | ⟨rfl, rfl⟩
      · rcases hen with ⟨hen1, _⟩ | ⟨hen1, _⟩ <;> subst hen1
        · exact ⟨_, _, step38_eof hok hf, hnp, rfl, rfl⟩
        · exact ⟨_, _, step38_eof_r hok hf, hnp, rfl, rfl⟩
      · rcases hen with ⟨hen1, _⟩ | ⟨hen1, _⟩ <;> subst hen1
        · exact ⟨_, _, step37_eof hok hf, hnp, rfl, rfl⟩
        · exact ⟨_, _, step37_eof_r hok hf, hnp, rfl, rfl⟩
    | valueUnquoted n vs =>
      obtain ⟨hb, hp⟩ := plain (by intro q n vs hc; simp at hc)
      subst hp
      obtain ⟨hS, hen, _, _⟩ := hrel
      subst hS hen
      exact ⟨_, _, step39_eof hok hb, rfl, rfl, rfl⟩

/-- **The break in an attribute state**: the end-of-input step of a non-last slice, and where it leaves
the machine: same tag state, everything positional re-based by `lexeme_start`, and still related to the
(re-based) spec state. -/
theorem mid_break_attrs (h start : Nat) (nm : Range) (acc : List AttrOutline) (st : St) (m' : M κ)
    (hil : F.il = false) (hls : F.ls ≤ inp.length) (hmid : AtMid inp F h start (.attrs nm acc st) m') :
    ∃ S en cq tps cattr,
      stateFn env inp m' =
        (mach (F.next false) (inp.length - F.ls) S en cq tps
          (some (.startTag (nm.align F.ls) h .html (acc.map (·.align F.ls)) false)) cattr,
         some (.endOfInput F.ls)) ∧
      Rel (st.align F.ls) (inp.length - F.ls) S en cq tps cattr := by
  obtain ⟨pm, S, en, cq, tps, cattr, rfl, ⟨hq, hrel⟩, hple, hend⟩ := hmid
  have fin : ∀ (c : Common) (l : LexRegs), c.isLast = false → l.lexemeStart = F.ls → c.nextPos = inp.length + 1 →
      eofStep env inp c l F.x =
        (⟨{ c with nextPos := inp.length - F.ls },
          .lexer { l with tokenPartStart := alignNat l.tokenPartStart F.ls,
                          curTag := l.curTag.map (·.align F.ls),
                          curNonTag := l.curNonTag.map (·.align F.ls),
                          curAttr := l.curAttr.map (·.align F.ls),
                          lexemeStart := 0 }, F.x⟩,
         some (.endOfInput F.ls)) := by
    intro c l h1 h2 h3
    rw [eofStep_break env inp c l F.x h1 (by omega), h2, h3]
    congr 3
  cases st with
  | beforeAttrName sol =>
    simp only at hrel
    have hdrop : inp.drop pm = [] := by
      rcases hend with h | ⟨q, n, vs, h, _⟩
      · exact h
      · simp at h
    have hb := getElem?_none_of_drop_nil hdrop
    have hp : pm = inp.length := by rw [List.drop_eq_nil_iff] at hdrop; omega
    subst hp
    cases sol with
    | false =>
      simp only [Bool.false_eq_true, if_false] at hrel
      subst hrel
      refine ⟨33, en, cq, alignNat tps F.ls, cattr.map (·.align F.ls), ?_, hq, rfl⟩
      rw [step33_eof hok hb, fin _ _ hil rfl rfl]
      simp [mach, Frame.next, hil, TagOutline.align]
    | true =>
      simp only [if_true] at hrel
      subst hrel
      refine ⟨32, en, cq, alignNat tps F.ls, cattr.map (·.align F.ls), ?_, hq, rfl⟩
      rw [step32_eof hok hb, fin _ _ hil rfl rfl]
      simp [mach, Frame.next, hil, TagOutline.align]
  | attrName s =>
    obtain ⟨hS, htps, a, ha⟩ := hrel
    subst hS htps ha
    have hdrop : inp.drop pm = [] := by
      rcases hend with h | ⟨q, n, vs, h, _⟩
      · exact h
      · simp at h
    have hb := getElem?_none_of_drop_nil hdrop
    have hp : pm = inp.length := by rw [List.drop_eq_nil_iff] at hdrop; omega
    subst hp
    refine ⟨34, en, cq, alignNat tps F.ls, some (a.align F.ls), ?_, hq, rfl, rfl, _, rfl⟩
    rw [step34_eof hok hb, fin _ _ hil rfl rfl]
    simp [mach, Frame.next, hil, TagOutline.align]
  | afterAttrName n =>
    obtain ⟨hS, ha⟩ := hrel
    subst hS ha
    have hdrop : inp.drop pm = [] := by
      rcases hend with h | ⟨q, n, vs, h, _⟩
      · exact h
      · simp at h
    have hb := getElem?_none_of_drop_nil hdrop
    have hp : pm = inp.length := by rw [List.drop_eq_nil_iff] at hdrop; omega
    subst hp
    refine ⟨35, en, cq, alignNat tps F.ls, some (valueless (n.align F.ls)), ?_, hq, rfl, rfl⟩
    rw [step35_eof hok hb, fin _ _ hil rfl rfl]
    simp [mach, Frame.next, hil, TagOutline.align, valueless_align]
  | beforeAttrValue n =>
    obtain ⟨hS, ha⟩ := hrel
    subst hS ha
    have hdrop : inp.drop pm = [] := by
      rcases hend with h | ⟨q, n, vs, h, _⟩
      · exact h
      · simp at h
    have hb := getElem?_none_of_drop_nil hdrop
    have hp : pm = inp.length := by rw [List.drop_eq_nil_iff] at hdrop; omega
    subst hp
    refine ⟨36, en, cq, alignNat tps F.ls, some (valueless (n.align F.ls)), ?_, hq, rfl, rfl⟩
    rw [step36_eof hok hb, fin _ _ hil rfl rfl]
    simp [mach, Frame.next, hil, TagOutline.align, valueless_align]
  | valueQuoted q n vs =>
    obtain ⟨ha, hcq, hS, hen⟩ := hrel
    subst ha hcq
    have hf : findByte cq (inp.drop pm) = none := by
      rcases hend with h | ⟨q', n', vs', h, hf⟩
      · rw [h]; rfl
      · simp only [St.valueQuoted.injEq] at h
        obtain ⟨rfl, _, _⟩ := h
        exact hf
    have hnp : pm + 1 + (inp.drop pm).length = inp.length + 1 := by simp only [List.length_drop]; omega
    rcases hS with ⟨rfl, rfl⟩ | ⟨rfl, rfl⟩
    · rcases hen with ⟨hen1, hvs⟩ | ⟨hen1, hvs⟩ <;> subst hen1 <;> subst vs
      · refine ⟨38, true, 34, alignNat pm F.ls, some (valueless (n.align F.ls)), ?_, Or.inl rfl, rfl, rfl, Or.inl ⟨rfl, rfl⟩, Or.inr ⟨rfl, rfl⟩⟩
        rw [step38_eof hok hf, fin _ _ hil rfl hnp]
        simp [mach, Frame.next, hil, TagOutline.align, valueless_align]
      · refine ⟨38, true, 34, alignNat tps F.ls, some (valueless (n.align F.ls)), ?_, Or.inl rfl, rfl, rfl, Or.inl ⟨rfl, rfl⟩, Or.inr ⟨rfl, rfl⟩⟩
        rw [step38_eof_r hok hf, fin _ _ hil rfl hnp]
        simp [mach, Frame.next, hil, TagOutline.align, valueless_align]
    · rcases hen with ⟨hen1, hvs⟩ | ⟨hen1, hvs⟩ <;> subst hen1 <;> subst vs
      · refine ⟨37, true, 39, alignNat pm F.ls, some (valueless (n.align F.ls)), ?_, Or.inr rfl, rfl, rfl, Or.inr ⟨rfl, rfl⟩, Or.inr ⟨rfl, rfl⟩⟩
        rw [step37_eof hok hf, fin _ _ hil rfl hnp]
        simp [mach, Frame.next, hil, TagOutline.align, valueless_align]
      · refine ⟨37, true, 39, alignNat tps F.ls, some (valueless (n.align F.ls)), ?_, Or.inr rfl, rfl, rfl, Or.inr ⟨rfl, rfl⟩, Or.inr ⟨rfl, rfl⟩⟩
        rw [step37_eof_r hok hf, fin _ _ hil rfl hnp]
        simp [mach, Frame.next, hil, TagOutline.align, valueless_align]
  | valueUnquoted n vs =>
    obtain ⟨hS, hen, htps, ha⟩ := hrel
    subst hS hen htps ha
    have hdrop : inp.drop pm = [] := by
      rcases hend with h | ⟨q, n, vs, h, _⟩
      · exact h
      · simp at h
    have hb := getElem?_none_of_drop_nil hdrop
    have hp : pm = inp.length := by rw [List.drop_eq_nil_iff] at hdrop; omega
    subst hp
    refine ⟨39, true, cq, alignNat tps F.ls, some (valueless (n.align F.ls)), ?_, hq, rfl, rfl, rfl, rfl⟩
    rw [step39_eof hok hb, fin _ _ hil rfl rfl]
    simp [mach, Frame.next, hil, TagOutline.align, valueless_align]

/-- **The break inside the tag name.** -/
theorem mid_break_name (h start : Nat) (m' : M κ) (hil : F.il = false) (hls : F.ls ≤ inp.length)
    (hmid : AtMid inp F h start .name m') :
    ∃ en cq cattr nm0,
      stateFn env inp m' =
        (mach (F.next false) (inp.length - F.ls) 31 en cq (alignNat start F.ls)
          (some (.startTag nm0 h .html [] false)) cattr,
         some (.endOfInput F.ls)) ∧ (cq = 34 ∨ cq = 39) := by
  obtain ⟨en, cq, cattr, nm0, rfl, hq, hsl, hh⟩ := hmid
  have hb : inp[inp.length]? = none := List.getElem?_eq_none (Nat.le_refl _)
  refine ⟨en, cq, cattr.map (·.align F.ls), nm0.align F.ls, ?_, hq⟩
  rw [step31_eof hok hb, eofStep_break env inp _ _ F.x hil (by simp; omega)]
  simp [mach, Frame.next, hil, TagOutline.align]

omit hok in
theorem startTagRun_split {bs : Bytes} {i : Nat} {r : Tag ⊕ Mid} (h : startTagRun bs i = some r) :
    ∃ b rest0, bs.drop i = 60 :: b :: rest0 ∧ isAsciiAlpha b = true ∧ r = tagNameRun (i + 1) rest0 (i + 2) := by
  unfold startTagRun at h
  split at h
  · rename_i b rest0 heq
    split at h
    · rename_i ha
      simp only [Option.some.injEq] at h
      exact ⟨b, rest0, heq, ha, h.symm⟩
    · simp at h
  · simp at h

omit hok in
theorem startTagRun_append {bs more : Bytes} {i : Nat} {b : UInt8} {rest0 : List UInt8}
    (hd : bs.drop i = 60 :: b :: rest0) (ha : isAsciiAlpha b = true) :
    startTagRun (bs ++ more) i = some (tagNameRun (i + 1) (rest0 ++ more) (i + 2)) := by
  have hi : i ≤ bs.length := by
    rcases Nat.lt_or_ge bs.length i with h | h
    · rw [List.drop_eq_nil_of_le (by omega)] at hd; simp at hd
    · exact h
  unfold startTagRun
  rw [List.drop_append_of_le_length hi, hd]
  simp [ha]

/-- **A start tag across two slices.** The first slice `inp` (not the last one) ends inside the tag that
starts at `i`; the tag, read by the spec from `inp ++ more`, is finished (`t`). Then the run on `inp`
ends with `endOfInput i` leaving the parser context untouched, and from the machine it leaves (with the
next slice's `is_last` flag) the run on the next slice `inp.drop i ++ more` reaches `emit_tag` with the
spec's outline re-based by `i`. -/
theorem run_across_break (i : Nat) (hls : F.ls = i) (hil : F.il = false) (en : Bool) (cq : UInt8)
    (hq : cq = 34 ∨ cq = 39) (tps : Nat) (ct : Option TagOutline) (cattr : Option AttrOutline)
    (more : Bytes) (mid : Mid) (hspec1 : startTagRun inp i = some (.inr mid))
    (t : Tag) (hspec : startTagAt (inp ++ more) i = some (.finished t)) (il2 : Bool) :
    ∃ k1 mA, (∀ fuel, runLoop env inp (k1 + 1 + fuel) (mach F i 2 en cq tps ct cattr) = (mA, .endOfInput i)) ∧
      mA.x = F.x ∧
      Reaches env (inp.drop i ++ more) (F.next il2) (tagHash (inp ++ more) t) (t.align i) (inp.length - i)
        { mA with c := { mA.c with isLast := il2 } } := by
  subst hls
  obtain ⟨k, m', hmid, hrun⟩ := run_startTag hok F F.ls rfl en cq hq tps ct cattr (.inr mid) hspec1
  obtain ⟨b, rest0, hd, ha, hr1⟩ := startTagRun_split hspec1
  have hlen : F.ls + 2 + rest0.length = inp.length := by
    have := congrArg List.length hd
    simp only [List.length_drop, List.length_cons] at this
    omega
  have hspec2 := startTagRun_of_finished hspec
  rw [startTagRun_append hd ha] at hspec2
  simp only [Option.some.injEq] at hspec2
  obtain ⟨w1, w2, w3, w4, _, _⟩ := startTagAt_wf _ _ _ hspec
  have hdrop2 : (inp.drop F.ls ++ more).drop (inp.length - F.ls) = more := by
    have : (inp.drop F.ls).length = inp.length - F.ls := by simp
    rw [← this, List.drop_left]
  have hple2 : inp.length - F.ls ≤ (inp.drop F.ls ++ more).length := by simp
  have runs : ∀ (mA : M κ), stateFn env inp m' = (mA, some (.endOfInput F.ls)) →
      ∀ fuel, runLoop env inp (k + 1 + fuel) (mach F F.ls 2 en cq tps ct cattr) = (mA, .endOfInput F.ls) := by
    intro mA hs fuel
    rw [show k + 1 + fuel = k + (fuel + 1) by omega, hrun (fuel + 1), runLoop_succ, hs]
    rfl
  cases mid with
  | attrs nm acc st =>
    obtain ⟨S, en', cq', tps', cattr', hstep, hrel⟩ :=
      mid_break_attrs hok F _ (F.ls + 1) nm acc st m' hil (by omega) hmid
    refine ⟨k, _, runs _ hstep, rfl, ?_⟩
    -- the spec over `rest0 ++ more`, composed and re-based
    have happ := tagNameRun_append (F.ls + 1) rest0 more (F.ls + 2)
    rw [← hr1, hspec2] at happ
    simp only at happ
    rw [show F.ls + 2 + rest0.length = inp.length by omega] at happ
    have halign := attrsRun_align nm F.ls more acc st inp.length (by omega)
    rw [← happ] at halign
    have hname : t.name = nm := (attrsRun_name nm more acc st inp.length).1 t happ.symm
    have hnend := tagNameRun_name (F.ls + 1) rest0 (F.ls + 2) nm acc st hr1.symm
    have hG := run_attrs hok (F.next il2) (nm.align F.ls) (midHash inp (F.ls + 1) (.attrs nm acc st)) 0 more.length more
      (Nat.le_refl _) (st.align F.ls) (inp.length - F.ls) S en' cq' tps' cattr' (acc.map (·.align F.ls))
      hdrop2 hple2 hrel _ halign
    have hhash : midHash inp (F.ls + 1) (.attrs nm acc st) = tagHash (inp ++ more) t := by
      unfold midHash tagHash
      rw [hname, slice_append_left _ _ _ _ (by omega)]
    rw [hhash] at hG ⊢
    exact hG
  | name =>
    obtain ⟨en', cq', cattr', nm0, hstep, hq'⟩ := mid_break_name hok F _ (F.ls + 1) m' hil (by omega) hmid
    refine ⟨k, _, runs _ hstep, rfl, ?_⟩
    have happ := tagNameRun_append (F.ls + 1) rest0 more (F.ls + 2)
    rw [← hr1, hspec2] at happ
    simp only at happ
    rw [show F.ls + 2 + rest0.length = inp.length by omega] at happ
    have halign := tagNameRun_align (F.ls + 1) F.ls more inp.length (by omega) (by omega)
    rw [← happ] at halign
    have hstart : alignNat (F.ls + 1) F.ls = F.ls + 1 - F.ls := alignNat_ge (by omega)
    have hhh : midHash inp (F.ls + 1) .name =
        NameHash.ofBytes (slice (inp.drop F.ls ++ more) (F.ls + 1 - F.ls) (inp.length - F.ls)) := by
      unfold midHash
      have e1 : inp.drop F.ls ++ more = (inp ++ more).drop F.ls := by
        rw [List.drop_append_of_le_length (by omega)]
      rw [e1, slice_drop, show F.ls + (F.ls + 1 - F.ls) = F.ls + 1 by omega,
        show F.ls + (inp.length - F.ls) = inp.length by omega, slice_append_left _ _ _ _ (Nat.le_refl _)]
    have hG := run_tagName hok (F.next il2) (F.ls + 1 - F.ls) more.length more (Nat.le_refl _) (inp.length - F.ls) en' cq'
      cattr' nm0 (midHash inp (F.ls + 1) .name) hdrop2 hple2 hq' (by omega) hhh _ halign
    have hhash : tagHash (inp.drop F.ls ++ more) (t.align F.ls) = tagHash (inp ++ more) t := by
      unfold tagHash
      have e1 : inp.drop F.ls ++ more = (inp ++ more).drop F.ls := by
        rw [List.drop_append_of_le_length (by omega)]
      simp only [Tag.align, Range.align]
      rw [alignNat_ge (by omega), alignNat_ge (by omega), e1, slice_drop,
        show F.ls + (t.name.start - F.ls) = t.name.start by omega,
        show F.ls + (t.name.end - F.ls) = t.name.end by omega]
    rw [hstart]
    show Reaches _ _ _ (tagHash (inp ++ more) t) _ _ _
    rw [← hhash]
    exact hG

end
end LolHtml.Model.TagStates
