import LolHtml.Lemmas.Esc

/-! Lemmas about the WHATWG comment machine of `Spec.Esc.CommentEnd` and lol-html's reject shapes. -/
namespace LolHtml.Lemmas.EscComment
open LolHtml LolHtml.Model.Esc LolHtml.Spec.Esc LolHtml.Spec.Esc.CommentEnd

/-! ## `containsSeq` is the infix relation -/

theorem containsSeq_iff_infix (x : Bytes) : ∀ (t : Bytes), containsSeq x t = true ↔ x <:+: t
  | [] => by
    simp only [containsSeq, List.isEmpty_iff]
    constructor
    · intro h; subst h; exact ⟨[], [], rfl⟩
    · intro h; exact List.eq_nil_of_infix_nil h
  | b :: t => by
    simp only [containsSeq, Bool.or_eq_true, List.infix_cons_iff, containsSeq_iff_infix x t,
      List.isPrefixOf_iff_prefix]

/-! ## Flattened transition function (reconsume edges resolved) -/

/-- `none` = the comment token is emitted on this byte. -/
def next : State → UInt8 → Option State
  | .commentStart, b => if b = 45 then some .commentStartDash else if b = 62 then none else if b = 60 then some .lessThanSign else some .comment
  | .commentStartDash, b => if b = 45 then some .commentEnd else if b = 62 then none else if b = 60 then some .lessThanSign else some .comment
  | .comment, b => if b = 60 then some .lessThanSign else if b = 45 then some .commentEndDash else some .comment
  | .lessThanSign, b => if b = 33 then some .lessThanSignBang else if b = 60 then some .lessThanSign else if b = 45 then some .commentEndDash else some .comment
  | .lessThanSignBang, b => if b = 45 then some .lessThanSignBangDash else if b = 60 then some .lessThanSign else some .comment
  | .lessThanSignBangDash, b => if b = 45 then some .lessThanSignBangDashDash else if b = 60 then some .lessThanSign else some .comment
  | .lessThanSignBangDashDash, b => if b = 62 then none else if b = 33 then some .commentEndBang else if b = 45 then some .commentEnd else if b = 60 then some .lessThanSign else some .comment
  | .commentEndDash, b => if b = 45 then some .commentEnd else if b = 60 then some .lessThanSign else some .comment
  | .commentEnd, b => if b = 62 then none else if b = 33 then some .commentEndBang else if b = 45 then some .commentEnd else if b = 60 then some .lessThanSign else some .comment
  | .commentEndBang, b => if b = 45 then some .commentEndDash else if b = 62 then none else if b = 60 then some .lessThanSign else some .comment

/-- The fuel of `consume` always suffices, and its state component is `next`. -/
theorem consume_next (st : State) (data : Bytes) (b : UInt8) :
    ∃ d, consume st data b = some (next st b, d) := by
  by_cases h45 : b = 45
  · subst h45; cases st <;> exact ⟨_, rfl⟩
  by_cases h62 : b = 62
  · subst h62; cases st <;> exact ⟨_, rfl⟩
  by_cases h60 : b = 60
  · subst h60; cases st <;> exact ⟨_, rfl⟩
  by_cases h33 : b = 33
  · subst h33; cases st <;> exact ⟨_, rfl⟩
  by_cases h0 : b = 0
  · subst h0; cases st <;> exact ⟨_, rfl⟩
  cases st <;> simp [consume, consumeFuel, step, next, h45, h62, h60, h33]

/-- Where the comment ends, by the flattened transition. -/
def endPos : State → Bytes → Option Nat
  | _, [] => none
  | st, b :: rest =>
    match next st b with
    | none => some 1
    | some st' => (endPos st' rest).map (· + 1)

theorem run_snd (st : State) (data : Bytes) : ∀ (input : Bytes) ,
    (run st data input).map (·.2) = endPos st input := by
  intro input
  induction input generalizing st data with
  | nil => rfl
  | cons b rest ih =>
    obtain ⟨d, hd⟩ := consume_next st data b
    unfold run endPos
    rw [hd]
    cases hn : next st b with
    | none => rfl
    | some st' =>
      simp only
      rw [← ih st' d]
      cases run st' d rest <;> rfl

/-- State after a prefix (`none` = the comment was closed inside the prefix). -/
def after : State → Bytes → Option State
  | st, [] => some st
  | st, b :: rest => (next st b).bind (after · rest)

theorem after_append (st : State) (p q : Bytes) :
    after st (p ++ q) = (after st p).bind (after · q) := by
  induction p generalizing st with
  | nil => rfl
  | cons b p ih =>
    simp only [List.cons_append, after]
    cases next st b with
    | none => rfl
    | some s => simp only [Option.bind_some]; exact ih s

theorem endPos_append_of_after_some : ∀ (p : Bytes) (st q : State) (r : Bytes),
    after st p = some q → endPos st (p ++ r) = (endPos q r).map (· + p.length)
  | [], st, q, r, h => by
    simp only [after, Option.some.injEq] at h
    subst h
    cases h' : endPos st r <;> simp [h']
  | b :: p, st, q, r, h => by
    simp only [after] at h
    cases hn : next st b with
    | none => rw [hn] at h; cases h
    | some s =>
      rw [hn] at h
      simp only [Option.bind_some] at h
      simp only [List.cons_append, endPos, hn]
      rw [endPos_append_of_after_some p s q r h]
      cases endPos q r <;> simp [Nat.add_assoc]

theorem endPos_append_of_after_none : ∀ (p : Bytes) (st : State),
    after st p = none → ∃ k, k ≤ p.length ∧ ∀ r, endPos st (p ++ r) = some k
  | [], st, h => by cases h
  | b :: p, st, h => by
    simp only [after] at h
    cases hn : next st b with
    | none => exact ⟨1, by simp, fun r => by simp [endPos, hn]⟩
    | some s =>
      rw [hn] at h
      simp only [Option.bind_some] at h
      obtain ⟨k, hk, hr⟩ := endPos_append_of_after_none p s h
      exact ⟨k + 1, by simp; omega, fun r => by simp [endPos, hn, hr r]⟩

/-! ## Sufficiency: an accepted text never closes the comment -/

/-- What each state remembers about the bytes consumed so far (`rp` = consumed bytes, most recent
first). -/
def Inv : State → Bytes → Prop
  | .commentStart, rp => rp = []
  | .commentStartDash, rp => rp = [45]
  | .comment, _ => True
  | .lessThanSign, _ => True
  | .lessThanSignBang, _ => True
  | .lessThanSignBangDash, rp => ∃ x, rp = 45 :: x
  | .commentEndDash, rp => ∃ x, rp = 45 :: x
  | .lessThanSignBangDashDash, rp => ∃ x, rp = 45 :: 45 :: x
  | .commentEnd, rp => ∃ x, rp = 45 :: 45 :: x
  | .commentEndBang, rp => ∃ x, rp = 33 :: 45 :: 45 :: x

theorem step_inv (q : State) (rp : Bytes) (b : UInt8) (hinv : Inv q rp)
    (h1 : ∀ x, b :: rp ≠ 62 :: 45 :: 45 :: x) (h2 : ∀ x, b :: rp ≠ 62 :: 33 :: 45 :: 45 :: x)
    (h3 : b :: rp ≠ [62]) (h4 : b :: rp ≠ [62, 45]) :
    ∃ q1, next q b = some q1 ∧ Inv q1 (b :: rp) := by
  by_cases h45 : b = 45
  · subst h45
    cases q <;> simp only [Inv] at hinv <;> simp [next, Inv, hinv]
    all_goals (try (obtain ⟨x, hx⟩ := hinv; simp [hx]))
  by_cases h62 : b = 62
  · subst h62
    cases q <;> simp only [Inv] at hinv <;> simp [next, Inv]
    all_goals (first
      | (subst hinv; simp at h3 h4)
      | (obtain ⟨x, hx⟩ := hinv; subst hx; first | exact absurd rfl (h1 _) | exact absurd rfl (h2 _)))
  by_cases h60 : b = 60
  · subst h60
    cases q <;> simp [next, Inv]
  by_cases h33 : b = 33
  · subst h33
    cases q <;> simp only [Inv] at hinv <;> simp [next, Inv, hinv]
    all_goals (try (obtain ⟨x, hx⟩ := hinv; simp [hx]))
  cases q <;> simp [next, Inv, h45, h62, h60, h33]

/-- The four shapes of WHATWG comment terminators inside a comment body (reference list). -/
def AcceptedRef (t : Bytes) : Prop :=
  ¬ [45, 45, 62] <:+: t ∧ ¬ [45, 45, 33, 62] <:+: t ∧ ¬ [62] <+: t ∧ ¬ [45, 62] <+: t

theorem after_of_accepted : ∀ (rest rp : Bytes) (q : State), Inv q rp →
    AcceptedRef (rp.reverse ++ rest) → ∃ q', after q rest = some q'
  | [], _, q, _, _ => ⟨q, rfl⟩
  | b :: r, rp, q, hinv, hacc => by
    obtain ⟨a1, a2, a3, a4⟩ := hacc
    have h1 : ∀ x, b :: rp ≠ 62 :: 45 :: 45 :: x := by
      intro x h
      simp only [List.cons.injEq] at h
      obtain ⟨hb, hrp⟩ := h
      subst hb; subst hrp
      exact a1 ⟨x.reverse, r, by simp⟩
    have h2 : ∀ x, b :: rp ≠ 62 :: 33 :: 45 :: 45 :: x := by
      intro x h
      simp only [List.cons.injEq] at h
      obtain ⟨hb, hrp⟩ := h
      subst hb; subst hrp
      exact a2 ⟨x.reverse, r, by simp⟩
    have h3 : b :: rp ≠ [62] := by
      intro h
      simp only [List.cons.injEq] at h
      obtain ⟨hb, hrp⟩ := h
      subst hb; subst hrp
      exact a3 ⟨r, by simp⟩
    have h4 : b :: rp ≠ [62, 45] := by
      intro h
      simp only [List.cons.injEq] at h
      obtain ⟨hb, hrp⟩ := h
      subst hb; subst hrp
      exact a4 ⟨r, by simp⟩
    obtain ⟨q1, hq1, hinv1⟩ := step_inv q rp b hinv h1 h2 h3 h4
    have hacc' : AcceptedRef ((b :: rp).reverse ++ r) := by
      have : (b :: rp).reverse ++ r = rp.reverse ++ b :: r := by simp
      rw [this]; exact ⟨a1, a2, a3, a4⟩
    obtain ⟨q', hq'⟩ := after_of_accepted r (b :: rp) q1 hinv1 hacc'
    exact ⟨q', by simp [after, hq1, hq']⟩

theorem endPos_close (q : State) (r : Bytes) : endPos q (45 :: 45 :: 62 :: r) = some 3 := by
  cases q <;> simp [endPos, next]

/-- Sufficiency: if none of the four shapes occurs, the comment ends exactly at the final `-->`. -/
theorem endPos_of_accepted {t : Bytes} (h : AcceptedRef t) (r : Bytes) :
    endPos .commentStart (t ++ [45, 45, 62] ++ r) = some (t.length + 3) := by
  obtain ⟨q, hq⟩ := after_of_accepted t [] .commentStart rfl (by simpa using h)
  rw [List.append_assoc, endPos_append_of_after_some t _ q _ hq]
  simp only [List.cons_append, List.nil_append, endPos_close, Option.map_some]
  congr 1; omega

/-! ## Lists extracted from the Rust: side-conditions -/

def allStates : List State :=
  [.commentStart, .commentStartDash, .comment, .lessThanSign, .lessThanSignBang, .lessThanSignBangDash,
   .lessThanSignBangDashDash, .commentEndDash, .commentEnd, .commentEndBang]

theorem mem_allStates (q : State) : q ∈ allStates := by cases q <;> simp [allStates]

/-- The reject lists cover the four reference shapes. -/
def coversRef (cc cp : List Bytes) : Bool :=
  cc.contains [45, 45, 62] && cc.contains [45, 45, 33, 62] && cp.contains [62] && cp.contains [45, 62]

/-- Every rejected shape really closes a comment: a `contains` shape from every state of the comment
machine, a `starts_with` shape from the comment start state. -/
def allClose (cc cp : List Bytes) : Bool :=
  cc.all (fun x => allStates.all fun q => (after q x).isNone) &&
    cp.all (fun x => (after .commentStart x).isNone)

theorem accepted_of_not_closing {cc cp : List Bytes} (hs : coversRef cc cp = true) {t : Bytes}
    (h : containsClosingWith cc cp t = false) : AcceptedRef t := by
  simp only [coversRef, Bool.and_eq_true, List.contains_eq_mem, decide_eq_true_eq] at hs
  obtain ⟨⟨⟨s1, s2⟩, s3⟩, s4⟩ := hs
  simp only [containsClosingWith, Bool.or_eq_false_iff, List.any_eq_false] at h
  obtain ⟨hc, hp⟩ := h
  refine ⟨?_, ?_, ?_, ?_⟩
  · intro hi; exact hc _ s1 ((containsSeq_iff_infix _ _).mpr hi)
  · intro hi; exact hc _ s2 ((containsSeq_iff_infix _ _).mpr hi)
  · intro hi; exact hp _ s3 (List.isPrefixOf_iff_prefix.mpr hi)
  · intro hi; exact hp _ s4 (List.isPrefixOf_iff_prefix.mpr hi)

/-- Necessity: a rejected text closes the comment no later than its own last byte, whatever follows. -/
theorem endPos_of_closing {cc cp : List Bytes} (hn : allClose cc cp = true) {t : Bytes}
    (h : containsClosingWith cc cp t = true) :
    ∃ k, k ≤ t.length ∧ ∀ r, endPos .commentStart (t ++ r) = some k := by
  simp only [allClose, Bool.and_eq_true, List.all_eq_true, Option.isNone_iff_eq_none] at hn
  obtain ⟨hcc, hcp⟩ := hn
  simp only [containsClosingWith, Bool.or_eq_true, List.any_eq_true] at h
  have key : ∃ p c, t = p ++ c ∧ after .commentStart p = none := by
    rcases h with ⟨x, hx, hxt⟩ | ⟨x, hx, hxt⟩
    · obtain ⟨a, c, hac⟩ := (containsSeq_iff_infix _ _).mp hxt
      refine ⟨a ++ x, c, hac.symm, ?_⟩
      rw [after_append]
      cases ha : after .commentStart a with
      | none => rfl
      | some q => exact hcc x hx q (mem_allStates q)
    · obtain ⟨c, hc⟩ := List.isPrefixOf_iff_prefix.mp hxt
      exact ⟨x, c, hc.symm, hcp x hx⟩
  obtain ⟨p, c, hpc, hnone⟩ := key
  obtain ⟨k, hk, hr⟩ := endPos_append_of_after_none p .commentStart hnone
  refine ⟨k, by rw [hpc]; simp; omega, fun r => ?_⟩
  rw [hpc, List.append_assoc]
  exact hr (c ++ r)

end LolHtml.Lemmas.EscComment

/-! ## The comment token's data is the inserted text -/
namespace LolHtml.Lemmas.EscComment
open LolHtml LolHtml.Model.Esc LolHtml.Spec.Esc LolHtml.Spec.Esc.CommentEnd

/-- Bytes consumed by a state but not yet appended to the comment data. -/
def pend : State → Bytes
  | .commentStartDash => [45]
  | .lessThanSignBangDash => [45]
  | .lessThanSignBangDashDash => [45, 45]
  | .commentEndDash => [45]
  | .commentEnd => [45, 45]
  | .commentEndBang => [45, 45, 33]
  | _ => []

/-- What the tokenizer records for one byte: U+0000 becomes U+FFFD. -/
def nulByte (b : UInt8) : Bytes := if b = 0 then [0xEF, 0xBF, 0xBD] else [b]

/-- The comment data a WHATWG tokenizer reports for the text `t`. -/
def nulMap (t : Bytes) : Bytes := t.flatMap nulByte

theorem consume_data (st : State) (data : Bytes) (b : UInt8) :
    ∃ d, consume st data b = some (next st b, d) ∧
      (∀ q1, next st b = some q1 → d ++ pend q1 = data ++ pend st ++ nulByte b) ∧
      (next st b = none → d = data) := by
  by_cases h45 : b = 45
  · subst h45; cases st <;> exact ⟨_, rfl, by simp [next, pend, nulByte], by simp [next]⟩
  by_cases h62 : b = 62
  · subst h62; cases st <;> exact ⟨_, rfl, by simp [next, pend, nulByte], by simp [next]⟩
  by_cases h60 : b = 60
  · subst h60; cases st <;> exact ⟨_, rfl, by simp [next, pend, nulByte], by simp [next]⟩
  by_cases h33 : b = 33
  · subst h33; cases st <;> exact ⟨_, rfl, by simp [next, pend, nulByte], by simp [next]⟩
  by_cases h0 : b = 0
  · subst h0; cases st <;> exact ⟨_, rfl, by simp [next, pend, nulByte], by simp [next]⟩
  cases st <;> simp [consume, consumeFuel, step, next, pend, nulByte, h45, h62, h60, h33, h0]

theorem run_cons (st : State) (data : Bytes) (b : UInt8) (rest : Bytes) :
    run st data (b :: rest) =
      match consume st data b with
      | none => none
      | some (none, d) => some (d, 1)
      | some (some st', d) => (run st' d rest).map fun (d', n) => (d', n + 1) := by
  rw [run]; rfl

/-- Data recorded after consuming a whole prefix without closing the comment. -/
theorem run_data : ∀ (p : Bytes) (st q : State) (data r : Bytes), after st p = some q →
    ∃ d, d ++ pend q = data ++ pend st ++ nulMap p ∧
      run st data (p ++ r) = (run q d r).map fun (d', n) => (d', n + p.length)
  | [], st, q, data, r, h => by
    simp only [after, Option.some.injEq] at h
    subst h
    refine ⟨data, by simp [nulMap], ?_⟩
    cases hrun : run st data r <;> simp [hrun]
  | b :: p, st, q, data, r, h => by
    simp only [after] at h
    obtain ⟨d1, hc, hd1, _⟩ := consume_data st data b
    cases hn : next st b with
    | none => rw [hn] at h; cases h
    | some s =>
      rw [hn] at h hc
      simp only [Option.bind_some] at h
      obtain ⟨d, hd, hr⟩ := run_data p s q d1 r h
      refine ⟨d, ?_, ?_⟩
      · rw [hd, hd1 s hn]; simp [nulMap, List.append_assoc]
      · simp only [List.cons_append]
        rw [run_cons, hc]
        simp only
        rw [hr]
        cases run q d r <;> simp [Nat.add_assoc]

theorem close_from (q : State) :
    ∃ q1 q2, next q 45 = some q1 ∧ next q1 45 = some q2 ∧ pend q2 = [45, 45] ∧ next q2 62 = none := by
  cases q <;> simp [next, pend]

/-- Sufficiency with data: the token emitted at the final `-->` carries exactly the text
(U+0000 recorded as U+FFFD). -/
theorem run_of_accepted {t : Bytes} (h : AcceptedRef t) (r : Bytes) :
    run .commentStart [] (t ++ [45, 45, 62] ++ r) = some (nulMap t, t.length + 3) := by
  obtain ⟨q, hq⟩ := after_of_accepted t [] .commentStart rfl (by simpa using h)
  obtain ⟨q1, q2, h1, h2, hp2, h3⟩ := close_from q
  have hafter : after .commentStart (t ++ [45, 45]) = some q2 := by
    rw [after_append, hq]; simp [after, h1, h2]
  obtain ⟨d, hd, hr⟩ := run_data (t ++ [45, 45]) .commentStart q2 [] (62 :: r) hafter
  have hd' : d = nulMap t := by
    rw [hp2] at hd
    simp only [pend, List.nil_append, nulMap, List.flatMap_append] at hd
    have : List.flatMap nulByte [45, 45] = [45, 45] := by decide
    rw [this] at hd
    exact List.append_cancel_right hd
  obtain ⟨d3, hc3, _, hd3⟩ := consume_data q2 d 62
  rw [h3] at hc3
  have e : t ++ [45, 45, 62] ++ r = t ++ [45, 45] ++ 62 :: r := by simp
  have hrun : run q2 d (62 :: r) = some (d, 1) := by
    rw [run_cons, hc3, hd3 h3]
  rw [e, hr, hrun, hd']
  simp only [Option.map_some, List.length_append, List.length_cons, List.length_nil]
  congr 2; omega

end LolHtml.Lemmas.EscComment
