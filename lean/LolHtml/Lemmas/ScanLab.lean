import LolHtml.Lemmas.ScanLexSim
import LolHtml.Lemmas.RelexDefs
/-!
Label invariants of a scanner machine (position-free): in a state labelled with a text type
`last_text_type` has that value (`TextTypeOk`); in a state labelled `outClean`/`inTag`
`is_in_end_tag` is clear (`PhaseOk`); the sink has no pending aux-info request.
-/
set_option linter.unusedSimpArgs false
set_option linter.unusedVariables false

namespace LolHtml.Model

variable {κ : Type}

/-- what the parser needs to know about a sink flag "an aux-info request is pending": only a start-tag
hint answered "lex" can raise it -/
structure PendLaw (ops : SinkOps κ) (Pend : κ → Bool) (K : Bool) : Prop where
  /-- a hint answered "scan" never raises the flag -/
  start : ∀ n ns k, Pend k = false → (ops.startTagHint n ns k).2 = .ok .scan → Pend (ops.startTagHint n ns k).1 = false
  end_ : ∀ n k, Pend k = false → (ops.endTagHint n k).2 = .ok .scan → Pend (ops.endTagHint n k).1 = false
  /-- only a hint of kind `K` (`true`: start tag, `false`: end tag) can raise it -/
  otherE : K = true → ∀ n k, Pend k = false → Pend (ops.endTagHint n k).1 = false
  otherS : K = false → ∀ n ns k, Pend k = false → Pend (ops.startTagHint n ns k).1 = false

def EndOk (ab : Ab) (iet : Bool) : Prop := (ab = .outClean ∨ ab = .inTag) → iet = false

def M.iet (m : M κ) : Bool := match m.r with | .scanner s => s.isInEndTag | .lexer _ => false

/-- mid-arm form: abstract text type `v`, abstract phase `ab` -/
structure LabMid (Pend : κ → Bool) (v : Option TextType) (ab : Ab) (m : M κ) : Prop where
  scan : m.isScanner = true
  tt : ∀ tt, v = some tt → m.c.lastTextType = tt
  endc : EndOk ab m.iet
  pend : Pend m.x.sink = false

def LabInv (TT : TLabels) (P : PLabels) (Pend : κ → Bool) (m : M κ) : Prop :=
  LabMid Pend (TT.at m.c.state) (P.at m.c.state) m

theorem LabMid.congr {Pend : κ → Bool} {v : Option TextType} {ab : Ab} {m m' : M κ} (h : LabMid Pend v ab m)
    (h1 : m'.isScanner = true) (h2 : m'.c.lastTextType = m.c.lastTextType) (h3 : m'.iet = m.iet)
    (h4 : m'.x.sink = m.x.sink) : LabMid Pend v ab m' :=
  ⟨h1, by rw [h2]; exact h.tt, by rw [h3]; exact h.endc, by rw [h4]; exact h.pend⟩

section
variable {env : Env κ} {inp : Bytes} {Pend : κ → Bool} {K : Bool}

theorem scanEmitHint_lab (hlaw : PendLaw env.ops Pend K) (c : Common) (s : ScanRegs) (x : Ctx κ) (ts : Nat) (ie : Bool)
    (hp : Pend x.sink = false) (hnone : (scanEmitHint env inp c s x ts ie).2 = none) :
    ∃ c' x', (scanEmitHint env inp c s x ts ie).1 = ⟨c', .scanner s, x'⟩ ∧ c'.lastTextType = c.lastTextType ∧
      Pend x'.sink = false := by
  unfold scanEmitHint at hnone ⊢
  split at hnone
  · simp at hnone
  · rename_i name hname
    dsimp only at hnone ⊢
    cases ie with
    | true =>
      simp only [if_true] at hnone ⊢
      cases hr : (env.ops.endTagHint name x.sink).2 with
      | error e => simp [hr] at hnone
      | ok d =>
        cases d with
        | lex => simp [hr] at hnone
        | scan => exact ⟨_, _, rfl, rfl, hlaw.end_ _ _ hp hr⟩
    | false =>
      simp only [Bool.false_eq_true, if_false] at hnone ⊢
      cases hr : (env.ops.startTagHint name x.sim.currentNs x.sink).2 with
      | error e => simp [hr] at hnone
      | ok d =>
        cases d with
        | lex => simp [hr] at hnone
        | scan => exact ⟨_, _, rfl, rfl, hlaw.start _ _ _ hp hr⟩

theorem scanFinishTagName_lab (hlaw : PendLaw env.ops Pend K) (c : Common) (s : ScanRegs) (x : Ctx κ)
    (hp : Pend x.sink = false) (hnone : (scanFinishTagName env inp c s x).2 = none) :
    ∃ c' s' x', (scanFinishTagName env inp c s x).1 = ⟨c', .scanner s', x'⟩ ∧ c'.lastTextType = c.lastTextType ∧
      s'.isInEndTag = false ∧ Pend x'.sink = false := by
  unfold scanFinishTagName at hnone ⊢
  cases hts : s.tagStart with
  | none => simp [hts] at hnone
  | some ts =>
    simp only [hts] at hnone ⊢
    split at hnone
    · simp at hnone
    · rename_i sf hsf
      cases hf : sf.2 with
      | requestLexeme k => simp [hf, scanApplyFeedback] at hnone
      | switchTextType t =>
        simp only [hf, scanApplyFeedback] at hnone ⊢
        obtain ⟨c', x', h1, h2, h3⟩ := scanEmitHint_lab (inp := inp) hlaw _ _ _ _ _ (by exact hp) hnone
        exact ⟨c', _, x', h1, h2, rfl, h3⟩
      | setAllowCdata b =>
        simp only [hf, scanApplyFeedback] at hnone ⊢
        obtain ⟨c', x', h1, h2, h3⟩ := scanEmitHint_lab (inp := inp) hlaw _ _ _ _ _ (by exact hp) hnone
        exact ⟨c', _, x', h1, h2, rfl, h3⟩
      | none =>
        simp only [hf, scanApplyFeedback] at hnone ⊢
        obtain ⟨c', x', h1, h2, h3⟩ := scanEmitHint_lab (inp := inp) hlaw _ _ _ _ _ (by exact hp) hnone
        exact ⟨c', _, x', h1, h2, rfl, h3⟩

theorem EndOk_unreach_false {ab : Ab} {a : ActName} {ab' : Ab} (h : phAct a ab = some ab') : ab ≠ .unreach := by
  intro he; subst he; cases a <;> simp [phAct] at h

/-- one action of a scanner machine on the label invariants -/
theorem act_lab (hlaw : PendLaw env.ops Pend K) (a : ActName) (v : Option TextType) (ab ab' : Ab)
    (hph : phAct a ab = some ab') (m : M κ) (h : LabMid Pend v ab m)
    (hsig : silentAct a = true ∨ (act env a inp m).2 = none) :
    LabMid Pend (ttAct a v) ab' (act env a inp m).1 := by
  obtain ⟨c, s, x, rfl⟩ := scanner_destruct m h.scan
  have hne := EndOk_unreach_false hph
  obtain ⟨h1, h2, h3, h4⟩ := h
  simp only [M.iet] at h3
  simp only [act] at hsig ⊢
  cases a
  case finishTagName =>
    simp only [silentAct, Bool.false_eq_true, false_or, scanAct] at hsig
    obtain ⟨c', s', x', e1, e2, e3, e4⟩ := scanFinishTagName_lab (inp := inp) hlaw c s x h4 hsig
    simp only [scanAct]
    rw [e1]
    exact ⟨rfl, fun tt htt => by rw [e2]; exact h2 tt (by simpa [ttAct] using htt), fun _ => by simpa [M.iet] using e3, e4⟩
  case emitTag =>
    simp only [scanAct]
    refine ⟨rfl, fun tt htt => by simp [ttAct] at htt, ?_, h4⟩
    cases ab <;> simp [phAct] at hph
    subst hph
    intro _
    exact h3 (Or.inr rfl)
  case enterCdata =>
    simp only [scanAct]
    have : ab' = ab := by cases ab <;> simp_all [phAct]
    subst this
    exact ⟨rfl, fun tt htt => by simp [ttAct] at htt; simpa using htt, h3, h4⟩
  case leaveCdata =>
    simp only [scanAct]
    have : ab' = ab := by cases ab <;> simp_all [phAct]
    subst this
    exact ⟨rfl, fun tt htt => by simp [ttAct] at htt; simpa using htt, h3, h4⟩
  case createStartTag =>
    simp only [scanAct]
    cases ab <;> simp [phAct] at hph
    subst hph
    exact ⟨rfl, h2, h3, h4⟩
  case createEndTag =>
    simp only [scanAct]
    have : ab' = .outEnd := by cases ab <;> simp_all [phAct]
    subst this
    exact ⟨rfl, h2, fun hh => by rcases hh with hh | hh <;> simp at hh, h4⟩
  case updateTagNameHash =>
    simp only [scanAct]
    have : ab' = ab := by cases ab <;> simp_all [phAct]
    subst this
    split <;> exact ⟨rfl, h2, h3, h4⟩
  all_goals
    simp only [scanAct]
    have : ab' = ab := by cases ab <;> simp_all [phAct]
    subst this
    exact ⟨rfl, h2, h3, h4⟩

theorem runCalls_lab (hlaw : PendLaw env.ops Pend K) (calls : List Call) (v : Option TextType) (ab ab' : Ab)
    (hph : phCalls calls ab = some ab') (hq : callsOk calls = true) (m : M κ) (h : LabMid Pend v ab m)
    (hnone : (runCalls env inp calls m).2 = none) :
    LabMid Pend (ttCalls calls v) ab' (runCalls env inp calls m).1 := by
  induction calls generalizing v ab m with
  | nil =>
    simp only [phCalls, Option.some.injEq] at hph
    subst hph; exact h
  | cons cl rest ih =>
    simp only [phCalls] at hph
    cases hab1 : phAct cl.act ab with
    | none => simp [hab1] at hph
    | some ab1 =>
      simp only [hab1] at hph
      simp only [callsOk, List.all_cons, Bool.and_eq_true, Bool.or_eq_true] at hq
      obtain ⟨hq1, hq2⟩ := hq
      simp only [ttCalls]
      cases hqq : cl.q with
      | true =>
        rw [runCalls_cons_q _ _ _ hqq] at hnone ⊢
        cases hrs : (act env cl.act inp m).2 with
        | some sig => simp [hrs] at hnone
        | none =>
          simp only [hrs] at hnone ⊢
          exact ih _ _ hph (by simpa [callsOk] using hq2) _ (act_lab hlaw cl.act v ab ab1 hab1 m h (Or.inr hrs)) hnone
      | false =>
        rw [runCalls_cons_nq _ _ _ hqq] at hnone ⊢
        have hsil : silentAct cl.act = true := by
          rcases hq1 with h' | h'
          · rw [hqq] at h'; simp at h'
          · exact h'
        exact ih _ _ hph (by simpa [callsOk] using hq2) _ (act_lab hlaw cl.act v ab ab1 hab1 m h (Or.inl hsil)) hnone


theorem EndOk_le {ab tgt : Ab} {b : Bool} (hle : ab.le tgt = true) (h : EndOk ab b) : EndOk tgt b := by
  cases ab <;> cases tgt <;> simp [Ab.le] at hle <;> first | exact h | (intro hh; rcases hh with hh | hh <;> simp at hh)

theorem tt_flows {v tgt : Option TextType} {x : TextType} (hf : ttFlows v tgt = true)
    (h : ∀ tt, v = some tt → x = tt) : ∀ tt, tgt = some tt → x = tt := by
  intro tt htt
  simp only [ttFlows, Bool.or_eq_true, Option.isNone_iff_eq_none, beq_iff_eq] at hf
  rcases hf with hf | hf
  · rw [hf] at htt; simp at htt
  · exact h tt (by rw [hf]; exact htt)

theorem PhaseOk_state {t : Table} {P : PLabels} {i : StateId} {sd : StateDef} (h : PhaseOk t P = true)
    (hs : t.state? i = some sd) : stateOkP t P i sd = true := by
  have := allIdxP_get (k := 0) h hs
  simpa using this

theorem TextTypeOk_state {t : Table} {TT : TLabels} {i : StateId} {sd : StateDef} (h : TextTypeOk t TT = true)
    (hs : t.state? i = some sd) : ttStateOk t TT i sd = true := by
  simp only [TextTypeOk, Bool.and_eq_true] at h
  have := allIdx_get (k := 0) h.1 hs
  simpa using this

theorem TextTypeOk_text {t : Table} {TT : TLabels} (h : TextTypeOk t TT = true) (tt : TextType) :
    ttFlows (some tt) (TT.at (t.textState tt)) = true := by
  simp only [TextTypeOk, Bool.and_eq_true, List.all_eq_true] at h
  exact h.2 tt (by cases tt <;> simp [allTextTypes])

/-- what a state-function call of a scanner machine keeps: the label invariants, unless it signals an
error or a hand-over -/
def LabPost (TT : TLabels) (P : PLabels) (Pend : κ → Bool) (r : M κ × Option Signal) : Prop :=
  match r.2 with
  | none => LabInv TT P Pend r.1
  | some (.endOfInput _) => LabInv TT P Pend r.1
  | _ => True

section
variable {env : Env κ} {inp : Bytes} {Pend : κ → Bool} {K : Bool} {TT : TLabels} {P : PLabels}

theorem applyTrans_labcore (t : Trans) (m : M κ) :
    (applyTrans env t m).1.isScanner = m.isScanner ∧ (applyTrans env t m).1.c.lastTextType = m.c.lastTextType ∧
    (applyTrans env t m).1.iet = m.iet ∧ (applyTrans env t m).1.x.sink = m.x.sink := by
  cases t <;> simp only [applyTrans]
  · refine ⟨?_, ?_, ?_, ?_⟩ <;> first | rfl | trivial
  · refine ⟨?_, ?_, ?_, ?_⟩ <;> first | rfl | trivial
  · split <;> (refine ⟨?_, ?_, ?_, ?_⟩ <;> first | rfl | trivial)

theorem runSeq_lab (hlaw : PendLaw env.ops Pend K) (htt : TextTypeOk env.tbl TT = true) (q : ActSeq) (self : StateId)
    (hp : seqOkP env.tbl P self q = true)
    (ht : ttTransOk env.tbl TT self (ttCalls q.calls (TT.at self)) q.trans = true)
    (m : M κ) (h : LabMid Pend (TT.at self) (P.at self) m) (hst : m.c.state = self)
    (hnone : (runSeq env inp q m).2.1 = none) :
    LabInv TT P Pend (runSeq env inp q m).1 ∧
    ((runSeq env inp q m).2.2 = .fell → (runSeq env inp q m).1.c.state = self) := by
  simp only [seqOkP, Bool.and_eq_true] at hp
  obtain ⟨hq, hp⟩ := hp
  cases habs : phCalls q.calls (P.at self) with
  | none => simp [habs] at hp
  | some ab' =>
    simp only [habs] at hp
    have hfr := (runCalls_frame (env := env) (inp := inp) q.calls m h.scan).1
    unfold runSeq at hnone ⊢
    dsimp only at hnone ⊢
    cases hrs : (runCalls env inp q.calls m).2 with
    | some sig => simp [hrs] at hnone
    | none =>
      have hmid := runCalls_lab (inp := inp) hlaw q.calls _ _ _ habs hq m h hrs
      simp only [hrs] at hnone ⊢
      cases htr : q.trans with
      | none =>
        simp only [htr, transOk, ttTransOk] at hp ht ⊢
        refine ⟨?_, fun _ => by rw [hfr.state, hst]⟩
        unfold LabInv
        rw [hfr.state, hst]
        exact ⟨hmid.scan, tt_flows ht hmid.tt, EndOk_le hp hmid.endc, hmid.pend⟩
      | some t =>
        simp only [htr] at hnone hp ht ⊢
        obtain ⟨a1, a2, a3, a4⟩ := applyTrans_labcore (env := env) t (runCalls env inp q.calls m).1
        refine ⟨?_, fun hc => by simp at hc⟩
        unfold LabInv
        cases t with
        | goto j =>
          simp only [transOk, ttTransOk] at hp ht
          have hs : (applyTrans env (.goto j) (runCalls env inp q.calls m).1).1.c.state = j := rfl
          rw [hs]
          exact ⟨by rw [a1]; exact hmid.scan, by rw [a2]; exact tt_flows ht hmid.tt, by rw [a3]; exact EndOk_le hp hmid.endc,
            by rw [a4]; exact hmid.pend⟩
        | reconsume j =>
          simp only [transOk, ttTransOk] at hp ht
          have hs : (applyTrans env (.reconsume j) (runCalls env inp q.calls m).1).1.c.state = j := by
            simp only [applyTrans] at hnone ⊢
            split
            · rename_i h0; simp [h0] at hnone
            · rfl
          rw [hs]
          exact ⟨by rw [a1]; exact hmid.scan, by rw [a2]; exact tt_flows ht hmid.tt, by rw [a3]; exact EndOk_le hp hmid.endc,
            by rw [a4]; exact hmid.pend⟩
        | gotoDyn =>
          simp only [transOk, ttTransOk, List.all_eq_true] at hp ht
          have hs : (applyTrans env .gotoDyn (runCalls env inp q.calls m).1).1.c.state
              = env.tbl.textState (runCalls env inp q.calls m).1.c.lastTextType := rfl
          rw [hs]
          refine ⟨by rw [a1]; exact hmid.scan, ?_, by rw [a3]; exact EndOk_le (hp _ (textState_mem _ _)) hmid.endc,
            by rw [a4]; exact hmid.pend⟩
          rw [a2]
          -- the target is the text state of the actual text type
          have hself := TextTypeOk_text htt (runCalls env inp q.calls m).1.c.lastTextType
          intro tt htt'
          have := tt_flows hself (x := (runCalls env inp q.calls m).1.c.lastTextType) (fun tt h => by simp at h; exact h) tt htt'
          exact this

theorem bodyOkP_seq {t : Table} {self : StateId} {b : Body} {q : ActSeq} (h : bodyOkP t P self b = true)
    (hq : q ∈ b.seqs) : seqOkP t P self q = true := by
  cases b with
  | seq s => simp [Body.seqs] at hq; subst hq; exact h
  | ite c x y =>
    simp only [bodyOkP, Bool.and_eq_true] at h
    simp [Body.seqs] at hq
    rcases hq with rfl | rfl
    · exact h.1.2
    · exact h.2

/-- facts about one arm of the current state -/
structure ArmLab (e : Env κ) (T : TLabels) (Q : PLabels) (self : StateId) (a : Arm) : Prop where
  ph : bodyOkP e.tbl Q self a.body = true
  tt : ∀ q ∈ a.body.seqs, ttTransOk e.tbl T self (ttCalls q.calls (T.at self)) q.trans = true

theorem runBody_lab (hlaw : PendLaw env.ops Pend K) (htt : TextTypeOk env.tbl TT = true) (a : Arm) (self : StateId)
    (ha : ArmLab env TT P self a) (m : M κ) (h : LabMid Pend (TT.at self) (P.at self) m) (hst : m.c.state = self)
    (hnone : (runBody env inp a.body m).2.1 = none) :
    LabInv TT P Pend (runBody env inp a.body m).1 ∧
    ((runBody env inp a.body m).2.2 = .fell → (runBody env inp a.body m).1.c.state = self) := by
  obtain ⟨q, hq, hrun⟩ := runBody_seq (env := env) (inp := inp) a.body m h.scan
  rw [hrun] at hnone ⊢
  obtain ⟨haph, hatt⟩ := ha
  exact runSeq_lab hlaw htt q self (bodyOkP_seq haph hq) (hatt q hq) m h hst hnone

theorem break_lab {m : M κ} {self : StateId} (h : LabMid Pend (TT.at self) (P.at self) m) (hst : m.c.state = self) :
    LabPost TT P Pend (breakOnEndOfInput inp m) := by
  obtain ⟨c, s, x, rfl⟩ := scanner_destruct m h.scan
  unfold breakOnEndOfInput
  dsimp only
  have key : ∀ m' : M κ, m'.isScanner = true → m'.c = c → m'.iet = s.isInEndTag → m'.x = x →
      LabPost TT P Pend (if m'.c.nextPos = 0 ∨ m'.c.nextPos - 1 < consumedByteCount inp (⟨c, .scanner s, x⟩ : M κ) then
        (m', some (.err (.panic "break_on_end_of_input: pos - consumed_byte_count underflow")))
      else ({ m' with c := { m'.c with nextPos := m'.c.nextPos - 1 - consumedByteCount inp (⟨c, .scanner s, x⟩ : M κ) } },
        some (.endOfInput (consumedByteCount inp (⟨c, .scanner s, x⟩ : M κ))))) := by
    intro m' k1 k2 k3 k4
    split
    · simp [LabPost]
    · simp only [LabPost, LabInv]
      simp only at hst
      refine ⟨k1, ?_, ?_, ?_⟩
      · simp only [k2, hst]; exact h.tt
      · simp only [k2, hst]
        show EndOk _ m'.iet
        rw [k3]; exact h.endc
      · simp only [k4]; exact h.pend
  split
  · exact key _ rfl rfl rfl rfl
  · apply key
    · unfold adjustForNextInput; dsimp only; split <;> rfl
    · unfold adjustForNextInput; dsimp only; split <;> rfl
    · unfold adjustForNextInput; dsimp only; split <;> rfl
    · unfold adjustForNextInput; dsimp only; split <;> rfl

theorem LabPost_of_sig {r : M κ × Option Signal} (h1 : r.2 ≠ none) (h2 : Signal.isEnd r.2 = false) :
    LabPost TT P Pend r := by
  unfold LabPost
  split
  · rename_i h; exact absurd h h1
  · rename_i h; simp [h, Signal.isEnd] at h2
  · trivial

theorem finishArm_lab (hlaw : PendLaw env.ops Pend K) (htt : TextTypeOk env.tbl TT = true) (a : Arm) (self : StateId)
    (ha : ArmLab env TT P self a) (m : M κ) (h : LabMid Pend (TT.at self) (P.at self) m) (hst : m.c.state = self) :
    LabPost TT P Pend (finishArm inp (runBody env inp a.body m)) := by
  have hS := (runBody_scan (env := env) (inp := inp) a.body m h.scan)
  unfold finishArm
  cases hs : (runBody env inp a.body m).2.1 with
  | some sig =>
    apply LabPost_of_sig (by simp)
    rw [hs] at hS; exact hS.1
  | none =>
    obtain ⟨h1, h2⟩ := runBody_lab hlaw htt a self ha m h hst hs
    cases he : (runBody env inp a.body m).2.2 with
    | transitioned => simp only [LabPost]; exact h1
    | fell =>
      dsimp only
      have hstate := h2 he
      unfold LabInv at h1
      rw [hstate] at h1
      exact break_lab h1 hstate

theorem seqMark_labcore (m : M κ) :
    ((enterSeq m).isScanner = m.isScanner ∧ (enterSeq m).c = m.c ∧ (enterSeq m).iet = m.iet ∧ (enterSeq m).x = m.x) ∧
    ((leaveSeq m).isScanner = m.isScanner ∧ (leaveSeq m).c = m.c ∧ (leaveSeq m).iet = m.iet ∧ (leaveSeq m).x = m.x) := by
  constructor
  · unfold enterSeq; split <;> simp_all [M.isScanner, M.iet]
  · unfold leaveSeq; split <;> simp_all [M.isScanner, M.iet]

theorem LabMid.move {v : Option TextType} {ab : Ab} {m m' : M κ} (h : LabMid Pend v ab m)
    (h1 : m'.isScanner = m.isScanner) (h2 : m'.c.lastTextType = m.c.lastTextType) (h3 : m'.iet = m.iet) (h4 : m'.x = m.x) :
    LabMid Pend v ab m' :=
  h.congr (by rw [h1]; exact h.scan) h2 h3 (by rw [h4])

theorem runSeqArms_lab (hlaw : PendLaw env.ops Pend K) (htt : TextTypeOk env.tbl TT = true) (self : StateId)
    (ch : Option UInt8) (arms : List Arm) (hsub : ∀ a ∈ arms, ArmLab env TT P self a) (m : M κ)
    (h : LabMid Pend (TT.at self) (P.at self) m) (hst : m.c.state = self) :
    match runSeqArms env inp ch arms m with
    | .inl r => LabPost TT P Pend r
    | .inr m' => LabMid Pend (TT.at self) (P.at self) m' ∧ m'.c.state = self := by
  induction arms generalizing m with
  | nil => simp only [runSeqArms]; exact ⟨h, hst⟩
  | cons arm rest ih =>
    have hrest : ∀ a ∈ rest, ArmLab env TT P self a := fun a ha => hsub a (by simp [ha])
    have harm := hsub arm (by simp)
    obtain ⟨⟨e1, e2, e3, e4⟩, _⟩ := seqMark_labcore m
    obtain ⟨_, ⟨l1, l2, l3, l4⟩⟩ := seqMark_labcore (enterSeq m)
    have hskip := ih hrest (leaveSeq (enterSeq m))
      (h.move (by rw [l1, e1]) (by rw [l2, e2]) (by rw [l3, e3]) (by rw [l4, e4])) (by rw [l2, e2]; exact hst)
    by_cases hseq : ∃ bytes ic, arm.pat = .chSeq bytes ic
    · obtain ⟨bytes, ic, hpat⟩ := hseq
      cases bytes with
      | nil => rw [runSeqArms_cons_nil ch arm rest m ic hpat]; exact hskip
      | cons e0 es =>
        rw [runSeqArms_cons_cons ch arm rest m ic e0 es hpat]
        cases firstMatch inp (enterSeq m) ch e0 es ic with
        | needMore =>
          dsimp only
          exact break_lab (h.move e1 (by rw [e2]) e3 e4) (by rw [e2]; exact hst)
        | mismatch => exact hskip
        | matched =>
          dsimp only
          have hm2 : LabMid Pend (TT.at self) (P.at self)
              (leaveSeq { enterSeq m with c := { (enterSeq m).c with nextPos := (enterSeq m).c.nextPos + es.length } }) := by
            obtain ⟨_, ⟨k1, k2, k3, k4⟩⟩ := seqMark_labcore
              ({ enterSeq m with c := { (enterSeq m).c with nextPos := (enterSeq m).c.nextPos + es.length } } : M κ)
            refine h.move ?_ ?_ ?_ ?_
            · rw [k1]; simp only [M.isScanner] at e1 ⊢; exact e1
            · rw [k2]; simp only; rw [e2]
            · rw [k3]; simp only [M.iet] at e3 ⊢; exact e3
            · rw [k4]; exact e4
          have hst2 : (leaveSeq { enterSeq m with c := { (enterSeq m).c with nextPos := (enterSeq m).c.nextPos + es.length } }).c.state = self := by
            rw [(seqMark_labcore _).2.2.1]; simp only; rw [e2]; exact hst
          have hS := runBody_scan (env := env) (inp := inp) arm.body _ hm2.scan
          cases hs : (runBody env inp arm.body (leaveSeq { enterSeq m with c := { (enterSeq m).c with nextPos := (enterSeq m).c.nextPos + es.length } })).2.1 with
          | some sig =>
            apply LabPost_of_sig (by simp [hs])
            simp only [hs]; rw [hs] at hS; exact hS.1
          | none =>
            simp only [LabPost, hs]
            exact (runBody_lab hlaw htt arm self harm _ hm2 hst2 hs).1
    · have hnp : ∀ b ic, arm.pat ≠ .chSeq b ic := fun b ic hp => hseq ⟨b, ic, hp⟩
      rw [runSeqArms_cons_other ch arm rest m hnp]
      exact ih hrest m h hst

theorem afterSeq_lab (hlaw : PendLaw env.ops Pend K) (htt : TextTypeOk env.tbl TT = true) (self : StateId)
    (ch : Option UInt8) (arms : List Arm) (hsub : ∀ a ∈ arms, ArmLab env TT P self a) (m : M κ)
    (h : LabMid Pend (TT.at self) (P.at self) m) (hst : m.c.state = self) :
    LabPost TT P Pend (afterSeq env inp ch arms m) := by
  unfold afterSeq
  cases hf : findArm env.tbl m.c ch arms with
  | none => exact LabPost_of_sig (by simp) rfl
  | some arm =>
    have harm := hsub arm (findArm_sel hf).1
    dsimp only
    split
    · exact finishArm_lab hlaw htt arm self harm m h hst
    · split
      · exact finishArm_lab hlaw htt arm self harm m h hst
      · exact break_lab h hst
    · have hS := runBody_scan (env := env) (inp := inp) arm.body m h.scan
      cases hs : (runBody env inp arm.body m).2.1 with
      | some sig =>
        apply LabPost_of_sig (by simp [hs])
        simp only [hs]; rw [hs] at hS; exact hS.1
      | none =>
        simp only [LabPost, hs]
        exact (runBody_lab hlaw htt arm self harm m h hst hs).1

theorem dispatch_lab (hlaw : PendLaw env.ops Pend K) (htt : TextTypeOk env.tbl TT = true) (self : StateId)
    (ch : Option UInt8) (arms : List Arm) (hsub : ∀ a ∈ arms, ArmLab env TT P self a) (m : M κ)
    (h : LabMid Pend (TT.at self) (P.at self) m) (hst : m.c.state = self) :
    LabPost TT P Pend (dispatch env inp ch arms m) := by
  rw [dispatch_eq]
  have := runSeqArms_lab (inp := inp) hlaw htt self ch arms hsub m h hst
  cases hs : runSeqArms env inp ch arms m with
  | inl r => rw [hs] at this; exact this
  | inr m' => rw [hs] at this; exact afterSeq_lab hlaw htt self ch arms hsub m' this.1 this.2

/-- **The label invariants are kept by every state-function call of a scanner machine.** -/
theorem stateFn_lab (hlaw : PendLaw env.ops Pend K) (htt : TextTypeOk env.tbl TT = true)
    (hph : PhaseOk env.tbl P = true) (m : M κ) (h : LabInv TT P Pend m) :
    LabPost TT P Pend (stateFn env inp m) := by
  rw [stateFn_preConsume]
  cases hsd : env.tbl.state? m.c.state with
  | none => exact LabPost_of_sig (by simp) rfl
  | some sd =>
    have hP := PhaseOk_state hph hsd
    have hT := TextTypeOk_state htt hsd
    simp only [stateOkP, Bool.and_eq_true, beq_iff_eq, List.all_eq_true] at hP
    simp only [ttStateOk, Bool.and_eq_true, List.all_eq_true] at hT
    obtain ⟨⟨⟨_, hq⟩, habs⟩, harms⟩ := hP
    have hsub : ∀ a ∈ sd.arms, ArmLab env TT P m.c.state a := fun a ha => ⟨harms a ha, hT.2 a ha⟩
    dsimp only
    -- the prelude
    have hpre : Signal.isEnd (preStep env inp sd m).2 = false ∧
        ((preStep env inp sd m).2 = none → LabMid Pend (TT.at m.c.state) (P.at m.c.state) (preStep env inp sd m).1 ∧
          (preStep env inp sd m).1.c.state = m.c.state) := by
      unfold preStep
      split
      · have h1 : LabMid Pend (TT.at m.c.state) (P.at m.c.state) ({ m with c := { m.c with nextPos := m.c.nextPos + 1 } } : M κ) :=
          h.move rfl rfl rfl rfl
        have hsg := runCalls_sig (env := env) (inp := inp) sd.enter _ h1.scan
        have hfr := (runCalls_frame (env := env) (inp := inp) sd.enter _ h1.scan).1
        dsimp only
        cases hrs : (runCalls env inp sd.enter { m with c := { m.c with nextPos := m.c.nextPos + 1 } }).2 with
        | some sig => rw [hrs] at hsg; exact ⟨hsg, fun hn => by simp at hn⟩
        | none =>
          refine ⟨rfl, fun _ => ⟨?_, ?_⟩⟩
          · have hmid := runCalls_lab (inp := inp) hlaw sd.enter _ _ _ habs hq _ h1 hrs
            have : LabMid Pend (TT.at m.c.state) (P.at m.c.state) (runCalls env inp sd.enter { m with c := { m.c with nextPos := m.c.nextPos + 1 } }).1 :=
              ⟨hmid.scan, tt_flows hT.1 hmid.tt, hmid.endc, hmid.pend⟩
            exact this.move rfl rfl rfl rfl
          · simp only; rw [hfr.state]
      · exact ⟨rfl, fun _ => ⟨h, rfl⟩⟩
    cases hps : (preStep env inp sd m).2 with
    | some sig =>
      apply LabPost_of_sig (by simp)
      rw [hps] at hpre; exact hpre.1
    | none =>
      obtain ⟨hmid, hstate⟩ := hpre.2 hps
      dsimp only
      unfold consumeStep
      have key : ∀ k : Nat, LabMid Pend (TT.at m.c.state) (P.at m.c.state)
          ({ (preStep env inp sd m).1 with c := { (preStep env inp sd m).1.c with nextPos := k } } : M κ) :=
        fun k => hmid.move rfl rfl rfl rfl
      split
      · dsimp only
        split
        · exact dispatch_lab hlaw htt _ _ sd.arms hsub _ (key _) hstate
        · exact dispatch_lab hlaw htt _ _ sd.arms hsub _ (key _) hstate
      · exact dispatch_lab hlaw htt _ _ sd.arms hsub _ (key _) hstate

end
end
end LolHtml.Model
