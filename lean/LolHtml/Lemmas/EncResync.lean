/-
Lemmas about `IncompleteUtf8Resync` (`Model.TextEncoder`): safety — only well-formed UTF-8 fragments are
ever flushed, and they tile a prefix of the bytes written so far.
-/
import LolHtml.Model.TextEncoder

namespace LolHtml.Enc

theorem absorb_acc : ∀ (content buf : Bytes),
    (absorb buf content).1 ++ (absorb buf content).2.1 = buf ++ content := by
  intro content
  induction content with
  | nil => intro buf; simp [absorb]
  | cons b rest ih =>
    intro buf
    simp only [absorb]
    split
    · rw [ih]; simp
    · rfl

theorem absorb_false : ∀ (content buf : Bytes),
    (absorb buf content).2.2 = false → (absorb buf content).2.1 = [] := by
  intro content
  induction content with
  | nil => intro buf _; simp [absorb]
  | cons b rest ih =>
    intro buf
    simp only [absorb]
    split
    · exact ih _
    · simp

/-- a flushed fragment is well-formed UTF-8 -/
def validFrag (f : Bytes) : Prop := (Utf8.scan f).fin = .done

theorem sliceBuffered_acc (buf0 content : Bytes) (st' : Resync) (valid rest : Bytes)
    (h : sliceBuffered buf0 content = .ok (st', valid, rest)) :
    buf0 ++ content = valid ++ st'.buf ++ rest ∧ validFrag valid ∧ (rest = [] ∨ st'.buf = []) := by
  unfold sliceBuffered at h
  have hacc := absorb_acc content buf0
  have hfalse := absorb_false content buf0
  split at h
  · split at h
    · rename_i hv
      simp only [Except.ok.injEq, Prod.mk.injEq] at h
      obtain ⟨rfl, rfl, rfl⟩ := h
      exact ⟨by simp [hacc], hv, Or.inr rfl⟩
    · simp at h
  · rename_i hm
    simp only [Bool.or_eq_true, not_or, Bool.not_eq_true] at hm
    simp only [Except.ok.injEq, Prod.mk.injEq] at h
    obtain ⟨rfl, rfl, rfl⟩ := h
    have h0 := hfalse hm.1
    rw [h0, List.append_nil] at hacc
    refine ⟨by simp [hacc], ?_, Or.inl rfl⟩
    simp [validFrag, Utf8.scan, Utf8.Scan.stop]

theorem sliceFresh_acc (st : Resync) (hb : st.buf = []) (content : Bytes) (st' : Resync)
    (valid rest : Bytes) (h : sliceFresh st content = .ok (st', valid, rest)) :
    content = valid ++ st'.buf ++ rest ∧ validFrag valid ∧ rest = [] := by
  unfold sliceFresh at h
  split at h
  · rename_i hd
    simp only [Except.ok.injEq, Prod.mk.injEq] at h
    obtain ⟨rfl, rfl, rfl⟩ := h
    exact ⟨by simp [hb], hd, rfl⟩
  · simp at h
  · split at h
    · simp at h
    · split at h
      · simp at h
      · split at h
        · rename_i hv
          simp only [Except.ok.injEq, Prod.mk.injEq] at h
          obtain ⟨rfl, rfl, rfl⟩ := h
          exact ⟨by simp, hv, rfl⟩
        · simp at h

theorem slice_acc (st st' : Resync) (content valid rest : Bytes)
    (h : utf8BytesToSlice st content = .ok (st', valid, rest)) :
    st.buf ++ content = valid ++ st'.buf ++ rest ∧ validFrag valid ∧ (rest = [] ∨ st'.buf = []) := by
  unfold utf8BytesToSlice at h
  split at h
  · exact sliceBuffered_acc _ _ _ _ _ h
  · rename_i hb
    have hb' : st.buf = [] := by
      cases hbuf : st.buf with
      | nil => rfl
      | cons x xs => simp [hbuf] at hb
    obtain ⟨hc, hv, hr⟩ := sliceFresh_acc _ hb' _ _ _ _ h
    exact ⟨by rw [hb', List.nil_append]; exact hc, hv, Or.inl hr⟩

/-- what a (sequence of) write(s) guarantees about its flushed fragments -/
def WriteSafe (before : Bytes) (written : Bytes) (r : WriteRes) : Prop :=
  (∀ f ∈ r.flushed, f ≠ [] ∧ validFrag f) ∧
  match r.res with
  | .ok st' => before ++ written = r.flushed.flatten ++ st'.buf
  | .error _ => ∃ rest, before ++ written = r.flushed.flatten ++ rest

theorem writeLoop_safe : ∀ (fuel : Nat) (st : Resync) (content : Bytes) (r : WriteRes),
    writeLoop fuel st content = some r → WriteSafe st.buf content r := by
  intro fuel
  induction fuel with
  | zero => intro st content r h; simp [writeLoop] at h
  | succ fuel ih =>
    intro st content r h
    simp only [writeLoop] at h
    split at h
    · rename_i he
      rw [List.isEmpty_iff] at he
      simp only [Option.some.injEq] at h
      subst h he
      exact ⟨by simp, by simp⟩
    · split at h
      · simp only [Option.some.injEq] at h
        subst h
        exact ⟨by simp, ⟨st.buf ++ content, by simp⟩⟩
      · rename_i st1 valid rest hsl
        obtain ⟨hacc, hval, _⟩ := slice_acc _ _ _ _ _ hsl
        split at h
        · simp at h
        · rename_i r1 hr1
          simp only [Option.some.injEq] at h
          subst h
          obtain ⟨i1, i2⟩ := ih _ _ _ hr1
          constructor
          · intro f hf
            by_cases hve : valid.isEmpty = true
            · simp only [hve, if_true] at hf; exact i1 f hf
            · simp only [hve, Bool.false_eq_true, if_false, List.mem_cons] at hf
              rcases hf with rfl | hf
              · exact ⟨by intro hn; simp [hn] at hve, hval⟩
              · exact i1 f hf
          · have hflat : (if valid.isEmpty = true then r1.flushed else valid :: r1.flushed).flatten
                = valid ++ r1.flushed.flatten := by
              by_cases hve : valid.isEmpty = true
              · rw [List.isEmpty_iff] at hve; simp [hve]
              · simp [hve]
            simp only [hflat]
            cases hres : r1.res with
            | ok st2 =>
              simp only [hres] at i2 ⊢
              rw [hacc, List.append_assoc, List.append_assoc, i2]
            | error e =>
              simp only [hres] at i2 ⊢
              obtain ⟨rest', hr⟩ := i2
              exact ⟨rest', by rw [hacc, List.append_assoc, List.append_assoc, hr]⟩

theorem writeAll_safe : ∀ (parts : List Bytes) (st : Resync) (r : WriteRes),
    writeAll st parts = some r → WriteSafe st.buf parts.flatten r := by
  intro parts
  induction parts with
  | nil =>
    intro st r h
    simp only [writeAll, Option.some.injEq] at h
    subst h
    exact ⟨by simp, by simp⟩
  | cons p ps ih =>
    intro st r h
    simp only [writeAll] at h
    split at h
    · simp at h
    · rename_i r1 hr1
      obtain ⟨a1, a2⟩ := writeLoop_safe 3 st p r1 hr1
      split at h
      · rename_i e he
        simp only [Option.some.injEq] at h
        subst h
        simp only [he] at a2
        obtain ⟨rest, hr⟩ := a2
        exact ⟨a1, ⟨rest ++ ps.flatten, by simp [← List.append_assoc, hr]⟩⟩
      · rename_i st1 hst1
        simp only [hst1] at a2
        split at h
        · simp at h
        · rename_i r2 hr2
          simp only [Option.some.injEq] at h
          subst h
          obtain ⟨b1, b2⟩ := ih st1 r2 hr2
          constructor
          · intro f hf
            rcases List.mem_append.mp hf with hf | hf
            · exact a1 f hf
            · exact b1 f hf
          · cases hres : r2.res with
            | ok st2 =>
              simp only [hres] at b2 ⊢
              rw [List.flatten_cons, ← List.append_assoc, a2, List.append_assoc, b2]; simp
            | error e =>
              simp only [hres] at b2 ⊢
              obtain ⟨rest, hr⟩ := b2
              exact ⟨rest, by rw [List.flatten_cons, ← List.append_assoc, a2, List.append_assoc, hr]; simp⟩

/-- the write loop never runs out of its 3 units of fuel -/
theorem writeUtf8Chunk_total (st : Resync) (content : Bytes) :
    (writeUtf8Chunk st content).isSome = true := by
  unfold writeUtf8Chunk
  -- iteration 1
  rw [writeLoop]
  split
  · rfl
  · cases hsl : utf8BytesToSlice st content with
    | error e => rfl
    | ok v =>
      obtain ⟨st1, valid, rest⟩ := v
      obtain ⟨_, _, key⟩ := slice_acc _ _ _ _ _ hsl
      simp only []
      -- iteration 2
      rw [writeLoop]
      by_cases he : rest.isEmpty = true
      · simp [he]
      · simp only [he, Bool.false_eq_true, if_false]
        have hb : st1.buf = [] := by
          rcases key with h | h
          · subst h; simp at he
          · exact h
        cases hsl2 : utf8BytesToSlice st1 rest with
        | error e => rfl
        | ok v2 =>
          obtain ⟨st2, valid2, rest2⟩ := v2
          have hfresh : utf8BytesToSlice st1 rest = sliceFresh st1 rest := by
            simp [utf8BytesToSlice, hb]
          rw [hfresh] at hsl2
          obtain ⟨_, _, hr2⟩ := sliceFresh_acc _ hb _ _ _ _ hsl2
          subst hr2
          -- iteration 3: nothing left
          simp [writeLoop]

/-! ### liveness for cuts on character boundaries -/

/-- one write of well-formed UTF-8 with nothing buffered is passed through whole -/
theorem writeUtf8Chunk_valid (p : Bytes) (h : validFrag p) :
    writeUtf8Chunk Resync.new p = some ⟨if p.isEmpty then [] else [p], .ok Resync.new⟩ := by
  unfold writeUtf8Chunk
  rw [writeLoop]
  by_cases he : p.isEmpty = true
  · simp [he]
  · have hs : utf8BytesToSlice Resync.new p = .ok (Resync.new, p, []) := by
      simp only [utf8BytesToSlice, Resync.new, List.length_nil, gt_iff_lt, Nat.lt_irrefl, if_false,
        sliceFresh]
      have : (Utf8.scan p).fin = .done := h
      rw [this]
    simp only [he, Bool.false_eq_true, if_false, hs]
    simp [writeLoop]

theorem writeAll_valid_parts : ∀ (parts : List Bytes), (∀ p ∈ parts, validFrag p) →
    writeAll Resync.new parts = some ⟨parts.filter (fun p => !p.isEmpty), .ok Resync.new⟩ := by
  intro parts
  induction parts with
  | nil => intro _; rfl
  | cons p ps ih =>
    intro h
    have h1 := writeUtf8Chunk_valid p (h p (by simp))
    have h2 := ih (fun q hq => h q (by simp [hq]))
    simp only [writeAll, h1, h2]
    by_cases he : p.isEmpty = true
    · simp [he]
    · simp [he]

end LolHtml.Enc
