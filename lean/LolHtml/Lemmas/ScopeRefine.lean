/-
Refinement: the model (`Model.Controller.step`) never panics and produces exactly the invocations
of the reference semantics (`Spec.Scope.expected`), while an invariant ties the reference counts,
the end-tag handler vector, the `matched_elements_with_removed_content` counter and the capture
flags to the reference stack of open elements.
-/
import LolHtml.Lemmas.ScopeRel

namespace LolHtml.Lemmas.Scope
open LolHtml.Model.Handlers LolHtml.Model.Controller LolHtml.Spec.Scope

@[simp] theorem regItems_handlers (n : Nat) (ids : List HId) :
    (regItems n ids).map (·.handler) = ids := by
  simp [regItems, List.map_map, Function.comp_def]

theorem all_zero_of_sum_zero (l : List Nat) (h : l.sum = 0) : ∀ x ∈ l, x = 0 := by
  induction l with
  | nil => simp
  | cons y ys ih =>
    simp only [List.sum_cons] at h
    intro x hx
    rcases List.mem_cons.1 hx with rfl | hx
    · omega
    · exact ih (by omega) x hx

theorem hasActive_false_iff {α : Type} (items : List (Item α)) :
    (mk items).hasActive = false ↔ ∀ it ∈ items, it.userCount = 0 := by
  have e : (mk items).hasActive = false ↔ (items.map (·.userCount)).sum = 0 := by
    show decide (0 < (items.map (·.userCount)).sum) = false ↔ _
    rw [decide_eq_false_iff_not]; omega
  rw [e]
  constructor
  · intro h it hit
    exact all_zero_of_sum_zero _ h _ (List.mem_map.2 ⟨it, hit, rfl⟩)
  · intro h
    apply sum_zero_of_all_zero
    intro x hx
    obtain ⟨it, hit, rfl⟩ := List.mem_map.1 hx
    exact h it hit

theorem forEachActive_mk {α : Type} (items : List (Item α)) :
    (mk items).forEachActive = (items.filter fun it => decide (0 < it.userCount)).map (·.handler) :=
  rfl

theorem gated {α : Type} (items : List (Item α)) :
    (if (mk items).hasActive = true then (mk items).forEachActive else []) =
      (mk items).forEachActive := by
  cases h : (mk items).hasActive with
  | true => simp
  | false =>
    have hz := (hasActive_false_iff items).1 h
    simp only [Bool.false_eq_true, if_false, forEachActive_mk]
    have : items.filter (fun it => decide (0 < it.userCount)) = [] := by
      rw [List.filter_eq_nil_iff]
      intro it hit
      simp [hz it hit]
    simp [this]

theorem active_items (ids : List HId) (c : HId → Nat) :
    ((ids.map fun h => ({ handler := h, userCount := c h } : Item HId)).filter
        fun it => decide (0 < it.userCount)).map (·.handler) =
      ids.filter fun h => decide (0 < c h) := by
  induction ids with
  | nil => rfl
  | cons h hs ih =>
    simp only [List.map_cons, List.filter_cons]
    by_cases hc : 0 < c h
    · simp [hc, ih]
    · simp [hc, ih]

theorem addBy_regItems (n : Nat) (ids : List HId) (f : HId → Nat) :
    addBy id f (regItems n ids) =
      ids.map fun h => ({ handler := h, userCount := base n h + f h } : Item HId) := by
  simp [addBy, regItems, List.map_map, Function.comp_def]

theorem active_dyn (n : Nat) (ids : List HId) (sp : List OpenElem) :
    (mk (addBy id (openCount sp) (regItems n ids))).forEachActive = ids.filter (inScope n sp) := by
  rw [forEachActive_mk, addBy_regItems, active_items]
  apply List.filter_congr
  intro (h : Nat) _
  simp only [inScope]
  rw [Bool.eq_iff_iff]
  simp only [decide_eq_true_eq, Bool.or_eq_true, List.any_eq_true, List.contains_iff_mem]
  rw [← openCount_pos_iff]
  simp only [base]
  split <;> omega

theorem active_doc (n : Nat) (ids : List HId) (h : ∀ i ∈ ids, n ≤ i) :
    (mk (regItems n ids)).forEachActive = ids := by
  have : regItems n ids = ids.map fun h => ({ handler := h, userCount := base n h } : Item HId) :=
    rfl
  rw [forEachActive_mk, this, active_items]
  rw [List.filter_eq_self]
  intro (i : Nat) hi
  have : (n : Nat) ≤ (i : Nat) := h i hi
  have : ¬ i < n := by omega
  simp [base, this]

theorem elem_items_zero (sels : List SelReg) :
    ∀ it ∈ regItems sels.length (elementIds sels), it.userCount = 0 := by
  intro it hit
  simp only [regItems, List.mem_map] at hit
  obtain ⟨(h : Nat), hh, rfl⟩ := hit
  have := mem_idsFrom_bounds _ 0 sels h hh
  simp [base]; omega

theorem active_elems (sels : List SelReg) (matched : List Nat) :
    ((addBy id (fun h => matched.count h) (regItems sels.length (elementIds sels))).filter
        fun it => decide (0 < it.userCount)).map (·.handler) = invokedOn sels matched := by
  rw [addBy_regItems, active_items]
  apply List.filter_congr
  intro (h : Nat) hh
  have := mem_idsFrom_bounds _ 0 sels h hh
  have hlt : h < sels.length := by omega
  have hb : base sels.length h = 0 := by simp [base, hlt]
  rw [hb, Nat.zero_add]
  by_cases hc : h ∈ matched
  · have : 0 < matched.count h := List.count_pos_iff.2 hc
    simp [hc, this]
  · have : matched.count h = 0 := List.count_eq_zero.2 hc
    simp [hc, this]

theorem zero_map_addBy {α κ : Type} (key : α → κ) (f : κ → Nat) (items : List (Item α)) :
    (addBy key f items).map (fun it => { it with userCount := 0 }) =
      items.map fun it => { it with userCount := 0 } := by
  simp [addBy, List.map_map, Function.comp_def]

theorem zero_map_self {α : Type} (items : List (Item α)) (h : ∀ it ∈ items, it.userCount = 0) :
    items.map (fun it => { it with userCount := 0 }) = items := by
  calc items.map (fun it => { it with userCount := 0 }) = items.map id := by
        apply List.map_congr_left
        intro it hit
        have := h it hit
        cases it
        simp_all
    _ = items := by simp

/-- The invariant, relative to the reference stack `sp` of open elements. -/
structure Inv (sels : List SelReg) (docs : List DocReg) (sp : List OpenElem) (s : State) : Prop where
  text : s.ctrl.disp.text =
    mk (addBy id (openCount sp) (regItems sels.length (textIds sels docs)))
  comment : s.ctrl.disp.comment =
    mk (addBy id (openCount sp) (regItems sels.length (commentIds sels docs)))
  element : s.ctrl.disp.element = mk (regItems sels.length (elementIds sels))
  doctype : s.ctrl.disp.doctype = mk (regItems sels.length (doctypeIds sels docs))
  end_ : s.ctrl.disp.end_ = mk (regItems sels.length (endIds sels docs))
  reg : RegOK s.ctrl.disp.locators sels.length (textIds sels docs) (commentIds sels docs)
    (elementIds sels)
  removed : s.ctrl.disp.removedContent = sp.countP (·.removed)
  vm : match s.ctrl.vm with
    | none => sels = [] ∧ s.ctrl.disp.endTag = mk []
    | some st => sels ≠ [] ∧ ∃ items, s.ctrl.disp.endTag = mk items ∧ EtRel 0 st sp items
  flags : s.flags = s.ctrl.disp.getTokenCaptureFlags
  wf : ∀ e ∈ sp, ∀ m ∈ e.matched, m < sels.length
  triv : sels = [] → ∀ e ∈ sp, e.subs = [] ∧ e.removed = false

theorem inv_init (sels : List SelReg) (docs : List DocReg) :
    Inv sels docs [] (State.init sels docs) := by
  have h := fromSettings_state sels docs
  have z : ∀ X : List (Item HId), addBy id (openCount []) X = X := by
    intro X
    have : openCount [] = fun _ => 0 := by funext h; rfl
    rw [this, addBy_zero]
  refine { text := ?_, comment := ?_, element := h.element, doctype := h.doctype, end_ := h.end_,
           reg := ?_, removed := ?_, vm := ?_, flags := rfl, wf := by simp, triv := by simp }
  · rw [z]; exact h.text
  · rw [z]; exact h.comment
  · exact ⟨h.len, h.loc, pairwise_lt_nodup _ (ids_append_pairwise _ _ _ _),
      pairwise_lt_nodup _ (ids_append_pairwise _ _ _ _), pairwise_lt_nodup _ (idsFrom_pairwise _ _ _)⟩
  · exact h.removed
  · show match (Controller.fromSettings sels docs).vm with
      | none => sels = [] ∧ _
      | some st => sels ≠ [] ∧ _
    cases sels with
    | nil => exact ⟨rfl, h.endTag⟩
    | cons r rs =>
      exact ⟨by simp, [], h.endTag, .nil 0⟩

/-! ### Non-tag tokens -/

theorem step_text (script : ElemScript) (sels : List SelReg) (docs : List DocReg)
    (sp : List OpenElem) (s : State) (ord : Nat) (inv : Inv sels docs sp s) :
    step script s ord .text = .ok (s, expected sels docs sp ord .text) := by
  simp only [step, expected, inv.flags, Dispatcher.getTokenCaptureFlags, Dispatcher.handleText,
    inv.text]
  congr 2
  rw [← active_dyn]
  cases h : (mk (addBy id (openCount sp) (regItems sels.length (textIds sels docs)))).hasActive
  · have := gated (addBy id (openCount sp) (regItems sels.length (textIds sels docs)))
    rw [h] at this
    simp only [Bool.false_eq_true, if_false] at this ⊢
    rw [← this]; rfl
  · simp

theorem step_comment (script : ElemScript) (sels : List SelReg) (docs : List DocReg)
    (sp : List OpenElem) (s : State) (ord : Nat) (inv : Inv sels docs sp s) :
    step script s ord .comment = .ok (s, expected sels docs sp ord .comment) := by
  simp only [step, expected, inv.flags, Dispatcher.getTokenCaptureFlags, Dispatcher.handleComment,
    inv.comment]
  congr 2
  rw [← active_dyn]
  cases h : (mk (addBy id (openCount sp) (regItems sels.length (commentIds sels docs)))).hasActive
  · have := gated (addBy id (openCount sp) (regItems sels.length (commentIds sels docs)))
    rw [h] at this
    simp only [Bool.false_eq_true, if_false] at this ⊢
    rw [← this]; rfl
  · simp

theorem step_doctype (script : ElemScript) (sels : List SelReg) (docs : List DocReg)
    (sp : List OpenElem) (s : State) (ord : Nat) (inv : Inv sels docs sp s) :
    step script s ord .doctype = .ok (s, expected sels docs sp ord .doctype) := by
  simp only [step, expected, inv.flags, Dispatcher.getTokenCaptureFlags, Dispatcher.handleDoctype,
    inv.doctype]
  congr 2
  have hge : ∀ i ∈ doctypeIds sels docs, sels.length ≤ i := by
    intro i hi; exact (mem_idsFrom_bounds _ _ _ i hi).1
  conv => rhs; rw [← active_doc sels.length (doctypeIds sels docs) hge]
  cases h : (mk (regItems sels.length (doctypeIds sels docs))).hasActive
  · have := gated (regItems sels.length (doctypeIds sels docs))
    rw [h] at this
    simp only [Bool.false_eq_true, if_false] at this ⊢
    rw [← this]; rfl
  · simp

end LolHtml.Lemmas.Scope
