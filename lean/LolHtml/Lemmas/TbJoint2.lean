import LolHtml.Lemmas.TbJoint
/-!
The induction behind `C03_tb_text_feedback`: the strict simulator in the HTML namespace and the
standard's tree builder answer the tokenizer alike, token by token.
-/
namespace LolHtml.Spec.TreeBuilder
open LolHtml LolHtml.Model LolHtml.Lemmas.Sim

/-- the simulator in the HTML namespace, strict mode -/
structure SimHtml (sim : Sim) : Prop where
  stack : sim.nsStack = [.html]
  cur : sim.currentNs = .html
  strict : sim.strict = true

theorem sim_start_html (cfg : TagCfg) (sim : Sim) (hs : SimHtml sim) (hash : Nat) (v : TagView) (hv : v.isStart = true)
    (h1 : hash ≠ cfg.svg) (h2 : hash ≠ cfg.math) :
    sim.stepTag cfg ⟨hash, v⟩ =
      match Guard.trackStartTag cfg sim.guard hash with
      | .error e => .error e
      | .ok g => .ok ({ sim with guard := g }, textTypeAdjustment cfg hash) := by
  obtain ⟨nsS, cur, g0, st⟩ := sim
  obtain ⟨e1, e2, e3⟩ := hs
  simp only at e1 e2 e3
  subst e1 e2 e3
  unfold Sim.stepTag
  simp only [hv, if_true]
  rw [start_eq]
  unfold guardStart
  simp only [if_true]
  cases hg : Guard.trackStartTag cfg g0 hash with
  | error e => rfl
  | ok g =>
    simp only
    have : startCore cfg ⟨[.html], .html, g, true⟩ hash = .ok (⟨[.html], .html, g, true⟩, textTypeAdjustment cfg hash) := by
      simp [startCore, h1, h2]
    rw [this]
    exact finish_ok _ _ _ (textType_fbOk cfg ⟨[.html], .html, g, true⟩ hash).2

theorem sim_end_html (cfg : TagCfg) (sim : Sim) (hs : SimHtml sim) (hash : Nat) (v : TagView) (hv : v.isStart = false) :
    sim.stepTag cfg ⟨hash, v⟩ = .ok ({ sim with guard := Guard.trackEndTag cfg sim.guard hash }, .none) := by
  obtain ⟨nsS, cur, g0, st⟩ := sim
  obtain ⟨e1, e2, e3⟩ := hs
  simp only at e1 e2 e3
  subst e1 e2 e3
  unfold Sim.stepTag
  simp only [hv, Bool.false_eq_true, if_false]
  rw [end_eq]
  unfold guardEnd
  simp only [if_true]
  have : endCore cfg ⟨[.html], .html, Guard.trackEndTag cfg g0 hash, true⟩ hash =
      some (⟨[.html], .html, Guard.trackEndTag cfg g0 hash, true⟩, .none) := by
    simp [endCore, Sim.checkIntegrationPointExit]
  rw [this]
  rfl

/-! ### monotonicity of the invariant in `b` -/

theorem PNoCol.mono {b : Bool} {n : Name} {ns : Ns} (h : PNoCol b n ns) : PNoCol true n ns :=
  ⟨h.1, h.2.1, h.2.2.1, fun hb => by cases hb⟩

theorem TreeOk.mono {b : Bool} {t : Tree} (h : TreeOk (PNoCol b) t) : TreeOk (PNoCol true) t :=
  ⟨fun e he => (h.stack e he).mono, h.afe⟩

theorem MF.mono {b : Bool} {m o : Mode} (h : MF b m o) : MF true m o :=
  ⟨h.1, h.2.1, h.2.2.1, fun hb => by cases hb⟩

theorem GInv.mono {b : Bool} {s : State} (h : GInv b s) : GInv true s := by
  rcases h with h | h
  · exact Or.inl ⟨h.tree.mono, h.tmodes, h.head, h.modes.mono, h.notCol⟩
  · obtain ⟨e, rest, h1, h2, h3⟩ := h.top
    exact Or.inr ⟨h.mode, ⟨e, rest, h1, h2, h3.mono⟩, h.tmodes, h.head⟩

theorem GInv.cast {b b' : Bool} {s : State} (h : GInv b s) (hb : b = true → b' = true) : GInv b' s := by
  cases b' with
  | true => exact h.mono
  | false =>
    cases b with
    | false => exact h
    | true => exact absurd (hb rfl) (by simp)

theorem ginv_init : GInv false State.init := by
  refine Or.inl ⟨⟨?_, ?_⟩, rfl, ?_, ?_, ?_⟩
  · intro e he; cases he
  · intro x hx; cases hx
  · intro h hh; cases hh
  · simp [MF, State.init, framesetModes]
  · simp [State.init]

/-- tokenizer state and insertion mode agree: "text" exactly while the tokenizer waits for an end tag -/
def TkRel (tk : TkState) (s : State) : Prop := s.mode = .text ↔ ∃ n, tk = .until n

/-- the relation between lol-html's state and the standard's state kept by the joint run -/
structure JRel (c : Cfg) (sim : Sim) (s : State) (tk : TkState) (seen : Bool) : Prop where
  simOk : SimHtml sim
  inv : GInv (isSticky sim.guard) s
  ns : NsOk c s
  tk : TkRel tk s
  seen : inSelectState sim.guard = true → seen = true

theorem switchOf_raw_iff (sw : Switch) : sw.isRaw = true ↔ sw = .rcdata ∨ sw = .rawtext ∨ sw = .scriptData := by
  cases sw <;> simp [Switch.isRaw]

set_option maxHeartbeats 1000000 in
theorem joint_agree (cfg : TagCfg) (evs : List TbEv) :
    ∀ (sim : Sim) (s : State) (tk : TkState) (seen : Bool), JRel cfgStd sim s tk seen →
      (∀ ev ∈ evs, ev.Ok cfg) → (∀ ev ∈ evs, HtmlNoTemplate ev.tok) → NoFramesetAfterSelect seen (evs.map (·.tok)) →
      ∀ p ∈ joint cfg cfgStd sim s tk evs, p.2.1 = p.2.2 ∧ p.2.1 = expSw cfgStd p.1 := by
  induction evs with
  | nil => intro sim s tk seen _ _ _ _ p hp; cases hp
  | cons ev evs ih =>
    intro sim s tk seen hJ hok hcls hfs p hp
    have hok' : ∀ e ∈ evs, e.Ok cfg := fun e he => hok e (List.mem_cons_of_mem _ he)
    have hcls' : ∀ e ∈ evs, HtmlNoTemplate e.tok := fun e he => hcls e (List.mem_cons_of_mem _ he)
    have hev := hok ev (by simp)
    have hcl := hcls ev (by simp)
    simp only [List.map_cons, NoFramesetAfterSelect] at hfs
    obtain ⟨hfs1, hfs2⟩ := hfs
    unfold joint at hp
    by_cases hpass' : passes tk ev.tok = false
    · -- swallowed by the tokenizer
      simp only [hpass', Bool.not_false, if_true] at hp
      exact ih sim s tk _ ⟨hJ.simOk, hJ.inv, hJ.ns, hJ.tk, fun h => by simp [hJ.seen h]⟩ hok' hcls' hfs2 p hp
    have hpass : passes tk ev.tok = true := by simpa using hpass'
    simp only [hpass, Bool.not_true, Bool.false_eq_true, if_false] at hp
    -- tokens in "text": only the matching end tag and end-of-file pass
    have htext : s.mode = .text → TextTok ev.tok := by
      intro hm
      obtain ⟨n, hn⟩ := hJ.tk.mp hm
      subst hn
      cases htk : ev.tok <;> simp_all [passes, TextTok]
    have hdata_of_start : ∀ n sc a, ev.tok = .start n sc a → tk = .data := by
      intro n sc a h
      cases tk <;> simp_all [passes]
    cases htok : ev.tok with
    | start n sc a =>
      obtain ⟨hv, hag⟩ : ev.view.isStart = true ∧ Agree cfg ev.hash n := by simpa [TbEv.Ok, htok] using hev
      obtain ⟨hsvg, hmath, htpl⟩ := hcl n sc a htok
      have htkd := hdata_of_start n sc a htok
      have hs1 : s.mode ≠ .text := by
        intro hm; obtain ⟨m, hm'⟩ := hJ.tk.mp hm; rw [htkd] at hm'; cases hm'
      have hstep := sim_start_html cfg sim hJ.simOk ev.hash ev.view hv (fun h => hsvg (hag.svg.mp h)) (fun h => hmath (hag.math.mp h))
      simp only [simStep, htok, hstep] at hp
      cases hg : Guard.trackStartTag cfg sim.guard ev.hash with
      | error e => simp [hg] at hp
      | ok g' =>
        simp only [hg] at hp
        obtain ⟨f1, f2, f3, f4⟩ := guard_start_facts cfg sim.guard g' ev.hash hg
        -- the invariant for the new guard state
        have hinv' : GInv (isSticky g') s := hJ.inv.cast (fun h => (f2 h).1)
        have htokok : TokOk (isSticky g') (.start n sc a) := by
          refine ⟨hsvg, hmath, htpl, fun hn => ?_⟩
          subst hn
          have hhash : ev.hash = cfg.gFrameset := hag.gFrameset.mpr rfl
          have hnsel : ev.hash ≠ cfg.gSelect := fun h => by have := hag.gSelect.mp h; cases this
          cases hgd : sim.guard with
          | default => exact f3 hgd hhash hnsel
          | inOrAfterFrameset => exact (f2 (by simp [hgd, isSticky])).1
          | inSelect => exact absurd htok (hfs1 (hJ.seen (by simp [hgd, inSelectState])) sc a)
          | inTemplateInSelect d => exact absurd htok (hfs1 (hJ.seen (by simp [hgd, inSelectState])) sc a)
        have hpost := step_post (c := cfgStd) rfl rfl hinv' hJ.ns (.start n sc a) htokok (fun h => (hs1 h).elim)
        -- the switches agree
        have hsw : switchOfFeedback (textTypeAdjustment cfg ev.hash) = (step cfgStd s (.start n sc a)).sw := by
          rw [hag.tta]
          by_cases hnone : switchOf cfgStd n = .none
          · rcases hpost.swStart n sc a rfl with h | h
            · rw [h, hnone]
            · rw [h]
          · have hb : isSticky g' = false ∨ n = .noframes := by
              cases hst : isSticky g' with
              | false => exact Or.inl rfl
              | true =>
                right
                rcases f1 hst with h | ⟨-, h⟩
                · exact hag.gNoframes.mp ((f2 h).2 (hag.gText.mpr hnone))
                · have := hag.gFrameset.mp h
                  subst this
                  exact absurd rfl hnone
            exact ((hpost.swAct n sc a rfl hnone hb (by have := (show rank s.mode ≤ 7 by cases s.mode <;> simp [rank]); omega)).1).symm
        simp only [List.mem_cons] at hp
        rcases hp with rfl | hp
        · exact ⟨hsw, hag.tta⟩
        · -- the rest of the run
          refine ih _ _ _ (seen || (match ev.tok with | .start .select _ _ => true | _ => false)) ?_ hok' hcls' hfs2 p hp
          refine ⟨⟨hJ.simOk.stack, hJ.simOk.cur, hJ.simOk.strict⟩, hpost.inv, hpost.ns hJ.ns, ?_, ?_⟩
          · -- tokenizer state
            rw [hsw]
            unfold TkRel
            rw [hpost.text]
            simp only [hs1, false_and, or_false, htkd]
            generalize (step cfgStd s (Token.start n sc a)).sw = sw
            cases sw <;> simp [nextTk, Switch.isRaw]
          · intro hsel
            rcases f4 hsel with h | ⟨-, h⟩
            · simp [hJ.seen h]
            · have := hag.gSelect.mp h
              subst this
              simp [htok]
    | «end» n =>
      obtain ⟨hv, hag⟩ : ev.view.isStart = false ∧ Agree cfg ev.hash n := by simpa [TbEv.Ok, htok] using hev
      have hstep := sim_end_html cfg sim hJ.simOk ev.hash ev.view hv
      simp only [simStep, htok, hstep] at hp
      obtain ⟨e1, e2⟩ := guard_end_facts cfg sim.guard ev.hash
      have hinv' : GInv (isSticky (Guard.trackEndTag cfg sim.guard ev.hash)) s := by rw [e1]; exact hJ.inv
      have hpost := step_post (c := cfgStd) rfl rfl hinv' hJ.ns (.end n) trivial (fun h => by have := htext h; simpa [htok] using this)
      have hsw : (step cfgStd s (.end n)).sw = .none := hpost.swOther (fun _ _ _ h => by cases h)
      simp only [List.mem_cons] at hp
      rcases hp with rfl | hp
      · simp [switchOfFeedback, hsw, expSw]
      · refine ih _ _ _ (seen || (match ev.tok with | .start .select _ _ => true | _ => false)) ?_ hok' hcls' hfs2 p hp
        refine ⟨⟨hJ.simOk.stack, hJ.simOk.cur, hJ.simOk.strict⟩, hpost.inv, hpost.ns hJ.ns, ?_, fun h => by simp [hJ.seen (e2 h)]⟩
        unfold TkRel
        rw [hpost.text, hsw]
        simp only [Switch.isRaw, Bool.false_eq_true, false_or, switchOfFeedback]
        constructor
        · rintro ⟨_, cc, hcc⟩; cases hcc
        · rintro ⟨m, hm⟩
          exfalso
          cases tk <;> simp [nextTk] at hm
    | char cc =>
      simp only [simStep, htok] at hp
      have htkd : tk = .data := by cases tk <;> simp_all [passes]
      have hs1 : s.mode ≠ .text := by
        intro hm; obtain ⟨m, hm'⟩ := hJ.tk.mp hm; rw [htkd] at hm'; cases hm'
      have hpost := step_post (c := cfgStd) rfl rfl hJ.inv hJ.ns (.char cc) trivial (fun h => (hs1 h).elim)
      have hsw : (step cfgStd s (.char cc)).sw = .none := hpost.swOther (fun _ _ _ h => by cases h)
      simp only [List.mem_cons] at hp
      rcases hp with rfl | hp
      · simp [switchOfFeedback, hsw, expSw]
      · refine ih _ _ _ (seen || (match ev.tok with | .start .select _ _ => true | _ => false)) ?_ hok' hcls' hfs2 p hp
        refine ⟨hJ.simOk, hpost.inv, hpost.ns hJ.ns, ?_, fun h => by simp [hJ.seen h]⟩
        unfold TkRel
        rw [hpost.text, hsw, htkd]
        simp [Switch.isRaw, hs1, nextTk, switchOfFeedback]
    | comment =>
      simp only [simStep, htok] at hp
      have htkd : tk = .data := by cases tk <;> simp_all [passes]
      have hs1 : s.mode ≠ .text := by
        intro hm; obtain ⟨m, hm'⟩ := hJ.tk.mp hm; rw [htkd] at hm'; cases hm'
      have hpost := step_post (c := cfgStd) rfl rfl hJ.inv hJ.ns .comment trivial (fun h => (hs1 h).elim)
      have hsw : (step cfgStd s .comment).sw = .none := hpost.swOther (fun _ _ _ h => by cases h)
      simp only [List.mem_cons] at hp
      rcases hp with rfl | hp
      · simp [switchOfFeedback, hsw, expSw]
      · refine ih _ _ _ (seen || (match ev.tok with | .start .select _ _ => true | _ => false)) ?_ hok' hcls' hfs2 p hp
        refine ⟨hJ.simOk, hpost.inv, hpost.ns hJ.ns, ?_, fun h => by simp [hJ.seen h]⟩
        unfold TkRel
        rw [hpost.text, hsw, htkd]
        simp [Switch.isRaw, hs1, nextTk, switchOfFeedback]
    | doctype d =>
      simp only [simStep, htok] at hp
      have htkd : tk = .data := by cases tk <;> simp_all [passes]
      have hs1 : s.mode ≠ .text := by
        intro hm; obtain ⟨m, hm'⟩ := hJ.tk.mp hm; rw [htkd] at hm'; cases hm'
      have hpost := step_post (c := cfgStd) rfl rfl hJ.inv hJ.ns (.doctype d) trivial (fun h => (hs1 h).elim)
      have hsw : (step cfgStd s (.doctype d)).sw = .none := hpost.swOther (fun _ _ _ h => by cases h)
      simp only [List.mem_cons] at hp
      rcases hp with rfl | hp
      · simp [switchOfFeedback, hsw, expSw]
      · refine ih _ _ _ (seen || (match ev.tok with | .start .select _ _ => true | _ => false)) ?_ hok' hcls' hfs2 p hp
        refine ⟨hJ.simOk, hpost.inv, hpost.ns hJ.ns, ?_, fun h => by simp [hJ.seen h]⟩
        unfold TkRel
        rw [hpost.text, hsw, htkd]
        simp [Switch.isRaw, hs1, nextTk, switchOfFeedback]
    | eof =>
      simp only [simStep, htok] at hp
      have hpost := step_post (c := cfgStd) rfl rfl hJ.inv hJ.ns .eof trivial (fun h => by have := htext h; simpa [htok] using this)
      have hsw : (step cfgStd s .eof).sw = .none := hpost.swOther (fun _ _ _ h => by cases h)
      simp only [List.mem_cons] at hp
      rcases hp with rfl | hp
      · simp [switchOfFeedback, hsw, expSw]
      · refine ih _ _ _ (seen || (match ev.tok with | .start .select _ _ => true | _ => false)) ?_ hok' hcls' hfs2 p hp
        refine ⟨hJ.simOk, hpost.inv, hpost.ns hJ.ns, ?_, fun h => by simp [hJ.seen h]⟩
        unfold TkRel
        rw [hpost.text, hsw]
        simp only [Switch.isRaw, Bool.false_eq_true, false_or, switchOfFeedback]
        constructor
        · rintro ⟨_, cc, hcc⟩; cases hcc
        · rintro ⟨m, hm⟩
          cases tk <;> simp [nextTk] at hm

end LolHtml.Spec.TreeBuilder
