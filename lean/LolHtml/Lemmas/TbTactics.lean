import LolHtml.Lemmas.TbInv
/-!
Tactics for the preservation proofs of `Lemmas/TbHop*.lean`: `names_norm` (unfold the name lists in the
hypotheses a `split` of a rule leaves behind), `pn` (the stack predicate of a freshly created element),
`tree_ok` (a stack / list expression built from the operations of `Lemmas/TbTree.lean`), `inv_ok`
(the invariant of a state built from a state that has it).
-/
namespace LolHtml.Spec.TreeBuilder
open LolHtml.Model (Ns)

variable {b : Bool} {c : Cfg} {s : State}

theorem mf_text {m o : Mode} (h : MF b m o) (h1 : m ≠ .text) (h2 : m ≠ .inTableText) (h3 : m ≠ .inColumnGroup) :
    MF b .text m := by
  obtain ⟨a1, a2, a3, a4⟩ := h
  simp only [List.mem_cons, List.mem_nil_iff, or_false, not_or] at a1
  refine ⟨by simp, by simp, fun _ => ?_, fun hb => ⟨by simp [framesetModes], fun _ => (a4 hb).1⟩⟩
  simp only [List.mem_cons, List.mem_nil_iff, or_false, not_or]
  exact ⟨h1, h2, a1.1, a1.2.1, a1.2.2, h3⟩

/-- names as hypotheses: unfold the name lists -/
macro "names_norm" : tactic =>
  `(tactic| simp only [Name.isIn, headStartNames, blockStartNames, blockEndNames, headingNames, formattingNames,
      tableSectionStartNames, selectInTableNames, List.contains_cons, List.contains_nil, Bool.or_false,
      Bool.or_eq_true, beq_iff_eq, Bool.not_eq_true, Bool.or_eq_false_iff, beq_eq_false_iff_ne, ne_eq,
      Bool.and_eq_true, bne_iff_ne, Bool.not_eq_eq_eq_not, Bool.not_true, not_or, not_and, Bool.and_eq_false_imp] at *)

/-- `PNoCol b n .html` from the branch hypotheses -/
syntax "pn" (ppSpace ident)? : tactic
macro_rules
  | `(tactic| pn) => `(tactic| first
    | (simp [PNoCol]; done)
    | (simp_all [PNoCol]; done))
  | `(tactic| pn $n:ident) => `(tactic| first
    | (simp [PNoCol]; done)
    | (simp_all [PNoCol]; done)
    | (cases $n:ident <;> simp_all [PNoCol]; done))

/-- `n.isIn formattingNames = true` from the branch hypotheses -/
syntax "fmt_name" (ppSpace ident)? : tactic
macro_rules
  | `(tactic| fmt_name) => `(tactic| first
    | (simp_all [formattingNames, Name.isIn]; done)
    | (simp_all; done))
  | `(tactic| fmt_name $n:ident) => `(tactic| first
    | (simp_all [formattingNames, Name.isIn]; done)
    | (simp_all; done)
    | (cases $n:ident <;> simp_all [formattingNames, Name.isIn]; done))

/-- `TreeOk (PNoCol b) <tree expression>` (also closes the side goals of the lemmas it applies).
No nested `by` blocks: a failure must be visible to `first`. -/
syntax "tree_ok" (ppSpace ident)? : tactic
macro_rules
  | `(tactic| tree_ok $[$n]?) => `(tactic| first
    | assumption
    | exact Inv.tree ‹_›
    | (refine TreeOk.insertAndPop ?_ _ _; tree_ok $[$n]?)
    | (refine TreeOk.insertHtml ?_ _ _ ?_ <;> first | tree_ok $[$n]? | pn $[$n]?)
    | (refine TreeOk.pushNew ?_ _ _ _ ?_ <;> first | tree_ok $[$n]? | pn $[$n]?)
    | (refine TreeOk.insertFormatting ?_ _ _ ?_ ?_ <;> first | tree_ok $[$n]? | pn $[$n]? | fmt_name $[$n]?)
    | (refine TreeOk.reconstructAfe (fmtOk_PNoCol _) ?_; tree_ok $[$n]?)
    | (refine TreeOk.adoptionAgency (fmtOk_PNoCol _) _ _ ?_; tree_ok $[$n]?)
    | (refine TreeOk.pushEl' _ ?_ ?_ <;> first | tree_ok $[$n]? | assumption)
    | (refine TreeOk.pop' ?_; tree_ok $[$n]?)
    | (refine TreeOk.popToRoot' ?_; tree_ok $[$n]?)
    | (refine TreeOk.popUntilNamed' _ ?_; tree_ok $[$n]?)
    | (refine TreeOk.popUntilIn' _ ?_; tree_ok $[$n]?)
    | (refine TreeOk.clearToTableContext' ?_; tree_ok $[$n]?)
    | (refine TreeOk.clearToTableBodyContext' ?_; tree_ok $[$n]?)
    | (refine TreeOk.clearToTableRowContext' ?_; tree_ok $[$n]?)
    | (refine TreeOk.genImplied' _ ?_; tree_ok $[$n]?)
    | (refine TreeOk.genImpliedThoroughly' ?_; tree_ok $[$n]?)
    | (refine TreeOk.closeP' ?_; tree_ok $[$n]?)
    | (refine TreeOk.closePInButtonScope' _ ?_; tree_ok $[$n]?)
    | (refine TreeOk.removeFromStack' _ ?_; tree_ok $[$n]?)
    | (refine TreeOk.anyOtherEndTag' _ _ ?_; tree_ok $[$n]?)
    | (refine TreeOk.pushMarker' ?_; tree_ok $[$n]?)
    | (refine TreeOk.clearAfeToMarker' ?_; tree_ok $[$n]?)
    | (refine TreeOk.removeFromAfe' _ ?_; tree_ok $[$n]?)
    | (refine TreeOk.closeListItem' _ _ ?_; tree_ok $[$n]?))

theorem rawText_inv (hI : Inv b s) (h1 : s.mode ≠ .text) (h2 : s.mode ≠ .inTableText) (n : Name) (a : Attrs)
    (sw : Switch) (hn : PNoCol b n .html) : InvPost b (rawText s n a sw) := by
  refine Or.inl ⟨?_, hI.tmodes, hI.head, ?_, by simp⟩
  · exact hI.tree.insertHtml n a hn
  · exact mf_text hI.modes h1 h2 hI.notCol

/-- `Inv b <state expression>` where the mode is unchanged or a literal other than "in column group";
`hI : Inv b s` for the state `s` the expression is built from -/
syntax "inv_core" ident (ppSpace ident)? : tactic
macro_rules
  | `(tactic| inv_core $hI:ident $[$n]?) =>
  `(tactic| (refine ⟨?_, ?_, ?_, ?_, ?_⟩
             · ((try dsimp only [onTree_tree]); tree_ok $[$n]?)
             · exact (Inv.tmodes $hI :)
             · exact (Inv.head $hI :)
             · first | exact (Inv.modes $hI :) | (simp [MF, framesetModes]; done) | (simp_all [MF, framesetModes]; done)
             · first | exact (Inv.notCol $hI :) | (simp; done)))

/-- `Inv b <state expression>` where the new mode is "text" and the original insertion mode the old mode -/
syntax "inv_text" ident ident ident (ppSpace ident)? : tactic
macro_rules
  | `(tactic| inv_text $hI:ident $h1:ident $h2:ident $[$n]?) =>
  `(tactic| (refine ⟨?_, ?_, ?_, ?_, ?_⟩
             · ((try dsimp only [onTree_tree]); tree_ok $[$n]?)
             · exact (Inv.tmodes $hI :)
             · exact (Inv.head $hI :)
             · exact (mf_text (Inv.modes $hI) $h1 $h2 (Inv.notCol $hI) :)
             · (simp; done)))

/-- finish a branch of a rule: `InvPost b <result>`; `hI : Inv b s`, `h1 : s.mode ≠ .text`,
`h2 : s.mode ≠ .inTableText` -/
syntax "hop_branch" ident ident ident (ppSpace ident)? : tactic
macro_rules
  | `(tactic| hop_branch $hI:ident $h1:ident $h2:ident $[$n]?) => `(tactic| first
    | exact Or.inl $hI
    | contradiction
    | (refine Or.inl ?_; inv_core $hI $[$n]?)
    | (refine ⟨Or.inl ?_, rfl⟩; inv_core $hI $[$n]?)
    | (apply rawText_inv <;> first | exact $h1 | exact $h2 | pn $[$n]? | inv_core $hI $[$n]?)
    | (refine Or.inl ?_; inv_text $hI $h1 $h2 $[$n]?)
    | (exfalso; simp_all; done))

theorem hasOnStack_template_false {t : Tree} (ht : TreeOk (PNoCol b) t) : t.hasOnStack .template = false := by
  unfold Tree.hasOnStack
  rw [List.any_eq_false]
  intro e he
  have := (ht.stack e he).2.1
  simp [El.isHtml, this]

end LolHtml.Spec.TreeBuilder
