import LolHtml.Lemmas.TbT1
import LolHtml.Lemmas.TbLoop
/-!
Preservation of the template-aware invariant `TInv`: the table modes, "in column group", "in template", the
modes before / after the body, the frameset modes; all modes together (`stepMode_tinv`).
-/
namespace LolHtml.Spec.TreeBuilder
open LolHtml.Model (Ns)

variable {b : Bool} {c : Cfg} {s : State}

/-- branches of the table rules: calls of "in body" / "in head", the rest as `thop_branch` -/
syntax "ttable_branch" ident ident ident ident ident ident : tactic
macro_rules
  | `(tactic| ttable_branch $hleg:ident $hI:ident $h1:ident $h2:ident $htok:ident $hfs:ident) => `(tactic| first
    | exact inBody_tinv $hleg $hI $h1 $h2 _ $htok $hfs
    | exact inBody_other_tinv $hleg $hI $h1 $h2 _ (fun _ _ _ h => by cases h)
    | exact inHead_tinv $hleg $hI $h1 $h2 _
    | (thop_branch $hleg $hI $h1 $h2))

/-- per-mode proof: case on the token, then on the tag name; evaluate; split; close -/
syntax "tmode_cases" ident ident ident ident ident ident ident "[" Lean.Parser.Tactic.simpLemma,* "]" : tactic
macro_rules
  | `(tactic| tmode_cases $t:ident $hleg:ident $hI:ident $h1:ident $h2:ident $htok:ident $hfs:ident [$defs,*]) => `(tactic|
    (cases $t:ident with
     | start n sc a =>
       cases n
       all_goals eval_rule [$defs,*]
       all_goals (repeat' split)
       all_goals (ttable_branch $hleg $hI $h1 $h2 $htok $hfs)
     | «end» n =>
       cases n
       all_goals eval_rule [$defs,*]
       all_goals (repeat' split)
       all_goals (ttable_branch $hleg $hI $h1 $h2 $htok $hfs)
     | char cc =>
       cases cc
       all_goals eval_rule [$defs,*]
       all_goals (repeat' split)
       all_goals (ttable_branch $hleg $hI $h1 $h2 $htok $hfs)
     | comment =>
       eval_rule [$defs,*]
       (repeat' split)
       all_goals (ttable_branch $hleg $hI $h1 $h2 $htok $hfs)
     | doctype d =>
       eval_rule [$defs,*]
       (repeat' split)
       all_goals (ttable_branch $hleg $hI $h1 $h2 $htok $hfs)
     | eof =>
       eval_rule [$defs,*]
       (repeat' split)
       all_goals (ttable_branch $hleg $hI $h1 $h2 $htok $hfs)))

set_option maxHeartbeats 16000000 in
theorem inTable_tinv (hleg : c.legacySelect = false) (hI : TInv b s)
    (hm : s.mode = .inTable ∨ s.mode = .inTableBody ∨ s.mode = .inRow) (t : Token) (htok : TokH t) (hfs : FsOk b s t) :
    TPost b (inTable c s t) := by
  have h1 : s.mode ≠ .text := by rcases hm with h | h | h <;> simp [h]
  have h2 : s.mode ≠ .inTableText := by rcases hm with h | h | h <;> simp [h]
  cases t with
  | char cc =>
    simp only [inTable, inTableAnythingElse]
    split
    · refine ⟨⟨hI.tree, hI.tmodes, hI.head, ?_⟩, rfl⟩
      refine ⟨by simp [OkMode, framesetModes], fun _ => hm, fun h => by cases h⟩
    · exact inBody_other_tinv hleg hI h1 h2 _ (fun _ _ _ h => by cases h)
  | comment => exact hI
  | doctype d => exact hI
  | eof => exact inBody_other_tinv hleg hI h1 h2 .eof (fun _ _ _ h => by cases h)
  | start n sc a =>
    cases n
    all_goals eval_rule [inTable, inTableAnythingElse]
    all_goals (repeat' split)
    all_goals (ttable_branch hleg hI h1 h2 htok hfs)
  | «end» n =>
    cases n
    all_goals eval_rule [inTable, inTableAnythingElse]
    all_goals (repeat' split)
    all_goals (ttable_branch hleg hI h1 h2 htok hfs)

theorem flushPending_tinv (hleg : c.legacySelect = false) (hI : TInv b s) : TInv b (flushPending s) := by
  have hfold : ∀ (l : List CharClass) (s' : State), TInv b s' → TInv b (l.foldl inBodyChar s') := by
    intro l
    induction l with
    | nil => intro s' h; exact h
    | cons x xs ih => intro s' h; exact ih _ (inBodyChar_tinv (c := c) hleg h x)
  have h0 : TInv b { s with pending := [] } := ⟨hI.tree, hI.tmodes, hI.head, hI.modes⟩
  unfold flushPending
  simp only
  split
  · exact hfold _ _ h0
  · exact h0

theorem inTableText_tinv (hleg : c.legacySelect = false) (hI : TInv b s) (hm : s.mode = .inTableText) (t : Token) :
    TPost b (inTableText c s t) := by
  have key : TPost b (Res.again { flushPending s with mode := (flushPending s).origMode }) := by
    have hf := flushPending_tinv (c := c) hleg hI
    obtain ⟨e1, e2⟩ := flushPending_mode s
    have hmf := mt_restore (hm ▸ hI.modes) (Or.inr rfl)
    refine ⟨⟨hf.tree, hf.tmodes, hf.head, ?_⟩, rfl⟩
    simpa [e2] using hmf
  cases t with
  | char cc =>
    cases cc
    · exact hI
    · exact ⟨hI.tree, hI.tmodes, hI.head, hI.modes⟩
    · exact ⟨hI.tree, hI.tmodes, hI.head, hI.modes⟩
  | start n sc a => exact key
  | «end» n => exact key
  | comment => exact key
  | doctype d => exact key
  | eof => exact key

set_option maxHeartbeats 16000000 in
theorem inCaption_tinv (hleg : c.legacySelect = false) (hI : TInv b s) (hm : s.mode = .inCaption) (t : Token)
    (htok : TokH t) (hfs : FsOk b s t) : TPost b (inCaption c s t) := by
  have h1 : s.mode ≠ .text := by simp [hm]
  have h2 : s.mode ≠ .inTableText := by simp [hm]
  tmode_cases t hleg hI h1 h2 htok hfs [inCaption]

set_option maxHeartbeats 16000000 in
theorem inTableBody_tinv (hleg : c.legacySelect = false) (hI : TInv b s) (hm : s.mode = .inTableBody) (t : Token)
    (htok : TokH t) (hfs : FsOk b s t) : TPost b (inTableBody c s t) := by
  have h1 : s.mode ≠ .text := by simp [hm]
  have h2 : s.mode ≠ .inTableText := by simp [hm]
  have hT := fun t' (ht' : TokH t') (hf' : FsOk b s t') => inTable_tinv (c := c) hleg hI (Or.inr (Or.inl hm)) t' ht' hf'
  cases t with
  | start n sc a =>
    cases n
    all_goals eval_rule [inTableBody]
    all_goals (repeat' split)
    all_goals first | exact hT _ htok hfs | (ttable_branch hleg hI h1 h2 htok hfs)
  | «end» n =>
    cases n
    all_goals eval_rule [inTableBody]
    all_goals (repeat' split)
    all_goals first | exact hT _ htok hfs | (ttable_branch hleg hI h1 h2 htok hfs)
  | char cc => exact hT _ htok hfs
  | comment => exact hT _ htok hfs
  | doctype d => exact hT _ htok hfs
  | eof => exact hT _ htok hfs

set_option maxHeartbeats 16000000 in
theorem inRow_tinv (hleg : c.legacySelect = false) (hI : TInv b s) (hm : s.mode = .inRow) (t : Token)
    (htok : TokH t) (hfs : FsOk b s t) : TPost b (inRow c s t) := by
  have h1 : s.mode ≠ .text := by simp [hm]
  have h2 : s.mode ≠ .inTableText := by simp [hm]
  have hT := fun t' (ht' : TokH t') (hf' : FsOk b s t') => inTable_tinv (c := c) hleg hI (Or.inr (Or.inr hm)) t' ht' hf'
  cases t with
  | start n sc a =>
    cases n
    all_goals eval_rule [inRow]
    all_goals (repeat' split)
    all_goals first | exact hT _ htok hfs | (ttable_branch hleg hI h1 h2 htok hfs)
  | «end» n =>
    cases n
    all_goals eval_rule [inRow]
    all_goals (repeat' split)
    all_goals first | exact hT _ htok hfs | (ttable_branch hleg hI h1 h2 htok hfs)
  | char cc => exact hT _ htok hfs
  | comment => exact hT _ htok hfs
  | doctype d => exact hT _ htok hfs
  | eof => exact hT _ htok hfs

set_option maxHeartbeats 16000000 in
theorem inCell_tinv (hleg : c.legacySelect = false) (hI : TInv b s) (hm : s.mode = .inCell) (t : Token)
    (htok : TokH t) (hfs : FsOk b s t) : TPost b (inCell c s t) := by
  have h1 : s.mode ≠ .text := by simp [hm]
  have h2 : s.mode ≠ .inTableText := by simp [hm]
  tmode_cases t hleg hI h1 h2 htok hfs [inCell, State.closeCell]

set_option maxHeartbeats 16000000 in
theorem inColumnGroup_tinv (hleg : c.legacySelect = false) (hI : TInv b s) (hm : s.mode = .inColumnGroup) (t : Token)
    (htok : TokH t) (hfs : FsOk b s t) : TPost b (inColumnGroup c s t) := by
  have h1 : s.mode ≠ .text := by simp [hm]
  have h2 : s.mode ≠ .inTableText := by simp [hm]
  tmode_cases t hleg hI h1 h2 htok hfs [inColumnGroup]

set_option maxHeartbeats 16000000 in
theorem inTemplate_tinv (hleg : c.legacySelect = false) (hI : TInv b s) (hm : s.mode = .inTemplate) (t : Token)
    (htok : TokH t) (hfs : FsOk b s t) : TPost b (inTemplate c s t) := by
  have h1 : s.mode ≠ .text := by simp [hm]
  have h2 : s.mode ≠ .inTableText := by simp [hm]
  cases t with
  | eof => exact inTemplateEof_tinv hleg hI
  | char cc => exact inBody_other_tinv hleg hI h1 h2 (.char cc) (fun _ _ _ h => by cases h)
  | comment => exact inBody_other_tinv hleg hI h1 h2 .comment (fun _ _ _ h => by cases h)
  | doctype d => exact inBody_other_tinv hleg hI h1 h2 (.doctype d) (fun _ _ _ h => by cases h)
  | «end» n =>
    simp only [inTemplate]
    split
    · exact inHead_tinv hleg hI h1 h2 _
    · exact hI
  | start n sc a =>
    cases n
    all_goals eval_rule [inTemplate, headStartNames]
    all_goals (repeat' split)
    all_goals (ttable_branch hleg hI h1 h2 htok hfs)

set_option maxHeartbeats 16000000 in
theorem afterBody_tinv (hleg : c.legacySelect = false) (hI : TInv b s) (hm : s.mode = .afterBody) (t : Token)
    (htok : TokH t) (hfs : FsOk b s t) : TPost b (afterBody c s t) := by
  have h1 : s.mode ≠ .text := by simp [hm]
  have h2 : s.mode ≠ .inTableText := by simp [hm]
  tmode_cases t hleg hI h1 h2 htok hfs [afterBody]

set_option maxHeartbeats 16000000 in
theorem afterAfterBody_tinv (hleg : c.legacySelect = false) (hI : TInv b s) (hm : s.mode = .afterAfterBody) (t : Token)
    (htok : TokH t) (hfs : FsOk b s t) : TPost b (afterAfterBody c s t) := by
  have h1 : s.mode ≠ .text := by simp [hm]
  have h2 : s.mode ≠ .inTableText := by simp [hm]
  tmode_cases t hleg hI h1 h2 htok hfs [afterAfterBody]

theorem frameset_bT (hI : TInv b s) (hm : s.mode ∈ framesetModes) : b = true := by
  cases b with
  | true => rfl
  | false => exact absurd hm (hI.modes.1.2.2 rfl)

set_option maxHeartbeats 16000000 in
theorem inFrameset_tinv (hleg : c.legacySelect = false) (hI : TInv b s) (hm : s.mode = .inFrameset) (t : Token)
    (htok : TokH t) (hfs : FsOk b s t) : TPost b (inFrameset c s t) := by
  have h1 : s.mode ≠ .text := by simp [hm]
  have h2 : s.mode ≠ .inTableText := by simp [hm]
  have hb : b = true := frameset_bT hI (by simp [hm, framesetModes])
  subst hb
  tmode_cases t hleg hI h1 h2 htok hfs [inFrameset]

set_option maxHeartbeats 16000000 in
theorem afterFrameset_tinv (hleg : c.legacySelect = false) (hI : TInv b s) (hm : s.mode = .afterFrameset) (t : Token)
    (htok : TokH t) (hfs : FsOk b s t) : TPost b (afterFrameset c s t) := by
  have h1 : s.mode ≠ .text := by simp [hm]
  have h2 : s.mode ≠ .inTableText := by simp [hm]
  have hb : b = true := frameset_bT hI (by simp [hm, framesetModes])
  subst hb
  tmode_cases t hleg hI h1 h2 htok hfs [afterFrameset]

set_option maxHeartbeats 16000000 in
theorem afterAfterFrameset_tinv (hleg : c.legacySelect = false) (hI : TInv b s) (hm : s.mode = .afterAfterFrameset)
    (t : Token) (htok : TokH t) (hfs : FsOk b s t) : TPost b (afterAfterFrameset c s t) := by
  have h1 : s.mode ≠ .text := by simp [hm]
  have h2 : s.mode ≠ .inTableText := by simp [hm]
  have hb : b = true := frameset_bT hI (by simp [hm, framesetModes])
  subst hb
  tmode_cases t hleg hI h1 h2 htok hfs [afterAfterFrameset]

set_option maxHeartbeats 16000000 in
theorem initial_tinv (hleg : c.legacySelect = false) (hI : TInv b s) (hm : s.mode = .initial) (t : Token)
    (htok : TokH t) (hfs : FsOk b s t) : TPost b (initial c s t) := by
  have h1 : s.mode ≠ .text := by simp [hm]
  have h2 : s.mode ≠ .inTableText := by simp [hm]
  tmode_cases t hleg hI h1 h2 htok hfs [initial]

set_option maxHeartbeats 16000000 in
theorem beforeHtml_tinv (hleg : c.legacySelect = false) (hI : TInv b s) (hm : s.mode = .beforeHtml) (t : Token)
    (htok : TokH t) (hfs : FsOk b s t) : TPost b (beforeHtml c s t) := by
  have h1 : s.mode ≠ .text := by simp [hm]
  have h2 : s.mode ≠ .inTableText := by simp [hm]
  tmode_cases t hleg hI h1 h2 htok hfs [beforeHtml]

set_option maxHeartbeats 16000000 in
theorem inHeadNoscript_tinv (hleg : c.legacySelect = false) (hI : TInv b s) (hm : s.mode = .inHeadNoscript) (t : Token)
    (htok : TokH t) (hfs : FsOk b s t) : TPost b (inHeadNoscript c s t) := by
  have h1 : s.mode ≠ .text := by simp [hm]
  have h2 : s.mode ≠ .inTableText := by simp [hm]
  tmode_cases t hleg hI h1 h2 htok hfs [inHeadNoscript]

/-- inserting the `head` element and setting the head element pointer -/
theorem tinv_insertHead (hI : TInv b s) (a : Attrs) :
    TInv b { (s.insertHtml .head a) with headPtr := (s.insertHtml .head a).current, mode := .inHead } := by
  refine ⟨hI.tree.insertHtml _ _ (by simp [PT]), hI.tmodes, ?_, by simp [MT, OkMode, framesetModes]⟩
  intro h hh
  simp only [State.current, Tree.current, State.insertHtml, State.onTree, Tree.insertHtml, Tree.pushNew,
    List.head?_cons, Option.some.injEq] at hh
  subst hh
  exact ⟨rfl, rfl⟩

theorem beforeHead_tinv (hI : TInv b s) (t : Token) : TPost b (beforeHead c s t) := by
  have key : ∀ a, TPost b (Res.again { (s.insertHtml .head a) with headPtr := (s.insertHtml .head a).current, mode := .inHead }) :=
    fun a => ⟨tinv_insertHead hI a, rfl⟩
  cases t with
  | char cc => cases cc <;> first | exact hI | exact key {}
  | comment => exact hI
  | doctype d => exact hI
  | eof => exact key {}
  | «end» n =>
    simp only [beforeHead]
    split
    · exact key {}
    · exact hI
  | start n sc a =>
    by_cases h1 : n = .html
    · subst h1; exact hI
    by_cases h2 : n = .head
    · subst h2; exact tinv_insertHead hI a
    · have : beforeHead c s (.start n sc a) =
          Res.again { (s.insertHtml .head {}) with headPtr := (s.insertHtml .head {}).current, mode := .inHead } := by
        cases n <;> first | exact (h1 rfl).elim | exact (h2 rfl).elim | rfl
      rw [this]; exact key {}

set_option maxHeartbeats 16000000 in
/-- "after head", the tokens processed by the "in head" rules with the head element pushed back -/
theorem afterHead_head_tinv (hleg : c.legacySelect = false) (hI : TInv b s) (hm : s.mode = .afterHead) (n : Name) (sc : Bool)
    (a : Attrs) (hh : n.isIn headStartNames = true) (h : El) (hp : s.headPtr = some h) :
    TPost b (afterHead c s (.start n sc a)) := by
  have h1 : s.mode ≠ .text := by simp [hm]
  have h2 : s.mode ≠ .inTableText := by simp [hm]
  have hP : PT b h.name h.ns := by
    obtain ⟨e1, e2⟩ := hI.head h hp
    simp [PT, e1, e2]
  have hhead : ∀ h', some h = some h' → h'.ns = .html ∧ h'.name = .head := fun h' hh' => hI.head h' (hp.trans hh')
  cases n <;> simp [headStartNames, Name.isIn] at hh
  all_goals simp +decide [afterHead, hp, inHead, Res.mapState, rawText, Name.isIn, htmlStartInBody, Res.ok, Res.ignore,
    Res.again, headStartNames]
  all_goals (repeat' split)
  all_goals first
    | (refine ⟨?_, (TInv.tmodes hI :), (TInv.head hI :), (TInv.modes hI :)⟩
       (try dsimp only [onTree_tree]); ttree_ok)
    | (refine ⟨?_, (TInv.tmodes hI :), hhead, (mt_text (TInv.modes hI) h1 h2 :)⟩
       (try dsimp only [onTree_tree]); ttree_ok)
    | (refine ⟨?_, ?_, hhead, ?_⟩
       · (try dsimp only [onTree_tree]); ttree_ok
       · (refine (TmOk.cons ?_ (TInv.tmodes hI) :); simp [templateModes])
       · simp [MT, OkMode, framesetModes])

set_option maxHeartbeats 16000000 in
theorem afterHead_tinv (hleg : c.legacySelect = false) (hI : TInv b s) (hm : s.mode = .afterHead) (t : Token)
    (htok : TokH t) (hfsA : ∀ sc a, t = .start .frameset sc a → b = true) : TPost b (afterHead c s t) := by
  have h1 : s.mode ≠ .text := by simp [hm]
  have h2 : s.mode ≠ .inTableText := by simp [hm]
  have hfs : FsOk b s t := fun sc a h => Or.inl (hfsA sc a h)
  cases t with
  | start n sc a =>
    by_cases hh : n.isIn headStartNames = true
    · cases hp : s.headPtr with
      | none =>
        have := inHead_tinv (c := c) hleg hI h1 h2 (.start n sc a)
        cases n <;> simp [headStartNames, Name.isIn] at hh <;> simpa [afterHead, hp, headStartNames, Name.isIn] using this
      | some h => exact afterHead_head_tinv hleg hI hm n sc a hh h hp
    · have hh' : n.isIn headStartNames = false := by simpa using hh
      by_cases hf : n = .frameset
      · subst hf
        have hb := hfsA sc a rfl
        subst hb
        eval_rule [afterHead, headStartNames]
        (thop_branch hleg hI h1 h2)
      cases n <;> (try (simp [headStartNames, Name.isIn] at hh'; done)) <;> (try (exfalso; exact hf rfl))
      all_goals eval_rule [afterHead, headStartNames]
      all_goals (repeat' split)
      all_goals (ttable_branch hleg hI h1 h2 htok hfs)
  | «end» n =>
    cases n
    all_goals eval_rule [afterHead]
    all_goals (repeat' split)
    all_goals (ttable_branch hleg hI h1 h2 htok hfs)
  | char cc =>
    cases cc
    all_goals eval_rule [afterHead]
    all_goals (ttable_branch hleg hI h1 h2 htok hfs)
  | comment => exact hI
  | doctype d => exact hI
  | eof =>
    eval_rule [afterHead]
    (ttable_branch hleg hI h1 h2 htok hfs)

/-- every insertion mode -/
theorem stepMode_tinv (hleg : c.legacySelect = false) (hI : TInv b s) (t : Token) (htok : TokH t)
    (hfs : ∀ sc a, t = .start .frameset sc a → b = true ∨ (s.framesetOk = false ∧ s.mode ≠ .afterHead))
    (htext : s.mode = .text → TextTok t) : TPost b (stepMode c s t) := by
  have hfs' : FsOk b s t := fun sc a h => by
    rcases hfs sc a h with h | h
    · exact Or.inl h
    · exact Or.inr h.1
  have hm := hI.modes
  unfold stepMode
  cases hmode : s.mode <;> simp only
  case initial => exact initial_tinv hleg hI hmode t htok hfs'
  case beforeHtml => exact beforeHtml_tinv hleg hI hmode t htok hfs'
  case beforeHead => exact beforeHead_tinv hI t
  case inHead => exact inHead_tinv hleg hI (by simp [hmode]) (by simp [hmode]) t
  case inHeadNoscript => exact inHeadNoscript_tinv hleg hI hmode t htok hfs'
  case afterHead =>
    refine afterHead_tinv hleg hI hmode t htok (fun sc a h => ?_)
    rcases hfs sc a h with h | h
    · exact h
    · exact absurd hmode h.2
  case inBody => exact inBody_tinv hleg hI (by simp [hmode]) (by simp [hmode]) t htok hfs'
  case text =>
    have := htext hmode
    exact text_tinv hI hmode t (by cases t <;> simp_all [TextTok])
  case inTable => exact inTable_tinv hleg hI (Or.inl hmode) t htok hfs'
  case inTableText => exact inTableText_tinv hleg hI hmode t
  case inCaption => exact inCaption_tinv hleg hI hmode t htok hfs'
  case inColumnGroup => exact inColumnGroup_tinv hleg hI hmode t htok hfs'
  case inTableBody => exact inTableBody_tinv hleg hI hmode t htok hfs'
  case inRow => exact inRow_tinv hleg hI hmode t htok hfs'
  case inCell => exact inCell_tinv hleg hI hmode t htok hfs'
  case inSelect => exact absurd hmode hm.1.1
  case inSelectInTable => exact absurd hmode hm.1.2.1
  case inTemplate => exact inTemplate_tinv hleg hI hmode t htok hfs'
  case afterBody => exact afterBody_tinv hleg hI hmode t htok hfs'
  case inFrameset => exact inFrameset_tinv hleg hI hmode t htok hfs'
  case afterFrameset => exact afterFrameset_tinv hleg hI hmode t htok hfs'
  case afterAfterBody => exact afterAfterBody_tinv hleg hI hmode t htok hfs'
  case afterAfterFrameset => exact afterAfterFrameset_tinv hleg hI hmode t htok hfs'

end LolHtml.Spec.TreeBuilder
