/-
Lemmas about the abstract codec and the bounded decoder call (`Model.Codec`).
-/
import LolHtml.Model.Codec

namespace LolHtml.Enc

theorem utf8Len_append (a b : List Char) : utf8Len (a ++ b) = utf8Len a + utf8Len b := by
  induction a with
  | nil => simp [utf8Len]
  | cons x xs ih => simp [utf8Len, ih, Nat.add_assoc]

theorem utf8Len_nil : utf8Len [] = 0 := rfl

namespace Codec
variable {c : Codec}

theorem run_nil (s : c.σ) : c.run s [] = (s, []) := rfl

theorem run_cons (s : c.σ) (b : UInt8) (bs : Bytes) :
    c.run s (b :: bs) =
      ((c.run (c.step2 s b).1 bs).1, (c.step2 s b).2 ++ (c.run (c.step2 s b).1 bs).2) := rfl

theorem run_append (s : c.σ) (a b : Bytes) :
    c.run s (a ++ b) =
      ((c.run (c.run s a).1 b).1, (c.run s a).2 ++ (c.run (c.run s a).1 b).2) := by
  induction a generalizing s with
  | nil => simp [run_nil]
  | cons x xs ih => simp [run_cons, ih, List.append_assoc]

theorem tail_nil (s : c.σ) : c.tail s [] = c.decFlush s := by simp [tail, run_nil]

theorem tail_cons (s : c.σ) (b : UInt8) (bs : Bytes) :
    c.tail s (b :: bs) = (c.step2 s b).2 ++ c.tail (c.step2 s b).1 bs := by
  simp [tail, run_cons, List.append_assoc]

theorem tail_append (s : c.σ) (a b : Bytes) :
    c.tail s (a ++ b) = (c.run s a).2 ++ c.tail (c.run s a).1 b := by
  simp [tail, run_append, List.append_assoc]

/-- a consumed micro-step is a full step -/
theorem tail_step_consumed (s : c.σ) (b : UInt8) (bs : Bytes)
    (h : (c.decStep s b).consumed = true) :
    c.tail s (b :: bs) = (c.decStep s b).out ++ c.tail (c.decStep s b).st bs := by
  rw [tail_cons]; simp [step2, h]

/-- an unread micro-step leaves the byte to the (neutral) state it falls back to -/
theorem tail_step_unread (L : c.Lawful) (s : c.σ) (b : UInt8) (bs : Bytes)
    (h : (c.decStep s b).consumed = false) :
    c.tail s (b :: bs) = (c.decStep s b).out ++ c.tail (c.decStep s b).st (b :: bs) := by
  have hc := L.unread_once s b h
  rw [tail_cons, tail_cons]
  simp [step2, h, hc, List.append_assoc]

/-- the usual way to get `unread_once`: a byte is unread only when falling back to the neutral state,
which consumes every byte -/
theorem unread_once_of (c : Codec) (hi : ∀ b, (c.decStep c.init b).consumed = true)
    (hu : ∀ s b, (c.decStep s b).consumed = false → (c.decStep s b).st = c.init) :
    ∀ s b, (c.decStep s b).consumed = false → (c.decStep (c.decStep s b).st b).consumed = true := by
  intro s b h; rw [hu s b h]; exact hi b

theorem decodeAll_eq (c : Codec) (bs : Bytes) : c.decodeAll bs = c.tail c.init bs := rfl

end Codec

/-! ### the bounded call -/

section
variable {c : Codec} (pol : Policy c)

theorem push_read {σ} (n : Nat) (o : List Char) (r : DecodeRes σ) : (r.push n o).read = n + r.read := rfl
theorem push_out {σ} (n : Nat) (o : List Char) (r : DecodeRes σ) : (r.push n o).out = o ++ r.out := rfl
theorem push_st {σ} (n : Nat) (o : List Char) (r : DecodeRes σ) : (r.push n o).st = r.st := rfl
theorem push_status {σ} (n : Nat) (o : List Char) (r : DecodeRes σ) :
    (r.push n o).status = r.status := rfl

/-- What is left to be produced after a bounded call. -/
def remTail (c : Codec) (last : Bool) (res : DecodeRes c.σ) (src more : Bytes) : List Char :=
  if last = true ∧ res.status = .inputEmpty then [] else c.tail res.st (src.drop res.read ++ more)

/-- Soundness of the bounded call: whatever the policy, output so far ++ what is left = what the
unbounded decoder produces. (`more` = bytes of later `feed_text` calls; none after a `last` call.) -/
theorem decodeAux_sound (L : c.Lawful) (last : Bool) (more : Bytes) (hm : last = true → more = []) :
    ∀ (src : Bytes) (p : pol.P) (s : c.σ) (free : Nat),
      c.tail s (src ++ more) =
        (decodeAux c pol last p s src free).out ++
          remTail c last (decodeAux c pol last p s src free) src more := by
  intro src
  induction src with
  | nil =>
    intro p s free
    cases last with
    | false => simp [decodeAux, remTail]
    | true =>
      have : more = [] := hm rfl
      subst this
      by_cases hs : mustStop pol p s free (c.decFlush s) [] = true
      · simp [decodeAux, hs, remTail]
      · simp [decodeAux, hs, remTail, Codec.tail_nil]
  | cons b rest ih =>
    intro p s free
    simp only [decodeAux]
    by_cases hs : mustStop pol p s free (c.decStep s b).out (b :: rest) = true
    · simp [hs, remTail]
    · simp only [hs, Bool.false_eq_true, if_false]
      by_cases hc : (c.decStep s b).consumed = true
      · simp only [hc, if_true]
        rw [List.cons_append, Codec.tail_step_consumed s b _ hc,
          ih (pol.next p s free (b :: rest) (c.decStep s b)) (c.decStep s b).st
            (free - utf8Len (c.decStep s b).out)]
        simp [remTail, push_out, push_read, push_status, push_st, List.append_assoc,
          Nat.add_comm 1]
      · have hc' : (c.decStep s b).consumed = false := by simpa using hc
        simp only [hc', Bool.false_eq_true, if_false]
        rw [List.cons_append, Codec.tail_step_unread L s b _ hc']
        by_cases hs2 : mustStop pol (pol.next p s free (b :: rest) (c.decStep s b)) (c.decStep s b).st
            (free - utf8Len (c.decStep s b).out) (c.decStep (c.decStep s b).st b).out (b :: rest) = true
        · simp [hs2, remTail]
        · simp only [hs2, Bool.false_eq_true, if_false]
          have hcc : (c.decStep (c.decStep s b).st b).consumed = true := L.unread_once s b hc'
          rw [Codec.tail_step_consumed _ b _ hcc,
            ih (pol.next (pol.next p s free (b :: rest) (c.decStep s b)) (c.decStep s b).st
              (free - utf8Len (c.decStep s b).out) (b :: rest) (c.decStep (c.decStep s b).st b))
              (c.decStep (c.decStep s b).st b).st
              (free - utf8Len (c.decStep s b).out - utf8Len (c.decStep (c.decStep s b).st b).out)]
          simp [remTail, push_out, push_read, push_status, push_st, List.append_assoc,
            Nat.add_comm 1]

theorem decodeAux_read_le (last : Bool) :
    ∀ (src : Bytes) (p : pol.P) (s : c.σ) (free : Nat),
      (decodeAux c pol last p s src free).read ≤ src.length := by
  intro src
  induction src with
  | nil => intro p s free; simp only [decodeAux]; split <;> (try split) <;> simp
  | cons b rest ih =>
    intro p s free
    simp only [decodeAux]
    split
    · simp
    · split
      · simp only [push_read, List.length_cons]; have := ih (pol.next p s free (b :: rest) (c.decStep s b)) (c.decStep s b).st (free - utf8Len (c.decStep s b).out); omega
      · split
        · simp
        · simp only [push_read, List.length_cons]
          have := ih (pol.next (pol.next p s free (b :: rest) (c.decStep s b)) (c.decStep s b).st
            (free - utf8Len (c.decStep s b).out) (b :: rest) (c.decStep (c.decStep s b).st b))
            (c.decStep (c.decStep s b).st b).st
            (free - utf8Len (c.decStep s b).out - utf8Len (c.decStep (c.decStep s b).st b).out)
          omega

theorem decodeAux_inputEmpty_read (last : Bool) :
    ∀ (src : Bytes) (p : pol.P) (s : c.σ) (free : Nat),
      (decodeAux c pol last p s src free).status = .inputEmpty →
      (decodeAux c pol last p s src free).read = src.length := by
  intro src
  induction src with
  | nil => intro p s free; simp only [decodeAux]; split <;> (try split) <;> simp
  | cons b rest ih =>
    intro p s free
    simp only [decodeAux]
    split
    · simp
    · split
      · simp only [push_read, push_status, List.length_cons]
        intro h; have := ih _ _ _ h; omega
      · split
        · simp
        · simp only [push_read, push_status, List.length_cons]
          intro h; have := ih _ _ _ h; omega

/-- the buffer never overflows -/
theorem decodeAux_out_le (last : Bool) :
    ∀ (src : Bytes) (p : pol.P) (s : c.σ) (free : Nat),
      utf8Len (decodeAux c pol last p s src free).out ≤ free := by
  intro src
  induction src with
  | nil =>
    intro p s free; simp only [decodeAux]
    split
    · split
      · simp [utf8Len]
      · rename_i h; simp only [mustStop, Bool.or_eq_true, decide_eq_true_eq, Bool.and_eq_true, not_or] at h
        show utf8Len (c.decFlush s) ≤ free
        omega
    · simp [utf8Len]
  | cons b rest ih =>
    intro p s free
    simp only [decodeAux]
    split
    · simp [utf8Len]
    · rename_i h
      simp only [mustStop, Bool.or_eq_true, decide_eq_true_eq, Bool.and_eq_true, not_or] at h
      split
      · simp only [push_out, utf8Len_append]
        have := ih (pol.next p s free (b :: rest) (c.decStep s b)) (c.decStep s b).st (free - utf8Len (c.decStep s b).out)
        omega
      · split
        · simp only []; omega
        · rename_i h2
          simp only [mustStop, Bool.or_eq_true, decide_eq_true_eq, Bool.and_eq_true, not_or] at h2
          simp only [push_out, utf8Len_append]
          have := ih (pol.next (pol.next p s free (b :: rest) (c.decStep s b)) (c.decStep s b).st
            (free - utf8Len (c.decStep s b).out) (b :: rest) (c.decStep (c.decStep s b).st b))
            (c.decStep (c.decStep s b).st b).st
            (free - utf8Len (c.decStep s b).out - utf8Len (c.decStep (c.decStep s b).st b).out)
          omega

end

end LolHtml.Enc
