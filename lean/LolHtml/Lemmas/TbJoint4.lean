import LolHtml.Lemmas.TbJoint3
import LolHtml.Lemmas.TbT6
/-!
The induction behind `C03_tb_text_feedback_exact`: **all** HTML-namespace token sequences, `template` start
tags included, up to the first token at which the parser is in "in column group" without a `colgroup`
current node (`ColGroupInTemplate`) or the guard is in a select state while the parser is back in a mode
before the body (`GuardSelectStale`).
-/
namespace LolHtml.Spec.TreeBuilder
open LolHtml LolHtml.Model LolHtml.Lemmas.Sim

/-- the parser is in "in column group" although the current node is no `colgroup`: only inside a template
whose insertion mode became "in column group" through a `col` start tag (finding F31) -/
def ColGroupInTemplate (s : State) : Bool := s.mode == .inColumnGroup && !s.currentIs .colgroup

/-- the guard is in a select state while the parser is (back) in a mode before the body: only after an
`</template>` has closed a `select` the guard still waits for (finding F32) -/
def GuardSelectStale (s : State) (g : GuardState) : Bool := inSelectState g && decide (effMode s ∈ preBody)

/-- `joint`, ending also at the first token met in a state where one of the two predicates holds -/
def jointX (cfg : TagCfg) (c : Cfg) : Sim → State → TkState → List TbEv → List (Token × Switch × Switch)
  | _, _, _, [] => []
  | sim, s, tk, ev :: evs =>
    if !passes tk ev.tok then jointX cfg c sim s tk evs
    else if ColGroupInTemplate s || GuardSelectStale s sim.guard then []
    else
      match simStep cfg sim ev with
      | .error _ => []
      | .ok (sim', fb) =>
        let o := step c s ev.tok
        (ev.tok, switchOfFeedback fb, o.sw) :: jointX cfg c sim' o.st (nextTk tk ev.tok (switchOfFeedback fb)) evs

/-- HTML-namespace tokens: no `svg` / `math` start tag -/
def HtmlNs (t : Token) : Prop := ∀ n sc a, t = .start n sc a → n ≠ .svg ∧ n ≠ .math

def isTemplateStartTok : Token → Bool
  | .start .template _ _ => true
  | _ => false

/-! ### from the template-free invariant to the template-aware one -/

theorem PT.mono {b : Bool} {n : Name} {ns : Ns} (h : PT b n ns) : PT true n ns := ⟨h.1, fun hb => by cases hb⟩

theorem TInv.cast {b b' : Bool} {s : State} (h : TInv b s) (hb : b = true → b' = true) : TInv b' s := by
  cases b' with
  | false =>
    cases b with
    | false => exact h
    | true => exact absurd (hb rfl) (by simp)
  | true =>
    refine ⟨⟨fun e he => (h.tree.stack e he).mono, h.tree.afe⟩, h.tmodes, h.head, ?_⟩
    obtain ⟨⟨a1, a2, _⟩, a4, a5⟩ := h.modes
    refine ⟨⟨a1, a2, fun hb => by cases hb⟩, a4, fun hm => ?_⟩
    obtain ⟨c1, c2, ⟨c3, c4, _⟩⟩ := a5 hm
    exact ⟨c1, c2, c3, c4, fun hb => by cases hb⟩

theorem GInv.toT {b : Bool} {s : State} (h : GInv b s) : TInv b s := by
  rcases h with hI | hC
  · refine ⟨⟨fun e he => ?_, hI.tree.afe⟩, by rw [hI.tmodes]; exact TmOk.nil, hI.head, ?_⟩
    · have := hI.tree.stack e he
      exact ⟨this.1, this.2.2.2⟩
    · obtain ⟨a1, a2, a3, a4⟩ := hI.modes
      simp only [List.mem_cons, List.mem_nil_iff, or_false, not_or] at a1
      refine ⟨⟨a1.1, a1.2.1, fun hb => (a4 hb).1⟩, ?_, fun hm => ?_⟩
      · intro hm
        have := a2 hm
        simpa using this
      · have := a3 hm
        simp only [List.mem_cons, List.mem_nil_iff, or_false, not_or] at this
        exact ⟨this.1, this.2.1, this.2.2.1, this.2.2.2.1, fun hb => (a4 hb).2 hm⟩
  · obtain ⟨e, rest, hst, hcol, hr⟩ := hC.top
    obtain ⟨e1, e2⟩ := isHtml_name hcol
    refine ⟨⟨fun x hx => ?_, hr.afe⟩, by rw [hC.tmodes]; exact TmOk.nil, hC.head, ?_⟩
    · rw [hst] at hx
      rcases List.mem_cons.mp hx with rfl | hx
      · exact ⟨e1, fun _ => by rw [e2]; decide⟩
      · have := hr.stack x hx
        exact ⟨this.1, this.2.2.2⟩
    · rw [hC.mode]
      simp [MT, OkMode, framesetModes]

theorem mode_notPre {s : State} (h : effMode s ∉ preBody) (h1 : s.mode ≠ .text) : s.mode ∉ preBody := by
  by_cases h2 : s.mode = .inTableText
  · simp [h2, preBody]
  · rwa [effMode_eq h1 h2] at h

/-- the relation kept by the joint run; `seen` = a `template` start tag has been met -/
structure JRel3 (c : Cfg) (sim : Sim) (s : State) (tk : TkState) (seen : Bool) : Prop where
  simOk : SimHtml sim
  inv : TInv (isSticky sim.guard) s
  ns : NsOk c s
  tkr : TkRel tk s
  /-- the guard in a select state: frameset-ok flag off -/
  fo : inSelectState sim.guard = true → s.framesetOk = false
  /-- after a `template` start tag (no `frameset` acted upon): frameset-ok flag off -/
  i1 : seen = true → isSticky sim.guard = false → s.framesetOk = false
  /-- before the first `template` start tag: the template-free relation -/
  pre : seen = false → JRel2 c sim s tk

theorem JRel2.to3 {sim : Sim} {s : State} {tk : TkState} (h : JRel2 cfgStd sim s tk) : JRel3 cfgStd sim s tk false :=
  ⟨h.simOk, h.inv.toT, h.ns, h.tk, fun hs => (h.sel hs).2.2, fun hs => (by cases hs), fun _ => h⟩

/-- along template-free runs neither predicate ever holds: they can only become true through a `template`
start tag -/
theorem jrel2_not_bad {sim : Sim} {s : State} {tk : TkState} (h : JRel2 cfgStd sim s tk) :
    (ColGroupInTemplate s || GuardSelectStale s sim.guard) = false := by
  simp only [Bool.or_eq_false_iff]
  constructor
  · unfold ColGroupInTemplate
    rcases h.inv with hI | hC
    · have := hI.notCol
      simp [this]
    · simp [hC.currentIs]
  · unfold GuardSelectStale
    cases hs : inSelectState sim.guard
    · rfl
    · have := (h.sel hs).2.1.1
      simp [this]

theorem template_step {s : State} (hI : TInv false s) (hns : NsOk cfgStd s) (h1 : s.mode ≠ .text) (sc : Bool) (a : Attrs) :
    (step cfgStd s (.start .template sc a)).st.framesetOk = false := by
  rw [step_eq_loopT rfl hI _]
  exact loop_template (c := cfgStd) rfl sc a false (fuelFor s) s hI hns h1 (rank_le_fuel s)

/-- the new fields after a token that is not a start tag -/
theorem nonstart_fieldsT {sim : Sim} {s : State} {tk : TkState} (hJ : JRel3 cfgStd sim s tk true) (t : Token)
    (g' : GuardState) (o : Out) (hfo : s.framesetOk = false → o.st.framesetOk = false)
    (e1 : isSticky g' = isSticky sim.guard) (e2 : inSelectState g' = true → inSelectState sim.guard = true) :
    (inSelectState g' = true → o.st.framesetOk = false) ∧ (isSticky g' = false → o.st.framesetOk = false) :=
  ⟨fun h => hfo (hJ.fo (e2 h)), fun h => hfo (hJ.i1 rfl (e1 ▸ h))⟩

set_option maxHeartbeats 2000000 in
/-- one token, once a `template` start tag has been met or at the first one -/
theorem jrel3_stepT (cfg : TagCfg) {sim : Sim} {s : State} {tk : TkState} {seen : Bool}
    (hJ : JRel3 cfgStd sim s tk seen) (hbad : (ColGroupInTemplate s || GuardSelectStale s sim.guard) = false)
    (ev : TbEv) (hev : ev.Ok cfg) (hcl : HtmlNs ev.tok) (hpass : passes tk ev.tok = true)
    (hcase : seen = true ∨ isTemplateStartTok ev.tok = true) :
    StepOk cfg sim s tk ev (fun sim' s' tk' => JRel3 cfgStd sim' s' tk' true) := by
  unfold StepOk
  simp only [Bool.or_eq_false_iff] at hbad
  have hcol : ColOk s := by
    intro hm
    have := hbad.1
    simp only [ColGroupInTemplate, hm, beq_self_eq_true, Bool.true_and, Bool.not_eq_false'] at this
    simpa using this
  have hstale : inSelectState sim.guard = true → effMode s ∉ preBody := by
    intro hs
    have := hbad.2
    simp only [GuardSelectStale, hs, Bool.true_and, decide_eq_false_iff_not] at this
    exact this
  have htext : s.mode = .text → TextTok ev.tok := by
    intro hm
    obtain ⟨n, hn⟩ := hJ.tkr.mp hm
    subst hn
    cases htk : ev.tok <;> simp_all [passes, TextTok]
  have hdata_of_start : ∀ n sc a, ev.tok = .start n sc a → tk = .data := by
    intro n sc a h
    cases tk <;> simp_all [passes]
  cases htok : ev.tok with
  | start n sc a =>
    obtain ⟨hv, hag⟩ : ev.view.isStart = true ∧ Agree cfg ev.hash n := by simpa [TbEv.Ok, htok] using hev
    obtain ⟨hsvg, hmath⟩ := hcl n sc a htok
    have htkd := hdata_of_start n sc a htok
    have hs1 : s.mode ≠ .text := by
      intro hm; obtain ⟨m, hm'⟩ := hJ.tkr.mp hm; rw [htkd] at hm'; cases hm'
    have hstep := sim_start_html cfg sim hJ.simOk ev.hash ev.view hv (fun h => hsvg (hag.svg.mp h)) (fun h => hmath (hag.math.mp h))
    simp only [simStep, htok, hstep]
    cases hg : Guard.trackStartTag cfg sim.guard ev.hash with
    | error e => trivial
    | ok g' =>
      simp only
      obtain ⟨f1, f2, f3, f4⟩ := guard_start_facts cfg sim.guard g' ev.hash hg
      have hinv' : TInv (isSticky g') s := hJ.inv.cast (fun h => (f2 h).1)
      have htokL : TokL (isSticky g') s (.start n sc a) := by
        refine ⟨⟨hsvg, hmath⟩, fun sc' a' h => ?_⟩
        cases h
        have hhash : ev.hash = cfg.gFrameset := hag.gFrameset.mpr rfl
        have hnsel : ev.hash ≠ cfg.gSelect := fun h => by have := hag.gSelect.mp h; cases this
        cases hgd : sim.guard with
        | default => exact Or.inl (f3 hgd hhash hnsel)
        | inOrAfterFrameset => exact Or.inl (f2 (by simp [hgd, isSticky])).1
        | inSelect =>
          have hs : inSelectState sim.guard = true := by simp [hgd, inSelectState]
          exact Or.inr ⟨hJ.fo hs, mode_notPre (hstale hs) hs1⟩
        | inTemplateInSelect d =>
          have hs : inSelectState sim.guard = true := by simp [hgd, inSelectState]
          exact Or.inr ⟨hJ.fo hs, mode_notPre (hstale hs) hs1⟩
      have hpost := step_postT (c := cfgStd) rfl rfl hinv' hJ.ns (.start n sc a) htokL (fun h => (hs1 h).elim)
      have hsw : switchOfFeedback (textTypeAdjustment cfg ev.hash) = (step cfgStd s (.start n sc a)).sw := by
        rw [hag.tta]
        by_cases hnone : switchOf cfgStd n = .none
        · rcases hpost.swStart n sc a rfl with h | h
          · rw [h, hnone]
          · rw [h]
        · have hb : isSticky g' = false ∨ n = .noframes := by
            cases hst : isSticky g' with
            | false => exact Or.inl rfl
            | true =>
              right
              rcases f1 hst with h | ⟨-, h⟩
              · exact hag.gNoframes.mp ((f2 h).2 (hag.gText.mpr hnone))
              · have := hag.gFrameset.mp h
                subst this
                exact absurd rfl hnone
          exact ((hpost.swAct n sc a rfl hnone hb hcol (rank_le_fuel s)).1).symm
      have hstg : isSticky g' = false → isSticky sim.guard = false := by
        intro h
        cases hq : isSticky sim.guard
        · rfl
        · rw [(f2 hq).1] at h; cases h
      refine ⟨⟨hsw, hag.tta⟩, ⟨hJ.simOk.stack, hJ.simOk.cur, hJ.simOk.strict⟩, hpost.inv, hpost.ns hJ.ns, ?_, ?_, ?_,
        fun h => by cases h⟩
      · rw [hsw]
        unfold TkRel
        rw [hpost.text]
        simp only [hs1, false_and, or_false, htkd]
        generalize (step cfgStd s (Token.start n sc a)).sw = sw
        cases sw <;> simp [nextTk, Switch.isRaw]
      · intro hsel
        rcases f4 hsel with h | ⟨hgd, h⟩
        · exact hpost.fo (hJ.fo h)
        · have hn := hag.gSelect.mp h
          subst hn
          rcases hcase with hseen | htpl
          · exact hpost.fo (hJ.i1 hseen (by simp [hgd, isSticky]))
          · simp [htok, isTemplateStartTok] at htpl
      · intro _ hst
        cases hseen : seen with
        | true => exact hpost.fo (hJ.i1 hseen (hstg hst))
        | false =>
          rcases hcase with h | htpl
          · rw [hseen] at h; cases h
          · have hn : n = .template := by
              cases n <;> simp [htok, isTemplateStartTok] at htpl ⊢
            subst hn
            exact template_step ((hstg hst) ▸ hJ.inv) hJ.ns hs1 sc a
  | «end» n =>
    have hseen : seen = true := by
      rcases hcase with h | h
      · exact h
      · simp [htok, isTemplateStartTok] at h
    subst hseen
    obtain ⟨hv, hag⟩ : ev.view.isStart = false ∧ Agree cfg ev.hash n := by simpa [TbEv.Ok, htok] using hev
    have hstep := sim_end_html cfg sim hJ.simOk ev.hash ev.view hv
    simp only [simStep, htok, hstep]
    obtain ⟨e1, e2⟩ := guard_end_facts cfg sim.guard ev.hash
    have hinv' : TInv (isSticky (Guard.trackEndTag cfg sim.guard ev.hash)) s := by rw [e1]; exact hJ.inv
    have htx : s.mode = .text → TextTok (.end n) := fun h => by have := htext h; simpa [htok] using this
    have hpost := step_postT (c := cfgStd) rfl rfl hinv' hJ.ns (.end n) ⟨trivial, fun _ _ h => by cases h⟩ htx
    have hsw : (step cfgStd s (.end n)).sw = .none := hpost.swOther (fun _ _ _ h => by cases h)
    obtain ⟨q1, q2⟩ := nonstart_fieldsT hJ (.end n) _ _ hpost.fo e1 e2
    refine ⟨by simp [switchOfFeedback, hsw, expSw], ⟨hJ.simOk.stack, hJ.simOk.cur, hJ.simOk.strict⟩, hpost.inv,
      hpost.ns hJ.ns, ?_, q1, fun _ => q2, fun h => by cases h⟩
    unfold TkRel
    rw [hpost.text, hsw]
    simp only [Switch.isRaw, Bool.false_eq_true, false_or, switchOfFeedback]
    constructor
    · rintro ⟨_, cc, hcc⟩; cases hcc
    · rintro ⟨m, hm⟩
      exfalso
      cases tk <;> simp [nextTk] at hm
  | char cc =>
    have hseen : seen = true := by
      rcases hcase with h | h
      · exact h
      · simp [htok, isTemplateStartTok] at h
    subst hseen
    simp only [simStep, htok]
    have htkd : tk = .data := by cases tk <;> simp_all [passes]
    have hs1 : s.mode ≠ .text := by
      intro hm; obtain ⟨m, hm'⟩ := hJ.tkr.mp hm; rw [htkd] at hm'; cases hm'
    have hpost := step_postT (c := cfgStd) rfl rfl hJ.inv hJ.ns (.char cc) ⟨trivial, fun _ _ h => by cases h⟩ (fun h => (hs1 h).elim)
    have hsw : (step cfgStd s (.char cc)).sw = .none := hpost.swOther (fun _ _ _ h => by cases h)
    obtain ⟨q1, q2⟩ := nonstart_fieldsT hJ (.char cc) sim.guard _ hpost.fo rfl (fun h => h)
    refine ⟨by simp [switchOfFeedback, hsw, expSw], hJ.simOk, hpost.inv, hpost.ns hJ.ns, ?_, q1, fun _ => q2, fun h => by cases h⟩
    unfold TkRel
    rw [hpost.text, hsw, htkd]
    simp [Switch.isRaw, hs1, nextTk, switchOfFeedback]
  | comment =>
    have hseen : seen = true := by
      rcases hcase with h | h
      · exact h
      · simp [htok, isTemplateStartTok] at h
    subst hseen
    simp only [simStep, htok]
    have htkd : tk = .data := by cases tk <;> simp_all [passes]
    have hs1 : s.mode ≠ .text := by
      intro hm; obtain ⟨m, hm'⟩ := hJ.tkr.mp hm; rw [htkd] at hm'; cases hm'
    have hpost := step_postT (c := cfgStd) rfl rfl hJ.inv hJ.ns .comment ⟨trivial, fun _ _ h => by cases h⟩ (fun h => (hs1 h).elim)
    have hsw : (step cfgStd s .comment).sw = .none := hpost.swOther (fun _ _ _ h => by cases h)
    obtain ⟨q1, q2⟩ := nonstart_fieldsT hJ .comment sim.guard _ hpost.fo rfl (fun h => h)
    refine ⟨by simp [switchOfFeedback, hsw, expSw], hJ.simOk, hpost.inv, hpost.ns hJ.ns, ?_, q1, fun _ => q2, fun h => by cases h⟩
    unfold TkRel
    rw [hpost.text, hsw, htkd]
    simp [Switch.isRaw, hs1, nextTk, switchOfFeedback]
  | doctype d =>
    have hseen : seen = true := by
      rcases hcase with h | h
      · exact h
      · simp [htok, isTemplateStartTok] at h
    subst hseen
    simp only [simStep, htok]
    have htkd : tk = .data := by cases tk <;> simp_all [passes]
    have hs1 : s.mode ≠ .text := by
      intro hm; obtain ⟨m, hm'⟩ := hJ.tkr.mp hm; rw [htkd] at hm'; cases hm'
    have hpost := step_postT (c := cfgStd) rfl rfl hJ.inv hJ.ns (.doctype d) ⟨trivial, fun _ _ h => by cases h⟩ (fun h => (hs1 h).elim)
    have hsw : (step cfgStd s (.doctype d)).sw = .none := hpost.swOther (fun _ _ _ h => by cases h)
    obtain ⟨q1, q2⟩ := nonstart_fieldsT hJ (.doctype d) sim.guard _ hpost.fo rfl (fun h => h)
    refine ⟨by simp [switchOfFeedback, hsw, expSw], hJ.simOk, hpost.inv, hpost.ns hJ.ns, ?_, q1, fun _ => q2, fun h => by cases h⟩
    unfold TkRel
    rw [hpost.text, hsw, htkd]
    simp [Switch.isRaw, hs1, nextTk, switchOfFeedback]
  | eof =>
    have hseen : seen = true := by
      rcases hcase with h | h
      · exact h
      · simp [htok, isTemplateStartTok] at h
    subst hseen
    simp only [simStep, htok]
    have htx : s.mode = .text → TextTok .eof := fun h => by have := htext h; simpa [htok] using this
    have hpost := step_postT (c := cfgStd) rfl rfl hJ.inv hJ.ns .eof ⟨trivial, fun _ _ h => by cases h⟩ htx
    have hsw : (step cfgStd s .eof).sw = .none := hpost.swOther (fun _ _ _ h => by cases h)
    obtain ⟨q1, q2⟩ := nonstart_fieldsT hJ .eof sim.guard _ hpost.fo rfl (fun h => h)
    refine ⟨by simp [switchOfFeedback, hsw, expSw], hJ.simOk, hpost.inv, hpost.ns hJ.ns, ?_, q1, fun _ => q2, fun h => by cases h⟩
    unfold TkRel
    rw [hpost.text, hsw]
    simp only [Switch.isRaw, Bool.false_eq_true, false_or, switchOfFeedback]
    constructor
    · rintro ⟨_, cc, hcc⟩; cases hcc
    · rintro ⟨m, hm⟩
      cases tk <;> simp [nextTk] at hm

/-- one token of the joint run with templates -/
theorem jrel3_step (cfg : TagCfg) {sim : Sim} {s : State} {tk : TkState} {seen : Bool}
    (hJ : JRel3 cfgStd sim s tk seen) (hbad : (ColGroupInTemplate s || GuardSelectStale s sim.guard) = false)
    (ev : TbEv) (hev : ev.Ok cfg) (hcl : HtmlNs ev.tok) (hpass : passes tk ev.tok = true) :
    StepOk cfg sim s tk ev (fun sim' s' tk' => JRel3 cfgStd sim' s' tk' (seen || isTemplateStartTok ev.tok)) := by
  by_cases hcase : seen = true ∨ isTemplateStartTok ev.tok = true
  · have := jrel3_stepT cfg hJ hbad ev hev hcl hpass hcase
    have he : (seen || isTemplateStartTok ev.tok) = true := by
      rcases hcase with h | h <;> simp [h]
    rw [he]; exact this
  · have h1 : seen = false := by
      cases seen
      · rfl
      · exact absurd (Or.inl rfl) hcase
    have h2 : isTemplateStartTok ev.tok = false := by
      cases hq : isTemplateStartTok ev.tok
      · rfl
      · exact absurd (Or.inr hq) hcase
    have hnt : HtmlNoTemplate ev.tok := by
      intro n sc a h
      obtain ⟨a1, a2⟩ := hcl n sc a h
      refine ⟨a1, a2, fun hn => ?_⟩
      subst hn
      simp [h, isTemplateStartTok] at h2
    have := jrel2_step cfg (hJ.pre h1) ev hev hnt hpass
    unfold StepOk at this ⊢
    cases hsim : simStep cfg sim ev with
    | error e => trivial
    | ok r =>
      obtain ⟨sim', fb⟩ := r
      rw [hsim] at this
      simp only
      rw [h1, h2]
      exact ⟨this.1, this.2.to3⟩

theorem joint_agree3 (cfg : TagCfg) (evs : List TbEv) :
    ∀ (sim : Sim) (s : State) (tk : TkState) (seen : Bool), JRel3 cfgStd sim s tk seen →
      (∀ ev ∈ evs, ev.Ok cfg) → (∀ ev ∈ evs, HtmlNs ev.tok) →
      ∀ p ∈ jointX cfg cfgStd sim s tk evs, p.2.1 = p.2.2 ∧ p.2.1 = expSw cfgStd p.1 := by
  induction evs with
  | nil => intro sim s tk seen _ _ _ p hp; cases hp
  | cons ev evs ih =>
    intro sim s tk seen hJ hok hcls p hp
    have hok' : ∀ e ∈ evs, e.Ok cfg := fun e he => hok e (List.mem_cons_of_mem _ he)
    have hcls' : ∀ e ∈ evs, HtmlNs e.tok := fun e he => hcls e (List.mem_cons_of_mem _ he)
    unfold jointX at hp
    by_cases hpass' : passes tk ev.tok = false
    · simp only [hpass', Bool.not_false, if_true] at hp
      exact ih sim s tk seen hJ hok' hcls' p hp
    have hpass : passes tk ev.tok = true := by simpa using hpass'
    simp only [hpass, Bool.not_true, Bool.false_eq_true, if_false] at hp
    by_cases hbad : (ColGroupInTemplate s || GuardSelectStale s sim.guard) = true
    · simp [hbad] at hp
    have hbad' : (ColGroupInTemplate s || GuardSelectStale s sim.guard) = false := by simpa using hbad
    simp only [hbad', Bool.false_eq_true, if_false] at hp
    have hstep := jrel3_step cfg hJ hbad' ev (hok ev (by simp)) (hcls ev (by simp)) hpass
    unfold StepOk at hstep
    cases hsim : simStep cfg sim ev with
    | error e => simp [hsim] at hp
    | ok r =>
      obtain ⟨sim', fb⟩ := r
      rw [hsim] at hstep
      simp only [hsim, List.mem_cons] at hp
      rcases hp with rfl | hp
      · exact hstep.1
      · exact ih _ _ _ _ hstep.2 hok' hcls' p hp

/-- on template-free sequences the run never ends early: `jointX` is `joint` -/
theorem jointX_eq_joint (cfg : TagCfg) (evs : List TbEv) :
    ∀ (sim : Sim) (s : State) (tk : TkState), JRel2 cfgStd sim s tk →
      (∀ ev ∈ evs, ev.Ok cfg) → (∀ ev ∈ evs, HtmlNoTemplate ev.tok) →
      jointX cfg cfgStd sim s tk evs = joint cfg cfgStd sim s tk evs := by
  induction evs with
  | nil => intro sim s tk _ _ _; rfl
  | cons ev evs ih =>
    intro sim s tk hJ hok hcls
    have hok' : ∀ e ∈ evs, e.Ok cfg := fun e he => hok e (List.mem_cons_of_mem _ he)
    have hcls' : ∀ e ∈ evs, HtmlNoTemplate e.tok := fun e he => hcls e (List.mem_cons_of_mem _ he)
    unfold jointX joint
    by_cases hpass' : passes tk ev.tok = false
    · simp only [hpass', Bool.not_false, if_true]
      exact ih sim s tk hJ hok' hcls'
    have hpass : passes tk ev.tok = true := by simpa using hpass'
    simp only [hpass, Bool.not_true, Bool.false_eq_true, if_false, jrel2_not_bad hJ]
    have hstep := jrel2_step cfg hJ ev (hok ev (by simp)) (hcls ev (by simp)) hpass
    unfold StepOk at hstep
    cases hsim : simStep cfg sim ev with
    | error e => rfl
    | ok r =>
      obtain ⟨sim', fb⟩ := r
      rw [hsim] at hstep
      simp only
      rw [ih _ _ _ hstep.2 hok' hcls']

end LolHtml.Spec.TreeBuilder
