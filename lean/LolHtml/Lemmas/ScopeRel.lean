/-
The relation between the model state (VM stack + end-tag handler vector + counters) and the
reference stack of open elements, and the closed form of `pop_up_to` + `stop_matching`.
-/
import LolHtml.Lemmas.ScopeOps

namespace LolHtml.Lemmas.Scope
open LolHtml.Model.Handlers LolHtml.Model.Controller LolHtml.Spec.Scope

@[simp] theorem openCount_nil (h : HId) : openCount [] h = 0 := rfl
@[simp] theorem openCount_cons (e : OpenElem) (sp : List OpenElem) (h : HId) :
    openCount (e :: sp) h = e.matched.count h + openCount sp h := by
  simp [openCount, List.sum_cons]
@[simp] theorem openCount_append (a b : List OpenElem) (h : HId) :
    openCount (a ++ b) h = openCount a h + openCount b h := by
  simp [openCount, List.sum_append]

theorem openCount_pos_iff (sp : List OpenElem) (h : HId) :
    0 < openCount sp h ↔ ∃ e ∈ sp, h ∈ e.matched := by
  induction sp with
  | nil => simp
  | cons e sp ih =>
    simp only [openCount_cons, List.mem_cons, exists_eq_or_imp]
    rw [← ih, ← List.count_pos_iff]
    omega

/-- A VM stack item and the open element it stands for. -/
def ItemRel (it : StackItem) (e : OpenElem) : Prop :=
  it.name = e.name ∧ it.desc.matched = e.matched ∧ it.ord = e.ord ∧
  it.desc.removeContent = e.removed

/-- `EtRel k st sp items`: the VM stack `st` stands for the open elements `sp` (both outermost
first), and `items` are exactly the (inactive) end-tag handlers of the elements that registered
one, in order, the first of them sitting at index `k` of the end-tag handler vector. Elements
without a stored handler have no end-tag closures. -/
inductive EtRel : Nat → List StackItem → List OpenElem → List (Item EndTagH) → Prop
  | nil (k : Nat) : EtRel k [] [] []
  | skip {k : Nat} {it : StackItem} {e : OpenElem} {st : List StackItem} {sp : List OpenElem}
      {items : List (Item EndTagH)} :
      ItemRel it e → it.desc.endTagHandlerIdx = none → e.subs = [] → EtRel k st sp items →
      EtRel k (it :: st) (e :: sp) items
  | take {k : Nat} {it : StackItem} {e : OpenElem} {st : List StackItem} {sp : List OpenElem}
      {items : List (Item EndTagH)} :
      ItemRel it e → it.desc.endTagHandlerIdx = some ⟨k⟩ → EtRel (k + 1) st sp items →
      EtRel k (it :: st) (e :: sp)
        ({ handler := { ord := e.ord, subs := e.subs }, userCount := 0 } :: items)

theorem EtRel.counts_zero {k : Nat} {st : List StackItem} {sp : List OpenElem}
    {items : List (Item EndTagH)} (h : EtRel k st sp items) : ∀ it ∈ items, it.userCount = 0 := by
  induction h with
  | nil => simp
  | skip _ _ _ _ ih => exact ih
  | take _ _ _ ih =>
    intro it hit
    rcases List.mem_cons.1 hit with rfl | hit
    · rfl
    · exact ih it hit

theorem EtRel.snoc_skip {k : Nat} {st : List StackItem} {sp : List OpenElem}
    {items : List (Item EndTagH)} (h : EtRel k st sp items) (it : StackItem) (e : OpenElem)
    (hr : ItemRel it e) (hi : it.desc.endTagHandlerIdx = none) (hs : e.subs = []) :
    EtRel k (st ++ [it]) (sp ++ [e]) items := by
  induction h with
  | nil k => exact .skip hr hi hs (.nil k)
  | skip a b c _ ih => exact .skip a b c ih
  | take a b _ ih => exact .take a b ih

theorem EtRel.snoc_take {k : Nat} {st : List StackItem} {sp : List OpenElem}
    {items : List (Item EndTagH)} (h : EtRel k st sp items) (it : StackItem) (e : OpenElem)
    (hr : ItemRel it e) (hi : it.desc.endTagHandlerIdx = some ⟨k + items.length⟩) :
    EtRel k (st ++ [it]) (sp ++ [e])
      (items ++ [{ handler := { ord := e.ord, subs := e.subs }, userCount := 0 }]) := by
  induction h with
  | nil k => exact .take hr (by simpa using hi) (.nil _)
  | skip a b c _ ih => exact .skip a b c (ih hi)
  | take a b _ ih =>
    refine .take a b (ih ?_)
    rw [hi]; simp only [List.length_cons]; congr 2; omega

theorem EtRel.nil_items_subs {k : Nat} {st : List StackItem} {sp : List OpenElem}
    {items : List (Item EndTagH)} (h : EtRel k st sp items) (hn : items = []) :
    ∀ e ∈ sp, e.subs = [] := by
  induction h with
  | nil => simp
  | skip _ _ c _ ih =>
    intro e he
    rcases List.mem_cons.1 he with rfl | he
    · exact c
    · exact ih hn e he
  | take _ _ _ _ => simp at hn

/-- `pop_up_to` on the VM stack and "close the innermost element of that name" on the reference
stack split both stacks and the handler vector at corresponding places. -/
theorem EtRel.split_last {k : Nat} {st : List StackItem} {sp : List OpenElem}
    {items : List (Item EndTagH)} (h : EtRel k st sp items) (name : Name) :
    (popUpTo name st = none ∧ splitLast (fun e => decide (e.name = name)) sp = none) ∨
    ∃ k1 p1 k2 p2 A B, popUpTo name st = some (k1, p1) ∧
      splitLast (fun e => decide (e.name = name)) sp = some (k2, p2) ∧ items = A ++ B ∧
      EtRel k k1 k2 A ∧ EtRel (k + A.length) p1 p2 B := by
  unfold popUpTo
  induction h with
  | nil k => left; simp [LolHtml.Model.Controller.splitLast]
  | @skip k it e st sp items hr hi hs hrest ih =>
    rcases ih with ⟨h1, h2⟩ | ⟨k1, p1, k2, p2, A, B, h1, h2, h3, h4, h5⟩
    · by_cases hn : it.name = name
      · right
        have hn' : e.name = name := by rw [← hr.1]; exact hn
        refine ⟨[], it :: st, [], e :: sp, [], items, ?_, ?_, rfl, .nil k, ?_⟩
        · simp [LolHtml.Model.Controller.splitLast, h1, hn]
        · simp [LolHtml.Model.Controller.splitLast, h2, hn']
        · simpa using EtRel.skip hr hi hs hrest
      · left
        have hn' : ¬ e.name = name := by rw [← hr.1]; exact hn
        simp [LolHtml.Model.Controller.splitLast, h1, h2, hn, hn']
    · right
      refine ⟨it :: k1, p1, e :: k2, p2, A, B, ?_, ?_, h3, .skip hr hi hs h4, h5⟩
      · simp [LolHtml.Model.Controller.splitLast, h1]
      · simp [LolHtml.Model.Controller.splitLast, h2]
  | @take k it e st sp items hr hi hrest ih =>
    rcases ih with ⟨h1, h2⟩ | ⟨k1, p1, k2, p2, A, B, h1, h2, h3, h4, h5⟩
    · by_cases hn : it.name = name
      · right
        have hn' : e.name = name := by rw [← hr.1]; exact hn
        refine ⟨[], it :: st, [], e :: sp, [], _, ?_, ?_, rfl, .nil k, ?_⟩
        · simp [LolHtml.Model.Controller.splitLast, h1, hn]
        · simp [LolHtml.Model.Controller.splitLast, h2, hn']
        · simpa using EtRel.take hr hi hrest
      · left
        have hn' : ¬ e.name = name := by rw [← hr.1]; exact hn
        simp [LolHtml.Model.Controller.splitLast, h1, h2, hn, hn']
    · right
      refine ⟨it :: k1, p1, e :: k2, p2, _ :: A, B, ?_, ?_, by simp [h3], .take hr hi h4, ?_⟩
      · simp [LolHtml.Model.Controller.splitLast, h1]
      · simp [LolHtml.Model.Controller.splitLast, h2]
      · have : k + (A.length + 1) = k + 1 + A.length := by omega
        simpa [this] using h5

theorem splitLast_append {α : Type} (p : α → Bool) (l a b : List α)
    (h : LolHtml.Model.Controller.splitLast p l = some (a, b)) : l = a ++ b := by
  induction l generalizing a b with
  | nil => simp [LolHtml.Model.Controller.splitLast] at h
  | cons x xs ih =>
    simp only [LolHtml.Model.Controller.splitLast] at h
    cases hs : LolHtml.Model.Controller.splitLast p xs with
    | none =>
      rw [hs] at h
      by_cases hp : p x = true
      · simp [hp] at h; obtain ⟨rfl, rfl⟩ := h; rfl
      · simp [hp] at h
    | some r =>
      obtain ⟨a', b'⟩ := r
      rw [hs] at h
      simp at h
      obtain ⟨rfl, rfl⟩ := h
      simp [ih a' b' hs]

/-- Full characterisation of `splitLast`: the second part starts with the last element satisfying
`p`. -/
theorem splitLast_some_iff {α : Type} (p : α → Bool) (l a b : List α) :
    LolHtml.Model.Controller.splitLast p l = some (a, b) ↔
      l = a ++ b ∧ ∃ x b', b = x :: b' ∧ p x = true ∧ ∀ y ∈ b', p y = false := by
  induction l generalizing a b with
  | nil =>
    simp only [LolHtml.Model.Controller.splitLast]
    constructor
    · intro h; cases h
    · rintro ⟨h, x, b', rfl, _, _⟩
      simp at h
  | cons z zs ih =>
    simp only [LolHtml.Model.Controller.splitLast]
    cases hs : LolHtml.Model.Controller.splitLast p zs with
    | some r =>
      obtain ⟨a', b'⟩ := r
      obtain ⟨hz, x, b'', hb, hpx, hall⟩ := (ih a' b').1 hs
      constructor
      · intro h
        simp at h
        obtain ⟨rfl, rfl⟩ := h
        exact ⟨by simp [hz], x, b'', hb, hpx, hall⟩
      · rintro ⟨h, x2, b2, rfl, hpx2, hall2⟩
        -- the last `p`-element is unique
        cases a with
        | nil =>
          simp at h
          obtain ⟨rfl, rfl⟩ := h
          have : x ∈ a' ++ b' := by rw [hb]; simp
          rw [← hz] at this
          have := hall2 x this
          simp [hpx] at this
        | cons a0 as =>
          simp at h
          obtain ⟨rfl, h⟩ := h
          have := (ih as (x2 :: b2)).2 ⟨h, x2, b2, rfl, hpx2, hall2⟩
          rw [hs] at this
          simp at this
          obtain ⟨rfl, rfl⟩ := this
          rfl
    | none =>
      have hnone : ∀ y ∈ zs, p y = false := by
        intro y hy
        induction zs with
        | nil => simp at hy
        | cons w ws ihw =>
          simp only [LolHtml.Model.Controller.splitLast] at hs
          cases hw : LolHtml.Model.Controller.splitLast p ws with
          | some r => rw [hw] at hs; simp at hs
          | none =>
            rw [hw] at hs
            by_cases hpw : p w = true
            · simp [hpw] at hs
            · rcases List.mem_cons.1 hy with rfl | hy
              · simpa using hpw
              · exact ihw (fun a b => by
                  constructor
                  · intro h; rw [hw] at h; cases h
                  · rintro ⟨h1, x, b', rfl, hpx, hall⟩
                    have hx : x ∈ ws := by rw [h1]; simp
                    exfalso
                    have := (ih (w :: a) (x :: b')).2 ⟨by simp [h1], x, b', rfl, hpx, hall⟩
                    simp [LolHtml.Model.Controller.splitLast, hw, hpw] at this) hw hy
      by_cases hp : p z = true
      · simp only [hp, if_true]
        constructor
        · intro h
          simp at h
          obtain ⟨rfl, rfl⟩ := h
          exact ⟨rfl, z, zs, rfl, hp, hnone⟩
        · rintro ⟨h, x, b', rfl, hpx, hall⟩
          cases a with
          | nil => simp at h; obtain ⟨rfl, rfl⟩ := h; rfl
          | cons a0 as =>
            simp at h
            obtain ⟨rfl, h⟩ := h
            have : x ∈ zs := by rw [h]; simp
            have := hnone x this
            simp [hpx] at this
      · simp only [hp]
        constructor
        · intro h; simp at h
        · rintro ⟨h, x, b', rfl, hpx, hall⟩
          exfalso
          cases a with
          | nil =>
            simp at h; obtain ⟨rfl, rfl⟩ := h; exact hp hpx
          | cons a0 as =>
            simp at h
            obtain ⟨rfl, h⟩ := h
            have : x ∈ zs := by rw [h]; simp
            have := hnone x this
            simp [hpx] at this

theorem EtRel.subs_flat {k : Nat} {st : List StackItem} {sp : List OpenElem}
    {items : List (Item EndTagH)} (h : EtRel k st sp items) (ord : Nat) :
    (items.map (·.handler)).reverse.flatMap
        (fun hh => hh.subs.map fun (p : HId × Nat) => Invocation.endTag p.1 p.2 hh.ord ord) =
      sp.reverse.flatMap
        (fun e => e.subs.map fun (p : HId × Nat) => Invocation.endTag p.1 p.2 e.ord ord) := by
  induction h with
  | nil => rfl
  | skip _ _ c _ ih => simp [ih, c]
  | take _ _ _ ih => simp [ih]

/-- The popped part: all `stop_matching` calls of one `pop_up_to`, in closed form. -/
theorem stopMatchingAll_spec {a : Nat} {st : List StackItem} {sp : List OpenElem}
    {B : List (Item EndTagH)} (hrel : EtRel a st sp B) (d : Dispatcher) (n : Nat)
    (T0 C0 : List (Item HId)) (E : List HId) (f : Nat → Nat) (P : List (Item EndTagH)) (r : Nat)
    (hwf : ∀ e ∈ sp, ∀ m ∈ e.matched, m < n)
    (ht : d.text = mk (addBy id (fun h => f h + openCount sp h) T0))
    (hc : d.comment = mk (addBy id (fun h => f h + openCount sp h) C0))
    (reg : RegOK d.locators n (T0.map (·.handler)) (C0.map (·.handler)) E)
    (het : d.endTag = mk (P ++ B)) (hP : P.length = a)
    (hrem : d.removedContent = r + sp.countP (·.removed)) :
    stopMatchingAll d st =
      .ok { d with
        comment := mk (addBy id f C0), text := mk (addBy id f T0),
        endTag := mk (P ++ B.map fun x => { x with userCount := x.userCount + 1 }),
        removedContent := r } := by
  induction hrel generalizing d P r with
  | nil k =>
    simp only [stopMatchingAll, openCount_nil, Nat.add_zero, List.countP_nil, List.map_nil] at *
    cases d; simp_all
  | @skip k it e st sp items hr hi hs hrest ih =>
    have e1 : (fun h => f h + openCount (e :: sp) h) =
        (fun h => (f h + openCount sp h) + it.desc.matched.count h) := by
      funext h; rw [hr.2.1]; simp; omega
    rw [e1] at ht hc
    unfold stopMatchingAll
    rw [stopMatching_spec d n T0 C0 E (fun h => f h + openCount sp h) it.desc [] [] ⟨⟨0, []⟩, 0⟩
      (by rw [hr.2.1]; exact hwf e (by simp)) ht hc reg (by rw [hi]; trivial)
      (by
        intro h; rw [hr.2.2.2] at h
        simp [hrem, h]; omega)]
    simp only [hi]
    rw [ih _ P (r) (fun e' he' => hwf e' (by simp [he'])) rfl rfl (by simpa using reg)
      (by simpa using het) hP
      (by
        simp only [hrem, List.countP_cons, hr.2.2.2]
        cases e.removed <;> simp <;> omega)]
  | @take k it e st sp items hr hi hrest ih =>
    have e1 : (fun h => f h + openCount (e :: sp) h) =
        (fun h => (f h + openCount sp h) + it.desc.matched.count h) := by
      funext h; rw [hr.2.1]; simp; omega
    rw [e1] at ht hc
    unfold stopMatchingAll
    rw [stopMatching_spec d n T0 C0 E (fun h => f h + openCount sp h) it.desc P items
      { handler := { ord := e.ord, subs := e.subs }, userCount := 0 }
      (by rw [hr.2.1]; exact hwf e (by simp)) ht hc reg (by rw [hi]; exact ⟨het, hP.symm⟩)
      (by
        intro h; rw [hr.2.2.2] at h
        simp [hrem, h]; omega)]
    simp only [hi]
    rw [ih _ (P ++ [{ handler := { ord := e.ord, subs := e.subs }, userCount := 0 + 1 }]) r
      (fun e' he' => hwf e' (by simp [he'])) rfl rfl (by simpa using reg)
      (by simp) (by simp [hP])
      (by
        simp only [hrem, List.countP_cons, hr.2.2.2]
        cases e.removed <;> simp <;> omega)]
    simp

end LolHtml.Lemmas.Scope
