import LolHtml.Lemmas.TbStep
import LolHtml.Spec.TreeBuilder.Coupling
import LolHtml.Model.TreeSimRun
import LolHtml.Lemmas.Sim
/-!
lol-html's tree-builder simulator (strict mode) and `Spec.TreeBuilder` side by side over a token sequence,
each driving its own tokenizer state; the induction that shows they answer the tokenizer alike.
-/
namespace LolHtml.Spec.TreeBuilder
open LolHtml LolHtml.Model

/-- A token of the standard's tokenizer together with what lol-html's lexer hands to the simulator for
it (tags only): the name hash and the lexeme view of the `RequestLexeme` callbacks. -/
structure TbEv where
  tok : Token
  hash : Nat := 0
  view : TagView := default

def Token.tagName? : Token → Option Name
  | .start n _ _ => some n
  | .end n => some n
  | _ => none

def switchOfFeedback : Feedback → Switch
  | .switchTextType .rcData => .rcdata
  | .switchTextType .rawText => .rawtext
  | .switchTextType .scriptData => .scriptData
  | .switchTextType .plainText => .plaintext
  | _ => .none

/-- the configuration lol-html assumes: scripting enabled; current `select` parsing; the standard's text -/
def cfgStd : Cfg := {}

/-- The simulator's hash tests and the standard's name tests agree on a tag (what `declare_tags!` and
`LocalNameHash` are for; discharged for the generated tables in `Thm/C03_TreeBuilder.lean`). -/
structure Agree (cfg : TagCfg) (hash : Nat) (n : Name) : Prop where
  tta : switchOfFeedback (textTypeAdjustment cfg hash) = switchOf cfgStd n
  svg : hash = cfg.svg ↔ n = .svg
  math : hash = cfg.math ↔ n = .math
  gSelect : hash = cfg.gSelect ↔ n = .select
  gFrameset : hash = cfg.gFrameset ↔ n = .frameset
  gNoframes : hash = cfg.gNoframes ↔ n = .noframes
  gText : hash ∈ cfg.guardTextSwitch ↔ switchOf cfgStd n ≠ .none

def TbEv.Ok (cfg : TagCfg) (ev : TbEv) : Prop :=
  match ev.tok with
  | .start n _ _ => ev.view.isStart = true ∧ Agree cfg ev.hash n
  | .end n => ev.view.isStart = false ∧ Agree cfg ev.hash n
  | _ => True

/-- the simulator's step for an event: tags go through `Sim.stepTag`, other tokens do not reach it -/
def simStep (cfg : TagCfg) (sim : Sim) (ev : TbEv) : Except Err (Sim × Feedback) :=
  match ev.tok with
  | .start .. => sim.stepTag cfg ⟨ev.hash, ev.view⟩
  | .end _ => sim.stepTag cfg ⟨ev.hash, ev.view⟩
  | _ => .ok (sim, .none)

/-- lol-html (simulator `sim`, its lexer in tokenizer state `tk`, following the simulator's feedback) and
the standard's tree builder (state `s`) over the same token sequence: for every token that the tokenizer
state lets through, the token, the switch lol-html makes and the switch the standard makes. The run ends when the
strict simulator refuses a tag (the rewriter stops with `ParsingAmbiguityError`). -/
def joint (cfg : TagCfg) (c : Cfg) : Sim → State → TkState → List TbEv → List (Token × Switch × Switch)
  | _, _, _, [] => []
  | sim, s, tk, ev :: evs =>
    if !passes tk ev.tok then joint cfg c sim s tk evs
    else
      match simStep cfg sim ev with
      | .error _ => []
      | .ok (sim', fb) =>
        let o := step c s ev.tok
        (ev.tok, switchOfFeedback fb, o.sw) :: joint cfg c sim' o.st (nextTk tk ev.tok (switchOfFeedback fb)) evs

/-- the tokenizer switch the standard attaches to a token (when the tree builder acts on it) -/
def expSw (c : Cfg) : Token → Switch
  | .start n _ _ => switchOf c n
  | _ => .none

/-- no `frameset` start tag after a `select` start tag -/
def NoFramesetAfterSelect : Bool → List Token → Prop
  | _, [] => True
  | seen, t :: ts =>
    (seen = true → ∀ sc a, t ≠ .start .frameset sc a) ∧
    NoFramesetAfterSelect (seen || (match t with | .start .select _ _ => true | _ => false)) ts

/-- the class of token sequences of the theorem: HTML namespace only (no `svg` / `math` start tag), no
`template` start tag -/
def HtmlNoTemplate (t : Token) : Prop :=
  ∀ n sc a, t = .start n sc a → n ≠ .svg ∧ n ≠ .math ∧ n ≠ .template

/-! ### the guard -/

def isSticky : GuardState → Bool
  | .inOrAfterFrameset => true
  | _ => false

def inSelectState : GuardState → Bool
  | .inSelect => true
  | .inTemplateInSelect _ => true
  | _ => false

theorem guard_start_facts (cfg : TagCfg) (g g' : GuardState) (tag : Nat) (h : Guard.trackStartTag cfg g tag = .ok g') :
    (isSticky g' = true → isSticky g = true ∨ (g = .default ∧ tag = cfg.gFrameset)) ∧
    (isSticky g = true → isSticky g' = true ∧ (tag ∈ cfg.guardTextSwitch → tag = cfg.gNoframes)) ∧
    (g = .default → tag = cfg.gFrameset → tag ≠ cfg.gSelect → isSticky g' = true) ∧
    (inSelectState g' = true → inSelectState g = true ∨ (g = .default ∧ tag = cfg.gSelect)) := by
  unfold Guard.trackStartTag at h
  cases g <;> simp only at h
  · -- default
    split at h
    · injection h with h; subst h; simp_all [isSticky, inSelectState]
    · split at h
      · injection h with h; subst h; simp_all [isSticky, inSelectState]
      · injection h with h; subst h; simp_all [isSticky, inSelectState]
  · -- in select
    repeat' split at h
    all_goals first
      | (injection h with h; subst h; simp [isSticky, inSelectState]; done)
      | (cases h; done)
  · repeat' split at h
    all_goals first
      | (injection h with h; subst h; simp [isSticky, inSelectState]; done)
      | (cases h; done)
  · -- in or after frameset
    repeat' split at h
    all_goals first
      | (injection h with h; subst h; simp_all [isSticky, inSelectState, Guard.assertNotAmbiguous]; done)
      | (cases h; done)

theorem guard_end_facts (cfg : TagCfg) (g : GuardState) (tag : Nat) :
    isSticky (Guard.trackEndTag cfg g tag) = isSticky g ∧
    (inSelectState (Guard.trackEndTag cfg g tag) = true → inSelectState g = true) := by
  cases g with
  | default => simp [Guard.trackEndTag, isSticky, inSelectState]
  | inOrAfterFrameset => simp [Guard.trackEndTag, isSticky, inSelectState]
  | inSelect => by_cases h : tag = cfg.gSelect <;> simp [Guard.trackEndTag, h, isSticky, inSelectState]
  | inTemplateInSelect d =>
    by_cases h : tag = cfg.gTemplate <;> by_cases h2 : d = 1 <;> simp [Guard.trackEndTag, h, h2, isSticky, inSelectState]

end LolHtml.Spec.TreeBuilder
