/-
Lemmas for C07_element_ops: the `Element` bookkeeping (start-tag mutations + deferred end-tag
mutations + flags) refines the region-wise edit `Spec.Edit.ElemEdit`.
-/
import LolHtml.Lemmas.Edit

namespace LolHtml.Lemmas.EditElementOps
open LolHtml LolHtml.EditModel LolHtml.Spec.Edit LolHtml.Lemmas.Edit

/-- Abstraction: which region each piece of the `Element` state stands for. -/
def absEl (e : Element) : ElemEdit :=
  let st := e.startTag.mutations.mutate
  let en := e.endTagMutationsMut
  { before := st.contentBefore
    startDropped := st.removed
    startRepl := st.replacement
    prepend := if e.canHaveContent then st.contentAfter else []
    innerRemoved := e.shouldRemoveContent
    append := en.contentBefore
    endDropped := en.removed
    after := if e.canHaveContent then en.contentAfter else st.contentAfter
    endName := e.modifiedEndTagName
    endHandlers := e.endTagHandlers }

theorem apply_canHaveContent (e : Element) (op : ElementOp) :
    (e.apply op).canHaveContent = e.canHaveContent := by
  cases op <;> simp only [Element.apply] <;> (try split) <;>
    simp [Element.setStartTagMutations, Element.setEndTagMutations, Element.removeContent] <;>
    (try split) <;> simp [Element.setEndTagMutations]


theorem absEl_startTag_congr (e : Element) (st' : StartTag) (h : st'.mutations = e.startTag.mutations) :
    absEl { e with startTag := st' } = absEl e := by
  simp [absEl, h, Element.endTagMutationsMut]

theorem setAttribute_mutations (st : StartTag) (n v : Bytes) :
    (st.setAttribute n v).mutations = st.mutations := by
  unfold StartTag.setAttribute; split <;> rfl

theorem removeAttribute_mutations (st : StartTag) (n : Bytes) :
    (st.removeAttribute n).mutations = st.mutations := by
  unfold StartTag.removeAttribute; simp only; split <;> rfl

set_option maxHeartbeats 1000000 in
/-- **Simulation**: every `Element` method acts on the regions as documented. -/
theorem absEl_apply (e : Element) (op : ElementOp) :
    absEl (e.apply op) = (absEl e).apply e.canHaveContent op := by
  cases op with
  | setAttribute n v => exact absEl_startTag_congr e _ (setAttribute_mutations _ n v)
  | removeAttribute n => exact absEl_startTag_congr e _ (removeAttribute_mutations _ n)
  | setTagName n =>
    simp only [Element.apply, ElemEdit.apply]
    cases tagNameBytesFromStr n with
    | none => rfl
    | some m =>
      simp only
      cases h : e.canHaveContent <;> simp [absEl, h, Element.endTagMutationsMut, StartTag.setNameRaw]
  | startTag sop =>
    cases sop with
    | setName n => exact absEl_startTag_congr e _ rfl
    | setAttribute n v => exact absEl_startTag_congr e _ (setAttribute_mutations _ n v)
    | removeAttribute n => exact absEl_startTag_congr e _ (removeAttribute_mutations _ n)
    | «mut» mo =>
      obtain ⟨st, em, mn, hs, chc, src⟩ := e
      obtain ⟨nm, at_, ns, sc, raw, md, ⟨mi⟩⟩ := st
      cases mo <;> cases chc <;> cases mi <;>
        simp [absEl, Element.apply, ElemEdit.apply, Element.endTagMutationsMut, Mutations.mutate,
          dsPushBack, dsPushFront, MutationsInner.replace, MutationsInner.remove,
          StartTag.apply, Mutations.apply, Mutations.set]
  | _ =>
    obtain ⟨st, em, mn, hs, chc, src⟩ := e
    obtain ⟨nm, at_, ns, sc, raw, md, ⟨mi⟩⟩ := st
    rcases em with _ | ⟨⟨_ | endm⟩⟩ <;> cases chc <;> cases mi <;>
      simp [absEl, Element.apply, ElemEdit.apply, ElemEdit.clearInner, Element.setStartTagMutations,
        Element.setEndTagMutations, Element.removeContent, Element.endTagMutationsMut, Mutations.mutate,
        dsPushBack, dsPushFront, MutationsInner.replace, MutationsInner.remove, StartTag.setSelfClosingSyntax,
        StartTag.apply, Mutations.apply, Mutations.set]

theorem applyOps_canHaveContent (e : Element) (ops : List ElementOp) :
    (e.applyOps ops).canHaveContent = e.canHaveContent := by
  induction ops generalizing e with
  | nil => rfl
  | cons op ops ih =>
    simp only [Element.applyOps, List.foldl_cons] at ih ⊢
    rw [ih, apply_canHaveContent]

theorem absEl_applyOps (e : Element) (ops : List ElementOp) :
    absEl (e.applyOps ops) = (absEl e).applyOps e.canHaveContent ops := by
  induction ops generalizing e with
  | nil => rfl
  | cons op ops ih =>
    simp only [Element.applyOps, ElemEdit.applyOps, List.foldl_cons] at ih ⊢
    rw [ih, absEl_apply, apply_canHaveContent]

theorem absEl_new (st : StartTag) (chc : Bool) (h : st.mutations = {}) :
    absEl (Element.new st chc) = {} := by
  simp [absEl, Element.new, h, Mutations.mutate, Element.endTagMutationsMut]

/-- Start region: what the start-tag token serialises to. -/
theorem startTag_intoBytes_region (enc : Enc) (e : Element) :
    e.startTag.intoBytes enc
      = (absEl e).startRegion enc e.canHaveContent e.startTag.serializeSelf := by
  obtain ⟨st, em, mn, hs, chc, src⟩ := e
  obtain ⟨nm, at_, ns, sc, raw, md, ⟨mi⟩⟩ := st
  cases mi with
  | none =>
    cases chc <;>
      simp [StartTag.intoBytes, Mutations.serialize, ElemEdit.startRegion, absEl, Mutations.mutate, encodeDyn_nil]
  | some mu =>
    cases chc <;> cases h : mu.removed <;>
      simp [StartTag.intoBytes, Mutations.serialize, ElemEdit.startRegion, absEl, Mutations.mutate, h]


/-! ### End region -/

theorem serialize_mutate (enc : Enc) (m : Mutations) (own : Bytes) :
    m.serialize enc own = (Mutations.mk (some m.mutate)).serialize enc own := by
  obtain ⟨mi⟩ := m
  cases mi with
  | none => simp [Mutations.serialize, Mutations.mutate, encodeDyn_nil]
  | some mu => rfl

theorem foldl_apply_mutate (m : Mutations) (ops : List MutOp) :
    (ops.foldl Mutations.apply m).mutate = innerAfter m.mutate ops := by
  obtain ⟨mi⟩ := m
  cases mi with
  | some mu => rw [foldl_apply_some]; rfl
  | none =>
    rw [foldl_apply_none]
    cases ops with
    | nil => simp [Mutations.mutate, innerAfter, befores, afters, lastReplacement, dropped]
    | cons op ops => simp [Mutations.mutate]

theorem foldl_apply_serialize (enc : Enc) (m : Mutations) (ops : List MutOp) (own : Bytes) :
    (ops.foldl Mutations.apply m).serialize enc own
      = (Mutations.mk (some (innerAfter m.mutate ops))).serialize enc own := by
  rw [serialize_mutate, foldl_apply_mutate]

theorem foldl_applyOps_flatten (t : EndTag) (hs : List (List EndTagOp)) :
    hs.foldl EndTag.applyOps t = t.applyOps hs.flatten := by
  induction hs generalizing t with
  | nil => rfl
  | cons h hs ih =>
    rw [List.foldl_cons, ih]
    simp [EndTag.applyOps, List.foldl_append]

def endNameOps (ops : List EndTagOp) : List Bytes := ops.filterMap fun | .setName n => some n | _ => none

theorem endNameOps_append (a b : List EndTagOp) : endNameOps (a ++ b) = endNameOps a ++ endNameOps b := by
  simp [endNameOps, List.filterMap_append]

theorem endMutOps_append (a b : List EndTagOp) : endMutOps (a ++ b) = endMutOps a ++ endMutOps b := by
  simp [endMutOps, List.filterMap_append]

theorem endNameOps_map_mut (f : StringChunk → MutOp) (l : List StringChunk) :
    endNameOps (l.map fun c => EndTagOp.mut (f c)) = [] := by
  induction l with
  | nil => rfl
  | cons c l ih => simp_all [endNameOps]

theorem endMutOps_map_mut (f : StringChunk → MutOp) (l : List StringChunk) :
    endMutOps (l.map fun c => EndTagOp.mut (f c)) = l.map f := by
  induction l with
  | nil => rfl
  | cons c l ih => simp_all [endMutOps]

theorem befores_map_before (l : List StringChunk) : befores (l.map MutOp.before) = l := by
  induction l with
  | nil => rfl
  | cons c l ih => simp_all [befores]

theorem befores_map_after (l : List StringChunk) : befores (l.map MutOp.after) = [] := by
  induction l with
  | nil => rfl
  | cons c l ih => simp_all [befores]

theorem afters_map_after (l : List StringChunk) : afters (l.map MutOp.after) = l.reverse := by
  induction l with
  | nil => rfl
  | cons c l ih => simp_all [afters]

theorem afters_map_before (l : List StringChunk) : afters (l.map MutOp.before) = [] := by
  induction l with
  | nil => rfl
  | cons c l ih => simp_all [afters]

theorem befores_append (a b : List MutOp) : befores (a ++ b) = befores a ++ befores b := by
  simp [befores, List.filterMap_append]

theorem afters_append (a b : List MutOp) : afters (a ++ b) = afters b ++ afters a := by
  simp [afters, List.filterMap_append]

theorem dropped_append (a b : List MutOp) : dropped (a ++ b) = (dropped a || dropped b) := by
  simp [dropped, List.any_append]

theorem dropped_map_before (l : List StringChunk) : dropped (l.map MutOp.before) = false := by
  induction l with
  | nil => rfl
  | cons c l ih => simp_all [dropped]

theorem dropped_map_after (l : List StringChunk) : dropped (l.map MutOp.after) = false := by
  induction l with
  | nil => rfl
  | cons c l ih => simp_all [dropped]

theorem lastReplacement_none_of (ops : List MutOp) (h : ∀ op ∈ ops, ∀ c, op ≠ .replace c) :
    lastReplacement ops = none := by
  induction ops with
  | nil => rfl
  | cons op ops ih =>
    rw [lastReplacement_cons, ih (fun o ho => h o (List.mem_cons_of_mem _ ho))]
    cases op with
    | replace c => exact absurd rfl (h _ (List.mem_cons_self) c)
    | _ => rfl

/-- The deferred end-tag mutations are exactly what this script of public calls builds. -/
theorem innerAfter_deferred (en : MutationsInner) (h : en.replacement = []) :
    innerAfter {} (en.contentBefore.map MutOp.before ++ en.contentAfter.reverse.map MutOp.after
        ++ (if en.removed then [MutOp.remove] else [])) = en := by
  have hl : lastReplacement (en.contentBefore.map MutOp.before ++ en.contentAfter.reverse.map MutOp.after
        ++ (if en.removed then [MutOp.remove] else [])) = none := by
    apply lastReplacement_none_of
    intro op hop c
    simp only [List.mem_append, List.mem_map] at hop
    rcases hop with (⟨x, _, rfl⟩ | ⟨x, _, rfl⟩) | hop
    · simp
    · simp
    · split at hop <;> simp at hop
      subst hop; simp
  obtain ⟨cb, rp, ca, rm⟩ := en
  simp only at h hl ⊢
  subst h
  simp only [innerAfter, hl, befores_append, afters_append, dropped_append, befores_map_before,
    befores_map_after, afters_map_after, afters_map_before, dropped_map_before, dropped_map_after]
  cases rm <;> simp [befores, afters, dropped]


/-- Invariant of `Element`: the deferred end-tag mutations never carry a replacement, and an element
that cannot have content never defers anything to an end tag. -/
structure EInv (e : Element) : Prop where
  noRepl : e.endTagMutationsMut.replacement = []
  void : e.canHaveContent = false →
    e.endTagMutations = none ∧ e.modifiedEndTagName = none ∧ e.endTagHandlers = []

theorem EInv_new (st : StartTag) (chc : Bool) : EInv (Element.new st chc) :=
  ⟨rfl, fun _ => ⟨rfl, rfl, rfl⟩⟩

theorem EInv_startTag_congr (e : Element) (st' : StartTag) (h : EInv e) :
    EInv { e with startTag := st' } := ⟨h.noRepl, h.void⟩

set_option maxHeartbeats 1000000 in
theorem EInv_apply (e : Element) (op : ElementOp) (h : EInv e) : EInv (e.apply op) := by
  cases op with
  | setAttribute n v => exact EInv_startTag_congr e _ h
  | removeAttribute n => exact EInv_startTag_congr e _ h
  | startTag sop => exact EInv_startTag_congr e _ h
  | setTagName n =>
    simp only [Element.apply]
    cases tagNameBytesFromStr n with
    | none => exact h
    | some m =>
      simp only
      cases hc : e.canHaveContent
      · simp only [Bool.false_eq_true, if_false]; exact EInv_startTag_congr e _ h
      · simp only [if_true]
        exact ⟨h.noRepl, fun hv => by simp [hc] at hv⟩
  | _ =>
    obtain ⟨hr, hv⟩ := h
    obtain ⟨st, em, mn, hs, chc, src⟩ := e
    obtain ⟨nm, at_, ns, sc, raw, md, ⟨mi⟩⟩ := st
    rcases em with _ | ⟨⟨_ | endm⟩⟩ <;> cases chc <;> cases mi <;>
      simp_all [Element.apply, Element.setStartTagMutations,
        Element.setEndTagMutations, Element.removeContent, Element.endTagMutationsMut, Mutations.mutate,
        dsPushBack, dsPushFront, MutationsInner.replace, MutationsInner.remove, StartTag.setSelfClosingSyntax,
        StartTag.apply, Mutations.apply, Mutations.set] <;>
      constructor <;> simp_all [Element.endTagMutationsMut, Mutations.mutate]

theorem EInv_applyOps (e : Element) (ops : List ElementOp) (h : EInv e) : EInv (e.applyOps ops) := by
  induction ops generalizing e with
  | nil => exact h
  | cons op ops ih =>
    simp only [Element.applyOps, List.foldl_cons] at ih ⊢
    exact ih _ (EInv_apply e op h)


/-- What the element makes of its end tag `et` when the end tag arrives (no deferred handler: the
end tag is left alone). -/
def endTagAfter (e : Element) (et : EndTag) : EndTag :=
  match e.intoEndTagHandler with
  | some h => h.run et
  | none => et

theorem endNameOps_getLast_append (a b : List EndTagOp) :
    (endNameOps (a ++ b)).getLast? =
      (match (endNameOps b).getLast? with
       | some n => some n
       | none => (endNameOps a).getLast?) := by
  rw [endNameOps_append, List.getLast?_append]
  cases (endNameOps b).getLast? <;> rfl

theorem endMutOps_renameOps (n : Option Bytes) : endMutOps (renameOps n) = [] := by
  cases n <;> rfl
theorem endNameOps_renameOps (n : Option Bytes) : (endNameOps (renameOps n)).getLast? = n := by
  cases n <;> rfl
theorem endMutOps_removeOps (b : Bool) : endMutOps (removeOps b) = if b then [MutOp.remove] else [] := by
  cases b <;> rfl
theorem endNameOps_removeOps (b : Bool) : endNameOps (removeOps b) = [] := by
  cases b <;> rfl

theorem endTag_serializeSelf' (t : EndTag) (ops : List EndTagOp) :
    (t.applyOps ops).serializeSelf =
      (match (endNameOps ops).getLast? with
       | some n => [60, 47] ++ n ++ [62]
       | none => t.serializeSelf) := endTag_serializeSelf t ops

theorem endNameOps_script (e : Element) :
    (endNameOps (absEl e).endTagScript).getLast? =
      (match (endNameOps e.endTagHandlers.flatten).getLast? with
       | some n => some n
       | none => e.modifiedEndTagName) := by
  unfold ElemEdit.endTagScript
  rw [endNameOps_getLast_append]
  congr 1
  rw [endNameOps_append, endNameOps_append, endNameOps_append, endNameOps_map_mut, endNameOps_map_mut,
    endNameOps_removeOps, List.append_nil, List.append_nil, List.append_nil, endNameOps_renameOps]
  rfl

theorem endMutOps_script (e : Element) (hc : e.canHaveContent = true) :
    endMutOps (absEl e).endTagScript =
      (e.endTagMutationsMut.contentBefore.map MutOp.before
        ++ e.endTagMutationsMut.contentAfter.reverse.map MutOp.after
        ++ (if e.endTagMutationsMut.removed then [MutOp.remove] else []))
      ++ endMutOps e.endTagHandlers.flatten := by
  unfold ElemEdit.endTagScript
  rw [endMutOps_append, endMutOps_append, endMutOps_append, endMutOps_append, endMutOps_map_mut,
    endMutOps_map_mut, endMutOps_removeOps, endMutOps_renameOps, List.nil_append]
  simp [absEl, hc]

/-- **End region**: for an element that can have content, the deferred internal handler followed by
the user's `on_end_tag` handlers serialises the (fresh) end tag exactly like the script of public
end-tag calls `ElemEdit.endTagScript`. -/
theorem endTag_region (enc : Enc) (e : Element) (h : EInv e) (hc : e.canHaveContent = true)
    (name raw : Bytes) :
    (endTagAfter e { name := name, raw := raw }).intoBytes enc
      = (({ name := name, raw := raw } : EndTag).applyOps (absEl e).endTagScript).intoBytes enc := by
  -- right-hand side in closed form
  have hR : (({ name := name, raw := raw } : EndTag).applyOps (absEl e).endTagScript).intoBytes enc
      = (Mutations.mk (some (innerAfter e.endTagMutationsMut (endMutOps e.endTagHandlers.flatten)))).serialize enc
          (match (endNameOps e.endTagHandlers.flatten).getLast? with
           | some n => [60, 47] ++ n ++ [62]
           | none => (match e.modifiedEndTagName with
              | some n => [60, 47] ++ n ++ [62]
              | none => raw)) := by
    unfold EndTag.intoBytes
    rw [endTag_mutations, endTag_serializeSelf', endNameOps_script e, endMutOps_script e hc,
      List.foldl_append, foldl_apply_serialize, foldl_apply_mutate]
    have := innerAfter_deferred _ h.noRepl
    simp only [Mutations.mutate]
    rw [this]
    cases (endNameOps e.endTagHandlers.flatten).getLast? <;> cases e.modifiedEndTagName <;>
      simp [EndTag.serializeSelf]
  rw [hR]
  -- left-hand side
  unfold endTagAfter Element.intoEndTagHandler
  by_cases hcond : (e.endTagMutations.isSome || e.modifiedEndTagName.isSome || !e.endTagHandlers.isEmpty) = true
  · -- a handler was deferred
    rw [if_pos hcond]
    simp only [EndTagHandler.run, foldl_applyOps_flatten]
    unfold EndTag.intoBytes
    rw [endTag_mutations, endTag_serializeSelf', foldl_apply_serialize]
    cases hmn : e.modifiedEndTagName <;> cases hem : e.endTagMutations <;>
      cases (endNameOps e.endTagHandlers.flatten).getLast? <;>
      simp [Element.endTagMutationsMut, hem, Mutations.mutate, EndTag.setNameRaw, EndTag.serializeSelf]
  · -- nothing deferred: the end tag is untouched
    rw [if_neg hcond]
    have h1 : e.endTagMutations = none := by
      cases hh : e.endTagMutations <;> simp_all
    have h2 : e.modifiedEndTagName = none := by
      cases hh : e.modifiedEndTagName <;> simp_all
    have h3 : e.endTagHandlers = [] := by
      cases hh : e.endTagHandlers <;> simp_all
    simp [EndTag.intoBytes, Mutations.serialize, EndTag.serializeSelf, h1, h2, h3, Element.endTagMutationsMut,
      endMutOps, endNameOps, innerAfter, befores, afters, lastReplacement, dropped, encodeDyn_nil]


/-! ### Own bytes of the element's start tag -/

/-- The fields of a start tag that determine its own bytes (besides the self-closing flag). -/
def ownPart (st : StartTag) : Bytes × List Attribute × Bool × Bytes :=
  (st.name, st.attributes, st.modified, st.raw)

theorem ownPart_apply_congr (a b : StartTag) (h : ownPart a = ownPart b) (op : StartTagOp) :
    ownPart (a.apply op) = ownPart (b.apply op) := by
  obtain ⟨n1, a1, ns1, sc1, r1, m1, mu1⟩ := a
  obtain ⟨n2, a2, ns2, sc2, r2, m2, mu2⟩ := b
  simp only [ownPart, Prod.mk.injEq] at h
  obtain ⟨rfl, rfl, rfl, rfl⟩ := h
  cases op with
  | «mut» o => rfl
  | setName n => rfl
  | setAttribute n v =>
    simp only [StartTag.apply, StartTag.setAttribute]
    cases attrsSetAttribute a1 n v <;> rfl
  | removeAttribute n =>
    simp only [StartTag.apply, StartTag.removeAttribute]
    cases (attrsRemoveAttribute a1 n).2 <;> rfl

theorem ownPart_applyOps_congr (a b : StartTag) (h : ownPart a = ownPart b) (ops : List StartTagOp) :
    ownPart (a.applyOps ops) = ownPart (b.applyOps ops) := by
  induction ops generalizing a b with
  | nil => exact h
  | cons op ops ih =>
    simp only [StartTag.applyOps, List.foldl_cons] at ih ⊢
    exact ih _ _ (ownPart_apply_congr a b h op)

set_option maxHeartbeats 1000000 in
theorem ownPart_element_apply (e : Element) (op : ElementOp) :
    ownPart (e.apply op).startTag = ownPart (e.startTag.applyOps (startTagOwnOps [op]))
      ∧ (e.apply op).startTag.selfClosing
          = (e.startTag.selfClosing && !selfClosingCleared e.canHaveContent [op]) := by
  cases op with
  | setTagName n =>
    cases h : tagNameBytesFromStr n <;> cases hc : e.canHaveContent <;>
      simp [Element.apply, startTagOwnOps, selfClosingCleared, h, hc, List.filterMap_cons,
        StartTag.applyOps, StartTag.apply, ownPart, StartTag.setNameRaw]
  | setAttribute n v =>
    simp [Element.apply, startTagOwnOps, selfClosingCleared, StartTag.applyOps, StartTag.apply,
      StartTag.setAttribute]
    split <;> rfl
  | removeAttribute n =>
    simp [Element.apply, startTagOwnOps, selfClosingCleared, StartTag.applyOps, StartTag.apply,
      StartTag.removeAttribute]
    split <;> rfl
  | startTag sop =>
    cases sop with
    | «mut» o => simp [Element.apply, startTagOwnOps, selfClosingCleared, StartTag.applyOps, StartTag.apply, ownPart]
    | setName n => simp [Element.apply, startTagOwnOps, selfClosingCleared, StartTag.applyOps, StartTag.apply, StartTag.setNameRaw]
    | setAttribute n v =>
      simp [Element.apply, startTagOwnOps, selfClosingCleared, StartTag.applyOps, StartTag.apply, StartTag.setAttribute]
      split <;> rfl
    | removeAttribute n =>
      simp [Element.apply, startTagOwnOps, selfClosingCleared, StartTag.applyOps, StartTag.apply, StartTag.removeAttribute]
      split <;> rfl
  | _ =>
    obtain ⟨st, em, mn, hs, chc, src⟩ := e
    cases chc <;>
      simp [Element.apply, startTagOwnOps, selfClosingCleared, StartTag.applyOps, ownPart,
        Element.setStartTagMutations, Element.setEndTagMutations, Element.removeContent,
        StartTag.setSelfClosingSyntax, StartTag.apply] <;>
      (try split) <;> simp [Element.setEndTagMutations]

theorem startTagOwnOps_cons (op : ElementOp) (ops : List ElementOp) :
    startTagOwnOps (op :: ops) = startTagOwnOps [op] ++ startTagOwnOps ops := by
  simp [startTagOwnOps, List.filterMap_cons]
  split <;> simp

theorem selfClosingCleared_cons (chc : Bool) (op : ElementOp) (ops : List ElementOp) :
    selfClosingCleared chc (op :: ops) = (selfClosingCleared chc [op] || selfClosingCleared chc ops) := by
  cases chc <;> simp [selfClosingCleared]

theorem element_startTag_own (e : Element) (ops : List ElementOp) :
    ownPart (e.applyOps ops).startTag = ownPart (e.startTag.applyOps (startTagOwnOps ops))
      ∧ (e.applyOps ops).startTag.selfClosing
          = (e.startTag.selfClosing && !selfClosingCleared e.canHaveContent ops) := by
  induction ops generalizing e with
  | nil => simp [Element.applyOps, StartTag.applyOps, startTagOwnOps, selfClosingCleared]
  | cons op ops ih =>
    have h1 := ownPart_element_apply e op
    have h2 := ih (e.apply op)
    simp only [Element.applyOps, List.foldl_cons] at h2 ⊢
    rw [apply_canHaveContent] at h2
    constructor
    · rw [h2.1, startTagOwnOps_cons]
      simp only [StartTag.applyOps, List.foldl_append] at h1 ⊢
      exact ownPart_applyOps_congr _ _ h1.1 _
    · rw [h2.2, h1.2, selfClosingCleared_cons e.canHaveContent op ops]
      cases e.startTag.selfClosing <;> cases selfClosingCleared e.canHaveContent [op] <;> simp

theorem serializeSelf_of_ownPart (a b : StartTag) (h : ownPart a = ownPart b)
    (hs : a.selfClosing = b.selfClosing) : a.serializeSelf = b.serializeSelf := by
  obtain ⟨n1, a1, ns1, sc1, r1, m1, mu1⟩ := a
  obtain ⟨n2, a2, ns2, sc2, r2, m2, mu2⟩ := b
  simp only [ownPart, Prod.mk.injEq] at h
  obtain ⟨rfl, rfl, rfl, rfl⟩ := h
  simp only at hs
  subst hs
  rfl

end LolHtml.Lemmas.EditElementOps
