/-
Lemmas.FullReach — the controller state of a lexer-mode run is REACHED by a list of protocol events.

`Model/FullEvents.lean` drives the real controller over `CtlEv`s. What `Disp.handleTag` / `Disp.handleNonTag`
do with the controller (Thm/Full4.lean, `handleTag_lexer_gen`) is: `tokIf b` of a text / comment / doctype
token, where `b` is the DISPATCHER's copy of the capture flag (closing chunk of a text node: `textPending`),
and one `ctlStep` start- / end-tag event. `EvB` = these two kinds of steps; `stepsB` iterates them;
`Reach cfg s` = some well-formed `EvB` list leads from `St.init cfg` to `s` without error.
`I3 = J2 ∧ Reach` is an event invariant (`I3_evInv`), so the operation theorems of Thm/Full4.lean and the
until-first-error lifting of Lemmas/LexOnlyE.lean carry it through whole runs on raw bytes (Thm/Full18.lean).

A start-tag event whose attribute buffer is not sliceable (`auxConv info = none`; never produced by the
lexer — the open lexeme fact `AttrsInInput`) and that succeeds did not ask for the attributes; it is recorded
with the empty attribute list, which gives the SAME step (`start_norm`). So every recorded event is `EvOk`.
-/
import LolHtml.Thm.FullPay

namespace LolHtml.Lemmas.FullReach
open LolHtml LolHtml.Model LolHtml.Model.Full LolHtml.Model.Handlers LolHtml.EditModel LolHtml.Lemmas.Full
open LolHtml.Thm.Full

/-- what a lexer-mode dispatcher operation does with the controller -/
inductive EvB
  /-- one start- / end-tag event of the protocol (`ctlStep`) -/
  | ev (e : CtlEv)
  /-- `handle_token(text | comment | doctype)` iff the dispatcher's flag `b` is set -/
  | tok (b : Bool) (t : Model.Token)

def stepB (cfg : Cfg) (s : St) : EvB → St × Option Err
  | .ev e => ctlStep cfg s e
  | .tok b t => tokIf cfg b s t

/-- events in order, stopping at the first error -/
def stepsB (cfg : Cfg) : St → List EvB → St × Option Err
  | s, [] => (s, none)
  | s, e :: es =>
    match (stepB cfg s e).2 with
    | some err => ((stepB cfg s e).1, some err)
    | none => stepsB cfg (stepB cfg s e).1 es

/-- tag events are well-kinded with sliceable attributes; token steps carry a text / comment / doctype token -/
def EvB.Ok : EvB → Prop
  | .ev (.other _) => False
  | .ev e => EvOk e
  | .tok _ t => (CtlEv.other t).WellKinded

theorem stepsB_append (cfg : Cfg) (evs : List EvB) (e : EvB) :
    ∀ (s s' : St), stepsB cfg s evs = (s', none) → stepsB cfg s (evs ++ [e]) =
      ((stepB cfg s' e).1, (stepB cfg s' e).2) := by
  induction evs with
  | nil =>
    intro s s' h
    simp only [stepsB, Prod.mk.injEq] at h
    obtain ⟨rfl, _⟩ := h
    simp only [List.nil_append, stepsB]
    cases hr : (stepB cfg s e).2 <;> simp
  | cons x xs ih =>
    intro s s' h
    simp only [stepsB, List.cons_append] at h ⊢
    cases hr : (stepB cfg s x).2 with
    | some err => rw [hr] at h; simp at h
    | none =>
      rw [hr] at h
      simp only at h ⊢
      exact ih _ _ h

/-- `s` is the state after a well-formed list of protocol steps from the initial state -/
def Reach (cfg : Cfg) (s : St) : Prop :=
  ∃ evs : List EvB, (∀ e ∈ evs, e.Ok) ∧ stepsB cfg (St.init cfg) evs = (s, none)

theorem Reach.init (cfg : Cfg) : Reach cfg (St.init cfg) := ⟨[], fun _ h => (by cases h), rfl⟩

theorem Reach.snoc {cfg : Cfg} {s : St} (h : Reach cfg s) (e : EvB) (he : e.Ok) (hok : (stepB cfg s e).2 = none) :
    Reach cfg (stepB cfg s e).1 := by
  obtain ⟨evs, h1, h2⟩ := h
  refine ⟨evs ++ [e], fun x hx => ?_, ?_⟩
  · rcases List.mem_append.1 hx with hx | hx
    · exact h1 x hx
    · simp only [List.mem_singleton] at hx; subst hx; exact he
  · rw [stepsB_append cfg evs e _ s h2, hok]

/-- a successful start-tag event is the same step with a sliceable attribute buffer -/
theorem start_norm (cfg : Cfg) (s : St) (hf : s.fault = none) (ln : LocalName) (ns : Model.Ns) (info : AuxInfo)
    (tok : Model.Token) (hok : (ctlStep cfg s (.start ln ns info tok)).2 = none) :
    ∃ info', (∃ aux, auxConv info' = some aux) ∧
      ctlStep cfg s (.start ln ns info tok) = ctlStep cfg s (.start ln ns info' tok) := by
  cases ha : auxConv info with
  | some aux => exact ⟨info, ⟨aux, ha⟩, rfl⟩
  | none =>
    by_cases hreq : (startTag s ln ns).2 = .infoRequest
    · exfalso
      have herr : (ctlStep cfg s (.start ln ns info tok)).2 = some (.panic rMatcher) := by
        simp only [ctlStep, startPhase, hreq]
        have hvm' : ∃ vm1 req, (startTag s ln ns).1.vm = some vm1 ∧ (startTag s ln ns).1.pending = some req := by
          unfold startTag at hreq ⊢
          simp only [hf] at hreq ⊢
          unfold startTagCore at hreq ⊢
          cases hv : s.vm with
          | none => simp [hv] at hreq
          | some vm =>
            simp only [hv] at hreq ⊢
            cases he : vm.execForStartTag (nameBytes ln) (nsConv ns) with
            | error p => simp [he] at hreq
            | ok o =>
              cases o with
              | done vm' ms =>
                simp only [he] at hreq
                split at hreq <;> simp at hreq
              | infoRequest vm1 req => exact ⟨vm1, req, rfl, rfl⟩
        obtain ⟨vm1, req, e1, e2⟩ := hvm'
        unfold auxInfo
        simp only [e1, e2, ha]
        rfl
      rw [herr] at hok
      cases hok
    · refine ⟨⟨info.input, [], info.selfClosing⟩, ⟨⟨[], info.selfClosing⟩, rfl⟩, ?_⟩
      simp only [ctlStep]
      rw [startPhase_info_irrelevant s ln ns info ⟨info.input, [], info.selfClosing⟩ hreq]

/-- the run invariant with the event list -/
def I3 (cfg : Cfg) (s : St) : Prop := J2 cfg s ∧ Reach cfg s

theorem I3_init (cfg : Cfg) : I3 cfg (St.init cfg) := ⟨J2_init cfg, Reach.init cfg⟩

theorem I3_evInv (cfg : Cfg) :
    EvInv cfg (I3 cfg) (fun e => e = .panic rAttr ∨ e = .panic rMatcher) (fun _ => False) where
  fault := fun s h => (J2_evInv cfg).fault s h.1
  other := fun s tok b h hk => by
    obtain ⟨o1, o2⟩ := (J2_evInv cfg).other s tok b h.1 hk
    exact ⟨fun hn => ⟨o1 hn, h.2.snoc (.tok b tok) hk hn⟩, o2⟩
  start := fun s ln ns info nm attrs ns' sc raw src base h => by
    obtain ⟨c1, c2⟩ := (J2_evInv cfg).start s ln ns info nm attrs ns' sc raw src base h.1
    refine ⟨fun hn => ⟨c1 hn, ?_⟩, c2⟩
    obtain ⟨info', hs, heq⟩ := start_norm cfg s ((J2_evInv cfg).fault s h.1) ln ns info
      (.startTag nm attrs ns' sc raw src base) hn
    rw [heq]
    exact h.2.snoc (.ev (.start ln ns info' (.startTag nm attrs ns' sc raw src base))) ⟨hs, trivial⟩ (by
      show (ctlStep cfg s _).2 = none
      rw [← heq]; exact hn)
  end_ := fun s ln nm raw src h => by
    obtain ⟨c1, c2⟩ := (J2_evInv cfg).end_ s ln nm raw src h.1
    exact ⟨fun hn => ⟨c1 hn, h.2.snoc (.ev (.end_ ln (.endTag nm raw src))) trivial hn⟩, c2⟩

end LolHtml.Lemmas.FullReach
