import LolHtml.Lemmas.ChunkMainR
import LolHtml.Thm.C06_EndTag
/-!
The assertions of the checked rewriter never fire (`ResumeAtEndTag` discharged).

* the guard of `handle_tag` is pkg scan's `C06.guardOps (dispOps ctl) (pendE ctl)`; the flag
  `pendE d = !d.emission_enabled && should_emit_content()` satisfies `C06.EndLawsD` for every controller
  whose `handle_start_tag` and non-tag tokens keep `should_emit_content()` and that never returns a
  panic-class error (`CtlClean`): it is raised only by an end-tag hint that answers `lex` (`handle_end_tag_hint`
  adds `NEXT_END_TAG` exactly when `should_stop_removing_element_content`), and `handle_tag` ends with
  `emission_enabled := should_emit_content()`; hence `C06_relex_end_tag`: the guarded parse IS the real parse;
* the range check of the disabled-emission flush holds by pkg inv's watermark invariant (`parse_post`).

Result: `runG_eq` / `writeAllG_eq` — the checked rewriter IS the real one, on every chunking.
-/
set_option linter.unusedSimpArgs false
set_option linter.unusedVariables false

namespace LolHtml.Model.Chunk.R
open LolHtml LolHtml.Model LolHtml.Model.Chunk LolHtml.Thm

section
variable {γ : Type} {ctl : Controller γ}

/-- what the flag needs from the controller: `handle_start_tag` and non-tag tokens keep
`should_emit_content()` -/
structure ResumeLaws (ctl : Controller γ) : Prop where
  emit_start : ∀ g n ns, ctl.shouldEmit (ctl.startTag g n ns).1 = ctl.shouldEmit g
  emit_tok : ∀ g t, tokIsTag t = false → ctl.shouldEmit (ctl.token g t).1 = ctl.shouldEmit g

theorem TextBlindR.resumeLaws {E : γ → γ → Prop} (h : TextBlindR ctl E) : ResumeLaws ctl :=
  ⟨h.emit_start, h.emit_tok⟩

theorem guardOps_eq : guardOps ctl = C06.guardOps (dispOps ctl) (pendE ctl) := rfl

theorem guardEnv_eq (w : World γ) : guardEnv w = C06.guardEnv w.env (pendE w.ctl) := rfl

/-- same `emission_enabled`, same `should_emit_content()` -/
def PEq (ctl : Controller γ) (a b : Disp γ) : Prop :=
  a.emissionEnabled = b.emissionEnabled ∧ ctl.shouldEmit a.ctl = ctl.shouldEmit b.ctl

theorem PEq.refl (d : Disp γ) : PEq ctl d d := ⟨rfl, rfl⟩

theorem PEq.trans {a b c : Disp γ} (h1 : PEq ctl a b) (h2 : PEq ctl b c) : PEq ctl a c :=
  ⟨h1.1.trans h2.1, h1.2.trans h2.2⟩

theorem PEq.pendE {a b : Disp γ} (h : PEq ctl a b) : pendE ctl a = pendE ctl b := by
  unfold R.pendE; rw [h.1, h.2]

theorem bind_peq {α β : Type} {d : Disp γ} {r : DRes γ α} {f : Disp γ → α → DRes γ β} (hr : PEq ctl r.1 d)
    (hf : ∀ d1 a, PEq ctl d1 d → PEq ctl (f d1 a).1 d) : PEq ctl (DRes.bind r f).1 d := by
  unfold DRes.bind
  split
  · exact hr
  · exact hf _ _ hr

theorem bind_ok {α β : Type} {r : DRes γ α} {f : Disp γ → α → DRes γ β} {b : β} (h : (DRes.bind r f).2 = .ok b) :
    ∃ a, r.2 = .ok a ∧ DRes.bind r f = f r.1 a := by
  unfold DRes.bind at h ⊢
  split at h
  · cases h
  · rename_i a ha
    exact ⟨a, ha, rfl⟩

variable (hl : ResumeLaws ctl)
include hl

theorem tokenProduced_peq (d : Disp γ) (t : Token) (ht : tokIsTag t = false) : PEq ctl (Disp.tokenProduced ctl d t).1 d := by
  obtain ⟨a, _, _, b, _⟩ := tokenProduced_desc (ctl := ctl) d t
  exact ⟨b, by rw [a]; exact hl.emit_tok _ _ ht⟩

theorem flushPendingText_peq (d : Disp γ) : PEq ctl (d.flushPendingText ctl).1 d := by
  unfold Disp.flushPendingText
  split
  · exact (tokenProduced_peq hl _ _ rfl).trans ⟨rfl, rfl⟩
  · exact PEq.refl d

omit hl in
theorem emitChunkBefore_peq (d : Disp γ) (inp : Bytes) (raw : Range) :
    PEq ctl (DRes.ofExcept d (d.emitChunkBefore inp raw)).1 d := by
  unfold Disp.emitChunkBefore
  cases checkedSlice inp ⟨d.rcs, raw.start⟩ with
  | none => exact PEq.refl d
  | some chunk =>
    simp only [DRes.ofExcept]
    split <;> exact ⟨rfl, rfl⟩

theorem emitToken_peq (d : Disp γ) (inp : Bytes) (raw : Range) (tok : Token) (ht : tokIsTag tok = false) :
    PEq ctl (d.emitToken ctl inp raw tok).1 d := by
  unfold Disp.emitToken
  refine bind_peq (emitChunkBefore_peq d inp raw) fun d1 _ h1 => ?_
  refine bind_peq ((tokenProduced_peq hl d1 tok ht).trans h1) fun d2 _ h2 => ?_
  obtain ⟨a, _, _, b, _⟩ := flushEncodingChange_desc ({ d2 with rcs := raw.end })
  exact PEq.trans ⟨b, by rw [a]⟩ h2

omit hl in
theorem nonTagToToken_nonTag {f : Flags} {inp : Bytes} {lx : NonTagLexeme} {tok : Token}
    (h : nonTagToToken f inp lx = some (some tok)) : tokIsTag tok = false := by
  unfold nonTagToToken at h
  simp only at h
  split at h
  · split at h
    · split at h
      · simp only [Option.some.injEq] at h; subst h; rfl
      · cases h
    · cases h
  · split at h
    · split at h
      · simp only [Option.some.injEq] at h; subst h; rfl
      · cases h
    · cases h
  · cases h

theorem produceNonTag_peq (d : Disp γ) (inp : Bytes) (lx : NonTagLexeme) : PEq ctl (d.produceNonTag ctl inp lx).1 d := by
  unfold Disp.produceNonTag
  split
  · split
    · unfold Disp.produceText
      split
      · exact PEq.refl d
      · refine bind_peq (emitChunkBefore_peq d inp lx.raw) fun d1 _ h1 => ?_
        refine bind_peq ((tokenProduced_peq hl _ _ rfl).trans (PEq.trans ⟨rfl, rfl⟩ h1)) fun d2 _ h2 => ?_
        exact PEq.trans ⟨rfl, rfl⟩ h2
    · exact PEq.refl d
  · split
    · exact PEq.refl d
    · exact PEq.refl d
    · rename_i tok h
      exact emitToken_peq hl d inp lx.raw tok (nonTagToToken_nonTag h)

theorem handleNonTag_peq (inp : Bytes) (lx : NonTagLexeme) (d : Disp γ) : PEq ctl (Disp.handleNonTag ctl inp lx d).1 d := by
  unfold Disp.handleNonTag
  refine bind_peq ?_ fun d1 _ h1 => (produceNonTag_peq hl d1 inp lx).trans h1
  split
  · exact PEq.refl d
  · exact flushPendingText_peq hl d

theorem startTagHint_peq (n : LocalName) (ns : Ns) (d : Disp γ) : PEq ctl (Disp.startTagHint ctl n ns d).1 d := by
  unfold Disp.startTagHint
  simp only
  split
  · unfold Disp.applyHintFlags
    exact ⟨rfl, hl.emit_start _ _ _⟩
  · exact ⟨rfl, hl.emit_start _ _ _⟩
  · exact ⟨rfl, hl.emit_start _ _ _⟩

omit hl in
theorem flags_nextEndTag (f : Flags) : ({ f with nextEndTag := true } : Flags).isEmpty = false := by
  unfold Flags.isEmpty
  simp

omit hl in
/-- an end-tag hint that raises the flag answers `lex` -/
theorem endTagHint_scan (n : LocalName) (d : Disp γ) (h : (Disp.endTagHint ctl n d).2 = .ok .scan) :
    pendE ctl (Disp.endTagHint ctl n d).1 = false := by
  unfold Disp.endTagHint at h ⊢
  obtain ⟨a, _, he⟩ := bind_ok h
  rw [he] at h ⊢
  simp only [Disp.applyHintFlags] at h ⊢
  by_cases hs : Disp.shouldStopRemoving ctl { (d.flushPendingText ctl).1 with ctl := (ctl.endTag (d.flushPendingText ctl).1.ctl n).1 } = true
  · exfalso
    rw [if_pos hs] at h
    simp only [Disp.nextDirective, flags_nextEndTag, Bool.false_eq_true, if_false, Except.ok.injEq] at h
    cases h
  · simp only [Bool.not_eq_true] at hs
    exact hs

omit hl in
/-- `handle_tag` ends with `emission_enabled := should_emit_content()` -/
theorem handleTag_ok (inp : Bytes) (lx : TagLexeme) (d : Disp γ) {dir : Directive}
    (h : (Disp.handleTag ctl inp lx d).2 = .ok dir) : pendE ctl (Disp.handleTag ctl inp lx d).1 = false := by
  unfold Disp.handleTag at h ⊢
  obtain ⟨a1, _, e1⟩ := bind_ok h
  rw [e1] at h ⊢
  obtain ⟨a2, _, e2⟩ := bind_ok h
  rw [e2] at h ⊢
  obtain ⟨a3, _, e3⟩ := bind_ok h
  rw [e3]
  simp only [R.pendE]
  cases ctl.shouldEmit _ <;> rfl

omit hl in
theorem flushRemaining_peq {d d' : Disp γ} {inp : Bytes} {k : Nat} (h : d.flushRemaining inp k = .ok d') : PEq ctl d' d := by
  unfold Disp.flushRemaining at h
  split at h
  · split at h
    · cases h
    · simp only [Except.ok.injEq] at h
      subst h
      split <;> exact ⟨rfl, rfl⟩
  · simp only [Except.ok.injEq] at h
    subst h
    exact ⟨rfl, rfl⟩

/-- **The flag of the guard satisfies pkg scan's laws for the END direction.** -/
theorem endLawsD (hc : CtlClean ctl) : C06.EndLawsD ctl (pendE ctl) (fun _ => True) where
  laws := fun inp =>
    { hint :=
        { start := fun n ns k hk _ => (startTagHint_peq hl n ns k).pendE.trans hk
          end_ := fun n k _ h => endTagHint_scan n k h
          otherE := fun hh => by cases hh
          otherS := fun _ n ns k hk => (startTagHint_peq hl n ns k).pendE.trans hk }
      goodNT := fun _ _ _ => trivial
      goodT := fun _ _ _ => trivial
      goodS := fun _ _ _ _ _ => trivial
      goodE := fun _ _ _ _ => trivial
      pendNT := fun lx k => (handleNonTag_peq hl inp lx k).pendE
      pendT := fun lx k d _ h => handleTag_ok inp lx k h
      cleanNT := (C06.dispOps_clean_guard (inp := inp) hc).1
      cleanT := (C06.dispOps_clean_guard (inp := inp) hc).2.1
      cleanS := (C06.dispOps_clean_guard (inp := inp) hc).2.2.1
      cleanE := (C06.dispOps_clean_guard (inp := inp) hc).2.2.2 }
  flush := fun d inp k d' h => ⟨(flushRemaining_peq h).pendE, fun _ => trivial⟩
  init := fun g enc => ⟨rfl, trivial⟩

end

/-! ### the checked stream is the real stream -/

section
variable {γ : Type} {w : World γ}

theorem flushC_of_bounds (d : Disp γ) (inp : Bytes) (c : Nat) (h1 : d.rcs ≤ c) (h2 : c ≤ inp.length) :
    flushC d inp c = d.flushRemaining inp c := by
  unfold flushC checkedSlice
  rw [if_pos ⟨h1, h2⟩]

/-- one `write`: given that the guarded parse is the real one and that a successful parse leaves the watermark
valid -/
theorem stream_writeG_eq_core (s : Stream γ) (data : Bytes)
    (hp : Parser.parse (guardEnv w) (s.pending ++ data) false s.parser =
      Parser.parse w.env (s.pending ++ data) false s.parser)
    (hb : ∀ consumed, (Parser.parse w.env (s.pending ++ data) false s.parser).2 = .ok consumed →
      (Parser.parse w.env (s.pending ++ data) false s.parser).1.x.sink.rcs ≤ consumed ∧
      consumed ≤ (s.pending ++ data).length) :
    s.writeG w data = s.write w data := by
  unfold Stream.writeG Stream.write
  cases hcf : s.chunkFor w data with
  | inl s' => rfl
  | inr sc =>
    obtain ⟨s1, chunk⟩ := sc
    obtain ⟨c1, c2, c3, c4, c5⟩ := Stream.chunkFor_inr hcf
    dsimp only
    rw [← c1, ← c2] at hp hb
    rw [hp]
    cases hpr : (s1.parser.parse w.env chunk false).2 with
    | error e => rfl
    | ok consumed =>
      obtain ⟨p1, p2⟩ := hb consumed hpr
      dsimp only at p1 p2 ⊢
      have e := flushC_of_bounds (Stream.disp { s1 with parser := (Parser.parse w.env chunk false s1.parser).1 }) chunk consumed p1 p2
      rw [e]
      rfl

/-- one `write`: given that the guarded parse is the real one -/
theorem stream_writeG_eq (hc : CtlClean w.ctl) (hw : Wf w.tbl) (s : Stream γ) (data : Bytes) (hs : SInv w s)
    (hp : Parser.parse (guardEnv w) (s.pending ++ data) false s.parser =
      Parser.parse w.env (s.pending ++ data) false s.parser) :
    s.writeG w data = s.write w data := by
  unfold Stream.writeG Stream.write
  cases hcf : s.chunkFor w data with
  | inl s' => rfl
  | inr sc =>
    obtain ⟨s1, chunk⟩ := sc
    obtain ⟨c1, c2, c3, c4, c5⟩ := Stream.chunkFor_inr hcf
    dsimp only
    obtain ⟨hrcs, hpinv⟩ := hs
    have hlen : (if s.hasBuffered then s.buf.data.length else 0) ≤ chunk.length := by
      rw [c1]
      simp only [Stream.pending, List.length_append]
      split <;> omega
    have hp1 : PInv w.tbl chunk.length (fun d : Disp γ => d.rcs) s1.parser := by
      rw [c2]; exact PInv_mono hpinv hlen
    have hpost := parse_post (env := w.env) (inp := chunk) (dispOps_safe hc) hw false s1.parser hp1
    have hp' : s1.parser.parse (guardEnv w) chunk false = s1.parser.parse w.env chunk false := by
      rw [c2, c1]; exact hp
    rw [hp']
    unfold ParsePost at hpost
    cases hpr : (s1.parser.parse w.env chunk false).2 with
    | error e => rfl
    | ok consumed =>
      rw [hpr] at hpost
      obtain ⟨p1, p2, _⟩ := hpost
      dsimp only at p1 p2 ⊢
      have e := flushC_of_bounds (Stream.disp { s1 with parser := (Parser.parse w.env chunk false s1.parser).1 }) chunk consumed p1 p2
      rw [e]
      rfl

/-- `end`: given that the guarded parse is the real one -/
theorem stream_endG_eq (s : Stream γ)
    (hp : Parser.parse (guardEnv w) s.pending true s.parser = Parser.parse w.env s.pending true s.parser) :
    s.endG w = s.end w := by
  unfold Stream.endG Stream.end
  dsimp only
  rw [hp]
  rfl

theorem rewriter_writeG_eq (r : Rewriter γ) (data : Bytes)
    (h : r.poisoned = false → r.stream.writeG w data = r.stream.write w data) : r.writeG w data = r.write w data := by
  unfold Rewriter.writeG Rewriter.write
  by_cases hp : r.poisoned = true
  · rw [if_pos hp, if_pos hp]
  · rw [if_neg hp, if_neg hp]
    have hq := h (by simpa using hp)
    rw [hq]
    rfl

theorem rewriter_endG_eq (r : Rewriter γ) (h : r.poisoned = false → r.stream.endG w = r.stream.end w) :
    r.endG w = r.end w := by
  unfold Rewriter.endG Rewriter.end
  by_cases hp : r.poisoned = true
  · rw [if_pos hp, if_pos hp]
  · rw [if_neg hp, if_neg hp]
    have hq := h (by simpa using hp)
    rw [hq]
    rfl

theorem writeAll_snoc (r : Rewriter γ) (pre : List Bytes) (c : Bytes) :
    (C01.writeAll w r (pre ++ [c])).1 = ((C01.writeAll w r pre).1.write w c).1 := by
  induction pre generalizing r with
  | nil => rfl
  | cons p pre ih => simp only [List.cons_append, C01.writeAll]; exact ih _

variable {L : Labels} {TT : TLabels} {P : PLabels} {S : SLabels}

/-- every call of the checked rewriter after a prefix of real writes is the real call -/
theorem step_eq (hside : RelexSide w.tbl L TT P S) (ht : EmitsChecked w.tbl = true) (hwf : WfTable w.tbl = true)
    (hc : CtlClean w.ctl) (hl : ResumeLaws w.ctl) (g : γ) (cfg : Settings) (pre : List Bytes) :
    (∀ data, (C01.writeAll w (C01.Rewriter.new w g cfg) pre).1.writeG w data =
      (C01.writeAll w (C01.Rewriter.new w g cfg) pre).1.write w data) ∧
    (C01.writeAll w (C01.Rewriter.new w g cfg) pre).1.endG w = (C01.writeAll w (C01.Rewriter.new w g cfg) pre).1.end w := by
  have hw := WfTable.wf hwf
  have hinv := (C15.writeAll_post hc hw pre (C01.Rewriter.new w g cfg) (Or.inr (Stream.new_SInv hw g cfg))).2
  have hrel := C06.C06_relex_end_tag w L TT P S hside ht (pendE w.ctl) (fun _ => True) (endLawsD hl hc) g cfg pre
  dsimp only at hrel
  constructor
  · intro data
    apply rewriter_writeG_eq
    intro hp
    have hs : SInv w (C01.writeAll w (C01.Rewriter.new w g cfg) pre).1.stream := by
      rcases hinv with h | h
      · rw [hp] at h; cases h
      · exact h
    exact stream_writeG_eq hc hw _ data hs ((hrel hp).1 data)
  · apply rewriter_endG_eq
    intro hp
    exact stream_endG_eq _ (hrel hp).2

/-- the writes of the checked rewriter are the real writes -/
theorem writeAllG_eq_from (hside : RelexSide w.tbl L TT P S) (ht : EmitsChecked w.tbl = true) (hwf : WfTable w.tbl = true)
    (hc : CtlClean w.ctl) (hl : ResumeLaws w.ctl) (g : γ) (cfg : Settings) (cs : List Bytes) :
    ∀ pre, writeAllG w (C01.writeAll w (C01.Rewriter.new w g cfg) pre).1 cs =
      C01.writeAll w (C01.writeAll w (C01.Rewriter.new w g cfg) pre).1 cs := by
  induction cs with
  | nil => intro pre; rfl
  | cons c cs ih =>
    intro pre
    simp only [writeAllG, C01.writeAll]
    rw [(step_eq hside ht hwf hc hl g cfg pre).1 c, ← writeAll_snoc, ih (pre ++ [c])]

/-- **The checked rewriter is the real one** (writes). -/
theorem writeAllG_eq (hside : RelexSide w.tbl L TT P S) (ht : EmitsChecked w.tbl = true) (hwf : WfTable w.tbl = true)
    (hc : CtlClean w.ctl) (hl : ResumeLaws w.ctl) (g : γ) (cfg : Settings) (cs : List Bytes) :
    writeAllG w (C01.Rewriter.new w g cfg) cs = C01.writeAll w (C01.Rewriter.new w g cfg) cs :=
  writeAllG_eq_from hside ht hwf hc hl g cfg cs []

/-- **The checked rewriter is the real one** (writes and `end`). -/
theorem runG_eq (hside : RelexSide w.tbl L TT P S) (ht : EmitsChecked w.tbl = true) (hwf : WfTable w.tbl = true)
    (hc : CtlClean w.ctl) (hl : ResumeLaws w.ctl) (g : γ) (cfg : Settings) (cs : List Bytes) :
    runG w (C01.Rewriter.new w g cfg) cs = C01.run w (C01.Rewriter.new w g cfg) cs := by
  unfold runG C01.run
  dsimp only
  rw [writeAllG_eq hside ht hwf hc hl g cfg cs, (step_eq hside ht hwf hc hl g cfg cs).2]

end

end LolHtml.Model.Chunk.R
