import LolHtml.Lemmas.ParseReach
/-!
# Never-failing controllers: the dispatcher only fails panic-like, `parse` only fails at a `U2` site
-/
namespace LolHtml.Model

variable {γ : Type}

/-- the controller never fails and never asks for the attributes of a hinted start tag -/
structure NeverFails (ctl : Controller γ) : Prop where
  token : ∀ g t, (ctl.token g t).2.err = none
  startTag : ∀ g n ns, ∃ f, (ctl.startTag g n ns).2 = .flags f
  auxInfo : ∀ g i, ∃ f, (ctl.auxInfo g i).2 = .ok f
  handleEnd : ∀ g, (ctl.handleEnd g).2.2 = none

theorem NeverFails.clean {ctl : Controller γ} (h : NeverFails ctl) : CtlClean ctl where
  token := by intro g t e he; rw [h.token] at he; cases he
  startTag := by intro g n ns e he; obtain ⟨f, hf⟩ := h.startTag g n ns; rw [hf] at he; cases he
  auxInfo := by intro g i e he; obtain ⟨f, hf⟩ := h.auxInfo g i; rw [hf] at he; cases he
  handleEnd := by intro g e he; rw [h.handleEnd] at he; cases he

section
variable {ctl : Controller γ} {inp : Bytes}

/-- dispatcher step: `pending_element_aux_info_req` stays unset, failures are panic-like -/
def DProv {α : Type} (r : DRes γ α) : Prop := r.1.pendingAux = false ∧ ∀ e, r.2 = .error e → PanicLike e

theorem DProv.bind {α β : Type} {r : DRes γ α} {f : Disp γ → α → DRes γ β} (hr : DProv r)
    (hf : ∀ d a, d.pendingAux = false → DProv (f d a)) : DProv (DRes.bind r f) := by
  unfold DRes.bind
  split
  · rename_i e he
    exact ⟨hr.1, fun e' h' => by simp only [Except.error.injEq] at h'; subst h'; exact hr.2 _ he⟩
  · exact hf _ _ hr.1

theorem tokenProduced_pa (d : Disp γ) (t : Token) : (Disp.tokenProduced ctl d t).1.pendingAux = d.pendingAux := by
  unfold Disp.tokenProduced Disp.pushChunks Disp.noteNextEncoding
  dsimp only
  (repeat' split) <;> rfl

theorem tokenProduced_prov (hn : NeverFails ctl) (d : Disp γ) (t : Token) (hd : d.pendingAux = false) :
    DProv (Disp.tokenProduced ctl d t) := by
  refine ⟨by rw [tokenProduced_pa]; exact hd, fun e he => ?_⟩
  unfold Disp.tokenProduced at he
  dsimp only at he
  rw [hn.token] at he
  cases he

theorem flushPendingText_prov (hn : NeverFails ctl) (d : Disp γ) (hd : d.pendingAux = false) :
    DProv (d.flushPendingText ctl) := by
  unfold Disp.flushPendingText
  split
  · exact tokenProduced_prov hn _ _ hd
  · exact ⟨hd, fun e he => by cases he⟩

theorem ofExcept_emitChunkBefore_prov (d : Disp γ) (raw : Range) (hd : d.pendingAux = false) :
    DProv (DRes.ofExcept d (d.emitChunkBefore inp raw)) := by
  unfold Disp.emitChunkBefore DRes.ofExcept
  split
  · rename_i e h'
    refine ⟨hd, fun e' he => ?_⟩
    simp only [Except.error.injEq] at he
    subst he
    split at h'
    · simp only [Except.error.injEq] at h'; subst h'; trivial
    · cases h'
  · rename_i d' h'
    refine ⟨?_, fun e he => by cases he⟩
    split at h'
    · cases h'
    · simp only [Except.ok.injEq] at h'
      subst h'
      dsimp only
      split <;> exact hd

theorem flushEncodingChange_pa (d : Disp γ) : d.flushEncodingChange.pendingAux = d.pendingAux := by
  unfold Disp.flushEncodingChange
  (repeat' split) <;> rfl

theorem emitToken_prov (hn : NeverFails ctl) (d : Disp γ) (raw : Range) (tok : Token) (hd : d.pendingAux = false) :
    DProv (d.emitToken ctl inp raw tok) := by
  unfold Disp.emitToken
  apply DProv.bind (ofExcept_emitChunkBefore_prov d raw hd)
  intro d1 _ h1
  apply DProv.bind (tokenProduced_prov hn d1 tok h1)
  intro d2 _ h2
  exact ⟨by dsimp only; rw [flushEncodingChange_pa]; exact h2, fun e he => by cases he⟩

theorem produceTag_prov (hn : NeverFails ctl) (d : Disp γ) (lx : TagLexeme) (hd : d.pendingAux = false) :
    DProv (d.produceTag ctl inp lx) := by
  unfold Disp.produceTag
  split
  · exact ⟨hd, fun e he => by simp only [Except.error.injEq] at he; subst he; trivial⟩
  · dsimp only
    split
    · exact ⟨hd, fun e he => by cases he⟩
    · exact emitToken_prov hn _ _ _ hd

theorem produceNonTag_prov (hn : NeverFails ctl) (d : Disp γ) (lx : NonTagLexeme) (hd : d.pendingAux = false) :
    DProv (d.produceNonTag ctl inp lx) := by
  unfold Disp.produceNonTag
  split
  · split
    · unfold Disp.produceText
      split
      · exact ⟨hd, fun e he => by simp only [Except.error.injEq] at he; subst he; trivial⟩
      · apply DProv.bind (ofExcept_emitChunkBefore_prov d lx.raw hd)
        intro d1 _ h1
        refine DProv.bind (tokenProduced_prov hn _ _ ?_) ?_
        · exact h1
        · intro d2 _ h2
          exact ⟨h2, fun e he => by cases he⟩
    · exact ⟨hd, fun e he => by cases he⟩
  · split
    · exact ⟨hd, fun e he => by simp only [Except.error.injEq] at he; subst he; trivial⟩
    · exact ⟨hd, fun e he => by cases he⟩
    · exact emitToken_prov hn _ _ _ hd

theorem adjustFlagsForTag_prov (hn : NeverFails ctl) (d : Disp γ) (lx : TagLexeme) (hd : d.pendingAux = false) :
    DProv (d.adjustFlagsForTag ctl inp lx) := by
  unfold Disp.adjustFlagsForTag
  split
  · rename_i hp; rw [hd] at hp; cases hp
  · split
    · split
      · exact ⟨hd, fun e he => by simp only [Except.error.injEq] at he; subst he; trivial⟩
      · dsimp only
        split
        · exact ⟨hd, fun e he => by cases he⟩
        · rename_i hir
          obtain ⟨f, hf⟩ := hn.startTag d.ctl ‹LocalName› ‹Ns›
          rw [hf] at hir; cases hir
        · rename_i e herr
          obtain ⟨f, hf⟩ := hn.startTag d.ctl ‹LocalName› ‹Ns›
          rw [hf] at herr; cases herr
    · split
      · exact ⟨hd, fun e he => by simp only [Except.error.injEq] at he; subst he; trivial⟩
      · exact ⟨hd, fun e he => by cases he⟩

theorem handleTag_prov (hn : NeverFails ctl) (lx : TagLexeme) (d : Disp γ) (hd : d.pendingAux = false) :
    DProv (Disp.handleTag ctl inp lx d) := by
  unfold Disp.handleTag
  apply DProv.bind (flushPendingText_prov hn d hd)
  intro d1 _ h1
  apply DProv.bind
  · split
    · exact ⟨h1, fun e he => by cases he⟩
    · exact adjustFlagsForTag_prov hn d1 lx h1
  · intro d2 _ h2
    apply DProv.bind
    · apply produceTag_prov hn
      unfold Disp.resumeEmission
      split <;> exact h2
    · intro d3 _ h3
      exact ⟨h3, fun e he => by cases he⟩

theorem handleNonTag_prov (hn : NeverFails ctl) (lx : NonTagLexeme) (d : Disp γ) (hd : d.pendingAux = false) :
    DProv (Disp.handleNonTag ctl inp lx d) := by
  unfold Disp.handleNonTag
  apply DProv.bind
  · split
    · exact ⟨hd, fun e he => by cases he⟩
    · exact flushPendingText_prov hn d hd
  · intro d1 _ h1
    exact produceNonTag_prov hn d1 lx h1

theorem startTagHint_prov (hn : NeverFails ctl) (name : LocalName) (ns : Ns) (d : Disp γ) (hd : d.pendingAux = false) :
    DProv (Disp.startTagHint ctl name ns d) := by
  unfold Disp.startTagHint
  dsimp only
  obtain ⟨f, hf⟩ := hn.startTag d.ctl name ns
  rw [hf]
  unfold Disp.applyHintFlags
  exact ⟨hd, fun e he => by cases he⟩

theorem endTagHint_prov (hn : NeverFails ctl) (name : LocalName) (d : Disp γ) (hd : d.pendingAux = false) :
    DProv (Disp.endTagHint ctl name d) := by
  unfold Disp.endTagHint
  apply DProv.bind (flushPendingText_prov hn d hd)
  intro d1 _ h1
  dsimp only
  unfold Disp.applyHintFlags
  exact ⟨h1, fun e he => by cases he⟩

/-- **The dispatcher of a never-failing controller only fails panic-like.** -/
theorem dispOps_prov (hn : NeverFails ctl) : OpsProv (dispOps ctl) inp (fun d : Disp γ => d.pendingAux = false) where
  handleTag := fun lx k hk => handleTag_prov hn lx k hk
  handleNonTag := fun lx k hk => handleNonTag_prov hn lx k hk
  startTagHint := fun n ns k hk => startTagHint_prov hn n ns k hk
  endTagHint := fun n k hk => endTagHint_prov hn n k hk

end

/-! ### `Parser::parse` over a panic-like sink and a non-strict simulator -/

section
variable {κ : Type} {env : Env κ} {inp : Bytes} {W : κ → Nat} {J : κ → Prop}

theorem machine_x (p : Parser κ) (last : Bool) : (p.machine last).x = p.x := by
  unfold Parser.machine; split <;> rfl

/-- the only way `parse` can fail is a panic at a `U2` site; the context invariant is kept -/
theorem parse_total {cert : Cert} (hchk : checkCert env.tbl cert = true) (hs : SinkSafe env.ops W inp U1)
    (hs2 : SinkSafe2 env.ops inp) (hw : Wf env.tbl) (hprov : OpsProv env.ops inp J) (last : Bool) (p : Parser κ)
    (hp : PInv env.tbl inp.length W p) (htp : PTok env.tbl cert p) (hx : XInv J p.x) :
    (∀ e, (Parser.parse env inp last p).2 = .error e → ∃ st, e = .panic st ∧ U2 st) ∧
    XInv J (Parser.parse env inp last p).1.x := by
  obtain ⟨p', k, r1, r2, r3, r4, r5⟩ := parseLoop_reach hchk hs hs2 hw last (XInv J)
    (fun m hm => (runLoop_prov hprov _ m hm).1) (2 * inp.length + 8) p hp htp hx (nu_lt p hp)
  unfold Parser.parse
  rw [r4]
  obtain ⟨g1, g2⟩ := run_sig hchk hs hs2 hw last p' r1 r2
  obtain ⟨v1, v2⟩ := runLoop_prov hprov (defaultFuel inp) (p'.machine last) (by rw [machine_x]; exact r3)
  unfold LoopTok at g2
  simp only [Parser.parseLoop]
  split
  · exact ⟨fun e h => (by cases h), by (try dsimp only); rw [Parser.store_x]; exact v1⟩
  · rename_i d bm hsig
    exact absurd hsig (r5 d bm)
  · rename_i st hsig
    rw [hsig] at g1 g2
    have h1 : ErrOK U2 (.internal st) := ErrOK_U2 g1 g2.2
    have h2 := v2 _ hsig
    exact absurd h1 h2
  · rename_i e hne hsig
    rw [hsig] at g1 g2
    have h1 : ErrOK U2 e := ErrOK_U2 g1 g2.2
    have h2 := v2 _ hsig
    refine ⟨fun e' h => ?_, by rw [Parser.store_x]; exact v1⟩
    simp only [Except.error.injEq] at h
    subst h
    cases e with
    | panic st => exact ⟨st, rfl, h1⟩
    | internal st => exact absurd rfl (hne st)
    | ambiguity t => cases h2
    | handler => cases h2
    | mem => cases h2

end
end LolHtml.Model
