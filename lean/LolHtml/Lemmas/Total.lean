import LolHtml.Lemmas.ParseReach
/-!
# Never-failing controllers: the dispatcher only fails panic-like, `parse` only fails at a `U2` site
-/
namespace LolHtml.Model

variable {γ : Type}

/-- the controller never fails and never asks for the attributes of a hinted start tag -/
structure NeverFails (ctl : Controller γ) : Prop where
  token : ∀ g t, (ctl.token g t).2.err = none
  startTag : ∀ g n ns, ∃ f, (ctl.startTag g n ns).2 = .flags f
  auxInfo : ∀ g i, ∃ f, (ctl.auxInfo g i).2 = .ok f
  handleEnd : ∀ g, (ctl.handleEnd g).2.2 = none

theorem NeverFails.clean {ctl : Controller γ} (h : NeverFails ctl) : CtlClean ctl where
  token := by intro g t e he; rw [h.token] at he; cases he
  startTag := by intro g n ns e he; obtain ⟨f, hf⟩ := h.startTag g n ns; rw [hf] at he; cases he
  auxInfo := by intro g i e he; obtain ⟨f, hf⟩ := h.auxInfo g i; rw [hf] at he; cases he
  handleEnd := by intro g e he; rw [h.handleEnd] at he; cases he

section
variable {ctl : Controller γ} {inp : Bytes}

/-- dispatcher step: `pending_element_aux_info_req` stays unset, failures are panic-like -/
def DProv {α : Type} (r : DRes γ α) : Prop := r.1.pendingAux = false ∧ ∀ e, r.2 = .error e → PanicLike e

theorem DProv.bind {α β : Type} {r : DRes γ α} {f : Disp γ → α → DRes γ β} (hr : DProv r)
    (hf : ∀ d a, d.pendingAux = false → DProv (f d a)) : DProv (DRes.bind r f) := by
  unfold DRes.bind
  split
  · rename_i e he
    exact ⟨hr.1, fun e' h' => by simp only [Except.error.injEq] at h'; subst h'; exact hr.2 _ he⟩
  · exact hf _ _ hr.1

theorem tokenProduced_pa (d : Disp γ) (t : Token) : (Disp.tokenProduced ctl d t).1.pendingAux = d.pendingAux := by
  unfold Disp.tokenProduced Disp.pushChunks Disp.noteNextEncoding
  dsimp only
  (repeat' split) <;> rfl

theorem tokenProduced_prov (hn : NeverFails ctl) (d : Disp γ) (t : Token) (hd : d.pendingAux = false) :
    DProv (Disp.tokenProduced ctl d t) := by
  refine ⟨by rw [tokenProduced_pa]; exact hd, fun e he => ?_⟩
  unfold Disp.tokenProduced at he
  dsimp only at he
  rw [hn.token] at he
  cases he

theorem flushPendingText_prov (hn : NeverFails ctl) (d : Disp γ) (hd : d.pendingAux = false) :
    DProv (d.flushPendingText ctl) := by
  unfold Disp.flushPendingText
  split
  · exact tokenProduced_prov hn _ _ hd
  · exact ⟨hd, fun e he => by cases he⟩

theorem ofExcept_emitChunkBefore_prov (d : Disp γ) (raw : Range) (hd : d.pendingAux = false) :
    DProv (DRes.ofExcept d (d.emitChunkBefore inp raw)) := by
  unfold Disp.emitChunkBefore DRes.ofExcept
  split
  · rename_i e h'
    refine ⟨hd, fun e' he => ?_⟩
    simp only [Except.error.injEq] at he
    subst he
    split at h'
    · simp only [Except.error.injEq] at h'; subst h'; trivial
    · cases h'
  · rename_i d' h'
    refine ⟨?_, fun e he => by cases he⟩
    split at h'
    · cases h'
    · simp only [Except.ok.injEq] at h'
      subst h'
      dsimp only
      split <;> exact hd

theorem flushEncodingChange_pa (d : Disp γ) : d.flushEncodingChange.pendingAux = d.pendingAux := by
  unfold Disp.flushEncodingChange
  (repeat' split) <;> rfl

theorem emitToken_prov (hn : NeverFails ctl) (d : Disp γ) (raw : Range) (tok : Token) (hd : d.pendingAux = false) :
    DProv (d.emitToken ctl inp raw tok) := by
  unfold Disp.emitToken
  apply DProv.bind (ofExcept_emitChunkBefore_prov d raw hd)
  intro d1 _ h1
  apply DProv.bind (tokenProduced_prov hn d1 tok h1)
  intro d2 _ h2
  exact ⟨by dsimp only; rw [flushEncodingChange_pa]; exact h2, fun e he => by cases he⟩

theorem produceTag_prov (hn : NeverFails ctl) (d : Disp γ) (lx : TagLexeme) (hd : d.pendingAux = false) :
    DProv (d.produceTag ctl inp lx) := by
  unfold Disp.produceTag
  split
  · exact ⟨hd, fun e he => by simp only [Except.error.injEq] at he; subst he; trivial⟩
  · dsimp only
    split
    · exact ⟨hd, fun e he => by cases he⟩
    · exact emitToken_prov hn _ _ _ hd

theorem produceNonTag_prov (hn : NeverFails ctl) (d : Disp γ) (lx : NonTagLexeme) (hd : d.pendingAux = false) :
    DProv (d.produceNonTag ctl inp lx) := by
  unfold Disp.produceNonTag
  split
  · split
    · unfold Disp.produceText
      split
      · exact ⟨hd, fun e he => by simp only [Except.error.injEq] at he; subst he; trivial⟩
      · apply DProv.bind (ofExcept_emitChunkBefore_prov d lx.raw hd)
        intro d1 _ h1
        refine DProv.bind (tokenProduced_prov hn _ _ ?_) ?_
        · exact h1
        · intro d2 _ h2
          exact ⟨h2, fun e he => by cases he⟩
    · exact ⟨hd, fun e he => by cases he⟩
  · split
    · exact ⟨hd, fun e he => by simp only [Except.error.injEq] at he; subst he; trivial⟩
    · exact ⟨hd, fun e he => by cases he⟩
    · exact emitToken_prov hn _ _ _ hd

theorem adjustFlagsForTag_prov (hn : NeverFails ctl) (d : Disp γ) (lx : TagLexeme) (hd : d.pendingAux = false) :
    DProv (d.adjustFlagsForTag ctl inp lx) := by
  unfold Disp.adjustFlagsForTag
  split
  · rename_i hp; rw [hd] at hp; cases hp
  · split
    · split
      · exact ⟨hd, fun e he => by simp only [Except.error.injEq] at he; subst he; trivial⟩
      · dsimp only
        split
        · exact ⟨hd, fun e he => by cases he⟩
        · rename_i hir
          obtain ⟨f, hf⟩ := hn.startTag d.ctl ‹LocalName› ‹Ns›
          rw [hf] at hir; cases hir
        · rename_i e herr
          obtain ⟨f, hf⟩ := hn.startTag d.ctl ‹LocalName› ‹Ns›
          rw [hf] at herr; cases herr
    · split
      · exact ⟨hd, fun e he => by simp only [Except.error.injEq] at he; subst he; trivial⟩
      · exact ⟨hd, fun e he => by cases he⟩

theorem handleTag_prov (hn : NeverFails ctl) (lx : TagLexeme) (d : Disp γ) (hd : d.pendingAux = false) :
    DProv (Disp.handleTag ctl inp lx d) := by
  unfold Disp.handleTag
  apply DProv.bind (flushPendingText_prov hn d hd)
  intro d1 _ h1
  apply DProv.bind
  · split
    · exact ⟨h1, fun e he => by cases he⟩
    · exact adjustFlagsForTag_prov hn d1 lx h1
  · intro d2 _ h2
    apply DProv.bind
    · apply produceTag_prov hn
      unfold Disp.resumeEmission
      split <;> exact h2
    · intro d3 _ h3
      exact ⟨h3, fun e he => by cases he⟩

theorem handleNonTag_prov (hn : NeverFails ctl) (lx : NonTagLexeme) (d : Disp γ) (hd : d.pendingAux = false) :
    DProv (Disp.handleNonTag ctl inp lx d) := by
  unfold Disp.handleNonTag
  apply DProv.bind
  · split
    · exact ⟨hd, fun e he => by cases he⟩
    · exact flushPendingText_prov hn d hd
  · intro d1 _ h1
    exact produceNonTag_prov hn d1 lx h1

theorem startTagHint_prov (hn : NeverFails ctl) (name : LocalName) (ns : Ns) (d : Disp γ) (hd : d.pendingAux = false) :
    DProv (Disp.startTagHint ctl name ns d) := by
  unfold Disp.startTagHint
  dsimp only
  obtain ⟨f, hf⟩ := hn.startTag d.ctl name ns
  rw [hf]
  unfold Disp.applyHintFlags
  exact ⟨hd, fun e he => by cases he⟩

theorem endTagHint_prov (hn : NeverFails ctl) (name : LocalName) (d : Disp γ) (hd : d.pendingAux = false) :
    DProv (Disp.endTagHint ctl name d) := by
  unfold Disp.endTagHint
  apply DProv.bind (flushPendingText_prov hn d hd)
  intro d1 _ h1
  dsimp only
  unfold Disp.applyHintFlags
  exact ⟨h1, fun e he => by cases he⟩

/-- **The dispatcher of a never-failing controller only fails panic-like.** -/
theorem dispOps_prov (hn : NeverFails ctl) : OpsProv (dispOps ctl) inp (fun d : Disp γ => d.pendingAux = false) where
  handleTag := fun lx k hk => handleTag_prov hn lx k hk
  handleNonTag := fun lx k hk => handleNonTag_prov hn lx k hk
  startTagHint := fun n ns k hk => startTagHint_prov hn n ns k hk
  endTagHint := fun n k hk => endTagHint_prov hn n k hk

end

/-! ### `Parser::parse` over a panic-like sink and a non-strict simulator -/

section
variable {κ : Type} {env : Env κ} {inp : Bytes} {W : κ → Nat} {J : κ → Prop}

theorem machine_x (p : Parser κ) (last : Bool) : (p.machine last).x = p.x := by
  unfold Parser.machine; split <;> rfl

/-- the only way `parse` can fail is a panic at a `U2` site; the context invariant is kept -/
theorem parse_total {cert : Cert} (hchk : checkCert env.tbl cert = true) (hs : SinkSafe env.ops W inp U1)
    (hs2 : SinkSafe2 env.ops inp) (hw : Wf env.tbl) (hprov : OpsProv env.ops inp J) (last : Bool) (p : Parser κ)
    (hp : PInv env.tbl inp.length W p) (htp : PTok env.tbl cert p) (hx : XInv J p.x) :
    (∀ e, (Parser.parse env inp last p).2 = .error e → ∃ st, e = .panic st ∧ U2 st) ∧
    XInv J (Parser.parse env inp last p).1.x := by
  obtain ⟨p', k, r1, r2, r3, r4, r5⟩ := parseLoop_reach hchk hs hs2 hw last (XInv J)
    (fun m hm => (runLoop_prov hprov _ m hm).1) (2 * inp.length + 8) p hp htp hx (nu_lt p hp)
  unfold Parser.parse
  rw [r4]
  obtain ⟨g1, g2⟩ := run_sig hchk hs hs2 hw last p' r1 r2
  obtain ⟨v1, v2⟩ := runLoop_prov hprov (defaultFuel inp) (p'.machine last) (by rw [machine_x]; exact r3)
  unfold LoopTok at g2
  simp only [Parser.parseLoop]
  split
  · exact ⟨fun e h => (by cases h), by (try dsimp only); rw [Parser.store_x]; exact v1⟩
  · rename_i d bm hsig
    exact absurd hsig (r5 d bm)
  · rename_i st hsig
    rw [hsig] at g1 g2
    have h1 : ErrOK U2 (.internal st) := ErrOK_U2 g1 g2.2
    have h2 := v2 _ hsig
    exact absurd h1 h2
  · rename_i e hne hsig
    rw [hsig] at g1 g2
    have h1 : ErrOK U2 e := ErrOK_U2 g1 g2.2
    have h2 := v2 _ hsig
    refine ⟨fun e' h => ?_, by rw [Parser.store_x]; exact v1⟩
    simp only [Except.error.injEq] at h
    subst h
    cases e with
    | panic st => exact ⟨st, rfl, h1⟩
    | internal st => exact absurd rfl (hne st)
    | ambiguity t => cases h2
    | handler => cases h2
    | mem => cases h2

end

/-! ### the parsing buffer never hits a limit that is at least the number of bytes it must hold -/

/-- accounting invariant of the arena: everything charged is capacity, the data fits -/
def BufOK (b : Buf) : Prop := b.usage = b.cap ∧ b.data.length ≤ b.cap

theorem Buf.new_ok (max prealloc : Nat) : BufOK (Buf.new max prealloc) ∧ (Buf.new max prealloc).max = max := by
  unfold Buf.new BufOK
  simp

theorem Buf.append_ok (b : Buf) (s : Bytes) (hb : BufOK b) (hm : b.data.length + s.length ≤ b.max) :
    (b.append s).2 = true ∧ BufOK (b.append s).1 ∧ (b.append s).1.max = b.max := by
  obtain ⟨h1, h2⟩ := hb
  unfold Buf.append
  by_cases hc : b.cap - b.data.length < s.length
  · rw [if_pos hc]
    have hinc : (b.increase (s.length + b.data.length - b.cap)).2 = true := by
      simp only [Buf.increase, decide_eq_true_eq]
      omega
    simp only [hinc, if_true]
    refine ⟨trivial, ⟨?_, ?_⟩, rfl⟩
    · simp only [Buf.increase]; omega
    · simp only [List.length_append]; omega
  · rw [if_neg hc]
    refine ⟨rfl, ⟨h1, ?_⟩, rfl⟩
    simp only [List.length_append]
    omega

theorem Buf.initWith_ok (b : Buf) (s : Bytes) (hb : BufOK b) (hm : s.length ≤ b.max) :
    (b.initWith s).2 = true ∧ BufOK (b.initWith s).1 ∧ (b.initWith s).1.max = b.max := by
  unfold Buf.initWith
  exact Buf.append_ok { b with data := [] } s ⟨hb.1, Nat.zero_le _⟩ (by simpa using hm)

variable {γ : Type}

/-- everything the no-failure argument needs between two calls -/
def TInv (w : World γ) (cert : Cert) (s : Stream γ) : Prop :=
  SInv2 w cert s ∧ s.disp.pendingAux = false ∧ s.parser.x.sim.strict = false ∧ BufOK s.buf

section
variable {w : World γ} {cert : Cert}

theorem flushRemaining_pa {d d' : Disp γ} {inp : Bytes} {c : Nat} (h : d.flushRemaining inp c = .ok d') :
    d'.pendingAux = d.pendingAux := by
  unfold Disp.flushRemaining at h
  (repeat' split at h) <;> first | (cases h; done) | (simp only [Except.ok.injEq] at h; subst h; rfl)

theorem Stream.keepTail_total {s : Stream γ} {data chunk : Bytes} {consumed : Nat}
    (hc : consumed ≤ chunk.length) (hbuf : s.hasBuffered = true → s.buf.data = chunk)
    (hb : BufOK s.buf) (hm : data.length ≤ s.buf.max) :
    (s.keepTail w data chunk consumed).2 = .ok () ∧ (s.keepTail w data chunk consumed).1.parser = s.parser ∧
    BufOK (s.keepTail w data chunk consumed).1.buf ∧ (s.keepTail w data chunk consumed).1.buf.max = s.buf.max := by
  unfold Stream.keepTail
  by_cases hlt : consumed < chunk.length
  · simp only [hlt, if_true]
    by_cases hbf : s.hasBuffered = true
    · simp only [hbf, if_true]
      have : s.buf.shift consumed = some { s.buf with data := s.buf.data.drop consumed } := by
        unfold Buf.shift; rw [hbuf hbf]; simp [hc]
      rw [this]
      refine ⟨rfl, rfl, ⟨hb.1, ?_⟩, rfl⟩
      dsimp only
      have := hb.2
      simp only [List.length_drop]
      omega
    · have hb' : s.hasBuffered = false := by simpa using hbf
      simp only [hb', Bool.false_eq_true, if_false]
      obtain ⟨i1, i2, i3⟩ := Buf.initWith_ok s.buf (data.drop consumed) hb (by simp only [List.length_drop]; omega)
      simp only [i1, if_true]
      exact ⟨by first | rfl | trivial, by first | rfl | trivial, i2, i3⟩
  · simp only [hlt, if_false]
    exact ⟨by first | rfl | trivial, by first | rfl | trivial, hb, by first | rfl | trivial⟩

/-- **One `write` over a never-failing controller**: it can only fail by a panic at a `U2` site. -/
theorem Stream.write_total (hn : NeverFails w.ctl) (hw : Wf w.tbl) (hchk : checkCert w.tbl cert = true)
    (s : Stream γ) (data : Bytes) (hs : TInv w cert s) (hbound : s.pending.length + data.length ≤ s.buf.max) :
    (∀ e, (s.write w data).2 = .error e → ∃ st, e = .panic st ∧ U2 st) ∧
    ((s.write w data).2 = .ok () → TInv w cert (s.write w data).1 ∧ (s.write w data).1.buf.max = s.buf.max) := by
  obtain ⟨hs2, hpa, hstr, hbuf⟩ := hs
  have hc := hn.clean
  obtain ⟨_, w2⟩ := Stream.write_post2 hc hw hchk s data hs2
  -- error class and the remaining fields, by walking through `write`
  have key : (∀ e, (s.write w data).2 = .error e → ∃ st, e = .panic st ∧ U2 st) ∧
      ((s.write w data).2 = .ok () → (s.write w data).1.disp.pendingAux = false ∧
        (s.write w data).1.parser.x.sim.strict = false ∧ BufOK (s.write w data).1.buf ∧
        (s.write w data).1.buf.max = s.buf.max) := by
    unfold Stream.write
    cases hcf : s.chunkFor w data with
    | inl s' =>
      exfalso
      unfold Stream.chunkFor at hcf
      by_cases hb : s.hasBuffered = true
      · rw [if_pos hb] at hcf
        have := (Buf.append_ok s.buf data hbuf (by simpa [Stream.pending, hb] using hbound)).1
        dsimp only at hcf
        rw [if_pos this] at hcf
        cases hcf
      · rw [if_neg hb] at hcf; cases hcf
    | inr sc =>
      obtain ⟨s1, chunk⟩ := sc
      obtain ⟨c1, c2, c3, c4, c5⟩ := Stream.chunkFor_inr hcf
      have hbuf1 : BufOK s1.buf ∧ s1.buf.max = s.buf.max := by
        unfold Stream.chunkFor at hcf
        by_cases hb : s.hasBuffered = true
        · rw [if_pos hb] at hcf
          obtain ⟨a1, a2, a3⟩ := Buf.append_ok s.buf data hbuf (by simpa [Stream.pending, hb] using hbound)
          dsimp only at hcf
          rw [if_pos a1] at hcf
          simp only [Sum.inr.injEq, Prod.mk.injEq] at hcf
          rw [← hcf.1]
          exact ⟨a2, a3⟩
        · rw [if_neg hb] at hcf
          simp only [Sum.inr.injEq, Prod.mk.injEq] at hcf
          rw [← hcf.1]
          exact ⟨hbuf, rfl⟩
      dsimp only
      obtain ⟨⟨hrcs, hpinv⟩, hptok⟩ := hs2
      have hlen : (if s.hasBuffered then s.buf.data.length else 0) ≤ chunk.length := by
        rw [c1]
        simp only [Stream.pending, List.length_append]
        split <;> omega
      have hp1 : PInv w.tbl chunk.length (fun d : Disp γ => d.rcs) s1.parser := by
        rw [c2]; exact PInv_mono hpinv hlen
      have hpost := parse_post (env := w.env) (inp := chunk) (dispOps_safe hc) hw false s1.parser hp1
      obtain ⟨t1, t2⟩ := parse_total (env := w.env) (inp := chunk) (cert := cert) hchk (dispOps_safe hc) (dispOps_safe2 hc) hw
        (dispOps_prov hn) false s1.parser hp1 (by rw [c2]; exact hptok)
        (by rw [c2]; exact ⟨hpa, hstr⟩)
      unfold ParsePost at hpost
      cases hpr : (s1.parser.parse w.env chunk false).2 with
      | error e =>
        dsimp only
        refine ⟨fun e' h => ?_, fun h => by cases h⟩
        simp only [Except.error.injEq] at h
        subst h
        exact t1 e hpr
      | ok consumed =>
        rw [hpr] at hpost
        obtain ⟨p1, p2, p3⟩ := hpost
        dsimp only at p1 p2 p3 ⊢
        obtain ⟨d, hfl, hd0⟩ := flushRemaining_ok (Stream.disp { s1 with parser := (s1.parser.parse w.env chunk false).1 })
          chunk consumed p1 p2
        rw [hfl]
        dsimp only
        have hdlen : data.length ≤ s1.buf.max := by rw [hbuf1.2]; omega
        obtain ⟨k1, k2, k3, k4⟩ := Stream.keepTail_total (w := w)
          (s := Stream.setDisp { s1 with parser := (s1.parser.parse w.env chunk false).1 } d)
          (data := data) (chunk := chunk) (consumed := consumed) p2
          (by intro hb; exact c5 (by simpa [Stream.setDisp, c3] using hb)) hbuf1.1 hdlen
        refine ⟨fun e h => (by rw [k1] at h; cases h), fun _ => ?_⟩
        have hpa' : d.pendingAux = false := by
          rw [flushRemaining_pa hfl]
          exact t2.1
        refine ⟨?_, ?_, k3, by rw [k4]; exact hbuf1.2⟩
        · simp only [Stream.disp, k2]
          exact hpa'
        · rw [k2]
          exact t2.2
  refine ⟨key.1, fun h => ⟨⟨w2 h, (key.2 h).1, (key.2 h).2.1, (key.2 h).2.2.1⟩, (key.2 h).2.2.2⟩⟩

/-- **`end` over a never-failing controller**: it can only fail by a panic at a `U2` site. -/
theorem Stream.end_total (hn : NeverFails w.ctl) (hw : Wf w.tbl) (hchk : checkCert w.tbl cert = true)
    (s : Stream γ) (hs : TInv w cert s) :
    ∀ e, (s.end w).2 = .error e → ∃ st, e = .panic st ∧ U2 st := by
  obtain ⟨⟨⟨hrcs, hpinv⟩, hptok⟩, hpa, hstr, hbuf⟩ := hs
  have hc := hn.clean
  intro e he
  unfold Stream.end at he
  have hp1 : PInv w.tbl (if s.hasBuffered then s.buf.data else []).length (fun d : Disp γ => d.rcs) s.parser := by
    split <;> rename_i hb <;> simpa [hb] using hpinv
  have hpost := parse_post (env := w.env) (dispOps_safe hc) hw true s.parser hp1
  obtain ⟨t1, t2⟩ := parse_total (env := w.env) (cert := cert) hchk (dispOps_safe hc) (dispOps_safe2 hc) hw
    (dispOps_prov hn) true s.parser hp1 hptok ⟨hpa, hstr⟩
  unfold ParsePost at hpost
  dsimp only at he
  cases hpr : (s.parser.parse w.env (if s.hasBuffered then s.buf.data else []) true).2 with
  | error e' =>
    rw [hpr] at he
    dsimp only at he
    simp only [Except.error.injEq] at he
    subst he
    exact t1 e' hpr
  | ok consumed =>
    rw [hpr] at hpost he
    obtain ⟨p1, p2, _⟩ := hpost
    dsimp only at he
    exfalso
    unfold Disp.finish at he
    obtain ⟨d, hfl, hd0⟩ := flushRemaining_ok
      (Stream.disp { s with parser := (s.parser.parse w.env (if s.hasBuffered then s.buf.data else []) true).1 })
      (if s.hasBuffered then s.buf.data else []) _ (Nat.le_trans p1 p2) (Nat.le_refl _)
    rw [hfl] at he
    simp only [DRes.ofExcept, DRes.bind] at he
    rw [hn.handleEnd] at he
    cases he

end
end LolHtml.Model
