import LolHtml.Lemmas.ScanLexSim
/-!
C06, scanner ⇄ lexer simulation, the LAST state-function call: when both machines report "end of input",
the machines they were just before `break_on_end_of_input` are related (`XRel`: `break_on_end_of_input`
touches neither the context nor the table state). `StepRel` (`Lemmas/ScanLexSim.lean`) says nothing in that
case; the proofs below walk the same layers (`finishArm`, `afterSeq`, `runSeqArms`, `dispatch`, `consumeStep`,
`stateFn`) once more.
-/
set_option linter.unusedSimpArgs false
set_option linter.unusedVariables false

namespace LolHtml.Model

variable {tbl : Table} {cfg : TagCfg} {inp : Bytes}

/-- the two results are `break_on_end_of_input` of a related pair -/
def XRel (cfg : TagCfg) (P : PLabels) (inp : Bytes) (rs rl : M L × Option Signal) : Prop :=
  ∃ ms0 ml0 : M L, RelAt cfg P ms0 ml0 ∧ rs = breakOnEndOfInput inp ms0 ∧ rl = breakOnEndOfInput inp ml0

/-- both report "end of input" ⇒ `XRel` -/
def EndRel (cfg : TagCfg) (P : PLabels) (inp : Bytes) (rs rl : M L × Option Signal) : Prop :=
  ∀ a b, rs.2 = some (.endOfInput a) → rl.2 = some (.endOfInput b) → XRel cfg P inp rs rl

theorem EndRel.left {P : PLabels} {rs rl : M L × Option Signal} (h : Signal.isEnd rs.2 = false) : EndRel cfg P inp rs rl := by
  intro a b h1 _
  rw [h1] at h
  simp [Signal.isEnd] at h

theorem EndRel.right {P : PLabels} {rs rl : M L × Option Signal} (h : Signal.isEnd rl.2 = false) : EndRel cfg P inp rs rl := by
  intro a b _ h1
  rw [h1] at h
  simp [Signal.isEnd] at h

theorem adjust_x {κ : Type} (m : M κ) : (adjustForNextInput m).x = m.x ∧ (adjustForNextInput m).c = m.c := by
  unfold adjustForNextInput
  split
  · exact ⟨rfl, rfl⟩
  · split <;> exact ⟨rfl, rfl⟩

theorem break_x {κ : Type} (m : M κ) :
    (breakOnEndOfInput inp m).1.x = m.x ∧ (breakOnEndOfInput inp m).1.c.state = m.c.state := by
  unfold breakOnEndOfInput
  dsimp only
  have hm' : (if m.c.isLast = true then m else adjustForNextInput m).x = m.x ∧
      (if m.c.isLast = true then m else adjustForNextInput m).c = m.c := by
    split
    · exact ⟨rfl, rfl⟩
    · exact adjust_x m
  generalize (if m.c.isLast = true then m else adjustForNextInput m) = m' at hm' ⊢
  split
  · exact ⟨hm'.1, by rw [hm'.2]⟩
  · exact ⟨hm'.1, by simp only; rw [hm'.2]⟩

theorem break_end {P : PLabels} (ms ml : M L) (h : RelAt cfg P ms ml) :
    EndRel cfg P inp (breakOnEndOfInput inp ms) (breakOnEndOfInput inp ml) :=
  fun _ _ _ _ => ⟨ms, ml, h, rfl, rfl⟩

theorem finishArm_some {κ : Type} (r : M κ × Option Signal × SeqEnd) (sig : Signal) (h : r.2.1 = some sig) :
    finishArm inp r = (r.1, some sig) := by
  unfold finishArm; simp only [h]

theorem finishArm_trans {κ : Type} (r : M κ × Option Signal × SeqEnd) (h1 : r.2.1 = none) (h2 : r.2.2 = .transitioned) :
    finishArm inp r = (r.1, none) := by
  unfold finishArm; simp only [h1, h2]

theorem finishArm_fell {κ : Type} (r : M κ × Option Signal × SeqEnd) (h1 : r.2.1 = none) (h2 : r.2.2 = .fell) :
    finishArm inp r = breakOnEndOfInput inp r.1 := by
  unfold finishArm; simp only [h1, h2]

theorem finishArm_end (P : PLabels) (b : Body) (self : StateId) (hok : bodyOkP tbl P self b = true) (ms ml : M L)
    (h : Rel cfg (P.at self) ms ml) (hst : ms.c.state = self) :
    EndRel cfg P inp (finishArm inp (runBody (envS tbl cfg) inp b ms)) (finishArm inp (runBody (envL tbl cfg) inp b ml)) := by
  have hS := (runBody_scan (env := envS tbl cfg) (inp := inp) b ms (Rel_kinds h).1).1
  have hL := (runBody_lex (env := envL tbl cfg) (inp := inp) b ml (Rel_kinds h).2).1
  cases hs : (runBody (envS tbl cfg) inp b ms).2.1 with
  | some sigS =>
    rw [finishArm_some _ _ hs]
    exact EndRel.left (by rw [hs] at hS; exact hS)
  | none =>
    cases hl : (runBody (envL tbl cfg) inp b ml).2.1 with
    | some sigL =>
      rw [finishArm_some (inp := inp) (runBody (envL tbl cfg) inp b ml) _ hl]
      exact EndRel.right (by rw [hl] at hL; exact hL)
    | none =>
      obtain ⟨hrel, hend⟩ := runBody_rel P b self hok ms ml h hst hs hl
      cases h2 : (runBody (envS tbl cfg) inp b ms).2.2 with
      | transitioned =>
        rw [finishArm_trans _ hs h2]
        exact EndRel.left rfl
      | fell =>
        rw [finishArm_fell _ hs h2, finishArm_fell _ hl (by rw [← hend]; exact h2)]
        exact break_end _ _ hrel

theorem afterSeq_end (P : PLabels) (self : StateId) (ch : Option UInt8) (arms : List Arm)
    (hsub : ∀ a ∈ arms, bodyOkP tbl P self a.body = true) (ms ml : M L)
    (h : Rel cfg (P.at self) ms ml) (hst : ms.c.state = self) :
    EndRel cfg P inp (afterSeq (envS tbl cfg) inp ch arms ms) (afterSeq (envL tbl cfg) inp ch arms ml) := by
  obtain ⟨f1, f2, f3, f4, f5, f6⟩ := Rel_fields h
  have hat : RelAt cfg P ms ml := by unfold RelAt; rw [hst]; exact h
  unfold afterSeq
  have hfa : findArm (envS tbl cfg).tbl ms.c ch arms = findArm (envL tbl cfg).tbl ml.c ch arms :=
    findArm_congr ch arms f5 f2
  rw [hfa]
  cases hf : findArm (envL tbl cfg).tbl ml.c ch arms with
  | none => exact EndRel.left rfl
  | some arm =>
    have harm := hsub arm (findArm_sel hf).1
    dsimp only
    split
    · exact finishArm_end P arm.body self harm ms ml h hst
    · rw [f2]
      split
      · exact finishArm_end P arm.body self harm ms ml h hst
      · exact break_end _ _ hat
    · exact EndRel.left (runBody_scan (env := envS tbl cfg) (inp := inp) arm.body ms (Rel_kinds h).1).1

theorem runSeqArms_end (P : PLabels) (self : StateId) (ch : Option UInt8) (arms : List Arm)
    (hsub : ∀ a ∈ arms, bodyOkP tbl P self a.body = true) (ms ml : M L)
    (h : Rel cfg (P.at self) ms ml) (hst : ms.c.state = self) :
    match runSeqArms (envS tbl cfg) inp ch arms ms, runSeqArms (envL tbl cfg) inp ch arms ml with
    | .inl rs, .inl rl => EndRel cfg P inp rs rl
    | _, _ => True := by
  induction arms generalizing ms ml with
  | nil => simp only [runSeqArms]
  | cons arm rest ih =>
    have hrest : ∀ a ∈ rest, bodyOkP tbl P self a.body = true := fun a ha => hsub a (by simp [ha])
    have harm := hsub arm (by simp)
    by_cases hseq : ∃ bytes ic, arm.pat = .chSeq bytes ic
    · obtain ⟨bytes, ic, hpat⟩ := hseq
      have hskip := ih hrest (leaveSeq (enterSeq ms)) (leaveSeq (enterSeq ml))
        (Rel_seqMark (Rel_seqMark h).1).2 (by rw [(seqMark_c _).2, (seqMark_c _).1]; exact hst)
      cases bytes with
      | nil =>
        rw [runSeqArms_cons_nil ch arm rest ms ic hpat, runSeqArms_cons_nil ch arm rest ml ic hpat]
        exact hskip
      | cons e0 es =>
        rw [runSeqArms_cons_cons ch arm rest ms ic e0 es hpat, runSeqArms_cons_cons ch arm rest ml ic e0 es hpat]
        obtain ⟨f1, f2, _⟩ := Rel_fields (Rel_seqMark h).1
        rw [firstMatch_congr (inp := inp) (enterSeq ms) (enterSeq ml) ch e0 es ic f2 f1]
        cases firstMatch inp (enterSeq ml) ch e0 es ic with
        | needMore =>
          exact break_end _ _ (by unfold RelAt; rw [(seqMark_c _).1, hst]; exact (Rel_seqMark h).1)
        | mismatch => exact hskip
        | matched =>
          dsimp only
          have hrel2 := (Rel_seqMark (Rel_common (fun c => { c with nextPos := c.nextPos + es.length })
            (fun _ _ _ => rfl) (Rel_seqMark h).1)).2
          exact EndRel.left (runBody_scan (env := envS tbl cfg) (inp := inp) arm.body _ (Rel_kinds hrel2).1).1
    · have hnp : ∀ b ic, arm.pat ≠ .chSeq b ic := fun b ic hp => hseq ⟨b, ic, hp⟩
      rw [runSeqArms_cons_other ch arm rest ms hnp, runSeqArms_cons_other ch arm rest ml hnp]
      exact ih hrest ms ml h hst

theorem dispatch_end (P : PLabels) (self : StateId) (ch : Option UInt8) (arms : List Arm)
    (hsub : ∀ a ∈ arms, bodyOkP tbl P self a.body = true) (ms ml : M L)
    (h : Rel cfg (P.at self) ms ml) (hst : ms.c.state = self) :
    EndRel cfg P inp (dispatch (envS tbl cfg) inp ch arms ms) (dispatch (envL tbl cfg) inp ch arms ml) := by
  rw [dispatch_eq, dispatch_eq]
  have hshape := runSeqArms_rel (tbl := tbl) (cfg := cfg) (inp := inp) P self ch arms hsub ms ml h hst
  have hend := runSeqArms_end (tbl := tbl) (cfg := cfg) (inp := inp) P self ch arms hsub ms ml h hst
  cases hs : runSeqArms (envS tbl cfg) inp ch arms ms with
  | inl rs =>
    cases hl : runSeqArms (envL tbl cfg) inp ch arms ml with
    | inl rl => rw [hs, hl] at hend; exact hend
    | inr ml' => rw [hs, hl] at hshape; exact hshape.elim
  | inr ms' =>
    cases hl : runSeqArms (envL tbl cfg) inp ch arms ml with
    | inl rl => rw [hs, hl] at hshape; exact hshape.elim
    | inr ml' =>
      rw [hs, hl] at hshape
      exact afterSeq_end P self ch arms hsub ms' ml' hshape.1 hshape.2

theorem consumeStep_end (P : PLabels) (sd : StateDef) (self : StateId) (hok : stateOkP tbl P self sd = true) (ms ml : M L)
    (h : Rel cfg (P.at self) ms ml) (hst : ms.c.state = self) :
    EndRel cfg P inp (consumeStep (envS tbl cfg) inp sd ms) (consumeStep (envL tbl cfg) inp sd ml) := by
  simp only [stateOkP, Bool.and_eq_true, List.all_eq_true] at hok
  have hsub : ∀ a ∈ sd.arms, bodyOkP tbl P self a.body = true := hok.2
  obtain ⟨f1, _⟩ := Rel_fields h
  unfold consumeStep
  rw [f1]
  have key : ∀ k : Nat, Rel cfg (P.at self) { ms with c := { ms.c with nextPos := ml.c.nextPos + k } }
      { ml with c := { ml.c with nextPos := ml.c.nextPos + k } } := by
    intro k
    have := Rel_common (fun c => { c with nextPos := c.nextPos + k }) (fun _ _ _ => rfl) h
    rw [f1] at this
    exact this
  split
  · dsimp only
    split
    · rename_i p _
      have := key (1 + p)
      simp only [← Nat.add_assoc] at this
      exact dispatch_end P self _ sd.arms hsub _ _ this hst
    · have := key (1 + (inp.drop ml.c.nextPos).length)
      simp only [← Nat.add_assoc] at this
      exact dispatch_end P self _ sd.arms hsub _ _ this hst
  · exact dispatch_end P self _ sd.arms hsub _ _ (key 1) hst

/-- **The last state-function call**: if both machines report "end of input", the machines just before
`break_on_end_of_input` were related. -/
theorem stateFn_end (P : PLabels) (hok : PhaseOk tbl P = true) (ms ml : M L) (h : RelAt cfg P ms ml) :
    EndRel cfg P inp (stateFn (envS tbl cfg) inp ms) (stateFn (envL tbl cfg) inp ml) := by
  unfold RelAt at h
  obtain ⟨_, _, f3, _⟩ := Rel_fields h
  rw [stateFn_preConsume, stateFn_preConsume]
  show EndRel cfg P inp (match tbl.state? ms.c.state with | none => _ | some sd => _)
    (match tbl.state? ml.c.state with | none => _ | some sd => _)
  rw [← f3]
  cases hsd : tbl.state? ms.c.state with
  | none => exact EndRel.left rfl
  | some sd =>
    have hst : stateOkP tbl P ms.c.state sd = true := by
      have := allIdxP_get (k := 0) hok hsd
      simpa using this
    obtain ⟨p1, p2, p3⟩ := preStep_rel (tbl := tbl) (cfg := cfg) (inp := inp) P sd ms.c.state hst ms ml h rfl
    dsimp only
    cases hps : (preStep (envS tbl cfg) inp sd ms).2 with
    | some sig =>
      dsimp only
      exact EndRel.left (by rw [hps] at p1; exact p1)
    | none =>
      cases hpl : (preStep (envL tbl cfg) inp sd ml).2 with
      | some sig' =>
        dsimp only
        exact EndRel.right (by rw [hpl] at p2; exact p2)
      | none =>
        obtain ⟨hrel, hstate⟩ := p3 hps hpl
        dsimp only
        exact consumeStep_end P sd ms.c.state hst _ _ hrel hstate

/-- the parsing loops: both end with "end of input" ⇒ `XRel` -/
theorem runLoop_end (P : PLabels) (hok : PhaseOk tbl P = true) (n : Nat) (ms ml ms' ml' : M L) (h : RelAt cfg P ms ml)
    (a b : Nat) (hs : runLoop (envS tbl cfg) inp n ms = (ms', .endOfInput a))
    (hl : runLoop (envL tbl cfg) inp n ml = (ml', .endOfInput b)) :
    XRel cfg P inp (ms', some (.endOfInput a)) (ml', some (.endOfInput b)) := by
  induction n generalizing ms ml with
  | zero => simp [runLoop] at hs
  | succ n ih =>
    have hstep := stateFn_rel (tbl := tbl) (cfg := cfg) (inp := inp) P hok ms ml h
    have hendr := stateFn_end (tbl := tbl) (cfg := cfg) (inp := inp) P hok ms ml h
    simp only [runLoop] at hs hl
    unfold StepRel at hstep
    cases h1 : (stateFn (envS tbl cfg) inp ms).2 with
    | none =>
      cases h2 : (stateFn (envL tbl cfg) inp ml).2 with
      | none =>
        simp only [h1, h2] at hs hl hstep
        exact ih _ _ hstep hs hl
      | some sigL =>
        simp only [h1, h2] at hs hl hstep
        simp only [Prod.mk.injEq] at hl
        rw [hl.2] at hstep
        simp [Signal.isEnd] at hstep
    | some sigS =>
      cases h2 : (stateFn (envL tbl cfg) inp ml).2 with
      | none =>
        simp only [h1, h2] at hs hl hstep
        simp only [Prod.mk.injEq] at hs
        rw [hs.2] at hstep
        simp [Signal.isEnd] at hstep
      | some sigL =>
        simp only [h1, h2] at hs hl
        simp only [Prod.mk.injEq] at hs hl
        have := hendr a b (by rw [h1, hs.2]) (by rw [h2, hl.2])
        have e1 : stateFn (envS tbl cfg) inp ms = (ms', some (.endOfInput a)) := Prod.ext hs.1 (by rw [h1, hs.2])
        have e2 : stateFn (envL tbl cfg) inp ml = (ml', some (.endOfInput b)) := Prod.ext hl.1 (by rw [h2, hl.2])
        rw [e1, e2] at this
        exact this

/-! ### across the break: when both machines consume the same number of bytes, the resumed machines are related -/

theorem break_eq_of_end {κ : Type} (m : M κ) (a : Nat) (h : (breakOnEndOfInput inp m).2 = some (.endOfInput a)) :
    (breakOnEndOfInput inp m).1 =
      { (if m.c.isLast = true then m else adjustForNextInput m) with c := { m.c with nextPos := m.c.nextPos - 1 - a } } ∧
    consumedByteCount inp m = a := by
  unfold breakOnEndOfInput at h ⊢
  dsimp only at h ⊢
  have hm' : (if m.c.isLast = true then m else adjustForNextInput m).c = m.c := by
    split
    · rfl
    · exact (adjust_x m).2
  generalize (if m.c.isLast = true then m else adjustForNextInput m) = m' at h hm' ⊢
  by_cases hu : m'.c.nextPos = 0 ∨ m'.c.nextPos - 1 < consumedByteCount inp m
  · rw [if_pos hu] at h
    simp at h
  · rw [if_neg hu] at h ⊢
    simp only [Option.some.injEq, Signal.endOfInput.injEq] at h
    refine ⟨?_, h⟩
    rw [hm', h]

theorem adjust_scan {κ : Type} (c : Common) (s : ScanRegs) (x : Ctx κ) (b : Bool) :
    ∃ s', (if b = true then (⟨c, .scanner s, x⟩ : M κ) else adjustForNextInput ⟨c, .scanner s, x⟩) = ⟨c, .scanner s', x⟩ ∧
      s'.isInEndTag = s.isInEndTag ∧ s'.tagNameHash = s.tagNameHash ∧ s'.pendingTextTypeChange = s.pendingTextTypeChange := by
  cases b with
  | true => exact ⟨s, rfl, rfl, rfl, rfl⟩
  | false =>
    simp only [Bool.false_eq_true, if_false]
    unfold adjustForNextInput
    dsimp only
    cases s.tagStart with
    | none => exact ⟨s, rfl, rfl, rfl, rfl⟩
    | some ts => exact ⟨_, rfl, rfl, rfl, rfl⟩

theorem tagKey_align (t : TagOutline) (o : Nat) : tagKey (t.align o) = tagKey t := by
  cases t <;> rfl

theorem adjust_lex {κ : Type} (c : Common) (l : LexRegs) (x : Ctx κ) (b : Bool) :
    ∃ l', (if b = true then (⟨c, .lexer l, x⟩ : M κ) else adjustForNextInput ⟨c, .lexer l, x⟩) = ⟨c, .lexer l', x⟩ ∧
      l'.curTag.map tagKey = l.curTag.map tagKey ∧ l'.fd = l.fd := by
  cases b with
  | true => exact ⟨l, rfl, rfl, rfl⟩
  | false =>
    simp only [Bool.false_eq_true, if_false]
    unfold adjustForNextInput
    dsimp only
    refine ⟨_, rfl, ?_, rfl⟩
    dsimp only
    cases l.curTag with
    | none => rfl
    | some t => simp only [Option.map_some, tagKey_align]

/-- **across the break**: related machines that break reporting the SAME consumed byte count resume related -/
theorem break_rel {P : PLabels} (ms ml : M L) (h : RelAt cfg P ms ml) (a : Nat)
    (hs : (breakOnEndOfInput inp ms).2 = some (.endOfInput a)) (hl : (breakOnEndOfInput inp ml).2 = some (.endOfInput a)) :
    RelAt cfg P (breakOnEndOfInput inp ms).1 (breakOnEndOfInput inp ml).1 := by
  obtain ⟨e1, _⟩ := break_eq_of_end (inp := inp) ms a hs
  obtain ⟨e2, _⟩ := break_eq_of_end (inp := inp) ml a hl
  rw [e1, e2]
  unfold RelAt at h ⊢
  obtain ⟨cs, s, xs, cl, l, xl, rfl, rfl, hc⟩ := Rel_destruct h
  obtain ⟨s', es, s1, s2, s3⟩ := adjust_scan cs s xs cs.isLast
  obtain ⟨l', el, l1, l2⟩ := adjust_lex cl l xl cl.isLast
  dsimp only at es el ⊢
  rw [es, el]
  have h1 := Conc_common (cfg := cfg) (fun c => { c with nextPos := c.nextPos - 1 - a }) (fun _ _ _ => rfl) hc
  have h2 := Conc_congr_scan (s' := s') h1 s1 s2 s3
  exact Conc_congr_lex (l' := l') (xl' := xl) h2 l1 l2 rfl rfl

end LolHtml.Model
