import LolHtml.Lemmas.TbTree
/-!
The invariant of `Spec.TreeBuilder` runs over HTML-namespace token sequences without `template` start
tags (current standard: `legacySelect = false`), and its preservation by every rule.

`b` = "a `frameset` start tag may have been acted upon" (the ambiguity guard is in `InOrAfterFrameset`).
-/
namespace LolHtml.Spec.TreeBuilder
open LolHtml.Model (Ns)

/-- stack predicate: HTML namespace, not `template`, not `colgroup`; not `frameset` unless `b` -/
def PNoCol (b : Bool) : NP := fun n ns => ns = .html ∧ n ≠ .template ∧ n ≠ .colgroup ∧ (b = false → n ≠ .frameset)

theorem fmtOk_PNoCol (b : Bool) : FmtOk (PNoCol b) := by
  intro n hn
  cases n <;> simp [formattingNames, Name.isIn] at hn <;> simp [PNoCol]

def framesetModes : List Mode := [.inFrameset, .afterFrameset, .afterAfterFrameset]

/-- facts about insertion mode `m` and original insertion mode `o` -/
def MF (b : Bool) (m o : Mode) : Prop :=
  m ∉ [Mode.inSelect, .inSelectInTable, .inTemplate] ∧
  (m = .inTableText → o ∈ [Mode.inTable, .inTableBody, .inRow]) ∧
  (m = .text → o ∉ [Mode.text, .inTableText, .inSelect, .inSelectInTable, .inTemplate, .inColumnGroup]) ∧
  (b = false → m ∉ framesetModes ∧ (m = .text → o ∉ framesetModes))

def HeadOk (s : State) : Prop := ∀ h, s.headPtr = some h → h.ns = .html ∧ h.name = .head

/-- the invariant in every insertion mode except "in column group" -/
structure Inv (b : Bool) (s : State) : Prop where
  tree : TreeOk (PNoCol b) s.tree
  tmodes : s.tmodes = []
  head : HeadOk s
  modes : MF b s.mode s.origMode
  notCol : s.mode ≠ .inColumnGroup

/-- the invariant in "in column group": the current node is the only `colgroup` on the stack -/
structure InvCol (b : Bool) (s : State) : Prop where
  mode : s.mode = .inColumnGroup
  top : ∃ e rest, s.tree.stack = e :: rest ∧ e.isHtml .colgroup = true ∧
          TreeOk (PNoCol b) { s.tree with stack := rest }
  tmodes : s.tmodes = []
  head : HeadOk s

def GInv (b : Bool) (s : State) : Prop := Inv b s ∨ InvCol b s

/-- what a rule may return -/
def InvPost (b : Bool) : Res → Prop
  | .done s' _ => GInv b s'
  | .reprocess s' h => GInv b s' ∧ h = false
  | .impossible _ => False

theorem Inv.onTree {b : Bool} {s : State} (h : Inv b s) (f : Tree → Tree) (hf : TreeOk (PNoCol b) (f s.tree)) :
    Inv b (s.onTree f) := ⟨hf, h.tmodes, h.head, h.modes, h.notCol⟩

end LolHtml.Spec.TreeBuilder
