/-
Helper lemmas for the C-API model: every entry point's effect on the C-side state is a sequence of
*primitive ledger steps by the calling thread* (`Prim`, `Reach`). The invariants of C17/C18 are then
proved once per primitive.
-/
import LolHtml.Model.CApi

namespace LolHtml.Lemmas.CApi
open LolHtml.Model.CApi

variable {R : RApi} {P : Kind → Prop}

/-! ### The `Res` monad -/

@[simp] theorem Res.bind_ok {α β : Type} (x : Res α) (f : α → Res β) (b : β) :
    (x >>= f) = .ok b ↔ ∃ a, x = .ok a ∧ f a = .ok b := by
  cases x <;> simp [bind]

@[simp] theorem Res.pure_ok {α : Type} (a b : α) : (pure a : Res α) = .ok b ↔ a = b := by
  simp [pure]

@[simp] theorem require_ok (b : Bool) (w : String) (u : Unit) : require b w = .ok u ↔ b = true := by
  cases b <;> simp [require]

/-! ### Primitive steps -/

/-- Other threads' `LAST_ERROR` slots are the same in `e` and `e'`. -/
def ErrFrame (t : Tid) (e e' : Env R) : Prop := ∀ t', t' ≠ t → e'.lastErr t' = e.lastErr t'

/-- Kinds of objects a call-back can create or modify (there is no entry point taking a builder,
    selector or rewriter that can be called on a rewritable unit). -/
def HKind (k : Kind) : Prop := k = .str ∨ k = .attrIter ∨ k = .shandler

/-- No restriction (top-level calls). -/
def AnyKind (_ : Kind) : Prop := True

/-- One primitive effect of thread `t` on the C-side state; only objects whose kind satisfies `P` are
    created or modified. -/
inductive Prim (P : Kind → Prop) (t : Tid) : Env R → Env R → Prop
  /-- anything that leaves ledger and drop log alone (variables, counters, sink, log, own error slot) -/
  | frame {e e'} : e'.objs = e.objs → e'.drops = e.drops → ErrFrame t e e' → Prim P t e e'
  /-- `Box::new` -/
  | alloc {e e'} (p : Payload R) : P p.kind → e'.objs = e.objs ++ [⟨.live, p⟩] → e'.drops = e.drops →
      ErrFrame t e e' → Prim P t e e'
  /-- a live (not freed) object changes state/payload, keeping its kind; a boxed streaming handler is
      never freed this way and keeps its payload -/
  | upd {e e'} (h : Nat) (o o' : Obj R) : P o.p.kind → e.objs[h]? = some o → o.st ≠ .freed →
      o'.p.kind = o.p.kind → (o.p.kind = .shandler → o'.st ≠ .freed ∧ o'.p = o.p) →
      e'.objs = e.objs.set h o' → e'.drops = e.drops → ErrFrame t e e' → Prim P t e e'
  /-- `Drop for CStreamingHandler`: the box goes, `drop_callback` runs if present -/
  | dropH {e e'} (sid : Nat) (st : St) (script : Nat) (hasDrop : Bool) : P .shandler →
      e.objs[sid]? = some ⟨st, .shandler script hasDrop⟩ → st ≠ .freed →
      e'.objs = e.objs.set sid ⟨.freed, .shandler script hasDrop⟩ →
      e'.drops = (if hasDrop then sid :: e.drops else e.drops) → ErrFrame t e e' → Prim P t e e'

inductive Reach (P : Kind → Prop) (t : Tid) : Env R → Env R → Prop
  | refl (e) : Reach P t e e
  | step {e e1 e2} : Prim P t e e1 → Reach P t e1 e2 → Reach P t e e2

theorem Reach.single {t : Tid} {e e' : Env R} (h : Prim P t e e') : Reach P t e e' := .step h (.refl _)

theorem Reach.trans {t : Tid} {e1 e2 e3 : Env R} (h1 : Reach P t e1 e2) (h2 : Reach P t e2 e3) :
    Reach P t e1 e3 := by
  induction h1 with
  | refl => exact h2
  | step p _ ih => exact .step p (ih h2)

theorem Reach.snoc {t : Tid} {e1 e2 e3 : Env R} (h1 : Reach P t e1 e2) (h2 : Prim P t e2 e3) :
    Reach P t e1 e3 := h1.trans (.single h2)

theorem ErrFrame.rfl' {t : Tid} {e e' : Env R} (h : e'.lastErr = e.lastErr) : ErrFrame t e e' := by
  intro t' _; rw [h]

/-! ### Basic operations are primitive steps -/

theorem frame_of_eq {t : Tid} {e e' : Env R} (h1 : e'.objs = e.objs) (h2 : e'.drops = e.drops)
    (h3 : e'.lastErr = e.lastErr) : Reach P t e e' := .single (.frame h1 h2 (ErrFrame.rfl' h3))

theorem out_reach (t : Tid) (e : Env R) (r : CRes) : Reach P t e (e.out r) := frame_of_eq rfl rfl rfl
theorem setVar_reach (t : Tid) (e : Env R) (v : Nat) (h : Option Nat) : Reach P t e (e.setVar v h) :=
  frame_of_eq rfl rfl rfl

theorem saveLastError_reach (t : Tid) (e : Env R) (m : ErrMsg) : Reach P t e (saveLastError e t m) :=
  .single (.frame rfl rfl (by intro t' ht; simp [saveLastError, ht]))

theorem allocStr_reach (t : Tid) (hP : P .str) (e : Env R) (dst : Nat) (v : Bytes) :
    Reach P t e (allocStr e dst v) :=
  .single (.alloc .str hP (by simp [allocStr, alloc, Env.setVar, Env.out]) (by simp [allocStr, alloc, Env.setVar, Env.out])
    (by intro t' _; simp [allocStr, alloc, Env.setVar, Env.out]))

theorem nullStr_reach (t : Tid) (e : Env R) (dst : Nat) : Reach P t e (nullStr e dst) :=
  frame_of_eq rfl rfl rfl

theorem takeLastError_reach (t : Tid) (hP : P .str) (e : Env R) (dst : Nat) :
    Reach P t e (takeLastError e t dst) := by
  unfold takeLastError
  split
  · exact frame_of_eq rfl rfl rfl
  · exact .single (.alloc .str hP (by simp [alloc, Env.setVar, Env.out]) (by simp [alloc, Env.setVar, Env.out])
      (by intro t' ht; simp [alloc, Env.setVar, Env.out, ht]))

theorem release_reach (t : Tid) (e e' : Env R) (v : Nat) (k : Kind) (h : Nat) (o : Obj R)
    (hk : k ≠ .shandler) (hP : P k) (hr : release e v k = .ok (e', h, o)) : Reach P t e e' := by
  unfold release at hr
  split at hr
  · simp at hr
  · rename_i h0 _
    split at hr
    · simp at hr
    · rename_i o0 ho
      split at hr
      · simp at hr
      · rename_i hkind
        split at hr
        · simp at hr
        · rename_i hst
          simp only [Res.ok.injEq, Prod.mk.injEq] at hr
          obtain ⟨rfl, rfl, rfl⟩ := hr
          have hkind' : o0.p.kind = k := by simpa using hkind
          exact .single (.upd h0 o0 { o0 with st := .freed } (hkind' ▸ hP) ho hst rfl
            (fun hs => absurd (hkind' ▸ hs) hk) rfl rfl (ErrFrame.rfl' rfl))

theorem strFree_reach (t : Tid) (hP : P .str) (pol : Policy) (e e' : Env R) (v : Nat)
    (h : strFree pol e v = .ok e') : Reach P t e e' := by
  unfold strFree at h
  split at h
  · simp at h; subst h; exact out_reach t e _
  · simp only [Res.bind_ok, require_ok, Res.pure_ok] at h
    obtain ⟨_, _, ⟨e1, h1, o1⟩, hrel, rfl⟩ := h
    exact (release_reach t e e1 v .str h1 o1 (by decide) hP hrel).trans (out_reach t _ _)

theorem releaseHandler_reach (t : Tid) (hP : P .shandler) (e e' : Env R) (sid : Nat)
    (h : releaseHandler e sid = .ok e') : Reach P t e e' := by
  unfold releaseHandler at h
  split at h
  · rename_i st script hasDrop ho
    split at h
    · simp at h
    · rename_i hst
      simp only [Res.ok.injEq] at h
      subst h
      refine .single (.dropH sid st script hasDrop hP ho hst ?_ ?_ ?_)
      · cases hasDrop <;> simp [Env.setObj]
      · cases hasDrop <;> simp [Env.setObj]
      · intro t' _; cases hasDrop <;> simp [Env.setObj]
  · simp at h

theorem applyEvents_reach (t : Tid) (hP : P .shandler) (evs : List REv) (e e' : Env R)
    (h : applyEvents e evs = .ok e') :
    Reach P t e e' := by
  induction evs generalizing e with
  | nil => simp [applyEvents] at h; subst h; exact .refl _
  | cons ev rest ih =>
    cases ev with
    | emit b =>
      simp only [applyEvents] at h
      exact (frame_of_eq (e := e) (e' := { e with sink := b :: e.sink }) rfl rfl rfl).trans (ih _ h)
    | dropHandler sid =>
      simp only [applyEvents, Res.bind_ok] at h
      obtain ⟨e1, h1, h2⟩ := h
      exact (releaseHandler_reach t hP e e1 sid h1).trans (ih _ h2)

theorem dropAll_reach (t : Tid) (hP : P .shandler) (l : List Nat) (e e' : Env R)
    (h : dropAll e l = .ok e') :
    Reach P t e e' := by
  induction l generalizing e with
  | nil => simp [dropAll] at h; subst h; exact .refl _
  | cons sid rest ih =>
    simp only [dropAll, Res.bind_ok] at h
    obtain ⟨e1, h1, h2⟩ := h
    exact (releaseHandler_reach t hP e e1 sid h1).trans (ih _ h2)

theorem hk_str : HKind .str := .inl rfl
theorem hk_iter : HKind .attrIter := .inr (.inl rfl)
theorem hk_sh : HKind .shandler := .inr (.inr rfl)

/-! ### snoc-forms, for goal-directed search -/

theorem reach_out {t : Tid} {e e1 : Env R} (r : CRes) (h : Reach P t e e1) : Reach P t e (e1.out r) :=
  h.trans (out_reach t _ _)
theorem reach_save {t : Tid} {e e1 : Env R} (m : ErrMsg) (h : Reach P t e e1) :
    Reach P t e (saveLastError e1 t m) := h.trans (saveLastError_reach t _ _)
theorem reach_allocStr {t : Tid} {e e1 : Env R} (dst : Nat) (v : Bytes) (h : Reach HKind t e e1) :
    Reach HKind t e (allocStr e1 dst v) := h.trans (allocStr_reach t hk_str _ _ _)
theorem reach_nullStr {t : Tid} {e e1 : Env R} (dst : Nat) (h : Reach P t e e1) :
    Reach P t e (nullStr e1 dst) := h.trans (nullStr_reach t _ _)
theorem reach_setVar {t : Tid} {e e1 : Env R} (v : Nat) (x : Option Nat) (h : Reach P t e e1) :
    Reach P t e (e1.setVar v x) := h.trans (setVar_reach t _ _ _)
theorem reach_take {t : Tid} {e e1 : Env R} (dst : Nat) (h : Reach HKind t e e1) :
    Reach HKind t e (takeLastError e1 t dst) := h.trans (takeLastError_reach t hk_str _ _)

/-- Close a goal `Reach HKind t e0 (f (g (… e1)))` from a hypothesis `Reach HKind t e0 e1`. -/
macro "reach_tac" : tactic => `(tactic|
  repeat (first
    | assumption
    | exact Reach.refl _
    | apply reach_allocStr
    | apply reach_nullStr
    | apply reach_take
    | apply reach_save
    | apply reach_out
    | apply reach_setVar))

theorem deref_some {e : Env R} {v : Nat} {k : Kind} {h : Nat} {o : Obj R}
    (hd : deref e v k = .ok (h, o)) : e.objs[h]? = some o ∧ o.st ≠ .freed ∧ o.p.kind = k := by
  unfold deref at hd
  split at hd
  · simp at hd
  · split at hd
    · simp at hd
    · rename_i o0 ho
      split at hd
      · simp at hd
      · rename_i hk
        split at hd
        · simp at hd
        · rename_i hst
          simp only [Res.ok.injEq, Prod.mk.injEq] at hd
          obtain ⟨rfl, rfl⟩ := hd
          exact ⟨ho, hst, by simpa using hk⟩

theorem deref_var {e : Env R} {v : Nat} {k : Kind} {h : Nat} {o : Obj R}
    (hd : deref e v k = .ok (h, o)) : e.vars v = some h := by
  unfold deref at hd
  split at hd
  · simp at hd
  · rename_i h0 hv
    split at hd
    · simp at hd
    · split at hd
      · simp at hd
      · split at hd
        · simp at hd
        · simp only [Res.ok.injEq, Prod.mk.injEq] at hd
          rw [hv, hd.1]

theorem callR_reach (t : Tid) (pol : Policy) (s s' : HState R) (op : ROp) (r : RRes)
    (h : callR pol s op = .ok (s', r)) : Reach HKind t s.env s'.env := by
  unfold callR at h
  split at h
  · split at h
    · rename_i env hd
      simp only [Res.ok.injEq, Prod.mk.injEq] at h
      obtain ⟨rfl, rfl⟩ := h
      refine (dropAll_reach t hk_sh _ _ _ hd).trans ?_
      dsimp only
      split
      · exact frame_of_eq rfl rfl rfl
      · exact .refl _
    · simp at h
    · simp at h
  · simp at h

theorem cUnitOp_reach (t : Tid) (pol : Policy) (s s' : HState R) (op : COp)
    (h : cUnitOp pol t s op = .ok s') : Reach HKind t s.env s'.env := by
  cases op with
  | strGet dst f =>
    simp only [cUnitOp, Res.bind_ok] at h
    obtain ⟨⟨s1, r⟩, hc, h⟩ := h
    have hc := callR_reach t pol s s1 _ r hc
    split at h
    · simp only [Res.pure_ok] at h; subst h; reach_tac
    · simp at h
  | optStrGet dst f args =>
    simp only [cUnitOp] at h
    split at h
    · simp only [Res.pure_ok] at h; subst h; reach_tac
    · simp only [Res.bind_ok] at h
      obtain ⟨⟨s1, r⟩, hc, h⟩ := h
      have hc := callR_reach t pol s s1 _ r hc
      split at h
      · simp only [Res.pure_ok] at h; subst h; reach_tac
      · simp only [Res.pure_ok] at h; subst h; reach_tac
      · simp at h
  | intGet f args =>
    simp only [cUnitOp] at h
    split at h
    · simp only [Res.pure_ok] at h; subst h; reach_tac
    · simp only [Res.bind_ok] at h
      obtain ⟨⟨s1, r⟩, hc, h⟩ := h
      have hc := callR_reach t pol s s1 _ r hc
      split at h
      · simp only [Res.pure_ok] at h; subst h; reach_tac
      · simp at h
  | fallible f args =>
    simp only [cUnitOp] at h
    split at h
    · simp only [Res.pure_ok] at h; subst h; reach_tac
    · simp only [Res.bind_ok] at h
      obtain ⟨⟨s1, r⟩, hc, h⟩ := h
      have hc := callR_reach t pol s s1 _ r hc
      split at h
      · simp only [Res.pure_ok] at h; subst h; reach_tac
      · simp only [Res.pure_ok] at h; subst h; reach_tac
      · simp at h
  | infallible f args isHtml =>
    simp only [cUnitOp] at h
    split at h
    · simp only [Res.pure_ok] at h; subst h; reach_tac
    · simp only [Res.bind_ok, Res.pure_ok] at h
      obtain ⟨⟨s1, r⟩, hc, rfl⟩ := h
      have hc := callR_reach t pol s s1 _ r hc
      reach_tac
  | void f =>
    simp only [cUnitOp, Res.bind_ok, Res.pure_ok] at h
    obtain ⟨⟨s1, r⟩, hc, rfl⟩ := h
    have hc := callR_reach t pol s s1 _ r hc
    reach_tac
  | boolGet f =>
    simp only [cUnitOp, Res.bind_ok] at h
    obtain ⟨⟨s1, r⟩, hc, h⟩ := h
    have hc := callR_reach t pol s s1 _ r hc
    split at h
    · simp only [Res.pure_ok] at h; subst h; reach_tac
    · simp at h
  | rawGet f =>
    simp only [cUnitOp, Res.bind_ok, Res.pure_ok] at h
    obtain ⟨⟨s1, r⟩, hc, rfl⟩ := h
    have hc := callR_reach t pol s s1 _ r hc
    reach_tac
  | bytesFallible f b isHtml =>
    simp only [cUnitOp, Res.bind_ok] at h
    obtain ⟨⟨s1, r⟩, hc, h⟩ := h
    have hc := callR_reach t pol s s1 _ r hc
    split at h
    · simp only [Res.pure_ok] at h; subst h; reach_tac
    · simp only [Res.pure_ok] at h; subst h; reach_tac
    · simp at h
  | addEndTagHandler hid =>
    simp only [cUnitOp, Res.bind_ok] at h
    obtain ⟨⟨s1, r⟩, hc, h⟩ := h
    have hc := callR_reach t pol s s1 _ r hc
    split at h
    · simp only [Res.pure_ok] at h; subst h; reach_tac
    · simp only [Res.pure_ok] at h; subst h; reach_tac
    · simp at h
  | clearEndTagHandlers =>
    simp only [cUnitOp, Res.bind_ok, Res.pure_ok] at h
    obtain ⟨⟨s1, r⟩, hc, rfl⟩ := h
    have hc := callR_reach t pol s s1 _ r hc
    reach_tac
  | streaming f a =>
    simp only [cUnitOp] at h
    split at h
    · simp only [Res.pure_ok] at h; subst h; reach_tac
    · rename_i reservedNull hasWriteAll hasDrop script
      split at h
      · simp only [Res.pure_ok] at h; subst h; reach_tac
      · have ha : Reach HKind t s.env (alloc s.env (.shandler script hasDrop)).1 :=
          .single (.alloc (.shandler script hasDrop) hk_sh rfl rfl (ErrFrame.rfl' rfl))
        split at h
        · simp only [Res.bind_ok, Res.pure_ok] at h
          obtain ⟨env, hr, rfl⟩ := h
          have hr := releaseHandler_reach t hk_sh _ _ _ hr
          have := (reach_save (t := t) .uninitialized ha).trans hr
          reach_tac
        · simp only [Res.bind_ok, Res.pure_ok] at h
          obtain ⟨⟨s1, r⟩, hc, rfl⟩ := h
          have hc := callR_reach t pol _ s1 _ r hc
          have := ha.trans hc
          reach_tac
  | iterGet dst =>
    simp only [cUnitOp, Res.bind_ok] at h
    obtain ⟨⟨s1, r⟩, hc, h⟩ := h
    have hc := callR_reach t pol s s1 _ r hc
    split at h
    · rename_i n _
      simp only [Res.pure_ok] at h; subst h
      have : Reach HKind t s.env (alloc s1.env (.attrIter 0 n s1.env.scope s1.env.epoch)).1 :=
        hc.snoc (.alloc (.attrIter 0 n s1.env.scope s1.env.epoch) hk_iter rfl rfl (ErrFrame.rfl' rfl))
      reach_tac
    · simp at h
  | iterNext it =>
    simp only [cUnitOp, Res.bind_ok, require_ok] at h
    obtain ⟨_, _, ⟨h0, o⟩, hd, h⟩ := h
    split at h
    · rename_i pos len scope epoch hp
      simp only [Res.bind_ok, require_ok] at h
      obtain ⟨_, _, h⟩ := h
      split at h
      · simp at h
      · split at h
        · simp only [Res.pure_ok] at h; subst h
          have hd' := deref_some hd
          have : Reach HKind t s.env (s.env.setObj h0 ⟨o.st, .attrIter (pos + 1) len scope epoch⟩) :=
            .single (.upd h0 o _ (hd'.2.2 ▸ hk_iter) hd'.1 hd'.2.1 (by rw [hd'.2.2]; rfl)
              (by intro hk; rw [hd'.2.2] at hk; cases hk) rfl rfl (ErrFrame.rfl' rfl))
          reach_tac
        · simp only [Res.pure_ok] at h; subst h; reach_tac
    · simp at h
  | iterFree it =>
    simp only [cUnitOp, Res.bind_ok, require_ok, Res.pure_ok] at h
    obtain ⟨_, _, ⟨env, h1, o1⟩, hrel, rfl⟩ := h
    have := release_reach t s.env env it .attrIter h1 o1 (by decide) hk_iter hrel
    reach_tac
  | attrStrGet dst it f =>
    simp only [cUnitOp, Res.bind_ok, require_ok] at h
    obtain ⟨_, _, ⟨h0, o⟩, hd, h⟩ := h
    split at h
    · simp only [Res.bind_ok, require_ok] at h
      obtain ⟨_, _, _, _, h⟩ := h
      split at h
      · simp at h
      · simp only [Res.bind_ok] at h
        obtain ⟨⟨s1, r⟩, hc, h⟩ := h
        have hc := callR_reach t pol s s1 _ r hc
        split at h
        · simp only [Res.pure_ok] at h; subst h; reach_tac
        · simp at h
    · simp at h
  | strFree v =>
    simp only [cUnitOp, Res.bind_ok, Res.pure_ok] at h
    obtain ⟨env, hf, rfl⟩ := h
    exact strFree_reach t hk_str pol _ _ v hf
  | takeLastError dst =>
    simp only [cUnitOp, Res.pure_ok] at h
    subst h; reach_tac

theorem cUnitOps_reach (t : Tid) (pol : Policy) (ops : List COp) (s s' : HState R)
    (h : cUnitOps pol t s ops = .ok s') : Reach HKind t s.env s'.env := by
  induction ops generalizing s with
  | nil => simp [cUnitOps] at h; subst h; exact .refl _
  | cons op rest ih =>
    simp only [cUnitOps, Res.bind_ok] at h
    obtain ⟨s1, h1, h2⟩ := h
    exact (cUnitOp_reach t pol s s1 op h1).trans (ih s1 h2)

theorem enter_reach (t : Tid) (e : Env R) (hid : Nat) : Reach HKind t e (enter e hid).1 :=
  frame_of_eq rfl rfl rfl

theorem runHandler_reach (t : Tid) (pol : Policy) (prog : Prog) (hid : Nat) (u : R.U) (e : Env R)
    (s : HState R) (stop : Bool) (h : runHandler pol prog t hid u e = .ok (s, stop)) :
    Reach HKind t e s.env := by
  simp only [runHandler, Res.bind_ok, Res.pure_ok, Prod.mk.injEq] at h
  obtain ⟨s1, h1, rfl, _⟩ := h
  exact (enter_reach t e hid).trans (cUnitOps_reach t pol _ _ _ h1)

theorem runStreaming_reach (t : Tid) (pol : Policy) (prog : Prog) (sid : Nat) (u : R.U) (e : Env R)
    (s : HState R) (code : Int) (h : runStreaming pol prog t sid u e = .ok (s, code)) :
    Reach HKind t e s.env := by
  unfold runStreaming at h
  split at h
  · rename_i script hasDrop ho
    simp only [Res.bind_ok, Res.pure_ok, Prod.mk.injEq] at h
    obtain ⟨s1, h1, env, h2, rfl, _⟩ := h
    have hupd : Reach HKind t e (e.setObj sid ⟨.taken, .shandler script hasDrop⟩) :=
      .single (.upd sid ⟨.live, .shandler script hasDrop⟩ ⟨.taken, .shandler script hasDrop⟩ hk_sh ho (by simp) rfl
        (fun _ => ⟨by simp, rfl⟩) rfl rfl (ErrFrame.rfl' rfl))
    exact ((hupd.trans (enter_reach t _ script)).trans (cUnitOps_reach t pol _ _ _ h1)).trans
      (releaseHandler_reach t hk_sh _ _ sid h2)
  · simp at h

theorem drive_reach (t : Tid) (pol : Policy) (prog : Prog) (fuel : Nat) (rw rw' : R.Rw)
    (inp : RIn R.Chunk R.U) (e e' : Env R) (res : Except ErrMsg Unit)
    (h : drive pol prog t fuel rw inp e = .ok (rw', e', res)) : Reach HKind t e e' := by
  induction fuel generalizing rw inp e with
  | zero => simp [drive] at h
  | succ n ih =>
    simp only [drive, Res.bind_ok] at h
    obtain ⟨e1, hev, h⟩ := h
    have hev := applyEvents_reach t hk_sh _ _ _ hev
    split at h
    · simp only [Res.pure_ok, Prod.mk.injEq] at h
      obtain ⟨_, rfl, _⟩ := h; exact hev
    · simp only [Res.pure_ok, Prod.mk.injEq] at h
      obtain ⟨_, rfl, _⟩ := h; exact hev
    · simp only [Res.bind_ok] at h
      obtain ⟨⟨s, stop⟩, hh, h⟩ := h
      exact (hev.trans (runHandler_reach t pol prog _ _ _ s stop hh)).trans (ih _ _ _ h)
    · simp only [Res.bind_ok] at h
      obtain ⟨⟨s, stop⟩, hh, h⟩ := h
      exact (hev.trans (runHandler_reach t pol prog _ _ _ s stop hh)).trans (ih _ _ _ h)
    · simp only [Res.bind_ok] at h
      obtain ⟨⟨s, code⟩, hh, h⟩ := h
      exact (hev.trans (runStreaming_reach t pol prog _ _ _ s code hh)).trans (ih _ _ _ h)

theorem reach_alloc {t : Tid} {e e1 : Env R} (p : Payload R) (hP : P p.kind) (h : Reach P t e e1) :
    Reach P t e (alloc e1 p).1 := h.snoc (.alloc p hP rfl rfl (ErrFrame.rfl' rfl))

/-- Payload update of a live object that is not a streaming handler. -/
theorem reach_setObj {t : Tid} {e e1 : Env R} {h : Nat} {o : Obj R} (o' : Obj R)
    (hr : Reach P t e e1) (ho : e1.objs[h]? = some o) (hst : o.st ≠ .freed)
    (hk : o'.p.kind = o.p.kind) (hns : o.p.kind ≠ .shandler) (hP : P o.p.kind) :
    Reach P t e (e1.setObj h o') :=
  hr.snoc (.upd h o o' hP ho hst hk (fun hs => absurd hs hns) rfl rfl (ErrFrame.rfl' rfl))

/-- objects stay where they are along `Reach` as long as they are not touched: used to re-find the
    rewriter after `drive`. Weak form: the kind of every existing handle is stable and the ledger only grows. -/
theorem Prim.kind_stable {t : Tid} {e e' : Env R} (hp : Prim P t e e') (h : Nat) (o : Obj R)
    (ho : e.objs[h]? = some o) :
    ∃ o', e'.objs[h]? = some o' ∧ o'.p.kind = o.p.kind ∧ (o.st = .freed → o' = o) := by
  have hlt : h < e.objs.length := by
    rcases Nat.lt_or_ge h e.objs.length with hl | hl
    · exact hl
    · rw [List.getElem?_eq_none hl] at ho; cases ho
  cases hp with
  | frame h1 _ _ => exact ⟨o, by rw [h1]; exact ho, rfl, fun _ => rfl⟩
  | alloc p _ h1 _ _ =>
    refine ⟨o, ?_, rfl, fun _ => rfl⟩
    rw [h1, List.getElem?_append_left hlt]; exact ho
  | upd h0 o0 o0' _ ho0 hst hk _ h1 _ _ =>
    by_cases heq : h0 = h
    · subst heq
      rw [ho0] at ho; cases ho
      refine ⟨o0', ?_, hk, fun hf => absurd hf hst⟩
      rw [h1, List.getElem?_set_self hlt]
    · refine ⟨o, ?_, rfl, fun _ => rfl⟩
      rw [h1, List.getElem?_set_ne heq]; exact ho
  | dropH sid st script hasDrop _ ho0 hst h1 _ _ =>
    by_cases heq : sid = h
    · subst heq
      rw [ho0] at ho; cases ho
      refine ⟨⟨.freed, .shandler script hasDrop⟩, ?_, rfl, fun hf => absurd hf hst⟩
      rw [h1, List.getElem?_set_self hlt]
    · refine ⟨o, ?_, rfl, fun _ => rfl⟩
      rw [h1, List.getElem?_set_ne heq]; exact ho

theorem Prim.mono {Q : Kind → Prop} {t : Tid} {e e' : Env R} (hPQ : ∀ k, P k → Q k)
    (h : Prim P t e e') : Prim Q t e e' := by
  cases h with
  | frame a b c => exact .frame a b c
  | alloc p hp a b c => exact .alloc p (hPQ _ hp) a b c
  | upd h o o' hp a b c d e' f g => exact .upd h o o' (hPQ _ hp) a b c d e' f g
  | dropH sid st sc hd hp a b c d e' => exact .dropH sid st sc hd (hPQ _ hp) a b c d e'

theorem Reach.mono {Q : Kind → Prop} {t : Tid} {e e' : Env R} (hPQ : ∀ k, P k → Q k)
    (h : Reach P t e e') : Reach Q t e e' := by
  induction h with
  | refl => exact .refl _
  | step p _ ih => exact .step (p.mono hPQ) ih

theorem Reach.any {t : Tid} {e e' : Env R} (h : Reach P t e e') : Reach AnyKind t e e' :=
  h.mono (fun _ _ => trivial)

/-- Objects of a kind outside `P` are left exactly as they are. -/
theorem Prim.frame_obj {t : Tid} {e e' : Env R} (hp : Prim P t e e') (h : Nat) (o : Obj R)
    (ho : e.objs[h]? = some o) (hn : ¬ P o.p.kind) : e'.objs[h]? = some o := by
  have hlt : h < e.objs.length := by
    rcases Nat.lt_or_ge h e.objs.length with hl | hl
    · exact hl
    · rw [List.getElem?_eq_none hl] at ho; cases ho
  cases hp with
  | frame h1 _ _ => rw [h1]; exact ho
  | alloc p _ h1 _ _ => rw [h1, List.getElem?_append_left hlt]; exact ho
  | upd h0 o0 o0' hP0 ho0 _ _ _ h1 _ _ =>
    by_cases heq : h0 = h
    · subst heq; rw [ho0] at ho; cases ho; exact absurd hP0 hn
    · rw [h1, List.getElem?_set_ne heq]; exact ho
  | dropH sid st script hasDrop hP0 ho0 _ h1 _ _ =>
    by_cases heq : sid = h
    · subst heq; rw [ho0] at ho; cases ho; exact absurd hP0 hn
    · rw [h1, List.getElem?_set_ne heq]; exact ho

theorem Reach.frame_obj {t : Tid} {e e' : Env R} (hr : Reach P t e e') (h : Nat) (o : Obj R)
    (ho : e.objs[h]? = some o) (hn : ¬ P o.p.kind) : e'.objs[h]? = some o := by
  induction hr with
  | refl => exact ho
  | step p _ ih => exact ih (p.frame_obj h o ho hn)

theorem not_hkind_rewriter : ¬ HKind Kind.rewriter := by
  intro h; rcases h with h | h | h <;> cases h

/-- Every top-level entry point is a sequence of primitive steps of the calling thread. -/
theorem topStep_reach (pol : Policy) (prog : Prog) (e e' : Env R) (c : Call R.Chunk)
    (h : topStep pol prog e c = .ok e') : Reach AnyKind c.tid e e' := by
  obtain ⟨t, op⟩ := c
  cases op with
  | builderNew dst =>
    simp only [topStep, Res.pure_ok] at h; subst h
    exact reach_out _ (reach_setVar _ _ (reach_alloc _ trivial (.refl _)))
  | selectorParse dst sb =>
    simp only [topStep] at h
    split at h
    · simp only [Res.pure_ok] at h; subst h
      exact reach_out _ (reach_setVar _ _ (reach_save _ (.refl _)))
    · split at h
      · simp only [Res.pure_ok] at h; subst h
        exact reach_out _ (reach_setVar _ _ (reach_save _ (.refl _)))
      · simp only [Res.pure_ok] at h; subst h
        exact reach_out _ (reach_setVar _ _ (reach_alloc _ trivial (.refl _)))
  | addDoc b r =>
    simp only [topStep, Res.bind_ok, require_ok] at h
    obtain ⟨_, _, ⟨h0, o⟩, hd, h⟩ := h
    have hd' := deref_some hd
    split at h
    · rename_i elem doc hp
      simp only [Res.pure_ok] at h; subst h
      exact reach_out _ (reach_setObj _ (.refl _) hd'.1 hd'.2.1 (by rw [hd'.2.2]; rfl)
        (by rw [hd'.2.2]; decide) trivial)
    · simp at h
  | addElem b sel el cm tx =>
    simp only [topStep, Res.bind_ok, require_ok] at h
    obtain ⟨_, _, _, _, ⟨hs, os⟩, _, ⟨h0, o⟩, hd, h⟩ := h
    have hd' := deref_some hd
    split at h
    · simp only [Res.pure_ok] at h; subst h
      exact reach_out _ (reach_setObj _ (.refl _) hd'.1 hd'.2.1 (by rw [hd'.2.2]; rfl)
        (by rw [hd'.2.2]; decide) trivial)
    · simp at h
  | build dst b enc mem strict esi =>
    simp only [topStep, Res.bind_ok, require_ok] at h
    obtain ⟨_, _, ⟨h0, o⟩, hd, h⟩ := h
    split at h
    · simp only [Res.bind_ok] at h
      obtain ⟨elemR, _, h⟩ := h
      split at h
      · simp only [Res.pure_ok] at h; subst h
        exact reach_out _ (reach_setVar _ _ (reach_save _ (.refl _)))
      · split at h
        · simp only [Res.pure_ok] at h; subst h
          exact reach_out _ (reach_setVar _ _ (reach_save _ (.refl _)))
        · split at h
          · simp only [Res.pure_ok] at h; subst h
            exact reach_out _ (reach_setVar _ _ (reach_save _ (.refl _)))
          · simp only [Res.pure_ok] at h; subst h
            exact reach_out _ (reach_setVar _ _ (reach_alloc _ trivial (.refl _)))
    · simp at h
  | write r chunk =>
    simp only [topStep, Res.bind_ok, require_ok] at h
    obtain ⟨_, _, ⟨h0, o⟩, hd, h⟩ := h
    have hd' := deref_some hd
    split at h
    · simp at h
    · rename_i rw poisoned hp
      simp only [Res.bind_ok, require_ok] at h
      obtain ⟨_, _, ⟨rw', e1, res⟩, hdr, h⟩ := h
      have hdr' := drive_reach t pol prog _ _ _ _ _ _ _ hdr
      have ho1 : e1.objs[h0]? = some o :=
        hdr'.frame_obj h0 o hd'.1 (by rw [hd'.2.2]; exact not_hkind_rewriter)
      split at h
      · simp only [Res.pure_ok] at h; subst h
        exact reach_out _ (reach_setObj _ hdr'.any ho1 hd'.2.1 (by rw [hd'.2.2]; rfl)
          (by rw [hd'.2.2]; decide) trivial)
      · simp only [Res.pure_ok] at h; subst h
        exact reach_out _ (reach_save _ (reach_setObj _ hdr'.any ho1 hd'.2.1 (by rw [hd'.2.2]; rfl)
          (by rw [hd'.2.2]; decide) trivial))
    · simp at h
  | end_ r =>
    simp only [topStep, Res.bind_ok, require_ok] at h
    obtain ⟨_, _, ⟨h0, o⟩, hd, h⟩ := h
    have hd' := deref_some hd
    split at h
    · simp at h
    · rename_i rw poisoned hp
      simp only [Res.bind_ok, require_ok] at h
      obtain ⟨_, _, ⟨rw', e1, res⟩, hdr, e2, hev, h⟩ := h
      have h1 : Reach AnyKind t e (e.setObj h0 ⟨.taken, .rewriter none poisoned⟩) :=
        reach_setObj _ (.refl _) hd'.1 hd'.2.1 (by rw [hd'.2.2]; rfl) (by rw [hd'.2.2]; decide) trivial
      have h2 := (drive_reach t pol prog _ _ _ _ _ _ _ hdr).any
      have h3 := (applyEvents_reach (P := AnyKind) t trivial _ _ _ hev)
      have h123 := (h1.trans h2).trans h3
      split at h
      · simp only [Res.pure_ok] at h; subst h; exact reach_out _ h123
      · simp only [Res.pure_ok] at h; subst h; exact reach_out _ (reach_save _ h123)
    · simp at h
  | rewriterFree r =>
    simp only [topStep, Res.bind_ok, require_ok] at h
    obtain ⟨_, _, ⟨e1, h1, o1⟩, hrel, h⟩ := h
    have hr := release_reach (P := AnyKind) t e e1 r .rewriter h1 o1 (by decide) trivial hrel
    split at h
    · simp only [Res.bind_ok, Res.pure_ok] at h
      obtain ⟨e2, hev, rfl⟩ := h
      exact reach_out _ (hr.trans (applyEvents_reach t trivial _ _ _ hev))
    · simp only [Res.pure_ok] at h; subst h; exact reach_out _ hr
  | builderFree b =>
    simp only [topStep, Res.bind_ok, require_ok, Res.pure_ok] at h
    obtain ⟨_, _, ⟨e1, h1, o1⟩, hrel, rfl⟩ := h
    exact reach_out _ (release_reach t e e1 b .builder h1 o1 (by decide) trivial hrel)
  | selectorFree sv =>
    simp only [topStep, Res.bind_ok, require_ok, Res.pure_ok] at h
    obtain ⟨_, _, ⟨h0, o⟩, _, _, _, ⟨e1, h1, o1⟩, hrel, rfl⟩ := h
    exact reach_out _ (release_reach t e e1 sv .selector h1 o1 (by decide) trivial hrel)
  | strFree v =>
    simp only [topStep] at h
    exact strFree_reach t trivial pol _ _ v h
  | takeLastError dst =>
    simp only [topStep, Res.pure_ok] at h; subst h
    exact takeLastError_reach t trivial _ _

/-! ### Invariants of primitive steps -/

theorem Prim.errFrame {t : Tid} {e e' : Env R} (h : Prim P t e e') : ErrFrame t e e' := by
  cases h <;> assumption

theorem Reach.errFrame {t : Tid} {e e' : Env R} (h : Reach P t e e') : ErrFrame t e e' := by
  induction h with
  | refl => intro _ _; rfl
  | step p _ ih => intro t' ht; rw [ih t' ht, p.errFrame t' ht]

theorem topStep_lastErr_frame (pol : Policy) (prog : Prog) (e e' : Env R) (c : Call R.Chunk)
    (h : topStep pol prog e c = .ok e') (t' : Tid) (ht : t' ≠ c.tid) :
    e'.lastErr t' = e.lastErr t' := (topStep_reach pol prog e e' c h).errFrame t' ht

/-! ### Ledger discipline along primitive steps -/

/-- Handles are never reused, kinds never change, and a freed object is never touched again. -/
theorem Reach.kind_stable {t : Tid} {e e' : Env R} (hr : Reach P t e e') (h : Nat) (o : Obj R)
    (ho : e.objs[h]? = some o) :
    ∃ o', e'.objs[h]? = some o' ∧ o'.p.kind = o.p.kind ∧ (o.st = .freed → o' = o) := by
  induction hr generalizing o with
  | refl => exact ⟨o, ho, rfl, fun _ => rfl⟩
  | step p _ ih =>
    obtain ⟨o1, ho1, hk1, hf1⟩ := p.kind_stable h o ho
    obtain ⟨o2, ho2, hk2, hf2⟩ := ih o1 ho1
    refine ⟨o2, ho2, hk2.trans hk1, fun hf => ?_⟩
    have := hf1 hf; subst this; exact hf2 hf

/-- The drop-callback log agrees with the ledger: the callback of handler `sid` has run once if its box
    has been dropped (and it has a callback), and not at all otherwise. -/
def DropInv (e : Env R) : Prop :=
  ∀ sid, e.drops.count sid =
    match e.objs[sid]? with
    | some ⟨.freed, .shandler _ true⟩ => 1
    | _ => 0

theorem DropInv.init : DropInv (Env.init R) := by
  intro sid; simp [Env.init]

theorem Prim.dropInv {t : Tid} {e e' : Env R} (hp : Prim P t e e') (hi : DropInv e) : DropInv e' := by
  intro sid
  have hsid := hi sid
  cases hp with
  | frame h1 h2 _ => rw [h1, h2]; exact hsid
  | alloc p _ h1 h2 _ =>
    rw [h1, h2]
    rcases Nat.lt_or_ge sid e.objs.length with hl | hl
    · rw [List.getElem?_append_left hl]; exact hsid
    · rw [List.getElem?_eq_none hl] at hsid
      rcases Nat.lt_or_ge e.objs.length sid with hl2 | hl2
      · rw [List.getElem?_eq_none (by simp; omega)]; exact hsid
      · have : sid = e.objs.length := by omega
        subst this
        simp only [List.getElem?_append_right (Nat.le_refl _), Nat.sub_self, List.getElem?_cons_zero]
        exact hsid
  | upd h o o' _ ho hst hk hsh h1 h2 _ =>
    rw [h1, h2]
    by_cases heq : h = sid
    · subst heq
      have hlt : h < e.objs.length := by
        rcases Nat.lt_or_ge h e.objs.length with hl | hl
        · exact hl
        · rw [List.getElem?_eq_none hl] at ho; cases ho
      rw [List.getElem?_set_self hlt]
      rw [ho] at hsid
      rw [hsid]
      -- neither the old (not freed) nor the new object is a freed streaming handler
      obtain ⟨st, p⟩ := o
      obtain ⟨st', p'⟩ := o'
      cases p' with
      | shandler sc hd =>
        have hks : p.kind = .shandler := by simpa [Payload.kind] using hk.symm
        obtain ⟨hnf, hpp⟩ := hsh hks
        simp only at hnf hpp hst
        subst hpp
        cases st <;> cases st' <;> simp_all
      | _ =>
        cases p <;> simp_all [Payload.kind] <;> cases st <;> simp_all
    · rw [List.getElem?_set_ne heq]; exact hsid
  | dropH s0 st script hasDrop _ ho hst h1 h2 _ =>
    rw [h1, h2]
    by_cases heq : s0 = sid
    · subst heq
      have hlt : s0 < e.objs.length := by
        rcases Nat.lt_or_ge s0 e.objs.length with hl | hl
        · exact hl
        · rw [List.getElem?_eq_none hl] at ho; cases ho
      rw [List.getElem?_set_self hlt]
      rw [ho] at hsid
      have h0 : e.drops.count s0 = 0 := by
        rw [hsid]; cases st <;> cases hasDrop <;> simp_all
      cases hasDrop <;> simp [h0]
    · rw [List.getElem?_set_ne heq]
      cases hasDrop
      · simpa using hsid
      · simp only [if_true]
        rw [List.count_cons_of_ne heq]
        exact hsid

theorem Reach.dropInv {t : Tid} {e e' : Env R} (hr : Reach P t e e') (hi : DropInv e) : DropInv e' := by
  induction hr with
  | refl => exact hi
  | step p _ ih => exact ih (p.dropInv hi)

end LolHtml.Lemmas.CApi
