import LolHtml.Lemmas.ChunkLex
/-!
`lexAct`: every lexer action preserves the relation, with the flags transformed by `absAct`.
-/
namespace LolHtml.Model.Chunk
open LolHtml LolHtml.Model

variable {κ : Type}

theorem optRel_cases {α : Type} {R : α → α → Prop} : ∀ {x y : Option α}, OptRel R x y →
    (x = none ∧ y = none) ∨ ∃ a b, x = some a ∧ y = some b ∧ R a b
  | none, none, _ => Or.inl ⟨rfl, rfl⟩
  | some a, some b, h => Or.inr ⟨a, b, rfl, rfl, h⟩
  | none, some _, h => h.elim
  | some _, none, h => h.elim

theorem Ab.le_iff (a b : Ab) : a.le b = true ↔
    (a.P = true → b.P = true) ∧ (a.T = true → b.T = true) ∧ (a.Gn = true → b.Gn = true) ∧
    (a.Ga = true → b.Ga = true) ∧ (a.A = true → b.A = true) ∧ (a.N = true → b.N = true) ∧
    (a.Nc = true → b.Nc = true) ∧ (a.St = true → b.St = true) ∧ (a.Sn = true → b.Sn = true) := by
  unfold Ab.le
  simp only [Bool.and_eq_true, Bool.or_eq_true, Bool.not_eq_true', and_assoc]
  have h : ∀ x y : Bool, (x = false ∨ y = true) ↔ (x = true → y = true) := by
    intro x y; cases x <;> simp
  simp only [h]

theorem NonTagRel.weaken {δ L : Nat} {v v' : Bool} {n n' : NonTagOutline} (h : NonTagRel δ L v n n')
    (hv : v' = true → v = true) : NonTagRel δ L v' n n' := ⟨h.ctor, fun g => h.val (hv g)⟩

theorem AttrRel.weaken {δ L : Nat} {v v' : Bool} {n n' : AttrOutline} (h : AttrRel δ L v n n')
    (hv : v' = true → v = true) : AttrRel δ L v' n n' := ⟨fun g => h.val (hv g)⟩

theorem LexRel.weaken' {δ d np : Nat} {ab ab' : Ab} {ls lw : LexRegs} (h : LexRel δ d ab np ls lw)
    (hP : ab'.P = true → ab.P = true) (hT : ab'.T = true → ab.T = true) (hGn : ab'.Gn = true → ab.Gn = true)
    (hGa : ab'.Ga = true → ab.Ga = true) (hA : ab'.A = true → ab.A = true) (hN : ab'.N = true → ab.N = true)
    (hNc : ab'.Nc = true → ab.Nc = true) : LexRel δ d ab' np ls lw :=
  ⟨h.ls_le, h.ls_eq, fun g => h.p (hP g), h.fd, fun g => h.t (hT g),
    OptRel.mono (fun _ _ hr => hr.weaken (Nat.le_refl _) hGn hGa) h.tag,
    OptRel.mono (fun _ _ hr => hr.weaken hA) h.attr,
    OptRel.mono (fun _ _ hr => hr.weaken hN) h.nt, fun g => h.nc (hNc g), fun g => h.ntu (hN g), fun g g' => h.ntp (hN g) (hP g')⟩

theorem LexRel.weaken {δ d np : Nat} {ab ab' : Ab} {ls lw : LexRegs} (h : LexRel δ d ab np ls lw)
    (hle : ab'.le ab = true) : LexRel δ d ab' np ls lw := by
  obtain ⟨hP, hT, hGn, hGa, hA, hN, hNc, _, _⟩ := (Ab.le_iff ab' ab).mp hle
  exact h.weaken' hP hT hGn hGa hA hN hNc

/-- a fully valid non-tag relation determines the whole-run token -/
theorem optNonTag_eq {δ L : Nat} {x y : Option NonTagOutline} (h : OptRel (NonTagRel δ L true) x y) :
    y = x.map (shNonTag δ) := by
  rcases optRel_cases h with ⟨rfl, rfl⟩ | ⟨a, b, rfl, rfl, hr⟩
  · rfl
  · simp [(hr.val rfl).1]

section
variable {env : Env κ} {inpS inpW : Bytes} {δ : Nat} {K : Nat → κ → κ → Prop} {Loc : κ → Nat → Nat → TextType → Prop}

/-- the standing assumptions of an action step in lexer mode (no text debt) -/
structure LexPre (δ : Nat) (K : Nat → κ → κ → Prop) (ab : Ab) (cs cw : Common) (ls lw : LexRegs) (xs xw : Ctx κ) : Prop where
  c : CRel δ 0 cs cw
  l : LexRel δ 0 ab cs.nextPos ls lw
  sim : xw.sim = xs.sim
  pc : xs.prevConsumed = xw.prevConsumed + δ
  k : K 0 xs.sink xw.sink

theorem LexPre.ret {ab ab' : Ab} {cs cw cs' cw' : Common} {ls lw ls' lw' : LexRegs} {xs xw : Ctx κ}
    (h : LexPre δ K ab cs cw ls lw xs xw) (must : Bool) (hc' : CRel δ 0 cs' cw') (hnp : cs'.nextPos = cs.nextPos)
    (hl' : LexRel δ 0 ab' cs.nextPos ls' lw') :
    ActSim δ K ab' must ((⟨cs', .lexer ls', xs⟩ : M κ), none) ((⟨cw', .lexer lw', xw⟩ : M κ), none) :=
  ActSim.ret ⟨hc', by show LexRel δ 0 ab' cs'.nextPos ls' lw'; rw [hnp]; exact hl', h.sim, h.pc⟩ h.k

theorem LexPre.pos {ab : Ab} {cs cw : Common} {ls lw : LexRegs} {xs xw : Ctx κ}
    (h : LexPre δ K ab cs cw ls lw xs xw) (hP : ab.P = true) :
    cw.pos = cs.pos + δ ∧ cs.pos + 1 = cs.nextPos ∧ ls.lexemeStart ≤ cs.pos ∧ cw.nextPos - 1 = cs.nextPos - 1 + δ := by
  have hp := h.l.p hP
  have hnp := h.c.nextPos
  have hpos : cw.pos = cs.pos + δ := h.c.pos (by omega)
  unfold Common.pos at *
  omega

theorem tokenPartRange_eq (c : Common) (l : LexRegs) : tokenPartRange c l = ⟨l.tokenPartStart, c.nextPos - 1⟩ := rfl

/-- creation of tokens, `start_token_part` -/
theorem lexAct_create {ab ab' : Ab} {cs cw : Common} {ls lw : LexRegs} {xs xw : Ctx κ}
    (h : LexPre δ K ab cs cw ls lw xs xw) (a : ActName)
    (ha : a = .createStartTag ∨ a = .createEndTag ∨ a = .createDoctype ∨ a = .createComment ∨ a = .startTokenPart)
    (habs : absAct a ab = some ab') :
    ActSim δ K ab' (qRequired a) (lexAct env a inpS cs ls xs) (lexAct env a inpW cw lw xw) := by
  rcases ha with rfl | rfl | rfl | rfl | rfl <;> simp only [absAct] at habs
  · split at habs
    · simp only [Option.some.injEq] at habs; subst habs
      exact h.ret _ h.c rfl { h.l with
        tag := ⟨rfl, rfl, rfl, rfl, (fun g => by cases g), fun _ => ⟨rfl, fun a ha => by cases ha⟩⟩ }
    · cases habs
  · split at habs
    · simp only [Option.some.injEq] at habs; subst habs
      exact h.ret _ h.c rfl { h.l with
        tag := ⟨rfl, rfl, rfl, rfl, (fun g => by cases g), fun _ => ⟨rfl, fun a ha => by cases ha⟩⟩ }
    · cases habs
  · simp only [Option.some.injEq] at habs; subst habs
    exact h.ret _ h.c rfl { h.l with
      nt := ⟨rfl, fun _ => ⟨rfl, trivial, trivial, trivial⟩⟩
      nc := fun g => by cases g
      ntu := fun _ n hn => by cases hn; exact ⟨trivial, trivial, trivial⟩
      ntp := fun _ _ n hn => by cases hn; exact ⟨trivial, trivial, trivial⟩ }
  · simp only [Option.some.injEq] at habs; subst habs
    exact h.ret _ h.c rfl { h.l with
      nt := ⟨trivial, fun g => by cases g⟩
      nc := fun _ => ⟨_, rfl⟩
      ntu := fun _ n hn => by cases hn; trivial
      ntp := fun _ _ n hn => by cases hn; trivial }
  · split at habs
    · rename_i hP
      simp only [Option.some.injEq] at habs; subst habs
      obtain ⟨p1, p2, p3, p4⟩ := h.pos hP
      exact h.ret _ h.c rfl { h.l with t := fun _ => ⟨p1, p3⟩ }
    · cases habs

theorem nt_comment_l {L : Nat} {v : Bool} {x y : Option NonTagOutline} (h : OptRel (NonTagRel δ L v) x y)
    {r : Range} (hx : x = some (.comment r)) : ∃ r', y = some (.comment r') := by
  subst hx
  rcases optRel_cases h with ⟨h1, _⟩ | ⟨a, b, h1, rfl, hr⟩
  · cases h1
  · cases h1
    have hc := hr.ctor
    cases b <;> simp only [sameCtor] at hc
    exact ⟨_, rfl⟩

theorem nt_comment_r {L : Nat} {v : Bool} {x y : Option NonTagOutline} (h : OptRel (NonTagRel δ L v) x y)
    {r : Range} (hy : y = some (.comment r)) : ∃ r', x = some (.comment r') := by
  subst hy
  rcases optRel_cases h with ⟨_, h1⟩ | ⟨a, b, rfl, h1, hr⟩
  · cases h1
  · cases h1
    have hc := hr.ctor
    cases a <;> simp only [sameCtor] at hc
    exact ⟨_, rfl⟩

theorem nt_doctype_l {L : Nat} {v : Bool} {x y : Option NonTagOutline} (h : OptRel (NonTagRel δ L v) x y)
    {r : DoctypeOutline} (hx : x = some (.doctype r)) : ∃ r', y = some (.doctype r') ∧ r'.forceQuirks = r.forceQuirks := by
  subst hx
  rcases optRel_cases h with ⟨h1, _⟩ | ⟨a, b, h1, rfl, hr⟩
  · cases h1
  · cases h1
    have hc := hr.ctor
    cases b <;> simp only [sameCtor] at hc
    exact ⟨_, rfl, hc⟩

theorem nt_doctype_r {L : Nat} {v : Bool} {x y : Option NonTagOutline} (h : OptRel (NonTagRel δ L v) x y)
    {r : DoctypeOutline} (hy : y = some (.doctype r)) : ∃ r', x = some (.doctype r') := by
  subst hy
  rcases optRel_cases h with ⟨_, h1⟩ | ⟨a, b, rfl, h1, hr⟩
  · cases h1
  · cases h1
    have hc := hr.ctor
    cases a <;> simp only [sameCtor] at hc
    exact ⟨_, rfl⟩

theorem lexAct_comment {ab ab' : Ab} {cs cw : Common} {ls lw : LexRegs} {xs xw : Ctx κ}
    (h : LexPre δ K ab cs cw ls lw xs xw) (a : ActName)
    (ha : a = .markCommentTextEnd ∨ ∃ n, a = .shiftCommentTextEndBy n)
    (habs : absAct a ab = some ab') :
    ActSim δ K ab' (qRequired a) (lexAct env a inpS cs ls xs) (lexAct env a inpW cw lw xw) := by
  have hnt := h.l.nt
  rcases ha with rfl | ⟨n, rfl⟩ <;> simp only [absAct] at habs
  · split at habs
    · rename_i hP
      simp only [Option.some.injEq] at habs
      obtain ⟨p1, p2, p3, p4⟩ := h.pos hP
      simp only [lexAct, tokenPartRange_eq]
      split
      · rename_i r hx
        obtain ⟨r', hy⟩ := nt_comment_l hnt hx
        rw [hy]
        subst habs
        refine h.ret _ h.c rfl { h.l with nt := ⟨trivial, fun g => ?_⟩, nc := fun _ => ⟨_, rfl⟩, ntu := (fun _ n hn => by cases hn; trivial), ntp := (fun _ _ n hn => by cases hn; trivial) }
        have hT : ab.T = true := by
          revert g; simp only; cases ab.Nc <;> simp
        obtain ⟨t1, t2⟩ := h.l.t hT
        refine ⟨?_, t2, by show ls.lexemeStart ≤ cs.nextPos - 1; omega⟩
        simp only [shNonTag, shR, t1, p4]
      · rename_i hnx
        split
        · rename_i r' hy
          obtain ⟨r, hx⟩ := nt_comment_r hnt hy
          exact (hnx r hx).elim
        · subst habs
          have hN' : (if ab.Nc = true then ab.T else ab.N && ab.T) = true → ab.N = true := by
            intro g
            revert g
            cases hNc : ab.Nc
            · simp; intro a _; exact a
            · exfalso
              obtain ⟨r, hr⟩ := h.l.nc hNc
              exact hnx r hr
          exact h.ret _ h.c rfl { h.l with nt := OptRel.mono (fun _ _ hr => hr.weaken hN') hnt, ntu := fun g => h.l.ntu (hN' g), ntp := fun g => h.l.ntp (hN' g) }
    · cases habs
  · simp only [Option.some.injEq] at habs; subst habs
    simp only [lexAct]
    split
    · rename_i r hx
      obtain ⟨r', hy⟩ := nt_comment_l hnt hx
      rw [hy]
      rw [hx, hy] at hnt
      have hr : NonTagRel δ ls.lexemeStart ab.N (.comment r) (.comment r') := hnt
      refine h.ret _ h.c rfl { h.l with nt := ⟨trivial, fun g => ?_⟩, nc := fun _ => ⟨_, rfl⟩, ntu := (fun _ n hn => by cases hn; trivial), ntp := (fun _ _ n hn => by cases hn; trivial) }
      obtain ⟨v1, v2⟩ := hr.val g
      simp only [shNonTag, NonTagOutline.comment.injEq] at v1
      subst v1
      refine ⟨?_, v2.1, by have := v2.2; show ls.lexemeStart ≤ r.end + n; omega⟩
      simp only [shNonTag, shR, NonTagOutline.comment.injEq, Range.mk.injEq, true_and]; omega
    · rename_i hnx
      split
      · rename_i r' hy
        obtain ⟨r, hx⟩ := nt_comment_r hnt hy
        exact (hnx r hx).elim
      · exact h.ret _ h.c rfl h.l

theorem geOR_some {L : Nat} {r : Range} (h : geR L r) : geOR L (some r) := h

theorem lexAct_doctype {ab ab' : Ab} {cs cw : Common} {ls lw : LexRegs} {xs xw : Ctx κ}
    (h : LexPre δ K ab cs cw ls lw xs xw) (a : ActName)
    (ha : a = .setForceQuirks ∨ a = .finishDoctypeName ∨ a = .finishDoctypePublicId ∨ a = .finishDoctypeSystemId)
    (habs : absAct a ab = some ab') :
    ActSim δ K ab' (qRequired a) (lexAct env a inpS cs ls xs) (lexAct env a inpW cw lw xw) := by
  have hnt := h.l.nt
  rcases ha with rfl | rfl | rfl | rfl <;> simp only [absAct] at habs
  · simp only [Option.some.injEq] at habs; subst habs
    simp only [lexAct]
    split
    · rename_i d hx
      obtain ⟨d', hy, hfq⟩ := nt_doctype_l hnt hx
      rw [hy]
      rw [hx, hy] at hnt
      have hr : NonTagRel δ ls.lexemeStart ab.N (.doctype d) (.doctype d') := hnt
      refine h.ret _ h.c rfl { h.l with nt := ⟨rfl, fun g => ?_⟩, nc := fun g => ?_, ntu := (fun g n hn => by cases hn; exact (h.l.ntu g _ hx : leNonTag cs.nextPos (.doctype d))), ntp := (fun g g' n hn => by cases hn; exact (h.l.ntp g g' _ hx : leNonTag (cs.nextPos - 1) (.doctype d))) }
      · obtain ⟨v1, v2⟩ := hr.val g
        simp only [shNonTag, NonTagOutline.doctype.injEq] at v1
        subst v1
        exact ⟨rfl, v2⟩
      · obtain ⟨r, hr⟩ := h.l.nc g
        rw [hx] at hr; cases hr
    · rename_i hnx
      split
      · rename_i d' hy
        obtain ⟨d, hx⟩ := nt_doctype_r hnt hy
        exact (hnx d hx).elim
      · exact h.ret _ h.c rfl h.l
  all_goals
    split at habs
    · rename_i hP
      simp only [Option.some.injEq] at habs
      obtain ⟨p1, p2, p3, p4⟩ := h.pos hP
      simp only [lexAct, tokenPartRange_eq]
      split
      · rename_i d hx
        obtain ⟨d', hy, hfq⟩ := nt_doctype_l hnt hx
        rw [hy]
        rw [hx, hy] at hnt
        have hr : NonTagRel δ ls.lexemeStart ab.N (.doctype d) (.doctype d') := hnt
        subst habs
        have hup : ∀ g : (ab.N && ab.T) = true, leNonTag cs.nextPos (.doctype d) := fun g =>
          h.l.ntu (by have g' : ab.N = true ∧ ab.T = true := by simpa using g
                      exact g'.1) _ hx
        have hnew : leOR cs.nextPos (some ⟨ls.tokenPartStart, cs.nextPos - 1⟩) := by
          show cs.nextPos - 1 ≤ cs.nextPos; omega
        have hupP : ∀ g : (ab.N && ab.T) = true, leNonTag (cs.nextPos - 1) (.doctype d) := fun g =>
          h.l.ntp (by have g' : ab.N = true ∧ ab.T = true := by simpa using g
                      exact g'.1) hP _ hx
        have hnewP : leOR (cs.nextPos - 1) (some ⟨ls.tokenPartStart, cs.nextPos - 1⟩) := Nat.le_refl _
        refine h.ret _ h.c rfl { h.l with nt := ⟨hfq, fun g => ?_⟩, nc := fun g => ?_, ntu := (fun g n hn => by injection hn with hn; subst hn; first | exact ⟨hnew, (hup g).2.1, (hup g).2.2⟩ | exact ⟨(hup g).1, hnew, (hup g).2.2⟩ | exact ⟨(hup g).1, (hup g).2.1, hnew⟩), ntp := (fun g _ n hn => by injection hn with hn; subst hn; first | exact ⟨hnewP, (hupP g).2.1, (hupP g).2.2⟩ | exact ⟨(hupP g).1, hnewP, (hupP g).2.2⟩ | exact ⟨(hupP g).1, (hupP g).2.1, hnewP⟩) }
        · have g' : ab.N = true ∧ ab.T = true := by simpa using g
          obtain ⟨v1, v2⟩ := hr.val g'.1
          obtain ⟨t1, t2⟩ := h.l.t g'.2
          simp only [shNonTag, NonTagOutline.doctype.injEq] at v1
          subst v1
          have hge : geR ls.lexemeStart ⟨ls.tokenPartStart, cs.nextPos - 1⟩ := ⟨t2, by show _ ≤ cs.nextPos - 1; omega⟩
          refine ⟨?_, ?_⟩
          · simp only [shNonTag, shDoctype, Option.map_some, shR, t1, p4]
          · first
              | exact ⟨geOR_some hge, v2.2.1, v2.2.2⟩
              | exact ⟨v2.1, geOR_some hge, v2.2.2⟩
              | exact ⟨v2.1, v2.2.1, geOR_some hge⟩
        · obtain ⟨r, hr⟩ := h.l.nc g
          rw [hx] at hr; cases hr
      · rename_i hnx
        split
        · rename_i d' hy
          obtain ⟨d, hx⟩ := nt_doctype_r hnt hy
          exact (hnx d hx).elim
        · subst habs
          have hN' : (ab.N && ab.T) = true → ab.N = true := by
            intro g
            have g' : ab.N = true ∧ ab.T = true := by simpa using g
            exact g'.1
          exact h.ret _ h.c rfl { h.l with nt := OptRel.mono (fun _ _ hr => hr.weaken hN') hnt, ntu := fun g => h.l.ntu (hN' g), ntp := fun g => h.l.ntp (hN' g) }
    · cases habs

theorem optRel_some_l {α : Type} {R : α → α → Prop} {x y : Option α} (h : OptRel R x y) {a : α}
    (hx : x = some a) : ∃ b, y = some b ∧ R a b := by
  subst hx
  rcases optRel_cases h with ⟨h1, _⟩ | ⟨a', b, h1, rfl, hr⟩
  · cases h1
  · cases h1; exact ⟨b, rfl, hr⟩

theorem optRel_some_r {α : Type} {R : α → α → Prop} {x y : Option α} (h : OptRel R x y) {b : α}
    (hy : y = some b) : ∃ a, x = some a ∧ R a b := by
  subst hy
  rcases optRel_cases h with ⟨_, h1⟩ | ⟨a, b', rfl, h1, hr⟩
  · cases h1
  · cases h1; exact ⟨a, rfl, hr⟩

theorem optRel_none_l {α : Type} {R : α → α → Prop} {x y : Option α} (h : OptRel R x y)
    (hx : x = none) : y = none := by
  subst hx
  rcases optRel_cases h with ⟨_, h1⟩ | ⟨a, b', h1, _, _⟩
  · exact h1
  · cases h1

theorem TagRel.setName {L : Nat} {gn ga gn' : Bool} {t t' : TagOutline} (h : TagRel δ L gn ga t t') (r r' : Range)
    (hr : gn' = true → r' = shR δ r ∧ geR L r) : TagRel δ L gn' ga (setTagName t r) (setTagName t' r') := by
  obtain ⟨h1, h2, h3, h4, _, h6⟩ := h
  cases t <;> cases t' <;> simp only [TagOutline.isStart] at h1 <;> try cases h1
  · exact ⟨rfl, h2, h3, h4, hr, h6⟩
  · exact ⟨rfl, h2, h3, h4, hr, h6⟩

theorem TagRel.updHash {L : Nat} {gn ga : Bool} {t t' : TagOutline} (h : TagRel δ L gn ga t t') (ch : UInt8) :
    TagRel δ L gn ga (updTagHash t ch) (updTagHash t' ch) := by
  obtain ⟨h1, h2, h3, h4, h5, h6⟩ := h
  cases t <;> cases t' <;> simp only [TagOutline.isStart] at h1 <;> try cases h1
  · simp only [TagOutline.nameHash] at h2; subst h2
    exact ⟨rfl, rfl, h3, h4, h5, h6⟩
  · simp only [TagOutline.nameHash] at h2; subst h2
    exact ⟨rfl, rfl, h3, h4, h5, h6⟩

theorem tagRel_start_l {L : Nat} {gn ga : Bool} {t' : TagOutline} {n : Range} {hsh : Nat} {ns : Ns}
    {as : List AttrOutline} {sc : Bool} (h : TagRel δ L gn ga (.startTag n hsh ns as sc) t') :
    ∃ n' as', t' = .startTag n' hsh ns as' sc := by
  obtain ⟨h1, h2, h3, h4, _, _⟩ := h
  cases t' <;> simp only [TagOutline.isStart] at h1 <;> try cases h1
  simp only [TagOutline.nameHash, tagNs, tagSc] at h2 h3 h4
  subst h2 h3 h4
  exact ⟨_, _, rfl⟩

theorem tagRel_start_r {L : Nat} {gn ga : Bool} {t : TagOutline} {n : Range} {hsh : Nat} {ns : Ns}
    {as : List AttrOutline} {sc : Bool} (h : TagRel δ L gn ga t (.startTag n hsh ns as sc)) :
    ∃ n' as', t = .startTag n' hsh ns as' sc := by
  obtain ⟨h1, h2, h3, h4, _, _⟩ := h
  cases t <;> simp only [TagOutline.isStart] at h1 <;> try cases h1
  simp only [TagOutline.nameHash, tagNs, tagSc] at h2 h3 h4
  subst h2 h3 h4
  exact ⟨_, _, rfl⟩

theorem lexAct_tagreg (F : Frame inpS inpW δ) {ab ab' : Ab} {cs cw : Common} {ls lw : LexRegs} {xs xw : Ctx κ}
    (h : LexPre δ K ab cs cw ls lw xs xw) (a : ActName)
    (hin : readsInp a = true → (cs.nextPos ≤ inpS.length ∨ Closed inpS inpW δ))
    (ha : a = .finishTagName ∨ a = .updateTagNameHash ∨ a = .markAsSelfClosing)
    (habs : absAct a ab = some ab') :
    ActSim δ K ab' (qRequired a) (lexAct env a inpS cs ls xs) (lexAct env a inpW cw lw xw) := by
  have htag := h.l.tag
  rcases ha with rfl | rfl | rfl <;> simp only [absAct] at habs
  · split at habs
    · rename_i hPS
      have hP : ab.P = true := by simp only [Bool.and_eq_true] at hPS; exact hPS.1
      simp only [Option.some.injEq] at habs
      obtain ⟨p1, p2, p3, p4⟩ := h.pos hP
      simp only [lexAct, tokenPartRange_eq]
      split
      · rename_i t hx
        obtain ⟨t', hy, hr⟩ := optRel_some_l htag hx
        rw [hy]
        subst habs
        refine h.ret _ h.c rfl { h.l with tag := ?_ }
        refine TagRel.setName hr _ _ (fun g => ?_)
        obtain ⟨t1, t2⟩ := h.l.t g
        exact ⟨by simp only [shR, t1, p4], t2, by show _ ≤ cs.nextPos - 1; omega⟩
      · rename_i hx
        rw [optRel_none_l htag hx]
        exact Or.inr ⟨rfl, (fun hh => by rcases hh with hh | hh <;> cases hh), fun _ _ hh => by cases hh⟩
    · cases habs
  · split at habs
    · rename_i hP
      simp only [Option.some.injEq] at habs; subst habs
      obtain ⟨p1, p2, p3, p4⟩ := h.pos hP
      simp only [lexAct]
      have hget : inpW[cw.pos]? = inpS[cs.pos]? := by
        rw [p1]; apply F.get'
        rcases hin rfl with hin | hin
        · left; omega
        · right; exact hin
      rw [hget]
      split
      · rename_i ch _
        split
        · rename_i t hx
          obtain ⟨t', hy, hr⟩ := optRel_some_l htag hx
          rw [hy]
          exact h.ret _ h.c rfl { h.l with tag := hr.updHash ch }
        · rename_i hx
          rw [optRel_none_l htag hx]
          exact Or.inr ⟨rfl, (fun _ => ⟨⟨h.c, h.l, h.sim, h.pc⟩, h.k⟩), fun _ _ hh => by cases hh⟩
      · exact h.ret _ h.c rfl h.l
    · cases habs
  · simp only [Option.some.injEq] at habs; subst habs
    simp only [lexAct]
    split
    · rename_i n hsh ns as sc hx
      obtain ⟨t', hy, hr⟩ := optRel_some_l htag hx
      obtain ⟨n', as', rfl⟩ := tagRel_start_l hr
      rw [hy]
      obtain ⟨h1, h2, h3, h4, h5, h6⟩ := hr
      exact h.ret _ h.c rfl { h.l with tag := ⟨rfl, rfl, rfl, rfl, h5, h6⟩ }
    · rename_i hnx
      split
      · rename_i n hsh ns as sc hy
        obtain ⟨t, hx, hr⟩ := optRel_some_r htag hy
        obtain ⟨n', as', rfl⟩ := tagRel_start_r hr
        exact (hnx _ _ _ _ _ hx).elim
      · exact h.ret _ h.c rfl h.l

theorem lexAct_attr (F : Frame inpS inpW δ) {ab ab' : Ab} {cs cw : Common} {ls lw : LexRegs} {xs xw : Ctx κ}
    (h : LexPre δ K ab cs cw ls lw xs xw) (a : ActName)
    (hin : readsInp a = true → (cs.nextPos ≤ inpS.length ∨ Closed inpS inpW δ))
    (ha : a = .startAttr ∨ a = .finishAttrName ∨ a = .finishAttrValue ∨ a = .finishAttr)
    (habs : absAct a ab = some ab') :
    ActSim δ K ab' (qRequired a) (lexAct env a inpS cs ls xs) (lexAct env a inpW cw lw xw) := by
  have htag := h.l.tag
  have hattr := h.l.attr
  rcases ha with rfl | rfl | rfl | rfl <;> simp only [absAct] at habs
  · -- start_attr
    split at habs
    · rename_i hP
      simp only [Option.some.injEq] at habs; subst habs
      obtain ⟨p1, p2, p3, p4⟩ := h.pos hP
      simp only [lexAct]
      split
      · rename_i n hsh ns as sc hx
        obtain ⟨t', hy, hr⟩ := optRel_some_l htag hx
        obtain ⟨n', as', rfl⟩ := tagRel_start_l hr
        rw [hy]
        have htag' : OptRel (TagRel δ ls.lexemeStart ab.Gn ab.Ga) ls.curTag (some (TagOutline.startTag n' hsh ns as' sc)) := by
          rw [← hy]; exact htag
        exact h.ret _ h.c rfl { h.l with attr := ⟨fun g => by cases g⟩, t := (fun _ => ⟨p1, p3⟩), tag := htag' }
      · rename_i hnx
        split
        · rename_i n hsh ns as sc hy
          obtain ⟨t, hx, hr⟩ := optRel_some_r htag hy
          obtain ⟨n', as', rfl⟩ := tagRel_start_r hr
          exact (hnx _ _ _ _ _ hx).elim
        · exact h.ret _ h.c rfl { h.l with attr := OptRel.mono (fun _ _ hr => hr.weaken fun g => by cases g) hattr }
    · cases habs
  · -- finish_attr_name
    split at habs
    · rename_i hP
      simp only [Option.some.injEq] at habs; subst habs
      obtain ⟨p1, p2, p3, p4⟩ := h.pos hP
      simp only [lexAct, tokenPartRange_eq]
      split
      · rename_i a hx
        obtain ⟨a', hy, hr⟩ := optRel_some_l hattr hx
        rw [hy]
        refine h.ret _ h.c rfl { h.l with attr := ⟨fun g => ?_⟩ }
        obtain ⟨t1, t2⟩ := h.l.t g
        have hge : geR ls.lexemeStart ⟨ls.tokenPartStart, cs.nextPos - 1⟩ := ⟨t2, by show _ ≤ cs.nextPos - 1; omega⟩
        refine ⟨by simp only [shA, shR, t1, p4], hge, ⟨hge.2, hge.2⟩, hge⟩
      · rename_i hx
        rw [optRel_none_l hattr hx]
        exact h.ret _ h.c rfl { h.l with attr := (by rw [hx, optRel_none_l hattr hx]; trivial) }
    · cases habs
  · -- finish_attr_value
    split at habs
    · rename_i hP
      simp only [Option.some.injEq] at habs; subst habs
      obtain ⟨p1, p2, p3, p4⟩ := h.pos hP
      simp only [lexAct, tokenPartRange_eq]
      have hget : inpW[cs.nextPos - 1 + δ]? = inpS[cs.nextPos - 1]? := by
        apply F.get'
        rcases hin rfl with hin | hin
        · left; omega
        · right; exact hin
      rw [p4, hget, h.c.closingQuote]
      generalize inpS[cs.nextPos - 1]? = o
      split
      · rename_i a hx
        obtain ⟨a', hy, hr⟩ := optRel_some_l hattr hx
        rw [hy]
        refine h.ret _ h.c rfl { h.l with attr := ⟨fun g => ?_⟩ }
        have g' : ab.A = true ∧ ab.T = true := by simpa using g
        obtain ⟨t1, t2⟩ := h.l.t g'.2
        obtain ⟨v1, v2⟩ := hr.val g'.1
        subst v1
        have hge : geR ls.lexemeStart ⟨ls.tokenPartStart, cs.nextPos - 1⟩ := ⟨t2, by show _ ≤ cs.nextPos - 1; omega⟩
        have hge2 := hge.2
        simp only at hge2
        cases o with
        | none =>
          refine ⟨?_, v2.1, hge, v2.2.2.1, hge2⟩
          simp only [shA, shR, t1]
        | some ch =>
          by_cases hq : (ch == cs.closingQuote) = true
          · simp only [hq, if_true]
            refine ⟨?_, v2.1, hge, v2.2.2.1, by show _ ≤ cs.nextPos - 1 + 1; omega⟩
            simp only [shA, shR, t1, AttrOutline.mk.injEq, Range.mk.injEq, true_and]; omega
          · simp only [hq]
            refine ⟨?_, v2.1, hge, v2.2.2.1, hge2⟩
            simp [shA, shR, t1]
      · rename_i hx
        rw [optRel_none_l hattr hx]
        exact h.ret _ h.c rfl { h.l with attr := (by rw [hx, optRel_none_l hattr hx]; trivial) }
    · cases habs
  · -- finish_attr
    simp only [Option.some.injEq] at habs; subst habs
    simp only [lexAct]
    split
    · rename_i a hx
      obtain ⟨a', hy, hra⟩ := optRel_some_l hattr hx
      rw [hy]
      simp only
      split
      · rename_i n hsh ns as sc htx
        obtain ⟨t', hty, hr⟩ := optRel_some_l htag htx
        obtain ⟨n', as', rfl⟩ := tagRel_start_l hr
        rw [hty]
        obtain ⟨h1, h2, h3, h4, h5, h6⟩ := hr
        refine h.ret _ h.c rfl { h.l with attr := trivial, tag := ⟨rfl, rfl, rfl, rfl, h5, fun g => ?_⟩ }
        have g' : ab.Ga = true ∧ ab.A = true := by simpa using g
        obtain ⟨a1, a2⟩ := h6 g'.1
        obtain ⟨v1, v2⟩ := hra.val g'.2
        simp only [tagAttrs] at a1 a2 ⊢
        subst a1 v1
        refine ⟨by simp, fun x hx => ?_⟩
        rcases List.mem_append.mp hx with hx | hx
        · exact a2 x hx
        · simp only [List.mem_singleton] at hx; subst hx; exact v2
      · rename_i hnx
        split
        · rename_i n hsh ns as sc hty
          obtain ⟨t, htx, hr⟩ := optRel_some_r htag hty
          obtain ⟨n', as', rfl⟩ := tagRel_start_r hr
          exact (hnx _ _ _ _ _ htx).elim
        · refine h.ret _ h.c rfl { h.l with attr := trivial, tag := OptRel.mono (fun _ _ hr => hr.weaken (Nat.le_refl _) id fun g => ?_) htag }
          have g' : ab.Ga = true ∧ ab.A = true := by simpa using g
          exact g'.1
    · rename_i hx
      rw [optRel_none_l hattr hx]
      have hattr' : OptRel (AttrRel δ ls.lexemeStart true) ls.curAttr lw.curAttr := by rw [hx, optRel_none_l hattr hx]; trivial
      refine h.ret _ h.c rfl { h.l with attr := hattr', tag := OptRel.mono (fun _ _ hr => hr.weaken (Nat.le_refl _) id fun g => ?_) htag }
      have g' : ab.Ga = true ∧ ab.A = true := by simpa using g
      exact g'.1

/-- **All lexer actions.** -/
theorem lexAct_sim (F : Frame inpS inpW δ) (hops : OpsSim env.ops inpS inpW δ K Loc) (a : ActName) {d : Nat}
    {ab ab' : Ab} (habs : absAct a ab = some ab') {cs cw : Common} {ls lw : LexRegs} {xs xw : Ctx κ}
    (hc : CRel δ 0 cs cw) (hl : LexRel δ d ab cs.nextPos ls lw) (hsim : xw.sim = xs.sim)
    (hpc : xs.prevConsumed = xw.prevConsumed + δ) (hK : K d xs.sink xw.sink)
    (hloc : 0 < d → Loc xs.sink xs.prevConsumed ls.lexemeStart cs.lastTextType)
    (hd : d = 0 ∨ a = .emitText ∨ a = .emitTextAndEof)
    (hin : readsInp a = true → (cs.nextPos ≤ inpS.length ∨ Closed inpS inpW δ)) :
    ActSim δ K ab' (qRequired a) (lexAct env a inpS cs ls xs) (lexAct env a inpW cw lw xw) := by
  by_cases htext : a = .emitText ∨ a = .emitTextAndEof
  · rcases htext with rfl | rfl <;> simp only [absAct] at habs
    · split at habs
      · rename_i hP
        simp only [Option.some.injEq] at habs; subst habs
        exact lexEmitText_sim hops hc hl hP hsim hpc hK hloc ab.stale_noLex
      · cases habs
    · split at habs
      · rename_i hP
        simp only [Option.some.injEq] at habs; subst habs
        simp only [lexAct]
        exact andThen_sim (lexEmitText_sim hops hc hl hP hsim hpc hK hloc ab.stale_noLex)
          (fun ms mw hm hk => lexEmitEof_sim hops hm hk hP ab.stale_noLex)
      · cases habs
  · have hd0 : d = 0 := by
      rcases hd with h | h | h
      · exact h
      · exact absurd (Or.inl h) htext
      · exact absurd (Or.inr h) htext
    subst hd0
    have h : LexPre δ K ab cs cw ls lw xs xw := ⟨hc, hl, hsim, hpc, hK⟩
    cases a
    case emitTextAndEof => exact absurd (Or.inr rfl) htext
    case emitText => exact absurd (Or.inl rfl) htext
    case emitCurrentToken =>
      simp only [absAct] at habs
      split at habs
      · rename_i hPN
        simp only [Bool.and_eq_true] at hPN
        simp only [Option.some.injEq] at habs; subst habs
        obtain ⟨p1, p2, p3, p4⟩ := h.pos hPN.1
        have hnt : OptRel (NonTagRel δ ls.lexemeStart true) ls.curNonTag lw.curNonTag := by
          have := hl.nt; rw [hPN.2] at this; exact this
        simp only [lexAct]
        rw [optNonTag_eq hnt, p1, show cs.pos + δ + 1 = cs.pos + 1 + δ by omega]
        exact lexEmitNonTag_sim (ab' := { ab.stale with P := false }) (ls := { ls with curNonTag := none })
          (lw := { lw with curNonTag := none }) (ls0 := ls) (lw0 := lw)
          hops ls.curNonTag (cs.pos + 1) hc hl hsim hpc hK ⟨rfl, rfl, rfl, rfl, rfl, rfl⟩
          (by omega) (fun g => by cases g) rfl rfl hl.fd (Or.inl ⟨rfl, rfl⟩) ⟨rfl, rfl⟩ (Or.inr ⟨rfl, rfl⟩)
          (dtIn_of (hin rfl) (hl.ntu hPN.2))
      · cases habs
    case emitCurrentTokenAndEof =>
      simp only [absAct] at habs
      split at habs
      · rename_i hPN
        simp only [Bool.and_eq_true] at hPN
        simp only [Option.some.injEq] at habs; subst habs
        obtain ⟨p1, p2, p3, p4⟩ := h.pos hPN.1
        have hnt : OptRel (NonTagRel δ ls.lexemeStart true) ls.curNonTag lw.curNonTag := by
          have := hl.nt; rw [hPN.2] at this; exact this
        simp only [lexAct]
        rw [optNonTag_eq hnt, p1]
        exact andThen_sim
          (lexEmitNonTag_sim (ls := { ls with curNonTag := none })
            (lw := { lw with curNonTag := none }) (ls0 := ls) (lw0 := lw) hops ls.curNonTag cs.pos hc hl hsim hpc hK ab.stale_noLex
            (by omega) (fun _ => by omega) rfl rfl hl.fd (Or.inl ⟨rfl, rfl⟩) ⟨rfl, rfl⟩ (Or.inr ⟨rfl, rfl⟩)
            (dtIn_of (hin rfl) (hl.ntu hPN.2)))
          (fun ms mw hm hk => lexEmitEof_sim hops hm hk hPN.1 ab.stale_noLex)
      · cases habs
    case emitRawWithoutToken =>
      simp only [absAct] at habs
      split at habs
      · rename_i hP
        simp only [Option.some.injEq] at habs; subst habs
        obtain ⟨p1, p2, p3, p4⟩ := h.pos hP
        simp only [lexAct]
        rw [p1, show cs.pos + δ + 1 = cs.pos + 1 + δ by omega]
        exact lexEmitNonTag_sim (ab' := { ab.stale with P := false }) (ls := ls) (lw := lw) (ls0 := ls) (lw0 := lw)
          hops none (cs.pos + 1) hc hl hsim hpc hK ⟨rfl, rfl, rfl, rfl, rfl, rfl⟩
          (by omega) (fun g => by cases g) rfl rfl hl.fd (Or.inl ⟨rfl, rfl⟩) ⟨rfl, rfl⟩ (Or.inl ⟨rfl, rfl⟩) trivial
      · cases habs
    case emitRawWithoutTokenAndEof =>
      simp only [absAct] at habs
      split at habs
      · rename_i hP
        simp only [Option.some.injEq] at habs; subst habs
        obtain ⟨p1, p2, p3, p4⟩ := h.pos hP
        simp only [lexAct]
        rw [p1]
        exact andThen_sim
          (lexEmitNonTag_sim (ls := ls) (lw := lw) (ls0 := ls) (lw0 := lw) hops none cs.pos hc hl hsim hpc hK ab.stale_noLex
            (by omega) (fun _ => by omega) rfl rfl hl.fd (Or.inl ⟨rfl, rfl⟩) ⟨rfl, rfl⟩ (Or.inl ⟨rfl, rfl⟩) trivial)
          (fun ms mw hm hk => lexEmitEof_sim hops hm hk hP ab.stale_noLex)
      · cases habs
    case emitTag =>
      simp only [absAct] at habs
      split at habs
      · rename_i hPG
        simp only [Bool.and_eq_true] at hPG
        simp only [Option.some.injEq] at habs; subst habs
        exact lexEmitTag_sim F hops hc hl hPG.1.1 hPG.1.2 hPG.2 hsim hpc hK ⟨rfl, rfl, rfl, rfl, rfl, rfl⟩ rfl
      · cases habs
    case createStartTag => exact lexAct_create h _ (by simp) habs
    case createEndTag => exact lexAct_create h _ (by simp) habs
    case createDoctype => exact lexAct_create h _ (by simp) habs
    case createComment => exact lexAct_create h _ (by simp) habs
    case startTokenPart => exact lexAct_create h _ (by simp) habs
    case markCommentTextEnd => exact lexAct_comment h _ (by simp) habs
    case shiftCommentTextEndBy n => exact lexAct_comment h _ (Or.inr ⟨n, rfl⟩) habs
    case setForceQuirks => exact lexAct_doctype h _ (by simp) habs
    case finishDoctypeName => exact lexAct_doctype h _ (by simp) habs
    case finishDoctypePublicId => exact lexAct_doctype h _ (by simp) habs
    case finishDoctypeSystemId => exact lexAct_doctype h _ (by simp) habs
    case finishTagName => exact lexAct_tagreg F h _ hin (by simp) habs
    case updateTagNameHash => exact lexAct_tagreg F h _ hin (by simp) habs
    case markAsSelfClosing => exact lexAct_tagreg F h _ hin (by simp) habs
    case startAttr => exact lexAct_attr F h _ hin (by simp) habs
    case finishAttrName => exact lexAct_attr F h _ hin (by simp) habs
    case finishAttrValue => exact lexAct_attr F h _ hin (by simp) habs
    case finishAttr => exact lexAct_attr F h _ hin (by simp) habs
    case setClosingQuoteToDouble =>
      simp only [absAct, Option.some.injEq] at habs; subst habs
      exact h.ret _ { hc with closingQuote := rfl } rfl hl
    case setClosingQuoteToSingle =>
      simp only [absAct, Option.some.injEq] at habs; subst habs
      exact h.ret _ { hc with closingQuote := rfl } rfl hl
    case markTagStart =>
      simp only [absAct] at habs
      split at habs
      · simp only [Option.some.injEq] at habs; subst habs
        exact h.ret _ hc rfl (hl.weaken' id id id id id id id)
      · cases habs
    case unmarkTagStart =>
      simp only [absAct, Option.some.injEq] at habs; subst habs
      exact h.ret _ hc rfl (hl.weaken' id id id id id id id)
    case enterCdata =>
      simp only [absAct, Option.some.injEq] at habs; subst habs
      exact h.ret _ { hc with lastTextType := rfl } rfl hl
    case leaveCdata =>
      simp only [absAct, Option.some.injEq] at habs; subst habs
      exact h.ret _ { hc with lastTextType := rfl } rfl hl

end

end LolHtml.Model.Chunk
