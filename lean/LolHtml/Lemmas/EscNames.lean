import LolHtml.Lemmas.Esc

/-! Lemmas about name validation (tag names, attribute names) against the WHATWG name states. -/
namespace LolHtml.Lemmas.EscNames
open LolHtml LolHtml.Model.Esc LolHtml.Spec.Esc

theorem ownedFromStrWithoutReplacements_utf8 (s : Bytes) :
    ownedFromStrWithoutReplacements Codec.utf8 s = some s := rfl

theorem find?_eq_none_contains {reject : List UInt8} {name : Bytes} :
    name.find? (fun ch => reject.contains ch) = none ↔ ∀ b ∈ name, reject.contains b = false := by
  simp [List.find?_eq_none]

theorem mem_takeWhile_imp {p : UInt8 → Bool} {x : UInt8} : ∀ {l : Bytes}, x ∈ l.takeWhile p → p x = true
  | [], h => by cases h
  | a :: l, h => by
    by_cases ha : p a = true
    · rw [List.takeWhile_cons_of_pos ha] at h
      cases h with
      | head => exact ha
      | tail _ h' => exact mem_takeWhile_imp h'
    · rw [List.takeWhile_cons_of_neg ha] at h; cases h

theorem takeWhile_stop {p : UInt8 → Bool} {a : Bytes} {d : UInt8} (ha : ∀ x ∈ a, p x = true)
    (hd : p d = false) (rest : Bytes) :
    (a ++ d :: rest).takeWhile p = a ∧ (a ++ d :: rest).dropWhile p = d :: rest := by
  constructor
  · rw [List.takeWhile_append_of_pos ha, List.takeWhile_cons_of_neg (by simp [hd])]; simp
  · rw [List.dropWhile_append_of_pos ha, List.dropWhile_cons_of_neg (by simp [hd])]

theorem takeWhile_short {p : UInt8 → Bool} (a : Bytes) {b : UInt8} (hb : p b = false) (x : Bytes) :
    ((a ++ b :: x).takeWhile p).length ≤ a.length := by
  rw [List.takeWhile_append]
  split
  · rw [List.takeWhile_cons_of_neg (by simp [hb])]; simp
  · exact (List.takeWhile_prefix _).length_le

/-! ## Tag names -/

/-- Acceptance by `tag_name_bytes_from_str` in a UTF-8 document, unfolded. -/
theorem tagName_ok_iff {reject : List UInt8} {fa : Bool} {name o : Bytes} :
    tagNameBytesFromStrWith reject fa Codec.utf8 name = .ok o ↔
      o = name ∧ (∃ ch rest, name = ch :: rest ∧ (fa = true → isAsciiAlpha ch = true)) ∧
        ∀ b ∈ name, reject.contains b = false := by
  unfold tagNameBytesFromStrWith
  cases name with
  | nil => simp
  | cons ch rest =>
    simp only [List.head?_cons]
    by_cases hfa : (fa && !isAsciiAlpha ch) = true
    · rw [if_pos hfa]
      simp only [Bool.and_eq_true, Bool.not_eq_true'] at hfa
      simp [hfa.1, hfa.2]
    · rw [if_neg hfa]
      have hfa' : fa = true → isAsciiAlpha ch = true := by
        intro h; subst h; simpa using hfa
      cases hf : (ch :: rest).find? (fun ch => reject.contains ch) with
      | some x =>
        have hx := List.find?_some hf
        have hm := List.mem_of_find?_eq_some hf
        simp only [reduceCtorEq, false_iff, not_and]
        intro _ _ hall
        rw [hall x hm] at hx; cases hx
      | none =>
        rw [find?_eq_none_contains] at hf
        simp only [ownedFromStrWithoutReplacements_utf8, Except.ok.injEq]
        constructor
        · intro h; exact ⟨h.symm, ⟨ch, rest, rfl, hfa'⟩, hf⟩
        · intro h; exact h.1.symm

/-- Every delimiter of the WHATWG tag name state is on the reject list. -/
def delimsRejected (delims reject : List UInt8) : Bool := delims.all fun d => reject.contains d

/-- Every rejected byte is a delimiter of the WHATWG name state. -/
def rejectedAreDelims (delims reject : List UInt8) : Bool := reject.all fun d => delims.contains d

theorem tagNameSpan_of_ok {reject : List UInt8} (hs : delimsRejected tagNameDelims reject = true)
    {name o : Bytes} (h : tagNameBytesFromStrWith reject true Codec.utf8 name = .ok o)
    {d : UInt8} (hd : d ∈ tagNameDelims) (rest : Bytes) :
    tagNameSpan (o ++ d :: rest) = some (o, d :: rest) := by
  obtain ⟨ho, ⟨ch, r, hn, halpha⟩, hall⟩ := tagName_ok_iff.mp h
  subst ho
  simp only [delimsRejected, List.all_eq_true] at hs
  have hp : ∀ x ∈ o, (!tagNameDelims.contains x) = true := by
    intro x hx
    cases hc : tagNameDelims.contains x with
    | false => rfl
    | true =>
      have := hs x (by simpa using hc)
      rw [hall x hx] at this; cases this
  have hdd : (!tagNameDelims.contains d) = false := by simp [hd]
  obtain ⟨t1, t2⟩ := takeWhile_stop hp hdd rest
  subst hn
  unfold tagNameSpan
  simp only [List.cons_append] at t1 t2 ⊢
  rw [if_pos (halpha rfl), t1, t2]

theorem tagName_ok_of_span {reject : List UInt8} (hs : rejectedAreDelims tagNameDelims reject = true)
    {name : Bytes} {d : UInt8} {rest : Bytes}
    (h : tagNameSpan (name ++ d :: rest) = some (name, d :: rest)) (hd : d ∈ tagNameDelims) :
    tagNameBytesFromStrWith reject true Codec.utf8 name = .ok name := by
  rw [tagName_ok_iff]
  simp only [rejectedAreDelims, List.all_eq_true] at hs
  cases name with
  | nil =>
    exfalso
    simp only [List.nil_append, tagNameSpan] at h
    split at h
    · rename_i halpha
      simp only [tagNameDelims, List.mem_cons, List.not_mem_nil, or_false] at hd
      rcases hd with hd | hd | hd | hd | hd | hd | hd <;> subst hd <;> simp [isAsciiAlpha] at halpha
    · cases h
  | cons ch r =>
    simp only [List.cons_append, tagNameSpan] at h
    split at h
    · rename_i halpha
      simp only [Option.some.injEq, Prod.mk.injEq] at h
      refine ⟨rfl, ⟨ch, r, rfl, fun _ => halpha⟩, ?_⟩
      intro b hb
      have hb' : b ∈ (ch :: (r ++ d :: rest)).takeWhile (fun x => !tagNameDelims.contains x) := by
        rw [h.1]; exact hb
      have := mem_takeWhile_imp hb'
      cases hc : reject.contains b with
      | false => rfl
      | true =>
        have := hs b (by simpa using hc)
        simp_all
    · cases h

/-- A name containing a rejected byte would be cut short by the tag name state. -/
theorem tagNameSpan_short {reject : List UInt8} (hs : rejectedAreDelims tagNameDelims reject = true)
    {name : Bytes} {b : UInt8} (hb : b ∈ name) (hr : reject.contains b = true) (rest : Bytes)
    {sp r : Bytes} (h : tagNameSpan (name ++ rest) = some (sp, r)) : sp.length < name.length := by
  simp only [rejectedAreDelims, List.all_eq_true] at hs
  have hdel : (!tagNameDelims.contains b) = false := by
    have := hs b (by simpa using hr); rw [this]; rfl
  obtain ⟨a, c, hac⟩ := List.append_of_mem hb
  subst hac
  unfold tagNameSpan at h
  split at h
  · cases h
  · split at h
    · simp only [Option.some.injEq, Prod.mk.injEq] at h
      rw [← h.1]
      have := takeWhile_short (p := fun x => !tagNameDelims.contains x) a hdel (c ++ rest)
      simp only [List.append_assoc, List.cons_append] at this ⊢
      simp only [List.length_append, List.length_cons]
      omega
    · cases h

/-! ## Attribute names -/

theorem attrName_ok_iff {reject : List UInt8} {name o : Bytes} :
    attrNameFromStringWith reject Codec.utf8 name = .ok o ↔
      o = name ∧ name ≠ [] ∧ ∀ b ∈ name, reject.contains b = false := by
  unfold attrNameFromStringWith
  cases name with
  | nil => simp
  | cons ch rest =>
    simp only [List.isEmpty_cons, Bool.false_eq_true, if_false]
    cases hf : (ch :: rest).find? (fun ch => reject.contains ch) with
    | some x =>
      have hx := List.find?_some hf
      have hm := List.mem_of_find?_eq_some hf
      simp only [reduceCtorEq, false_iff, not_and]
      intro _ _ hall
      rw [hall x hm] at hx; cases hx
    | none =>
      rw [find?_eq_none_contains] at hf
      simp only [ownedFromStrWithoutReplacements_utf8, Except.ok.injEq]
      constructor
      · intro h; exact ⟨h.symm, by simp, hf⟩
      · intro h; exact h.1.symm

theorem attrNameSpan_of_ok {reject : List UInt8} (hs : delimsRejected attrNameDelims reject = true)
    {name o : Bytes} (h : attrNameFromStringWith reject Codec.utf8 name = .ok o)
    {d : UInt8} (hd : d ∈ attrNameDelims) (rest : Bytes) :
    attrNameSpan (o ++ d :: rest) = some (o, d :: rest) := by
  obtain ⟨ho, hne, hall⟩ := attrName_ok_iff.mp h
  subst ho
  simp only [delimsRejected, List.all_eq_true] at hs
  have hp : ∀ x ∈ o, attrNameDelims.contains x = false := by
    intro x hx
    cases hc : attrNameDelims.contains x with
    | false => rfl
    | true =>
      have := hs x (by simpa using hc)
      rw [hall x hx] at this; cases this
  cases o with
  | nil => exact absurd rfl hne
  | cons ch r =>
    have hch := hp ch (by simp)
    have hws : htmlWhitespace.contains ch = false := by
      simp only [attrNameDelims, htmlWhitespace, List.contains_eq_mem, List.mem_cons, List.not_mem_nil,
        or_false, decide_eq_false_iff_not, not_or] at hch ⊢
      exact ⟨hch.1, hch.2.1, hch.2.2.1, hch.2.2.2.1, hch.2.2.2.2.1⟩
    have h47 : ch ≠ 47 ∧ ch ≠ 62 := by
      simp only [attrNameDelims, List.contains_eq_mem, List.mem_cons, List.not_mem_nil,
        or_false, decide_eq_false_iff_not, not_or] at hch
      exact ⟨hch.2.2.2.2.2.1, hch.2.2.2.2.2.2.1⟩
    have hp' : ∀ x ∈ r, (!attrNameDelims.contains x) = true := by
      intro x hx; rw [hp x (by simp [hx])]; rfl
    have hdd : (!attrNameDelims.contains d) = false := by simp [hd]
    obtain ⟨t1, t2⟩ := takeWhile_stop hp' hdd rest
    unfold attrNameSpan
    simp only [List.cons_append]
    rw [List.dropWhile_cons_of_neg (by rw [hws]; simp)]
    simp only [t1, t2]
    have e1 : (ch == 47) = false := by simpa using h47.1
    have e2 : (ch == 62) = false := by simpa using h47.2
    rw [e1, e2]; rfl

/-- The name span found by the attribute-name states never contains a delimiter after its first
byte, and its first byte is neither whitespace nor `/` nor `>`. -/
theorem attrNameSpan_shape {input sp r : Bytes} (h : attrNameSpan input = some (sp, r)) :
    ∃ b tl, sp = b :: tl ∧ htmlWhitespace.contains b = false ∧ b ≠ 47 ∧ b ≠ 62 ∧
      ∀ x ∈ tl, attrNameDelims.contains x = false := by
  unfold attrNameSpan at h
  split at h
  · cases h
  · rename_i b rest heq
    split at h
    · cases h
    · rename_i hb
      simp only [Option.some.injEq, Prod.mk.injEq] at h
      refine ⟨b, _, h.1.symm, ?_, ?_, ?_, ?_⟩
      · have := @List.head_dropWhile_not _ (fun x => htmlWhitespace.contains x) input
          (by rw [heq]; simp)
        simp only [heq, List.head_cons] at this
        simpa using this
      · intro hb'; apply hb; simp [hb']
      · intro hb'; apply hb; simp [hb']
      · intro x hx
        have := mem_takeWhile_imp hx
        simpa using this

theorem attrName_ok_of_span {reject : List UInt8} (hs : rejectedAreDelims attrNameDelims reject = true)
    {name : Bytes} {d : UInt8} {rest : Bytes}
    (h : attrNameSpan (name ++ d :: rest) = some (name, d :: rest)) (h61 : name.head? ≠ some 61) :
    attrNameFromStringWith reject Codec.utf8 name = .ok name := by
  rw [attrName_ok_iff]
  simp only [rejectedAreDelims, List.all_eq_true] at hs
  obtain ⟨b, tl, hsp, hws, h47, h62, htl⟩ := attrNameSpan_shape h
  subst hsp
  refine ⟨rfl, by simp, ?_⟩
  intro x hx
  cases hc : reject.contains x with
  | false => rfl
  | true =>
    exfalso
    have hdel := hs x (by simpa using hc)
    cases hx with
    | head =>
      simp only [attrNameDelims, htmlWhitespace, List.contains_eq_mem, List.mem_cons, List.not_mem_nil,
        or_false, decide_eq_true_eq, decide_eq_false_iff_not, not_or] at hdel hws
      simp only [List.head?_cons, ne_eq, Option.some.injEq] at h61
      rcases hdel with h | h | h | h | h | h | h | h
      · exact hws.1 h
      · exact hws.2.1 h
      · exact hws.2.2.1 h
      · exact hws.2.2.2.1 h
      · exact hws.2.2.2.2 h
      · exact h47 h
      · exact h62 h
      · exact h61 h
    | tail _ hx' =>
      rw [htl x hx'] at hdel; cases hdel

/-- `name="value"` reads back as exactly that attribute when the value contains no `"`. -/
theorem attrScanDq_of_ok {reject : List UInt8} (hs : delimsRejected attrNameDelims reject = true)
    {name o : Bytes} (h : attrNameFromStringWith reject Codec.utf8 name = .ok o)
    {v : Bytes} (hv : (34 : UInt8) ∉ v) (rest : Bytes) :
    attrScanDq (o ++ [61, 34] ++ v ++ [34] ++ rest) = some (o, v, rest) := by
  have h1 := attrNameSpan_of_ok hs h (d := 61) (by simp [attrNameDelims]) (34 :: (v ++ 34 :: rest))
  have hp : ∀ x ∈ v, (x != 34) = true := by
    intro x hx; simp only [bne_iff_ne, ne_eq]; intro hx'; subst hx'; exact hv hx
  obtain ⟨t1, t2⟩ := takeWhile_stop (p := fun x => x != 34) (d := 34) hp (by simp) rest
  unfold attrScanDq
  have : o ++ [61, 34] ++ v ++ [34] ++ rest = o ++ 61 :: 34 :: (v ++ 34 :: rest) := by simp
  rw [this, h1]
  simp only [t1, t2]

end LolHtml.Lemmas.EscNames
