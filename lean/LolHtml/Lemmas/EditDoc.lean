/-
Lemmas about the emission switch of `EditModel.EditDoc` (for C07_removed_content).
-/
import LolHtml.Model.EditDoc

namespace LolHtml.Lemmas.EditDoc
open LolHtml LolHtml.EditModel

/-- Number of open elements whose content is being removed. -/
def countRemoved (stack : List StackItem) : Nat :=
  (stack.filter fun it => it.data.removeContent).length

def countRemovedD (ds : List ElementDescriptor) : Nat :=
  (ds.filter fun d => d.removeContent).length

/-- The invariant tying the three pieces of state of the emission switch together. -/
structure RInv (s : St) : Prop where
  count : s.removedCount = countRemoved s.stack
  emission : s.emission = (s.removedCount == 0)
  noUnderflow : s.faultRemoved = false

/-- `s'` differs from `s` at most in the handler bookkeeping (invocation counters, user counts,
end-tag handler vector, the other fault flag). -/
structure Frame (s s' : St) : Prop where
  stack : s'.stack = s.stack
  removedCount : s'.removedCount = s.removedCount
  emission : s'.emission = s.emission
  faultRemoved : s'.faultRemoved = s.faultRemoved

theorem Frame.refl (s : St) : Frame s s := ⟨rfl, rfl, rfl, rfl⟩

theorem Frame.trans {a b c : St} (h1 : Frame a b) (h2 : Frame b c) : Frame a c :=
  ⟨h2.stack.trans h1.stack, h2.removedCount.trans h1.removedCount, h2.emission.trans h1.emission,
   h2.faultRemoved.trans h1.faultRemoved⟩

theorem RInv.of_frame {s s' : St} (h : RInv s) (f : Frame s s') : RInv s' :=
  ⟨by rw [f.removedCount, f.stack]; exact h.count,
   by rw [f.emission, f.removedCount]; exact h.emission,
   by rw [f.faultRemoved]; exact h.noUnderflow⟩

theorem forEachActive_frame {τ : Type} (H : List Handler) (pick : Script → Option (Nat → τ → τ))
    (act : Nat → Bool) (s : St) (t : τ) : Frame s (forEachActive H pick act s t).1 :=
  ⟨rfl, rfl, rfl, rfl⟩

theorem textTokenProduced_frame (H : List Handler) (enc : Enc) (s : St) (c : TextChunk) :
    Frame s (textTokenProduced H enc s c).1 := ⟨rfl, rfl, rfl, rfl⟩

theorem textTokenProduced_out (H : List Handler) (enc : Enc) (s : St) (c : TextChunk)
    (h : s.emission = false) : (textTokenProduced H enc s c).2 = [] := by
  simp [textTokenProduced, forEachActive, h]

theorem flushPendingText_frame (H : List Handler) (enc : Enc) (s : St) :
    Frame s (flushPendingText H enc s).1 := by
  unfold flushPendingText
  split
  · exact ⟨rfl, rfl, rfl, rfl⟩
  · exact Frame.refl s

theorem flushPendingText_out (H : List Handler) (enc : Enc) (s : St) (h : s.emission = false) :
    (flushPendingText H enc s).2 = [] := by
  unfold flushPendingText
  split
  · exact textTokenProduced_out H enc _ _ h
  · rfl

theorem decCounts_frame (H : List Handler) (s : St) (ids : List Nat) : Frame s (decCounts H s ids) := by
  unfold decCounts
  induction ids generalizing s with
  | nil => exact Frame.refl s
  | cons i ids ih =>
    rw [List.foldl_cons]
    refine Frame.trans ?_ (ih _)
    split
    · split <;> exact ⟨rfl, rfl, rfl, rfl⟩
    · exact Frame.refl s

theorem activateEndTagHandler_frame (s : St) (idx : Option Nat) :
    Frame s (activateEndTagHandler s idx) := by
  unfold activateEndTagHandler
  split
  · split <;> exact ⟨rfl, rfl, rfl, rfl⟩
  · exact Frame.refl s

/-- One popped element: the counter goes down by one exactly if the element had its content
removed, and it does not underflow if it counted that element. -/
theorem stopMatching_spec (H : List Handler) (s : St) (d : ElementDescriptor)
    (h : (if d.removeContent then 1 else 0) ≤ s.removedCount) :
    let s' := stopMatching H s d
    s'.stack = s.stack ∧ s'.removedCount = s.removedCount - (if d.removeContent then 1 else 0)
      ∧ s'.emission = s.emission ∧ s'.faultRemoved = s.faultRemoved := by
  have f := Frame.trans (decCounts_frame H s d.matched)
    (activateEndTagHandler_frame (decCounts H s d.matched) d.endTagHandlerIdx)
  simp only [stopMatching, decRemoved]
  cases hd : d.removeContent
  · simp [f.stack, f.removedCount, f.emission, f.faultRemoved]
  · simp only [hd, if_true] at h
    have hne : ¬ s.removedCount = 0 := by omega
    simp [hne, f.stack, f.removedCount, f.emission, f.faultRemoved]

theorem countRemovedD_cons (d : ElementDescriptor) (ds : List ElementDescriptor) :
    countRemovedD (d :: ds) = (if d.removeContent then 1 else 0) + countRemovedD ds := by
  unfold countRemovedD
  cases h : d.removeContent <;> simp [h] <;> omega

theorem foldl_stopMatching (H : List Handler) (ds : List ElementDescriptor) (s : St)
    (h : countRemovedD ds ≤ s.removedCount) :
    let s' := ds.foldl (stopMatching H) s
    s'.stack = s.stack ∧ s'.removedCount = s.removedCount - countRemovedD ds
      ∧ s'.emission = s.emission ∧ s'.faultRemoved = s.faultRemoved := by
  induction ds generalizing s with
  | nil => simp [countRemovedD]
  | cons d ds ih =>
    rw [countRemovedD_cons] at h
    have h1 := stopMatching_spec H s d (by omega)
    have h2 := ih (stopMatching H s d) (by rw [h1.2.1]; omega)
    simp only [List.foldl_cons]
    refine ⟨h2.1.trans h1.1, ?_, h2.2.2.1.trans h1.2.2.1, h2.2.2.2.trans h1.2.2.2⟩
    rw [h2.2.1, h1.2.1, countRemovedD_cons]; omega

theorem countRemoved_append (a b : List StackItem) :
    countRemoved (a ++ b) = countRemoved a + countRemoved b := by
  simp [countRemoved, List.filter_append]

theorem countRemovedD_reverse_map (l : List StackItem) :
    countRemovedD (l.reverse.map StackItem.data) = countRemoved l := by
  simp [countRemovedD, countRemoved, List.filter_map, List.filter_reverse]
  rfl

/-- Popping for an end tag re-establishes `removedCount = number of open removed elements`. -/
theorem popForEndTag_spec (H : List Handler) (s : St) (lname : Bytes) (h : RInv s) :
    let s' := popForEndTag H s lname
    s'.removedCount = countRemoved s'.stack ∧ s'.emission = s.emission ∧ s'.faultRemoved = false
      ∧ s'.removedCount ≤ s.removedCount := by
  unfold popForEndTag popUpTo
  cases hf : s.stack.findIdx? (fun it => it.localName == lname) with
  | none => exact ⟨h.count, rfl, h.noUnderflow, Nat.le_refl _⟩
  | some idx =>
    simp only
    have hsplit : countRemoved s.stack = countRemoved (s.stack.take (idx + 1)) + countRemoved (s.stack.drop (idx + 1)) := by
      rw [← countRemoved_append, List.take_append_drop]
    have hle : countRemovedD ((s.stack.take (idx + 1)).reverse.map StackItem.data)
        ≤ ({ s with stack := s.stack.drop (idx + 1) } : St).removedCount := by
      rw [countRemovedD_reverse_map]; show _ ≤ s.removedCount; rw [h.count]; omega
    have := foldl_stopMatching H _ _ hle
    refine ⟨?_, this.2.2.1, this.2.2.2.trans h.noUnderflow, ?_⟩
    · rw [this.2.1, this.1, countRemovedD_reverse_map]
      show s.removedCount - _ = countRemoved (s.stack.drop (idx + 1))
      rw [h.count]; omega
    · rw [this.2.1]; show s.removedCount - _ ≤ s.removedCount; omega


theorem countRemoved_modifyTop_idx (st : List StackItem) (x : Option Nat) :
    countRemoved (modifyTop st (fun d => { d with endTagHandlerIdx := x })) = countRemoved st := by
  cases st with
  | nil => rfl
  | cons it rest =>
    simp only [modifyTop, countRemoved, List.filter_cons]
    split <;> simp

theorem countRemoved_modifyTop_remove (it : StackItem) (rest : List StackItem)
    (h : it.data.removeContent = false) :
    countRemoved (modifyTop (it :: rest) (fun d => { d with removeContent := true }))
      = countRemoved (it :: rest) + 1 := by
  simp [modifyTop, countRemoved, h]

/-- Registering the element just pushed keeps `removedCount` = number of open removed elements. -/
theorem registerElement_spec (s : St) (el : Element) (it : StackItem) (rest : List StackItem)
    (hst : s.stack = it :: rest) (hit : it.data.removeContent = false)
    (hc : s.removedCount = countRemoved s.stack) :
    let s' := registerElement s el
    s'.removedCount = countRemoved s'.stack ∧ s'.emission = s.emission
      ∧ s'.faultRemoved = s.faultRemoved ∧ s.removedCount ≤ s'.removedCount := by
  unfold registerElement
  cases hr : el.shouldRemoveContent <;> cases hh : el.intoEndTagHandler <;>
    simp [hst, countRemoved_modifyTop_idx, countRemoved_modifyTop_remove _ _ hit] <;>
    rw [hc, hst] <;> omega

/-- The tag steps end with `emission_enabled = should_emit_content()`. -/
theorem stepStartTag_spec (H : List Handler) (enc : Enc) (s : St) (name : Bytes)
    (attrs : List Attribute) (sc : Bool) (ns : Ns) (raw : Bytes) (h : RInv s) :
    RInv (stepStartTag H enc s name attrs sc ns raw).1
      ∧ (s.emission = false → (stepStartTag H enc s name attrs sc ns raw).2 = [])
      ∧ s.removedCount ≤ (stepStartTag H enc s name attrs sc ns raw).1.removedCount := by
  have hf := flushPendingText_frame H enc s
  have hfo := flushPendingText_out H enc s
  have h1 := h.of_frame hf
  unfold stepStartTag
  simp only
  generalize (flushPendingText H enc s) = f at hf hfo h1
  obtain ⟨s1, o1⟩ := f
  simp only at hf hfo h1 ⊢
  generalize hids : matchedIds H (asciiLowerBytes name) = ids
  generalize hwc : withContent ns (asciiLowerBytes name) sc = wc
  cases wc
  · -- no content: nothing is pushed
    simp only [Bool.false_eq_true, if_false]
    split
    · refine ⟨⟨h1.count, by simp, h1.noUnderflow⟩, ?_, ?_⟩
      · intro he; simp [hfo he, hf.emission, he]
      · rw [hf.removedCount]; exact Nat.le_refl _
    · refine ⟨⟨h1.count, by simp, h1.noUnderflow⟩, ?_, ?_⟩
      · intro he; simp [hfo he, forEachActive, hf.emission, he]
      · show s.removedCount ≤ s1.removedCount; rw [hf.removedCount]; exact Nat.le_refl _
  · simp only [if_true]
    have hc2 : s1.removedCount = countRemoved
        (({ localName := asciiLowerBytes name, data := { matched := ids } } : StackItem) :: s1.stack) := by
      rw [h1.count]; simp [countRemoved]
    split
    · refine ⟨⟨hc2, by simp, h1.noUnderflow⟩, ?_, ?_⟩
      · intro he; simp [hfo he, hf.emission, he]
      · show s.removedCount ≤ s1.removedCount; rw [hf.removedCount]; exact Nat.le_refl _
    · rename_i hel
      generalize hr : forEachActive H pickElement _ _ _ = r
      have hfr : Frame _ r.1 := hr ▸ forEachActive_frame H pickElement _ _ _
      have hreg := registerElement_spec r.1 r.2 _ _ hfr.stack rfl (by rw [hfr.removedCount, hfr.stack]; exact hc2)
      refine ⟨⟨hreg.1, by simp, ?_⟩, ?_, ?_⟩
      · show (registerElement r.1 r.2).faultRemoved = false
        rw [hreg.2.2.1, hfr.faultRemoved]; exact h1.noUnderflow
      · intro he
        have : (registerElement r.1 r.2).emission = false := by
          rw [hreg.2.1, hfr.emission]; show s1.emission = false; rw [hf.emission]; exact he
        simp [hfo he, this]
      · show s.removedCount ≤ (registerElement r.1 r.2).removedCount
        have := hreg.2.2.2
        rw [hfr.removedCount] at this
        have h3 : s1.removedCount = s.removedCount := hf.removedCount
        show s.removedCount ≤ _
        simp only at this
        omega


/-- The end tag the dispatcher serialises when it captures the end-tag lexeme: the deferred
handlers of all elements the tag closes, run on the fresh token. -/
def endTagToken (H : List Handler) (enc : Enc) (s : St) (name raw : Bytes) : EndTag :=
  (runEndTagHandlers
    (popForEndTag H (flushPendingText H enc s).1 (asciiLowerBytes name)).endTagHandlers
    { name := name, raw := raw }).2

theorem stepEndTag_spec (H : List Handler) (enc : Enc) (s : St) (name raw : Bytes) (h : RInv s) :
    RInv (stepEndTag H enc s name raw).1
      ∧ (s.emission = false → (stepEndTag H enc s name raw).1.emission = false →
           (stepEndTag H enc s name raw).2 = [])
      ∧ (s.emission = false → (stepEndTag H enc s name raw).1.emission = true →
           (stepEndTag H enc s name raw).2 = (endTagToken H enc s name raw).intoBytes enc)
      ∧ (stepEndTag H enc s name raw).1.removedCount ≤ s.removedCount := by
  have hf := flushPendingText_frame H enc s
  have hfo := flushPendingText_out H enc s
  have h1 := h.of_frame hf
  unfold endTagToken stepEndTag emitEndTag
  simp only
  generalize (flushPendingText H enc s) = f at hf hfo h1
  obtain ⟨s1, o1⟩ := f
  simp only at hf hfo h1 ⊢
  have hp := popForEndTag_spec H s1 (asciiLowerBytes name) h1
  generalize popForEndTag H s1 (asciiLowerBytes name) = s2 at hp
  simp only at hp
  obtain ⟨hp1, hp2, hp3, hp4⟩ := hp
  have hle : s2.removedCount ≤ s.removedCount := by rw [← hf.removedCount]; exact hp4
  have he2 : s2.emission = s.emission := hp2.trans hf.emission
  by_cases hem : s.emission = true
  · -- emission was on: nothing to resume
    have h2 : s2.emission = true := he2.trans hem
    simp only [h2, Bool.not_true, Bool.false_and, Bool.or_false, Bool.false_eq_true, if_false]
    split
    · exact ⟨⟨hp1, by simp, hp3⟩, by simp [hem], by simp [hem], hle⟩
    · exact ⟨⟨hp1, by simp, hp3⟩, by simp [hem], by simp [hem], hle⟩
  · have hem' : s.emission = false := by simpa using hem
    have h2 : s2.emission = false := he2.trans hem'
    by_cases hz : s2.removedCount = 0
    · -- emission resumes at this end tag
      have hz'' : (s2.removedCount == 0) = true := by simp [hz]
      simp only [h2, hz'', Bool.not_false, Bool.and_self, Bool.or_true, if_true]
      refine ⟨⟨hp1, by simp [hz], hp3⟩, ?_, ?_, hle⟩
      · intro _ hc; simp [hz''] at hc
      · intro _ _; simp [hfo hem']
    · have hz' : (s2.removedCount == 0) = false := by simpa using hz
      simp only [h2, hz', Bool.not_false, Bool.and_false, Bool.or_false, Bool.false_eq_true, if_false]
      split
      · refine ⟨⟨hp1, by simp [hz], hp3⟩, ?_, ?_, hle⟩
        · intro _ _; simp [hfo hem', h2]
        · intro _ hc; simp [hz'] at hc
      · refine ⟨⟨hp1, by simp [hz], hp3⟩, ?_, ?_, hle⟩
        · intro _ _; simp [hfo hem', h2]
        · intro _ hc; simp [hz'] at hc

/-- Tokens that are not tags never touch the emission switch and are silent while it is off. -/
theorem step_nontag_spec (H : List Handler) (enc : Enc) (s : St) (tok : SrcToken)
    (hnt : ∀ n a sc ns r, tok ≠ .startTag n a sc ns r) (hne : ∀ n r, tok ≠ .endTag n r) :
    Frame s (step H enc s tok).1 ∧ (s.emission = false → (step H enc s tok).2 = []) := by
  have hf := flushPendingText_frame H enc s
  have hfo := flushPendingText_out H enc s
  cases tok with
  | startTag n a sc ns r => exact absurd rfl (hnt n a sc ns r)
  | endTag n r => exact absurd rfl (hne n r)
  | text raw =>
    simp only [step]
    split
    · exact ⟨⟨rfl, rfl, rfl, rfl⟩, fun he => textTokenProduced_out H enc _ _ he⟩
    · exact ⟨Frame.refl s, fun he => by simp [he]⟩
  | comment text raw =>
    simp only [step]
    split
    · exact ⟨⟨hf.stack, hf.removedCount, hf.emission, hf.faultRemoved⟩,
        fun he => by simp [hfo he, forEachActive, hf.emission, he]⟩
    · exact ⟨hf, fun he => by simp [hfo he, hf.emission, he]⟩
  | doctype raw =>
    simp only [step]
    split
    · exact ⟨⟨hf.stack, hf.removedCount, hf.emission, hf.faultRemoved⟩,
        fun he => by simp [hfo he, forEachActive, hf.emission, he]⟩
    · exact ⟨hf, fun he => by simp [hfo he, hf.emission, he]⟩

/-- Every step preserves the invariant, and is silent when emission is off before and after. -/
theorem step_spec (H : List Handler) (enc : Enc) (s : St) (tok : SrcToken) (h : RInv s) :
    RInv (step H enc s tok).1
      ∧ (s.emission = false → (step H enc s tok).1.emission = false → (step H enc s tok).2 = []) := by
  cases tok with
  | startTag n a sc ns r =>
    have := stepStartTag_spec H enc s n a sc ns r h
    exact ⟨this.1, fun he _ => this.2.1 he⟩
  | endTag n r =>
    have := stepEndTag_spec H enc s n r h
    exact ⟨this.1, this.2.1⟩
  | text raw =>
    have := step_nontag_spec H enc s (.text raw) (by intros; simp) (by intros; simp)
    exact ⟨h.of_frame this.1, fun he _ => this.2 he⟩
  | comment t raw =>
    have := step_nontag_spec H enc s (.comment t raw) (by intros; simp) (by intros; simp)
    exact ⟨h.of_frame this.1, fun he _ => this.2 he⟩
  | doctype raw =>
    have := step_nontag_spec H enc s (.doctype raw) (by intros; simp) (by intros; simp)
    exact ⟨h.of_frame this.1, fun he _ => this.2 he⟩

theorem RInv_init (H : List Handler) : RInv (St.init H) := ⟨rfl, rfl, rfl⟩

end LolHtml.Lemmas.EditDoc
