import LolHtml.Lemmas.ParseRel
import LolHtml.Lemmas.StreamTiling
/-!
What the handlers WRITE has no influence on what they are handed: the dispatcher, the parser and the
transform stream never read the output sink. Two controllers that take the same decisions (state,
capture flags, errors, encoding switch) but write different bytes (`rechunk`) lead, on every history,
to dispatcher states that differ only in the sink log (`DR`) and to the same call results.
-/
namespace LolHtml.Model
variable {γ : Type}

/-- the same handlers, writing something else: everything a handler decides (state, capture flags, errors,
encoding switch) is kept, the bytes it writes — token serialisations, end-of-document content, bail-out
content — are replaced by arbitrary other ones -/
def rechunk (ctl : Controller γ) (ch : γ → Token → List Bytes) (he : γ → List Bytes) (bo : γ → Err → List Bytes) :
    Controller γ :=
  { ctl with
    token := fun g t => ((ctl.token g t).1, { (ctl.token g t).2 with chunks := ch g t })
    handleEnd := fun g => ((ctl.handleEnd g).1, he g, (ctl.handleEnd g).2.2)
    bailOut := fun g e => ((ctl.bailOut g e).1, bo g e) }

/-- forget what has been written -/
def Disp.forget (d : Disp γ) : Disp γ := { d with sink := [] }

/-- the same dispatcher state up to the output written so far -/
def DR (d₁ d₂ : Disp γ) : Prop := d₁.forget = d₂.forget

def DRel {α : Type} (r₁ r₂ : DRes γ α) : Prop := DR r₁.1 r₂.1 ∧ r₁.2 = r₂.2

theorem DR.eq_setSink {d₁ d₂ : Disp γ} (h : DR d₁ d₂) : d₁ = { d₂ with sink := d₁.sink } := by
  obtain ⟨g1, s1, a1, a2, a3, a4, a5, a6, a7, a8, a9, a10⟩ := d₁
  obtain ⟨g2, s2, b1, b2, b3, b4, b5, b6, b7, b8, b9, b10⟩ := d₂
  simp only [DR, Disp.forget, Disp.mk.injEq] at h
  obtain ⟨e0, _, e1, e2, e3, e4, e5, e6, e7, e8, e9, e10⟩ := h
  subst e0 e1 e2 e3 e4 e5 e6 e7 e8 e9 e10
  rfl

theorem DR.refl (d : Disp γ) : DR d d := rfl

theorem DRel.bind {α β : Type} {r₁ r₂ : DRes γ α} {f₁ f₂ : Disp γ → α → DRes γ β} (h : DRel r₁ r₂)
    (hf : ∀ d₁ d₂ a, DR d₁ d₂ → DRel (f₁ d₁ a) (f₂ d₂ a)) : DRel (DRes.bind r₁ f₁) (DRes.bind r₂ f₂) := by
  unfold DRes.bind
  rw [h.2]
  cases r₂.2 with
  | error e => exact ⟨h.1, rfl⟩
  | ok a => exact hf _ _ a h.1

section
variable {ctl : Controller γ} {ch : γ → Token → List Bytes} {he : γ → List Bytes} {bo : γ → Err → List Bytes}
  {inp : Bytes}

local notation "ctl'" => rechunk ctl ch he bo

/-- lift a statement about `{ d with sink := s }` to related states -/
theorem DRel.lift {α : Type} {F₁ F₂ : Disp γ → DRes γ α}
    (h : ∀ d s, DRel (F₁ { d with sink := s }) (F₂ d)) {d₁ d₂ : Disp γ} (hd : DR d₁ d₂) : DRel (F₁ d₁) (F₂ d₂) := by
  rw [hd.eq_setSink]; exact h _ _

theorem dr_tokenProduced {d₁ d₂ : Disp γ} (t : Token) (h : DR d₁ d₂) :
    DRel (Disp.tokenProduced ctl' d₁ t) (Disp.tokenProduced ctl d₂ t) := by
  refine DRel.lift (F₁ := fun d => Disp.tokenProduced ctl' d t) (F₂ := fun d => Disp.tokenProduced ctl d t) ?_ h
  intro d s
  unfold Disp.tokenProduced Disp.noteNextEncoding Disp.pushChunks
  simp only [rechunk]
  (repeat' split) <;> first | exact ⟨rfl, rfl⟩ | simp_all [DRel, DR, Disp.forget]

theorem dr_flushPendingText {d₁ d₂ : Disp γ} (h : DR d₁ d₂) :
    DRel (d₁.flushPendingText ctl') (d₂.flushPendingText ctl) := by
  have e := h.eq_setSink
  unfold Disp.flushPendingText
  rw [e]
  simp only
  split
  · exact dr_tokenProduced _ rfl
  · exact ⟨rfl, rfl⟩

theorem dr_emitChunkBefore {d₁ d₂ : Disp γ} (raw : Range) (h : DR d₁ d₂) :
    DRel (DRes.ofExcept d₁ (d₁.emitChunkBefore inp raw)) (DRes.ofExcept d₂ (d₂.emitChunkBefore inp raw)) := by
  refine DRel.lift (F₁ := fun d => DRes.ofExcept d (d.emitChunkBefore inp raw))
    (F₂ := fun d => DRes.ofExcept d (d.emitChunkBefore inp raw)) ?_ h
  intro d s
  unfold Disp.emitChunkBefore DRes.ofExcept
  simp only
  cases checkedSlice inp ⟨d.rcs, raw.start⟩ with
  | none => exact ⟨rfl, rfl⟩
  | some chunk =>
    simp only
    split <;> exact ⟨rfl, rfl⟩

theorem dr_flushEncodingChange {d₁ d₂ : Disp γ} (h : DR d₁ d₂) : DR d₁.flushEncodingChange d₂.flushEncodingChange := by
  rw [h.eq_setSink]
  unfold Disp.flushEncodingChange
  simp only
  (repeat' split) <;> rfl

theorem DR.setRcs {d₁ d₂ : Disp γ} (h : DR d₁ d₂) (n : Nat) : DR { d₁ with rcs := n } { d₂ with rcs := n } := by
  rw [h.eq_setSink]; rfl

theorem dr_emitToken {d₁ d₂ : Disp γ} (raw : Range) (tok : Token) (h : DR d₁ d₂) :
    DRel (d₁.emitToken ctl' inp raw tok) (d₂.emitToken ctl inp raw tok) := by
  unfold Disp.emitToken
  apply (dr_emitChunkBefore raw h).bind
  intro a b _ hab
  apply (dr_tokenProduced tok hab).bind
  intro a' b' _ hab'
  exact ⟨dr_flushEncodingChange (hab'.setRcs _), rfl⟩

theorem dr_produceTag {d₁ d₂ : Disp γ} (lx : TagLexeme) (h : DR d₁ d₂) :
    DRel (d₁.produceTag ctl' inp lx) (d₂.produceTag ctl inp lx) := by
  have e := h.eq_setSink
  unfold Disp.produceTag
  rw [e]
  simp only
  cases tagToToken d₂.flags inp lx with
  | none => exact ⟨rfl, rfl⟩
  | some ft =>
    simp only
    cases ft.2 with
    | none => exact ⟨rfl, rfl⟩
    | some tok => exact dr_emitToken _ _ rfl

theorem dr_produceText {d₁ d₂ : Disp γ} (lx : NonTagLexeme) (tt : TextType) (h : DR d₁ d₂) :
    DRel (d₁.produceText ctl' inp lx tt) (d₂.produceText ctl inp lx tt) := by
  have e := h.eq_setSink
  unfold Disp.produceText
  cases checkedSlice inp lx.raw with
  | none => exact ⟨h, rfl⟩
  | some raw =>
    simp only
    apply (dr_emitChunkBefore lx.raw h).bind
    intro a b _ hab
    have e' := hab.eq_setSink
    apply DRel.bind (r₁ := Disp.tokenProduced ctl' { a with lastTextType := tt } _)
      (r₂ := Disp.tokenProduced ctl { b with lastTextType := tt } _)
    · apply dr_tokenProduced
      rw [e']; rfl
    · intro a' b' _ hab'
      rw [hab'.eq_setSink]
      exact ⟨rfl, rfl⟩

theorem dr_produceNonTag {d₁ d₂ : Disp γ} (lx : NonTagLexeme) (h : DR d₁ d₂) :
    DRel (d₁.produceNonTag ctl' inp lx) (d₂.produceNonTag ctl inp lx) := by
  have e := h.eq_setSink
  unfold Disp.produceNonTag
  split
  · rw [e]
    simp only
    split
    · exact dr_produceText _ _ rfl
    · exact ⟨rfl, rfl⟩
  · rw [e]
    simp only
    cases nonTagToToken d₂.flags inp lx with
    | none => exact ⟨rfl, rfl⟩
    | some o =>
      cases o with
      | none => exact ⟨rfl, rfl⟩
      | some tok => exact dr_emitToken _ _ rfl

theorem dr_adjustFlagsForTag {d₁ d₂ : Disp γ} (lx : TagLexeme) (h : DR d₁ d₂) :
    DRel (d₁.adjustFlagsForTag ctl' inp lx) (d₂.adjustFlagsForTag ctl inp lx) := by
  refine DRel.lift (F₁ := fun d => d.adjustFlagsForTag ctl' inp lx) (F₂ := fun d => d.adjustFlagsForTag ctl inp lx) ?_ h
  intro d s
  unfold Disp.adjustFlagsForTag Disp.answerAux
  simp only [rechunk]
  (repeat' split) <;> first | exact ⟨rfl, rfl⟩ | simp_all [DRel, DR, Disp.forget]

theorem dr_resumeEmission {d₁ d₂ : Disp γ} (lx : TagLexeme) (h : DR d₁ d₂) :
    DR (d₁.resumeEmission ctl' lx) (d₂.resumeEmission ctl lx) := by
  rw [h.eq_setSink]
  unfold Disp.resumeEmission Disp.shouldStopRemoving
  simp only [rechunk]
  by_cases hc : (!lx.outline.isStart && (!d₂.emissionEnabled && ctl.shouldEmit d₂.ctl)) = true
  · simp [hc, DR, Disp.forget]
  · simp [hc, DR, Disp.forget]

theorem dr_handleTag (lx : TagLexeme) {d₁ d₂ : Disp γ} (h : DR d₁ d₂) :
    DRel (Disp.handleTag ctl' inp lx d₁) (Disp.handleTag ctl inp lx d₂) := by
  unfold Disp.handleTag
  apply (dr_flushPendingText h).bind
  intro a b _ hab
  have e := hab.eq_setSink
  apply DRel.bind (r₁ := if a.gotFlagsFromHint = true then _ else _) (r₂ := if b.gotFlagsFromHint = true then _ else _)
  · rw [e]
    simp only
    split
    · exact ⟨rfl, rfl⟩
    · exact dr_adjustFlagsForTag lx rfl
  · intro a' b' _ hab'
    apply (dr_produceTag lx (dr_resumeEmission lx hab')).bind
    intro a'' b'' _ hab''
    rw [hab''.eq_setSink]
    exact ⟨rfl, rfl⟩

theorem dr_handleNonTag (lx : NonTagLexeme) {d₁ d₂ : Disp γ} (h : DR d₁ d₂) :
    DRel (Disp.handleNonTag ctl' inp lx d₁) (Disp.handleNonTag ctl inp lx d₂) := by
  unfold Disp.handleNonTag
  apply DRel.bind (r₁ := if lx.isText = true then _ else _) (r₂ := if lx.isText = true then _ else _)
  · split
    · exact ⟨h, rfl⟩
    · exact dr_flushPendingText h
  · intro a b _ hab
    exact dr_produceNonTag lx hab

theorem dr_startTagHint (name : LocalName) (ns : Ns) {d₁ d₂ : Disp γ} (h : DR d₁ d₂) :
    DRel (Disp.startTagHint ctl' name ns d₁) (Disp.startTagHint ctl name ns d₂) := by
  refine DRel.lift (F₁ := fun d => Disp.startTagHint ctl' name ns d) (F₂ := fun d => Disp.startTagHint ctl name ns d) ?_ h
  intro d s
  unfold Disp.startTagHint Disp.applyHintFlags
  simp only [rechunk]
  (repeat' split) <;> first | exact ⟨rfl, rfl⟩ | simp_all [DRel, DR, Disp.forget]

theorem dr_endTagHint (name : LocalName) {d₁ d₂ : Disp γ} (h : DR d₁ d₂) :
    DRel (Disp.endTagHint ctl' name d₁) (Disp.endTagHint ctl name d₂) := by
  unfold Disp.endTagHint
  apply (dr_flushPendingText h).bind
  intro a b _ hab
  rw [hab.eq_setSink]
  unfold Disp.applyHintFlags Disp.shouldStopRemoving
  simp only [rechunk]
  by_cases hc : (!b.emissionEnabled && ctl.shouldEmit (ctl.endTag b.ctl name).1) = true
  · simp [hc, DRel, DR, Disp.forget, Disp.nextDirective]
  · simp [hc, DRel, DR, Disp.forget, Disp.nextDirective]

/-- the two dispatchers as sinks are related operation by operation (no abort) -/
theorem dispOps_rechunk (eG : Err) : OpsRel (dispOps ctl') (dispOps ctl) inp DR eG where
  handleTag := fun lx _ _ h => Or.inl (dr_handleTag lx h)
  handleNonTag := fun lx _ _ h => Or.inl (dr_handleNonTag lx h)
  startTagHint := fun n ns _ _ h => Or.inl (dr_startTagHint n ns h)
  endTagHint := fun n _ _ h => Or.inl (dr_endTagHint n h)

end
end LolHtml.Model
