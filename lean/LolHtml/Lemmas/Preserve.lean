import LolHtml.Model.SM
/-!
Generic preservation: the parser touches its output sink only through the four sink operations, so
any predicate on the sink state that those operations preserve is preserved by every layer of the
interpreter — for every table, every tag configuration, both action sets, any input.
-/
namespace LolHtml.Model

variable {κ : Type}

/-- `P` is preserved by the four sink operations (for the fixed input slice `inp`), whatever they
return. -/
structure OpsPreserve (ops : SinkOps κ) (inp : Bytes) (P : κ → Prop) : Prop where
  handleTag : ∀ lx k, P k → P (ops.handleTag inp lx k).1
  handleNonTag : ∀ lx k, P k → P (ops.handleNonTag inp lx k).1
  startTagHint : ∀ n ns k, P k → P (ops.startTagHint n ns k).1
  endTagHint : ∀ n k, P k → P (ops.endTagHint n k).1

section
variable {env : Env κ} {inp : Bytes} {P : κ → Prop}

theorem lexEmitNonTag_sink (h : OpsPreserve env.ops inp P) (c : Common) (l : LexRegs) (x : Ctx κ)
    (o : Option NonTagOutline) (e : Nat) (hp : P x.sink) :
    P (lexEmitNonTag env inp c l x o e).1.x.sink := by
  unfold lexEmitNonTag
  have := h.handleNonTag ⟨x.prevConsumed, ⟨l.lexemeStart, e⟩, o⟩ x.sink hp
  dsimp only
  split <;> exact this

theorem lexEmitText_sink (h : OpsPreserve env.ops inp P) (c : Common) (l : LexRegs) (x : Ctx κ)
    (hp : P x.sink) : P (lexEmitText env inp c l x).1.x.sink := by
  unfold lexEmitText
  split
  · exact lexEmitNonTag_sink h _ _ _ _ _ hp
  · exact hp

theorem lexEmitEof_sink (h : OpsPreserve env.ops inp P) (m : M κ) (hp : P m.x.sink) :
    P (lexEmitEof env inp m).1.x.sink := by
  unfold lexEmitEof
  split
  · exact lexEmitNonTag_sink h _ _ _ _ _ hp
  · exact hp

theorem andThen_sink (r : M κ × Option Signal) (g : M κ → M κ × Option Signal)
    (hr : P r.1.x.sink) (hg : ∀ m, P m.x.sink → P (g m).1.x.sink) : P (andThen r g).1.x.sink := by
  unfold andThen
  split
  · exact hr
  · exact hg _ hr

theorem lexEmitTagLexeme_sink (h : OpsPreserve env.ops inp P) (c : Common) (l : LexRegs) (x : Ctx κ)
    (sim : Sim) (t : TagOutline) (e : Nat) (hp : P x.sink) :
    P (lexEmitTagLexeme env inp c l x sim t e).1.x.sink := by
  unfold lexEmitTagLexeme
  have := h.handleTag ⟨x.prevConsumed, ⟨l.lexemeStart, e⟩, t⟩ x.sink hp
  dsimp only
  split <;> exact this

theorem lexEmitTag_sink (h : OpsPreserve env.ops inp P) (c : Common) (l : LexRegs) (x : Ctx κ)
    (hp : P x.sink) : P (lexEmitTag env inp c l x).1.x.sink := by
  unfold lexEmitTag
  split
  · exact hp
  · dsimp only
    split
    · exact hp
    · split
      · exact hp
      · exact lexEmitTagLexeme_sink h _ _ _ _ _ _ hp

theorem lexAct_sink (h : OpsPreserve env.ops inp P) (a : ActName) (c : Common) (l : LexRegs) (x : Ctx κ)
    (hp : P x.sink) : P (lexAct env a inp c l x).1.x.sink := by
  cases a <;> simp only [lexAct]
  case emitText => exact lexEmitText_sink h _ _ _ hp
  case emitTextAndEof =>
    exact andThen_sink _ _ (lexEmitText_sink h _ _ _ hp) (fun m hm => lexEmitEof_sink h m hm)
  case emitCurrentToken => exact lexEmitNonTag_sink h _ _ _ _ _ hp
  case emitCurrentTokenAndEof =>
    exact andThen_sink _ _ (lexEmitNonTag_sink h _ _ _ _ _ hp) (fun m hm => lexEmitEof_sink h m hm)
  case emitRawWithoutToken => exact lexEmitNonTag_sink h _ _ _ _ _ hp
  case emitRawWithoutTokenAndEof =>
    exact andThen_sink _ _ (lexEmitNonTag_sink h _ _ _ _ _ hp) (fun m hm => lexEmitEof_sink h m hm)
  case emitTag => exact lexEmitTag_sink h _ _ _ hp
  all_goals (repeat' split) <;> exact hp

theorem scanEmitHint_sink (h : OpsPreserve env.ops inp P) (c : Common) (s : ScanRegs) (x : Ctx κ)
    (ts : Nat) (ie : Bool) (hp : P x.sink) : P (scanEmitHint env inp c s x ts ie).1.x.sink := by
  unfold scanEmitHint
  split
  · exact hp
  · rename_i name _
    have : P (if ie = true then env.ops.endTagHint name x.sink
        else env.ops.startTagHint name x.sim.currentNs x.sink).1 := by
      split
      · exact h.endTagHint _ _ hp
      · exact h.startTagHint _ _ _ hp
    dsimp only
    split <;> exact this

theorem scanFinishTagName_sink (h : OpsPreserve env.ops inp P) (c : Common) (s : ScanRegs) (x : Ctx κ)
    (hp : P x.sink) : P (scanFinishTagName env inp c s x).1.x.sink := by
  unfold scanFinishTagName
  split
  · exact hp
  · dsimp only
    split
    · exact hp
    · split
      · exact hp
      · exact scanEmitHint_sink h _ _ _ _ _ hp

theorem scanAct_sink (h : OpsPreserve env.ops inp P) (a : ActName) (c : Common) (s : ScanRegs) (x : Ctx κ)
    (hp : P x.sink) : P (scanAct env a inp c s x).1.x.sink := by
  cases a <;> simp only [scanAct]
  case finishTagName => exact scanFinishTagName_sink h _ _ _ hp
  all_goals (repeat' split) <;> exact hp

theorem act_sink (h : OpsPreserve env.ops inp P) (a : ActName) (m : M κ) (hp : P m.x.sink) :
    P (act env a inp m).1.x.sink := by
  unfold act
  split
  · exact lexAct_sink h _ _ _ _ hp
  · exact scanAct_sink h _ _ _ _ hp

theorem runCalls_sink (h : OpsPreserve env.ops inp P) (cs : List Call) (m : M κ) (hp : P m.x.sink) :
    P (runCalls env inp cs m).1.x.sink := by
  induction cs generalizing m with
  | nil => simpa [runCalls] using hp
  | cons cl cs ih =>
    simp only [runCalls]
    have h1 := act_sink h cl.act m hp
    split
    · split
      · exact h1
      · exact ih _ h1
    · exact ih _ h1

theorem applyTrans_sink (t : Trans) (m : M κ) : (applyTrans env t m).1.x.sink = m.x.sink := by
  cases t <;> simp only [applyTrans]
  split <;> rfl

theorem runSeq_sink (h : OpsPreserve env.ops inp P) (s : ActSeq) (m : M κ) (hp : P m.x.sink) :
    P (runSeq env inp s m).1.x.sink := by
  unfold runSeq
  have h1 := runCalls_sink h s.calls m hp
  dsimp only
  split
  · exact h1
  · split
    · exact h1
    · simpa [applyTrans_sink] using h1

theorem runBody_sink (h : OpsPreserve env.ops inp P) (b : Body) (m : M κ) (hp : P m.x.sink) :
    P (runBody env inp b m).1.x.sink := by
  cases b with
  | seq s => exact runSeq_sink h s m hp
  | ite c t e =>
    simp only [runBody]
    split
    · exact hp
    · exact runSeq_sink h _ m hp
    · exact runSeq_sink h _ m hp

theorem adjustForNextInput_sink (m : M κ) : (adjustForNextInput m).x.sink = m.x.sink := by
  unfold adjustForNextInput
  (repeat' split) <;> rfl

theorem breakOnEndOfInput_sink (m : M κ) : (breakOnEndOfInput inp m).1.x.sink = m.x.sink := by
  unfold breakOnEndOfInput
  dsimp only
  (repeat' split) <;> simp [adjustForNextInput_sink]

theorem enterSeq_sink (m : M κ) : (enterSeq m).x.sink = m.x.sink := by
  unfold enterSeq; split <;> rfl

theorem leaveSeq_sink (m : M κ) : (leaveSeq m).x.sink = m.x.sink := by
  unfold leaveSeq; split <;> rfl

/-- `P` on either result of `runSeqArms` -/
def SumSink (P : κ → Prop) : (M κ × Option Signal) ⊕ M κ → Prop
  | .inl r => P r.1.x.sink
  | .inr m => P m.x.sink

theorem runSeqArms_sink (h : OpsPreserve env.ops inp P) (ch : Option UInt8) (arms : List Arm) (m : M κ)
    (hp : P m.x.sink) : SumSink P (runSeqArms env inp ch arms m) := by
  induction arms generalizing m with
  | nil => simpa [runSeqArms, SumSink] using hp
  | cons arm rest ih =>
    simp only [runSeqArms]
    split
    · -- chSeq arm
      split
      · exact ih _ (by simpa [leaveSeq_sink, enterSeq_sink] using hp)
      · split
        · simpa [SumSink, breakOnEndOfInput_sink, enterSeq_sink] using hp
        · exact ih _ (by simpa [leaveSeq_sink, enterSeq_sink] using hp)
        · simp only [SumSink]
          apply runBody_sink h
          simpa [leaveSeq_sink, enterSeq_sink] using hp
    · exact ih _ hp

theorem dispatch_sink (h : OpsPreserve env.ops inp P) (ch : Option UInt8) (arms : List Arm) (m : M κ)
    (hp : P m.x.sink) : P (dispatch env inp ch arms m).1.x.sink := by
  unfold dispatch
  have h1 := runSeqArms_sink h ch arms m hp
  split
  · rename_i r heq
    rw [heq] at h1
    exact h1
  · rename_i m' heq
    rw [heq] at h1
    simp only [SumSink] at h1
    split
    · exact h1
    · rename_i arm _
      have h2 := runBody_sink h arm.body m' h1
      split
      · dsimp only
        (repeat' split) <;> first | exact h2 | simpa [breakOnEndOfInput_sink] using h2
      · split
        · dsimp only
          (repeat' split) <;> first | exact h2 | simpa [breakOnEndOfInput_sink] using h2
        · simpa [breakOnEndOfInput_sink] using h1
      · exact h2

theorem stateFn_sink (h : OpsPreserve env.ops inp P) (m : M κ) (hp : P m.x.sink) :
    P (stateFn env inp m).1.x.sink := by
  unfold stateFn
  split
  · exact hp
  · rename_i sd _
    dsimp only
    -- the enter-action prelude
    have hpre : P (if (!sd.enter.isEmpty && !m.c.entered) = true then
        (let m1 : M κ := { m with c := { m.c with nextPos := m.c.nextPos + 1 } }
         let r := runCalls env inp sd.enter m1
         match r.2 with
         | some sig => (r.1, some sig)
         | none =>
           let m2 := r.1
           (({ m2 with c := { m2.c with nextPos := m2.c.nextPos - 1, entered := true } } : M κ), (none : Option Signal)))
        else (m, none)).1.x.sink := by
      split
      · have h1 := runCalls_sink h sd.enter { m with c := { m.c with nextPos := m.c.nextPos + 1 } } hp
        dsimp only
        split <;> exact h1
      · exact hp
    split
    · exact hpre
    · split
      · split <;> exact dispatch_sink h _ _ _ hpre
      · exact dispatch_sink h _ _ _ hpre

theorem runLoop_sink (h : OpsPreserve env.ops inp P) (n : Nat) (m : M κ) (hp : P m.x.sink) :
    P (runLoop env inp n m).1.x.sink := by
  induction n generalizing m with
  | zero => simpa [runLoop] using hp
  | succ n ih =>
    simp only [runLoop]
    have h1 := stateFn_sink h m hp
    split
    · exact h1
    · exact ih _ h1

theorem Parser.machine_sink (p : Parser κ) (last : Bool) : (p.machine last).x.sink = p.x.sink := by
  unfold Parser.machine; split <;> rfl

theorem Parser.store_sink (p : Parser κ) (m : M κ) : (p.store m).x.sink = m.x.sink := by
  unfold Parser.store; split <;> rfl

theorem loadBookmark_sink (d : Directive) (bm : Bookmark) (p : Parser κ) :
    (loadBookmark env d bm p).x.sink = p.x.sink := by
  unfold loadBookmark; split <;> rfl

theorem Parser.parseLoop_sink (h : OpsPreserve env.ops inp P) (last : Bool) (n : Nat) (p : Parser κ)
    (hp : P p.x.sink) : P (Parser.parseLoop env inp last n p).1.x.sink := by
  induction n generalizing p with
  | zero => simpa [Parser.parseLoop] using hp
  | succ n ih =>
    simp only [Parser.parseLoop]
    have h1 := runLoop_sink h (defaultFuel inp) (p.machine last) (by simpa [Parser.machine_sink] using hp)
    split
    · simpa [Parser.store_sink] using h1
    · apply ih
      simpa [loadBookmark_sink, Parser.store_sink] using h1
    · simpa [Parser.store_sink] using h1
    · simpa [Parser.store_sink] using h1

/-- **Generic preservation.** Whatever the table, the tag lists, the machine and the input, a
predicate on the sink state preserved by the four sink operations is preserved by `Parser::parse`. -/
theorem Parser.parse_sink (h : OpsPreserve env.ops inp P) (last : Bool) (p : Parser κ)
    (hp : P p.x.sink) : P (Parser.parse env inp last p).1.x.sink :=
  Parser.parseLoop_sink h last _ p hp

end
end LolHtml.Model
