import LolHtml.Lemmas.TokInv
import LolHtml.Lemmas.ScanLab
import LolHtml.Lemmas.Tiling
/-!
What the re-lexing argument needs from the sink, and the dispatcher as an instance:
`pending_element_aux_info_req` (`Pend`) is raised only by a start-tag hint answered "lex", lowered by
the next tag lexeme; the only `U2` error of the sink is "a pending request answered by an end tag".
-/
set_option linter.unusedSimpArgs false
set_option linter.unusedVariables false

namespace LolHtml.Model

variable {κ γ : Type}

/-- a panic / internal assertion at one of the two sites of `U2` -/
def U2err : Err → Prop
  | .panic s => U2 s
  | .internal s => U2 s
  | _ => False

theorem not_U2err_of_clean {e : Err} (h : e.Clean) : ¬ U2err e := by
  cases e <;> simp_all [Err.Clean, U2err]

theorem not_U2err_panic {s : String} (h : ¬ U2 s) : ¬ U2err (.panic s) := h
theorem not_U2err_internal {s : String} (h : ¬ U2 s) : ¬ U2err (.internal s) := h

/-- the site of a *guard* a client may put in front of `handle_tag` (see `Thm/C06_EndTag.lean`) -/
def guardSite : String := "guard: tag lexeme of the wrong kind while a hint is pending"

/-- the errors the walks have to exclude explicitly for the parser's own failures: the `U2` sites and
the client's guard -/
def U3err (e : Err) : Prop := U2err e ∨ e = .panic guardSite

/-- sink laws for the re-lexing argument, for a flag `Pend` that only a hint of kind `K` (`true`: start
tag) can raise and the next tag lexeme lowers, and a class `Uerr ⊆ U3err` of errors the sink reports
only when a lexeme of the other kind arrives while `Pend` is up -/
structure XLaws (ops : SinkOps κ) (inp : Bytes) (Pend : κ → Bool) (Good : κ → Prop) (K : Bool) (Uerr : Err → Prop) : Prop where
  hint : PendLaw ops Pend K
  sub : ∀ e, Uerr e → U3err e
  goodNT : ∀ lx k, Good k → Good (ops.handleNonTag inp lx k).1
  goodT : ∀ lx k, Good k → (Pend k = true → lx.outline.isStart = K) → Good (ops.handleTag inp lx k).1
  goodS : ∀ n ns k, Good k → Pend k = false → Good (ops.startTagHint n ns k).1
  goodE : ∀ n k, Good k → Pend k = false → Good (ops.endTagHint n k).1
  pendNT : ∀ lx k, Pend (ops.handleNonTag inp lx k).1 = Pend k
  pendT : ∀ lx k d, Good k → (ops.handleTag inp lx k).2 = .ok d → Pend (ops.handleTag inp lx k).1 = false
  errNT : ∀ lx k e, (ops.handleNonTag inp lx k).2 = .error e → ¬ Uerr e
  errT : ∀ lx k e, (ops.handleTag inp lx k).2 = .error e → Uerr e → Pend k = true ∧ lx.outline.isStart = !K
  errS : ∀ n ns k e, (ops.startTagHint n ns k).2 = .error e → ¬ Uerr e
  errE : ∀ n k e, (ops.endTagHint n k).2 = .error e → ¬ Uerr e

theorem XLaws.noU {ops : SinkOps κ} {inp : Bytes} {Pend : κ → Bool} {Good : κ → Prop} {K : Bool} {Uerr : Err → Prop}
    (h : XLaws ops inp Pend Good K Uerr) {e : Err} (he : ¬ U3err e) : ¬ Uerr e := fun hu => he (h.sub e hu)

/-! ### the dispatcher -/

/-- the two flags -/
def Disp.pg (d : Disp γ) : Bool × Bool := (d.pendingAux, d.gotFlagsFromHint)

def Disp.Good (d : Disp γ) : Prop := d.gotFlagsFromHint = true → d.pendingAux = false

section
variable {ctl : Controller γ} {inp : Bytes}

theorem tokenProduced_pg (d : Disp γ) (t : Token) : (Disp.tokenProduced ctl d t).1.pg = d.pg := by
  unfold Disp.tokenProduced
  dsimp only
  have h1 : ∀ (d : Disp γ) o, (d.noteNextEncoding o).pg = d.pg := by
    intro d o; unfold Disp.noteNextEncoding; (repeat' split) <;> rfl
  have h2 : ∀ (d : Disp γ) cs, (d.pushChunks cs).pg = d.pg := by
    intro d cs; unfold Disp.pushChunks; split <;> rfl
  split <;> (simp only; rw [h2, h1]; rfl)

theorem bind_pg {α β : Type} (r : DRes γ α) (f : Disp γ → α → DRes γ β) (v : Bool × Bool)
    (hr : r.1.pg = v) (hf : ∀ d a, d.pg = v → (f d a).1.pg = v) : (DRes.bind r f).1.pg = v := by
  unfold DRes.bind
  split
  · exact hr
  · exact hf _ _ hr

theorem flushPendingText_pg (d : Disp γ) : (d.flushPendingText ctl).1.pg = d.pg := by
  unfold Disp.flushPendingText
  split
  · rw [tokenProduced_pg]; rfl
  · rfl

theorem emitToken_pg (d : Disp γ) (raw : Range) (tok : Token) : (d.emitToken ctl inp raw tok).1.pg = d.pg := by
  unfold Disp.emitToken
  apply bind_pg
  · unfold DRes.ofExcept Disp.emitChunkBefore
    cases checkedSlice inp ⟨d.rcs, raw.start⟩ with
    | none => rfl
    | some ch => dsimp only; split <;> rfl
  · intro d1 _ h1
    apply bind_pg
    · rw [tokenProduced_pg]; exact h1
    · intro d2 _ h2
      unfold Disp.flushEncodingChange
      dsimp only
      (repeat' split) <;> exact h2

theorem produceTag_pg (d : Disp γ) (lx : TagLexeme) : (d.produceTag ctl inp lx).1.pg = d.pg := by
  unfold Disp.produceTag
  split
  · rfl
  · split
    · rfl
    · rw [emitToken_pg]; rfl

theorem produceNonTag_pg (d : Disp γ) (lx : NonTagLexeme) : (d.produceNonTag ctl inp lx).1.pg = d.pg := by
  unfold Disp.produceNonTag
  split
  · split
    · unfold Disp.produceText
      split
      · rfl
      · apply bind_pg
        · unfold DRes.ofExcept Disp.emitChunkBefore
          cases checkedSlice inp ⟨d.rcs, lx.raw.start⟩ with
          | none => rfl
          | some ch => dsimp only; split <;> rfl
        · intro d1 _ h1
          apply bind_pg
          · rw [tokenProduced_pg]; exact h1
          · intro d2 _ h2; exact h2
    · rfl
  · split
    · rfl
    · rfl
    · exact emitToken_pg _ _ _

theorem handleNonTag_pg (lx : NonTagLexeme) (d : Disp γ) : (Disp.handleNonTag ctl inp lx d).1.pg = d.pg := by
  unfold Disp.handleNonTag
  apply bind_pg
  · split
    · rfl
    · exact flushPendingText_pg d
  · intro d1 _ h1
    rw [produceNonTag_pg]; exact h1

theorem answerAux_pg (d : Disp γ) (info : AuxInfo) : (d.answerAux ctl info).1.pg = d.pg := by
  unfold Disp.answerAux
  dsimp only
  split <;> rfl

theorem answerAux_pa (d : Disp γ) (info : AuxInfo) : (d.answerAux ctl info).1.pendingAux = d.pendingAux := by
  have := answerAux_pg (ctl := ctl) d info
  simp only [Disp.pg, Prod.mk.injEq] at this; exact this.1

theorem answerAux_gf (d : Disp γ) (info : AuxInfo) : (d.answerAux ctl info).1.gotFlagsFromHint = d.gotFlagsFromHint := by
  have := answerAux_pg (ctl := ctl) d info
  simp only [Disp.pg, Prod.mk.injEq] at this; exact this.2

theorem DRes.bind_ok_eq {α β : Type} {r : DRes γ α} {f : Disp γ → α → DRes γ β} {a : α} (h : r.2 = .ok a) :
    DRes.bind r f = f r.1 a := by
  unfold DRes.bind; rw [h]

theorem DRes.bind_err_eq {α β : Type} {r : DRes γ α} {f : Disp γ → α → DRes γ β} {e : Err} (h : r.2 = .error e) :
    DRes.bind r f = (r.1, .error e) := by
  unfold DRes.bind; rw [h]

/-- after `adjust_capture_flags_for_tag_lexeme` no request is pending -/
theorem adjustFlagsForTag_pend (d : Disp γ) (lx : TagLexeme) :
    (d.adjustFlagsForTag ctl inp lx).1.pendingAux = false ∧
    (d.adjustFlagsForTag ctl inp lx).1.gotFlagsFromHint = d.gotFlagsFromHint := by
  unfold Disp.adjustFlagsForTag
  by_cases hp : d.pendingAux = true
  · simp only [hp, if_true]
    split
    · rw [answerAux_pa, answerAux_gf]; exact ⟨rfl, rfl⟩
    · exact ⟨rfl, rfl⟩
  · have hp' : d.pendingAux = false := by simpa using hp
    simp only [hp, Bool.false_eq_true, if_false]
    split
    · split
      · exact ⟨hp', rfl⟩
      · split
        · exact ⟨by simpa using hp', rfl⟩
        · rw [answerAux_pa, answerAux_gf]; exact ⟨by simpa using hp', rfl⟩
        · exact ⟨by simpa using hp', rfl⟩
    · split
      · exact ⟨hp', rfl⟩
      · exact ⟨by simpa using hp', rfl⟩

/-- both flags are down -/
def Disp.flagsDown (d : Disp γ) : Prop := d.pendingAux = false ∧ d.gotFlagsFromHint = false

theorem handleTag_flags (lx : TagLexeme) (d : Disp γ) (hg : d.Good) :
    ((Disp.handleTag ctl inp lx d).1.flagsDown ∨
      ((Disp.handleTag ctl inp lx d).1.pg = d.pg ∧ ∃ e, (Disp.handleTag ctl inp lx d).2 = .error e ∧
        (d.flushPendingText ctl).2 = .error e)) := by
  unfold Disp.handleTag
  have h0 := flushPendingText_pg (ctl := ctl) d
  cases hfl : (d.flushPendingText ctl).2 with
  | error e =>
    right
    rw [DRes.bind_err_eq hfl]
    exact ⟨h0, e, rfl, rfl⟩
  | ok u =>
    left
    rw [DRes.bind_ok_eq hfl]
    simp only [Disp.pg, Prod.mk.injEq] at h0
    apply DRes.bind_fst Disp.flagsDown
    · split
      · rename_i hgf
        refine ⟨?_, rfl⟩
        simp only
        rw [h0.1]; exact hg (by rw [← h0.2]; exact hgf)
      · rename_i hgf
        obtain ⟨a1, a2⟩ := adjustFlagsForTag_pend (ctl := ctl) (inp := inp) (d.flushPendingText ctl).1 lx
        exact ⟨a1, by rw [a2]; simpa using hgf⟩
    · intro d2 _ hd2
      apply DRes.bind_fst Disp.flagsDown
      · have hre : (d2.resumeEmission ctl lx).pg = d2.pg := by unfold Disp.resumeEmission; split <;> rfl
        have hpt := produceTag_pg (ctl := ctl) (inp := inp) (d2.resumeEmission ctl lx) lx
        rw [hre] at hpt
        simp only [Disp.pg, Prod.mk.injEq] at hpt
        exact ⟨by rw [hpt.1]; exact hd2.1, by rw [hpt.2]; exact hd2.2⟩
      · intro d3 _ hd3
        exact hd3


/-! ### errors of the dispatcher -/

/-- every error of a dispatcher step satisfies `P` -/
def DErr {α : Type} (P : Err → Prop) (r : DRes γ α) : Prop := ∀ e, r.2 = .error e → P e

theorem DErr.bind {α β : Type} {P : Err → Prop} {r : DRes γ α} {f : Disp γ → α → DRes γ β}
    (h1 : DErr P r) (h2 : ∀ d a, DErr P (f d a)) : DErr P (DRes.bind r f) := by
  intro e he
  unfold DRes.bind at he
  split at he
  · rename_i e' he'
    simp only [Except.error.injEq] at he
    subst he
    exact h1 _ he'
  · exact h2 _ _ e he

theorem DErr.ok {α : Type} {P : Err → Prop} (d : Disp γ) (a : α) : DErr P ((d, .ok a) : DRes γ α) := fun e h => by cases h

theorem DErr.mono {α : Type} {P Q : Err → Prop} {r : DRes γ α} (h : DErr P r) (hpq : ∀ e, P e → Q e) : DErr Q r :=
  fun e he => hpq e (h e he)

abbrev NoU2 : Err → Prop := fun e => ¬ U2err e

variable (hc : CtlClean ctl)
include hc

theorem tokenProduced_noU2 (d : Disp γ) (t : Token) : DErr NoU2 (Disp.tokenProduced ctl d t) := by
  intro e he
  unfold Disp.tokenProduced at he
  dsimp only at he
  split at he
  · rename_i e' hh
    simp only [Except.error.injEq] at he
    subst he
    exact not_U2err_of_clean (hc.token _ _ _ hh)
  · cases he

theorem flushPendingText_noU2 (d : Disp γ) : DErr NoU2 (d.flushPendingText ctl) := by
  unfold Disp.flushPendingText
  split
  · exact tokenProduced_noU2 hc _ _
  · exact DErr.ok _ _

omit hc in
theorem emitChunkBefore_noU2 (d : Disp γ) (raw : Range) : DErr NoU2 (DRes.ofExcept d (d.emitChunkBefore inp raw)) := by
  unfold DRes.ofExcept Disp.emitChunkBefore
  cases checkedSlice inp ⟨d.rcs, raw.start⟩ with
  | none => intro e he; simp only [Except.error.injEq] at he; subst he; simp [NoU2, U2err, U2]
  | some ch => exact DErr.ok _ _

theorem emitToken_noU2 (d : Disp γ) (raw : Range) (tok : Token) : DErr NoU2 (d.emitToken ctl inp raw tok) := by
  unfold Disp.emitToken
  apply DErr.bind (emitChunkBefore_noU2 d raw)
  intro d1 _
  apply DErr.bind (tokenProduced_noU2 hc d1 tok)
  intro d2 _
  exact DErr.ok _ _

theorem produceTag_noU2 (d : Disp γ) (lx : TagLexeme) : DErr NoU2 (d.produceTag ctl inp lx) := by
  unfold Disp.produceTag
  split
  · intro e he; simp only [Except.error.injEq] at he; subst he; simp [NoU2, U2err, U2]
  · split
    · exact DErr.ok _ _
    · exact emitToken_noU2 hc _ _ _

theorem produceNonTag_noU2 (d : Disp γ) (lx : NonTagLexeme) : DErr NoU2 (d.produceNonTag ctl inp lx) := by
  unfold Disp.produceNonTag
  split
  · split
    · unfold Disp.produceText
      split
      · intro e he; simp only [Except.error.injEq] at he; subst he; simp [NoU2, U2err, U2]
      · apply DErr.bind (emitChunkBefore_noU2 d lx.raw)
        intro d1 _
        apply DErr.bind (tokenProduced_noU2 hc _ _)
        intro d2 _
        exact DErr.ok _ _
    · exact DErr.ok _ _
  · split
    · intro e he; simp only [Except.error.injEq] at he; subst he; simp [NoU2, U2err, U2]
    · exact DErr.ok _ _
    · exact emitToken_noU2 hc _ _ _

theorem handleNonTag_noU2 (lx : NonTagLexeme) (d : Disp γ) : DErr NoU2 (Disp.handleNonTag ctl inp lx d) := by
  unfold Disp.handleNonTag
  apply DErr.bind
  · split
    · exact DErr.ok _ _
    · exact flushPendingText_noU2 hc d
  · intro d1 _
    exact produceNonTag_noU2 hc d1 lx

theorem answerAux_noU2 (d : Disp γ) (info : AuxInfo) : DErr NoU2 (d.answerAux ctl info) := by
  unfold Disp.answerAux
  dsimp only
  split
  · exact DErr.ok _ _
  · rename_i e herr
    intro e' he
    simp only [Except.error.injEq] at he
    subst he
    exact not_U2err_of_clean (hc.auxInfo _ _ _ herr)

/-- the only `U2` error of the flag adjustment: a pending request and an end tag -/
theorem adjustFlagsForTag_err (d : Disp γ) (lx : TagLexeme) :
    DErr (fun e => U2err e → d.pendingAux = true ∧ lx.outline.isStart = false) (d.adjustFlagsForTag ctl inp lx) := by
  unfold Disp.adjustFlagsForTag
  by_cases hp : d.pendingAux = true
  · simp only [hp, if_true]
    split
    · exact (answerAux_noU2 hc _ _).mono (fun e h hu => absurd hu h)
    · rename_i heq
      intro e he hu
      exact ⟨trivial, by rw [heq]; rfl⟩
  · simp only [hp, Bool.false_eq_true, if_false]
    split
    · split
      · intro e he hu; simp only [Except.error.injEq] at he; subst he; simp [U2err, U2] at hu
      · split
        · exact DErr.ok _ _
        · exact (answerAux_noU2 hc _ _).mono (fun e h hu => absurd hu h)
        · rename_i e herr
          intro e' he hu
          simp only [Except.error.injEq] at he
          subst he
          exact absurd hu (not_U2err_of_clean (hc.startTag _ _ _ _ herr))
    · split
      · intro e he hu; simp only [Except.error.injEq] at he; subst he; simp [U2err, U2] at hu
      · exact DErr.ok _ _

theorem handleTag_err (lx : TagLexeme) (d : Disp γ) :
    DErr (fun e => U2err e → d.pendingAux = true ∧ lx.outline.isStart = false) (Disp.handleTag ctl inp lx d) := by
  unfold Disp.handleTag
  have h0 := flushPendingText_pg (ctl := ctl) d
  simp only [Disp.pg, Prod.mk.injEq] at h0
  cases hfl : (d.flushPendingText ctl).2 with
  | error e =>
    rw [DRes.bind_err_eq hfl]
    intro e' he hu
    simp only [Except.error.injEq] at he
    subst he
    exact absurd hu (flushPendingText_noU2 hc d _ hfl)
  | ok u =>
    rw [DRes.bind_ok_eq hfl]
    apply DErr.bind
    · split
      · exact DErr.ok _ _
      · exact (adjustFlagsForTag_err hc _ lx).mono (fun e h hu => by rw [← h0.1]; exact h hu)
    · intro d2 _
      apply DErr.bind
      · exact (produceTag_noU2 hc _ lx).mono (fun e h hu => absurd hu h)
      · intro d3 _
        exact DErr.ok _ _

theorem startTagHint_noU2 (name : LocalName) (ns : Ns) (d : Disp γ) : DErr NoU2 (Disp.startTagHint ctl name ns d) := by
  unfold Disp.startTagHint
  dsimp only
  split
  · unfold Disp.applyHintFlags; exact DErr.ok _ _
  · exact DErr.ok _ _
  · rename_i e herr
    intro e' he
    simp only [Except.error.injEq] at he
    subst he
    exact not_U2err_of_clean (hc.startTag _ _ _ _ herr)

theorem endTagHint_noU2 (name : LocalName) (d : Disp γ) : DErr NoU2 (Disp.endTagHint ctl name d) := by
  unfold Disp.endTagHint
  apply DErr.bind (flushPendingText_noU2 hc d)
  intro d1 _
  dsimp only
  unfold Disp.applyHintFlags
  exact DErr.ok _ _

/-- **the dispatcher satisfies the sink laws** -/
theorem dispOps_xlaws : XLaws (dispOps ctl) inp (fun d : Disp γ => d.pendingAux) Disp.Good true U2err where
  sub := fun _ h => Or.inl h
  hint := {
    start := by
      intro n ns k hp hr
      simp only [dispOps] at hr ⊢
      unfold Disp.startTagHint at hr ⊢
      dsimp only at hr ⊢
      split at hr
      · rename_i f hf
        try simp only [hf]
        simpa [Disp.applyHintFlags] using hp
      · simp at hr
      · simp at hr
    end_ := by
      intro n k hp _
      simp only [dispOps]
      unfold Disp.endTagHint
      have h0 := flushPendingText_pg (ctl := ctl) k
      simp only [Disp.pg, Prod.mk.injEq] at h0
      cases hfl : (k.flushPendingText ctl).2 with
      | error e => rw [DRes.bind_err_eq hfl]; simp only; rw [h0.1]; exact hp
      | ok u => rw [DRes.bind_ok_eq hfl]; simp only [Disp.applyHintFlags]; rw [h0.1]; exact hp
    otherE := by
      intro _ n k hp
      simp only [dispOps]
      unfold Disp.endTagHint
      have h0 := flushPendingText_pg (ctl := ctl) k
      simp only [Disp.pg, Prod.mk.injEq] at h0
      cases hfl : (k.flushPendingText ctl).2 with
      | error e => rw [DRes.bind_err_eq hfl]; simp only; rw [h0.1]; exact hp
      | ok u => rw [DRes.bind_ok_eq hfl]; simp only [Disp.applyHintFlags]; rw [h0.1]; exact hp
    otherS := fun h => by cases h }
  goodNT := by
    intro lx k hg
    have := handleNonTag_pg (ctl := ctl) (inp := inp) lx k
    simp only [Disp.pg, Prod.mk.injEq] at this
    simp only [dispOps, Disp.Good, this.1, this.2]; exact hg
  goodT := by
    intro lx k hg _
    simp only [dispOps]
    rcases handleTag_flags (ctl := ctl) (inp := inp) lx k hg with h | ⟨h, _⟩
    · intro hh; rw [h.2] at hh; cases hh
    · simp only [Disp.pg, Prod.mk.injEq] at h
      simp only [Disp.Good, h.1, h.2]; exact hg
  goodS := by
    intro n ns k hg hp
    simp only [dispOps]
    unfold Disp.startTagHint
    dsimp only
    split
    · simp only [Disp.applyHintFlags, Disp.Good]; intro _; exact hp
    · simp only [Disp.Good]; intro hh; cases hh
    · exact hg
  goodE := by
    intro n k hg hp
    simp only [dispOps]
    unfold Disp.endTagHint
    have h0 := flushPendingText_pg (ctl := ctl) k
    simp only [Disp.pg, Prod.mk.injEq] at h0
    cases hfl : (k.flushPendingText ctl).2 with
    | error e => rw [DRes.bind_err_eq hfl]; simp only [Disp.Good, h0.1, h0.2]; exact hg
    | ok u => rw [DRes.bind_ok_eq hfl]; simp only [Disp.applyHintFlags, Disp.Good]; intro _; rw [h0.1]; exact hp
  pendNT := by
    intro lx k
    have := handleNonTag_pg (ctl := ctl) (inp := inp) lx k
    simp only [Disp.pg, Prod.mk.injEq] at this
    exact this.1
  pendT := by
    intro lx k d hg hok
    simp only [dispOps] at hok ⊢
    rcases handleTag_flags (ctl := ctl) (inp := inp) lx k hg with h | ⟨_, e, he, _⟩
    · exact h.1
    · rw [he] at hok; cases hok
  errNT := fun lx k e he => handleNonTag_noU2 hc lx k e he
  errT := fun lx k e he hu => handleTag_err hc lx k e he hu
  errS := fun n ns k e he => startTagHint_noU2 hc n ns k e he
  errE := fun n k e he => endTagHint_noU2 hc n k e he

end
end LolHtml.Model
