import LolHtml.Lemmas.ChunkDispR
import LolHtml.Lemmas.ChunkFlush
/-!
The dispatcher relation across a chunk boundary, for controllers that may remove content: the checked
`flush_remaining_input` (its range is validated also while emission is disabled), the text lexeme of a
breaking step, `finish`.
-/
namespace LolHtml.Model.Chunk.R
open LolHtml LolHtml.Model LolHtml.Model.Chunk

section
variable {γ : Type} {ctl : Controller γ} {E : γ → γ → Prop}

/-- `flush_remaining_input` with its range checked also while emission is disabled (the Rust computes
`input.get(rcs..consumed)` only when it emits) -/
def flushC (d : Disp γ) (input : Bytes) (consumed : Nat) : Except Err (Disp γ) :=
  match checkedSlice input ⟨d.rcs, consumed⟩ with
  | none => .error (.panic "flush_remaining_input: range out of bounds")
  | some _ => d.flushRemaining input consumed

theorem flushC_desc (d : Disp γ) (input : Bytes) (c : Nat) :
    (∃ m, flushC d input c = .error (.panic m)) ∨
    ∃ d', flushC d input c = .ok d' ∧ DSame d d' ∧ d'.rcs = 0 ∧ d.rcs ≤ c ∧ c ≤ input.length ∧
      sinkBytes d'.sink = sinkBytes d.sink ++ (if d.emissionEnabled = true then LolHtml.slice input d.rcs c else []) := by
  unfold flushC
  cases hcs : checkedSlice input ⟨d.rcs, c⟩ with
  | none => exact Or.inl ⟨_, rfl⟩
  | some out =>
    obtain ⟨h1, h2, h3⟩ := checkedSlice_some hcs
    simp only at h1 h2 h3 ⊢
    cases hem : d.emissionEnabled with
    | true =>
      rcases flushRemaining_desc d input c hem with ⟨m, he⟩ | ⟨d', he, hs, a1, a2, a3, a4⟩
      · exact Or.inl ⟨m, he⟩
      · exact Or.inr ⟨d', he, hs, a1, a2, a3, by simpa using a4⟩
    | false =>
      right
      unfold Disp.flushRemaining
      rw [if_neg (by rw [hem]; simp)]
      refine ⟨_, rfl, ⟨rfl, rfl, rfl, rfl, rfl, rfl, rfl, rfl, rfl, rfl⟩, rfl, h1, h2, by simp⟩

/-- with emission enabled the check is the one the Rust makes -/
theorem flushC_eq (d : Disp γ) (input : Bytes) (c : Nat) (hem : d.emissionEnabled = true) :
    flushC d input c = d.flushRemaining input c := by
  unfold flushC
  cases hcs : checkedSlice input ⟨d.rcs, c⟩ with
  | some out => rfl
  | none =>
    unfold Disp.flushRemaining
    rw [if_pos hem, hcs]

theorem DK.congr_inpS {inpS inpS' inpW : Bytes} {δ d : Nat} {ds dw : Disp γ} (h : DK ctl E inpS inpW δ d ds dw)
    (hr : ds.rcs ≤ inpS'.length) : DK ctl E inpS' inpW δ d ds dw := by
  have h0 : ∀ {ds dw : Disp γ}, DK0 E inpS inpW δ ds dw → DK0 E inpS' inpW δ ds dw :=
    fun h => ⟨h.ctl, h.eq, h.pend, ⟨h.bytes.rcs_le, h.bytes.bytes⟩⟩
  obtain ⟨hj, h⟩ := h
  refine ⟨hj, ?_⟩
  split
  · rename_i hd; rw [if_pos hd] at h; exact h0 h
  · rename_i hd; rw [if_neg hd] at h
    exact ⟨fun g => h0 (h.1 g), fun g =>
      let k := h.2 g
      ⟨k.nd, k.ctl, k.eq, ⟨k.bytes.rcs_le, k.bytes.bytes⟩, k.rcs_d, hr, k.tps_d⟩⟩

theorem DK.em {inpS inpW : Bytes} {δ d : Nat} {ds dw : Disp γ} (h : DK ctl E inpS inpW δ d ds dw) :
    dw.emissionEnabled = ds.emissionEnabled := by
  obtain ⟨_, h⟩ := h
  split at h
  · exact h.eq.em
  · cases hf : ds.flags.text with
    | false => exact (h.1 hf).eq.em
    | true => exact (h.2 hf).eq.em

theorem DK.dj {inpS inpW : Bytes} {δ d : Nat} {ds dw : Disp γ} (h : DK ctl E inpS inpW δ d ds dw) : DJ ctl ds := h.1

theorem DJ.same {d d' : Disp γ} (h : DJ ctl d) (hs : DSame d d') : DJ ctl d' := by
  intro he
  rw [hs.ctl]
  exact h (by rw [← hs.em]; exact he)

/-- **The split run flushes at the end of a `write`**: the frame moves on by the consumed count. -/
theorem DK.flushS {inpS inpS' inpW : Bytes} {δ d c : Nat} (F : Frame inpS inpW δ) {ds ds' dw : Disp γ}
    (h : DK ctl E inpS inpW δ d ds dw) (hloc : 0 < d → ds.flags.text = true → ds.rcs = c)
    (hf : flushC ds inpS c = .ok ds') :
    DK ctl E inpS' inpW (δ + c) d ds' dw ∧ DSame ds ds' ∧ ds'.rcs = 0 ∧ c ≤ inpS.length := by
  rcases flushC_desc ds inpS c with ⟨m, he⟩ | ⟨d1, he, hs, h1, h2, h3, h4⟩
  · rw [he] at hf; cases hf
  rw [he] at hf
  simp only [Except.ok.injEq] at hf
  subst hf
  refine ⟨?_, hs, h1, h3⟩
  have hl := F.len
  have hbytes : ∀ (hb : DBytes inpS inpW δ ds dw), DBytes inpS' inpW (δ + c) d1 dw := by
    intro hb
    have hle := hb.rcs_le
    refine ⟨by rw [h1]; omega, ?_⟩
    have hbb := hb.bytes
    cases hem : ds.emissionEnabled with
    | false =>
      rw [hem] at hbb h4
      rw [hs.em, hem, h4, hbb]
      simp
    | true =>
    rw [hem] at hbb h4
    simp only [if_true] at hbb h4
    rw [hs.em, hem, h4, hbb, h1]
    simp only [if_true]
    rw [List.append_assoc, ← F.slice h3, slice_append_slice inpW hle (by omega), Nat.zero_add, Nat.add_comm c δ]
  have h0 : DK0 E inpS inpW δ ds dw → DK0 E inpS' inpW (δ + c) d1 dw := by
    intro k
    exact ⟨by rw [hs.ctl]; exact k.ctl,
      ⟨by rw [hs.flags]; exact k.eq.flags, by rw [hs.em]; exact k.eq.em, by rw [hs.gffh]; exact k.eq.gffh,
        by rw [hs.paux]; exact k.eq.paux, by rw [hs.enc]; exact k.eq.enc, by rw [hs.nenc]; exact k.eq.nenc⟩,
      ⟨by rw [hs.ltt]; exact k.pend.ltt, by rw [hs.tp]; exact k.pend.tp, by rw [hs.tps]; exact k.pend.tps⟩,
      hbytes k.bytes⟩
  obtain ⟨hj, h⟩ := h
  refine ⟨hj.same hs, ?_⟩
  split
  · rename_i hd; rw [if_pos hd] at h; exact h0 h
  · rename_i hd; rw [if_neg hd] at h
    refine ⟨fun g => h0 (h.1 (by rw [← hs.flags]; exact g)), fun g => ?_⟩
    have g' : ds.flags.text = true := by rw [← hs.flags]; exact g
    have k := h.2 g'
    have hrc := hloc (Nat.pos_of_ne_zero hd) g'
    have hrd := k.rcs_d
    refine ⟨k.nd, ?_,
      ⟨by rw [hs.flags]; exact k.eq.flags, by rw [hs.em]; exact k.eq.em, by rw [hs.gffh]; exact k.eq.gffh,
        by rw [hs.paux]; exact k.eq.paux, by rw [hs.enc]; exact k.eq.enc, by rw [hs.nenc]; exact k.eq.nenc⟩,
      hbytes k.bytes, by rw [h1]; omega, by rw [h1]; omega, by rw [hs.tps]; exact k.tps_d⟩
    have hc := k.ctl
    rw [hs.ctl, hs.ltt, hs.tps, h1]
    rw [hrc] at hc
    rw [show 0 + (δ + c) = c + δ from by omega]
    exact hc

/-- `DLoc` after the flush -/
theorem DLoc_flushS {ds ds' : Disp γ} {pc c : Nat} {tt : TextType} (h : DLoc ds pc c tt) (hs : DSame ds ds') (hr : ds'.rcs = 0) :
    DLoc ds' (pc + c) 0 tt := by
  intro g
  obtain ⟨a1, a2, a3, a4⟩ := h (by rw [← hs.flags]; exact g)
  exact ⟨hr, by rw [hs.tps, a2]; omega, by rw [hs.ltt]; exact a3, by rw [hs.tp]; exact a4⟩

/-- **The text lexeme of a breaking step** (`eoc` arm at the end of the split input): the split run's
dispatcher has received `[a, c)`, the debt grows by `c - a`. -/
theorem DK.brkText {inpS inpW : Bytes} {δ d : Nat} (F : Frame inpS inpW δ) (hcl : TextBlindR ctl E) {ds ds' dw : Disp γ}
    (h : DK ctl E inpS inpW δ d ds dw) (pc a c : Nat) (tt : TextType) (hac : a < c)
    (hloc : 0 < d → DLoc ds pc a tt)
    (hh : Disp.handleNonTag ctl inpS ⟨pc, ⟨a, c⟩, some (.text tt)⟩ ds = (ds', .ok ())) :
    DK ctl E inpS inpW δ (d + (c - a)) ds' dw ∧ DLoc ds' pc c tt := by
  rw [handleNonTag_text] at hh
  have hdpos : ¬ (d + (c - a) = 0) := by omega
  cases hft : ds.flags.text with
  | false =>
    rw [hft] at hh
    simp only [Bool.false_eq_true, if_false, Prod.mk.injEq, and_true] at hh
    subst hh
    refine ⟨?_, fun g => by rw [hft] at g; cases g⟩
    obtain ⟨hj, h⟩ := h
    refine ⟨hj, ?_⟩
    rw [if_neg hdpos]
    refine ⟨fun _ => ?_, fun g => by rw [hft] at g; cases g⟩
    split at h
    · exact h
    · exact h.1 hft
  | true =>
    rw [hft] at hh
    simp only [if_true] at hh
    rcases produceText_desc hcl ds (h.dom hcl).1 inpS ⟨pc, ⟨a, c⟩, some (.text tt)⟩ tt with hp | ⟨rawb, a0, a1, a2, a3, a4, a5, a6, a7, a8, a9, a10, a11, a12, a13, a14⟩
    · rw [hh] at hp; exact hp.elim
    rw [hh] at a2 a3 a4 a5 a6 a7 a8 a9 a10 a11 a12 a13 a14
    simp only at a0 a1 a3 a4 a5 a6 a7 a8 a9 a10 a11 a12 a13 a14
    obtain ⟨r1, r2, r3⟩ := checkedSlice_some a0
    simp only at r1 r2 r3
    have hl := F.len
    have hrawW : rawb = LolHtml.slice inpW (a + δ) (c + δ) := by rw [r3, F.slice r2]
    have hlenb : rawb.length = c - a := by rw [hrawW, slice_length inpW (by omega)]; omega
    refine ⟨?_, fun _ => ⟨a13, a10, a6, a9⟩⟩
    have hsrc : srcOf pc ⟨a, c⟩ = ⟨pc + a, pc + c⟩ := rfl
    have hbytes : ∀ (hb : DBytes inpS inpW δ ds dw), DBytes inpS inpW δ ds' dw := by
      intro hb
      have hle := hb.rcs_le
      refine ⟨by rw [a13]; omega, ?_⟩
      have hbb := hb.bytes
      cases hemT : ds.emissionEnabled with
      | false =>
        rw [hemT] at hbb
        rw [a5, hemT, a14, hemT, hbb]
        simp
      | true =>
      rw [hemT] at hbb
      simp only [if_true] at hbb
      rw [a5, hemT, a14, hemT, hbb, a13]
      simp only [if_true]
      rw [hrawW, ← F.slice (s := ds.rcs) (e := a) (by omega), List.append_assoc,
        ← List.append_assoc (LolHtml.slice inpW dw.rcs (ds.rcs + δ)),
        slice_append_slice inpW hle (by omega), slice_append_slice inpW (by omega) (by omega)]
    have hjs : DJ ctl ds' := by
      have := produceNonTag_frame hcl ds inpS ⟨pc, ⟨a, c⟩, some (.text tt)⟩
      unfold Disp.produceNonTag at this
      simp only [hft, if_true] at this
      rw [hh] at this
      exact this.dj h.1
    have hdom := (h.dom hcl).1
    obtain ⟨hj, h⟩ := h
    refine ⟨hjs, ?_⟩
    rw [if_neg hdpos]
    refine ⟨(fun g => by rw [a4, hft] at g; cases g), fun _ => ?_⟩
    by_cases hd0 : d = 0
    · subst hd0
      rw [if_pos rfl] at h
      have hnd0 : ¬ TextDead ctl dw.ctl := fun hdw =>
        produceText_ok_notDead hcl ds inpS ⟨pc, ⟨a, c⟩, some (.text tt)⟩ tt (by rw [hh]) (hcl.dead_E _ _ h.ctl hdw)
      refine ⟨hnd0, ?_,
        ⟨by rw [a4]; exact h.eq.flags, by rw [a5]; exact h.eq.em, by rw [a7]; exact h.eq.gffh, by rw [a8]; exact h.eq.paux,
          by rw [a11]; exact h.eq.enc, by rw [a12]; exact h.eq.nenc⟩,
        hbytes h.bytes, by rw [a13]; have := h.bytes.rcs_le; omega, by rw [a13]; exact r2, by rw [a10]; omega⟩
      rw [a3, a13, a6, a10, Nat.zero_add, hsrc]
      rw [show c + δ - (c - a) = a + δ from by omega, show pc + c - (c - a) = pc + a from by omega, ← hrawW]
      exact hcl.text_cong _ _ _ _ _ _ h.ctl
    · rw [if_neg hd0] at h
      have k := h.2 hft
      obtain ⟨l1, l2, l3, l4⟩ := hloc (Nat.pos_of_ne_zero hd0) hft
      have hrd := k.rcs_d
      have htd := k.tps_d
      refine ⟨k.nd, ?_,
        ⟨by rw [a4]; exact k.eq.flags, by rw [a5]; exact k.eq.em, by rw [a7]; exact k.eq.gffh, by rw [a8]; exact k.eq.paux,
          by rw [a11]; exact k.eq.enc, by rw [a12]; exact k.eq.nenc⟩,
        hbytes k.bytes, by rw [a13]; omega, by rw [a13]; exact r2, by rw [a10]; omega⟩
      have hc := k.ctl
      rw [l1, l2, l3] at hc
      rw [a3, a13, a6, a10, hsrc]
      have h1 := hcl.text_cong _ _ rawb tt false ⟨pc + a, pc + c⟩ hc
      have hlen1 : (LolHtml.slice inpW (a + δ - d) (a + δ)).length = d := by
        rw [slice_length inpW (by omega)]; omega
      have h2 := hcl.text_split dw.ctl (LolHtml.slice inpW (a + δ - d) (a + δ)) rawb tt false (pc + a - d) (hcl.dom_tok _ _ (hcl.dom _ _ k.ctl).2)
      rw [hlen1, hlenb] at h2
      have e1 : pc + a - d + d = pc + a := by omega
      have e2 : pc + a + (c - a) = pc + c := by omega
      rw [e1, e2] at h2
      have hcat : LolHtml.slice inpW (a + δ - d) (a + δ) ++ rawb = LolHtml.slice inpW (c + δ - (d + (c - a))) (c + δ) := by
        rw [hrawW, slice_append_slice inpW (by omega) (by omega)]
        congr 1; omega
      rw [hcat] at h2
      rw [show pc + c - (d + (c - a)) = pc + a - d from by omega]
      exact hcl.trans _ _ _ h1 h2

/-- **The whole run flushes at the end of its `write`**: what follows is seen relative to the rest of the
whole input. -/
theorem DK.flushW {inpS inpW : Bytes} {δ d c' : Nat} {ds dw dw' : Disp γ}
    (h : DK ctl E inpS inpW δ d ds dw) (hr : ds.rcs = 0) (hc : c' + d = δ)
    (hf : flushC dw inpW c' = .ok dw') :
    DK ctl E inpS (inpW.drop c') d d ds dw' ∧ DSame dw dw' ∧ dw'.rcs = 0 ∧ c' ≤ inpW.length := by
  rcases flushC_desc dw inpW c' with ⟨m, he⟩ | ⟨d1, he, hs, h1, h2, h3, h4⟩
  · rw [he] at hf; cases hf
  rw [he] at hf
  simp only [Except.ok.injEq] at hf
  subst hf
  refine ⟨?_, hs, h1, h3⟩
  have hemw := h.em
  have hbytes : ∀ (hb : DBytes inpS inpW δ ds dw), DBytes inpS (inpW.drop c') d ds d1 := by
    intro hb
    refine ⟨by rw [h1]; omega, ?_⟩
    have hbb := hb.bytes
    rw [hemw] at h4
    cases hem : ds.emissionEnabled with
    | false =>
      rw [hem] at hbb h4
      rw [hbb, h4]
      simp
    | true =>
    rw [hem] at hbb h4
    simp only [if_true] at hbb h4 ⊢
    rw [hbb, h4, h1, hr, slice_drop, List.append_assoc, Nat.zero_add, Nat.zero_add,
      slice_append_slice inpW h2 (by omega)]
    congr 2; omega
  have h0 : DK0 E inpS inpW δ ds dw → DK0 E inpS (inpW.drop c') d ds d1 := by
    intro k
    exact ⟨by rw [hs.ctl]; exact k.ctl,
      ⟨by rw [hs.flags]; exact k.eq.flags, by rw [hs.em]; exact k.eq.em, by rw [hs.gffh]; exact k.eq.gffh,
        by rw [hs.paux]; exact k.eq.paux, by rw [hs.enc]; exact k.eq.enc, by rw [hs.nenc]; exact k.eq.nenc⟩,
      ⟨by rw [hs.ltt]; exact k.pend.ltt, by rw [hs.tp]; exact k.pend.tp, by rw [hs.tps]; exact k.pend.tps⟩,
      hbytes k.bytes⟩
  obtain ⟨hj, h⟩ := h
  refine ⟨hj, ?_⟩
  split
  · rename_i hd; rw [if_pos hd] at h; exact h0 h
  · rename_i hd; rw [if_neg hd] at h
    refine ⟨fun g => h0 (h.1 g), fun g => ?_⟩
    have k := h.2 g
    refine ⟨by rw [hs.ctl]; exact k.nd, ?_,
      ⟨by rw [hs.flags]; exact k.eq.flags, by rw [hs.em]; exact k.eq.em, by rw [hs.gffh]; exact k.eq.gffh,
        by rw [hs.paux]; exact k.eq.paux, by rw [hs.enc]; exact k.eq.enc, by rw [hs.nenc]; exact k.eq.nenc⟩,
      hbytes k.bytes, by rw [h1, hr]; omega, k.rcs_in, k.tps_d⟩
    have hc' := k.ctl
    rw [hs.ctl, slice_drop]
    rw [hr] at hc' ⊢
    rw [show 0 + d - d + c' = 0 + δ - d from by omega, show 0 + d + c' = 0 + δ from by omega]
    exact hc'

/-- **`finish`**: both runs flush the rest of their (jointly ending) inputs and run the end handlers. -/
theorem finish_sim {inpS inpW : Bytes} {δ : Nat} (F : Frame inpS inpW δ) (hclosed : Closed inpS inpW δ) (hcl : TextBlindR ctl E)
    {ds dw : Disp γ} (h : DK0 E inpS inpW δ ds dw) :
    EPanic (ds.finish ctl inpS).2 ∨
    ((dw.finish ctl inpW).2 = (ds.finish ctl inpS).2 ∧
      ((ds.finish ctl inpS).2 = .ok () →
        sinkBytes (dw.finish ctl inpW).1.sink = sinkBytes (ds.finish ctl inpS).1.sink ∧
        E (ds.finish ctl inpS).1.ctl (dw.finish ctl inpW).1.ctl)) := by
  have hc : inpW.length = inpS.length + δ := hclosed
  have hle := h.bytes.rcs_le
  -- the flush, in both runs
  have hfl : (∃ m, ds.flushRemaining inpS inpS.length = .error (.panic m)) ∨
      ∃ d1 d2, ds.flushRemaining inpS inpS.length = .ok d1 ∧ dw.flushRemaining inpW inpW.length = .ok d2 ∧
        DSame ds d1 ∧ DSame dw d2 ∧ sinkBytes d2.sink = sinkBytes d1.sink := by
    cases hem : ds.emissionEnabled with
    | true =>
      have hemW : dw.emissionEnabled = true := by rw [h.eq.em]; exact hem
      rcases flushRemaining_desc ds inpS inpS.length hem with ⟨m, he⟩ | ⟨d1, he, hs, h1, h2, h3, h4⟩
      · exact Or.inl ⟨m, he⟩
      rcases flushRemaining_desc dw inpW inpW.length hemW with ⟨m, he'⟩ | ⟨d2, he', hs', g1, g2, g3, g4⟩
      · exfalso
        unfold Disp.flushRemaining at he'
        rw [if_pos hemW] at he'
        have : checkedSlice inpW ⟨dw.rcs, inpW.length⟩ = some (LolHtml.slice inpW dw.rcs inpW.length) := by
          unfold checkedSlice; rw [if_pos ⟨by simp only; omega, Nat.le_refl _⟩]
        rw [this] at he'
        cases he'
      refine Or.inr ⟨d1, d2, he, he', hs, hs', ?_⟩
      have hbb := h.bytes.bytes
      rw [hem] at hbb
      simp only [if_true] at hbb
      rw [g4, h4, hbb, List.append_assoc, ← F.slice (s := ds.rcs) (e := inpS.length) (Nat.le_refl _), ← hc,
        slice_append_slice inpW hle (by omega)]
    | false =>
      have hemW : dw.emissionEnabled = false := by rw [h.eq.em]; exact hem
      refine Or.inr ⟨{ ds with rcs := 0 }, { dw with rcs := 0 }, ?_, ?_, ⟨rfl, rfl, rfl, rfl, rfl, rfl, rfl, rfl, rfl, rfl⟩,
        ⟨rfl, rfl, rfl, rfl, rfl, rfl, rfl, rfl, rfl, rfl⟩, ?_⟩
      · unfold Disp.flushRemaining; rw [if_neg (by rw [hem]; simp)]
      · unfold Disp.flushRemaining; rw [if_neg (by rw [hemW]; simp)]
      · have hbb := h.bytes.bytes
        rw [hem] at hbb
        simp only [Bool.false_eq_true, if_false, List.append_nil] at hbb
        exact hbb.symm
  unfold Disp.finish
  rcases hfl with ⟨m, he⟩ | ⟨d1, d2, he, he', hs, hs', hsb⟩
  · left; rw [he]; simp [DRes.ofExcept, DRes.bind, EPanic]
  right
  rw [he, he']
  simp only [DRes.ofExcept, DRes.bind]
  have hE : E d1.ctl d2.ctl := by rw [hs.ctl, hs'.ctl]; exact h.ctl
  obtain ⟨e1, e2⟩ := hcl.handleEnd d1.ctl d2.ctl hE
  rw [← e1]
  cases hr : (ctl.handleEnd d1.ctl).2.2 with
  | some e => exact ⟨rfl, fun hh => by cases hh⟩
  | none =>
    simp only
    refine ⟨trivial, fun _ => ⟨?_, e2⟩⟩
    simp only [sinkBytes_append, hsb]

end

end LolHtml.Model.Chunk.R
