import LolHtml.Lemmas.TbT2
import LolHtml.Lemmas.TbSw4
/-!
`SwPostT`: what a rule answers to the tokenizer, with templates (any stack of template insertion modes
satisfying `TmOk`): as `SwPost`, and a text-switching start tag is acted upon unless the parser is in a
frameset mode or in "in column group" without a `colgroup` current node (`ColOk`).
-/
namespace LolHtml.Spec.TreeBuilder
open LolHtml.Model (Ns)

variable {c : Cfg} {s : State}

/-- in "in column group" the current node is the `colgroup` (false inside a template whose mode became
"in column group" through a `col` start tag) -/
def ColOk (s : State) : Prop := s.mode = .inColumnGroup → s.currentIs .colgroup = true

def SwPostT (c : Cfg) (t : Token) (s : State) : Res → Prop
  | .done s' sw =>
      (NsOk c s → NsOk c s') ∧
      (match t with
        | .start n _ _ => (sw = .none ∨ sw = switchOf c n) ∧
            ((isFramesetMode s.mode = false ∨ n = .noframes) → ColOk s → sw = switchOf c n)
        | _ => sw = .none) ∧
      (s'.mode = .text ↔ sw.isRaw = true)
  | .reprocess s' _ =>
      (NsOk c s → NsOk c s') ∧
      s'.mode ≠ .text ∧
      (match t with
        | .start n _ _ => switchOf c n ≠ .none → rank s'.mode < rank s.mode ∧ s'.mode ≠ .inColumnGroup
        | _ => True)
  | .impossible _ => False

theorem resetLoop_ne_textT (c : Cfg) (tm : List Mode) (htm : TmOk tm) (hn : Bool) (st : List El) :
    resetLoop c tm hn st ≠ .text ∧ resetLoop c tm hn st ≠ .inHeadNoscript := by
  have hhd : tm.headD .inBody ≠ .text ∧ tm.headD .inBody ≠ .inHeadNoscript := by
    cases tm with
    | nil => simp
    | cons m tm' =>
      have := htm m (by simp)
      simp only [templateModes, List.mem_cons, List.mem_nil_iff, or_false] at this
      rcases this with rfl | rfl | rfl | rfl | rfl | rfl <;> simp
  induction st with
  | nil => simp [resetLoop]
  | cons e es ih =>
    unfold resetLoop
    constructor
    · repeat' apply ite_ne
      all_goals first
        | exact ih.1
        | exact hhd.1
        | exact resetSelect_ne_text _
        | (intro h; cases h)
    · repeat' apply ite_ne
      all_goals first
        | exact ih.2
        | exact hhd.2
        | exact resetSelect_ne_noscript _
        | (intro h; cases h)

/-- close a `SwPostT` goal whose result is explicit -/
syntax "tsw_branch" : tactic
macro_rules
  | `(tactic| tsw_branch) => `(tactic| first
    | (simp_all [SwPostT, ColOk, NsOk, switchOf, Name.isIn, rank, isFramesetMode, Switch.isRaw, callsHead, headStartNames,
        State.resetMode]; done)
    | (simp_all +decide [SwPostT, ColOk, NsOk, switchOf, Name.isIn, rank, isFramesetMode, Switch.isRaw, callsHead, headStartNames,
        State.resetMode]; done))

/-- per-function proof of `SwPostT` -/
syntax "tsw_cases" ident "[" Lean.Parser.Tactic.simpLemma,* "]" "(" tactic ")" : tactic
macro_rules
  | `(tactic| tsw_cases $t:ident [$defs,*] ($alt:tactic)) => `(tactic|
    (cases $t:ident with
     | start n sc a =>
       cases n
       all_goals eval_rule' [$defs,*]
       all_goals (repeat' split)
       all_goals first | tsw_branch | ($alt:tactic)
     | «end» n =>
       cases n
       all_goals eval_rule' [$defs,*]
       all_goals (repeat' split)
       all_goals first | tsw_branch | ($alt:tactic)
     | char cc =>
       cases cc
       all_goals eval_rule' [$defs,*]
       all_goals (repeat' split)
       all_goals first | tsw_branch | ($alt:tactic)
     | comment =>
       eval_rule' [$defs,*]
       (repeat' split)
       all_goals first | tsw_branch | ($alt:tactic)
     | doctype d =>
       eval_rule' [$defs,*]
       (repeat' split)
       all_goals first | tsw_branch | ($alt:tactic)
     | eof =>
       eval_rule' [$defs,*]
       (repeat' split)
       all_goals first | tsw_branch | ($alt:tactic)))

/-- the facts about "reset the insertion mode appropriately" the branches need -/
structure RsOk (c : Cfg) (s : State) : Prop where
  r1 : ∀ (hp : Option El) st, (resetLoop c s.tmodes hp.isNone st = .text) = False
  r2 : ∀ (hp : Option El) st, (resetLoop c s.tmodes hp.isNone st = .inHeadNoscript) = False
  r3 : ∀ (hp : Option El) st, (resetLoop c s.tmodes.tail hp.isNone st = .text) = False
  r4 : ∀ (hp : Option El) st, (resetLoop c s.tmodes.tail hp.isNone st = .inHeadNoscript) = False

theorem rsOk (c : Cfg) (htm : TmOk s.tmodes) : RsOk c s :=
  ⟨fun hp st => eq_false (resetLoop_ne_textT c _ htm hp.isNone st).1,
   fun hp st => eq_false (resetLoop_ne_textT c _ htm hp.isNone st).2,
   fun hp st => eq_false (resetLoop_ne_textT c _ htm.tail hp.isNone st).1,
   fun hp st => eq_false (resetLoop_ne_textT c _ htm.tail hp.isNone st).2⟩

set_option maxHeartbeats 16000000 in
theorem inHead_swT (h1 : s.mode ≠ .text) (htm : TmOk s.tmodes) (t : Token)
    (hcall : s.mode = .inHead ∨ callsHead t = true) : SwPostT c t s (inHead c s t) := by
  obtain ⟨r1, r2, r3, r4⟩ := rsOk c htm
  cases t with
  | start n sc a =>
    cases n
    all_goals eval_rule' [inHead, rawText]
    all_goals (repeat' split)
    all_goals tsw_branch
  | «end» n =>
    cases n
    all_goals eval_rule' [inHead, rawText]
    all_goals (repeat' split)
    all_goals tsw_branch
  | char cc =>
    cases cc
    all_goals eval_rule' [inHead]
    all_goals tsw_branch
  | comment => eval_rule' [inHead]; tsw_branch
  | doctype d => eval_rule' [inHead]; tsw_branch
  | eof => eval_rule' [inHead]; tsw_branch

set_option maxHeartbeats 32000000 in
theorem inBody_swT (h1 : s.mode ≠ .text) (htm : TmOk s.tmodes) (t : Token) : SwPostT c t s (inBody c s t) := by
  obtain ⟨r1, r2, r3, r4⟩ := rsOk c htm
  tsw_cases t [inBody, inBodyStart, inBodyEnd, inBodyChar, inTemplateEof, rawText]
    (first | exact inHead_swT h1 htm _ (Or.inr (by rfl)))

set_option maxHeartbeats 32000000 in
theorem inTable_swT (h1 : s.mode ≠ .text) (htm : TmOk s.tmodes) (t : Token) : SwPostT c t s (inTable c s t) := by
  obtain ⟨r1, r2, r3, r4⟩ := rsOk c htm
  tsw_cases t [inTable, inTableAnythingElse]
    (first | exact inHead_swT h1 htm _ (Or.inr (by rfl)) | exact inBody_swT h1 htm _)

theorem inTableText_swT (hm : s.mode = .inTableText)
    (ho : s.origMode = .inTable ∨ s.origMode = .inTableBody ∨ s.origMode = .inRow) (t : Token) :
    SwPostT c t s (inTableText c s t) := by
  have key : SwPostT c t s (Res.again { flushPending s with mode := (flushPending s).origMode }) := by
    have e2 := (flushPending_mode s).2
    refine ⟨?_, ?_, ?_⟩
    · intro hns hs
      have := hns hs
      show (flushPending s).origMode ≠ .inHeadNoscript ∧ (flushPending s).origMode ≠ .inHeadNoscript
      rw [e2]; exact ⟨this.2, this.2⟩
    · show (flushPending s).origMode ≠ .text
      rw [e2]; rcases ho with h | h | h <;> simp [h]
    · cases t <;> simp only
      intro _
      show rank (flushPending s).origMode < rank s.mode ∧ (flushPending s).origMode ≠ .inColumnGroup
      rw [e2, hm]; rcases ho with h | h | h <;> simp [h, rank]
  cases t with
  | char cc => cases cc <;> simp [inTableText, SwPostT, NsOk, Res.ignore, Res.ok, hm, Switch.isRaw] <;> exact key
  | start n sc a => exact key
  | «end» n => exact key
  | comment => exact key
  | doctype d => exact key
  | eof => exact key

set_option maxHeartbeats 32000000 in
theorem inCaption_swT (hm : s.mode = .inCaption) (htm : TmOk s.tmodes) (t : Token) : SwPostT c t s (inCaption c s t) := by
  have h1 : s.mode ≠ .text := by simp [hm]
  obtain ⟨r1, r2, r3, r4⟩ := rsOk c htm
  tsw_cases t [inCaption] (first | exact inBody_swT h1 htm _)

set_option maxHeartbeats 32000000 in
theorem inTableBody_swT (hm : s.mode = .inTableBody) (htm : TmOk s.tmodes) (t : Token) : SwPostT c t s (inTableBody c s t) := by
  have h1 : s.mode ≠ .text := by simp [hm]
  obtain ⟨r1, r2, r3, r4⟩ := rsOk c htm
  tsw_cases t [inTableBody] (first | exact inTable_swT h1 htm _)

set_option maxHeartbeats 32000000 in
theorem inRow_swT (hm : s.mode = .inRow) (htm : TmOk s.tmodes) (t : Token) : SwPostT c t s (inRow c s t) := by
  have h1 : s.mode ≠ .text := by simp [hm]
  obtain ⟨r1, r2, r3, r4⟩ := rsOk c htm
  tsw_cases t [inRow] (first | exact inTable_swT h1 htm _)

set_option maxHeartbeats 32000000 in
theorem inCell_swT (hm : s.mode = .inCell) (htm : TmOk s.tmodes) (t : Token) : SwPostT c t s (inCell c s t) := by
  have h1 : s.mode ≠ .text := by simp [hm]
  obtain ⟨r1, r2, r3, r4⟩ := rsOk c htm
  tsw_cases t [inCell, State.closeCell] (first | exact inBody_swT h1 htm _)

set_option maxHeartbeats 32000000 in
theorem inColumnGroup_swT (hm : s.mode = .inColumnGroup) (htm : TmOk s.tmodes) (t : Token) :
    SwPostT c t s (inColumnGroup c s t) := by
  have h1 : s.mode ≠ .text := by simp [hm]
  obtain ⟨r1, r2, r3, r4⟩ := rsOk c htm
  tsw_cases t [inColumnGroup]
    (first | exact inHead_swT h1 htm _ (Or.inr (by rfl)) | exact inBody_swT h1 htm _)

set_option maxHeartbeats 32000000 in
theorem inTemplate_swT (hm : s.mode = .inTemplate) (htm : TmOk s.tmodes) (t : Token) : SwPostT c t s (inTemplate c s t) := by
  have h1 : s.mode ≠ .text := by simp [hm]
  obtain ⟨r1, r2, r3, r4⟩ := rsOk c htm
  tsw_cases t [inTemplate, inTemplateEof, headStartNames]
    (first | exact inHead_swT h1 htm _ (Or.inr (by rfl)) | exact inBody_swT h1 htm _)

set_option maxHeartbeats 32000000 in
theorem afterBody_swT (hm : s.mode = .afterBody) (htm : TmOk s.tmodes) (t : Token) : SwPostT c t s (afterBody c s t) := by
  have h1 : s.mode ≠ .text := by simp [hm]
  obtain ⟨r1, r2, r3, r4⟩ := rsOk c htm
  tsw_cases t [afterBody] (first | exact inBody_swT h1 htm _)

set_option maxHeartbeats 32000000 in
theorem afterAfterBody_swT (hm : s.mode = .afterAfterBody) (htm : TmOk s.tmodes) (t : Token) :
    SwPostT c t s (afterAfterBody c s t) := by
  have h1 : s.mode ≠ .text := by simp [hm]
  obtain ⟨r1, r2, r3, r4⟩ := rsOk c htm
  tsw_cases t [afterAfterBody] (first | exact inBody_swT h1 htm _)

set_option maxHeartbeats 32000000 in
theorem inFrameset_swT (hm : s.mode = .inFrameset) (htm : TmOk s.tmodes) (t : Token) : SwPostT c t s (inFrameset c s t) := by
  have h1 : s.mode ≠ .text := by simp [hm]
  obtain ⟨r1, r2, r3, r4⟩ := rsOk c htm
  tsw_cases t [inFrameset] (first | exact inHead_swT h1 htm _ (Or.inr (by rfl)))

set_option maxHeartbeats 32000000 in
theorem afterFrameset_swT (hm : s.mode = .afterFrameset) (htm : TmOk s.tmodes) (t : Token) :
    SwPostT c t s (afterFrameset c s t) := by
  have h1 : s.mode ≠ .text := by simp [hm]
  obtain ⟨r1, r2, r3, r4⟩ := rsOk c htm
  tsw_cases t [afterFrameset] (first | exact inHead_swT h1 htm _ (Or.inr (by rfl)))

set_option maxHeartbeats 32000000 in
theorem afterAfterFrameset_swT (hm : s.mode = .afterAfterFrameset) (htm : TmOk s.tmodes) (t : Token) :
    SwPostT c t s (afterAfterFrameset c s t) := by
  have h1 : s.mode ≠ .text := by simp [hm]
  obtain ⟨r1, r2, r3, r4⟩ := rsOk c htm
  tsw_cases t [afterAfterFrameset] (first | exact inHead_swT h1 htm _ (Or.inr (by rfl)) | exact inBody_swT h1 htm _)

set_option maxHeartbeats 32000000 in
theorem initial_swT (hm : s.mode = .initial) (t : Token) : SwPostT c t s (initial c s t) := by
  tsw_cases t [initial] (skip)

set_option maxHeartbeats 32000000 in
theorem beforeHtml_swT (hm : s.mode = .beforeHtml) (t : Token) : SwPostT c t s (beforeHtml c s t) := by
  tsw_cases t [beforeHtml] (skip)

set_option maxHeartbeats 32000000 in
theorem beforeHead_swT (hm : s.mode = .beforeHead) (t : Token) : SwPostT c t s (beforeHead c s t) := by
  tsw_cases t [beforeHead] (skip)

set_option maxHeartbeats 32000000 in
theorem inHeadNoscript_swT (hm : s.mode = .inHeadNoscript) (hns : c.scripting = false) (htm : TmOk s.tmodes) (t : Token) :
    SwPostT c t s (inHeadNoscript c s t) := by
  have h1 : s.mode ≠ .text := by simp [hm]
  obtain ⟨r1, r2, r3, r4⟩ := rsOk c htm
  tsw_cases t [inHeadNoscript] (first | exact inHead_swT h1 htm _ (Or.inr (by rfl)))

theorem SwPostT.congr_mode {t : Token} {s1 s2 : State} {r : Res} (hm : s1.mode = s2.mode) (ho : s1.origMode = s2.origMode)
    (hc : s1.mode ≠ .inColumnGroup) (h : SwPostT c t s1 r) : SwPostT c t s2 r := by
  have hc2 : s2.mode ≠ .inColumnGroup := hm ▸ hc
  cases r <;> simp_all [SwPostT, NsOk, ColOk]

theorem SwPostT.mapState {t : Token} {r : Res} (f : State → State) (hf : ∀ x, (f x).mode = x.mode ∧ (f x).origMode = x.origMode)
    (h : SwPostT c t s r) : SwPostT c t s (r.mapState f) := by
  cases r <;> simp_all [SwPostT, NsOk, Res.mapState]

set_option maxHeartbeats 32000000 in
theorem afterHead_swT (hm : s.mode = .afterHead) (htm : TmOk s.tmodes) (t : Token) : SwPostT c t s (afterHead c s t) := by
  have h1 : s.mode ≠ .text := by simp [hm]
  obtain ⟨r1, r2, r3, r4⟩ := rsOk c htm
  have push : ∀ (h : El), callsHead t = true →
      SwPostT c t s ((inHead c (s.onTree (·.pushEl h)) t).mapState (·.removeFromStack h)) := by
    intro h hc
    refine SwPostT.mapState (fun x => x.removeFromStack h) (fun x => ⟨rfl, rfl⟩) ?_
    exact SwPostT.congr_mode (s1 := s.onTree (·.pushEl h)) rfl rfl (by simp [hm])
      (inHead_swT (s := s.onTree (·.pushEl h)) h1 htm t (Or.inr hc))
  tsw_cases t [afterHead]
    (first | exact inHead_swT h1 htm _ (Or.inr (by rfl)) | exact push _ (by rfl))

/-- every insertion mode except "text" -/
theorem stepMode_swT {b : Bool} (hI : TInv b s) (hns : NsOk c s) (h1 : s.mode ≠ .text) (t : Token) :
    SwPostT c t s (stepMode c s t) := by
  have htm := hI.tmodes
  have hm := hI.modes
  unfold stepMode
  cases hmode : s.mode <;> simp only
  case initial => exact initial_swT hmode t
  case beforeHtml => exact beforeHtml_swT hmode t
  case beforeHead => exact beforeHead_swT hmode t
  case inHead => exact inHead_swT (by simp [hmode]) htm t (Or.inl hmode)
  case inHeadNoscript =>
    have : c.scripting = false := by
      cases hs : c.scripting with
      | false => rfl
      | true => exact absurd hmode (hns hs).1
    exact inHeadNoscript_swT hmode this htm t
  case afterHead => exact afterHead_swT hmode htm t
  case inBody => exact inBody_swT (by simp [hmode]) htm t
  case text => exact (h1 hmode).elim
  case inTable => exact inTable_swT (by simp [hmode]) htm t
  case inTableText => exact inTableText_swT hmode (hm.2.1 hmode) t
  case inCaption => exact inCaption_swT hmode htm t
  case inColumnGroup => exact inColumnGroup_swT hmode htm t
  case inTableBody => exact inTableBody_swT hmode htm t
  case inRow => exact inRow_swT hmode htm t
  case inCell => exact inCell_swT hmode htm t
  case inSelect => exact absurd hmode hm.1.1
  case inSelectInTable => exact absurd hmode hm.1.2.1
  case inTemplate => exact inTemplate_swT hmode htm t
  case afterBody => exact afterBody_swT hmode htm t
  case inFrameset => exact inFrameset_swT hmode htm t
  case afterFrameset => exact afterFrameset_swT hmode htm t
  case afterAfterBody => exact afterAfterBody_swT hmode htm t
  case afterAfterFrameset => exact afterAfterFrameset_swT hmode htm t

end LolHtml.Spec.TreeBuilder
