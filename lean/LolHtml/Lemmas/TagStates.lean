import LolHtml.Model.SM
import LolHtml.Lemmas.ArmResolve
import LolHtml.Spec.Attrs
/-!
The tag / attribute states of the tokenizer table, as a decidable side-condition on the table, and
one symbolic-evaluation lemma per (state, byte class) for the LEXER machine: what one invocation of
`stateFn` does.

`TagStatesOk tbl` says that the ten states a start tag passes through (tag open, tag name,
self-closing start tag, before/in/after attribute name, before attribute value, the three attribute
value states) BEHAVE like the arm lists the proofs below were made for, at the state indices the arms
refer to: exactly the same enter actions, memchr needle and sequence arms, and for each of the 514
input classes (every byte, as closing quote or not; end of input on a last / non-last slice) the
first matching arm has the same kind (`eoc` / `eof` / other) and the same body — `Lemmas/ArmResolve.lean`.
The ORDER of arms with disjoint patterns, or spelling a class out byte by byte, does not matter:
`dispatch` reads the arm list through that resolution only (`dispatch_of_armsAgree`).
It is evaluated on `Gen.Syntax.table` (regenerated from the Rust on every run) by
`decide +kernel` in `Thm/C16_Attrs.lean`. `tagStatesWitness` lists what differs.
-/
namespace LolHtml.Model.TagStates
open LolHtml LolHtml.Model

/-- enter actions, memchr needle and arms of a state (its name does not matter) -/
abbrev Key := StateKey

def eofArm : Arm := ⟨.eof, .seq ⟨[⟨.emitRawWithoutTokenAndEof, true⟩], none⟩⟩

/-- tag_open_state (syntax/tag/mod.rs) -/
def exp28 : Key := ([], none, [
  ⟨.alpha, .seq ⟨[⟨.createStartTag, false⟩, ⟨.startTokenPart, false⟩, ⟨.updateTagNameHash, false⟩], some (.goto 31)⟩⟩,
  ⟨.byte 33, .seq ⟨[⟨.unmarkTagStart, false⟩], some (.goto 30)⟩⟩,
  ⟨.byte 47, .seq ⟨[], some (.goto 29)⟩⟩,
  ⟨.byte 63, .seq ⟨[⟨.unmarkTagStart, false⟩, ⟨.createComment, false⟩, ⟨.startTokenPart, false⟩], some (.goto 40)⟩⟩,
  ⟨.eof, .seq ⟨[⟨.emitTextAndEof, true⟩], none⟩⟩,
  ⟨.any, .seq ⟨[⟨.unmarkTagStart, false⟩, ⟨.emitText, true⟩], some (.reconsume 2)⟩⟩])

/-- tag_name_state -/
def exp31 : Key := ([], none, [
  ⟨.whitespace, .seq ⟨[⟨.finishTagName, true⟩], some (.goto 33)⟩⟩,
  ⟨.byte 62, .seq ⟨[⟨.finishTagName, true⟩, ⟨.emitTag, true⟩], some .gotoDyn⟩⟩,
  ⟨.byte 47, .seq ⟨[⟨.finishTagName, true⟩], some (.goto 32)⟩⟩,
  eofArm,
  ⟨.any, .seq ⟨[⟨.updateTagNameHash, false⟩], none⟩⟩])

/-- self_closing_start_tag_state -/
def exp32 : Key := ([], none, [
  ⟨.byte 62, .seq ⟨[⟨.markAsSelfClosing, false⟩, ⟨.emitTag, true⟩], some .gotoDyn⟩⟩,
  eofArm,
  ⟨.any, .seq ⟨[], some (.reconsume 33)⟩⟩])

/-- before_attribute_name_state (syntax/tag/attributes.rs) -/
def exp33 : Key := ([], none, [
  ⟨.whitespace, .seq ⟨[], none⟩⟩,
  ⟨.byte 47, .seq ⟨[], some (.goto 32)⟩⟩,
  ⟨.byte 62, .seq ⟨[⟨.emitTag, true⟩], some .gotoDyn⟩⟩,
  eofArm,
  ⟨.any, .seq ⟨[⟨.startAttr, false⟩], some (.goto 34)⟩⟩])

/-- attribute_name_state -/
def exp34 : Key := ([], none, [
  ⟨.whitespace, .seq ⟨[⟨.finishAttrName, false⟩], some (.goto 35)⟩⟩,
  ⟨.byte 61, .seq ⟨[⟨.finishAttrName, false⟩], some (.goto 36)⟩⟩,
  ⟨.byte 47, .seq ⟨[⟨.finishAttrName, false⟩, ⟨.finishAttr, false⟩], some (.goto 32)⟩⟩,
  ⟨.byte 62, .seq ⟨[⟨.finishAttrName, false⟩, ⟨.finishAttr, false⟩, ⟨.emitTag, true⟩], some .gotoDyn⟩⟩,
  eofArm,
  ⟨.any, .seq ⟨[], none⟩⟩])

/-- after_attribute_name_state -/
def exp35 : Key := ([], none, [
  ⟨.whitespace, .seq ⟨[], none⟩⟩,
  ⟨.byte 47, .seq ⟨[⟨.finishAttr, false⟩], some (.goto 32)⟩⟩,
  ⟨.byte 61, .seq ⟨[], some (.goto 36)⟩⟩,
  ⟨.byte 62, .seq ⟨[⟨.finishAttr, false⟩, ⟨.emitTag, true⟩], some .gotoDyn⟩⟩,
  eofArm,
  ⟨.any, .seq ⟨[⟨.finishAttr, false⟩, ⟨.startAttr, false⟩], some (.goto 34)⟩⟩])

/-- before_attribute_value_state; `t` is the transition of its `>` arm: `--> data_state` in the code
as it stands (finding F1 of C03: it should be `--> dyn next_text_parsing_state`), either is accepted -/
def exp36 (t : Trans) : Key := ([], none, [
  ⟨.whitespace, .seq ⟨[], none⟩⟩,
  ⟨.byte 34, .seq ⟨[⟨.setClosingQuoteToDouble, false⟩], some (.goto 38)⟩⟩,
  ⟨.byte 39, .seq ⟨[⟨.setClosingQuoteToSingle, false⟩], some (.goto 37)⟩⟩,
  ⟨.byte 62, .seq ⟨[⟨.finishAttr, false⟩, ⟨.emitTag, true⟩], some t⟩⟩,
  eofArm,
  ⟨.any, .seq ⟨[], some (.reconsume 39)⟩⟩])

/-- attribute_value_{single,double}_quoted_state -/
def expQuoted (q : UInt8) : Key := ([⟨.startTokenPart, false⟩], some q, [
  ⟨.any, .seq ⟨[⟨.finishAttrValue, false⟩, ⟨.finishAttr, false⟩], some (.goto 33)⟩⟩,
  eofArm])

/-- attribute_value_unquoted_state -/
def exp39 : Key := ([⟨.startTokenPart, false⟩], none, [
  ⟨.whitespace, .seq ⟨[⟨.finishAttrValue, false⟩, ⟨.finishAttr, false⟩], some (.goto 33)⟩⟩,
  ⟨.byte 62, .seq ⟨[⟨.finishAttrValue, false⟩, ⟨.finishAttr, false⟩, ⟨.emitTag, true⟩], some .gotoDyn⟩⟩,
  eofArm,
  ⟨.any, .seq ⟨[], none⟩⟩])

/-- data_state (syntax/text/data.rs) -/
def exp2 : Key := ([], some 60, [
  ⟨.any, .seq ⟨[⟨.emitText, true⟩, ⟨.markTagStart, false⟩], some (.goto 28)⟩⟩,
  ⟨.eoc, .seq ⟨[⟨.emitText, true⟩], none⟩⟩,
  ⟨.eof, .seq ⟨[⟨.emitTextAndEof, true⟩], none⟩⟩])

/-- the transition after the `>` arm of before_attribute_value_state -/
def trans36 (t : Table) : Trans :=
  if stateMatches t (36, exp36 .gotoDyn) then .gotoDyn else .goto t.dataState

/-- expected keys by state index -/
def expected (t : Table) : List (Nat × Key) :=
  [(2, exp2), (28, exp28), (31, exp31), (32, exp32), (33, exp33), (34, exp34), (35, exp35), (36, exp36 (trans36 t)),
   (37, expQuoted 39), (38, expQuoted 34), (39, exp39)]

def allBytes : List UInt8 := (List.range 256).map UInt8.ofNat

theorem mem_allBytes (x : UInt8) : x ∈ allBytes := by
  unfold allBytes
  rw [List.mem_map]
  exact ⟨x.toNat, List.mem_range.mpr x.toNat_lt, by simp⟩

/-- the `whitespace` class contains exactly SP LF CR TAB FF (whatever the order or multiplicity it is written in) -/
def wsClassOk (t : Table) : Bool :=
  allBytes.all fun x => t.whitespace.contains x == ([32, 10, 13, 9, 12] : List UInt8).contains x

/-- the `alpha` class is exactly a–z, A–Z (whatever the ranges it is written as) -/
def alphaClassOk (t : Table) : Bool :=
  allBytes.all fun x => t.alpha.any (fun r => r.1 ≤ x && x ≤ r.2) ==
    ([(97, 122), (65, 90)] : List (UInt8 × UInt8)).any (fun r => r.1 ≤ x && x ≤ r.2)

/-- the side-condition: the tag states resolve like the expected ones (`stateMatches`); the character classes are
the ASCII letters and the five HTML whitespace bytes; the data state is where `tag_open_state` comes from -/
def TagStatesOk (t : Table) : Bool :=
  (expected t).all (stateMatches t) && wsClassOk t && alphaClassOk t && t.dataState == 2

/-- diagnostics: (state name or index, code): 2000 = missing state / class mismatch, 1000 = enter actions or memchr
needle differ, 3000 = sequence arms differ, otherwise the first input class that resolves to a different arm:
`2·byte` (`2·byte + 1` with that byte as the closing quote), 512 = end of input on the last slice, 513 = on a
non-last slice -/
def tagStatesWitness (t : Table) : List (String × Nat) :=
  ((expected t).filterMap (stateWitness t)) ++
  (if wsClassOk t then [] else [("whitespace class", 2000)]) ++
  (if alphaClassOk t then [] else [("alpha class", 2000)]) ++
  (if t.dataState == 2 then [] else [("data state index", 2000)])

/-! ## Facts extracted from the side-condition -/

variable {κ : Type}

/-- the state exists, with the expected enter actions and needle, and `dispatch` over its arms IS `dispatch` over the
expected arms (`ha`, used as a rewrite rule by the step lemmas) -/
theorem state_of_ok {t : Table} (h : TagStatesOk t = true) {s : Nat} {k : Key} (hm : (s, k) ∈ expected t) :
    ∃ sd, t.state? s = some sd ∧ sd.enter = k.1 ∧ sd.memchr = k.2.1 ∧
      (∀ {κ : Type} (env : Env κ), env.tbl = t → ∀ (inp : Bytes) (ch : Option UInt8) (m : M κ),
        dispatch env inp ch sd.arms m = dispatch env inp ch k.2.2 m) := by
  unfold TagStatesOk at h
  simp only [Bool.and_eq_true, List.all_eq_true] at h
  exact state_of_matches (h.1.1.1 _ hm)

theorem ws_of_ok {t : Table} (h : TagStatesOk t = true) (x : UInt8) :
    x ∈ t.whitespace ↔ x ∈ ([32, 10, 13, 9, 12] : List UInt8) := by
  unfold TagStatesOk wsClassOk at h
  simp only [Bool.and_eq_true, List.all_eq_true, beq_iff_eq] at h
  have := h.1.1.2 x (mem_allBytes x)
  rw [← List.contains_iff_mem, ← List.contains_iff_mem, this]
theorem alpha_of_ok {t : Table} (h : TagStatesOk t = true) (x : UInt8) :
    t.alpha.any (fun r => r.1 ≤ x && x ≤ r.2) = ([(97, 122), (65, 90)] : List (UInt8 × UInt8)).any (fun r => r.1 ≤ x && x ≤ r.2) := by
  unfold TagStatesOk alphaClassOk at h
  simp only [Bool.and_eq_true, List.all_eq_true, beq_iff_eq] at h
  exact h.1.2 x (mem_allBytes x)
theorem data_of_ok {t : Table} (h : TagStatesOk t = true) : t.dataState = 2 := by
  unfold TagStatesOk at h; simp only [Bool.and_eq_true, beq_iff_eq] at h; exact h.2

/-- byte classes in the shape `simp` leaves them -/
def IsWs (b : UInt8) : Prop := b = 32 ∨ b = 10 ∨ b = 13 ∨ b = 9 ∨ b = 12
def NotWs (b : UInt8) : Prop := ¬b = 32 ∧ ¬b = 10 ∧ ¬b = 13 ∧ ¬b = 9 ∧ ¬b = 12

theorem isWs_true {b : UInt8} (h : Spec.Attrs.isWs b = true) : IsWs b := by
  simp only [Spec.Attrs.isWs, Bool.or_eq_true, beq_iff_eq] at h
  unfold IsWs
  rcases h with (((h | h) | h) | h) | h <;> simp [h]
theorem isWs_false {b : UInt8} (h : Spec.Attrs.isWs b = false) : NotWs b := by
  simp only [Spec.Attrs.isWs, Bool.or_eq_false_iff, beq_eq_false_iff_ne, ne_eq] at h
  obtain ⟨⟨⟨⟨a, b'⟩, c⟩, d⟩, e⟩ := h
  exact ⟨e, b', d, a, c⟩

/-- the final step of a tag: `emit_tag?` then the transition -/
def finish (env : Env κ) (tr : Trans) (r : M κ × Option Signal) : M κ × Option Signal :=
  match r.2 with
  | some s => (r.1, some s)
  | none => applyTrans env tr r.1

section
variable {env : Env κ} (hok : TagStatesOk env.tbl = true) {inp : Bytes} {b : UInt8}
  {p : Nat} {il en ca : Bool} {lsh : Nat} {cq : UInt8} {ltt : TextType}
  {ls tps : Nat} {cnt : Option NonTagOutline} {cattr : Option AttrOutline} {fd : FeedbackDirective}
  {x : Ctx κ}

set_option hygiene false in
macro "step_prelude" s:num k:term : tactic => `(tactic| (
  obtain ⟨sd, hs, he, hm, ha⟩ := state_of_ok hok (s := $s) (k := $k) (by simp [expected])
  have hw := ws_of_ok hok
  have hal := alpha_of_ok hok
  unfold stateFn
  simp only [hs, he, hm, ha, exp2, exp28, exp31, exp32, exp33, exp34, exp35, exp36, expQuoted, exp39, eofArm,
    List.isEmpty_nil, List.isEmpty_cons, Bool.not_true, Bool.not_false, Bool.false_and, Bool.true_and, Bool.false_eq_true, if_false]))

macro "step_eval" : tactic => `(tactic| (
  simp [dispatch, runSeqArms, findArm, patMatches, runBody, runSeq, runCalls, act, lexAct, applyTrans, Common.pos,
    tokenPartRange, *]))


macro "final_close" : tactic => `(tactic| (
  simp only [setTagName, finish]
  generalize lexEmitTag _ _ _ _ _ = r
  rcases r with ⟨m, _ | s⟩ <;> simp [applyTrans]))

include hok

/-! ### data state, tag open -/

/-- data state at a `<` with no pending text: on to the tag open state, nothing emitted -/
theorem step2_lt {l : LexRegs} (hb : inp[p]? = some 60) (hl : l.lexemeStart = p) :
    stateFn env inp ⟨⟨p, il, 2, en, ca, lsh, cq, ltt⟩, .lexer l, x⟩
      = (⟨⟨p + 1, il, 28, false, ca, lsh, cq, ltt⟩, .lexer l, x⟩, none) := by
  have hd : inp.drop p = 60 :: inp.drop (p + 1) := by
    have hlt : p < inp.length := by
      rcases Nat.lt_or_ge p inp.length with h | h
      · exact h
      · rw [List.getElem?_eq_none h] at hb; simp at hb
    rw [List.getElem?_eq_getElem hlt] at hb
    rw [List.drop_eq_getElem_cons hlt]; simp at hb; rw [hb]
  step_prelude 2 exp2
  simp [hd, findByte, dispatch, runSeqArms, findArm, patMatches, runBody, runSeq, runCalls, act, lexAct, applyTrans,
    Common.pos, lexEmitText, hl]

theorem step28_alpha (hb : inp[p]? = some b) (h1 : isAsciiAlpha b = true) :
    stateFn env inp ⟨⟨p, il, 28, en, ca, lsh, cq, ltt⟩, .lexer ⟨ls, tps, ct, cnt, cattr, fd⟩, x⟩
      = (⟨⟨p + 1, il, 31, false, ca, lsh, cq, ltt⟩,
          .lexer ⟨ls, p, some (.startTag .default (NameHash.update NameHash.new b) .html [] false), cnt, cattr, fd⟩, x⟩, none) := by
  simp only [isAsciiAlpha, Bool.or_eq_true, Bool.and_eq_true, decide_eq_true_eq] at h1
  step_prelude 28 exp28
  step_eval
  simp [updTagHash]

/-! ### tag name -/

theorem step31_ws {nm : Range} {h : Nat} {ns : Ns} {as : List AttrOutline} {sc : Bool}
    (hb : inp[p]? = some b) (h1 : IsWs b) :
    stateFn env inp ⟨⟨p, il, 31, en, ca, lsh, cq, ltt⟩, .lexer ⟨ls, tps, some (.startTag nm h ns as sc), cnt, cattr, fd⟩, x⟩
      = (⟨⟨p + 1, il, 33, false, ca, lsh, cq, ltt⟩, .lexer ⟨ls, tps, some (.startTag ⟨tps, p⟩ h ns as sc), cnt, cattr, fd⟩, x⟩, none) := by
  unfold IsWs at h1
  step_prelude 31 exp31
  step_eval
  simp [setTagName]

theorem step31_slash {nm : Range} {h : Nat} {ns : Ns} {as : List AttrOutline} {sc : Bool}
    (hb : inp[p]? = some 47) :
    stateFn env inp ⟨⟨p, il, 31, en, ca, lsh, cq, ltt⟩, .lexer ⟨ls, tps, some (.startTag nm h ns as sc), cnt, cattr, fd⟩, x⟩
      = (⟨⟨p + 1, il, 32, false, ca, lsh, cq, ltt⟩, .lexer ⟨ls, tps, some (.startTag ⟨tps, p⟩ h ns as sc), cnt, cattr, fd⟩, x⟩, none) := by
  step_prelude 31 exp31
  step_eval
  simp [setTagName]

theorem step31_gt {nm : Range} {h : Nat} {ns : Ns} {as : List AttrOutline} {sc : Bool}
    (hb : inp[p]? = some 62) :
    stateFn env inp ⟨⟨p, il, 31, en, ca, lsh, cq, ltt⟩, .lexer ⟨ls, tps, some (.startTag nm h ns as sc), cnt, cattr, fd⟩, x⟩
      = finish env .gotoDyn (lexEmitTag env inp ⟨p + 1, il, 31, en, ca, lsh, cq, ltt⟩
          ⟨ls, tps, some (.startTag ⟨tps, p⟩ h ns as sc), cnt, cattr, fd⟩ x) := by
  step_prelude 31 exp31
  step_eval
  final_close

theorem step31_other {nm : Range} {h : Nat} {ns : Ns} {as : List AttrOutline} {sc : Bool}
    (hb : inp[p]? = some b) (h1 : NotWs b) (h2 : ¬b = 62) (h3 : ¬b = 47) :
    stateFn env inp ⟨⟨p, il, 31, en, ca, lsh, cq, ltt⟩, .lexer ⟨ls, tps, some (.startTag nm h ns as sc), cnt, cattr, fd⟩, x⟩
      = (⟨⟨p + 1, il, 31, en, ca, lsh, cq, ltt⟩, .lexer ⟨ls, tps, some (.startTag nm (NameHash.update h b) ns as sc), cnt, cattr, fd⟩, x⟩, none) := by
  unfold NotWs at h1
  step_prelude 31 exp31
  step_eval
  simp [updTagHash]

/-! ### self-closing start tag -/

theorem step32_gt {nm : Range} {h : Nat} {ns : Ns} {as : List AttrOutline} {sc : Bool}
    (hb : inp[p]? = some 62) :
    stateFn env inp ⟨⟨p, il, 32, en, ca, lsh, cq, ltt⟩, .lexer ⟨ls, tps, some (.startTag nm h ns as sc), cnt, cattr, fd⟩, x⟩
      = finish env .gotoDyn (lexEmitTag env inp ⟨p + 1, il, 32, en, ca, lsh, cq, ltt⟩
          ⟨ls, tps, some (.startTag nm h ns as true), cnt, cattr, fd⟩ x) := by
  step_prelude 32 exp32
  step_eval
  final_close

theorem step32_other {l : LexRegs} (hb : inp[p]? = some b) (h2 : ¬b = 62) :
    stateFn env inp ⟨⟨p, il, 32, en, ca, lsh, cq, ltt⟩, .lexer l, x⟩
      = (⟨⟨p, il, 33, false, ca, lsh, cq, ltt⟩, .lexer l, x⟩, none) := by
  step_prelude 32 exp32
  step_eval

/-! ### before attribute name -/

theorem step33_ws {l : LexRegs} (hb : inp[p]? = some b) (h1 : IsWs b) :
    stateFn env inp ⟨⟨p, il, 33, en, ca, lsh, cq, ltt⟩, .lexer l, x⟩
      = (⟨⟨p + 1, il, 33, en, ca, lsh, cq, ltt⟩, .lexer l, x⟩, none) := by
  unfold IsWs at h1
  step_prelude 33 exp33
  step_eval

theorem step33_slash {l : LexRegs} (hb : inp[p]? = some 47) :
    stateFn env inp ⟨⟨p, il, 33, en, ca, lsh, cq, ltt⟩, .lexer l, x⟩
      = (⟨⟨p + 1, il, 32, false, ca, lsh, cq, ltt⟩, .lexer l, x⟩, none) := by
  step_prelude 33 exp33
  step_eval

theorem step33_gt {l : LexRegs} (hb : inp[p]? = some 62) :
    stateFn env inp ⟨⟨p, il, 33, en, ca, lsh, cq, ltt⟩, .lexer l, x⟩
      = finish env .gotoDyn (lexEmitTag env inp ⟨p + 1, il, 33, en, ca, lsh, cq, ltt⟩ l x) := by
  step_prelude 33 exp33
  step_eval
  final_close

theorem step33_other {nm : Range} {h : Nat} {ns : Ns} {as : List AttrOutline} {sc : Bool}
    (hb : inp[p]? = some b) (h1 : NotWs b) (h2 : ¬b = 62) (h3 : ¬b = 47) :
    stateFn env inp ⟨⟨p, il, 33, en, ca, lsh, cq, ltt⟩, .lexer ⟨ls, tps, some (.startTag nm h ns as sc), cnt, cattr, fd⟩, x⟩
      = (⟨⟨p + 1, il, 34, false, ca, lsh, cq, ltt⟩, .lexer ⟨ls, p, some (.startTag nm h ns as sc), cnt, some .default, fd⟩, x⟩, none) := by
  unfold NotWs at h1
  step_prelude 33 exp33
  step_eval

/-! ### attribute name -/

theorem step34_ws {ct : Option TagOutline} {a : AttrOutline} (hb : inp[p]? = some b) (h1 : IsWs b) :
    stateFn env inp ⟨⟨p, il, 34, en, ca, lsh, cq, ltt⟩, .lexer ⟨ls, tps, ct, cnt, some a, fd⟩, x⟩
      = (⟨⟨p + 1, il, 35, false, ca, lsh, cq, ltt⟩, .lexer ⟨ls, tps, ct, cnt, some (Spec.Attrs.valueless ⟨tps, p⟩), fd⟩, x⟩, none) := by
  unfold IsWs at h1
  step_prelude 34 exp34
  step_eval
  simp [Spec.Attrs.valueless]

theorem step34_eq {ct : Option TagOutline} {a : AttrOutline} (hb : inp[p]? = some 61) :
    stateFn env inp ⟨⟨p, il, 34, en, ca, lsh, cq, ltt⟩, .lexer ⟨ls, tps, ct, cnt, some a, fd⟩, x⟩
      = (⟨⟨p + 1, il, 36, false, ca, lsh, cq, ltt⟩, .lexer ⟨ls, tps, ct, cnt, some (Spec.Attrs.valueless ⟨tps, p⟩), fd⟩, x⟩, none) := by
  step_prelude 34 exp34
  step_eval
  simp [Spec.Attrs.valueless]

theorem step34_slash {nm : Range} {h : Nat} {ns : Ns} {as : List AttrOutline} {sc : Bool} {a : AttrOutline}
    (hb : inp[p]? = some 47) :
    stateFn env inp ⟨⟨p, il, 34, en, ca, lsh, cq, ltt⟩, .lexer ⟨ls, tps, some (.startTag nm h ns as sc), cnt, some a, fd⟩, x⟩
      = (⟨⟨p + 1, il, 32, false, ca, lsh, cq, ltt⟩,
          .lexer ⟨ls, tps, some (.startTag nm h ns (as ++ [Spec.Attrs.valueless ⟨tps, p⟩]) sc), cnt, none, fd⟩, x⟩, none) := by
  step_prelude 34 exp34
  step_eval
  simp [Spec.Attrs.valueless]

theorem step34_gt {nm : Range} {h : Nat} {ns : Ns} {as : List AttrOutline} {sc : Bool} {a : AttrOutline}
    (hb : inp[p]? = some 62) :
    stateFn env inp ⟨⟨p, il, 34, en, ca, lsh, cq, ltt⟩, .lexer ⟨ls, tps, some (.startTag nm h ns as sc), cnt, some a, fd⟩, x⟩
      = finish env .gotoDyn (lexEmitTag env inp ⟨p + 1, il, 34, en, ca, lsh, cq, ltt⟩
          ⟨ls, tps, some (.startTag nm h ns (as ++ [Spec.Attrs.valueless ⟨tps, p⟩]) sc), cnt, none, fd⟩ x) := by
  step_prelude 34 exp34
  step_eval
  simp only [Spec.Attrs.valueless]
  final_close

theorem step34_other {l : LexRegs} (hb : inp[p]? = some b) (h1 : NotWs b) (h2 : ¬b = 61) (h3 : ¬b = 47) (h4 : ¬b = 62) :
    stateFn env inp ⟨⟨p, il, 34, en, ca, lsh, cq, ltt⟩, .lexer l, x⟩
      = (⟨⟨p + 1, il, 34, en, ca, lsh, cq, ltt⟩, .lexer l, x⟩, none) := by
  unfold NotWs at h1
  step_prelude 34 exp34
  step_eval

/-! ### after attribute name -/

theorem step35_ws {l : LexRegs} (hb : inp[p]? = some b) (h1 : IsWs b) :
    stateFn env inp ⟨⟨p, il, 35, en, ca, lsh, cq, ltt⟩, .lexer l, x⟩
      = (⟨⟨p + 1, il, 35, en, ca, lsh, cq, ltt⟩, .lexer l, x⟩, none) := by
  unfold IsWs at h1
  step_prelude 35 exp35
  step_eval

theorem step35_slash {nm : Range} {h : Nat} {ns : Ns} {as : List AttrOutline} {sc : Bool} {a : AttrOutline}
    (hb : inp[p]? = some 47) :
    stateFn env inp ⟨⟨p, il, 35, en, ca, lsh, cq, ltt⟩, .lexer ⟨ls, tps, some (.startTag nm h ns as sc), cnt, some a, fd⟩, x⟩
      = (⟨⟨p + 1, il, 32, false, ca, lsh, cq, ltt⟩,
          .lexer ⟨ls, tps, some (.startTag nm h ns (as ++ [a]) sc), cnt, none, fd⟩, x⟩, none) := by
  step_prelude 35 exp35
  step_eval

theorem step35_eq {l : LexRegs} (hb : inp[p]? = some 61) :
    stateFn env inp ⟨⟨p, il, 35, en, ca, lsh, cq, ltt⟩, .lexer l, x⟩
      = (⟨⟨p + 1, il, 36, false, ca, lsh, cq, ltt⟩, .lexer l, x⟩, none) := by
  step_prelude 35 exp35
  step_eval

theorem step35_gt {nm : Range} {h : Nat} {ns : Ns} {as : List AttrOutline} {sc : Bool} {a : AttrOutline}
    (hb : inp[p]? = some 62) :
    stateFn env inp ⟨⟨p, il, 35, en, ca, lsh, cq, ltt⟩, .lexer ⟨ls, tps, some (.startTag nm h ns as sc), cnt, some a, fd⟩, x⟩
      = finish env .gotoDyn (lexEmitTag env inp ⟨p + 1, il, 35, en, ca, lsh, cq, ltt⟩
          ⟨ls, tps, some (.startTag nm h ns (as ++ [a]) sc), cnt, none, fd⟩ x) := by
  step_prelude 35 exp35
  step_eval
  final_close

theorem step35_other {nm : Range} {h : Nat} {ns : Ns} {as : List AttrOutline} {sc : Bool} {a : AttrOutline}
    (hb : inp[p]? = some b) (h1 : NotWs b) (h2 : ¬b = 47) (h3 : ¬b = 61) (h4 : ¬b = 62) :
    stateFn env inp ⟨⟨p, il, 35, en, ca, lsh, cq, ltt⟩, .lexer ⟨ls, tps, some (.startTag nm h ns as sc), cnt, some a, fd⟩, x⟩
      = (⟨⟨p + 1, il, 34, false, ca, lsh, cq, ltt⟩,
          .lexer ⟨ls, p, some (.startTag nm h ns (as ++ [a]) sc), cnt, some .default, fd⟩, x⟩, none) := by
  unfold NotWs at h1
  step_prelude 35 exp35
  step_eval

/-! ### before attribute value -/

theorem step36_ws {l : LexRegs} (hb : inp[p]? = some b) (h1 : IsWs b) :
    stateFn env inp ⟨⟨p, il, 36, en, ca, lsh, cq, ltt⟩, .lexer l, x⟩
      = (⟨⟨p + 1, il, 36, en, ca, lsh, cq, ltt⟩, .lexer l, x⟩, none) := by
  unfold IsWs at h1
  step_prelude 36 (exp36 (trans36 env.tbl))
  step_eval

theorem step36_dq {l : LexRegs} (hb : inp[p]? = some 34) :
    stateFn env inp ⟨⟨p, il, 36, en, ca, lsh, cq, ltt⟩, .lexer l, x⟩
      = (⟨⟨p + 1, il, 38, false, ca, lsh, 34, ltt⟩, .lexer l, x⟩, none) := by
  step_prelude 36 (exp36 (trans36 env.tbl))
  step_eval

theorem step36_sq {l : LexRegs} (hb : inp[p]? = some 39) :
    stateFn env inp ⟨⟨p, il, 36, en, ca, lsh, cq, ltt⟩, .lexer l, x⟩
      = (⟨⟨p + 1, il, 37, false, ca, lsh, 39, ltt⟩, .lexer l, x⟩, none) := by
  step_prelude 36 (exp36 (trans36 env.tbl))
  step_eval

theorem step36_gt {nm : Range} {h : Nat} {ns : Ns} {as : List AttrOutline} {sc : Bool} {a : AttrOutline}
    (hb : inp[p]? = some 62) :
    stateFn env inp ⟨⟨p, il, 36, en, ca, lsh, cq, ltt⟩, .lexer ⟨ls, tps, some (.startTag nm h ns as sc), cnt, some a, fd⟩, x⟩
      = finish env (trans36 env.tbl) (lexEmitTag env inp ⟨p + 1, il, 36, en, ca, lsh, cq, ltt⟩
          ⟨ls, tps, some (.startTag nm h ns (as ++ [a]) sc), cnt, none, fd⟩ x) := by
  step_prelude 36 (exp36 (trans36 env.tbl))
  simp [dispatch, runSeqArms, findArm, patMatches, runBody, runSeq, runCalls, act, lexAct, hw, hb]
  simp only [finish]
  generalize lexEmitTag _ _ _ _ _ = r
  rcases r with ⟨m, _ | s⟩ <;> simp

theorem step36_other {l : LexRegs} (hb : inp[p]? = some b) (h1 : NotWs b) (h2 : ¬b = 34) (h3 : ¬b = 39) (h4 : ¬b = 62) :
    stateFn env inp ⟨⟨p, il, 36, en, ca, lsh, cq, ltt⟩, .lexer l, x⟩
      = (⟨⟨p, il, 39, false, ca, lsh, cq, ltt⟩, .lexer l, x⟩, none) := by
  unfold NotWs at h1
  step_prelude 36 (exp36 (trans36 env.tbl))
  step_eval

/-! ### attribute value (unquoted) -/

/-- first invocation (enter action `start_token_part`) on a byte that continues the value -/
theorem step39_first {ct : Option TagOutline} (hb : inp[p]? = some b) (h1 : NotWs b) (h4 : ¬b = 62) :
    stateFn env inp ⟨⟨p, il, 39, false, ca, lsh, cq, ltt⟩, .lexer ⟨ls, tps, ct, cnt, cattr, fd⟩, x⟩
      = (⟨⟨p + 1, il, 39, true, ca, lsh, cq, ltt⟩, .lexer ⟨ls, p, ct, cnt, cattr, fd⟩, x⟩, none) := by
  unfold NotWs at h1
  step_prelude 39 exp39
  step_eval

theorem step39_other {l : LexRegs} (hb : inp[p]? = some b) (h1 : NotWs b) (h4 : ¬b = 62) :
    stateFn env inp ⟨⟨p, il, 39, true, ca, lsh, cq, ltt⟩, .lexer l, x⟩
      = (⟨⟨p + 1, il, 39, true, ca, lsh, cq, ltt⟩, .lexer l, x⟩, none) := by
  unfold NotWs at h1
  step_prelude 39 exp39
  step_eval

theorem step39_ws {nm : Range} {h : Nat} {ns : Ns} {as : List AttrOutline} {sc : Bool} {a : AttrOutline}
    (hb : inp[p]? = some b) (h1 : IsWs b) (hq : cq = 34 ∨ cq = 39) :
    stateFn env inp ⟨⟨p, il, 39, true, ca, lsh, cq, ltt⟩, .lexer ⟨ls, tps, some (.startTag nm h ns as sc), cnt, some a, fd⟩, x⟩
      = (⟨⟨p + 1, il, 33, false, ca, lsh, cq, ltt⟩,
          .lexer ⟨ls, tps, some (.startTag nm h ns (as ++ [⟨a.name, ⟨tps, p⟩, ⟨a.raw.start, p⟩⟩]) sc), cnt, none, fd⟩, x⟩, none) := by
  have hne : (b == cq) = false := by
    unfold IsWs at h1
    rcases h1 with rfl | rfl | rfl | rfl | rfl <;> rcases hq with rfl | rfl <;> decide
  unfold IsWs at h1
  step_prelude 39 exp39
  step_eval

theorem step39_gt {nm : Range} {h : Nat} {ns : Ns} {as : List AttrOutline} {sc : Bool} {a : AttrOutline}
    (hb : inp[p]? = some 62) (hq : cq = 34 ∨ cq = 39) :
    stateFn env inp ⟨⟨p, il, 39, true, ca, lsh, cq, ltt⟩, .lexer ⟨ls, tps, some (.startTag nm h ns as sc), cnt, some a, fd⟩, x⟩
      = finish env .gotoDyn (lexEmitTag env inp ⟨p + 1, il, 39, true, ca, lsh, cq, ltt⟩
          ⟨ls, tps, some (.startTag nm h ns (as ++ [⟨a.name, ⟨tps, p⟩, ⟨a.raw.start, p⟩⟩]) sc), cnt, none, fd⟩ x) := by
  have hne : ((62 : UInt8) == cq) = false := by rcases hq with rfl | rfl <;> decide
  step_prelude 39 exp39
  step_eval
  final_close

/-! ### attribute value (quoted): one invocation, `memchr` to the closing quote -/

omit hok in
theorem findByte_getElem {q : UInt8} {l : List UInt8} {k : Nat} (h : findByte q l = some k) : l[k]? = some q := by
  induction l generalizing k with
  | nil => simp [findByte] at h
  | cons c cs ih =>
    simp only [findByte] at h
    split at h
    · rename_i hc
      simp only [Option.some.injEq] at h
      subst h
      simp only [beq_iff_eq] at hc
      simp [hc]
    · cases hf : findByte q cs with
      | none => simp [hf] at h
      | some j =>
        simp only [hf, Option.map_some, Option.some.injEq] at h
        subst h
        simpa using ih hf

theorem step38_found {nm : Range} {h : Nat} {ns : Ns} {as : List AttrOutline} {sc : Bool} {a : AttrOutline} {k : Nat}
    (hf : findByte 34 (inp.drop p) = some k) :
    stateFn env inp ⟨⟨p, il, 38, false, ca, lsh, 34, ltt⟩, .lexer ⟨ls, tps, some (.startTag nm h ns as sc), cnt, some a, fd⟩, x⟩
      = (⟨⟨p + k + 1, il, 33, false, ca, lsh, 34, ltt⟩,
          .lexer ⟨ls, p, some (.startTag nm h ns (as ++ [⟨a.name, ⟨p, p + k⟩, ⟨a.raw.start, p + k + 1⟩⟩]) sc), cnt, none, fd⟩, x⟩, none) := by
  have hq : inp[p + k]? = some 34 := by
    have := findByte_getElem hf
    simpa using this
  step_prelude 38 (expQuoted 34)
  simp [dispatch, runSeqArms, findArm, patMatches, runBody, runSeq, runCalls, act, lexAct, applyTrans, Common.pos,
    tokenPartRange, hf, Nat.add_right_comm p 1 k, hq]

theorem step37_found {nm : Range} {h : Nat} {ns : Ns} {as : List AttrOutline} {sc : Bool} {a : AttrOutline} {k : Nat}
    (hf : findByte 39 (inp.drop p) = some k) :
    stateFn env inp ⟨⟨p, il, 37, false, ca, lsh, 39, ltt⟩, .lexer ⟨ls, tps, some (.startTag nm h ns as sc), cnt, some a, fd⟩, x⟩
      = (⟨⟨p + k + 1, il, 33, false, ca, lsh, 39, ltt⟩,
          .lexer ⟨ls, p, some (.startTag nm h ns (as ++ [⟨a.name, ⟨p, p + k⟩, ⟨a.raw.start, p + k + 1⟩⟩]) sc), cnt, none, fd⟩, x⟩, none) := by
  have hq : inp[p + k]? = some 39 := by
    have := findByte_getElem hf
    simpa using this
  step_prelude 37 (expQuoted 39)
  simp [dispatch, runSeqArms, findArm, patMatches, runBody, runSeq, runCalls, act, lexAct, applyTrans, Common.pos,
    tokenPartRange, hf, Nat.add_right_comm p 1 k, hq]

/-! ### end of input inside the tag -/

omit hok in
/-- the end-of-input step of a tag state: `emit_raw_without_token_and_eof?` when this is the last
chunk, then (or otherwise) `break_on_end_of_input`. No tag lexeme is involved. -/
def eofStep (env : Env κ) (inp : Bytes) (c : Common) (l : LexRegs) (x : Ctx κ) : M κ × Option Signal :=
  if c.isLast then
    match (andThen (lexEmitNonTag env inp c l x none c.pos) (lexEmitEof env inp)).2 with
    | some sig => ((andThen (lexEmitNonTag env inp c l x none c.pos) (lexEmitEof env inp)).1, some sig)
    | none => breakOnEndOfInput inp (andThen (lexEmitNonTag env inp c l x none c.pos) (lexEmitEof env inp)).1
  else breakOnEndOfInput inp ⟨c, .lexer l, x⟩

macro "eof_close" : tactic => `(tactic| (
  simp [dispatch, runSeqArms, findArm, patMatches, runBody, runSeq, runCalls, act, lexAct, eofStep, *]
  cases il <;> simp
  generalize andThen _ _ = r
  rcases r with ⟨m, _ | s⟩ <;> simp))

theorem step31_eof {l : LexRegs} (hb : inp[p]? = none) :
    stateFn env inp ⟨⟨p, il, 31, en, ca, lsh, cq, ltt⟩, .lexer l, x⟩ = eofStep env inp ⟨p + 1, il, 31, en, ca, lsh, cq, ltt⟩ l x := by
  step_prelude 31 exp31
  eof_close

theorem step32_eof {l : LexRegs} (hb : inp[p]? = none) :
    stateFn env inp ⟨⟨p, il, 32, en, ca, lsh, cq, ltt⟩, .lexer l, x⟩ = eofStep env inp ⟨p + 1, il, 32, en, ca, lsh, cq, ltt⟩ l x := by
  step_prelude 32 exp32
  eof_close

theorem step33_eof {l : LexRegs} (hb : inp[p]? = none) :
    stateFn env inp ⟨⟨p, il, 33, en, ca, lsh, cq, ltt⟩, .lexer l, x⟩ = eofStep env inp ⟨p + 1, il, 33, en, ca, lsh, cq, ltt⟩ l x := by
  step_prelude 33 exp33
  eof_close

theorem step34_eof {l : LexRegs} (hb : inp[p]? = none) :
    stateFn env inp ⟨⟨p, il, 34, en, ca, lsh, cq, ltt⟩, .lexer l, x⟩ = eofStep env inp ⟨p + 1, il, 34, en, ca, lsh, cq, ltt⟩ l x := by
  step_prelude 34 exp34
  eof_close

theorem step35_eof {l : LexRegs} (hb : inp[p]? = none) :
    stateFn env inp ⟨⟨p, il, 35, en, ca, lsh, cq, ltt⟩, .lexer l, x⟩ = eofStep env inp ⟨p + 1, il, 35, en, ca, lsh, cq, ltt⟩ l x := by
  step_prelude 35 exp35
  eof_close

theorem step36_eof {l : LexRegs} (hb : inp[p]? = none) :
    stateFn env inp ⟨⟨p, il, 36, en, ca, lsh, cq, ltt⟩, .lexer l, x⟩ = eofStep env inp ⟨p + 1, il, 36, en, ca, lsh, cq, ltt⟩ l x := by
  step_prelude 36 (exp36 (trans36 env.tbl))
  eof_close

theorem step39_eof {l : LexRegs} (hb : inp[p]? = none) :
    stateFn env inp ⟨⟨p, il, 39, true, ca, lsh, cq, ltt⟩, .lexer l, x⟩ = eofStep env inp ⟨p + 1, il, 39, true, ca, lsh, cq, ltt⟩ l x := by
  step_prelude 39 exp39
  eof_close

theorem step38_eof {ct : Option TagOutline} (hf : findByte 34 (inp.drop p) = none) :
    stateFn env inp ⟨⟨p, il, 38, false, ca, lsh, 34, ltt⟩, .lexer ⟨ls, tps, ct, cnt, cattr, fd⟩, x⟩
      = eofStep env inp ⟨p + 1 + (inp.drop p).length, il, 38, true, ca, lsh, 34, ltt⟩ ⟨ls, p, ct, cnt, cattr, fd⟩ x := by
  step_prelude 38 (expQuoted 34)
  simp [dispatch, runSeqArms, findArm, patMatches, runBody, runSeq, runCalls, act, lexAct, eofStep, Common.pos, hf]
  cases il <;> simp
  generalize andThen _ _ = r
  rcases r with ⟨m, _ | s⟩ <;> simp

theorem step37_eof {ct : Option TagOutline} (hf : findByte 39 (inp.drop p) = none) :
    stateFn env inp ⟨⟨p, il, 37, false, ca, lsh, 39, ltt⟩, .lexer ⟨ls, tps, ct, cnt, cattr, fd⟩, x⟩
      = eofStep env inp ⟨p + 1 + (inp.drop p).length, il, 37, true, ca, lsh, 39, ltt⟩ ⟨ls, p, ct, cnt, cattr, fd⟩ x := by
  step_prelude 37 (expQuoted 39)
  simp [dispatch, runSeqArms, findArm, patMatches, runBody, runSeq, runCalls, act, lexAct, eofStep, Common.pos, hf]
  cases il <;> simp
  generalize andThen _ _ = r
  rcases r with ⟨m, _ | s⟩ <;> simp

/-! ### quoted value resumed after a chunk boundary (enter action already run) -/

theorem step38_found_r {nm : Range} {h : Nat} {ns : Ns} {as : List AttrOutline} {sc : Bool} {a : AttrOutline} {k : Nat}
    (hf : findByte 34 (inp.drop p) = some k) :
    stateFn env inp ⟨⟨p, il, 38, true, ca, lsh, 34, ltt⟩, .lexer ⟨ls, tps, some (.startTag nm h ns as sc), cnt, some a, fd⟩, x⟩
      = (⟨⟨p + k + 1, il, 33, false, ca, lsh, 34, ltt⟩,
          .lexer ⟨ls, tps, some (.startTag nm h ns (as ++ [⟨a.name, ⟨tps, p + k⟩, ⟨a.raw.start, p + k + 1⟩⟩]) sc), cnt, none, fd⟩, x⟩, none) := by
  have hq : inp[p + k]? = some 34 := by
    have := findByte_getElem hf
    simpa using this
  step_prelude 38 (expQuoted 34)
  simp [dispatch, runSeqArms, findArm, patMatches, runBody, runSeq, runCalls, act, lexAct, applyTrans,
    tokenPartRange, hf, Nat.add_right_comm p 1 k, hq]

theorem step37_found_r {nm : Range} {h : Nat} {ns : Ns} {as : List AttrOutline} {sc : Bool} {a : AttrOutline} {k : Nat}
    (hf : findByte 39 (inp.drop p) = some k) :
    stateFn env inp ⟨⟨p, il, 37, true, ca, lsh, 39, ltt⟩, .lexer ⟨ls, tps, some (.startTag nm h ns as sc), cnt, some a, fd⟩, x⟩
      = (⟨⟨p + k + 1, il, 33, false, ca, lsh, 39, ltt⟩,
          .lexer ⟨ls, tps, some (.startTag nm h ns (as ++ [⟨a.name, ⟨tps, p + k⟩, ⟨a.raw.start, p + k + 1⟩⟩]) sc), cnt, none, fd⟩, x⟩, none) := by
  have hq : inp[p + k]? = some 39 := by
    have := findByte_getElem hf
    simpa using this
  step_prelude 37 (expQuoted 39)
  simp [dispatch, runSeqArms, findArm, patMatches, runBody, runSeq, runCalls, act, lexAct, applyTrans,
    tokenPartRange, hf, Nat.add_right_comm p 1 k, hq]

theorem step38_eof_r {l : LexRegs} (hf : findByte 34 (inp.drop p) = none) :
    stateFn env inp ⟨⟨p, il, 38, true, ca, lsh, 34, ltt⟩, .lexer l, x⟩
      = eofStep env inp ⟨p + 1 + (inp.drop p).length, il, 38, true, ca, lsh, 34, ltt⟩ l x := by
  step_prelude 38 (expQuoted 34)
  simp [dispatch, runSeqArms, findArm, patMatches, runBody, runSeq, runCalls, act, lexAct, eofStep, Common.pos, hf]
  cases il <;> simp
  generalize andThen _ _ = r
  rcases r with ⟨m, _ | s⟩ <;> simp

theorem step37_eof_r {l : LexRegs} (hf : findByte 39 (inp.drop p) = none) :
    stateFn env inp ⟨⟨p, il, 37, true, ca, lsh, 39, ltt⟩, .lexer l, x⟩
      = eofStep env inp ⟨p + 1 + (inp.drop p).length, il, 37, true, ca, lsh, 39, ltt⟩ l x := by
  step_prelude 37 (expQuoted 39)
  simp [dispatch, runSeqArms, findArm, patMatches, runBody, runSeq, runCalls, act, lexAct, eofStep, Common.pos, hf]
  cases il <;> simp
  generalize andThen _ _ = r
  rcases r with ⟨m, _ | s⟩ <;> simp

end
end LolHtml.Model.TagStates
