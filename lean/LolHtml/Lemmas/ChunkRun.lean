import LolHtml.Lemmas.ChunkStep5
/-!
`run_parsing_loop` without fuel (big-step), `is_last` is constant, and the two phases of one cut at the
machine level.
-/
namespace LolHtml.Model.Chunk
open LolHtml LolHtml.Model

variable {κ : Type}

section islast
variable {env : Env κ} {inp : Bytes}

theorem applyTrans_isLast (t : Trans) (m : M κ) : (applyTrans env t m).1.c.isLast = m.c.isLast := by
  cases t <;> simp only [applyTrans]
  split <;> rfl

theorem runSeq_isLast (s : ActSeq) (m : M κ) : (runSeq env inp s m).1.c.isLast = m.c.isLast := by
  unfold runSeq
  have h := (runCalls_cfix (env := env) (inp := inp) s.calls m).2.1
  dsimp only
  split
  · exact h
  · split
    · exact h
    · rw [applyTrans_isLast]; exact h

theorem runBody_isLast (b : Body) (m : M κ) : (runBody env inp b m).1.c.isLast = m.c.isLast := by
  cases b with
  | seq s => exact runSeq_isLast s m
  | ite c t e =>
    simp only [runBody]
    split
    · rfl
    · exact runSeq_isLast t m
    · exact runSeq_isLast e m

theorem runSeqArms_isLast (ch : Option UInt8) : ∀ (arms : List Arm) (m : M κ),
    match runSeqArms env inp ch arms m with
    | .inl r => r.1.c.isLast = m.c.isLast
    | .inr m' => m'.c.isLast = m.c.isLast := by
  intro arms
  induction arms with
  | nil => intro m; rfl
  | cons arm rest ih =>
    intro m
    cases hseq : isSeqPat arm.pat with
    | false => rw [runSeqArms_skip inp ch arm rest m hseq]; exact ih m
    | true =>
      cases hpat : arm.pat with
      | chSeq bytes ic =>
        have hrec : match runSeqArms env inp ch rest (leaveSeq (enterSeq m)) with
            | .inl r => r.1.c.isLast = m.c.isLast
            | .inr m' => m'.c.isLast = m.c.isLast := by
          have := ih (leaveSeq (enterSeq m))
          rw [leaveSeq_c, enterSeq_c] at this
          exact this
        cases bytes with
        | nil => rw [runSeqArms_seq_nil inp ch arm rest m ic hpat]; exact hrec
        | cons e0 es =>
          rw [runSeqArms_seq inp ch arm rest m e0 es ic hpat]
          cases firstOf inp ch e0 es ic (enterSeq m).c.isLast (enterSeq m).c.nextPos with
          | needMore => simp only; rw [breakOnEndOfInput_isLast, enterSeq_c]
          | mismatch => exact hrec
          | matched =>
            simp only
            rw [runBody_isLast, leaveSeq_c]
            show (enterSeq m).c.isLast = _
            rw [enterSeq_c]
      | byte b => rw [hpat] at hseq; cases hseq
      | alpha => rw [hpat] at hseq; cases hseq
      | whitespace => rw [hpat] at hseq; cases hseq
      | closingQuote => rw [hpat] at hseq; cases hseq
      | eoc => rw [hpat] at hseq; cases hseq
      | eof => rw [hpat] at hseq; cases hseq
      | any => rw [hpat] at hseq; cases hseq

theorem tailRun_isLast (b : Body) (m : M κ) : (tailRun env inp b m).1.c.isLast = m.c.isLast := by
  unfold tailRun
  split
  · exact runBody_isLast b m
  · exact runBody_isLast b m
  · rw [breakOnEndOfInput_isLast]; exact runBody_isLast b m

theorem armRun_isLast (arm : Arm) (m : M κ) : (armRun env inp arm m).1.c.isLast = m.c.isLast := by
  by_cases h1 : arm.pat = .eoc
  · rw [armRun_eoc _ _ _ _ h1]; exact tailRun_isLast _ _
  · by_cases h2 : arm.pat = .eof
    · rw [armRun_eof _ _ _ _ h2]
      split
      · exact tailRun_isLast _ _
      · exact breakOnEndOfInput_isLast _ _
    · rw [armRun_other _ _ _ _ h1 h2]; exact runBody_isLast _ _

theorem dispatch_isLast (ch : Option UInt8) (arms : List Arm) (m : M κ) :
    (dispatch env inp ch arms m).1.c.isLast = m.c.isLast := by
  have h := runSeqArms_isLast (env := env) (inp := inp) ch arms m
  cases hr : runSeqArms env inp ch arms m with
  | inl r => rw [hr] at h; rw [dispatch_inl hr]; exact h
  | inr m2 =>
    rw [hr] at h
    rw [dispatch_inr hr]
    cases findArm env.tbl m2.c ch arms with
    | none => exact h
    | some arm => simp only; rw [armRun_isLast]; exact h

theorem preOf_isLast (sd : StateDef) (m : M κ) : (preOf env inp sd m).1.c.isLast = m.c.isLast := by
  unfold preOf
  have h := (runCalls_cfix (env := env) (inp := inp) sd.enter { m with c := { m.c with nextPos := m.c.nextPos + 1 } }).2.1
  split
  · split
    · exact h
    · exact h
  · rfl

theorem consume_isLast (sd : StateDef) (m : M κ) : (consume env inp sd m).1.c.isLast = m.c.isLast := by
  unfold consume
  split
  · split <;> rw [dispatch_isLast]
  · rw [dispatch_isLast]

/-- `is_last` is constant during a parse -/
theorem stateFn_isLast (m : M κ) : (stateFn env inp m).1.c.isLast = m.c.isLast := by
  rw [stateFn_eq]
  split
  · rfl
  · split
    · exact preOf_isLast _ _
    · rw [consume_isLast]; exact preOf_isLast _ _

end islast

/-! ### big-step runs -/

/-- `run_parsing_loop` terminating with a signal, without fuel -/
inductive Runs (env : Env κ) (inp : Bytes) : M κ → M κ → Signal → Prop
  | done {m m' : M κ} {sig : Signal} : stateFn env inp m = (m', some sig) → Runs env inp m m' sig
  | step {m m1 m' : M κ} {sig : Signal} : stateFn env inp m = (m1, none) → Runs env inp m1 m' sig → Runs env inp m m' sig

theorem Runs.det {env : Env κ} {inp : Bytes} {m m1 m2 : M κ} {s1 s2 : Signal}
    (h1 : Runs env inp m m1 s1) (h2 : Runs env inp m m2 s2) : m1 = m2 ∧ s1 = s2 := by
  induction h1 generalizing m2 s2 with
  | done h =>
    cases h2 with
    | done h' => rw [h] at h'; cases h'; exact ⟨rfl, rfl⟩
    | step h' _ => rw [h] at h'; cases h'
  | step h _ ih =>
    cases h2 with
    | done h' => rw [h] at h'; cases h'
    | step h' hr => rw [h] at h'; cases h'; exact ih hr

theorem runs_of_runLoop {env : Env κ} {inp : Bytes} : ∀ (n : Nat) (m m' : M κ) (sig : Signal),
    runLoop env inp n m = (m', sig) → Runs env inp m m' sig ∨ sig = .err (.panic "out of fuel") := by
  intro n
  induction n with
  | zero => intro m m' sig h; simp only [runLoop, Prod.mk.injEq] at h; exact Or.inr h.2.symm
  | succ n ih =>
    intro m m' sig h
    simp only [runLoop] at h
    cases hs : (stateFn env inp m).2 with
    | some sg =>
      rw [hs] at h
      simp only [Prod.mk.injEq] at h
      left
      apply Runs.done
      rw [← h.1, ← h.2, ← hs]
    | none =>
      rw [hs] at h
      rcases ih _ _ _ h with hr | hr
      · left
        exact Runs.step (by rw [← hs]) hr
      · exact Or.inr hr

theorem runLoop_of_runs {env : Env κ} {inp : Bytes} {m m' : M κ} {sig : Signal} (h : Runs env inp m m' sig) :
    ∃ k, ∀ n, k ≤ n → runLoop env inp n m = (m', sig) := by
  induction h with
  | done h =>
    refine ⟨1, fun n hn => ?_⟩
    obtain ⟨n', rfl⟩ : ∃ n', n = n' + 1 := ⟨n - 1, by omega⟩
    simp only [runLoop, h]
  | step h _ ih =>
    obtain ⟨k, hk⟩ := ih
    refine ⟨k + 1, fun n hn => ?_⟩
    obtain ⟨n', rfl⟩ : ∃ n', n = n' + 1 := ⟨n - 1, by omega⟩
    simp only [runLoop, h]
    exact hk n' (by omega)

/-! ### the two phases of one cut -/

section
variable {env : Env κ} {inpS inpW : Bytes} {δ : Nat} {K : Nat → κ → κ → Prop} {Loc : κ → Nat → Nat → TextType → Prop}

theorem prod_eq_snd {α β : Type} {a : α × β} {y : β} (h : a.2 = y) : a = (a.1, y) := by
  cases a; simp only at h; rw [h]

theorem lockOut_none_left {tbl : Table} {fs : FlagMap} {eoi : Bool} {ms mw : M κ} {sw : Option Signal}
    (h : LockOut tbl fs inpW δ K Loc eoi (ms, none) (mw, sw)) :
    sw = none ∧ ∃ d', BRel tbl fs inpW δ d' 0 ms mw ∧ K d' ms.x.sink mw.x.sink ∧
      (0 < d' → Loc ms.x.sink ms.x.prevConsumed (lexStart ms.r) ms.c.lastTextType) := by
  rcases h with hp | h
  · exact hp.elim
  · cases sw with
    | none => exact ⟨rfl, h⟩
    | some s => exact h.elim

theorem lockOut_some_left {tbl : Table} {fs : FlagMap} {eoi : Bool} {ms mw : M κ} {sg : Signal} {sw : Option Signal}
    (h : LockOut tbl fs inpW δ K Loc eoi (ms, some sg) (mw, sw)) : SPanic (some sg) ∨ ∃ sg', sw = some sg' := by
  rcases h with hp | h
  · exact Or.inl hp
  · cases sw with
    | some s => exact Or.inr ⟨s, rfl⟩
    | none => cases sg <;> exact h.elim

/-- **Phase 2 / congruence**: the two inputs end together; the whole run follows the split run to the end. -/
theorem lock_runs (F : Frame inpS inpW δ) (hcl : Closed inpS inpW δ) (hops : OpsSim env.ops inpS inpW δ K Loc)
    {fs : FlagMap} (hwf : WfChunkWith env.tbl fs = true) {ms ms' : M κ} {sig : Signal}
    (hr : Runs env inpS ms ms' sig) : ∀ {d skip : Nat} {mw : M κ},
    BRel env.tbl fs inpW δ d skip ms mw → K d ms.x.sink mw.x.sink → (0 < d → Loc ms.x.sink ms.x.prevConsumed (lexStart ms.r) ms.c.lastTextType) →
    SPanic (some sig) ∨ ∃ mw' sig', Runs env inpW mw mw' sig' ∧
      LockOut env.tbl fs inpW δ K Loc true (ms', some sig) (mw', some sig') := by
  induction hr with
  | done h =>
    intro d skip mw hb hK hloc
    rcases stateFn_sim F hops hwf true hb hK hloc (fun _ => hcl) (fun hh => by cases hh) with hl | ⟨hn, _⟩
    · rw [h] at hl
      rcases lockOut_some_left hl with hp | ⟨sg', hsg⟩
      · exact Or.inl hp
      · right
        refine ⟨(stateFn env inpW mw).1, sg', Runs.done (prod_eq_snd hsg), ?_⟩
        rw [← hsg]; exact hl
    · exact absurd hcl (hn rfl)
  | step h _ ih =>
    intro d skip mw hb hK hloc
    rcases stateFn_sim F hops hwf true hb hK hloc (fun _ => hcl) (fun hh => by cases hh) with hl | ⟨hn, _⟩
    · rw [h] at hl
      obtain ⟨hnone, d', hb', hK', hloc'⟩ := lockOut_none_left (sw := (stateFn env inpW mw).2) hl
      rcases ih hb' hK' hloc' with hp | ⟨mw', sig', hrw, hlo⟩
      · exact Or.inl hp
      · exact Or.inr ⟨mw', sig', Runs.step (prod_eq_snd hnone) hrw, hlo⟩
    · exact absurd hcl (hn rfl)

/-- **Phase 1**: the split run (not last) on its slice, the whole run on the longer input. Either the whole
run follows to the same non-break signal, or the split run breaks and the whole run has reached a machine
`mw1` (from which it continues) related to the re-based split machine. -/
theorem open_runs (F : Frame inpS inpW δ) (hops : OpsSim env.ops inpS inpW δ K Loc)
    {fs : FlagMap} (hwf : WfChunkWith env.tbl fs = true) {ms ms' : M κ} {sig : Signal}
    (hr : Runs env inpS ms ms' sig) : ∀ {d skip : Nat} {mw : M κ}, ms.c.isLast = false →
    BRel env.tbl fs inpW δ d skip ms mw → K d ms.x.sink mw.x.sink → (0 < d → Loc ms.x.sink ms.x.prevConsumed (lexStart ms.r) ms.c.lastTextType) →
    SPanic (some sig) ∨
    (∃ mw' sig', Runs env inpW mw mw' sig' ∧ LockOut env.tbl fs inpW δ K Loc false (ms', some sig) (mw', some sig')) ∨
    (∃ (d1 : Nat) (x0 : Ctx κ) (mw1 : M κ), (∀ m' s, Runs env inpW mw1 m' s → Runs env inpW mw m' s) ∧
      K d1 x0.sink mw1.x.sink ∧ mw1.x.sim = x0.sim ∧ x0.prevConsumed = mw1.x.prevConsumed + δ ∧
      BreakOut env.tbl fs env.ops Loc inpS inpW δ d1 x0 mw1 (ms', some sig)) := by
  induction hr with
  | done h =>
    intro d skip mw hl hb hK hloc
    rcases stateFn_sim F hops hwf false hb hK hloc (fun hh => by rw [hl] at hh; cases hh) (fun _ => hl) with hlo | ⟨_, x0, mw0, hst, hk0, hs0, hp0, hbo⟩
    · rw [h] at hlo
      rcases lockOut_some_left hlo with hp | ⟨sg', hsg⟩
      · exact Or.inl hp
      · right; left
        refine ⟨(stateFn env inpW mw).1, sg', Runs.done (prod_eq_snd hsg), ?_⟩
        rw [← hsg]; exact hlo
    · right; right
      rw [h] at hbo
      refine ⟨d, x0, mw0, fun m' s hrun => ?_, hk0, hs0, hp0, hbo⟩
      cases hrun with
      | done h' => exact Runs.done (by rw [← hst]; exact h')
      | step h' hr' => exact Runs.step (by rw [← hst]; exact h') hr'
  | step h _ ih =>
    intro d skip mw hl hb hK hloc
    rcases stateFn_sim F hops hwf false hb hK hloc (fun hh => by rw [hl] at hh; cases hh) (fun _ => hl) with hlo | ⟨_, x0, mw0, hst, hk0, hs0, hp0, hbo⟩
    · rw [h] at hlo
      obtain ⟨hnone, d', hb', hK', hloc'⟩ := lockOut_none_left (sw := (stateFn env inpW mw).2) hlo
      rename_i m0 m1 _ _ _
      have hl1 : m1.c.isLast = false := by
        have := stateFn_isLast (env := env) (inp := inpS) m0
        rw [h] at this
        rw [this]; exact hl
      rcases ih hl1 hb' hK' hloc' with hp | ⟨mw', sig', hrw, hlo'⟩ | ⟨d1, x1, mw1, hcont, a, b, c, e⟩
      · exact Or.inl hp
      · exact Or.inr (Or.inl ⟨mw', sig', Runs.step (prod_eq_snd hnone) hrw, hlo'⟩)
      · exact Or.inr (Or.inr ⟨d1, x1, mw1, fun m' s hrun => Runs.step (prod_eq_snd hnone) (hcont m' s hrun), a, b, c, e⟩)
    · -- a step without signal cannot be a break
      rw [h] at hbo
      rcases hbo with hp | ⟨c, d', sk, hsig, _⟩
      · exact hp.elim
      · cases hsig

end

end LolHtml.Model.Chunk
