import LolHtml.Spec.Island
import LolHtml.Lemmas.Sim
/-!
Running the simulator over the flattened tag sequence of a `Spec.Island` derivation.
-/
namespace LolHtml.Lemmas.Island
open LolHtml LolHtml.Model LolHtml.Spec.Island LolHtml.Lemmas.Sim

/-- `Steps cfg s l s'`: from `s`, the simulator accepts the tags of `l` one after the other, is in
the annotated namespace after each of them, and ends in `s'`. -/
inductive Steps (cfg : TagCfg) : Sim → List (TagEvent × Ns) → Sim → Prop
  | nil (s : Sim) : Steps cfg s [] s
  | cons {s s1 s2 : Sim} {ev : TagEvent} {fb : Feedback} {ns : Ns} {l : List (TagEvent × Ns)} :
      s.stepTag cfg ev = .ok (s1, fb) → s1.currentNs = ns → Steps cfg s1 l s2 →
      Steps cfg s ((ev, ns) :: l) s2

theorem Steps.append {cfg : TagCfg} {s s1 s2 : Sim} {l1 l2 : List (TagEvent × Ns)}
    (h1 : Steps cfg s l1 s1) (h2 : Steps cfg s1 l2 s2) : Steps cfg s (l1 ++ l2) s2 := by
  induction h1 with
  | nil s => exact h2
  | cons he hn _ ih => exact Steps.cons he hn (ih h2)

theorem Steps.one {cfg : TagCfg} {s s1 : Sim} {ev : TagEvent} {fb : Feedback}
    (he : s.stepTag cfg ev = .ok (s1, fb)) : Steps cfg s [(ev, s1.currentNs)] s1 :=
  Steps.cons he rfl (Steps.nil s1)

/-- last state of a run (the start state if nothing was accepted) -/
def lastState (s : Sim) (tr : List (Sim × Feedback)) : Sim := (tr.getLast?.map (·.1)).getD s

theorem steps_run {cfg : TagCfg} {s s' : Sim} {l : List (TagEvent × Ns)} (h : Steps cfg s l s') :
    (Sim.run cfg s (l.map (·.1))).2 = none ∧
    (Sim.run cfg s (l.map (·.1))).1.map (·.1.currentNs) = l.map (·.2) ∧
    lastState s (Sim.run cfg s (l.map (·.1))).1 = s' := by
  induction h with
  | nil s => simp [Sim.run, lastState]
  | @cons s s1 s2 ev fb ns l he hn _ ih =>
    obtain ⟨i1, i2, i3⟩ := ih
    simp only [List.map_cons, Sim.run, he]
    refine ⟨i1, by simp [hn, i2], ?_⟩
    unfold lastState at i3 ⊢
    cases hr : (Sim.run cfg s1 (l.map (·.1))).1 with
    | nil => rw [hr] at i3; simpa using i3
    | cons x xs =>
      rw [hr] at i3
      rw [List.getLast?_cons_cons]
      cases hl : (x :: xs).getLast? with
      | none => simp at hl
      | some y => rw [hl] at i3; simpa using i3

/-! ### non-strict entry points -/

theorem start_nonstrict (cfg : TagCfg) (s : Sim) (hs : s.strict = false) (t : Nat) :
    s.feedbackForStartTag cfg t = startCore cfg s t := by
  rw [start_eq]
  have : guardStart cfg s t = .ok s := by simp [guardStart, hs]
  rw [this]

theorem end_nonstrict (cfg : TagCfg) (s : Sim) (hs : s.strict = false) (t : Nat) :
    s.feedbackForEndTag cfg t =
      match endCore cfg s t with
      | some r => .ok r
      | none => .error (.panic "leave_ns: namespace stack empty") := by
  rw [end_eq]
  have : guardEnd cfg s t = s := by simp [guardEnd, hs]
  rw [this]
  rfl

theorem toNs_ne_html (ns : FNs) : ns.toNs ≠ .html := by cases ns <;> simp [FNs.toNs]

theorem isIP_eq (cfg : TagCfg) (s : Sim) (ns : FNs) (hc : s.currentNs = ns.toNs) (t : Nat) :
    s.isIntegrationPointEnter cfg t = (ipList cfg ns).contains t := by
  cases ns <;> simp [Sim.isIntegrationPointEnter, hc, FNs.toNs, ipList]

theorem shouldLeave_eq (cfg : TagCfg) (s : Sim) (ns : FNs) (hc : s.currentNs = ns.toNs) (t : Nat) :
    s.shouldLeaveNs cfg t = (t == rootHash cfg ns || cfg.nsLeaveEnd.contains t) := by
  have h1 : (Ns.svg == Ns.mathml) = false := by decide
  have h2 : (Ns.mathml == Ns.svg) = false := by decide
  cases ns <;> simp [Sim.shouldLeaveNs, hc, FNs.toNs, rootHash, h1, h2]

/-- `leave_ns` undoes `enter_ns`. -/
theorem leave_enter (s : Sim) (h : Inv s) (x : Ns) :
    (s.enterNs x).1.leaveNs = some (s, .setAllowCdata (s.currentNs != .html)) := by
  obtain ⟨st, c, g, b⟩ := s
  have ht := h.top
  simp only at ht
  match st, ht with
  | y :: r, ht =>
    simp at ht; subst ht
    simp [Sim.enterNs, Sim.leaveNs]


/-! ### single steps (non-strict simulator, invariant assumed) -/

theorem startCore_foreign (cfg : TagCfg) (s : Sim) (ns : FNs) (hc : s.currentNs = ns.toNs) (t : Nat)
    (h1 : t ≠ cfg.svg) (h2 : t ≠ cfg.math) (h3 : t ∉ cfg.foreignExit) :
    startCore cfg s t = .ok (s,
      if t ∈ ipList cfg ns then .requestLexeme .integrationPointEnter
      else if t = cfg.font then .requestLexeme .fontCheck
      else if NameHash.isEmpty t = true ∧ ns = .mathml then .requestLexeme .annotationXmlStart
      else .none) := by
  have hne : s.currentNs ≠ .html := by rw [hc]; exact toNs_ne_html ns
  have hm : (s.currentNs == .mathml) = decide (ns = .mathml) := by
    rw [hc]; cases ns <;> decide
  unfold startCore Sim.startTagInForeign
  rw [isIP_eq cfg s ns hc, hm]
  simp only [beq_iff_eq, h1, h2, if_false, bne_iff_ne, ne_eq, hne, not_false_eq_true, if_true,
    List.contains_iff_mem, h3]
  by_cases c1 : t ∈ ipList cfg ns
  · simp [c1]
  by_cases c2 : t = cfg.font
  · subst c2; simp [c1]
  by_cases c3 : NameHash.isEmpty t = true ∧ ns = .mathml
  · rw [if_neg c1, if_neg c2, if_neg c1, if_neg c2, if_pos c3]
    have : (NameHash.isEmpty t && decide (ns = .mathml)) = true := by simp [c3.1, c3.2]
    simp [this]
  · rw [if_neg c1, if_neg c2, if_neg c1, if_neg c2, if_neg c3]
    have : (NameHash.isEmpty t && decide (ns = .mathml)) = false := by
      simp only [not_and] at c3
      cases he : NameHash.isEmpty t
      · simp
      · simp [c3 he]
    simp [this]

/-- self-closing foreign element -/
theorem step_selfClosing (cfg : TagCfg) (s : Sim) (hs : s.strict = false) (ns : FNs)
    (hc : s.currentNs = ns.toNs) (n : Bytes) (a : Attrs) (hp : PlainStart cfg n a) :
    s.stepTag cfg (startEv n a true) = .ok (s, .none) := by
  obtain ⟨h1, h2, h3, h4⟩ := hp
  unfold Sim.stepTag
  simp only [startEv, if_true]
  rw [start_nonstrict cfg s hs, startCore_foreign cfg s ns hc _ h1 h2 h3]
  by_cases c1 : NameHash.ofBytes n ∈ ipList cfg ns
  · rw [if_pos c1]; simp [Sim.finishStep, Sim.runCallback]
  rw [if_neg c1]
  by_cases c2 : NameHash.ofBytes n = cfg.font
  · rw [if_pos c2]
    have := h4 c2
    unfold hasFontAttr at this
    simp [Sim.finishStep, Sim.runCallback, this]
  rw [if_neg c2]
  by_cases c3 : NameHash.isEmpty (NameHash.ofBytes n) = true ∧ ns = .mathml
  · rw [if_pos c3]; simp [Sim.finishStep, Sim.runCallback]
  · rw [if_neg c3]; rfl

/-- start tag of an ordinary (non integration point) foreign element -/
theorem step_elemStart (cfg : TagCfg) (s : Sim) (hs : s.strict = false) (ns : FNs)
    (hc : s.currentNs = ns.toNs) (n : Bytes) (a : Attrs) (hp : PlainStart cfg n a)
    (hn : NotIP cfg ns n a) :
    s.stepTag cfg (startEv n a false) = .ok (s, .none) := by
  obtain ⟨h1, h2, h3, h4⟩ := hp
  obtain ⟨c1, n2⟩ := hn
  unfold Sim.stepTag
  simp only [startEv, if_true]
  rw [start_nonstrict cfg s hs, startCore_foreign cfg s ns hc _ h1 h2 h3, if_neg c1]
  by_cases c2 : NameHash.ofBytes n = cfg.font
  · rw [if_pos c2]
    have := h4 c2
    unfold hasFontAttr at this
    simp [Sim.finishStep, Sim.runCallback, this]
  rw [if_neg c2]
  by_cases c3 : NameHash.isEmpty (NameHash.ofBytes n) = true ∧ ns = .mathml
  · rw [if_pos c3]
    have := n2 c3.2 c3.1
    unfold isAnnXmlHtml at this
    simp only [Sim.finishStep, Sim.runCallback]
    simp only [Bool.not_true, Bool.false_eq_true, if_false, Bool.not_false, Bool.true_and]
    rw [Bool.and_eq_false_iff] at this
    rcases this with h | h <;> simp [h]
  · rw [if_neg c3]; rfl

/-- start tag of an integration point -/
theorem step_ipStart (cfg : TagCfg) (s : Sim) (hs : s.strict = false) (ns : FNs)
    (hc : s.currentNs = ns.toNs) (n : Bytes) (a : Attrs) (hp : IsIP cfg ns n a) :
    s.stepTag cfg (startEv n a false) = .ok (s.enterNs .html) := by
  obtain ⟨h1, h2, h3, h4⟩ := hp
  unfold Sim.stepTag
  simp only [startEv, if_true]
  rw [start_nonstrict cfg s hs, startCore_foreign cfg s ns hc _ h1 h2 h3]
  rcases h4 with c1 | ⟨hm, he, c1, c2, hx⟩
  · rw [if_pos c1]; simp [Sim.finishStep, Sim.runCallback]
  · rw [if_neg c1, if_neg c2, if_pos ⟨he, hm⟩]
    unfold isAnnXmlHtml at hx
    simp only [Sim.finishStep, Sim.runCallback]
    simp only [Bool.not_true, Bool.false_eq_true, if_false, Bool.not_false, Bool.true_and]
    rw [Bool.and_eq_true] at hx
    simp [hx.1, hx.2]


theorem step_end_eq (cfg : TagCfg) (s : Sim) (hs : s.strict = false) (n : Bytes) :
    s.stepTag cfg (endEv n) = Sim.finishStep ⟨false, n, [], false⟩
      (match endCore cfg s (NameHash.ofBytes n) with
        | some r => .ok r
        | none => .error (.panic "leave_ns: namespace stack empty")) := by
  unfold Sim.stepTag
  simp only [endEv, Bool.false_eq_true, if_false]
  rw [end_nonstrict cfg s hs]

/-- end tag of an ordinary foreign element -/
theorem step_plainEnd (cfg : TagCfg) (s : Sim) (hs : s.strict = false) (ns : FNs)
    (hc : s.currentNs = ns.toNs) (n : Bytes) (hp : PlainEnd cfg ns n) :
    s.stepTag cfg (endEv n) = .ok (s, .none) := by
  obtain ⟨h1, h2⟩ := hp
  have hne : (s.currentNs == .html) = false := by
    rw [hc]; cases ns <;> decide
  have hl : s.shouldLeaveNs cfg (NameHash.ofBytes n) = false := by
    rw [shouldLeave_eq cfg s ns hc]; simp [h1, h2]
  rw [step_end_eq cfg s hs]
  simp [endCore, hne, hl, Sim.finishStep]

/-- start tag of an island root (`cfg.svg ≠ cfg.math` is needed for `<math>`) -/
theorem step_rootStart (cfg : TagCfg) (hsm : cfg.svg ≠ cfg.math) (s : Sim) (hs : s.strict = false)
    (ns : FNs) (n : Bytes) (a : Attrs) (hn : NameHash.ofBytes n = rootHash cfg ns) :
    s.stepTag cfg (startEv n a false) = .ok (s.enterNs ns.toNs) := by
  unfold Sim.stepTag
  simp only [startEv, if_true]
  rw [start_nonstrict cfg s hs, hn]
  cases ns with
  | svg => simp [startCore, rootHash, FNs.toNs, Sim.finishStep, Sim.enterNs]
  | mathml =>
    have : cfg.math ≠ cfg.svg := fun h => hsm h.symm
    simp [startCore, rootHash, FNs.toNs, Sim.finishStep, Sim.enterNs, this]

/-- end tag of an island root, seen right inside the root -/
theorem step_rootEnd (cfg : TagCfg) (s0 : Sim) (h0 : Inv s0) (hs : s0.strict = false) (ns : FNs)
    (n : Bytes) (hn : NameHash.ofBytes n = rootHash cfg ns) :
    (s0.enterNs ns.toNs).1.stepTag cfg (endEv n) = .ok (s0, .setAllowCdata (s0.currentNs != .html)) := by
  have hc : (s0.enterNs ns.toNs).1.currentNs = ns.toNs := rfl
  have hne : ((s0.enterNs ns.toNs).1.currentNs == .html) = false := by
    rw [hc]; cases ns <;> decide
  have hl : (s0.enterNs ns.toNs).1.shouldLeaveNs cfg (NameHash.ofBytes n) = true := by
    rw [shouldLeave_eq cfg _ ns hc]; simp [hn]
  rw [step_end_eq cfg _ (by exact hs)]
  simp only [endCore, hne, hl, Bool.false_eq_true, if_false, if_true, leave_enter s0 h0]
  rfl

theorem ipExit_eq (cfg : TagCfg) (prev : FNs) (t : Nat) :
    ((prev.toNs == .mathml && cfg.mathmlTextIP.contains t) || (prev.toNs == .svg && cfg.svgHtmlIP.contains t)) =
      (ipList cfg prev).contains t := by
  have h1 : (Ns.svg == Ns.mathml) = false := by decide
  have h2 : (Ns.mathml == Ns.svg) = false := by decide
  cases prev <;> simp [FNs.toNs, ipList, h1, h2]

/-- end tag of an integration point, seen right inside it -/
theorem step_ipEnd (cfg : TagCfg) (s0 : Sim) (h0 : Inv s0) (hs : s0.strict = false) (prev : FNs)
    (hc : s0.currentNs = prev.toNs) (n : Bytes) (a : Attrs) (hp : IsIP cfg prev n a) :
    (s0.enterNs .html).1.stepTag cfg (endEv n) = .ok (s0, .setAllowCdata (s0.currentNs != .html)) := by
  obtain ⟨-, -, -, h4⟩ := hp
  obtain ⟨r, hst⟩ : ∃ r, s0.nsStack = prev.toNs :: r := by
    have := h0.top
    match hs0 : s0.nsStack with
    | [] => rw [hs0] at this; simp at this
    | x :: r => rw [hs0] at this; simp at this; exact ⟨r, by rw [this, hc]⟩
  rw [step_end_eq cfg _ (by exact hs)]
  have hcur : ((s0.enterNs .html).1.currentNs == .html) = true := rfl
  have hstack : (s0.enterNs .html).1.nsStack = .html :: prev.toNs :: r := by
    simp [Sim.enterNs, hst]
  simp only [endCore, hcur, if_true, Sim.checkIntegrationPointExit, hstack, ipExit_eq]
  rcases h4 with c1 | ⟨hm, he, c1, -, hx⟩
  · have : (ipList cfg prev).contains (NameHash.ofBytes n) = true := by simpa using c1
    simp only [this, if_true, leave_enter s0 h0]
    rfl
  · have c1' : (ipList cfg prev).contains (NameHash.ofBytes n) = false := by simpa using c1
    subst hm
    have hx' : eqCaseInsensitive n bAnnotationXml = true := by
      unfold isAnnXmlHtml at hx; rw [Bool.and_eq_true] at hx; exact hx.1
    simp only [c1', Bool.false_eq_true, if_false, he, FNs.toNs, beq_self_eq_true, Bool.and_self, if_true]
    simp [Sim.finishStep, Sim.runCallback, hx', leave_enter s0 h0]

/-- HTML start tag inside an integration point (or anywhere in HTML content) -/
theorem step_htmlStart (cfg : TagCfg) (s : Sim) (hs : s.strict = false) (hc : s.currentNs = .html)
    (n : Bytes) (a : Attrs) (sc : Bool) (hp : HtmlStart cfg n) :
    s.stepTag cfg (startEv n a sc) = .ok (s, textTypeAdjustment cfg (NameHash.ofBytes n)) := by
  unfold Sim.stepTag
  simp only [startEv, if_true]
  rw [start_nonstrict cfg s hs]
  have : startCore cfg s (NameHash.ofBytes n) = .ok (s, textTypeAdjustment cfg (NameHash.ofBytes n)) := by
    simp [startCore, hp.1, hp.2, hc]
  rw [this]
  exact finish_ok _ _ _ (textType_fbOk cfg s _).2

/-- HTML end tag inside an integration point of `prev` -/
theorem step_htmlEnd (cfg : TagCfg) (s : Sim) (hs : s.strict = false) (hc : s.currentNs = .html)
    (prev : FNs) (r : List Ns) (hst : s.nsStack = .html :: prev.toNs :: r)
    (n : Bytes) (hp : HtmlEnd cfg prev n) :
    s.stepTag cfg (endEv n) = .ok (s, .none) := by
  obtain ⟨c1, c2⟩ := hp
  have c1' : (ipList cfg prev).contains (NameHash.ofBytes n) = false := by simpa using c1
  rw [step_end_eq cfg s hs]
  have hcur : (s.currentNs == .html) = true := by simp [hc]
  simp only [endCore, hcur, if_true, Sim.checkIntegrationPointExit, hst, ipExit_eq, c1',
    Bool.false_eq_true, if_false]
  by_cases c3 : (NameHash.isEmpty (NameHash.ofBytes n) && prev.toNs == .mathml) = true
  · have hm : prev = .mathml := by
      cases prev
      · simp [FNs.toNs] at c3
      · rfl
    have he : NameHash.isEmpty (NameHash.ofBytes n) = true := by simp at c3; exact c3.1
    have hx : eqCaseInsensitive n bAnnotationXml = false := by
      cases hx : eqCaseInsensitive n bAnnotationXml
      · rfl
      · exact absurd ⟨hm, he, hx⟩ c2
    simp only [c3, if_true]
    simp [Sim.finishStep, Sim.runCallback, hx]
  · simp only [c3, Bool.false_eq_true, if_false]
    rfl


/-! ### the grammar theorem -/

theorem stack_of_inv (s : Sim) (h : Inv s) : ∃ r, s.nsStack = s.currentNs :: r := by
  have := h.top
  match hs0 : s.nsStack with
  | [] => rw [hs0] at this; simp at this
  | x :: r => rw [hs0] at this; simp at this; exact ⟨r, by rw [this]⟩

mutual
  theorem fseq_steps (cfg : TagCfg) (hsm : cfg.svg ≠ cfg.math) (ns : FNs) :
      (c : FSeq) → c.Ok cfg ns → ∀ s : Sim, Inv s → s.strict = false → s.currentNs = ns.toNs →
      Steps cfg s (c.flat ns) s
    | .nil, _, s, _, _, _ => by simpa [FSeq.flat] using Steps.nil s
    | .text r, h, s, hi, hs, hc => by
      simp only [FSeq.Ok] at h
      simpa [FSeq.flat] using fseq_steps cfg hsm ns r h s hi hs hc
    | .selfClosing n a r, h, s, hi, hs, hc => by
      simp only [FSeq.Ok] at h
      simp only [FSeq.flat]
      exact Steps.cons (step_selfClosing cfg s hs ns hc n a h.1) hc (fseq_steps cfg hsm ns r h.2 s hi hs hc)
    | .elem n a c r, h, s, hi, hs, hc => by
      simp only [FSeq.Ok] at h
      obtain ⟨h1, h2, h3, h4, h5⟩ := h
      simp only [FSeq.flat]
      exact Steps.cons (step_elemStart cfg s hs ns hc n a h1 h2) hc
        (Steps.append (fseq_steps cfg hsm ns c h4 s hi hs hc)
          (Steps.cons (step_plainEnd cfg s hs ns hc n h3) hc (fseq_steps cfg hsm ns r h5 s hi hs hc)))
    | .ip n a b r, h, s, hi, hs, hc => by
      simp only [FSeq.Ok] at h
      obtain ⟨h1, h2, h3⟩ := h
      simp only [FSeq.flat]
      obtain ⟨rest, hst⟩ := stack_of_inv s hi
      have hi1 := (inv_enter s hi .html).1
      refine Steps.cons (step_ipStart cfg s hs ns hc n a h1) rfl
        (Steps.append (hseq_steps cfg hsm ns b h2 (s.enterNs .html).1 hi1 hs rfl rest ?_)
          (Steps.cons (step_ipEnd cfg s hi hs ns hc n a h1) hc (fseq_steps cfg hsm ns r h3 s hi hs hc)))
      simp [Sim.enterNs, hst, hc]
  theorem hseq_steps (cfg : TagCfg) (hsm : cfg.svg ≠ cfg.math) (prev : FNs) :
      (b : HSeq) → b.Ok cfg prev → ∀ s : Sim, Inv s → s.strict = false → s.currentNs = .html →
      ∀ rest, s.nsStack = .html :: prev.toNs :: rest → Steps cfg s b.flat s
    | .nil, _, s, _, _, _, _, _ => by simpa [HSeq.flat] using Steps.nil s
    | .text r, h, s, hi, hs, hc, rest, hst => by
      simp only [HSeq.Ok] at h
      simpa [HSeq.flat] using hseq_steps cfg hsm prev r h s hi hs hc rest hst
    | .void n a sc r, h, s, hi, hs, hc, rest, hst => by
      simp only [HSeq.Ok] at h
      simp only [HSeq.flat]
      exact Steps.cons (step_htmlStart cfg s hs hc n a sc h.1) hc
        (hseq_steps cfg hsm prev r h.2 s hi hs hc rest hst)
    | .elem n a c r, h, s, hi, hs, hc, rest, hst => by
      simp only [HSeq.Ok] at h
      obtain ⟨h1, h2, h3, h4⟩ := h
      simp only [HSeq.flat]
      exact Steps.cons (step_htmlStart cfg s hs hc n a false h1) hc
        (Steps.append (hseq_steps cfg hsm prev c h3 s hi hs hc rest hst)
          (Steps.cons (step_htmlEnd cfg s hs hc prev rest hst n h2) hc
            (hseq_steps cfg hsm prev r h4 s hi hs hc rest hst)))
    | .island ns n a c r, h, s, hi, hs, hc, rest, hst => by
      simp only [HSeq.Ok] at h
      obtain ⟨h1, h2, h3⟩ := h
      simp only [HSeq.flat]
      have hi1 := (inv_enter s hi ns.toNs).1
      have he := step_rootEnd cfg s hi hs ns n h1
      exact Steps.cons (step_rootStart cfg hsm s hs ns n a h1) rfl
        (Steps.append (fseq_steps cfg hsm ns c h2 (s.enterNs ns.toNs).1 hi1 hs rfl)
          (Steps.cons he hc (hseq_steps cfg hsm prev r h3 s hi hs hc rest hst)))
end

/-- A top-level island, from any HTML-namespace state of the non-strict simulator. -/
theorem island_steps (cfg : TagCfg) (hsm : cfg.svg ≠ cfg.math) (i : Island) (h : i.Ok cfg)
    (s : Sim) (hi : Inv s) (hs : s.strict = false) (hc : s.currentNs = .html) :
    Steps cfg s i.flat s := by
  obtain ⟨h1, h2⟩ := h
  have hi1 := (inv_enter s hi i.ns.toNs).1
  unfold Island.flat
  exact Steps.cons (step_rootStart cfg hsm s hs i.ns i.name i.attrs h1) rfl
    (Steps.append (fseq_steps cfg hsm i.ns i.children h2 (s.enterNs i.ns.toNs).1 hi1 hs rfl)
      (Steps.cons (step_rootEnd cfg s hi hs i.ns i.name h1) hc (Steps.nil s)))


/-- a top-level HTML tag (namespace stack `[Html]`), non-strict -/
theorem step_top (cfg : TagCfg) (s : Sim) (hs : s.strict = false) (hst : s.nsStack = [.html])
    (hc : s.currentNs = .html) (ev : TagEvent)
    (hev : ev.view.isStart = true → ev.hash ≠ cfg.svg ∧ ev.hash ≠ cfg.math) :
    ∃ fb, s.stepTag cfg ev = .ok (s, fb) := by
  unfold Sim.stepTag
  by_cases hv : ev.view.isStart = true
  · obtain ⟨h1, h2⟩ := hev hv
    simp only [hv, if_true]
    rw [start_nonstrict cfg s hs]
    have : startCore cfg s ev.hash = .ok (s, textTypeAdjustment cfg ev.hash) := by
      simp [startCore, h1, h2, hc]
    rw [this]
    exact ⟨_, finish_ok _ _ _ (textType_fbOk cfg s _).2⟩
  · have hv' : ev.view.isStart = false := by simpa using hv
    simp only [hv', Bool.false_eq_true, if_false]
    rw [end_nonstrict cfg s hs]
    have : endCore cfg s ev.hash = some (s, .none) := by
      simp [endCore, hc, Sim.checkIntegrationPointExit, hst]
    rw [this]
    exact ⟨_, rfl⟩

theorem doc_steps (cfg : TagCfg) (hsm : cfg.svg ≠ cfg.math) (d : List DocItem)
    (hok : ∀ x ∈ d, x.Ok cfg) : Steps cfg (Sim.new false) (docFlat d) (Sim.new false) := by
  induction d with
  | nil => exact Steps.nil _
  | cons x d ih =>
    have ih' := ih (fun y hy => hok y (by simp [hy]))
    have hx := hok x (by simp)
    unfold docFlat at ih' ⊢
    rw [List.flatMap_cons]
    refine Steps.append ?_ ih'
    cases x with
    | tag ev =>
      obtain ⟨fb, he⟩ := step_top cfg (Sim.new false) rfl rfl rfl ev hx
      exact Steps.cons he rfl (Steps.nil _)
    | island i => exact island_steps cfg hsm i hx (Sim.new false) (inv_new false) rfl rfl

end LolHtml.Lemmas.Island
