import LolHtml.Lemmas.InvAct
/-!
# C15 — one state-function invocation preserves the invariant, makes progress, signals only good things

`stateFn_post`: from `MInvB` (between state functions) one invocation of a state function of a
well-formed table either re-establishes `MInvB` and makes progress (`Prog`: cursor advanced, or the
rank went down), or signals something satisfying `SigOK` — never one of the covered panics.
`runLoop_post`: hence `defaultFuel` is never exhausted.
-/
namespace LolHtml.Model

variable {κ : Type}

theorem SigOK_of_act {U : String → Prop} {t : Table} {W : κ → Nat} {L lo : Nat} {m : M κ} {sig : Signal}
    (h : ActSigOK U W L lo m sig) : SigOK U t W L lo m sig := by
  cases sig with
  | endOfInput c => exact absurd h (by simp [ActSigOK])
  | err e => exact h
  | directive d bm => exact h

theorem RegsB_of_A {w lo N : Nat} {f b : Bool} {r : Regs} (h : RegsA w lo (N - 1) f r) (hN : 1 ≤ N) :
    RegsB w lo N b r := by
  cases r with
  | lexer l => simp only [RegsA, RegsB] at h ⊢; omega
  | scanner s =>
    simp only [RegsA, RegsB] at h ⊢
    refine ⟨by omega, fun p hp => ?_, Or.inl h.2.2⟩
    have := h.2.1 p hp
    omega

theorem RegsB_of_A_back {w lo N : Nat} {b : Bool} {r : Regs} (h : RegsA w lo (N - 1) true r) :
    RegsB w lo (N - 1) b r := by
  cases r with
  | lexer l =>
    have h' : w ≤ l.lexemeStart ∧ l.lexemeStart ≤ N - 1 + 1 ∧ (true = true → l.lexemeStart ≤ N - 1) := h
    exact ⟨h'.1, h'.2.2 rfl⟩
  | scanner s =>
    have h' : w ≤ N - 1 ∧ (∀ p, s.tagStart = some p → w ≤ p ∧ lo ≤ p ∧ p ≤ N - 1) ∧ s.chSeqStart = none := h
    exact ⟨h'.1, h'.2.1, Or.inl h'.2.2⟩

section
variable {env : Env κ} {inp : Bytes} {W : κ → Nat} {lo : Nat}

/-! ### action lists -/

/-- postcondition of an action list -/
def CallsPost (W : κ → Nat) (L lo : Nat) (hb f' : Bool) (m : M κ) (r : M κ × Option Signal) : Prop :=
  Frame m r.1 ∧ (r.2 = none → MInvA W L lo hb f' r.1) ∧ ∀ sig, r.2 = some sig → ActSigOK U1 W L lo r.1 sig

theorem runCalls_post (hs : SinkSafe env.ops W inp U1) {hb : Bool} (cs : List Call) {f f' : Bool} (m : M κ)
    (hm : MInvA W inp.length lo hb f m) (hf : flagCalls hb cs f = some f') :
    CallsPost W inp.length lo hb f' m (runCalls env inp cs m) := by
  induction cs generalizing m f with
  | nil =>
    simp only [flagCalls, Option.some.injEq] at hf
    subst hf
    simp only [runCalls]
    exact ⟨Frame.refl m, fun _ => hm, fun sig h => by cases h⟩
  | cons cl cs ih =>
    simp only [flagCalls] at hf
    split at hf
    · cases hf
    · rename_i f1 hf1
      have h1 := act_post hs cl.act m hm hf1
      have ih' := ih (act env cl.act inp m).1 h1.2.1 hf
      have hcont : CallsPost W inp.length lo hb f' m (runCalls env inp cs (act env cl.act inp m).1) :=
        ⟨h1.1.trans ih'.1, ih'.2.1, ih'.2.2⟩
      simp only [runCalls]
      split
      · rename_i s hsig
        split
        · refine ⟨h1.1, ?_, ?_⟩
          · intro h; cases h
          · intro sig h
            simp only [Option.some.injEq] at h
            subst h
            exact h1.2.2 _ hsig
        · exact hcont
      · exact hcont

/-! ### transitions -/

theorem applyTrans_post (hw : Wf env.tbl) {hb f' : Bool} (tr : Trans) (m : M κ)
    (hm : MInvA W inp.length lo hb f' m) (hok : transOK hb f' (some tr) = true)
    (htgt : tr.targetOK env.tbl.states.length = true) {n0 : Nat} (hn0 : n0 ≤ m.c.nextPos - 1) {st0 : StateId}
    (hrank : ∀ x, tr = .reconsume x → env.tbl.rank x < env.tbl.rank st0) :
    (applyTrans env tr m).2 = none ∧
    MInvB env.tbl inp.length (W (applyTrans env tr m).1.x.sink) lo (applyTrans env tr m).1 ∧
    Prog env.tbl n0 st0 (applyTrans env tr m).1 := by
  obtain ⟨a1, a2, a3, a4, a5⟩ := hm
  cases tr with
  | goto s =>
    simp only [transOK] at hok
    have a4' := a4 hok
    simp only [Trans.targetOK, decide_eq_true_eq] at htgt
    obtain ⟨sd, hsd⟩ := Table.state?_isSome htgt
    simp only [applyTrans]
    refine ⟨by first | rfl | trivial, ⟨by dsimp only; omega, by dsimp only; omega, sd, hsd, RegsB_of_A a5 a1⟩, Or.inl (by dsimp only; omega)⟩
  | gotoDyn =>
    simp only [transOK] at hok
    have a4' := a4 hok
    obtain ⟨sd, hsd⟩ := Table.state?_isSome (hw.textState m.c.lastTextType)
    simp only [applyTrans]
    refine ⟨by first | rfl | trivial, ⟨by dsimp only; omega, by dsimp only; omega, sd, hsd, RegsB_of_A a5 a1⟩, Or.inl (by dsimp only; omega)⟩
  | reconsume s =>
    simp only [transOK] at hok
    subst hok
    simp only [Trans.targetOK, decide_eq_true_eq] at htgt
    obtain ⟨sd, hsd⟩ := Table.state?_isSome htgt
    simp only [applyTrans]
    rw [if_neg (by omega)]
    refine ⟨by first | rfl | trivial, ⟨by dsimp only; omega, by dsimp only; omega, sd, hsd, RegsB_of_A_back a5⟩,
      Or.inr ⟨by dsimp only; omega, hrank s rfl⟩⟩

/-! ### arm bodies -/

/-- what running an action list with its transition yields -/
def SeqPost (t : Table) (W : κ → Nat) (L lo : Nat) (hb : Bool) (n0 : Nat) (m : M κ)
    (r : M κ × Option Signal × SeqEnd) : Prop :=
  (∀ sig, r.2.1 = some sig → ActSigOK U1 W L lo r.1 sig) ∧
  (r.2.1 = none → r.2.2 = .transitioned → MInvB t L (W r.1.x.sink) lo r.1 ∧ Prog t n0 m.c.state r.1) ∧
  (r.2.1 = none → r.2.2 = .fell → Frame m r.1 ∧ ∃ f', MInvA W L lo hb f' r.1 ∧ (hb = true ∨ f' = true))

theorem SeqPost.ofSig {t : Table} {L : Nat} {hb : Bool} {n0 : Nat} {m m' : M κ} {sig : Signal} {e : SeqEnd}
    (h : ActSigOK U1 W L lo m' sig) : SeqPost t W L lo hb n0 m (m', some sig, e) := by
  refine ⟨?_, ?_, ?_⟩
  · intro sg hsg
    have : sig = sg := by simpa using hsg
    subst this
    exact h
  · intro h; simp at h
  · intro h; simp at h

theorem runSeq_post (hs : SinkSafe env.ops W inp U1) (hw : Wf env.tbl) {hb : Bool} (s : ActSeq) (m : M κ)
    (hm : MInvA W inp.length lo hb true m) (hok : seqOK hb s = true)
    (htgt : s.targetOK env.tbl.states.length = true) {n0 : Nat} (hn0 : n0 ≤ m.c.nextPos - 1)
    (hrank : ∀ x, s.trans = some (.reconsume x) → env.tbl.rank x < env.tbl.rank m.c.state) :
    SeqPost env.tbl W inp.length lo hb n0 m (runSeq env inp s m) := by
  unfold seqOK at hok
  split at hok
  · cases hok
  · rename_i f' hf
    have h1 := runCalls_post hs s.calls m hm hf
    unfold runSeq
    dsimp only
    split
    · rename_i sig hsig
      exact SeqPost.ofSig (h1.2.2 _ hsig)
    · rename_i hnone
      have hA := h1.2.1 hnone
      split
      · rename_i htr
        rw [htr] at hok
        simp only [transOK, Bool.or_eq_true] at hok
        refine ⟨?_, ?_, ?_⟩
        · intro sg h; simp at h
        · intro _ h; simp at h
        · intro _ _
          exact ⟨h1.1, f', hA, hok⟩
      · rename_i tr htr
        rw [htr] at hok
        have htgt' : tr.targetOK env.tbl.states.length = true := by
          unfold ActSeq.targetOK at htgt
          rw [htr] at htgt
          exact htgt
        have := applyTrans_post (n0 := n0) (st0 := m.c.state) hw tr (runCalls env inp s.calls m).1 hA hok htgt'
          (by rw [h1.1.1]; exact hn0) (fun x hx => hrank x (by rw [htr, hx]))
        refine ⟨?_, ?_, ?_⟩
        · intro sg h
          dsimp only at h
          rw [this.1] at h
          cases h
        · intro _ _
          exact this.2
        · intro _ h; simp at h

theorem runBody_post (hs : SinkSafe env.ops W inp U1) (hw : Wf env.tbl) {hb : Bool} (b : Body) (m : M κ)
    (hm : MInvA W inp.length lo hb true m)
    (hok : ∀ s ∈ b.seqs, seqOK hb s = true ∧ s.targetOK env.tbl.states.length = true ∧
      ∀ x, s.trans = some (.reconsume x) → env.tbl.rank x < env.tbl.rank m.c.state)
    {n0 : Nat} (hn0 : n0 ≤ m.c.nextPos - 1) :
    SeqPost env.tbl W inp.length lo hb n0 m (runBody env inp b m) := by
  cases b with
  | seq s =>
    obtain ⟨h1, h2, h3⟩ := hok s (by simp [Body.seqs])
    exact runSeq_post hs hw s m hm h1 h2 hn0 h3
  | ite cnd t e =>
    simp only [runBody]
    split
    · apply SeqPost.ofSig
      simp [ActSigOK, ErrOK, U1]
    · obtain ⟨h1, h2, h3⟩ := hok t (by simp [Body.seqs])
      exact runSeq_post hs hw t m hm h1 h2 hn0 h3
    · obtain ⟨h1, h2, h3⟩ := hok e (by simp [Body.seqs])
      exact runSeq_post hs hw e m hm h1 h2 hn0 h3

/-- static facts about the arms of the current state -/
theorem Wf.body_ok {t : Table} (hw : Wf t) {st : StateId} {sd : StateDef} (hst : t.state? st = some sd)
    {a : Arm} (ha : a ∈ sd.arms) :
    ∀ s ∈ a.body.seqs, seqOK a.pat.hasByte s = true ∧ s.targetOK t.states.length = true ∧
      ∀ x, s.trans = some (.reconsume x) → t.rank x < t.rank st :=
  fun _ hs => ⟨hw.arm_ok hst ha hs, hw.seq_target hst ha hs, fun _ hx => hw.rank_reconsume hst ha hs hx⟩

/-- an arm that consumed a byte: its body's result is the state function's result -/
theorem armBody_step (hs : SinkSafe env.ops W inp U1) (hw : Wf env.tbl) (b : Body) (m : M κ) {sd : StateDef}
    (hst : env.tbl.state? m.c.state = some sd) (hm : MInvA W inp.length lo true true m)
    (hok : ∀ s ∈ b.seqs, seqOK true s = true ∧ s.targetOK env.tbl.states.length = true ∧
      ∀ x, s.trans = some (.reconsume x) → env.tbl.rank x < env.tbl.rank m.c.state)
    {n0 : Nat} (hn0 : n0 ≤ m.c.nextPos - 1) :
    StepPost env.tbl W inp.length lo n0 m.c.state ((runBody env inp b m).1, (runBody env inp b m).2.1) := by
  obtain ⟨p1, p2, p3⟩ := runBody_post hs hw b m hm hok hn0
  unfold StepPost
  dsimp only
  cases hsig : (runBody env inp b m).2.1 with
  | some sig => exact SigOK_of_act (p1 sig hsig)
  | none =>
    dsimp only
    cases hend : (runBody env inp b m).2.2 with
    | transitioned => exact p2 hsig hend
    | fell =>
      obtain ⟨hfr, f', hA, _⟩ := p3 hsig hend
      obtain ⟨a1, a2, a3, a4, a5⟩ := hA
      have a4' := a4 rfl
      refine ⟨⟨?_, ?_, sd, ?_, RegsB_of_A a5 a1⟩, Or.inl ?_⟩
      · (try dsimp only); omega
      · (try dsimp only); omega
      · (try dsimp only); rw [hfr.2.1]; exact hst
      · (try dsimp only); have := hfr.1; omega

/-! ### the break -/

/-- what `break_on_end_of_input` needs -/
def BreakPre (t : Table) (W : κ → Nat) (L : Nat) (m : M κ) : Prop :=
  1 ≤ m.c.nextPos ∧ m.c.nextPos - 1 ≤ L ∧ ∃ sd, t.state? m.c.state = some sd ∧
  match m.r with
  | .lexer l => W m.x.sink ≤ l.lexemeStart ∧ l.lexemeStart ≤ m.c.nextPos - 1
  | .scanner s =>
      W m.x.sink ≤ m.c.nextPos - 1 ∧ (∀ p, s.tagStart = some p → W m.x.sink ≤ p ∧ p ≤ m.c.nextPos - 1) ∧
      ((s.chSeqStart = some (m.c.nextPos - 1) ∧ seqResume sd m.c = true) ∨
       (s.chSeqStart = none ∧ m.c.nextPos - 1 = L))

theorem breakOnEndOfInput_post {t : Table} (m : M κ) (hp : BreakPre t W inp.length m) :
    ∃ consumed, (breakOnEndOfInput inp m).2 = some (.endOfInput consumed) ∧
      SigOK U1 t W inp.length lo (breakOnEndOfInput inp m).1 (.endOfInput consumed) := by
  obtain ⟨b1, b2, sd, hsd, b3⟩ := hp
  cases m with
  | mk c r x =>
  cases r with
  | lexer l =>
    dsimp only at b1 b2 b3 hsd
    simp only [breakOnEndOfInput, consumedByteCount]
    cases hl : c.isLast
    · simp only [Bool.false_eq_true, if_false, adjustForNextInput]
      rw [if_neg (by omega)]
      refine ⟨_, rfl, ?_⟩
      simp only [SigOK]
      refine ⟨b3.1, by omega, fun _ => ⟨Nat.zero_le _, by dsimp only; omega, sd, hsd, ?_⟩⟩
      simp only [RegsB]
      omega
    · simp only [if_true]
      rw [if_neg (by omega)]
      refine ⟨_, rfl, ?_⟩
      simp only [SigOK]
      exact ⟨b3.1, by omega, fun h => by rw [hl] at h; cases h⟩
  | scanner s =>
    dsimp only at b1 b2 b3 hsd
    obtain ⟨c1, c2, c3⟩ := b3
    cases hts : s.tagStart with
    | none =>
      rcases c3 with ⟨hcs, hres⟩ | ⟨hcs, hlen⟩
      · -- consumed = the sequence start = pos
        simp only [breakOnEndOfInput, consumedByteCount, hts, hcs]
        cases hl : c.isLast
        · simp only [Bool.false_eq_true, if_false, adjustForNextInput, hts]
          rw [if_neg (by omega)]
          refine ⟨_, rfl, ?_⟩
          simp only [SigOK]
          refine ⟨c1, b2, fun _ => ⟨Nat.zero_le _, by dsimp only; omega, sd, hsd, ?_⟩⟩
          refine ⟨Nat.zero_le _, ?_, Or.inr hres⟩
          intro p h
          rw [hts] at h
          cases h
        · simp only [if_true]
          rw [if_neg (by omega)]
          refine ⟨_, rfl, ?_⟩
          simp only [SigOK]
          exact ⟨c1, b2, fun h => by rw [hl] at h; cases h⟩
      · simp only [breakOnEndOfInput, consumedByteCount, hts, hcs]
        cases hl : c.isLast
        · simp only [Bool.false_eq_true, if_false, adjustForNextInput, hts]
          rw [if_neg (by omega)]
          refine ⟨_, rfl, ?_⟩
          simp only [SigOK]
          refine ⟨by omega, Nat.le_refl _, fun _ => ⟨Nat.zero_le _, by dsimp only; omega, sd, hsd, ?_⟩⟩
          refine ⟨Nat.zero_le _, ?_, Or.inl hcs⟩
          intro p h
          rw [hts] at h
          cases h
        · simp only [if_true]
          rw [if_neg (by omega)]
          refine ⟨_, rfl, ?_⟩
          simp only [SigOK]
          exact ⟨by omega, Nat.le_refl _, fun h => by rw [hl] at h; cases h⟩
    | some p =>
      have hp := c2 p hts
      have hcons : consumedByteCount inp (⟨c, .scanner s, x⟩ : M κ) = p := by
        simp only [consumedByteCount, hts]
        rcases c3 with ⟨hcs, _⟩ | ⟨hcs, _⟩
        · simp only [hcs]; omega
        · simp only [hcs]
      simp only [breakOnEndOfInput, hcons]
      cases hl : c.isLast
      · simp only [Bool.false_eq_true, if_false, adjustForNextInput, hts]
        rw [if_neg (by omega)]
        refine ⟨_, rfl, ?_⟩
        simp only [SigOK]
        refine ⟨hp.1, by omega, fun _ => ⟨Nat.zero_le _, by dsimp only; omega, sd, hsd, ?_⟩⟩
        refine ⟨Nat.zero_le _, fun q hq => ?_, ?_⟩
        · have hq' : 0 = q := by simpa using hq
          subst hq'
          exact ⟨Nat.le_refl _, Nat.le_refl _, Nat.zero_le _⟩
        · rcases c3 with ⟨hcs, hres⟩ | ⟨hcs, _⟩
          · exact Or.inr hres
          · exact Or.inl hcs
      · simp only [if_true]
        rw [if_neg (by omega)]
        refine ⟨_, rfl, ?_⟩
        simp only [SigOK]
        exact ⟨hp.1, by omega, fun h => by rw [hl] at h; cases h⟩

theorem break_step {t : Table} (m : M κ) (hp : BreakPre t W inp.length m) {n0 : Nat} {st0 : StateId} :
    StepPost t W inp.length lo n0 st0 (breakOnEndOfInput inp m) := by
  obtain ⟨consumed, h1, h2⟩ := breakOnEndOfInput_post (lo := lo) m hp
  unfold StepPost
  rw [h1]
  exact h2

/-- an arm that consumed no byte (`eoc`, or `eof` on the last input): signal, `reconsume`, or break -/
theorem armBody_break (hs : SinkSafe env.ops W inp U1) (hw : Wf env.tbl) (b : Body) (m : M κ) {sd : StateDef}
    (hst : env.tbl.state? m.c.state = some sd) (hm : MInvA W inp.length lo false true m)
    (hlen : m.c.nextPos - 1 = inp.length)
    (hok : ∀ s ∈ b.seqs, seqOK false s = true ∧ s.targetOK env.tbl.states.length = true ∧
      ∀ x, s.trans = some (.reconsume x) → env.tbl.rank x < env.tbl.rank m.c.state)
    {n0 : Nat} (hn0 : n0 ≤ m.c.nextPos - 1) :
    StepPost env.tbl W inp.length lo n0 m.c.state
      (match (runBody env inp b m).2.1, (runBody env inp b m).2.2 with
       | some sig, _ => ((runBody env inp b m).1, some sig)
       | none, .transitioned => ((runBody env inp b m).1, none)
       | none, .fell => breakOnEndOfInput inp (runBody env inp b m).1) := by
  obtain ⟨p1, p2, p3⟩ := runBody_post hs hw b m hm hok hn0
  cases hsig : (runBody env inp b m).2.1 with
  | some sig =>
    dsimp only
    unfold StepPost
    exact SigOK_of_act (p1 sig hsig)
  | none =>
    cases hend : (runBody env inp b m).2.2 with
    | transitioned =>
      dsimp only
      unfold StepPost
      exact p2 hsig hend
    | fell =>
      dsimp only
      obtain ⟨hfr, f', hA, hf'⟩ := p3 hsig hend
      have hf'' : f' = true := by
        rcases hf' with h | h
        · cases h
        · exact h
      subst hf''
      apply break_step
      obtain ⟨a1, a2, a3, a4, a5⟩ := hA
      refine ⟨a1, a3, sd, by rw [hfr.2.1]; exact hst, ?_⟩
      have hN := hfr.1
      cases hr : (runBody env inp b m).1.r with
      | lexer l =>
        rw [hr] at a5
        simp only [RegsA] at a5
        exact ⟨a5.1, a5.2.2 trivial⟩
      | scanner s =>
        rw [hr] at a5
        simp only [RegsA] at a5
        exact ⟨a5.1, fun p hp => ⟨(a5.2.1 p hp).1, (a5.2.1 p hp).2.2⟩, Or.inr ⟨a5.2.2, by rw [hN]; exact hlen⟩⟩

/-! ### sequence arms -/

theorem matchSeqFrom_matched {isLast ic : Bool} {N : Nat} (es : List UInt8) (d : Nat)
    (h : matchSeqFrom inp isLast ic N d es = .matched) (hne : es ≠ []) :
    N + d + es.length - 2 < inp.length := by
  induction es generalizing d with
  | nil => exact absurd rfl hne
  | cons e es ih =>
    simp only [matchSeqFrom] at h
    split at h
    · rename_i ch hch
      split at h
      · have hlt : N + d - 1 < inp.length := by
          rcases Nat.lt_or_ge (N + d - 1) inp.length with h1 | h1
          · exact h1
          · rw [List.getElem?_eq_none h1] at hch; cases hch
        cases es with
        | nil => simp only [List.length_cons, List.length_nil]; omega
        | cons e' es' =>
          have := ih (d + 1) h (by simp)
          simp only [List.length_cons] at this ⊢
          omega
      · cases h
    · split at h <;> cases h

theorem enterSeq_c (m : M κ) : (enterSeq m).c = m.c ∧ (enterSeq m).x = m.x := by
  unfold enterSeq; split <;> exact ⟨rfl, rfl⟩

theorem leaveSeq_c (m : M κ) : (leaveSeq m).c = m.c ∧ (leaveSeq m).x = m.x := by
  unfold leaveSeq; split <;> exact ⟨rfl, rfl⟩

/-- after `leave_ch_sequence_matching` the post-consume invariant holds without the stale-value clause -/
theorem leave_enter_MInvC {n0 : Nat} {ch : Option UInt8} {rem rem' : Bool} (m : M κ)
    (hm : MInvC W inp.length lo n0 ch rem m) : MInvC W inp.length lo n0 ch rem' (leaveSeq (enterSeq m)) := by
  obtain ⟨a1, a2, a3, a4, a5, a6, a7⟩ := hm
  cases m with
  | mk c r x =>
  cases r with
  | lexer l => exact ⟨a1, a2, a3, a4, a5, a6, a7⟩
  | scanner s =>
    refine ⟨a1, a2, a3, a4, a5, a6, ?_⟩
    simp only [RegsC, enterSeq, leaveSeq] at a7 ⊢
    exact ⟨a7.1, a7.2.1, Or.inl (by first | rfl | trivial)⟩

theorem hasSeqArm_of_mem {arms : List Arm} {a : Arm} (ha : a ∈ arms) (hp : a.pat.isChSeq = true) :
    hasSeqArm arms = true := by
  unfold hasSeqArm
  rw [List.any_eq_true]
  exact ⟨a, ha, hp⟩

/-- `MInvA` for the body of an ordinary arm, from the post-consume invariant -/
theorem MInvA_of_C {n0 : Nat} {ch : Option UInt8} {hb : Bool} (m : M κ)
    (hm : MInvC W inp.length lo n0 ch false m) (hbch : hb = true → ch.isSome = true) :
    MInvA W inp.length lo hb true m := by
  obtain ⟨a1, a2, a3, a4, a5, a6, a7⟩ := hm
  refine ⟨a1, a2, a4, fun h => a5 (hbch h), ?_⟩
  cases hr : m.r with
  | lexer l => rw [hr] at a7; simp only [RegsC, RegsA] at a7 ⊢; exact ⟨a7.1, by omega, fun _ => a7.2⟩
  | scanner s =>
    rw [hr] at a7
    simp only [RegsC, RegsA] at a7 ⊢
    refine ⟨a7.1, a7.2.1, ?_⟩
    rcases a7.2.2 with h | h
    · exact h
    · cases h

/-- result of trying the sequence arms -/
def SeqArmsPost (t : Table) (W : κ → Nat) (L lo n0 : Nat) (ch : Option UInt8) (m : M κ) :
    (M κ × Option Signal) ⊕ M κ → Prop
  | .inl r => StepPost t W L lo n0 m.c.state r
  | .inr m' => MInvC W L lo n0 ch false m' ∧ m'.c = m.c

theorem runSeqArms_post (hs : SinkSafe env.ops W inp U1) (hw : Wf env.tbl) {sd : StateDef} {n0 : Nat}
    (ch : Option UInt8) (arms : List Arm) (m : M κ) (hst : env.tbl.state? m.c.state = some sd)
    (hsub : ∀ a ∈ arms, a ∈ sd.arms) (hent : (sd.enter.isEmpty || m.c.entered) = true)
    (hm : MInvC W inp.length lo n0 ch (hasSeqArm arms) m) :
    SeqArmsPost env.tbl W inp.length lo n0 ch m (runSeqArms env inp ch arms m) := by
  induction arms generalizing m with
  | nil =>
    simp only [runSeqArms, SeqArmsPost]
    exact ⟨hm, by first | rfl | trivial⟩
  | cons arm rest ih =>
    have harm : arm ∈ sd.arms := hsub arm (by simp)
    have hsub' : ∀ a ∈ rest, a ∈ sd.arms := fun a ha => hsub a (by simp [ha])
    simp only [runSeqArms]
    split
    · -- a sequence arm
      rename_i bytes ic hpat
      have hseqarm : hasSeqArm sd.arms = true := hasSeqArm_of_mem harm (by rw [hpat]; rfl)
      have hcont : SeqArmsPost env.tbl W inp.length lo n0 ch m
          (runSeqArms env inp ch rest (leaveSeq (enterSeq m))) := by
        have hc : (leaveSeq (enterSeq m)).c = m.c := by rw [(leaveSeq_c _).1, (enterSeq_c _).1]
        have := ih (leaveSeq (enterSeq m)) (by rw [hc]; exact hst) hsub' (by rw [hc]; exact hent)
          (leave_enter_MInvC m hm)
        cases hres : runSeqArms env inp ch rest (leaveSeq (enterSeq m)) with
        | inl r => rw [hres] at this; simp only [SeqArmsPost] at this ⊢; rw [hc] at this; exact this
        | inr m' => rw [hres] at this; simp only [SeqArmsPost] at this ⊢; rw [hc] at this; exact this
      split
      · exact hcont
      · rename_i e0 es
        split
        · -- need more input: break
          simp only [SeqArmsPost]
          rw [show m.c.state = (enterSeq m).c.state by rw [(enterSeq_c m).1]]
          apply break_step
          obtain ⟨a1, a2, a3, a4, a5, a6, a7⟩ := hm
          cases m with
          | mk c r x =>
          cases r with
          | lexer l => exact ⟨a1, a4, sd, hst, a7⟩
          | scanner s =>
            refine ⟨a1, a4, sd, hst, ?_⟩
            simp only [RegsC, enterSeq] at a7 ⊢
            refine ⟨a7.1, fun p hp => ⟨(a7.2.1 p hp).1, (a7.2.1 p hp).2.2⟩, Or.inl ⟨rfl, ?_⟩⟩
            simp only [seqResume, Bool.and_eq_true]
            exact ⟨hseqarm, hent⟩
        · exact hcont
        · -- matched: consume the rest of the sequence and run the body
          rename_i hfirst
          simp only [SeqArmsPost]
          obtain ⟨a1, a2, a3, a4, a5, a6, a7⟩ := hm
          -- the match implies a consumed byte and that the whole sequence is inside the input
          have hmatch : ch.isSome = true ∧ (es ≠ [] → (enterSeq m).c.nextPos + es.length - 1 < inp.length) := by
            cases ch with
            | none => dsimp only at hfirst; split at hfirst <;> cases hfirst
            | some c0 =>
              refine ⟨rfl, fun hne => ?_⟩
              dsimp only at hfirst
              split at hfirst
              · have := matchSeqFrom_matched es 1 hfirst hne
                omega
              · cases hfirst
          have hpos := a5 hmatch.1
          have hc := (enterSeq_c m).1
          have hx := (enterSeq_c m).2
          have hbody := hw.body_ok hst harm
          rw [hpat] at hbody
          have hA : MInvA W inp.length lo true true
              (leaveSeq { enterSeq m with c := { (enterSeq m).c with nextPos := (enterSeq m).c.nextPos + es.length } }) := by
            have hN : (leaveSeq { enterSeq m with c := { (enterSeq m).c with nextPos := (enterSeq m).c.nextPos + es.length } }).c.nextPos
                = m.c.nextPos + es.length := by rw [(leaveSeq_c _).1, hc]
            have hX : (leaveSeq { enterSeq m with c := { (enterSeq m).c with nextPos := (enterSeq m).c.nextPos + es.length } }).x = m.x := by
              rw [(leaveSeq_c _).2, hx]
            have hlt : m.c.nextPos + es.length - 1 < inp.length := by
              cases es with
              | nil => simpa using hpos
              | cons e' es' => have := hmatch.2 (by simp); rw [hc] at this; exact this
            refine ⟨by rw [hN]; omega, by rw [hN]; omega, by rw [hN]; omega, fun _ => by rw [hN]; exact hlt, ?_⟩
            rw [hN, hX]
            cases m with
            | mk c r x =>
            cases r with
            | lexer l =>
              simp only [RegsC, RegsA, enterSeq, leaveSeq] at a7 ⊢
              dsimp only at a1 a2
              refine ⟨a7.1, by omega, fun _ => by omega⟩
            | scanner s =>
              simp only [RegsC, RegsA, enterSeq, leaveSeq] at a7 ⊢
              dsimp only at a1 a2
              refine ⟨by omega, fun p hp => ?_, trivial⟩
              have := a7.2.1 p hp
              omega
          have hstate : (leaveSeq { enterSeq m with c := { (enterSeq m).c with nextPos := (enterSeq m).c.nextPos + es.length } }).c.state
              = m.c.state := by rw [(leaveSeq_c _).1, hc]
          have := armBody_step (n0 := n0) hs hw arm.body _ (by rw [hstate]; exact hst) hA
            (by rw [hstate]; exact hbody) (by rw [(leaveSeq_c _).1, hc]; dsimp only; omega)
          rw [hstate] at this
          exact this
    · -- not a sequence arm
      rename_i hnot
      apply ih m hst hsub' hent
      have : hasSeqArm (arm :: rest) = hasSeqArm rest := by
        simp only [hasSeqArm, List.any_cons]
        have : arm.pat.isChSeq = false := by
          cases hp : arm.pat <;> first | rfl | exact absurd hp (hnot _ _)
        rw [this, Bool.false_or]
      rw [this] at hm
      exact hm

/-! ### ordinary arms -/

theorem findArm_some {tbl : Table} {c : Common} {ch : Option UInt8} {arms : List Arm} {a : Arm}
    (h : findArm tbl c ch arms = some a) : a ∈ arms ∧ patMatches tbl c ch a.pat = true := by
  induction arms with
  | nil => cases h
  | cons x rest ih =>
    simp only [findArm] at h
    split at h
    · rename_i hx
      simp only [Option.some.injEq] at h
      subst h
      exact ⟨by simp, hx⟩
    · obtain ⟨h1, h2⟩ := ih h
      exact ⟨by simp [h1], h2⟩

theorem findArm_none {tbl : Table} {c : Common} {ch : Option UInt8} {arms : List Arm}
    (h : findArm tbl c ch arms = none) : ∀ a ∈ arms, patMatches tbl c ch a.pat = false := by
  induction arms with
  | nil => intro a ha; cases ha
  | cons x rest ih =>
    simp only [findArm] at h
    split at h
    · cases h
    · rename_i hx
      intro a ha
      simp only [List.mem_cons] at ha
      rcases ha with rfl | ha
      · simpa using hx
      · exact ih h a ha

theorem findArm_exhaustive {tbl : Table} {c : Common} {ch : Option UInt8} {sd : StateDef}
    (hex : stateExhaustive sd = true) : findArm tbl c ch sd.arms ≠ none := by
  intro h
  have hn := findArm_none h
  unfold stateExhaustive at hex
  simp only [Bool.and_eq_true, List.any_eq_true, beq_iff_eq] at hex
  obtain ⟨⟨a1, ha1, hp1⟩, ⟨a2, ha2, hp2⟩⟩ := hex
  cases ch with
  | some x => have := hn a1 ha1; rw [hp1] at this; simp [patMatches] at this
  | none => have := hn a2 ha2; rw [hp2] at this; simp [patMatches] at this

theorem patMatches_some {tbl : Table} {c : Common} {ch : Option UInt8} {p : Pat}
    (h : patMatches tbl c ch p = true) (hb : p.hasByte = true) : ch.isSome = true := by
  cases ch with
  | some x => rfl
  | none => cases p <;> simp [patMatches, Pat.hasByte] at h hb

theorem patMatches_none {tbl : Table} {c : Common} {ch : Option UInt8} {p : Pat}
    (h : patMatches tbl c ch p = true) (hb : p.hasByte = false) : ch = none := by
  cases ch with
  | none => rfl
  | some x => cases p <;> simp [patMatches, Pat.hasByte] at h hb

theorem BreakPre_of_C {t : Table} {n0 : Nat} (m : M κ) {sd : StateDef} (hst : t.state? m.c.state = some sd)
    (hm : MInvC W inp.length lo n0 none false m) : BreakPre t W inp.length m := by
  obtain ⟨a1, a2, a3, a4, a5, a6, a7⟩ := hm
  refine ⟨a1, a4, sd, hst, ?_⟩
  cases hr : m.r with
  | lexer l => rw [hr] at a7; exact a7
  | scanner s =>
    rw [hr] at a7
    simp only [RegsC] at a7
    dsimp only
    refine ⟨a7.1, fun p hp => ⟨(a7.2.1 p hp).1, (a7.2.1 p hp).2.2⟩, Or.inr ⟨?_, a6 rfl⟩⟩
    rcases a7.2.2 with h | h
    · exact h
    · cases h

theorem dispatch_post (hs : SinkSafe env.ops W inp U1) (hw : Wf env.tbl) {sd : StateDef} {n0 : Nat}
    (ch : Option UInt8) (m : M κ) (hst : env.tbl.state? m.c.state = some sd)
    (hent : (sd.enter.isEmpty || m.c.entered) = true)
    (hm : MInvC W inp.length lo n0 ch (hasSeqArm sd.arms) m) :
    StepPost env.tbl W inp.length lo n0 m.c.state (dispatch env inp ch sd.arms m) := by
  have h1 := runSeqArms_post hs hw ch sd.arms m hst (fun _ h => h) hent hm
  unfold dispatch
  split
  · rename_i r hr
    rw [hr] at h1
    exact h1
  · rename_i m' hr
    rw [hr] at h1
    obtain ⟨hC, hc⟩ := h1
    have hst' : env.tbl.state? m'.c.state = some sd := by rw [hc]; exact hst
    have hn0 : n0 ≤ m'.c.nextPos - 1 := hC.2.2.1
    rw [← hc]
    split
    · rename_i hnone
      exact absurd hnone (findArm_exhaustive (hw.state_exhaustive hst))
    · rename_i arm hfind
      obtain ⟨harm, hpm⟩ := findArm_some hfind
      have hbody := hw.body_ok hst' harm
      split
      · -- eoc
        rename_i hpat
        rw [hpat] at hpm hbody
        have hch := patMatches_none hpm rfl
        subst hch
        exact armBody_break hs hw arm.body m' hst' (MInvA_of_C m' hC (fun h => by cases h)) (hC.2.2.2.2.2.1 rfl)
          hbody hn0
      · -- eof
        rename_i hpat
        rw [hpat] at hpm hbody
        have hch := patMatches_none hpm rfl
        subst hch
        split
        · exact armBody_break hs hw arm.body m' hst' (MInvA_of_C m' hC (fun h => by cases h)) (hC.2.2.2.2.2.1 rfl)
            hbody hn0
        · exact break_step m' (BreakPre_of_C m' hst' hC)
      · -- an arm that consumed a byte
        rename_i hne1 hne2
        have hhb : arm.pat.hasByte = true := by
          cases hp : arm.pat <;> first | rfl | exact absurd hp hne1 | exact absurd hp hne2
        rw [hhb] at hbody
        have hsome := patMatches_some hpm hhb
        exact armBody_step hs hw arm.body m' hst' (MInvA_of_C m' hC (fun _ => hsome)) hbody hn0

/-! ### the state function -/

/-- the enter actions, run once (first half of `stateFn`) -/
def enterPhase (env : Env κ) (inp : Bytes) (sd : StateDef) (m : M κ) : StepRes κ :=
  if !sd.enter.isEmpty && !m.c.entered then
    let m1 := { m with c := { m.c with nextPos := m.c.nextPos + 1 } }
    let r := runCalls env inp sd.enter m1
    match r.2 with
    | some sig => (r.1, some sig)
    | none =>
      let m2 := r.1
      ({ m2 with c := { m2.c with nextPos := m2.c.nextPos - 1, entered := true } }, none)
  else (m, none)

/-- the consume and the arms (second half of `stateFn`) -/
def consumePhase (env : Env κ) (inp : Bytes) (sd : StateDef) (m : M κ) : StepRes κ :=
  match sd.memchr with
  | some needle =>
    let rest := inp.drop m.c.nextPos
    match findByte needle rest with
    | some p =>
      dispatch env inp (some needle) sd.arms { m with c := { m.c with nextPos := m.c.nextPos + 1 + p } }
    | none =>
      dispatch env inp none sd.arms { m with c := { m.c with nextPos := m.c.nextPos + 1 + rest.length } }
  | none =>
    let ch := inp[m.c.nextPos]?
    dispatch env inp ch sd.arms { m with c := { m.c with nextPos := m.c.nextPos + 1 } }

theorem stateFn_eq (m : M κ) :
    stateFn env inp m =
      match env.tbl.state? m.c.state with
      | none => (m, some (.err (.panic "unknown state")))
      | some sd =>
        match (enterPhase env inp sd m).2 with
        | some sig => ((enterPhase env inp sd m).1, some sig)
        | none => consumePhase env inp sd (enterPhase env inp sd m).1 := by
  unfold stateFn enterPhase consumePhase
  rfl

theorem flagCalls_quiet (hb : Bool) (cs : List Call) (h : ∀ c ∈ cs, c.act.isQuiet = true) :
    flagCalls hb cs true = some true := by
  induction cs with
  | nil => rfl
  | cons c cs ih =>
    have hc := h c (by simp)
    simp only [ActName.isQuiet, Bool.not_eq_true', Bool.or_eq_false_iff] at hc
    simp only [flagCalls, flagStep, hc.1.1.1, hc.1.1.2, Bool.false_eq_true, if_false]
    exact ih (fun c' h' => h c' (by simp [h']))

theorem enterPhase_post (hs : SinkSafe env.ops W inp U1) (hw : Wf env.tbl) {sd : StateDef} (m : M κ)
    (hst : env.tbl.state? m.c.state = some sd) (hm : MInvB env.tbl inp.length (W m.x.sink) lo m) :
    (∀ sig, (enterPhase env inp sd m).2 = some sig → ActSigOK U1 W inp.length lo (enterPhase env inp sd m).1 sig) ∧
    ((enterPhase env inp sd m).2 = none →
      MInvB env.tbl inp.length (W (enterPhase env inp sd m).1.x.sink) lo (enterPhase env inp sd m).1 ∧
      (enterPhase env inp sd m).1.c.nextPos = m.c.nextPos ∧ (enterPhase env inp sd m).1.c.state = m.c.state ∧
      (sd.enter.isEmpty || (enterPhase env inp sd m).1.c.entered) = true) := by
  obtain ⟨b1, b2, sd', hsd', b3⟩ := hm
  rw [hst] at hsd'
  simp only [Option.some.injEq] at hsd'
  subst hsd'
  unfold enterPhase
  split
  · rename_i hcond
    simp only [Bool.and_eq_true, Bool.not_eq_true'] at hcond
    -- no stale sequence start: the enter actions have not run yet
    have hres : seqResume sd m.c = false := by
      simp only [seqResume, hcond.1, hcond.2, Bool.or_false, Bool.and_false]
    rw [hres] at b3
    have hA : MInvA W inp.length lo false true { m with c := { m.c with nextPos := m.c.nextPos + 1 } } := by
      refine ⟨by dsimp only; omega, by dsimp only; omega, by dsimp only; omega, fun h => (by cases h), ?_⟩
      dsimp only
      cases hr : m.r with
      | lexer l => rw [hr] at b3; simp only [RegsB, RegsA] at b3 ⊢; refine ⟨b3.1, by omega, fun _ => by omega⟩
      | scanner s =>
        rw [hr] at b3
        simp only [RegsB, RegsA] at b3 ⊢
        refine ⟨by omega, fun p hp => by have := b3.2.1 p hp; omega, ?_⟩
        rcases b3.2.2 with h | h
        · exact h
        · cases h
    have h1 := runCalls_post hs sd.enter _ hA (flagCalls_quiet false sd.enter (hw.enter_quiet hst))
    dsimp only
    split
    · rename_i sig hsig
      exact ⟨fun sg h => by simp only [Option.some.injEq] at h; subst h; exact h1.2.2 _ hsig, fun h => by cases h⟩
    · rename_i hnone
      refine ⟨fun sg h => (by cases h), fun _ => ?_⟩
      obtain ⟨a1, a2, a3, a4, a5⟩ := h1.2.1 hnone
      obtain ⟨f1, f2, f3⟩ := h1.1
      dsimp only at f1 f2 f3
      refine ⟨⟨by dsimp only; omega, by dsimp only; omega, sd, by dsimp only; rw [f2]; exact hst, ?_⟩,
        by dsimp only; omega, f2, by simp⟩
      dsimp only
      have := RegsB_of_A_back (b := seqResume sd { (runCalls env inp sd.enter { m with c := { m.c with nextPos := m.c.nextPos + 1 } }).1.c with
        nextPos := (runCalls env inp sd.enter { m with c := { m.c with nextPos := m.c.nextPos + 1 } }).1.c.nextPos - 1, entered := true }) a5
      exact this
  · rename_i hcond
    refine ⟨fun sg h => (by cases h), fun _ => ⟨⟨b1, b2, sd, hst, b3⟩, rfl, rfl, ?_⟩⟩
    simp only [Bool.and_eq_true, Bool.not_eq_true', not_and, Bool.not_eq_false] at hcond
    cases he : sd.enter.isEmpty
    · simpa using hcond (by simpa using he)
    · rfl

theorem findByte_lt {needle : UInt8} {l : List UInt8} {p : Nat} (h : findByte needle l = some p) : p < l.length := by
  induction l generalizing p with
  | nil => cases h
  | cons b bs ih =>
    simp only [findByte] at h
    split at h
    · simp only [Option.some.injEq] at h; subst h; simp
    · cases hf : findByte needle bs with
      | none => rw [hf] at h; cases h
      | some q =>
        rw [hf] at h
        simp only [Option.map_some, Option.some.injEq] at h
        subst h
        have := ih hf
        simp only [List.length_cons]
        omega

theorem consumePhase_post (hs : SinkSafe env.ops W inp U1) (hw : Wf env.tbl) {sd : StateDef} (m : M κ)
    (hst : env.tbl.state? m.c.state = some sd) (hm : MInvB env.tbl inp.length (W m.x.sink) lo m)
    (hent : (sd.enter.isEmpty || m.c.entered) = true) :
    StepPost env.tbl W inp.length lo m.c.nextPos m.c.state (consumePhase env inp sd m) := by
  obtain ⟨b1, b2, sd', hsd', b3⟩ := hm
  rw [hst] at hsd'
  simp only [Option.some.injEq] at hsd'
  subst hsd'
  -- the post-consume invariant at any cursor beyond the old one
  have hC : ∀ (N' : Nat) (ch : Option UInt8), m.c.nextPos + 1 ≤ N' → N' - 1 ≤ inp.length →
      (ch.isSome = true → N' - 1 < inp.length) → (ch = none → N' - 1 = inp.length) →
      MInvC W inp.length lo m.c.nextPos ch (hasSeqArm sd.arms) { m with c := { m.c with nextPos := N' } } := by
    intro N' ch h1 h2 h3 h4
    refine ⟨by dsimp only; omega, by dsimp only; omega, by dsimp only; omega, h2, h3, h4, ?_⟩
    dsimp only
    cases hr : m.r with
    | lexer l => rw [hr] at b3; simp only [RegsB, RegsC] at b3 ⊢; omega
    | scanner s =>
      rw [hr] at b3
      simp only [RegsB, RegsC] at b3 ⊢
      refine ⟨by omega, fun p hp => by have := b3.2.1 p hp; omega, ?_⟩
      rcases b3.2.2 with h | h
      · exact Or.inl h
      · right
        simp only [seqResume, Bool.and_eq_true] at h
        exact h.1
  unfold consumePhase
  split
  · rename_i needle _
    dsimp only
    split
    · rename_i p hp
      have hlt := findByte_lt hp
      simp only [List.length_drop] at hlt
      exact dispatch_post (n0 := m.c.nextPos) hs hw (some needle) _ hst hent
        (hC _ _ (by omega) (by omega) (fun _ => by omega) (fun h => by cases h))
    · simp only [List.length_drop]
      exact dispatch_post (n0 := m.c.nextPos) hs hw none _ hst hent
        (hC _ _ (by omega) (by omega) (fun h => by cases h) (fun _ => by omega))
  · dsimp only
    cases hch : inp[m.c.nextPos]? with
    | some x =>
      have hlt : m.c.nextPos < inp.length := by
        rcases Nat.lt_or_ge m.c.nextPos inp.length with h | h
        · exact h
        · rw [List.getElem?_eq_none h] at hch; cases hch
      exact dispatch_post (n0 := m.c.nextPos) hs hw (some x) _ hst hent
        (hC _ _ (by omega) (by omega) (fun _ => by omega) (fun h => by cases h))
    | none =>
      have hge : inp.length ≤ m.c.nextPos := by
        rcases Nat.lt_or_ge m.c.nextPos inp.length with h | h
        · rw [List.getElem?_eq_getElem h] at hch; cases hch
        · exact h
      exact dispatch_post (n0 := m.c.nextPos) hs hw none _ hst hent
        (hC _ _ (by omega) (by omega) (fun h => by cases h) (fun _ => by omega))

/-- **One invocation of a state function.** -/
theorem stateFn_post (hs : SinkSafe env.ops W inp U1) (hw : Wf env.tbl) (m : M κ)
    (hm : MInvB env.tbl inp.length (W m.x.sink) lo m) :
    StepPost env.tbl W inp.length lo m.c.nextPos m.c.state (stateFn env inp m) := by
  rw [stateFn_eq]
  have hm' := hm
  obtain ⟨_, _, sd, hst, _⟩ := hm'
  rw [hst]
  dsimp only
  obtain ⟨e1, e2⟩ := enterPhase_post hs hw m hst hm
  split
  · rename_i sig hsig
    unfold StepPost
    exact SigOK_of_act (e1 sig hsig)
  · rename_i hnone
    obtain ⟨i1, i2, i3, i4⟩ := e2 hnone
    have := consumePhase_post hs hw (enterPhase env inp sd m).1 (by rw [i3]; exact hst) i1 i4
    rw [i2, i3] at this
    exact this

/-! ### the parsing loop never runs out of fuel -/

/-- the measure: `(maxRank+1) · (bytes left) + rank` -/
def mu (t : Table) (L : Nat) (m : M κ) : Nat := (maxRank + 1) * (L - m.c.nextPos) + t.rank m.c.state

theorem mu_lt_defaultFuel (t : Table) (hw : Wf t) (m : M κ) : mu t inp.length m < defaultFuel inp := by
  unfold mu defaultFuel
  have := hw.rank_le m.c.state
  have h2 : (maxRank + 1) * (inp.length - m.c.nextPos) ≤ (maxRank + 1) * inp.length :=
    Nat.mul_le_mul_left _ (Nat.sub_le _ _)
  simp only [maxRank] at *
  omega

theorem mu_decrease {t : Table} (hw : Wf t) {L : Nat} {m m' : M κ} (h1 : m'.c.nextPos ≤ L)
    (hp : Prog t m.c.nextPos m.c.state m') : mu t L m' < mu t L m := by
  unfold mu
  have r1 := hw.rank_le m'.c.state
  have r2 := hw.rank_le m.c.state
  simp only [maxRank] at *
  rcases hp with h | ⟨h, hr⟩
  · have : (7 + 1) * (L - m'.c.nextPos) + 8 ≤ (7 + 1) * (L - m.c.nextPos) := by
      have : L - m'.c.nextPos + 1 ≤ L - m.c.nextPos := by omega
      calc (7 + 1) * (L - m'.c.nextPos) + 8 = (7 + 1) * (L - m'.c.nextPos + 1) := by omega
        _ ≤ (7 + 1) * (L - m.c.nextPos) := Nat.mul_le_mul_left _ this
    omega
  · have : (7 + 1) * (L - m'.c.nextPos) ≤ (7 + 1) * (L - m.c.nextPos) :=
      Nat.mul_le_mul_left _ (by omega)
    omega

/-- **The parsing loop**: with fuel above the measure, it ends with a good signal (never "out of fuel"). -/
theorem runLoop_post (hs : SinkSafe env.ops W inp U1) (hw : Wf env.tbl) (fuel : Nat) (m : M κ)
    (hm : MInvB env.tbl inp.length (W m.x.sink) lo m) (hfuel : mu env.tbl inp.length m < fuel) :
    SigOK U1 env.tbl W inp.length lo (runLoop env inp fuel m).1 (runLoop env inp fuel m).2 := by
  induction fuel generalizing m with
  | zero => omega
  | succ n ih =>
    simp only [runLoop]
    have h1 := stateFn_post hs hw m hm
    unfold StepPost at h1
    split
    · rename_i sig hsig
      rw [hsig] at h1
      exact h1
    · rename_i hnone
      rw [hnone] at h1
      obtain ⟨hB, hP⟩ := h1
      have := mu_decrease hw hB.2.1 hP
      exact ih _ hB (by omega)

end
end LolHtml.Model
