import LolHtml.Lemmas.ChunkBreak
/-!
One invocation of a state function in the two runs: lock-step, or the split run breaks at the end of
its input while the whole run has not moved.
-/
namespace LolHtml.Model.Chunk
open LolHtml LolHtml.Model

variable {κ : Type}

section
variable {env : Env κ} {inpS inpW : Bytes} {δ : Nat} {K : Nat → κ → κ → Prop} {Loc : κ → Nat → Nat → TextType → Prop}

/-- what `break_on_end_of_input` leaves of the split machine, against the whole machine `mw0` that has
not consumed anything in this step -/
structure BreakRel (δ' d skip : Nat) (ab : Ab) (sm : SeqMode) (ms' mw0 : M κ) : Prop where
  c : CRel δ' skip ms'.c mw0.c
  r : RegsRel δ' d ab sm ms'.c.nextPos ms'.r mw0.r
  sim : mw0.x.sim = ms'.x.sim

theorem breakOnEndOfInput_eq (inp : Bytes) (m : M κ) (hl : m.c.isLast = false) :
    breakOnEndOfInput inp m =
      if (adjustForNextInput m).c.nextPos = 0 ∨ (adjustForNextInput m).c.nextPos - 1 < consumedByteCount inp m then
        (adjustForNextInput m, some (.err (.panic "break_on_end_of_input: pos - consumed_byte_count underflow")))
      else
        ({ adjustForNextInput m with c := { (adjustForNextInput m).c with
            nextPos := (adjustForNextInput m).c.nextPos - 1 - consumedByteCount inp m } },
          some (.endOfInput (consumedByteCount inp m))) := by
  unfold breakOnEndOfInput
  simp only [hl, Bool.false_eq_true, if_false]

theorem adjust_c (m : M κ) : (adjustForNextInput m).c = m.c := by
  unfold adjustForNextInput; (repeat' split) <;> rfl

theorem adjust_x (m : M κ) : (adjustForNextInput m).x = m.x := by
  unfold adjustForNextInput; (repeat' split) <;> rfl

def chSeqOf : Regs → Option Nat
  | .scanner s => s.chSeqStart
  | .lexer _ => none

/-- two register files that agree except for `ch_sequence_matching_start` -/
theorem regs_mod_seq {m0 m : M κ} (h : (leaveSeq m0).r = (leaveSeq m).r) :
    (∃ l, m0.r = .lexer l ∧ m.r = .lexer l) ∨
    (∃ s0 s, m0.r = .scanner s0 ∧ m.r = .scanner s ∧
      s0.tagStart = s.tagStart ∧ s0.tagNameStart = s.tagNameStart ∧ s0.isInEndTag = s.isInEndTag ∧
      s0.tagNameHash = s.tagNameHash ∧ s0.pendingTextTypeChange = s.pendingTextTypeChange) := by
  obtain ⟨c0, r0, x0⟩ := m0
  obtain ⟨c, r, x⟩ := m
  cases r0 with
  | lexer l0 =>
    cases r with
    | lexer l => left; simp only [leaveSeq] at h; cases h; exact ⟨l0, rfl, rfl⟩
    | scanner s => simp only [leaveSeq] at h; cases h
  | scanner s0 =>
    cases r with
    | lexer l => simp only [leaveSeq] at h; cases h
    | scanner s =>
      right
      simp only [leaveSeq, Regs.scanner.injEq, ScanRegs.mk.injEq] at h
      exact ⟨s0, s, rfl, rfl, h.1, h.2.2.1, h.2.2.2.1, h.2.2.2.2.1, h.2.2.2.2.2⟩

theorem breakOnEndOfInput_isLast (inp : Bytes) (m : M κ) : (breakOnEndOfInput inp m).1.c.isLast = m.c.isLast := by
  unfold breakOnEndOfInput
  have h : (if m.c.isLast = true then m else adjustForNextInput m).c = m.c := by
    split
    · rfl
    · exact adjust_c m
  simp only [h]
  split <;> simp [h]

/-- **The split run breaks, the whole run has not moved.** `sm'`: the mode claimed afterwards. -/
theorem break_split {d : Nat} {ab : Ab} {sm : SeqMode} {ms mw mw0 : M κ} (h : MRel δ d 0 ab sm ms mw)
    (hP : ab.P = true) (hl : ms.c.isLast = false) (hSn : ab.Sn = true → ab.St = true) (hsm : sm ≠ .stale)
    (npw0 : Nat) (hnp : npw0 ≤ ms.c.nextPos - 1 + δ)
    (hc0 : mw0.c = { mw.c with nextPos := npw0 }) (hx0 : mw0.x = mw.x) (hr0 : (leaveSeq mw0).r = (leaveSeq mw).r)
    (sm' : SeqMode) (hout : sm' = .stale ∨ (sm' = .none ∧ chSeqOf ms.r = none ∧ chSeqOf mw0.r = none)) :
    SPanic (breakOnEndOfInput inpS ms).2 ∨
    ∃ c, (breakOnEndOfInput inpS ms).2 = some (.endOfInput c) ∧
      BreakRel (δ + c) d (ms.c.nextPos - 1 + δ - npw0) ab.boundary sm' (breakOnEndOfInput inpS ms).1 mw0 ∧
      (breakOnEndOfInput inpS ms).1.x = ms.x ∧ (breakOnEndOfInput inpS ms).1.c.state = ms.c.state ∧
      (breakOnEndOfInput inpS ms).1.c.entered = ms.c.entered ∧ c + 1 ≤ ms.c.nextPos := by
  obtain ⟨hc, hr, hsim, hpc⟩ := h
  rw [breakOnEndOfInput_eq inpS ms hl, adjust_c]
  by_cases hu : ms.c.nextPos = 0 ∨ ms.c.nextPos - 1 < consumedByteCount inpS ms
  · rw [if_pos hu]; exact Or.inl trivial
  · rw [if_neg hu]
    right
    have hu1 : ms.c.nextPos ≠ 0 := fun h => hu (Or.inl h)
    have hu2 : consumedByteCount inpS ms ≤ ms.c.nextPos - 1 := by
      have := fun h => hu (Or.inr h); omega
    refine ⟨_, rfl, ?_, by simp only [adjust_x], rfl, rfl, by omega⟩
    have hcrel : CRel (δ + consumedByteCount inpS ms) (ms.c.nextPos - 1 + δ - npw0)
        { ms.c with nextPos := ms.c.nextPos - 1 - consumedByteCount inpS ms } mw0.c := by
      rw [hc0]
      have hnp' : npw0 + (ms.c.nextPos - 1 + δ - npw0) = ms.c.nextPos - 1 - consumedByteCount inpS ms + (δ + consumedByteCount inpS ms) := by
        omega
      exact { hc with nextPos := hnp' }
    refine ⟨hcrel, ?_, by rw [hx0, adjust_x]; exact hsim⟩
    rcases regs_mod_seq hr0 with ⟨lw, hw0, hrw⟩ | ⟨sw0, sw, hw0, hrw, e1, e2, e3, e4, e5⟩
    · rw [hw0]
      cases hrs : ms.r with
      | scanner ss => rw [hrs, hrw] at hr; exact hr.elim
      | lexer ls =>
        rw [hrs, hrw] at hr
        have hl' : LexRel δ d ab ms.c.nextPos ls lw := hr
        have hcons : consumedByteCount inpS ms = ls.lexemeStart := by simp only [consumedByteCount, hrs]
        have hadj : (adjustForNextInput ms).r = .lexer
            { ls with tokenPartStart := alignNat ls.tokenPartStart ls.lexemeStart
                      curTag := ls.curTag.map (·.align ls.lexemeStart)
                      curNonTag := ls.curNonTag.map (·.align ls.lexemeStart)
                      curAttr := ls.curAttr.map (·.align ls.lexemeStart)
                      lexemeStart := 0 } := by
          simp only [adjustForNextInput, hrs]
        simp only [hadj, hcons]
        refine (hl'.weaken (ab' := ab.boundary) (by rw [Ab.le_iff]; simp [Ab.boundary])).alignS rfl (fun g n hn => ?_)
        have hnp1 : ms.c.nextPos - 1 - ls.lexemeStart + ls.lexemeStart = ms.c.nextPos - 1 := by
          rw [hcons] at hu2; omega
        rw [hnp1]
        exact hl'.ntp g hP n hn
    · rw [hw0]
      cases hrs : ms.r with
      | lexer ls => rw [hrs, hrw] at hr; exact hr.elim
      | scanner ss =>
        rw [hrs, hrw] at hr
        obtain ⟨hd0, hs, hq⟩ := hr
        have hp := hs.p hP
        -- `ss` against `sw0`
        have hs0 : ScanRel δ ab ms.c.nextPos ss sw0 :=
          ⟨by rw [e1]; exact hs.ts, hs.ts_le, hs.p, hs.st, fun g => by rw [e2]; exact hs.tns g, by rw [e3]; exact hs.endTag,
            by rw [e4]; exact hs.hash, by rw [e5]; exact hs.pend⟩
        have hseq : ∀ a, chSeqOf (Regs.scanner ss) = a → SeqRel (δ + consumedByteCount inpS ms)
            (ms.c.nextPos - 1 - consumedByteCount inpS ms) sm' a sw0.chSeqStart := by
          intro a ha
          rcases hout with h | ⟨h, h1, h2⟩
          · rw [h]; trivial
          · rw [h]
            rw [hrs] at h1; rw [hw0] at h2
            exact ⟨by rw [← ha]; exact h1, h2⟩
        cases hts : ss.tagStart with
        | some ts =>
          obtain ⟨tw, htw, htrel⟩ := optRel_some_l hs0.ts hts
          have htsle := hp.2 ts hts
          have hcons : consumedByteCount inpS ms = ts := by
            simp only [consumedByteCount, hrs, hts]
            cases hq' : ss.chSeqStart with
            | none => rfl
            | some b =>
              simp only
              cases sm with
              | none => rw [hq'] at hq; cases hq.1
              | stale => exact absurd rfl hsm
              | inSeq =>
                obtain ⟨p, hp1, _, hp3⟩ := hq
                rw [hq'] at hp1; cases hp1
                omega
          have hadj : (adjustForNextInput ms).r = .scanner
              { ss with tagNameStart := alignNat ss.tagNameStart ts, tagStart := some 0 } := by
            simp only [adjustForNextInput, hrs, hts]
          rw [hadj]
          refine ⟨hd0, ⟨?_, ?_, (fun g => by cases g), fun _ => rfl, fun g => ?_, hs0.endTag, hs0.hash, hs0.pend⟩, ?_⟩
          · show OptRel _ (some 0) sw0.tagStart
            rw [htw, htrel, hcons]; show ts + δ = 0 + (δ + ts); omega
          · intro t ht; simp only [Option.some.injEq] at ht; omega
          · obtain ⟨a, b⟩ := hs0.tns g
            have := b ts hts
            simp only
            rw [alignNat_ge this, hcons]
            exact ⟨by omega, fun t ht => by simp only [Option.some.injEq] at ht; omega⟩
          · exact hseq _ rfl
        | none =>
          have htw := optRel_none_l hs0.ts hts
          have hadj : (adjustForNextInput ms).r = .scanner ss := by
            simp only [adjustForNextInput, hrs, hts]
          rw [hadj]
          refine ⟨hd0, ⟨?_, ?_, (fun g => by cases g), fun g => ?_, fun g => ?_, hs0.endTag, hs0.hash, hs0.pend⟩, ?_⟩
          · rw [hts, htw]; trivial
          · intro t ht; rw [hts] at ht; cases ht
          · have := hs0.st g; rw [hts] at this; cases this
          · have := hs0.st (hSn g); rw [hts] at this; cases this
          · exact hseq _ rfl

/-! ### sequence arms -/

theorem ScanRel.setSeq {np : Nat} {ab : Ab} {ss sw : ScanRegs} (h : ScanRel δ ab np ss sw) (a b : Option Nat) :
    ScanRel δ ab np { ss with chSeqStart := a } { sw with chSeqStart := b } :=
  ⟨h.ts, h.ts_le, h.p, h.st, h.tns, h.endTag, h.hash, h.pend⟩

theorem enterSeq_sim {d : Nat} {ab : Ab} {sm : SeqMode} {ms mw : M κ} (h : MRel δ d 0 ab sm ms mw) (hP : ab.P = true) :
    MRel δ d 0 ab .inSeq (enterSeq ms) (enterSeq mw) ∧ (enterSeq ms).c = ms.c ∧ (enterSeq ms).x = ms.x ∧
    (enterSeq mw).c = mw.c ∧ (enterSeq mw).x = mw.x := by
  obtain ⟨hc, hr, hsim, hpc⟩ := h
  unfold enterSeq
  cases hrs : ms.r with
  | lexer ls =>
    cases hrw : mw.r with
    | scanner sw => rw [hrs, hrw] at hr; exact hr.elim
    | lexer lw =>
      refine ⟨⟨hc, ?_, hsim, hpc⟩, rfl, rfl, rfl, rfl⟩
      rw [hrs, hrw] at hr ⊢; exact hr
  | scanner ss =>
    cases hrw : mw.r with
    | lexer lw => rw [hrs, hrw] at hr; exact hr.elim
    | scanner sw =>
      rw [hrs, hrw] at hr
      obtain ⟨hd0, hs, _⟩ := hr
      have hp := (hs.p hP).1
      dsimp only
      refine ⟨⟨hc, ⟨hd0, hs.setSeq _ _, ms.c.pos, rfl, ?_, by show ms.c.pos + 1 = ms.c.nextPos; unfold Common.pos; omega⟩, hsim, hpc⟩, rfl, rfl, rfl, rfl⟩
      rw [hc.pos hp]

theorem leaveSeq_sim {d : Nat} {ab : Ab} {sm : SeqMode} {ms mw : M κ} (h : MRel δ d 0 ab sm ms mw) :
    MRel δ d 0 ab .none (leaveSeq ms) (leaveSeq mw) ∧ (leaveSeq ms).c = ms.c ∧ (leaveSeq ms).x = ms.x ∧
    (leaveSeq mw).c = mw.c ∧ (leaveSeq mw).x = mw.x := by
  obtain ⟨hc, hr, hsim, hpc⟩ := h
  unfold leaveSeq
  cases hrs : ms.r with
  | lexer ls =>
    cases hrw : mw.r with
    | scanner sw => rw [hrs, hrw] at hr; exact hr.elim
    | lexer lw =>
      refine ⟨⟨hc, ?_, hsim, hpc⟩, rfl, rfl, rfl, rfl⟩
      rw [hrs, hrw] at hr ⊢; exact hr
  | scanner ss =>
    cases hrw : mw.r with
    | lexer lw => rw [hrs, hrw] at hr; exact hr.elim
    | scanner sw =>
      rw [hrs, hrw] at hr
      obtain ⟨hd0, hs, _⟩ := hr
      dsimp only
      exact ⟨⟨hc, ⟨hd0, hs.setSeq _ _, rfl, rfl⟩, hsim, hpc⟩, rfl, rfl, rfl, rfl⟩

/-- look-ahead: same verdict, unless the split input ends first -/
theorem matchSeq_sim (F : Frame inpS inpW δ) (il ic : Bool) (hil : il = true → Closed inpS inpW δ) (nps : Nat) :
    ∀ (es : List UInt8) (dep : Nat), 1 ≤ dep →
      (matchSeqFrom inpW il ic (nps + δ) dep es = matchSeqFrom inpS il ic nps dep es ∧
        (matchSeqFrom inpS il ic nps dep es = .matched → es ≠ [] → nps + dep - 1 + es.length ≤ inpS.length)) ∨
      (matchSeqFrom inpS il ic nps dep es = .needMore ∧ ¬ Closed inpS inpW δ ∧ il = false) := by
  intro es
  induction es with
  | nil => intro dep _; exact Or.inl ⟨rfl, fun _ h => absurd rfl h⟩
  | cons e es ih =>
    intro dep hdep
    simp only [matchSeqFrom]
    have hidx : nps + δ + dep - 1 = nps + dep - 1 + δ := by omega
    rw [hidx]
    cases hch : inpS[nps + dep - 1]? with
    | some ch =>
      have hlt : nps + dep - 1 < inpS.length := by
        rcases Nat.lt_or_ge (nps + dep - 1) inpS.length with h | h
        · exact h
        · rw [List.getElem?_eq_none h] at hch; cases hch
      rw [F.get hlt, hch]
      simp only
      by_cases hcmp : seqCmp ch e ic = true
      · rw [if_pos hcmp, if_pos hcmp]
        rcases ih (dep + 1) (by omega) with ⟨h1, h2⟩ | h3
        · refine Or.inl ⟨h1, fun hm _ => ?_⟩
          cases es with
          | nil => simp only [List.length_cons, List.length_nil]; omega
          | cons e' es' =>
            have := h2 hm (by simp)
            simp only [List.length_cons] at this ⊢; omega
        · exact Or.inr h3
      · rw [if_neg hcmp, if_neg hcmp]
        exact Or.inl ⟨rfl, fun hm => by cases hm⟩
    | none =>
      by_cases hcl : Closed inpS inpW δ
      · rw [F.get_closed hcl, hch]
        refine Or.inl ⟨rfl, fun hm => ?_⟩
        cases il <;> simp at hm
      · cases il with
        | true => exact absurd (hil rfl) hcl
        | false => exact Or.inr ⟨by simp, hcl, rfl⟩

theorem consumed_rel (hcl : Closed inpS inpW δ) {d : Nat} {ab : Ab} {sm : SeqMode}
    {ms mw : M κ} (h : MRel δ d 0 ab sm ms mw) (hP : ab.P = true) (hsm : sm ≠ .stale) :
    consumedByteCount inpW mw + d = consumedByteCount inpS ms + δ := by
  obtain ⟨hc, hr, hsim, hpc⟩ := h
  unfold consumedByteCount
  cases hrs : ms.r with
  | lexer ls =>
    cases hrw : mw.r with
    | scanner sw => rw [hrs, hrw] at hr; exact hr.elim
    | lexer lw =>
      rw [hrs, hrw] at hr
      exact (show LexRel δ d ab ms.c.nextPos ls lw from hr).ls_eq
  | scanner ss =>
    cases hrw : mw.r with
    | lexer lw => rw [hrs, hrw] at hr; exact hr.elim
    | scanner sw =>
      rw [hrs, hrw] at hr
      obtain ⟨hd0, hs, hq⟩ := hr
      subst hd0
      have hp := hs.p hP
      simp only
      cases hts : ss.tagStart with
      | some ts =>
        obtain ⟨tw, htw, htrel⟩ := optRel_some_l hs.ts hts
        have := hp.2 ts hts
        rw [htw]
        cases sm with
        | none => rw [hq.1, hq.2]; simp only; omega
        | stale => exact absurd rfl hsm
        | inSeq =>
          obtain ⟨p, hp1, hp2, hp3⟩ := hq
          rw [hp1, hp2]; simp only; omega
      | none =>
        rw [optRel_none_l hs.ts hts]
        cases sm with
        | none => rw [hq.1, hq.2]; simp only; unfold Closed at hcl; omega
        | stale => exact absurd rfl hsm
        | inSeq =>
          obtain ⟨p, hp1, hp2, hp3⟩ := hq
          rw [hp1, hp2]; simp only; omega

/-- **Both runs break at the common end of their inputs.** The consumed counts differ by the frame offset
minus the text debt; when not last, the two re-based machines are related in the frame `d` of the text
debt. -/
theorem break_both (F : Frame inpS inpW δ) (hcl : Closed inpS inpW δ) {d : Nat} {ab : Ab} {sm : SeqMode}
    {ms mw : M κ} (h : MRel δ d 0 ab sm ms mw) (hP : ab.P = true)
    (hSn : ms.c.isLast = false → ab.Sn = true → ab.St = true)
    (hsm : sm ≠ .stale) (hK : K d ms.x.sink mw.x.sink) :
    SPanic (breakOnEndOfInput inpS ms).2 ∨
    ∃ c c', (breakOnEndOfInput inpS ms).2 = some (.endOfInput c) ∧
      (breakOnEndOfInput inpW mw).2 = some (.endOfInput c') ∧ c' + d = c + δ ∧
      K d (breakOnEndOfInput inpS ms).1.x.sink (breakOnEndOfInput inpW mw).1.x.sink ∧
      (breakOnEndOfInput inpS ms).1.x = ms.x ∧ (breakOnEndOfInput inpW mw).1.x = mw.x ∧
      (breakOnEndOfInput inpS ms).1.c.state = ms.c.state ∧ (breakOnEndOfInput inpS ms).1.c.entered = ms.c.entered ∧
      (ms.c.isLast = false →
        BreakRel d d 0 ab.boundary (if sm = .inSeq then .stale else .none)
          (breakOnEndOfInput inpS ms).1 (breakOnEndOfInput inpW mw).1) := by
  have hcons := consumed_rel (inpS := inpS) (inpW := inpW) hcl h hP hsm
  obtain ⟨hc, hr, hsim, hpc⟩ := h
  have hnp := hc.nextPos
  have hadjS : ((if ms.c.isLast = true then ms else adjustForNextInput ms)).c = ms.c := by
    split
    · rfl
    · exact adjust_c ms
  have hadjW : ((if mw.c.isLast = true then mw else adjustForNextInput mw)).c = mw.c := by
    split
    · rfl
    · exact adjust_c mw
  have hxS : ((if ms.c.isLast = true then ms else adjustForNextInput ms)).x = ms.x := by
    split
    · rfl
    · exact adjust_x ms
  have hxW : ((if mw.c.isLast = true then mw else adjustForNextInput mw)).x = mw.x := by
    split
    · rfl
    · exact adjust_x mw
  unfold breakOnEndOfInput
  simp only [hadjS, hadjW]
  by_cases hu : ms.c.nextPos = 0 ∨ ms.c.nextPos - 1 < consumedByteCount inpS ms
  · rw [if_pos hu]; exact Or.inl trivial
  · have hu1 : ms.c.nextPos ≠ 0 := fun h => hu (Or.inl h)
    have hu2 : consumedByteCount inpS ms ≤ ms.c.nextPos - 1 := by
      have := fun h => hu (Or.inr h); omega
    have huw : ¬ (mw.c.nextPos = 0 ∨ mw.c.nextPos - 1 < consumedByteCount inpW mw) := by omega
    rw [if_neg hu, if_neg huw]
    refine Or.inr ⟨_, _, rfl, rfl, hcons, by simp only [hxS, hxW]; exact hK, hxS, hxW, rfl, rfl, fun hl => ?_⟩
    have hlw : mw.c.isLast = false := by rw [hc.isLast]; exact hl
    have hifS : (if ms.c.isLast = true then ms else adjustForNextInput ms) = adjustForNextInput ms := by
      rw [if_neg (by rw [hl]; simp)]
    have hifW : (if mw.c.isLast = true then mw else adjustForNextInput mw) = adjustForNextInput mw := by
      rw [if_neg (by rw [hlw]; simp)]
    rw [hifS, hifW]
    have hcrel : CRel d 0 { ms.c with nextPos := ms.c.nextPos - 1 - consumedByteCount inpS ms }
        { mw.c with nextPos := mw.c.nextPos - 1 - consumedByteCount inpW mw } :=
      { hc with nextPos := by show mw.c.nextPos - 1 - consumedByteCount inpW mw + 0 = ms.c.nextPos - 1 - consumedByteCount inpS ms + d; omega }
    refine ⟨hcrel, ?_, by rw [adjust_x, adjust_x]; exact hsim⟩
    show RegsRel d d ab.boundary _ (ms.c.nextPos - 1 - consumedByteCount inpS ms) (adjustForNextInput ms).r (adjustForNextInput mw).r
    cases hrs : ms.r with
    | lexer ls =>
      cases hrw : mw.r with
      | scanner sw => rw [hrs, hrw] at hr; exact hr.elim
      | lexer lw =>
        rw [hrs, hrw] at hr
        have hl' : LexRel δ d ab ms.c.nextPos ls lw := hr
        have hadj : (adjustForNextInput ms).r = .lexer
            { ls with tokenPartStart := alignNat ls.tokenPartStart ls.lexemeStart
                      curTag := ls.curTag.map (·.align ls.lexemeStart)
                      curNonTag := ls.curNonTag.map (·.align ls.lexemeStart)
                      curAttr := ls.curAttr.map (·.align ls.lexemeStart)
                      lexemeStart := 0 } := by
          simp only [adjustForNextInput, hrs]
        have hadjw : (adjustForNextInput mw).r = .lexer
            { lw with tokenPartStart := alignNat lw.tokenPartStart lw.lexemeStart
                      curTag := lw.curTag.map (·.align lw.lexemeStart)
                      curNonTag := lw.curNonTag.map (·.align lw.lexemeStart)
                      curAttr := lw.curAttr.map (·.align lw.lexemeStart)
                      lexemeStart := 0 } := by
          simp only [adjustForNextInput, hrw]
        rw [hadj, hadjw]
        have hcons' : consumedByteCount inpS ms = ls.lexemeStart := by simp only [consumedByteCount, hrs]
        refine ((hl'.weaken (ab' := ab.boundary) (by rw [Ab.le_iff]; simp [Ab.boundary])).alignS rfl (fun g n hn => ?_)).alignW rfl
        have hnp1 : ms.c.nextPos - 1 - consumedByteCount inpS ms + ls.lexemeStart = ms.c.nextPos - 1 := by
          rw [hcons'] at hu2 ⊢; omega
        rw [hnp1]
        exact hl'.ntp g hP n hn
    | scanner ss =>
      cases hrw : mw.r with
      | lexer lw => rw [hrs, hrw] at hr; exact hr.elim
      | scanner sw =>
        rw [hrs, hrw] at hr
        obtain ⟨hd0, hs, hq⟩ := hr
        subst hd0
        have hp := hs.p hP
        have hseq : SeqRel 0 (ms.c.nextPos - 1 - consumedByteCount inpS ms) (if sm = .inSeq then .stale else .none)
            ss.chSeqStart sw.chSeqStart := by
          cases sm with
          | none => exact hq
          | stale => exact absurd rfl hsm
          | inSeq => simp only [if_true]; trivial
        cases hts : ss.tagStart with
        | some ts =>
          obtain ⟨tw, htw, htrel⟩ := optRel_some_l hs.ts hts
          have hadj : (adjustForNextInput ms).r = .scanner
              { ss with tagNameStart := alignNat ss.tagNameStart ts, tagStart := some 0 } := by
            simp only [adjustForNextInput, hrs, hts]
          have hadjw : (adjustForNextInput mw).r = .scanner
              { sw with tagNameStart := alignNat sw.tagNameStart tw, tagStart := some 0 } := by
            simp only [adjustForNextInput, hrw, htw]
          rw [hadj, hadjw]
          refine ⟨rfl, ⟨rfl, ?_, (fun g => by cases g), fun _ => rfl, fun g => ?_, hs.endTag, hs.hash, hs.pend⟩, hseq⟩
          · intro t ht; simp only [Option.some.injEq] at ht; omega
          · obtain ⟨a, b⟩ := hs.tns g
            have := b ts hts
            simp only
            rw [alignNat_ge this, alignNat_ge (by omega)]
            exact ⟨by omega, fun t ht => by simp only [Option.some.injEq] at ht; omega⟩
        | none =>
          have htw := optRel_none_l hs.ts hts
          have hadj : (adjustForNextInput ms).r = .scanner ss := by
            simp only [adjustForNextInput, hrs, hts]
          have hadjw : (adjustForNextInput mw).r = .scanner sw := by
            simp only [adjustForNextInput, hrw, htw]
          rw [hadj, hadjw]
          refine ⟨rfl, ⟨?_, ?_, (fun g => by cases g), fun g => ?_, fun g => ?_, hs.endTag, hs.hash, hs.pend⟩, hseq⟩
          · rw [hts, htw]; trivial
          · intro t ht; rw [hts] at ht; cases ht
          · have := hs.st g; rw [hts] at this; cases this
          · have := hs.st (hSn hl g); rw [hts] at this; cases this

/-! ### pieces of the `eoc` / `memchr` cases of the step lemma -/

/-- `consume_until` over an extended input: a needle-free prefix is skipped -/
theorem findByte_append (nd : UInt8) (xs ys : Bytes) :
    findByte nd (xs ++ ys) = match findByte nd xs with
      | some p => some p
      | none => (findByte nd ys).map (· + xs.length) := by
  induction xs with
  | nil => simp [findByte]
  | cons x xs ih =>
    simp only [List.cons_append, findByte]
    split
    · rfl
    · rw [ih]
      cases findByte nd xs with
      | some p => rfl
      | none =>
        cases findByte nd ys with
        | none => rfl
        | some q => simp only [Option.map_some, List.length_cons]; congr 1

/-- a state without sequence arms: `runSeqArms` does nothing -/
theorem runSeqArms_noSeq (inp : Bytes) (ch : Option UInt8) :
    ∀ (arms : List Arm) (m : M κ), (arms.any fun a => isSeqPat a.pat) = false → runSeqArms env inp ch arms m = .inr m := by
  intro arms
  induction arms with
  | nil => intro m _; rfl
  | cons a rest ih =>
    intro m h
    simp only [List.any_cons, Bool.or_eq_false_iff] at h
    simp only [runSeqArms]
    split
    · rename_i hp; rw [hp] at h; simp [isSeqPat] at h
    · exact ih m h.2

/-- **Text debt is created**: the `emit_text` of an `eoc` arm runs in the split run only (the whole run has
not reached the end of its input); the lexer registers stay related, with the debt increased by the
length of the emitted text. -/
theorem LexRel.emitTextSplitOnly {d np : Nat} {ab ab' : Ab} {ls lw : LexRegs} (h : LexRel δ d ab np ls lw)
    (hP : ab.P = true) (hn : ab'.noLex) :
    LexRel δ (d + (np - 1 - ls.lexemeStart)) ab' np
      (if np - 1 > ls.lexemeStart then { ls with lexemeStart := np - 1 } else ls) lw := by
  have hp := h.p hP
  have hle := h.ls_eq
  obtain ⟨n1, n2, n3, n4, n5, n6⟩ := hn
  split
  · refine ⟨by show np - 1 ≤ np; omega, by show _ = np - 1 + δ; omega, fun _ => by show np - 1 + 1 ≤ np; omega, h.fd,
      (fun g => by simp [n1] at g), ?_, ?_, ?_, (fun g => by simp [n6] at g), (fun g => by simp [n5] at g),
      (fun g => by simp [n5] at g)⟩
    · rw [n2, n3]; exact OptRel.mono (fun _ _ hr => hr.stale) h.tag
    · rw [n4]; exact OptRel.mono (fun _ _ hr => hr.stale) h.attr
    · rw [n5]; exact OptRel.mono (fun _ _ hr => hr.stale) h.nt
  · refine ⟨h.ls_le, by omega, fun _ => hp, h.fd, (fun g => by simp [n1] at g), ?_, ?_, ?_, (fun g => by simp [n6] at g),
      (fun g => by simp [n5] at g), (fun g => by simp [n5] at g)⟩
    · rw [n2, n3]; exact OptRel.mono (fun _ _ hr => hr.stale) h.tag
    · rw [n4]; exact OptRel.mono (fun _ _ hr => hr.stale) h.attr
    · rw [n5]; exact OptRel.mono (fun _ _ hr => hr.stale) h.nt

end
end LolHtml.Model.Chunk
