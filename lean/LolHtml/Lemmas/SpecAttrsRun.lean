import LolHtml.Spec.Attrs
/-!
`Spec.Attrs` as a byte-by-byte run: one step (`attrsStep`), the run over a prefix of the input that
stops in a "middle" state (`attrsRun`, `tagNameRun`), its composition over `r₁ ++ r₂`, and its
translation by an offset (`Align`). Pure facts about the specification, used for a tag that
straddles two input slices.
-/
namespace LolHtml.Spec.Attrs
open LolHtml LolHtml.Model

/-- where the reading of a start tag can be when the input ends -/
inductive Mid
  | name                                                      -- inside the tag name
  | attrs (nm : Range) (acc : List AttrOutline) (st : St)     -- in an attribute state
  deriving DecidableEq, Repr

/-- one byte in an attribute state -/
def attrsStep (nm : Range) (acc : List AttrOutline) (st : St) (b : UInt8) (p : Nat) : Tag ⊕ (List AttrOutline × St) :=
  match st with
  | .beforeAttrName sol =>
      if isWs b then .inr (acc, .beforeAttrName false)
      else if b == 47 then .inr (acc, .beforeAttrName true)
      else if b == 62 then .inl ⟨nm, acc, sol, p + 1⟩
      else .inr (acc, .attrName p)
  | .attrName s =>
      if isWs b then .inr (acc, .afterAttrName ⟨s, p⟩)
      else if b == 61 then .inr (acc, .beforeAttrValue ⟨s, p⟩)
      else if b == 47 then .inr (acc ++ [valueless ⟨s, p⟩], .beforeAttrName true)
      else if b == 62 then .inl ⟨nm, acc ++ [valueless ⟨s, p⟩], false, p + 1⟩
      else .inr (acc, .attrName s)
  | .afterAttrName n =>
      if isWs b then .inr (acc, .afterAttrName n)
      else if b == 47 then .inr (acc ++ [valueless n], .beforeAttrName true)
      else if b == 61 then .inr (acc, .beforeAttrValue n)
      else if b == 62 then .inl ⟨nm, acc ++ [valueless n], false, p + 1⟩
      else .inr (acc ++ [valueless n], .attrName p)
  | .beforeAttrValue n =>
      if isWs b then .inr (acc, .beforeAttrValue n)
      else if b == 34 || b == 39 then .inr (acc, .valueQuoted b n (p + 1))
      else if b == 62 then .inl ⟨nm, acc ++ [valueless n], false, p + 1⟩
      else .inr (acc, .valueUnquoted n p)
  | .valueQuoted q n vs =>
      if b == q then .inr (acc ++ [valued n vs p (p + 1)], .beforeAttrName false)
      else .inr (acc, .valueQuoted q n vs)
  | .valueUnquoted n vs =>
      if isWs b then .inr (acc ++ [valued n vs p p], .beforeAttrName false)
      else if b == 62 then .inl ⟨nm, acc ++ [valued n vs p p], false, p + 1⟩
      else .inr (acc, .valueUnquoted n vs)

theorem attrs_cons (nm : Range) (acc : List AttrOutline) (st : St) (b : UInt8) (rest : List UInt8) (p : Nat) :
    attrs nm acc st (b :: rest) p =
      match attrsStep nm acc st b p with
      | .inl t => .finished t
      | .inr r => attrs nm r.1 r.2 rest (p + 1) := by
  cases st <;> simp only [attrs, attrsStep] <;> (repeat' split) <;> (first | rfl | simp_all) <;>
    (try (rename_i heq; subst heq; rfl))

/-- run the attribute states over all of `rest` -/
def attrsRun (nm : Range) : List AttrOutline → St → List UInt8 → Nat → Tag ⊕ Mid
  | acc, st, [], _ => .inr (.attrs nm acc st)
  | acc, st, b :: rest, p =>
    match attrsStep nm acc st b p with
    | .inl t => .inl t
    | .inr r => attrsRun nm r.1 r.2 rest (p + 1)

/-- run the tag name state (then the attribute states) over all of `rest` -/
def tagNameRun (start : Nat) : List UInt8 → Nat → Tag ⊕ Mid
  | [], _ => .inr .name
  | b :: rest, p =>
    if isWs b then attrsRun ⟨start, p⟩ [] (.beforeAttrName false) rest (p + 1)
    else if b == 47 then attrsRun ⟨start, p⟩ [] (.beforeAttrName true) rest (p + 1)
    else if b == 62 then .inl ⟨⟨start, p⟩, [], false, p + 1⟩
    else tagNameRun start rest (p + 1)

def resOf : Tag ⊕ Mid → Res
  | .inl t => .finished t
  | .inr _ => .unfinished

theorem attrs_eq_run (nm : Range) (rest : List UInt8) : ∀ (acc : List AttrOutline) (st : St) (p : Nat),
    attrs nm acc st rest p = resOf (attrsRun nm acc st rest p) := by
  induction rest with
  | nil => intro acc st p; cases st <;> rfl
  | cons b rest ih =>
    intro acc st p
    rw [attrs_cons]
    simp only [attrsRun]
    cases attrsStep nm acc st b p with
    | inl t => rfl
    | inr r => exact ih _ _ _

theorem tagName_eq_run (start : Nat) (rest : List UInt8) : ∀ p, tagName start rest p = resOf (tagNameRun start rest p) := by
  induction rest with
  | nil => intro p; rfl
  | cons b rest ih =>
    intro p
    simp only [tagName, tagNameRun]
    (repeat' split) <;> first | exact attrs_eq_run _ _ _ _ _ | rfl | exact ih _

/-! ### composition -/

theorem attrsRun_append (nm : Range) (r1 r2 : List UInt8) : ∀ (acc : List AttrOutline) (st : St) (p : Nat),
    attrsRun nm acc st (r1 ++ r2) p =
      match attrsRun nm acc st r1 p with
      | .inl t => .inl t
      | .inr (.attrs nm' acc' st') => attrsRun nm' acc' st' r2 (p + r1.length)
      | .inr .name => .inr .name := by
  induction r1 with
  | nil => intro acc st p; simp [attrsRun]
  | cons b r1 ih =>
    intro acc st p
    simp only [List.cons_append, attrsRun, List.length_cons]
    cases attrsStep nm acc st b p with
    | inl t => rfl
    | inr r =>
      simp only
      rw [ih, show p + 1 + r1.length = p + (r1.length + 1) by omega]

/-- the attribute states never fall back into the tag name -/
theorem attrsRun_ne_name (nm : Range) (rest : List UInt8) : ∀ (acc : List AttrOutline) (st : St) (p : Nat),
    attrsRun nm acc st rest p ≠ .inr .name := by
  induction rest with
  | nil => intro acc st p; simp [attrsRun]
  | cons b rest ih =>
    intro acc st p
    simp only [attrsRun]
    cases attrsStep nm acc st b p with
    | inl t => simp
    | inr r => exact ih _ _ _

theorem tagNameRun_append (start : Nat) (r1 r2 : List UInt8) : ∀ (p : Nat),
    tagNameRun start (r1 ++ r2) p =
      match tagNameRun start r1 p with
      | .inl t => .inl t
      | .inr (.attrs nm' acc' st') => attrsRun nm' acc' st' r2 (p + r1.length)
      | .inr .name => tagNameRun start r2 (p + r1.length) := by
  induction r1 with
  | nil => intro p; simp [tagNameRun]
  | cons b r1 ih =>
    intro p
    simp only [List.cons_append, tagNameRun, List.length_cons]
    have e : p + 1 + r1.length = p + (r1.length + 1) := by omega
    have key : ∀ (nm : Range) (st : St),
        attrsRun nm [] st (r1 ++ r2) (p + 1) =
          match attrsRun nm [] st r1 (p + 1) with
          | .inl t => .inl t
          | .inr (.attrs nm' acc' st') => attrsRun nm' acc' st' r2 (p + (r1.length + 1))
          | .inr .name => tagNameRun start r2 (p + (r1.length + 1)) := by
      intro nm st
      rw [attrsRun_append, e]
      cases hr : attrsRun nm [] st r1 (p + 1) with
      | inl t => rfl
      | inr m =>
        cases m with
        | name => exact absurd hr (attrsRun_ne_name _ _ _ _ _)
        | attrs a b c => rfl
    split
    · exact key _ _
    · split
      · exact key _ _
      · split
        · rfl
        · rw [ih, e]

/-! ### translation (`Align`) -/

def St.align (o : Nat) : St → St
  | .beforeAttrName sol => .beforeAttrName sol
  | .attrName s => .attrName (alignNat s o)
  | .afterAttrName n => .afterAttrName (n.align o)
  | .beforeAttrValue n => .beforeAttrValue (n.align o)
  | .valueQuoted q n vs => .valueQuoted q (n.align o) (alignNat vs o)
  | .valueUnquoted n vs => .valueUnquoted (n.align o) (alignNat vs o)

def Tag.align (t : Tag) (o : Nat) : Tag := ⟨t.name.align o, t.attrs.map (·.align o), t.selfClosing, alignNat t.stop o⟩

def Mid.align (o : Nat) : Mid → Mid
  | .name => .name
  | .attrs nm acc st => .attrs (nm.align o) (acc.map (·.align o)) (st.align o)

def alignRun (o : Nat) : Tag ⊕ Mid → Tag ⊕ Mid
  | .inl t => .inl (t.align o)
  | .inr m => .inr (m.align o)

theorem alignNat_ge {x o : Nat} (h : o ≤ x) : alignNat x o = x - o := by
  unfold alignNat; rw [if_pos h]

/-- `Align` of one step's result -/
def alignStep (o : Nat) : Tag ⊕ (List AttrOutline × St) → Tag ⊕ (List AttrOutline × St)
  | .inl t => .inl (t.align o)
  | .inr r => .inr (r.1.map (·.align o), r.2.align o)

theorem attrsStep_align (nm : Range) (acc : List AttrOutline) (st : St) (b : UInt8) (p o : Nat) (h : o ≤ p) :
    attrsStep (nm.align o) (acc.map (·.align o)) (st.align o) b (p - o) = alignStep o (attrsStep nm acc st b p) := by
  have e1 : alignNat p o = p - o := alignNat_ge h
  have e2 : alignNat (p + 1) o = p - o + 1 := by rw [alignNat_ge (by omega)]; omega
  cases st with
  | beforeAttrName sol =>
    simp only [attrsStep, St.align]
    by_cases h1 : isWs b = true <;> by_cases h2 : (b == 47) = true <;> by_cases h3 : (b == 62) = true <;>
      simp [h1, h2, h3, alignStep, Tag.align, St.align, e1, e2]
  | attrName s =>
    simp only [attrsStep, St.align]
    by_cases h1 : isWs b = true <;> by_cases h4 : (b == 61) = true <;> by_cases h2 : (b == 47) = true <;>
      by_cases h3 : (b == 62) = true <;>
      simp [h1, h2, h3, h4, alignStep, Tag.align, St.align, valueless, AttrOutline.align, Range.align, e1, e2]
  | afterAttrName n =>
    simp only [attrsStep, St.align]
    by_cases h1 : isWs b = true <;> by_cases h2 : (b == 47) = true <;> by_cases h4 : (b == 61) = true <;>
      by_cases h3 : (b == 62) = true <;>
      simp [h1, h2, h3, h4, alignStep, Tag.align, St.align, valueless, AttrOutline.align, Range.align, e1, e2]
  | beforeAttrValue n =>
    simp only [attrsStep, St.align]
    by_cases h1 : isWs b = true <;> by_cases h5 : (b == 34 || b == 39) = true <;> by_cases h3 : (b == 62) = true <;>
      simp [h1, h3, h5, alignStep, Tag.align, St.align, valueless, AttrOutline.align, Range.align, e1, e2]
  | valueQuoted q n vs =>
    simp only [attrsStep, St.align]
    by_cases h6 : (b == q) = true <;>
      simp [h6, alignStep, St.align, valued, AttrOutline.align, Range.align, e1, e2]
  | valueUnquoted n vs =>
    simp only [attrsStep, St.align]
    by_cases h1 : isWs b = true <;> by_cases h3 : (b == 62) = true <;>
      simp [h1, h3, alignStep, Tag.align, St.align, valued, AttrOutline.align, Range.align, e1, e2]

theorem attrsRun_align (nm : Range) (o : Nat) (rest : List UInt8) : ∀ (acc : List AttrOutline) (st : St) (p : Nat), o ≤ p →
    attrsRun (nm.align o) (acc.map (·.align o)) (st.align o) rest (p - o) = alignRun o (attrsRun nm acc st rest p) := by
  induction rest with
  | nil => intro acc st p _; rfl
  | cons b rest ih =>
    intro acc st p h
    simp only [attrsRun]
    rw [attrsStep_align nm acc st b p o h]
    cases attrsStep nm acc st b p with
    | inl t => rfl
    | inr r =>
      simp only [alignStep]
      rw [show p - o + 1 = (p + 1) - o by omega]
      exact ih _ _ _ (by omega)

theorem tagNameRun_align (start o : Nat) (rest : List UInt8) : ∀ (p : Nat), o ≤ start → start ≤ p →
    tagNameRun (start - o) rest (p - o) = alignRun o (tagNameRun start rest p) := by
  induction rest with
  | nil => intro p _ _; rfl
  | cons b rest ih =>
    intro p h1 h2
    simp only [tagNameRun]
    have e : p - o + 1 = (p + 1) - o := by omega
    have en : (⟨start - o, p - o⟩ : Range) = (⟨start, p⟩ : Range).align o := by
      simp [Range.align, alignNat_ge h1, alignNat_ge (Nat.le_trans h1 h2)]
    split
    · rw [e, en]; exact attrsRun_align ⟨start, p⟩ o rest [] (.beforeAttrName false) (p + 1) (by omega)
    · split
      · rw [e, en]; exact attrsRun_align ⟨start, p⟩ o rest [] (.beforeAttrName true) (p + 1) (by omega)
      · split
        · simp [alignRun, Tag.align, Range.align, alignNat_ge h1, alignNat_ge (Nat.le_trans h1 h2),
            alignNat_ge (show o ≤ p + 1 by omega)]
          omega
        · rw [e]; exact ih (p + 1) h1 (by omega)

/-! ### the whole start tag, and the name ranges -/

/-- `startTagAt` as a run: `none` when `bs[i..]` does not begin with `<` + letter -/
def startTagRun (bs : Bytes) (i : Nat) : Option (Tag ⊕ Mid) :=
  match bs.drop i with
  | 60 :: b :: rest => if isAsciiAlpha b then some (tagNameRun (i + 1) rest (i + 2)) else none
  | _ => none

theorem startTagAt_eq_run (bs : Bytes) (i : Nat) : startTagAt bs i = (startTagRun bs i).map resOf := by
  unfold startTagAt startTagRun
  split
  · rename_i b rest heq
    simp only [heq]
    split
    · simp [tagName_eq_run]
    · rfl
  · rename_i hno
    split
    · rename_i b rest heq
      exact absurd heq (hno b rest)
    · rfl

theorem startTagRun_of_finished {bs : Bytes} {i : Nat} {t : Tag} (h : startTagAt bs i = some (.finished t)) :
    startTagRun bs i = some (.inl t) := by
  rw [startTagAt_eq_run] at h
  cases hr : startTagRun bs i with
  | none => simp [hr] at h
  | some r =>
    cases r with
    | inl t' => simp [hr, resOf] at h; rw [h]
    | inr m => simp [hr, resOf] at h

theorem startTagRun_of_unfinished {bs : Bytes} {i : Nat} (h : startTagAt bs i = some .unfinished) :
    ∃ mid, startTagRun bs i = some (.inr mid) := by
  rw [startTagAt_eq_run] at h
  cases hr : startTagRun bs i with
  | none => simp [hr] at h
  | some r =>
    cases r with
    | inl t' => simp [hr, resOf] at h
    | inr m => exact ⟨m, rfl⟩

theorem attrsStep_name {nm : Range} {acc : List AttrOutline} {st : St} {b : UInt8} {p : Nat} {t : Tag}
    (h : attrsStep nm acc st b p = .inl t) : t.name = nm := by
  cases st <;> simp only [attrsStep] at h <;> (repeat' split at h) <;> simp_all <;> (subst_vars; rfl)

/-- the attribute states never change the tag name -/
theorem attrsRun_name (nm : Range) (rest : List UInt8) : ∀ (acc : List AttrOutline) (st : St) (p : Nat),
    (∀ t, attrsRun nm acc st rest p = .inl t → t.name = nm) ∧
    (∀ nm' acc' st', attrsRun nm acc st rest p = .inr (.attrs nm' acc' st') → nm' = nm) := by
  induction rest with
  | nil =>
    intro acc st p
    refine ⟨fun t h => by simp [attrsRun] at h, fun nm' acc' st' h => ?_⟩
    simp only [attrsRun, Sum.inr.injEq, Mid.attrs.injEq] at h
    exact h.1.symm
  | cons b rest ih =>
    intro acc st p
    simp only [attrsRun]
    cases hs : attrsStep nm acc st b p with
    | inl t =>
      refine ⟨fun t' h => ?_, fun nm' acc' st' h => by simp at h⟩
      simp only [Sum.inl.injEq] at h
      subst h
      exact attrsStep_name hs
    | inr r => exact ih _ _ _

/-- when the run over `rest` (starting at `p`) stops in an attribute state, the name ended inside `rest` -/
theorem tagNameRun_name (start : Nat) (rest : List UInt8) : ∀ (p : Nat) (nm : Range) (acc : List AttrOutline) (st : St),
    tagNameRun start rest p = .inr (.attrs nm acc st) → nm.start = start ∧ p ≤ nm.end ∧ nm.end < p + rest.length := by
  induction rest with
  | nil => intro p nm acc st h; simp [tagNameRun] at h
  | cons b rest ih =>
    intro p nm acc st h
    simp only [tagNameRun] at h
    simp only [List.length_cons]
    split at h
    · have := (attrsRun_name _ _ _ _ _).2 _ _ _ h
      subst this
      exact ⟨rfl, Nat.le_refl _, by simp only; omega⟩
    · split at h
      · have := (attrsRun_name _ _ _ _ _).2 _ _ _ h
        subst this
        exact ⟨rfl, Nat.le_refl _, by simp only; omega⟩
      · split at h
        · simp at h
        · obtain ⟨h1, h2, h3⟩ := ih _ _ _ _ h
          exact ⟨h1, by omega, by omega⟩

end LolHtml.Spec.Attrs
