import LolHtml.Lemmas.TbAnchor3
import LolHtml.Lemmas.TbHop9
/-!
The structural invariant of the body phase (template-free, no frameset acted upon): on the anchor suffix
`A` of the stack of open elements — layout `W`, `body` on `html` at the bottom with no `head`/`html`/`body`
above, and the first anchor is the one the insertion mode stands for.
-/
namespace LolHtml.Spec.TreeBuilder
open LolHtml.Model (Ns)

def preBody : List Mode := [.initial, .beforeHtml, .beforeHead, .inHead, .inHeadNoscript, .afterHead]

/-- the insertion mode that counts: in "text" / "in table text" the original insertion mode -/
def effMode (s : State) : Mode := if s.mode = .text ∨ s.mode = .inTableText then s.origMode else s.mode

/-- `body` on `html` at the bottom, nothing named head / html / body above -/
def BottomL (A : List El) : Prop :=
  ∃ mid b h, A = mid ++ [b, h] ∧ b.isHtml .body = true ∧ h.isHtml .html = true ∧
    ∀ e ∈ mid, e.isHtmlIn [.head, .html, .body] = false

/-- the first element is an HTML element named in `l` -/
def headIn (l : List Name) : List El → Prop
  | a :: _ => a.isHtmlIn l = true
  | [] => False

/-- the first anchor the insertion mode stands for -/
def modeAnchors : Mode → Option (List Name)
  | .inTable => some [.table]
  | .inTableBody => some secNames
  | .inRow => some [.tr]
  | .inCell => some [.td, .th]
  | .inCaption => some [.caption]
  | .inColumnGroup => some [.colgroup]
  | .inBody | .afterBody | .afterAfterBody => some [.body]
  | _ => none

def AnchOk (m : Mode) (A : List El) : Prop :=
  match modeAnchors m with
  | some l => headIn l A
  | none => True

/-- the invariant on the anchor suffix -/
structure BA (m : Mode) (A : List El) : Prop where
  w : W A
  bottom : BottomL A
  anch : AnchOk m A
  nofs : ∀ e ∈ A, e.isHtml .frameset = false

/-- stack predicate: not `select` -/
def PNoSel : NP := fun n _ => n ≠ .select

theorem fmtOk_PNoSel : FmtOk PNoSel := by
  intro n hn
  cases n <;> simp [formattingNames, Name.isIn] at hn <;> simp [PNoSel]

/-- body-phase invariant of a parser state -/
structure BInv (s : State) : Prop where
  ba : BA (effMode s) (anchorSuffix s.tree.stack)
  form : ∀ f, s.formPtr = some f → f.isAnchor = false
  /-- in "text" the current node (the raw text element) is no anchor -/
  txt : s.mode = .text → ∃ e r, s.tree.stack = e :: r ∧ e.isAnchor = false
  /-- a `select` element is on the stack only if the frameset-ok flag is "not ok" -/
  sel : s.framesetOk = true → StackAll PNoSel s.tree

/-- a stack is its anchor-free prefix followed by its anchor suffix -/
theorem stack_decomp (st : List El) : ∃ p, st = p ++ anchorSuffix st ∧ ∀ e ∈ p, e.isAnchor = false := by
  induction st with
  | nil => exact ⟨[], rfl, fun e he => by cases he⟩
  | cons x xs ih =>
    by_cases hx : x.isAnchor = true
    · exact ⟨[], by simp [anchorSuffix_cons_anchor x xs hx], fun e he => by cases he⟩
    · have hx' : x.isAnchor = false := by simpa using hx
      obtain ⟨p, hp, hpn⟩ := ih
      refine ⟨x :: p, ?_, ?_⟩
      · rw [anchorSuffix_cons_non x xs hx', List.cons_append, ← hp]
      · intro e he
        rcases List.mem_cons.mp he with rfl | he
        · exact hx'
        · exact hpn e he

theorem nonanchor_not_bottomName (e : El) (h : e.isAnchor = false) : e.isHtmlIn [.head, .html, .body] = false := by
  simp only [El.isAnchor, El.isHtmlIn, Bool.and_eq_false_iff] at h ⊢
  rcases h with h | h
  · exact Or.inl h
  · right
    revert h; cases e.name <;> simp [anchorNames, Name.isIn]

/-- `BottomL` of the anchor suffix is `BottomL` of the whole stack -/
theorem BottomL.full {st : List El} (h : BottomL (anchorSuffix st)) : BottomL st := by
  obtain ⟨p, hp, hpn⟩ := stack_decomp st
  obtain ⟨mid, b, hh, hA, hb, hhh, hmid⟩ := h
  refine ⟨p ++ mid, b, hh, ?_, hb, hhh, ?_⟩
  · rw [List.append_assoc, ← hA, ← hp]
  · intro e he
    rcases List.mem_append.mp he with he | he
    · exact nonanchor_not_bottomName e (hpn e he)
    · exact hmid e he

theorem nonanchor_not_frameset (e : El) (h : e.isAnchor = false) : e.isHtml .frameset = false := by
  cases hq : e.isHtml .frameset
  · rfl
  · simp only [El.isHtml, Bool.and_eq_true, beq_iff_eq] at hq
    simp [El.isAnchor, El.isHtmlIn, hq.1, hq.2, anchorNames, Name.isIn] at h

/-- no `frameset` in the anchor suffix: none on the stack -/
theorem nofs_full {st : List El} (h : ∀ e ∈ anchorSuffix st, e.isHtml .frameset = false) :
    ∀ e ∈ st, e.isHtml .frameset = false := by
  obtain ⟨p, hp, hpn⟩ := stack_decomp st
  intro e he
  rw [hp] at he
  rcases List.mem_append.mp he with he | he
  · exact nonanchor_not_frameset e (hpn e he)
  · exact h e he

/-- pushing an anchor that is not head / html / body on a stack whose anchor suffix has the invariant -/
theorem BA.push {m m' : Mode} {st : List El} (h : BA m (anchorSuffix st)) (x : El) (hx : x.isAnchor = true)
    (hxn : x.isHtmlIn [.head, .html, .body] = false) (hxf : x.isHtml .frameset = false)
    (hw : W (x :: st) ∨ (W st → W (x :: st)))
    (ha : AnchOk m' (x :: st)) : BA m' (anchorSuffix (x :: st)) := by
  rw [anchorSuffix_cons_anchor x st hx]
  have hwst : W st := W.ofSuffix h.w
  refine ⟨?_, ?_, ha, ?_⟩
  rotate_left 2
  · intro e he
    rcases List.mem_cons.mp he with rfl | he
    · exact hxf
    · exact nofs_full h.nofs e he
  · rcases hw with hw | hw
    · exact hw
    · exact hw hwst
  · obtain ⟨mid, b, hh, hA, hb, hhh, hmid⟩ := h.bottom.full
    refine ⟨x :: mid, b, hh, by rw [hA]; rfl, hb, hhh, ?_⟩
    intro e he
    rcases List.mem_cons.mp he with rfl | he
    · exact hxn
    · exact hmid e he

/-- dropping elements from the top of the anchor suffix, as long as `body` stays -/
theorem BottomL.drop_to {A : List El} (h : BottomL A) (r : List El) (k : Nat) (hr : r = A.drop k)
    (hlen : k + 2 ≤ A.length) : BottomL r := by
  obtain ⟨mid, b, hh, hA, hb, hhh, hmid⟩ := h
  subst hr
  have hk : k ≤ mid.length := by rw [hA] at hlen; simp at hlen; omega
  refine ⟨mid.drop k, b, hh, ?_, hb, hhh, fun e he => hmid e (List.mem_of_mem_drop he)⟩
  rw [hA, List.drop_append_of_le_length hk]

end LolHtml.Spec.TreeBuilder
