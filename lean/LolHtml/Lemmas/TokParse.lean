import LolHtml.Lemmas.TokLoop
import LolHtml.Lemmas.InvParse
import LolHtml.Lemmas.InvStream
/-!
# C15 — token-part ranges: `Parser::parse`, the transform stream and the rewriter keep the certificate
invariant; together with the cursor / raw-range part the only panic sites left are those of `U2`.
-/
namespace LolHtml.Model

open LolHtml.Lemmas.Sim (Inv)

variable {κ : Type}

theorem TokB_congr {t : Table} {cert : Cert} {m m' : M κ} (h : TokB t cert m) (hS : m'.c.state = m.c.state)
    (hN : m'.c.nextPos = m.c.nextPos) (hE : m'.c.entered = m.c.entered) (hr : m'.r = m.r)
    (hx : m'.x.sim = m.x.sim) : TokB t cert m' := by
  obtain ⟨a, sd, h1, h2, h3⟩ := h
  refine ⟨a, sd, by rw [hS]; exact h1, by rw [hN]; exact TokM_regs h2 hr hx, ?_⟩
  have : enterPending sd m'.c = enterPending sd m.c := by simp only [enterPending, hE]
  rw [this, hS]
  exact h3

/-- token-part invariant of the parser between `parse` calls / loop iterations -/
def PTok (t : Table) (cert : Cert) (p : Parser κ) : Prop := TokB t cert (p.machine false)

/-- a machine freshly loaded at a text state is accounted for by the certificate -/
theorem TokB_loaded {t : Table} {cert : Cert} (hchk : checkCert t cert = true) (m : M κ) (tt : TextType)
    (hst : m.c.state = t.textState tt) (hent : m.c.entered = false) (hinv : Inv m.x.sim) : TokB t cert m := by
  apply TokB_of_succ (a := Abs.top) ⟨TokR.top _ _, hinv⟩ hent
  rw [hst]
  exact cert_text hchk tt

section
variable {env : Env κ} {inp : Bytes} {W : κ → Nat}

theorem parseLoop_tok {cert : Cert} (hchk : checkCert env.tbl cert = true) (hs : SinkSafe env.ops W inp U1)
    (hs2 : SinkSafe2 env.ops inp) (hw : Wf env.tbl) (last : Bool) (n : Nat) (p : Parser κ)
    (hp : PInv env.tbl inp.length W p) (htp : PTok env.tbl cert p) (hn : p.nu inp.length < n) :
    (∀ e, (Parser.parseLoop env inp last n p).2 = .error e → ErrNot T2 e) ∧
    (∀ c, (Parser.parseLoop env inp last n p).2 = .ok c → last = false →
      PTok env.tbl cert (Parser.parseLoop env inp last n p).1) := by
  induction n generalizing p with
  | zero => omega
  | succ n ih =>
    have hpos := posOf_le p hp
    cases hd : p.directive with
    | lex =>
      obtain ⟨l, hl, hlast, hsig⟩ := lexRun_post hs hw last p hp hd
      have hm0 : MInvB env.tbl inp.length (W (p.machine last).x.sink) p.lexC.nextPos (p.machine last) := by
        obtain ⟨⟨a1, a2, sd, hsd, a3⟩, _⟩ := hp
        simp only [Parser.machine, hd] at a1 a2 hsd a3 ⊢
        exact ⟨Nat.le_refl _, a2, sd, hsd, a3⟩
      have htb0 : TokB env.tbl cert (p.machine last) := by
        unfold PTok at htp
        simp only [Parser.machine, hd] at htp ⊢
        exact TokB_congr htp rfl rfl rfl rfl rfl
      have hlt := runLoop_tok hchk hs hs2 hw (defaultFuel inp) (p.machine last) hm0 htb0 (mu_lt_defaultFuel _ hw _)
      obtain ⟨hinv, hlt2⟩ := hlt
      have hnu : p.nu inp.length = 2 * (inp.length - p.lexC.nextPos) := by
        simp only [Parser.nu, Parser.posOf, hd, Nat.add_zero]
      have hst := store_lex p _ hl
      simp only [Parser.parseLoop]
      split
      · rename_i consumed hres
        rw [hres] at hsig hlt2
        rw [hst]
        refine ⟨fun e h => (by cases h), fun c _ hlf => ?_⟩
        subst hlf
        have := hlt2 hlast
        unfold PTok
        simp only [Parser.machine, hd] at this hl ⊢
        exact TokB_congr this rfl rfl rfl hl.symm rfl
      · rename_i d bm hres
        rw [hres] at hsig
        obtain ⟨s1, s2, s3⟩ := hsig
        rw [hl] at s3
        obtain ⟨s3a, s3b⟩ := s3
        subst s3a
        rw [hst]
        obtain ⟨sd, hsd⟩ := Table.state?_isSome (hw.textState bm.textType)
        obtain ⟨ht1, ht2⟩ := hp.2 hd
        apply ih
        · refine ⟨?_, fun h => by simp [loadBookmark] at h⟩
          simp only [loadBookmark, Parser.machine]
          refine ⟨Nat.zero_le _, s2, sd, hsd, ?_⟩
          simp only [RegsB]
          refine ⟨s1, fun q hq => ?_, Or.inl ht2⟩
          rw [ht1] at hq; cases hq
        · unfold PTok
          simp only [loadBookmark, Parser.machine]
          exact TokB_loaded hchk _ bm.textType rfl rfl hinv
        · have : (loadBookmark env Directive.scan bm
              { p with lexC := (runLoop env inp (defaultFuel inp) (p.machine last)).1.c, lexR := l,
                       x := (runLoop env inp (defaultFuel inp) (p.machine last)).1.x }).nu inp.length
              = 2 * (inp.length - bm.pos) + 1 := by
            simp only [Parser.nu, Parser.posOf, loadBookmark, ht1, Option.getD_none]
          rw [this]
          omega
      · refine ⟨fun e h => ?_, fun c h => by cases h⟩
        simp only [Except.error.injEq] at h
        subst h
        trivial
      · rename_i e hne hres
        rw [hres] at hlt2
        refine ⟨fun e' h => ?_, fun c h => by cases h⟩
        simp only [Except.error.injEq] at h
        subst h
        exact hlt2
    | scan =>
      obtain ⟨s, hsr, hlast, hsig⟩ := scanRun_post hs hw last p hp hd
      have hm0 : MInvB env.tbl inp.length (W (p.machine last).x.sink) p.posOf (p.machine last) := by
        obtain ⟨⟨a1, a2, sd, hsd, a3⟩, _⟩ := hp
        simp only [Parser.machine, hd, RegsB] at a1 a2 hsd a3 ⊢
        simp only [Parser.posOf, hd]
        cases hts : p.scanR.tagStart with
        | none =>
          refine ⟨Nat.le_refl _, a2, sd, hsd, a3.1, fun q hq => ?_, a3.2.2⟩
          rw [hts] at hq; cases hq
        | some q0 =>
          have h0 := a3.2.1 q0 hts
          refine ⟨h0.2.2, a2, sd, hsd, a3.1, fun q hq => ?_, a3.2.2⟩
          rw [hts] at hq
          have : q0 = q := by simpa using hq
          subst this
          exact ⟨h0.1, Nat.le_refl _, h0.2.2⟩
      have htb0 : TokB env.tbl cert (p.machine last) := by
        unfold PTok at htp
        simp only [Parser.machine, hd] at htp ⊢
        exact TokB_congr htp rfl rfl rfl rfl rfl
      have hlt := runLoop_tok hchk hs hs2 hw (defaultFuel inp) (p.machine last) hm0 htb0 (mu_lt_defaultFuel _ hw _)
      obtain ⟨hinv, hlt2⟩ := hlt
      have hnu : p.nu inp.length = 2 * (inp.length - p.posOf) + 1 := by
        simp only [Parser.nu, hd]
      have hst := store_scan p _ hsr
      simp only [Parser.parseLoop]
      split
      · rename_i consumed hres
        rw [hres] at hsig hlt2
        rw [hst]
        refine ⟨fun e h => (by cases h), fun c _ hlf => ?_⟩
        subst hlf
        have := hlt2 hlast
        unfold PTok
        simp only [Parser.machine, hd] at this hsr ⊢
        exact TokB_congr this rfl rfl rfl hsr.symm rfl
      · rename_i d bm hres
        rw [hres] at hsig
        obtain ⟨s1, s2, s3⟩ := hsig
        rw [hsr] at s3
        obtain ⟨s3a, s3b, s3c, s3d⟩ := s3
        subst s3a
        rw [hst]
        obtain ⟨sd, hsd⟩ := Table.state?_isSome (hw.textState bm.textType)
        apply ih
        · refine ⟨?_, fun _ => ⟨s3c, s3d⟩⟩
          simp only [loadBookmark, Parser.machine]
          refine ⟨Nat.zero_le _, s2, sd, hsd, ?_⟩
          simp only [RegsB]
          exact ⟨s1, Nat.le_refl _⟩
        · unfold PTok
          simp only [loadBookmark, Parser.machine]
          exact TokB_loaded hchk _ bm.textType rfl rfl hinv
        · have : (loadBookmark env Directive.lex bm
              { p with scanC := (runLoop env inp (defaultFuel inp) (p.machine last)).1.c, scanR := s,
                       x := (runLoop env inp (defaultFuel inp) (p.machine last)).1.x }).nu inp.length
              = 2 * (inp.length - bm.pos) := by
            simp only [Parser.nu, Parser.posOf, loadBookmark, Nat.add_zero]
          rw [this]
          omega
      · refine ⟨fun e h => ?_, fun c h => by cases h⟩
        simp only [Except.error.injEq] at h
        subst h
        trivial
      · rename_i e hne hres
        rw [hres] at hlt2
        refine ⟨fun e' h => ?_, fun c h => by cases h⟩
        simp only [Except.error.injEq] at h
        subst h
        exact hlt2

theorem nu_lt (p : Parser κ) {t : Table} {L : Nat} (hp : PInv t L W p) : p.nu L < 2 * L + 8 := by
  have := posOf_le p hp
  unfold Parser.nu
  split <;> omega

/-- **`Parser::parse`**, both parts together: only `U2` sites remain. -/
theorem parse_post2 {cert : Cert} (hchk : checkCert env.tbl cert = true) (hs : SinkSafe env.ops W inp U1)
    (hs2 : SinkSafe2 env.ops inp) (hw : Wf env.tbl) (last : Bool) (p : Parser κ)
    (hp : PInv env.tbl inp.length W p) (htp : PTok env.tbl cert p) :
    (∀ e, (Parser.parse env inp last p).2 = .error e → ErrOK U2 e) ∧
    (∀ c, (Parser.parse env inp last p).2 = .ok c → last = false → PTok env.tbl cert (Parser.parse env inp last p).1) := by
  have h1 := parse_post hs hw last p hp
  have hnu : p.nu inp.length < 2 * inp.length + 8 := by
    have := posOf_le p hp
    unfold Parser.nu
    split <;> omega
  have h2 := parseLoop_tok hchk hs hs2 hw last _ p hp htp hnu
  unfold Parser.parse at *
  refine ⟨fun e he => ?_, h2.2⟩
  unfold ParsePost at h1
  rw [he] at h1
  exact ErrOK_U2 h1 (h2.1 e he)

theorem PTok_new (t : Table) (cert : Cert) (hchk : checkCert t cert = true) (sink : κ) (d : Directive) (strict : Bool) :
    PTok t cert (Parser.new t sink d strict) := by
  unfold PTok
  cases d
  · simp only [Parser.new, Parser.machine]
    exact TokB_loaded hchk _ .data rfl rfl (LolHtml.Lemmas.Sim.inv_new strict)
  · simp only [Parser.new, Parser.machine]
    exact TokB_loaded hchk _ .data rfl rfl (LolHtml.Lemmas.Sim.inv_new strict)

end

/-! ### transform stream and rewriter -/

variable {γ : Type}

theorem PTok_setSink {t : Table} {cert : Cert} {p : Parser (Disp γ)} (d : Disp γ) (h : PTok t cert p) :
    PTok t cert { p with x := { p.x with sink := d } } := by
  unfold PTok at *
  cases hd : p.directive with
  | lex => simp only [Parser.machine, hd] at h ⊢; exact TokB_congr h rfl rfl rfl rfl rfl
  | scan => simp only [Parser.machine, hd] at h ⊢; exact TokB_congr h rfl rfl rfl rfl rfl

/-- full invariant of the transform stream between calls -/
def SInv2 (w : World γ) (cert : Cert) (s : Stream γ) : Prop := SInv w s ∧ PTok w.tbl cert s.parser

section
variable {w : World γ} {cert : Cert}

theorem Stream.new_SInv2 (hw : Wf w.tbl) (hchk : checkCert w.tbl cert = true) (g : γ) (cfg : Settings) :
    SInv2 w cert (Stream.new w g cfg) :=
  ⟨Stream.new_SInv hw g cfg, by simp only [Stream.new]; exact PTok_new _ _ hchk _ _ _⟩

theorem Stream.keepTail_parser (s : Stream γ) (data chunk : Bytes) (consumed : Nat)
    (h : (s.keepTail w data chunk consumed).2 = .ok ()) : (s.keepTail w data chunk consumed).1.parser = s.parser := by
  unfold Stream.keepTail at h ⊢
  split
  · split
    · split
      · rfl
      · rfl
    · dsimp only at h ⊢
      split
      · rfl
      · rename_i hlt hb hi
        simp only [hlt, hb, if_true, Bool.false_eq_true, if_false, hi] at h
        cases h
  · rfl

theorem Stream.keepTail_errnot (s : Stream γ) (data chunk : Bytes) (consumed : Nat) :
    ∀ e, (s.keepTail w data chunk consumed).2 = .error e → ErrNot T2 e := by
  intro e h
  unfold Stream.keepTail at h
  by_cases hlt : consumed < chunk.length
  · simp only [hlt, if_true] at h
    by_cases hb : s.hasBuffered = true
    · simp only [hb, if_true] at h
      cases hsh : s.buf.shift consumed with
      | some b => rw [hsh] at h; cases h
      | none => rw [hsh] at h; simp only [Except.error.injEq] at h; subst h; simp [ErrNot, T2]
    · have hb' : s.hasBuffered = false := by simpa using hb
      simp only [hb', Bool.false_eq_true, if_false] at h
      by_cases hi : (s.buf.initWith (data.drop consumed)).2 = true
      · simp only [hi, if_true] at h; cases h
      · simp only [hi, Bool.false_eq_true, if_false, Except.error.injEq] at h; subst h; trivial
  · simp only [hlt, if_false] at h; cases h

theorem Disp.finish_errnot (hc : CtlClean w.ctl) (d : Disp γ) (inp : Bytes) :
    ∀ e, (d.finish w.ctl inp).2 = .error e → ErrNot T2 e := by
  intro e h
  unfold Disp.finish at h
  cases hfl : d.flushRemaining inp inp.length with
  | error e' =>
    rw [hfl] at h
    simp only [DRes.ofExcept, DRes.bind, Except.error.injEq] at h
    subst h
    unfold Disp.flushRemaining at hfl
    (repeat' split at hfl) <;> first | (cases hfl; done) | (simp only [Except.error.injEq] at hfl; subst hfl; simp [ErrNot, T2])
  | ok d' =>
    rw [hfl] at h
    simp only [DRes.ofExcept, DRes.bind] at h
    split at h
    · rename_i e' herr
      simp only [Except.error.injEq] at h
      subst h
      exact ErrNot_of_clean (hc.handleEnd _ _ herr)
    · cases h

theorem Stream.write_post2 (hc : CtlClean w.ctl) (hw : Wf w.tbl) (hchk : checkCert w.tbl cert = true)
    (s : Stream γ) (data : Bytes) (hs : SInv2 w cert s) :
    (∀ e, (s.write w data).2 = .error e → ErrOK U2 e) ∧
    ((s.write w data).2 = .ok () → SInv2 w cert (s.write w data).1) := by
  obtain ⟨hs1, hs2⟩ := hs
  obtain ⟨w1, w2⟩ := Stream.write_post hc hw s data hs1
  -- the error and the parser part, by unfolding `write` once more
  have key : (∀ e, (s.write w data).2 = .error e → ErrNot T2 e) ∧
      ((s.write w data).2 = .ok () → PTok w.tbl cert (s.write w data).1.parser) := by
    unfold Stream.write
    cases hcf : s.chunkFor w data with
    | inl s' =>
      refine ⟨fun e h => ?_, fun h => by cases h⟩
      simp only [Except.error.injEq] at h
      subst h
      trivial
    | inr sc =>
      obtain ⟨s1, chunk⟩ := sc
      obtain ⟨c1, c2, c3, c4, c5⟩ := Stream.chunkFor_inr hcf
      dsimp only
      obtain ⟨hrcs, hpinv⟩ := hs1
      have hlen : (if s.hasBuffered then s.buf.data.length else 0) ≤ chunk.length := by
        rw [c1]
        simp only [Stream.pending, List.length_append]
        split <;> omega
      have hp1 : PInv w.tbl chunk.length (fun d : Disp γ => d.rcs) s1.parser := by
        rw [c2]; exact PInv_mono hpinv hlen
      have hpost := parse_post (env := w.env) (inp := chunk) (dispOps_safe hc) hw false s1.parser hp1
      have hpost2 := parseLoop_tok (env := w.env) (inp := chunk) (cert := cert) hchk (dispOps_safe hc) (dispOps_safe2 hc) hw
        false (2 * chunk.length + 8) s1.parser hp1 (by rw [c2]; exact hs2)
        (nu_lt s1.parser hp1)
      unfold ParsePost at hpost
      have hpe : Parser.parse w.env chunk false s1.parser = Parser.parseLoop w.env chunk false (2 * chunk.length + 8) s1.parser := rfl
      cases hpr : (s1.parser.parse w.env chunk false).2 with
      | error e =>
        dsimp only
        refine ⟨fun e' h => ?_, fun h => by cases h⟩
        simp only [Except.error.injEq] at h
        subst h
        exact hpost2.1 e (by rw [← hpe]; exact hpr)
      | ok consumed =>
        rw [hpr] at hpost
        obtain ⟨p1, p2, p3⟩ := hpost
        dsimp only at p1 p2 p3 ⊢
        obtain ⟨d, hfl, hd0⟩ := flushRemaining_ok (Stream.disp { s1 with parser := (s1.parser.parse w.env chunk false).1 })
          chunk consumed p1 p2
        rw [hfl]
        dsimp only
        have hpt := hpost2.2 consumed (by rw [← hpe]; exact hpr) rfl
        rw [← hpe] at hpt
        refine ⟨fun e h => ?_, fun h => ?_⟩
        · exact Stream.keepTail_errnot _ _ _ _ e h
        · rw [Stream.keepTail_parser _ _ _ _ h]
          exact PTok_setSink d hpt
  refine ⟨fun e he => ErrOK_U2 (w1 e he) (key.1 e he), fun h => ⟨w2 h, key.2 h⟩⟩

theorem Stream.end_post2 (hc : CtlClean w.ctl) (hw : Wf w.tbl) (hchk : checkCert w.tbl cert = true)
    (s : Stream γ) (hs : SInv2 w cert s) : ∀ e, (s.end w).2 = .error e → ErrOK U2 e := by
  obtain ⟨hs1, hs2⟩ := hs
  have e1 := Stream.end_post hc hw s hs1
  intro e he
  refine ErrOK_U2 (e1 e he) ?_
  unfold Stream.end at he
  obtain ⟨hrcs, hpinv⟩ := hs1
  have hp1 : PInv w.tbl (if s.hasBuffered then s.buf.data else []).length (fun d : Disp γ => d.rcs) s.parser := by
    split <;> rename_i hb <;> simpa [hb] using hpinv
  have hpost2 := parseLoop_tok (env := w.env) (cert := cert) hchk (dispOps_safe hc) (dispOps_safe2 hc) hw
    true (2 * (if s.hasBuffered then s.buf.data else []).length + 8) s.parser hp1 hs2
    (nu_lt s.parser hp1)
  have hpe : Parser.parse w.env (if s.hasBuffered then s.buf.data else []) true s.parser
      = Parser.parseLoop w.env (if s.hasBuffered then s.buf.data else []) true
          (2 * (if s.hasBuffered then s.buf.data else []).length + 8) s.parser := rfl
  dsimp only at he
  cases hpr : (s.parser.parse w.env (if s.hasBuffered then s.buf.data else []) true).2 with
  | error e' =>
    rw [hpr] at he
    dsimp only at he
    simp only [Except.error.injEq] at he
    subst he
    exact hpost2.1 e' (by rw [← hpe]; exact hpr)
  | ok consumed =>
    rw [hpr] at he
    dsimp only at he
    exact Disp.finish_errnot hc _ _ e he

/-- invariant of the public object -/
def RInv2 (w : World γ) (cert : Cert) (r : Rewriter γ) : Prop := r.poisoned = true ∨ SInv2 w cert r.stream

theorem Rewriter.write_post2 (hc : CtlClean w.ctl) (hw : Wf w.tbl) (hchk : checkCert w.tbl cert = true)
    (r : Rewriter γ) (data : Bytes) (hr : RInv2 w cert r) :
    CallOK U2 (r.write w data).2 ∧ RInv2 w cert (r.write w data).1 := by
  unfold Rewriter.write
  by_cases hp : r.poisoned = true
  · simp only [hp, if_true]
    exact ⟨trivial, Or.inl hp⟩
  · have hs : SInv2 w cert r.stream := by rcases hr with h | h; exact absurd h hp; exact h
    simp only [hp, Bool.false_eq_true, if_false]
    obtain ⟨h1, h2⟩ := Stream.write_post2 hc hw hchk r.stream data hs
    cases hres : (r.stream.write w data).2 with
    | ok u => exact ⟨trivial, Or.inr (h2 hres)⟩
    | error e => exact ⟨h1 e hres, Or.inl rfl⟩

theorem Rewriter.end_post2 (hc : CtlClean w.ctl) (hw : Wf w.tbl) (hchk : checkCert w.tbl cert = true)
    (r : Rewriter γ) (hr : RInv2 w cert r) : CallOK U2 (r.end w).2 := by
  unfold Rewriter.end
  by_cases hp : r.poisoned = true
  · simp only [hp, if_true]
    trivial
  · have hs : SInv2 w cert r.stream := by rcases hr with h | h; exact absurd h hp; exact h
    simp only [hp, Bool.false_eq_true, if_false]
    have h1 := Stream.end_post2 hc hw hchk r.stream hs
    cases hres : (r.stream.end w).2 with
    | ok u => trivial
    | error e => exact h1 e hres

end
end LolHtml.Model
