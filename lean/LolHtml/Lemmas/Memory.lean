/-
Helper lemmas for C10: one specification lemma per modelled Rust function, then the step invariant.
-/
import LolHtml.Model.Memory

namespace LolHtml.Model.Memory

/-- normalise structure projections / list lengths, then linear arithmetic -/
macro "arith" : tactic =>
  `(tactic| ((try simp only [true_and, and_true, eq_self, true_or, or_true, and_self, Arena.len, List.length_append, List.length_drop,
      List.length_nil, Nat.zero_add, Nat.add_zero] at *) <;> omega))

/-! ## Limiter.increase -/

theorem Limiter.increase_ok {l l' : Limiter} {n : Nat} (h : l.increase n = .ok l') :
    l'.usage = l.usage + n ∧ l'.max = l.max ∧ l'.usage ≤ l'.max ∧ l'.usage ≤ usizeMax := by
  unfold Limiter.increase at h
  split at h
  · cases h
  · split at h
    · cases h
    · cases h; arith

theorem Limiter.increase_exceeded {l l' : Limiter} {n : Nat} (h : l.increase n = .exceeded l') :
    l'.usage = l.usage + n ∧ l'.max = l.max ∧ l'.max < l'.usage := by
  unfold Limiter.increase at h
  split at h
  · cases h
  · split at h
    · cases h; arith
    · cases h

theorem Limiter.increase_overflow {l : Limiter} {n : Nat} (h : l.increase n = .overflow) :
    usizeMax < l.usage + n := by
  unfold Limiter.increase at h
  split at h
  · assumption
  · split at h <;> cases h

/-- Same limiter with another limit. -/
def Limiter.withMax (l : Limiter) (M' : Nat) : Limiter := { l with max := M' }

theorem Limiter.increase_ok_mono {l l' : Limiter} {n M' : Nat} (h : l.increase n = .ok l')
    (hM : l.max ≤ M') : (l.withMax M').increase n = .ok (l'.withMax M') := by
  unfold Limiter.increase at h
  split at h
  · cases h
  · split at h
    · cases h
    · cases h
      rename_i h1 h2
      have h3 : ¬ M' < l.usage + n := by omega
      simp [Limiter.increase, Limiter.withMax, h1, h3]

/-! ## Arena -/

theorem Arena.append_ok {l l' : Limiter} {a a' : Arena} {bs : Bytes}
    (h : Arena.append l a bs = .ok (l', a')) :
    l'.max = l.max ∧ a'.data = a.data ++ bs ∧ a.cap ≤ a'.cap ∧
    l'.usage + a.cap = l.usage + a'.cap ∧ a'.len ≤ a'.cap ∧
    ((l' = l ∧ a'.cap = a.cap) ∨ (l'.usage ≤ l'.max ∧ a'.cap ≤ isizeMax)) := by
  unfold Arena.append at h
  split at h
  · split at h
    · cases h
    · simp only at h
      split at h
      · cases h
      · cases h
      · rename_i l'' hinc
        have := Limiter.increase_ok hinc
        split at h
        · cases h
        · cases h
          arith
  · cases h
    arith

theorem Arena.append_err {l l' : Limiter} {a a' : Arena} {bs : Bytes} {c : Nat}
    (h : Arena.append l a bs = .err c (l', a')) :
    l'.max = l.max ∧ a' = a ∧ l'.usage = l.usage + c := by
  unfold Arena.append at h
  split at h
  · split at h
    · cases h
    · simp only at h
      split at h
      · cases h
      · rename_i l'' hinc
        have := Limiter.increase_exceeded hinc
        cases h; arith
      · rename_i l'' hinc
        have := Limiter.increase_ok hinc
        split at h
        · cases h; arith
        · cases h
  · cases h

theorem Arena.append_panic {l : Limiter} {a : Arena} {bs : Bytes} {p : Panic}
    (h : Arena.append l a bs = .panic p) :
    (p = .arithOverflow ∧ usizeMax < bs.length + a.len) ∨
    (p = .usageOverflow ∧ a.cap < a.len + bs.length ∧ usizeMax < l.usage + (bs.length + a.len - a.cap)) := by
  unfold Arena.append at h
  split at h
  · split at h
    · cases h; left; exact ⟨rfl, by assumption⟩
    · simp only at h
      split at h
      · rename_i hinc
        have := Limiter.increase_overflow hinc
        cases h; right; exact ⟨rfl, by assumption, this⟩
      · cases h
      · split at h <;> cases h
  · cases h

theorem Arena.append_ok_mono {l l' : Limiter} {a a' : Arena} {bs : Bytes} {M' : Nat}
    (h : Arena.append l a bs = .ok (l', a')) (hM : l.max ≤ M') :
    Arena.append (l.withMax M') a bs = .ok (l'.withMax M', a') := by
  unfold Arena.append at h ⊢
  split at h
  · rename_i hc
    rw [if_pos hc]
    split at h
    · cases h
    · rename_i ho
      rw [if_neg ho]
      simp only at h ⊢
      split at h
      · cases h
      · cases h
      · rename_i l'' hinc
        rw [Limiter.increase_ok_mono hinc hM]
        simp only
        split at h
        · cases h
        · rename_i hi
          rw [if_neg hi]
          cases h; rfl
  · rename_i hc
    rw [if_neg hc]
    cases h; rfl

theorem Arena.shift_ok {a a' : Arena} {k : Nat} (h : Arena.shift a k = .ok a') :
    k ≤ a.len ∧ a'.cap = a.cap ∧ a'.data = a.data.drop k ∧ a'.len = a.len - k := by
  unfold Arena.shift at h
  split at h
  · cases h
  · cases h
    arith

theorem Arena.shift_not_err {a a' : Arena} {k c : Nat} : Arena.shift a k ≠ .err c a' := by
  unfold Arena.shift
  split <;> simp

theorem Arena.shift_panic {a : Arena} {k : Nat} {p : Panic} (h : Arena.shift a k = .panic p) :
    p = .shiftRange ∧ a.len < k := by
  unfold Arena.shift at h
  split at h
  · cases h; exact ⟨rfl, by assumption⟩
  · cases h

/-! ## LimitedVec -/

theorem minCapacity_pos (n : Nat) : 8 ≤ minCapacity n := by
  unfold minCapacity
  split <;> omega

theorem LimitedVec.push_ok {l l' : Limiter} {v v' : LimitedVec}
    (h : LimitedVec.push l v = .ok (l', v')) :
    l'.max = l.max ∧ v'.itemSize = v.itemSize ∧ v'.len = v.len + 1 ∧ v.cap ≤ v'.cap ∧
    l'.usage + v.cap * v.itemSize = l.usage + v'.cap * v.itemSize ∧ v'.len ≤ v'.cap ∧
    ((l' = l ∧ v'.cap = v.cap) ∨
     (l'.usage ≤ l'.max ∧ v'.cap * v.itemSize ≤ isizeMax ∧ v.len = v.cap ∧
      v'.cap = v.cap + max v.cap (minCapacity v.itemSize))) := by
  unfold LimitedVec.push at h
  split at h
  · cases h; arith
  · simp only at h
    split at h
    · cases h
    · split at h
      · cases h
      · split at h
        · cases h
        · cases h
        · rename_i l'' hinc
          have hi := Limiter.increase_ok hinc
          split at h
          · cases h
          · split at h
            · cases h
            · rename_i hcap hne
              cases h
              simp only
              have hmin := minCapacity_pos v.itemSize
              have hlc : v.len = v.cap := by omega
              have hd : (v.len + max v.cap (minCapacity v.itemSize)) * v.itemSize
                  = v.cap * v.itemSize + max v.cap (minCapacity v.itemSize) * v.itemSize := by
                rw [hlc, Nat.add_mul]
              refine ⟨hi.2.1, trivial, trivial, by omega, by omega, by omega, Or.inr ?_⟩
              refine ⟨hi.2.2.1, by omega, hlc, by omega⟩

theorem LimitedVec.push_err {l l' : Limiter} {v v' : LimitedVec} {c : Nat}
    (h : LimitedVec.push l v = .err c (l', v')) :
    l'.max = l.max ∧ v' = v ∧ l'.usage = l.usage + c := by
  unfold LimitedVec.push at h
  split at h
  · cases h
  · simp only at h
    split at h
    · cases h
    · split at h
      · cases h; simp
      · split at h
        · cases h
        · rename_i l'' hinc
          have := Limiter.increase_exceeded hinc
          cases h; arith
        · rename_i l'' hinc
          have := Limiter.increase_ok hinc
          split at h
          · cases h; arith
          · split at h <;> cases h

theorem LimitedVec.push_panic {l : Limiter} {v : LimitedVec} {p : Panic}
    (h : LimitedVec.push l v = .panic p) :
    ¬ v.len < v.cap ∧
    ((p = .arithOverflow ∧ usizeMax < v.cap + max v.cap (minCapacity v.itemSize)) ∨
     (p = .usageOverflow ∧ max v.cap (minCapacity v.itemSize) * v.itemSize ≤ usizeMax ∧
        usizeMax < l.usage + max v.cap (minCapacity v.itemSize) * v.itemSize) ∨
     (p = .capAssert ∧ v.cap ≠ v.len)) := by
  unfold LimitedVec.push at h
  split at h
  · cases h
  · rename_i hlt
    refine ⟨hlt, ?_⟩
    simp only at h
    split at h
    · cases h; left; exact ⟨rfl, by assumption⟩
    · split at h
      · cases h
      · split at h
        · rename_i hinc
          have := Limiter.increase_overflow hinc
          cases h; right; left; exact ⟨rfl, by omega, this⟩
        · cases h
        · split at h
          · cases h
          · split at h
            · cases h; right; right; exact ⟨rfl, by omega⟩
            · cases h

theorem LimitedVec.push_ok_mono {l l' : Limiter} {v v' : LimitedVec} {M' : Nat}
    (h : LimitedVec.push l v = .ok (l', v')) (hM : l.max ≤ M') :
    LimitedVec.push (l.withMax M') v = .ok (l'.withMax M', v') := by
  unfold LimitedVec.push at h ⊢
  split at h
  · rename_i hc
    rw [if_pos hc]; cases h; rfl
  · rename_i hc
    rw [if_neg hc]
    simp only at h ⊢
    split at h
    · cases h
    · rename_i h1
      rw [if_neg h1]
      split at h
      · cases h
      · rename_i h2
        rw [if_neg h2]
        split at h
        · cases h
        · cases h
        · rename_i l'' hinc
          rw [Limiter.increase_ok_mono hinc hM]
          simp only
          split at h
          · cases h
          · rename_i h3
            rw [if_neg h3]
            split at h
            · cases h
            · rename_i h4
              rw [if_neg h4]
              cases h; rfl

theorem LimitedVec.drainTo_ok {v v' : LimitedVec} {k : Nat} (h : LimitedVec.drainTo v k = .ok v') :
    k ≤ v.len ∧ v'.cap = v.cap ∧ v'.itemSize = v.itemSize ∧ v'.len = k := by
  unfold LimitedVec.drainTo at h
  split at h
  · cases h
  · cases h; arith

theorem LimitedVec.drainTo_not_err {v v' : LimitedVec} {k c : Nat} :
    LimitedVec.drainTo v k ≠ .err c v' := by
  unfold LimitedVec.drainTo
  split <;> simp

theorem LimitedVec.drainTo_panic {v : LimitedVec} {k : Nat} {p : Panic}
    (h : LimitedVec.drainTo v k = .panic p) : p = .drainRange ∧ v.len < k := by
  unfold LimitedVec.drainTo at h
  split at h
  · cases h; exact ⟨rfl, by assumption⟩
  · cases h

/-! ## MemSys: one step -/

/-- Shape invariant of the buffering machine (what `Vec` guarantees plus what the code maintains). -/
structure Inv (s : MemSys) : Prop where
  alen : s.arena.len ≤ s.arena.cap
  vlen : s.vec.len ≤ s.vec.cap
  acap : s.arena.cap ≤ isizeMax
  vcap : s.vec.cap * s.vec.itemSize ≤ isizeMax
  vmin : s.vec.cap = 0 ∨ minCapacity s.vec.itemSize ≤ s.vec.cap

/-- What a successful step guarantees. -/
structure StepOk (s s' : MemSys) : Prop where
  inv : Inv s'
  max : s'.lim.max = s.lim.max
  isz : s'.vec.itemSize = s.vec.itemSize
  acapMono : s.arena.cap ≤ s'.arena.cap
  vcapMono : s.vec.cap ≤ s'.vec.cap
  /-- every byte of growth is charged, and nothing else is -/
  charged : s'.lim.usage + s.allocated = s.lim.usage + s'.allocated
  /-- either nothing was charged or the new usage passed the check -/
  checked : (s'.lim = s.lim ∧ s'.allocated = s.allocated) ∨ s'.lim.usage ≤ s'.lim.max

/-- closes the field goals of `StepOk` once the disjunction of the component lemma is split -/
syntax "stepok" : tactic
syntax "stepokw" term : tactic
macro_rules
  | `(tactic| stepok) =>
    `(tactic| (constructor
               · constructor <;> simp only [MemSys.allocated, true_and, and_true, eq_self, true_or] at * <;> omega
               all_goals simp only [MemSys.allocated, true_and, and_true, eq_self, true_or] at *
               all_goals first
                 | omega
                 | (left; exact ⟨rfl, by omega⟩)
                 | (left; omega)
                 | (right; omega)))
  | `(tactic| stepokw $t) =>
    `(tactic| (constructor
               · constructor <;> simp only [MemSys.allocated, true_and, and_true, eq_self, true_or, $t:term] at * <;> omega
               all_goals simp only [MemSys.allocated, true_and, and_true, eq_self, true_or, $t:term] at *
               all_goals first
                 | omega
                 | (left; exact ⟨rfl, by omega⟩)
                 | (left; omega)
                 | (right; omega)))

theorem MemSys.step_ok {s s' : MemSys} {op : Op} (h : s.step op = .ok s') (hi : Inv s) :
    StepOk s s' := by
  obtain ⟨h1, h2, h3, h4, h5⟩ := hi
  cases op with
  | append bs =>
    simp only [MemSys.step] at h
    split at h
    · rename_i l a heq
      obtain ⟨p1, p2, p3, p4, p5, p6⟩ := Arena.append_ok heq
      cases h
      rcases p6 with ⟨e, pc⟩ | ⟨pu, pc⟩
      · subst e; stepok
      · stepok
    · cases h
    · cases h
  | initWith bs =>
    simp only [MemSys.step, Arena.initWith] at h
    split at h
    · rename_i l a heq
      obtain ⟨p1, p2, p3, p4, p5, p6⟩ := Arena.append_ok heq
      cases h
      rcases p6 with ⟨e, pc⟩ | ⟨pu, pc⟩
      · subst e; stepok
      · stepok
    · cases h
    · cases h
  | shift k =>
    simp only [MemSys.step] at h
    split at h
    · rename_i a heq
      obtain ⟨p1, p2, p3, p4⟩ := Arena.shift_ok heq
      cases h
      stepok
    · cases h
    · cases h
  | push =>
    simp only [MemSys.step] at h
    split at h
    · rename_i l v heq
      obtain ⟨p1, p2, p3, p4, p5, p6, p7⟩ := LimitedVec.push_ok heq
      have hmin := minCapacity_pos s.vec.itemSize
      cases h
      rcases p7 with ⟨e, pc⟩ | ⟨pu, pc, pl, pg⟩
      · subst e
        stepokw p2
      · stepokw p2
    · cases h
    · cases h
  | drainTo k =>
    simp only [MemSys.step] at h
    split at h
    · rename_i v heq
      obtain ⟨p1, p2, p3, p4⟩ := LimitedVec.drainTo_ok heq
      cases h
      obtain ⟨vc, vl, vi⟩ := v
      simp only at p2 p3 p4
      subst p2 p3 p4
      stepok
    · cases h
    · cases h

/-- What a failed step guarantees: nothing grew, the charge stays. -/
structure StepErr (s s' : MemSys) (c : Nat) : Prop where
  inv : Inv s'
  max : s'.lim.max = s.lim.max
  vec : s'.vec = s.vec
  acap : s'.arena.cap = s.arena.cap
  alen : s'.arena.len ≤ s.arena.len
  usage : s'.lim.usage = s.lim.usage + c

theorem MemSys.step_err {s s' : MemSys} {op : Op} {c : Nat} (h : s.step op = .err c s')
    (hi : Inv s) : StepErr s s' c := by
  obtain ⟨h1, h2, h3, h4, h5⟩ := hi
  cases op with
  | append bs =>
    simp only [MemSys.step] at h
    split at h
    · cases h
    · rename_i c' l a heq
      obtain ⟨p1, p2, p3⟩ := Arena.append_err heq
      cases h; subst p2
      constructor
      · constructor <;> assumption
      all_goals first | rfl | assumption | omega | (simp only; omega)
    · cases h
  | initWith bs =>
    simp only [MemSys.step, Arena.initWith] at h
    split at h
    · cases h
    · rename_i c' l a heq
      obtain ⟨p1, p2, p3⟩ := Arena.append_err heq
      cases h; subst p2
      constructor
      · constructor <;> first | assumption | (simp only [Arena.len, List.length_nil]; omega)
      all_goals first | rfl | assumption | (simp only [Arena.len, List.length_nil]; omega)
    · cases h
  | shift k =>
    simp only [MemSys.step] at h
    split at h
    · cases h
    · rename_i heq; exact absurd heq Arena.shift_not_err
    · cases h
  | push =>
    simp only [MemSys.step] at h
    split at h
    · cases h
    · rename_i c' l v heq
      obtain ⟨p1, p2, p3⟩ := LimitedVec.push_err heq
      cases h; subst p2
      constructor
      · constructor <;> assumption
      all_goals first | rfl | assumption | omega | (simp only; omega)
    · cases h
  | drainTo k =>
    simp only [MemSys.step] at h
    split at h
    · cases h
    · rename_i heq; exact absurd heq LimitedVec.drainTo_not_err
    · cases h

/-- The panics of a step, with the exact condition of each. -/
theorem MemSys.step_panic {s : MemSys} {op : Op} {p : Panic} (h : s.step op = .panic p) :
    (∃ k, op = .shift k ∧ p = .shiftRange ∧ s.arena.len < k) ∨
    (∃ k, op = .drainTo k ∧ p = .drainRange ∧ s.vec.len < k) ∨
    (∃ bs, (op = .append bs ∧ usizeMax < bs.length + s.arena.len ∨ op = .initWith bs ∧ usizeMax < bs.length)
        ∧ p = .arithOverflow) ∨
    (∃ bs, op = .append bs ∧ p = .usageOverflow ∧ s.arena.cap < s.arena.len + bs.length ∧
        usizeMax < s.lim.usage + (bs.length + s.arena.len - s.arena.cap)) ∨
    (∃ bs, op = .initWith bs ∧ p = .usageOverflow ∧ s.arena.cap < bs.length ∧
        usizeMax < s.lim.usage + (bs.length - s.arena.cap)) ∨
    (op = .push ∧ ¬ s.vec.len < s.vec.cap ∧
      ((p = .arithOverflow ∧ usizeMax < s.vec.cap + max s.vec.cap (minCapacity s.vec.itemSize)) ∨
       (p = .usageOverflow ∧ max s.vec.cap (minCapacity s.vec.itemSize) * s.vec.itemSize ≤ usizeMax ∧
          usizeMax < s.lim.usage + max s.vec.cap (minCapacity s.vec.itemSize) * s.vec.itemSize) ∨
       (p = .capAssert ∧ s.vec.cap ≠ s.vec.len))) := by
  cases op with
  | append bs =>
    simp only [MemSys.step] at h
    split at h
    · cases h
    · cases h
    · rename_i p' heq
      cases h
      rcases Arena.append_panic heq with ⟨rfl, h1⟩ | ⟨rfl, h1, h2⟩
      · right; right; left; exact ⟨bs, Or.inl ⟨rfl, h1⟩, rfl⟩
      · right; right; right; left; exact ⟨bs, rfl, rfl, h1, h2⟩
  | initWith bs =>
    simp only [MemSys.step, Arena.initWith] at h
    split at h
    · cases h
    · cases h
    · rename_i p' heq
      cases h
      rcases Arena.append_panic heq with ⟨rfl, h1⟩ | ⟨rfl, h1, h2⟩
      · right; right; left
        refine ⟨bs, Or.inr ⟨rfl, ?_⟩, rfl⟩
        simpa [Arena.len] using h1
      · right; right; right; right; left
        refine ⟨bs, rfl, rfl, ?_, ?_⟩
        · simpa [Arena.len] using h1
        · simpa [Arena.len] using h2
  | shift k =>
    simp only [MemSys.step] at h
    split at h
    · cases h
    · cases h
    · rename_i p' heq
      cases h
      obtain ⟨rfl, h1⟩ := Arena.shift_panic heq
      left; exact ⟨k, rfl, rfl, h1⟩
  | push =>
    simp only [MemSys.step] at h
    split at h
    · cases h
    · cases h
    · rename_i p' heq
      cases h
      right; right; right; right; right
      exact ⟨rfl, LimitedVec.push_panic heq⟩
  | drainTo k =>
    simp only [MemSys.step] at h
    split at h
    · cases h
    · cases h
    · rename_i p' heq
      cases h
      obtain ⟨rfl, h1⟩ := LimitedVec.drainTo_panic heq
      right; left; exact ⟨k, rfl, rfl, h1⟩

/-- Same machine with another limit. -/
def MemSys.withMax (s : MemSys) (M' : Nat) : MemSys := { s with lim := s.lim.withMax M' }

theorem MemSys.step_ok_mono {s s' : MemSys} {op : Op} {M' : Nat} (h : s.step op = .ok s')
    (hM : s.lim.max ≤ M') : (s.withMax M').step op = .ok (s'.withMax M') := by
  cases op with
  | append bs =>
    simp only [MemSys.step] at h
    split at h
    · rename_i l a heq
      cases h
      simp only [MemSys.step, MemSys.withMax, Arena.append_ok_mono heq hM]
    · cases h
    · cases h
  | initWith bs =>
    simp only [MemSys.step, Arena.initWith] at h
    split at h
    · rename_i l a heq
      cases h
      simp only [MemSys.step, Arena.initWith, MemSys.withMax, Arena.append_ok_mono heq hM]
    · cases h
    · cases h
  | shift k =>
    simp only [MemSys.step] at h
    split at h
    · rename_i a heq
      cases h
      simp only [MemSys.step, MemSys.withMax, heq]
    · cases h
    · cases h
  | push =>
    simp only [MemSys.step] at h
    split at h
    · rename_i l v heq
      cases h
      simp only [MemSys.step, MemSys.withMax, LimitedVec.push_ok_mono heq hM]
    · cases h
    · cases h
  | drainTo k =>
    simp only [MemSys.step] at h
    split at h
    · rename_i v heq
      cases h
      simp only [MemSys.step, MemSys.withMax, heq]
    · cases h
    · cases h

/-! ## no panic on a step (before the first failure) -/

theorem minCapacity_le (i : Nat) : minCapacity i ≤ 128 := by
  unfold minCapacity
  split
  · exact Nat.div_le_self 128 i
  · omega

theorem minCapacity_mul_le (i : Nat) : minCapacity i * i ≤ 128 ∨ minCapacity i * i = 8 * i := by
  unfold minCapacity
  split
  · left; exact Nat.div_mul_le_self 128 i
  · right; rfl

/-- Before the first failure (`usage = allocated ≤ max`) a step whose caller respects the contract
    never panics, provided the limit is at most `isize::MAX` (and the minimal stack allocation is a
    legal allocation) — or, for any limit, provided twice the memory held plus the incoming slice
    fits the address space. -/
theorem MemSys.step_no_panic {s : MemSys} {op : Op} (hi : Inv s)
    (hacc : s.lim.usage = s.allocated) (hle : s.lim.usage ≤ s.lim.max)
    (hpos : 0 < s.vec.itemSize) (hop : op.Contract s)
    (hfit : (s.lim.max ≤ isizeMax ∧ 8 * s.vec.itemSize ≤ isizeMax) ∨
            2 * s.allocated + op.incoming + 8 * s.vec.itemSize + 128 ≤ usizeMax)
    (p : Panic) : s.step op ≠ .panic p := by
  intro h
  obtain ⟨h1, h2, h3, h4, h5⟩ := hi
  have hu : usizeMax = 18446744073709551615 := rfl
  have hs : isizeMax = 9223372036854775807 := rfl
  have hcap : s.vec.cap ≤ s.vec.cap * s.vec.itemSize := Nat.le_mul_of_pos_right _ hpos
  have hm1 := minCapacity_le s.vec.itemSize
  have hm2 := minCapacity_pos s.vec.itemSize
  have hm3 := minCapacity_mul_le s.vec.itemSize
  simp only [MemSys.allocated] at hacc hfit
  rcases MemSys.step_panic h with ⟨k, rfl, _, hk⟩ | ⟨k, rfl, _, hk⟩ | ⟨bs, hb, _⟩ | ⟨bs, rfl, _, hc, ho⟩ |
      ⟨bs, rfl, _, hc, ho⟩ | ⟨rfl, hnl, hp⟩
  · simp only [Op.Contract] at hop; omega
  · simp only [Op.Contract] at hop; omega
  · rcases hb with ⟨rfl, hb⟩ | ⟨rfl, hb⟩ <;> simp only [Op.Contract] at hop <;> omega
  · simp only [Op.Contract, Op.incoming] at hop hfit; omega
  · simp only [Op.Contract, Op.incoming] at hop hfit; omega
  · simp only [Op.incoming] at hfit
    rcases hp with ⟨_, ho⟩ | ⟨_, hmul, ho⟩ | ⟨_, hne⟩
    · omega
    · -- the charge is either the current capacity in bytes or the minimal allocation
      rcases Nat.le_total (minCapacity s.vec.itemSize) s.vec.cap with hge | hlt
      · rw [Nat.max_eq_left hge] at ho hmul
        omega
      · rw [Nat.max_eq_right hlt] at ho hmul
        omega
    · omega

/-! ## runs -/

/-- Induction principle over a run: a predicate preserved by `Ok` steps and by `Err` steps holds in
    every state of the trace and in the final state. -/
theorem MemSys.run_invariant (P : MemSys → Prop)
    (hok : ∀ s s' op, P s → s.step op = .ok s' → P s')
    (herr : ∀ s s' op c, P s → s.step op = .err c s' → P s') :
    ∀ (ops : List Op) (s : MemSys), P s → (∀ x ∈ s.run ops, P x.2) ∧ P (s.final ops) := by
  intro ops
  induction ops with
  | nil => intro s hs; exact ⟨by simp [MemSys.run], by simpa [MemSys.final] using hs⟩
  | cons op rest ih =>
    intro s hs
    cases hst : s.step op with
    | ok s' =>
      have hs' := hok s s' op hs hst
      obtain ⟨i1, i2⟩ := ih s' hs'
      simp only [MemSys.run, MemSys.final, hst, List.mem_cons]
      refine ⟨?_, i2⟩
      rintro x (rfl | hx)
      · exact hs'
      · exact i1 x hx
    | err c s' =>
      have hs' := herr s s' op c hs hst
      obtain ⟨i1, i2⟩ := ih s' hs'
      simp only [MemSys.run, MemSys.final, hst, List.mem_cons]
      refine ⟨?_, i2⟩
      rintro x (rfl | hx)
      · exact hs'
      · exact i1 x hx
    | panic p =>
      simp only [MemSys.run, MemSys.final, hst, List.mem_singleton]
      refine ⟨?_, hs⟩
      rintro x rfl
      exact hs

/-- `final` is the last state of `run`. -/
theorem MemSys.final_eq_last (ops : List Op) (s : MemSys) :
    s.final ops = ((s.run ops).getLast?.map Prod.snd).getD s := by
  induction ops generalizing s with
  | nil => simp [MemSys.final, MemSys.run]
  | cons op rest ih =>
    cases hst : s.step op with
    | ok s' =>
      simp only [MemSys.final, MemSys.run, hst, ih s']
      cases hr : s'.run rest with
      | nil => simp
      | cons y ys =>
        obtain ⟨z, hz⟩ : ∃ z, (y :: ys).getLast? = some z :=
          ⟨_, List.getLast?_eq_some_getLast (List.cons_ne_nil y ys)⟩
        simp [List.getLast?_cons_cons, hz]
    | err c s' =>
      simp only [MemSys.final, MemSys.run, hst, ih s']
      cases hr : s'.run rest with
      | nil => simp
      | cons y ys =>
        obtain ⟨z, hz⟩ : ∃ z, (y :: ys).getLast? = some z :=
          ⟨_, List.getLast?_eq_some_getLast (List.cons_ne_nil y ys)⟩
        simp [List.getLast?_cons_cons, hz]
    | panic p => simp [MemSys.final, MemSys.run, hst]

/-- The invariant carried along every run. -/
structure Good (M i : Nat) (s : MemSys) : Prop where
  inv : Inv s
  max : s.lim.max = M
  isz : s.vec.itemSize = i
  /-- everything held has been charged -/
  charged : s.allocated ≤ s.lim.usage
  /-- and what is held is within the limit, whatever failed before -/
  held : s.allocated ≤ M

theorem Good.step_ok {M i : Nat} {s s' : MemSys} {op : Op} (g : Good M i s)
    (h : s.step op = .ok s') : Good M i s' := by
  obtain ⟨inv, hm, hi, hc, hh⟩ := g
  obtain ⟨inv', m', i', _, _, ch, ck⟩ := MemSys.step_ok h inv
  refine ⟨inv', by omega, by omega, by omega, ?_⟩
  rcases ck with ⟨_, e⟩ | e <;> omega

theorem Good.step_err {M i : Nat} {s s' : MemSys} {op : Op} {c : Nat} (g : Good M i s)
    (h : s.step op = .err c s') : Good M i s' := by
  obtain ⟨inv, hm, hi, hc, hh⟩ := g
  obtain ⟨inv', m', v', a', _, u'⟩ := MemSys.step_err h inv
  simp only [MemSys.allocated] at *
  refine ⟨inv', by omega, by rw [v']; exact hi, ?_, ?_⟩ <;> simp only [MemSys.allocated, v', a'] <;> omega

theorem Good.run {M i : Nat} (ops : List Op) {s : MemSys} (g : Good M i s) :
    (∀ x ∈ s.run ops, Good M i x.2) ∧ Good M i (s.final ops) :=
  MemSys.run_invariant (Good M i) (fun _ _ _ g h => g.step_ok h) (fun _ _ _ _ g h => g.step_err h) ops s g

/-- Accounting along a run: usage = held + initial slack + charges of the failed operations. -/
theorem MemSys.run_accounting (ops : List Op) : ∀ (s : MemSys) (f : Nat), Inv s →
    s.lim.usage = s.allocated + f →
    (s.final ops).lim.usage = (s.final ops).allocated + f + failedCharges (s.run ops) := by
  induction ops with
  | nil => intro s f _ h; simp [MemSys.final, MemSys.run, failedCharges, h]
  | cons op rest ih =>
    intro s f hi h
    cases hst : s.step op with
    | ok s' =>
      obtain ⟨inv', _, _, _, _, ch, _⟩ := MemSys.step_ok hst hi
      have := ih s' f inv' (by omega)
      simp only [MemSys.final, MemSys.run, hst, failedCharges]
      exact this
    | err c s' =>
      obtain ⟨inv', _, v', a', _, u'⟩ := MemSys.step_err hst hi
      have hal : s'.allocated = s.allocated := by simp only [MemSys.allocated, v', a']
      have := ih s' (f + c) inv' (by omega)
      simp only [MemSys.final, MemSys.run, hst, failedCharges]
      omega
    | panic p =>
      simp only [MemSys.final, MemSys.run, hst, failedCharges]
      omega

/-- Capacities never shrink along a run. -/
theorem MemSys.run_caps_mono (ops : List Op) : ∀ (s : MemSys), Inv s →
    ∀ x ∈ s.run ops, s.arena.cap ≤ x.2.arena.cap ∧ s.vec.cap ≤ x.2.vec.cap := by
  induction ops with
  | nil => intro s _ x hx; simp [MemSys.run] at hx
  | cons op rest ih =>
    intro s hi x hx
    cases hst : s.step op with
    | ok s' =>
      obtain ⟨inv', _, _, am, vm, _, _⟩ := MemSys.step_ok hst hi
      simp only [MemSys.run, hst, List.mem_cons] at hx
      rcases hx with rfl | hx
      · exact ⟨am, vm⟩
      · have := ih s' inv' x hx; omega
    | err c s' =>
      obtain ⟨inv', _, v', a', _, _⟩ := MemSys.step_err hst hi
      simp only [MemSys.run, hst, List.mem_cons] at hx
      rcases hx with rfl | hx
      · simp only [v', a']; omega
      · have := ih s' inv' x hx; rw [v', a'] at this; exact this
    | panic p =>
      simp only [MemSys.run, hst, List.mem_singleton] at hx
      subst hx; simp

/-- Before the first failure: usage = held ≤ limit. -/
structure Clean (s : MemSys) : Prop where
  inv : Inv s
  exact : s.lim.usage = s.allocated
  within : s.lim.usage ≤ s.lim.max

theorem Clean.step_ok {s s' : MemSys} {op : Op} (c : Clean s) (h : s.step op = .ok s') :
    Clean s' := by
  obtain ⟨inv, he, hw⟩ := c
  obtain ⟨inv', m', _, _, _, ch, ck⟩ := MemSys.step_ok h inv
  refine ⟨inv', by omega, ?_⟩
  rcases ck with ⟨e, _⟩ | e
  · rw [e]; exact hw
  · exact e

theorem Clean.allOk (ops : List Op) : ∀ {s : MemSys}, Clean s → s.AllOk ops →
    Clean (s.final ops) ∧ (s.final ops).lim.max = s.lim.max ∧
    (s.final ops).vec.itemSize = s.vec.itemSize := by
  induction ops with
  | nil => intro s c _; simpa [MemSys.final] using c
  | cons op rest ih =>
    intro s c h
    cases hst : s.step op with
    | ok s' =>
      simp only [MemSys.AllOk, hst] at h
      obtain ⟨_, m', i', _, _, _, _⟩ := MemSys.step_ok hst c.inv
      obtain ⟨r1, r2, r3⟩ := ih (c.step_ok hst) h
      simp only [MemSys.final, hst]
      exact ⟨r1, by omega, by omega⟩
    | err c' s' => simp [MemSys.AllOk, hst] at h
    | panic p => simp [MemSys.AllOk, hst] at h

/-- Raising the limit does not change a run in which every operation succeeds. -/
theorem MemSys.allOk_mono (ops : List Op) : ∀ {s : MemSys} {M' : Nat}, s.lim.max ≤ M' →
    s.AllOk ops → (s.withMax M').AllOk ops ∧ (s.withMax M').final ops = (s.final ops).withMax M' ∧
      (s.withMax M').run ops = (s.run ops).map (fun x => (x.1, x.2.withMax M')) := by
  induction ops with
  | nil => intro s M' _ _; simp [MemSys.AllOk, MemSys.final, MemSys.run]
  | cons op rest ih =>
    intro s M' hM h
    cases hst : s.step op with
    | ok s' =>
      simp only [MemSys.AllOk, hst] at h
      have hmax : s'.lim.max = s.lim.max := by
        cases op <;> simp only [MemSys.step] at hst <;> split at hst <;> cases hst <;> rename_i heq
        · exact (Arena.append_ok heq).1
        · exact (Arena.append_ok heq).1
        · rfl
        · exact (LimitedVec.push_ok heq).1
        · rfl
      have hst' := MemSys.step_ok_mono hst hM
      obtain ⟨r1, r2, r3⟩ := ih (s := s') (M' := M') (by omega) h
      simp only [MemSys.AllOk, MemSys.final, MemSys.run, hst, hst', List.map_cons]
      exact ⟨r1, r2, by rw [r3]⟩
    | err c' s' => simp [MemSys.AllOk, hst] at h
    | panic p => simp [MemSys.AllOk, hst] at h

/-! ## monotonicity in the limit when the initial capacities differ (simulation) -/

theorem Limiter.increase_ok_sim {l l1 l' : Limiter} {n : Nat} (h : l.increase n = .ok l1)
    (hroom : l.max + l'.usage ≤ l'.max + l.usage) (hU : l'.max ≤ usizeMax) :
    l'.increase n = .ok { l' with usage := l'.usage + n } := by
  obtain ⟨h1, h2, h3, _⟩ := Limiter.increase_ok h
  have a1 : ¬ usizeMax < l'.usage + n := by omega
  have a2 : ¬ l'.max < l'.usage + n := by omega
  simp [Limiter.increase, a1, a2]

/-- What a successful `append` tells: either nothing had to grow, or the growth was charged within
    the limit and is a legal allocation. -/
theorem Arena.append_ok_nec {l l1 : Limiter} {a a1 : Arena} {bs : Bytes}
    (h : Arena.append l a bs = .ok (l1, a1)) :
    a1.data = a.data ++ bs ∧ l1.max = l.max ∧
    ((¬ a.cap < a.len + bs.length ∧ l1 = l ∧ a1.cap = a.cap) ∨
     (a.cap < a.len + bs.length ∧ a1.cap = a.len + bs.length ∧
      l1.usage = l.usage + (bs.length + a.len - a.cap) ∧ l1.usage ≤ l.max ∧
      a.len + bs.length ≤ isizeMax ∧ bs.length + a.len ≤ usizeMax)) := by
  unfold Arena.append at h
  split at h
  · rename_i hc
    split at h
    · cases h
    · rename_i ho
      simp only at h
      split at h
      · cases h
      · cases h
      · rename_i l'' hinc
        obtain ⟨i1, i2, i3, _⟩ := Limiter.increase_ok hinc
        split at h
        · cases h
        · rename_i hi
          cases h
          refine ⟨rfl, i2, Or.inr ⟨hc, rfl, i1, by omega, by omega, by omega⟩⟩
  · rename_i hc
    cases h
    exact ⟨rfl, rfl, Or.inl ⟨hc, rfl, rfl⟩⟩

theorem Arena.append_suf_nogrow {l : Limiter} {a : Arena} {bs : Bytes}
    (hc : ¬ a.cap < a.len + bs.length) :
    Arena.append l a bs = .ok (l, { a with data := a.data ++ bs }) := by
  simp [Arena.append, hc]

theorem Arena.append_suf_grow {l : Limiter} {a : Arena} {bs : Bytes}
    (hc : a.cap < a.len + bs.length) (h1 : bs.length + a.len ≤ usizeMax)
    (h2 : l.usage + (bs.length + a.len - a.cap) ≤ l.max) (h3 : l.max ≤ usizeMax)
    (h4 : a.len + bs.length ≤ isizeMax) :
    Arena.append l a bs =
      .ok ({ l with usage := l.usage + (bs.length + a.len - a.cap) },
           { cap := a.len + bs.length, data := a.data ++ bs }) := by
  have a0 : ¬ usizeMax < bs.length + a.len := by omega
  have a1 : ¬ usizeMax < l.usage + (bs.length + a.len - a.cap) := by omega
  have a2 : ¬ l.max < l.usage + (bs.length + a.len - a.cap) := by omega
  have a3 : ¬ isizeMax < a.len + bs.length := by omega
  simp [Arena.append, Limiter.increase, hc, a0, a1, a2, a3]

/-- `push` under another limiter with at least as much headroom succeeds with the same vector. -/
theorem LimitedVec.push_ok_sim {l l1 l' : Limiter} {v v1 : LimitedVec}
    (h : LimitedVec.push l v = .ok (l1, v1))
    (hroom : l.max + l'.usage ≤ l'.max + l.usage) (hU : l'.max ≤ usizeMax) :
    ∃ l1', LimitedVec.push l' v = .ok (l1', v1) ∧ l1'.max = l'.max ∧ l1.max = l.max ∧
      l1'.usage + l.usage = l'.usage + l1.usage ∧ l.usage ≤ l1.usage ∧
      (l1.usage = l.usage ∨ l1.usage ≤ l1.max) := by
  unfold LimitedVec.push at h ⊢
  split at h
  · rename_i hc
    rw [if_pos hc]; cases h
    exact ⟨l', rfl, rfl, rfl, by omega, by omega, Or.inl rfl⟩
  · rename_i hc
    rw [if_neg hc]
    simp only at h ⊢
    split at h
    · cases h
    · rename_i h1
      rw [if_neg h1]
      split at h
      · cases h
      · rename_i h2
        rw [if_neg h2]
        split at h
        · cases h
        · cases h
        · rename_i l'' hinc
          obtain ⟨i1, i2, i3, _⟩ := Limiter.increase_ok hinc
          rw [Limiter.increase_ok_sim hinc hroom hU]
          simp only
          split at h
          · cases h
          · rename_i h3
            rw [if_neg h3]
            split at h
            · cases h
            · rename_i h4
              rw [if_neg h4]
              cases h
              exact ⟨_, rfl, rfl, i2, by simp only; omega, by omega, Or.inr i3⟩

/-- Simulation relation between the same run under a limit `M` (state `s`) and under a limit
    `M' ≥ M` (state `s'`), whose initial buffer capacities may differ: same buffered bytes, same
    stack, at least as much headroom (`M − usage ≤ M' − usage'`), and at least as much affordable
    buffer length (`M − usage + cap ≤ M' − usage' + cap'`). -/
structure Sim (s s' : MemSys) : Prop where
  data : s'.arena.data = s.arena.data
  vec : s'.vec = s.vec
  clean : s.lim.usage ≤ s.lim.max
  clean' : s'.lim.usage ≤ s'.lim.max
  room : s.lim.max + s'.lim.usage ≤ s'.lim.max + s.lim.usage
  afford : s.lim.max + s.arena.cap + s'.lim.usage ≤ s'.lim.max + s'.arena.cap + s.lim.usage
  cap : s.arena.cap ≤ isizeMax
  cap' : s'.arena.cap ≤ isizeMax
  maxU : s'.lim.max ≤ usizeMax

theorem Arena.append_sim {l l1 l' : Limiter} {a a1 a' : Arena} {bs : Bytes}
    (h : Arena.append l a bs = .ok (l1, a1)) (hd : a'.data = a.data)
    (hclean : l.usage ≤ l.max) (hclean' : l'.usage ≤ l'.max)
    (hroom : l.max + l'.usage ≤ l'.max + l.usage)
    (haff : l.max + a.cap + l'.usage ≤ l'.max + a'.cap + l.usage)
    (hcap : a.cap ≤ isizeMax) (hcap' : a'.cap ≤ isizeMax) (hU : l'.max ≤ usizeMax) :
    ∃ l1' a1', Arena.append l' a' bs = .ok (l1', a1') ∧ a1'.data = a1.data ∧
      l1.max = l.max ∧ l1'.max = l'.max ∧ l1.usage ≤ l1.max ∧ l1'.usage ≤ l1'.max ∧
      l1.max + l1'.usage ≤ l1'.max + l1.usage ∧
      l1.max + a1.cap + l1'.usage ≤ l1'.max + a1'.cap + l1.usage ∧
      a1.cap ≤ isizeMax ∧ a1'.cap ≤ isizeMax := by
  have hs : isizeMax = 9223372036854775807 := rfl
  have hu : usizeMax = 18446744073709551615 := rfl
  have hlen : a'.len = a.len := by simp only [Arena.len, hd]
  obtain ⟨n1, n2, n3⟩ := Arena.append_ok_nec h
  by_cases hc' : a'.cap < a'.len + bs.length
  · -- the run under M' has to grow its buffer
    have key : bs.length + a'.len ≤ usizeMax ∧ l'.usage + (bs.length + a'.len - a'.cap) ≤ l'.max ∧
        a'.len + bs.length ≤ isizeMax := by
      rcases n3 with ⟨g1, g2, g3⟩ | ⟨g1, g2, g3, g4, g5, g6⟩
      · subst g2; omega
      · omega
    refine ⟨_, _, Arena.append_suf_grow hc' key.1 key.2.1 hU key.2.2, ?_⟩
    rcases n3 with ⟨g1, g2, g3⟩ | ⟨g1, g2, g3, g4, g5, g6⟩
    · subst g2
      refine ⟨by simp only [n1, hd], ?_, ?_, ?_, ?_, ?_, ?_, ?_, ?_⟩ <;>
        first | rfl | assumption | omega | (simp only; omega)
    · refine ⟨by simp only [n1, hd], ?_, ?_, ?_, ?_, ?_, ?_, ?_, ?_⟩ <;>
        first | rfl | assumption | omega | (simp only; omega)
  · refine ⟨_, _, Arena.append_suf_nogrow hc', ?_⟩
    rcases n3 with ⟨g1, g2, g3⟩ | ⟨g1, g2, g3, g4, g5, g6⟩
    · subst g2
      refine ⟨by simp only [n1, hd], ?_, ?_, ?_, ?_, ?_, ?_, ?_, ?_⟩ <;>
        first | rfl | assumption | omega | (simp only; omega)
    · refine ⟨by simp only [n1, hd], ?_, ?_, ?_, ?_, ?_, ?_, ?_, ?_⟩ <;>
        first | rfl | assumption | omega | (simp only; omega)

theorem MemSys.step_sim {s s' t : MemSys} {op : Op} (r : Sim s s') (h : s.step op = .ok t) :
    ∃ t', s'.step op = .ok t' ∧ Sim t t' := by
  obtain ⟨rd, rv, rc, rc', rr, ra, rk, rk', ru⟩ := r
  cases op with
  | append bs =>
    simp only [MemSys.step] at h
    split at h
    · rename_i l a heq
      cases h
      obtain ⟨l1', a1', e, q1, q2, q3, q4, q5, q6, q7, q8, q9⟩ :=
        Arena.append_sim heq rd rc rc' rr ra rk rk' ru
      refine ⟨{ s' with lim := l1', arena := a1' }, by simp only [MemSys.step, e], ?_⟩
      exact ⟨q1, rv, q4, q5, q6, q7, q8, q9, by simp only; omega⟩
    · cases h
    · cases h
  | initWith bs =>
    simp only [MemSys.step, Arena.initWith] at h
    split at h
    · rename_i l a heq
      cases h
      obtain ⟨l1', a1', e, q1, q2, q3, q4, q5, q6, q7, q8, q9⟩ :=
        Arena.append_sim (a' := { s'.arena with data := [] }) heq rfl rc rc' rr ra rk rk' ru
      refine ⟨{ s' with lim := l1', arena := a1' }, by simp only [MemSys.step, Arena.initWith, e], ?_⟩
      exact ⟨q1, rv, q4, q5, q6, q7, q8, q9, by simp only; omega⟩
    · cases h
    · cases h
  | shift k =>
    simp only [MemSys.step] at h
    split at h
    · rename_i a heq
      cases h
      obtain ⟨p1, p2, p3, p4⟩ := Arena.shift_ok heq
      have hk : ¬ s'.arena.len < k := by simp only [Arena.len, rd] at *; omega
      refine ⟨{ s' with arena := { s'.arena with data := s'.arena.data.drop k } },
        by simp only [MemSys.step, Arena.shift, if_neg hk], ?_⟩
      exact ⟨by simp only [rd, p3], rv, rc, rc', rr, by simp only [p2]; exact ra,
        by simp only [p2]; exact rk, rk', ru⟩
    · cases h
    · cases h
  | push =>
    simp only [MemSys.step] at h
    split at h
    · rename_i l v heq
      cases h
      obtain ⟨l1', e, q1, q2, q3, q4, q5⟩ := LimitedVec.push_ok_sim (l' := s'.lim) heq rr ru
      refine ⟨{ s' with lim := l1', vec := v }, by simp only [MemSys.step, rv, e], ?_⟩
      exact ⟨rd, rfl, by simp only; omega, by simp only; omega, by simp only; omega,
        by simp only; omega, rk, rk', by simp only; omega⟩
    · cases h
    · cases h
  | drainTo k =>
    simp only [MemSys.step] at h
    split at h
    · rename_i v heq
      cases h
      refine ⟨{ s' with vec := v }, by simp only [MemSys.step, rv, heq], ?_⟩
      exact ⟨rd, rfl, rc, rc', rr, ra, rk, rk', ru⟩
    · cases h
    · cases h

/-- What a caller can see of a trace entry besides the accounting: result, buffered bytes, stack. -/
def view (x : Res × MemSys) : Res × Bytes × LimitedVec := (x.1, x.2.arena.data, x.2.vec)

theorem MemSys.allOk_sim (ops : List Op) : ∀ {s s' : MemSys}, Sim s s' → s.AllOk ops →
    s'.AllOk ops ∧ Sim (s.final ops) (s'.final ops) ∧ (s'.run ops).map view = (s.run ops).map view := by
  induction ops with
  | nil => intro s s' r _; exact ⟨trivial, by simpa [MemSys.final] using r, by simp [MemSys.run]⟩
  | cons op rest ih =>
    intro s s' r h
    cases hst : s.step op with
    | ok t =>
      simp only [MemSys.AllOk, hst] at h
      obtain ⟨t', hst', rt⟩ := MemSys.step_sim r hst
      obtain ⟨r1, r2, r3⟩ := ih rt h
      simp only [MemSys.AllOk, MemSys.final, MemSys.run, hst, hst', List.map_cons]
      refine ⟨r1, r2, ?_⟩
      rw [r3]
      simp only [view, rt.data, rt.vec]
    | err c t => simp [MemSys.AllOk, hst] at h
    | panic p => simp [MemSys.AllOk, hst] at h

/-! ## TransformStream::write -/

/-- Invariant of the buffer part of a `TransformStream` under limit `M`. -/
structure TSInv (M : Nat) (t : TS) : Prop where
  lenLe : t.buffer.len ≤ t.buffer.cap
  /-- the buffer's capacity has been charged (other users of the limiter may have charged more) -/
  charged : t.buffer.cap ≤ t.lim.usage
  held : t.buffer.cap ≤ M
  max : t.lim.max = M

theorem Arena.append_ok_tsinv {M : Nat} {l l' : Limiter} {a a' : Arena} {bs : Bytes}
    (h : Arena.append l a bs = .ok (l', a')) (_h1 : a.len ≤ a.cap) (h2 : a.cap ≤ l.usage)
    (h3 : a.cap ≤ M) (h4 : l.max = M) :
    a'.len ≤ a'.cap ∧ a'.cap ≤ l'.usage ∧ a'.cap ≤ M ∧ l'.max = M ∧ a'.data = a.data ++ bs := by
  obtain ⟨p1, p2, p3, p4, p5, p6⟩ := Arena.append_ok h
  rcases p6 with ⟨e, pc⟩ | ⟨pu, pc⟩
  · subst e; exact ⟨p5, by omega, by omega, by omega, p2⟩
  · exact ⟨p5, by omega, by omega, by omega, p2⟩

/-- A successful `write`: the invariant is kept, the pending bytes are exactly the unconsumed tail of
    (pending ++ data), and they fit in the limit. -/
theorem TS.write_ok {M : Nat} {t t' : TS} {data : Bytes} {consumed : Bytes → Nat}
    (hi : TSInv M t) (hc : ∀ c, consumed c ≤ c.length) (h : t.write data consumed = .ok t') :
    TSInv M t' ∧ t'.pending = (t.pending ++ data).drop (consumed (t.pending ++ data)) ∧
    t'.retained ≤ M := by
  obtain ⟨h1, h2, h3, h4⟩ := hi
  have key : ∀ t'' : TS, TSInv M t'' → t''.retained ≤ M := by
    intro t'' i
    have := i.lenLe; have := i.held
    simp only [TS.retained, TS.pending]
    split
    · simp only [Arena.len] at *; omega
    · simp
  suffices hs : TSInv M t' ∧ t'.pending = (t.pending ++ data).drop (consumed (t.pending ++ data)) from
    ⟨hs.1, hs.2, key t' hs.1⟩
  unfold TS.write at h
  split at h
  · -- data was buffered: append, parse the whole buffer, shift
    rename_i hb
    split at h
    · cases h
    · cases h
    · rename_i l a heq
      obtain ⟨q1, q2, q3, q4, q5⟩ := Arena.append_ok_tsinv heq h1 h2 h3 h4
      simp only at h
      split at h
      · rename_i hn
        split at h
        · rename_i a' hsh
          obtain ⟨s1, s2, s3, s4⟩ := Arena.shift_ok hsh
          cases h
          refine ⟨⟨by simp only; omega, by simp only; omega, by simp only; omega, q4⟩, ?_⟩
          simp only [TS.pending, hb, if_true, s3, q5]
        · rename_i hsh; exact absurd hsh Arena.shift_not_err
        · cases h
      · rename_i hn
        cases h
        refine ⟨⟨q1, q2, q3, q4⟩, ?_⟩
        have := hc a.data
        simp only [TS.pending, hb, if_true, q5] at *
        rw [List.drop_eq_nil_of_le (by omega)]
        simp
  · rename_i hb
    simp only at h
    split at h
    · rename_i hn
      split at h
      · rename_i l a heq
        have h1' : ({ t.buffer with data := [] } : Arena).len ≤ t.buffer.cap := by simp [Arena.len]
        obtain ⟨q1, q2, q3, q4, q5⟩ := Arena.append_ok_tsinv (M := M) heq h1' h2 h3 h4
        cases h
        refine ⟨⟨q1, q2, q3, q4⟩, ?_⟩
        simp only [TS.pending, hb, q5]
        simp
      · cases h
      · cases h
    · rename_i hn
      cases h
      refine ⟨⟨h1, h2, h3, h4⟩, ?_⟩
      have := hc data
      simp only [TS.pending, hb]
      simp only [Bool.false_eq_true, if_false, List.nil_append]
      rw [List.drop_eq_nil_of_le (by omega)]

/-- `write` never hits the range panic of `Arena::shift`: it shifts by `consumed < chunk.len()`. -/
theorem TS.write_no_shift_panic {t : TS} {data : Bytes} {consumed : Bytes → Nat} :
    t.write data consumed ≠ .panic .shiftRange := by
  intro h
  unfold TS.write at h
  split at h
  · split at h
    · rename_i p heq
      cases h
      rcases Arena.append_panic heq with ⟨e, _⟩ | ⟨e, _⟩ <;> cases e
    · cases h
    · simp only at h
      split at h
      · rename_i hn
        split at h
        · cases h
        · cases h
        · rename_i p hsh
          cases h
          have := (Arena.shift_panic hsh).2
          simp only [Arena.len] at this
          omega
      · cases h
  · simp only at h
    split at h
    · split at h
      · cases h
      · cases h
      · rename_i p heq
        cases h
        simp only [Arena.initWith] at heq
        rcases Arena.append_panic heq with ⟨e, _⟩ | ⟨e, _⟩ <;> cases e
    · cases h

/-- Conservation over a sequence of writes that all succeed: bytes in = bytes out + bytes retained,
    and the retained bytes fit in the limit. -/
theorem TS.run_last_ok {M : Nat} {consumed : Bytes → Nat} (hc : ∀ c, consumed c ≤ c.length)
    (ws : List Bytes) : ∀ (t : TS) (out0 : Nat) (t' : TS) (out : Nat), TSInv M t →
    (t.run consumed ws out0).getLast? = some (.ok, t', out) →
    TSInv M t' ∧ t'.retained + out = t.retained + out0 + (ws.map List.length).sum ∧
    t'.retained ≤ M := by
  induction ws with
  | nil => intro t out0 t' out _ h; simp [TS.run] at h
  | cons d rest ih =>
    intro t out0 t' out hi h
    cases hw : t.write d consumed with
    | ok t1 =>
      obtain ⟨i1, p1, r1⟩ := TS.write_ok hi hc hw
      have hcons : t1.retained + t.writeOut d consumed = t.retained + d.length := by
        have := hc (t.pending ++ d)
        simp only [TS.retained, TS.writeOut, p1, List.length_drop, List.length_append] at *
        omega
      simp only [TS.run, hw] at h
      cases hr : t1.run consumed rest (out0 + t.writeOut d consumed) with
      | nil =>
        rw [hr] at h
        simp only [List.getLast?_singleton, Option.some.injEq, Prod.mk.injEq, true_and] at h
        obtain ⟨rfl, rfl⟩ := h
        have hrest : rest = [] := by
          cases rest with
          | nil => rfl
          | cons d2 r2 =>
            simp only [TS.run] at hr
            split at hr <;> cases hr
        subst hrest
        refine ⟨i1, ?_, r1⟩
        simp only [List.map_cons, List.sum_cons, List.map_nil, List.sum_nil]
        omega
      | cons y ys =>
        rw [hr, List.getLast?_cons_cons] at h
        rw [← hr] at h
        obtain ⟨i2, p2, r2⟩ := ih t1 _ t' out i1 h
        refine ⟨i2, ?_, r2⟩
        simp only [List.map_cons, List.sum_cons]
        omega
    | err c t1 =>
      simp only [TS.run, hw, List.getLast?_singleton, Option.some.injEq, Prod.mk.injEq] at h
      exact absurd h.1 (by simp)
    | panic p =>
      simp only [TS.run, hw, List.getLast?_singleton, Option.some.injEq, Prod.mk.injEq] at h
      exact absurd h.1 (by simp)

theorem scanConsumedGo_le (bs : Bytes) : ∀ (pos state start : Nat), start ≤ pos →
    scanConsumedGo bs pos state start ≤ pos + bs.length := by
  induction bs with
  | nil => intro pos state start h; simp only [scanConsumedGo]; split <;> simp <;> omega
  | cons b rest ih =>
    intro pos state start h
    simp only [scanConsumedGo, List.length_cons]
    repeat' split
    all_goals (refine Nat.le_trans (ih _ _ _ (by omega)) (by omega))

/-- The scanner oracle of lane `memts` is a legal parser answer. -/
theorem scanConsumed_le (c : Bytes) : scanConsumed c ≤ c.length := by
  have := scanConsumedGo_le c 0 0 0 (Nat.le_refl 0)
  simpa [scanConsumed] using this

end LolHtml.Model.Memory
