import LolHtml.Lemmas.ObsIndep
import LolHtml.Lemmas.Congr
import LolHtml.Lemmas.RelexMode
/-!
Observer independence through `Parser.parse` (lexer mode): the congruence of `Lemmas/Congr.lean`
instantiated with the dispatcher relation `ObsR` of `Lemmas/ObsIndep.lean`. The first machine is the
observing run; it "stops" when it panics in the dispatcher.
-/
set_option linter.unusedSimpArgs false
set_option linter.unusedVariables false

namespace LolHtml.Model

variable {γ : Type}

/-- the congruence: contexts related by `ObsR`, lexer machines only, no hand-over to the scanner -/
def obsCong (γ : Type) : Cong (Disp (γ × Flags)) (Disp γ) where
  Rx x₁ x₂ := ObsR true x₁.sink x₂.sink ∧ x₁.sim = x₂.sim ∧ x₁.prevConsumed = x₂.prevConsumed
  Jr r := ∃ l, r = .lexer l
  Stop r := ∃ s, r.2 = some (.err (.panic s)) ∧ s ≠ "debug_assert: Tag should exist at this point"
  Good sig := ∀ bm, sig ≠ some (.directive .scan bm)

section
variable {H : Controller γ} {o : Flags} {tbl : Table} {cfg : TagCfg} {inp : Bytes}

set_option quotPrecheck false in
local notation "env₁" => (Env.mk tbl cfg (dispOps (withObs H o)) : Env (Disp (γ × Flags)))
set_option quotPrecheck false in
local notation "env₂" => (Env.mk tbl cfg (dispOps H) : Env (Disp γ))

theorem obs_same {c : Common} {l : LexRegs} {x₁ : Ctx (Disp (γ × Flags))} {x₂ : Ctx (Disp γ)} {s : Option Signal}
    (h : (obsCong γ).Rx x₁ x₂) (hg : (obsCong γ).Good s) :
    (obsCong γ).Out ((⟨c, .lexer l, x₁⟩ : M (Disp (γ × Flags))), s) ((⟨c, .lexer l, x₂⟩ : M (Disp γ)), s) :=
  Or.inr ⟨⟨rfl, rfl, ⟨l, rfl⟩, h⟩, rfl, hg⟩

theorem obs_lexEmitNonTag (c : Common) (l : LexRegs) (x₁ : Ctx (Disp (γ × Flags))) (x₂ : Ctx (Disp γ))
    (ol : Option NonTagOutline) (e : Nat) (hx : (obsCong γ).Rx x₁ x₂) :
    (obsCong γ).Out (lexEmitNonTag env₁ inp c l x₁ ol e) (lexEmitNonTag env₂ inp c l x₂ ol e) := by
  obtain ⟨hs, hsim, hpc⟩ := hx
  unfold lexEmitNonTag
  dsimp only [dispOps]
  rw [hpc]
  rcases handleNonTag_obs (H := H) (o := o) (inp := inp) hs ⟨x₂.prevConsumed, ⟨l.lexemeStart, e⟩, ol⟩ with ⟨s, hp, hne⟩ | ⟨hres, hR⟩
  · left
    rw [hp]
    exact ⟨s, rfl, hne⟩
  · rw [hres]
    cases (Disp.handleNonTag H inp ⟨x₂.prevConsumed, ⟨l.lexemeStart, e⟩, ol⟩ x₂.sink).2 with
    | ok u => exact Or.inr ⟨⟨rfl, rfl, ⟨_, rfl⟩, hR, hsim, rfl⟩, rfl, fun bm hh => by cases hh⟩
    | error e' => exact Or.inr ⟨⟨rfl, rfl, ⟨_, rfl⟩, hR, hsim, rfl⟩, rfl, fun bm hh => by cases hh⟩

theorem obs_lexEmitText (c : Common) (l : LexRegs) (x₁ : Ctx (Disp (γ × Flags))) (x₂ : Ctx (Disp γ))
    (hx : (obsCong γ).Rx x₁ x₂) :
    (obsCong γ).Out (lexEmitText env₁ inp c l x₁) (lexEmitText env₂ inp c l x₂) := by
  unfold lexEmitText
  split
  · exact obs_lexEmitNonTag _ _ _ _ _ _ hx
  · exact obs_same hx (fun bm hh => by cases hh)

theorem obs_lexEmitEof (m₁ : M (Disp (γ × Flags))) (m₂ : M (Disp γ)) (hm : (obsCong γ).MR m₁ m₂) :
    (obsCong γ).Out (lexEmitEof env₁ inp m₁) (lexEmitEof env₂ inp m₂) := by
  obtain ⟨c, r, x₁, x₂, rfl, rfl, ⟨l, rfl⟩, hx⟩ := hm.cases
  unfold lexEmitEof
  exact obs_lexEmitNonTag _ _ _ _ _ _ hx

theorem obs_andThen {r₁ : M (Disp (γ × Flags)) × Option Signal} {r₂ : M (Disp γ) × Option Signal}
    {g₁ : M (Disp (γ × Flags)) → M (Disp (γ × Flags)) × Option Signal} {g₂ : M (Disp γ) → M (Disp γ) × Option Signal}
    (hr : (obsCong γ).Out r₁ r₂) (hg : ∀ m₁ m₂, (obsCong γ).MR m₁ m₂ → (obsCong γ).Out (g₁ m₁) (g₂ m₂)) :
    (obsCong γ).Out (andThen r₁ g₁) (andThen r₂ g₂) := by
  unfold andThen
  rcases hr with ⟨s, hs, hne⟩ | ⟨hm, hs, hgd⟩
  · left
    rw [hs]
    exact ⟨s, rfl, hne⟩
  · cases h2 : r₁.2 with
    | some s =>
      have : r₂.2 = some s := by rw [← hs, h2]
      rw [this]
      exact Or.inr ⟨hm, rfl, by rw [h2] at hgd; exact hgd⟩
    | none =>
      have : r₂.2 = none := by rw [← hs, h2]
      rw [this]
      exact hg _ _ hm

theorem obs_lexEmitTagLexeme (hst : StickyCtl H) (c : Common) (l : LexRegs) (x₁ : Ctx (Disp (γ × Flags))) (x₂ : Ctx (Disp γ))
    (sim : Sim) (t : TagOutline) (e : Nat) (hx : (obsCong γ).Rx x₁ x₂) :
    (obsCong γ).Out (lexEmitTagLexeme env₁ inp c l x₁ sim t e) (lexEmitTagLexeme env₂ inp c l x₂ sim t e) := by
  obtain ⟨hs, hsim, hpc⟩ := hx
  unfold lexEmitTagLexeme
  dsimp only [dispOps]
  rw [hpc]
  rcases handleTag_obs_lock (H := H) (o := o) (inp := inp) (fun _ => hst) (Or.inr rfl) rfl hs ⟨x₂.prevConsumed, ⟨l.lexemeStart, e⟩, t⟩ with ⟨s, hp, hne⟩ | ⟨hres, hR, hlex⟩
  · left
    rw [hp]
    exact ⟨s, rfl, hne⟩
  · rw [hres]
    cases hr : (Disp.handleTag H inp ⟨x₂.prevConsumed, ⟨l.lexemeStart, e⟩, t⟩ x₂.sink).2 with
    | error e' => exact Or.inr ⟨⟨rfl, rfl, ⟨_, rfl⟩, hR, rfl, rfl⟩, rfl, fun bm hh => by cases hh⟩
    | ok d =>
      have := hlex d hr
      subst this
      exact Or.inr ⟨⟨rfl, rfl, ⟨_, rfl⟩, hR, rfl, rfl⟩, rfl, fun bm hh => by cases hh⟩

theorem obs_lexEmitTag (hst : StickyCtl H) (c : Common) (l : LexRegs) (x₁ : Ctx (Disp (γ × Flags))) (x₂ : Ctx (Disp γ))
    (hx : (obsCong γ).Rx x₁ x₂) :
    (obsCong γ).Out (lexEmitTag env₁ inp c l x₁) (lexEmitTag env₂ inp c l x₂) := by
  have hsim := hx.2.1
  unfold lexEmitTag
  cases l.curTag with
  | none => exact obs_same hx (fun bm hh => by cases hh)
  | some token =>
    dsimp only
    rw [hsim]
    cases lexGetFeedback cfg x₂.sim l.fd token with
    | error e => exact obs_same hx (fun bm hh => by cases hh)
    | ok sf =>
      dsimp only
      split
      · exact obs_same ⟨hx.1, rfl, hx.2.2⟩ (fun bm hh => by cases hh)
      · exact obs_lexEmitTagLexeme hst _ _ _ _ _ _ _ hx


theorem lexAct_nosink_sig {κ : Type} (env : Env κ) (a : ActName) (ha : a.callsSink = false) (c : Common) (l : LexRegs)
    (x : Ctx κ) :
    (lexAct env a inp c l x).2 = none ∨
    (lexAct env a inp c l x).2 = some (.err (.panic "debug_assert: Tag should exist at this point")) := by
  cases a <;> simp only [ActName.callsSink, Bool.true_eq_false] at ha <;> simp only [lexAct] <;>
    (repeat' split) <;> simp

theorem lexAct_nosink_obs (a : ActName) (ha : a.callsSink = false) (c : Common) (l : LexRegs)
    (x₁ : Ctx (Disp (γ × Flags))) (x₂ : Ctx (Disp γ)) :
    (lexAct env₁ a inp c l x₁).1.c = (lexAct env₂ a inp c l x₂).1.c ∧
    (lexAct env₁ a inp c l x₁).1.r = (lexAct env₂ a inp c l x₂).1.r ∧
    (lexAct env₁ a inp c l x₁).2 = (lexAct env₂ a inp c l x₂).2 := by
  cases a <;> simp only [ActName.callsSink, Bool.true_eq_false] at ha <;> simp only [lexAct] <;>
    (repeat' split) <;> simp_all

/-- **the lifting hypotheses**: every action respects the congruence -/
theorem obs_ok (hst : StickyCtl H) : (obsCong γ).Ok env₁ env₂ inp where
  tbl := rfl
  stop_err := fun r ⟨s, hs, _⟩ => ⟨_, hs⟩
  good_none := fun bm hh => by cases hh
  good_panic := fun s bm hh => by cases hh
  good_eoi := fun n bm hh => by cases hh
  act := by
    intro a m₁ m₂ hm
    obtain ⟨c, r, x₁, x₂, rfl, rfl, ⟨l, rfl⟩, hx⟩ := hm.cases
    simp only [act]
    by_cases ha : a.callsSink = false
    · obtain ⟨h1, h2, h3⟩ := lexAct_nosink_obs (H := H) (o := o) (tbl := tbl) (cfg := cfg) (inp := inp) a ha c l x₁ x₂
      have e1 := lexAct_x (env := env₁) (inp := inp) a ha c l x₁
      have e2 := lexAct_x (env := env₂) (inp := inp) a ha c l x₂
      have hk := lexAct_kind (env := env₁) (inp := inp) a c l x₁
      obtain ⟨c', l', x', hd⟩ := lexer_destruct _ hk
      right
      refine ⟨⟨h1, h2, ⟨l', by rw [hd]⟩, by rw [e1, e2]; exact hx⟩, h3, ?_⟩
      intro bm hh
      rcases lexAct_nosink_sig env₁ a ha c l x₁ with h | h <;> rw [h] at hh <;> cases hh
    · cases a <;> simp only [ActName.callsSink, not_true_eq_false, not_false_eq_true] at ha <;> simp only [lexAct]
      case emitText => exact obs_lexEmitText _ _ _ _ hx
      case emitTextAndEof => exact obs_andThen (obs_lexEmitText _ _ _ _ hx) (fun m₁ m₂ hm => obs_lexEmitEof m₁ m₂ hm)
      case emitCurrentToken => exact obs_lexEmitNonTag _ _ _ _ _ _ hx
      case emitCurrentTokenAndEof =>
        exact obs_andThen (obs_lexEmitNonTag _ _ _ _ _ _ hx) (fun m₁ m₂ hm => obs_lexEmitEof m₁ m₂ hm)
      case emitRawWithoutToken => exact obs_lexEmitNonTag _ _ _ _ _ _ hx
      case emitRawWithoutTokenAndEof =>
        exact obs_andThen (obs_lexEmitNonTag _ _ _ _ _ _ hx) (fun m₁ m₂ hm => obs_lexEmitEof m₁ m₂ hm)
      case emitTag => exact obs_lexEmitTag hst _ _ _ _ hx
      case finishTagName => cases l.curTag <;> exact obs_same hx (fun bm hh => by cases hh)
  silent := by
    intro a m₁ ha ⟨s, hs, hne⟩
    obtain ⟨c, r, x⟩ := m₁
    cases r with
    | lexer l =>
      simp only [act] at hs
      rcases lexAct_nosink_sig env₁ a ha c l x with h | h
      · rw [h] at hs; cases hs
      · rw [h] at hs
        simp only [Option.some.injEq, Signal.err.injEq, Err.panic.injEq] at hs
        exact hne hs.symm
    | scanner sc =>
      simp only [act] at hs
      have hnf : a ≠ .finishTagName := by intro h; subst h; simp [ActName.callsSink] at ha
      obtain ⟨c', s', hr⟩ := scanAct_ret (env := env₁) (inp := inp) a hnf c sc x
      rw [hr] at hs
      cases hs
  pc := fun x₁ x₂ n ⟨a, b, c⟩ => ⟨a, b, by simp only; rw [c]⟩
  jr_enter := fun c r ⟨l, hl⟩ => ⟨l, by rw [hl]; rfl⟩
  jr_leave := fun r ⟨l, hl⟩ => ⟨l, by rw [hl]; rfl⟩
  jr_adjust := by
    intro r ⟨l, hl⟩
    subst hl
    exact ⟨_, rfl⟩
  jr_load_lex := fun bm l _ => ⟨_, rfl⟩
  jr_load_scan := fun bm s hg => (hg bm rfl).elim

/-- **observer independence through `Parser::parse`**: related parsers stay related and return the same
result, unless the observing run panics in the dispatcher -/
theorem parse_obs (hst : StickyCtl H) (ht : EmitsChecked tbl = true) (last : Bool)
    (p₁ : Parser (Disp (γ × Flags))) (p₂ : Parser (Disp γ)) (hp : (obsCong γ).PR p₁ p₂) :
    (obsCong γ).POut (Parser.parse env₁ inp last p₁) (Parser.parse env₂ inp last p₂) :=
  Cong.parse_cong (obs_ok hst) ht last p₁ p₂ hp

end
end LolHtml.Model
