import LolHtml.Lemmas.ObsIndep
/-!
Observer independence, dispatcher level, across the scanner ⇄ lexer hand-overs.

The plain run (`H`) is in tag-scanner mode (`ScanMode`: its flags are empty), the observing run
(`withObs H o`, `o` sticky) is in the lexer. One *event* of the input is
* a non-tag lexeme: only the observing run's dispatcher is called (`nonTag_scan_obs`);
* a start tag: the plain run's dispatcher gets the hint `startTagHint name ns` and — if it answers
  `lex` — the tag lexeme re-lexed by its lexer; the observing run's dispatcher gets the tag lexeme once
  (`startTag_event_obs`);
* an end tag, likewise (`endTag_event_obs`).
Each event keeps the relation `ObsR false` of `Lemmas/ObsIndep.lean` and yields corresponding results;
when both runs are in the lexer the events are `handleTag_obs` / `handleNonTag_obs`, and
`handleTag_scanMode` re-establishes `ScanMode` when the plain run hands back to the scanner.
-/
set_option linter.unusedSimpArgs false
set_option linter.unusedVariables false

namespace LolHtml.Model

variable {γ : Type}

/-- `should_emit_content` changes only in token handlers — and, from false to true, at an end tag
(the end of removed element content). Needed because a *hint* does not refresh the dispatcher's
`emission_enabled`, while a tag lexeme does. -/
structure EmitDiscipline (H : Controller γ) : Prop where
  start : ∀ g n ns, H.shouldEmit (H.startTag g n ns).1 = H.shouldEmit g
  aux : ∀ g i, H.shouldEmit (H.auxInfo g i).1 = H.shouldEmit g
  end_ : ∀ g n, H.shouldEmit g = true → H.shouldEmit (H.endTag g n).1 = true

/-- the plain run's dispatcher while its parser is in tag-scanner mode -/
structure ScanMode (H : Controller γ) (d : Disp γ) : Prop where
  empty : d.flags.isEmpty = true
  tp : d.textPending = false
  emis : d.emissionEnabled = H.shouldEmit d.ctl

section
variable {H : Controller γ} {o : Flags} {inp : Bytes}

theorem Flags.empty_wants {f : Flags} (h : f.isEmpty = true) (t : Token) : f.wants t = false := by
  cases f
  simp only [Flags.isEmpty, Bool.and_eq_true, Bool.not_eq_true'] at h
  obtain ⟨⟨⟨⟨h1, h2⟩, h3⟩, h4⟩, h5⟩ := h
  cases t <;> simp_all [Flags.wants]

theorem flush_idle {d : Disp γ} (h : d.textPending = false) : d.flushPendingText H = (d, .ok ()) := by
  unfold Disp.flushPendingText; rw [h]; rfl

theorem tagWanted_empty {f : Flags} (h : f.isEmpty = true) (lx : TagLexeme) : tagWanted f lx = false := by
  cases f
  simp only [Flags.isEmpty, Bool.and_eq_true, Bool.not_eq_true'] at h
  obtain ⟨⟨⟨⟨h1, h2⟩, h3⟩, h4⟩, h5⟩ := h
  unfold tagWanted
  cases lx.outline <;> simp_all

theorem ntWanted_empty {f : Flags} (h : f.isEmpty = true) (lx : NonTagLexeme) : ntWanted f lx = false := by
  cases f
  simp only [Flags.isEmpty, Bool.and_eq_true, Bool.not_eq_true'] at h
  obtain ⟨⟨⟨⟨h1, h2⟩, h3⟩, h4⟩, h5⟩ := h
  unfold ntWanted
  cases lx.outline with
  | none => rfl
  | some ol => cases ol <;> simp_all

theorem Flags.empty_text {f : Flags} (h : f.isEmpty = true) : f.text = false := by
  cases f
  simp only [Flags.isEmpty, Bool.and_eq_true, Bool.not_eq_true'] at h
  exact h.1.1.1.1

/-- with empty flags the dispatcher ignores a non-tag lexeme -/
theorem handleNonTag_idle {d : Disp γ} (he : d.flags.isEmpty = true) (htp : d.textPending = false) (lx : NonTagLexeme) :
    Disp.handleNonTag H inp lx d = (d, .ok ()) := by
  have hprod : d.produceNonTag H inp lx = (d, .ok ()) := by
    unfold Disp.produceNonTag
    cases hol : lx.outline with
    | none =>
      dsimp only
      rw [nonTagToToken_eq, ntWanted_empty he]
      rfl
    | some ol =>
      cases ol with
      | text tt => dsimp only; rw [Flags.empty_text he]; rfl
      | comment _ | doctype _ | eof =>
        dsimp only
        rw [nonTagToToken_eq, ntWanted_empty he]
        rfl
  unfold Disp.handleNonTag
  cases lx.isText with
  | true => simp only [if_true]; rw [DRes.bind_ok' _ (rfl : ((d, Except.ok ()) : DRes γ Unit).2 = .ok ())]; exact hprod
  | false =>
    simp only [Bool.false_eq_true, if_false]
    rw [flush_idle htp, DRes.bind_ok' _ (rfl : ((d, Except.ok ()) : DRes γ Unit).2 = .ok ())]
    exact hprod

/-- **a non-tag lexeme while the plain run scans**: only the observing dispatcher moves -/
theorem nonTag_scan_obs {d' : Disp (γ × Flags)} {d : Disp γ} (h : ObsR false d' d) (hm : ScanMode H d) (lx : NonTagLexeme) :
    IsPanic (Disp.handleNonTag (withObs H o) inp lx d').2 ∨
    ((Disp.handleNonTag (withObs H o) inp lx d').2 = .ok () ∧ ObsR false (Disp.handleNonTag (withObs H o) inp lx d').1 d) := by
  rcases handleNonTag_obs (H := H) (o := o) (inp := inp) h lx with hp | ⟨h1, h2⟩
  · exact Or.inl hp
  · rw [handleNonTag_idle hm.empty hm.tp] at h1 h2
    exact Or.inr ⟨h1, h2⟩

/-- with empty flags and nothing to resume, the tail of `handle_tag` only refreshes `emission_enabled` -/
theorem tagTail_idle {d : Disp γ} (he : d.flags.isEmpty = true) (lx : TagLexeme) (hres : d.resumeEmission H lx = d) :
    d.tagTail H inp lx = ({ d with emissionEnabled := H.shouldEmit d.ctl }, .ok .scan) := by
  unfold Disp.tagTail
  rw [hres]
  have hp : d.produceTag H inp lx = (d, .ok ()) := by
    unfold Disp.produceTag
    rw [tagToToken_eq, tagWanted_empty he]
    rfl
  rw [hp, DRes.bind_ok' _ (rfl : ((d, Except.ok ()) : DRes γ Unit).2 = .ok ())]
  simp only [Disp.nextDirective, he, if_true]

theorem resume_start {d : Disp γ} {lx : TagLexeme} (h : lx.outline.isStart = true) : d.resumeEmission H lx = d := by
  unfold Disp.resumeEmission; rw [h]; rfl

theorem Disp.eta_flags {d : Disp γ} (hg : d.gotFlagsFromHint = false) (hp : d.pendingAux = false) (g' : γ) (f : Flags) :
    ({ d with ctl := g', flags := f, gotFlagsFromHint := false, pendingAux := false } : Disp γ) = { d with ctl := g', flags := f } := by
  cases d; simp only at hg hp; subst hg hp; rfl


end

section
variable {H : Controller γ} {o : Flags} {inp : Bytes}
variable (ed : EmitDiscipline H) (ho : o.sticky = true)
include ed ho

/-- **a start tag while the plain run scans.** The plain run's dispatcher receives the hint; if it
answers `lex` its lexer re-lexes the tag and calls `handle_tag` on the same lexeme. The observing run's
dispatcher receives the lexeme once. Same error, or both continue with related dispatchers. -/
theorem startTag_event_obs {d' : Disp (γ × Flags)} {d : Disp γ} (h : ObsR false d' d) (hm : ScanMode H d)
    (lx : TagLexeme) {name : Range} {hsh : Nat} {ns : Ns} {as : List AttrOutline} {sc : Bool}
    (hol : lx.outline = .startTag name hsh ns as sc) {ln : LocalName} (hln : LocalName.new inp name hsh = some ln) :
    (∃ e, (Disp.startTagHint H ln ns d).2 = .error e ∧
      (IsPanic (Disp.handleTag (withObs H o) inp lx d').2 ∨ (Disp.handleTag (withObs H o) inp lx d').2 = .error e)) ∨
    ((Disp.startTagHint H ln ns d).2 = .ok .scan ∧
      (IsPanic (Disp.handleTag (withObs H o) inp lx d').2 ∨
       ((Disp.handleTag (withObs H o) inp lx d').2 = .ok .lex ∧
        ObsR false (Disp.handleTag (withObs H o) inp lx d').1 (Disp.startTagHint H ln ns d).1 ∧
        ScanMode H (Disp.startTagHint H ln ns d).1))) ∨
    ((Disp.startTagHint H ln ns d).2 = .ok .lex ∧
      TagOut false (Disp.handleTag (withObs H o) inp lx d') (Disp.handleTag H inp lx (Disp.startTagHint H ln ns d).1)) := by
  have hgf : d.gotFlagsFromHint = false := h.gf
  have hpa : d.pendingAux = false := h.pa
  obtain ⟨f1, f2, _, f4⟩ := flush_obs (H := H) (o := o) h
  rw [flush_idle hm.tp] at f1 f2
  have hc' : (d'.flushPendingText (withObs H o)).1.ctl = (d.ctl, d.flags) := f2.ctl
  have g2 : (d'.flushPendingText (withObs H o)).1.gotFlagsFromHint = false := f2.gf'
  have p2 : (d'.flushPendingText (withObs H o)).1.pendingAux = false := f2.pa'
  -- the observing run: flush, then the flag decision, then the tail
  have hHO : Disp.handleTag (withObs H o) inp lx d' =
      DRes.bind ((d'.flushPendingText (withObs H o)).1.adjustFlagsForTag (withObs H o) inp lx)
        (fun k _ => k.tagTail (withObs H o) inp lx) := by
    rw [handleTag_eq, DRes.bind_ok' _ f1, g2]
    simp only [Bool.false_eq_true, if_false]
  rw [hHO]
  generalize (d'.flushPendingText (withObs H o)).1 = fl' at f2 f4 hc' g2 p2 ⊢
  have hadj : fl'.adjustFlagsForTag (withObs H o) inp lx =
      (match (withObs H o).startTag (d.ctl, d.flags) ln ns with
       | (c1, .flags f) => (({ fl' with ctl := c1, flags := f } : Disp (γ × Flags)), Except.ok ())
       | (c1, .infoRequest) => ({ fl' with ctl := c1 } : Disp (γ × Flags)).answerAux (withObs H o) ⟨inp, as, sc⟩
       | (c1, .err e) => (({ fl' with ctl := c1 } : Disp (γ × Flags)), Except.error e)) := by
    unfold Disp.adjustFlagsForTag
    rw [if_neg (by rw [p2]; simp), hol]
    dsimp only
    rw [hln]
    dsimp only
    rw [hc']
    cases (withObs H o).startTag (d.ctl, d.flags) ln ns with
    | mk c1 res => cases res <;> rfl
  rw [hadj]
  unfold Disp.startTagHint
  cases hr : H.startTag d.ctl ln ns with
  | mk g' res =>
    cases res with
    | err e =>
      left
      rw [withObs_start_err hr]
      exact ⟨e, rfl, Or.inr rfl⟩
    | flags fn =>
      rw [withObs_start_flags hr]
      dsimp only
      have hdec := f2.decide (o := o) hm.tp f4 g' fn (fun hl => by cases hl) (Or.inl ho)
      rw [DRes.bind_ok' _ (rfl : ((({ fl' with ctl := (g', fn), flags := fn.join o } : Disp (γ × Flags)), Except.ok ()) : DRes (γ × Flags) Unit).2 = .ok ())]
      unfold Disp.applyHintFlags
      cases hfe : fn.isEmpty with
      | true =>
        right; left
        simp only [Disp.nextDirective, hfe, if_true]
        refine ⟨by first | rfl | trivial, ?_⟩
        have hd2 : ({ d with ctl := g', flags := fn, gotFlagsFromHint := (Directive.scan == Directive.lex) } : Disp γ) =
            { d with ctl := g', flags := fn } := by
          cases d; simp only at hgf; subst hgf; rfl
        rw [hd2]
        have hidle := tagTail_idle (H := H) (inp := inp) (d := ({ d with ctl := g', flags := fn } : Disp γ)) hfe lx
          (resume_start (by rw [hol]; rfl))
        have hem : H.shouldEmit g' = d.emissionEnabled := by
          have := ed.start d.ctl ln ns
          rw [hr] at this
          rw [hm.emis]; exact this
        have hsame : ({ ({ d with ctl := g', flags := fn } : Disp γ) with emissionEnabled := H.shouldEmit g' } : Disp γ) =
            { d with ctl := g', flags := fn } := by rw [hem]
        rcases tagTail_obs (H := H) (o := o) (inp := inp) hdec lx with hp | ⟨hR, ⟨e, e1, e2⟩ | ⟨e1, e2⟩⟩
        · exact Or.inl hp
        · rw [hidle] at e2; cases e2
        · rw [hidle] at hR
          simp only at hR
          rw [hsame] at hR
          exact Or.inr ⟨e1, hR, ⟨hfe, hm.tp, by show d.emissionEnabled = H.shouldEmit g'; exact hem.symm⟩⟩
      | false =>
        right; right
        simp only [Disp.nextDirective, hfe, Bool.false_eq_true, if_false]
        refine ⟨by first | rfl | trivial, ?_⟩
        have hH : Disp.handleTag H inp lx ({ d with ctl := g', flags := fn, gotFlagsFromHint := (Directive.lex == Directive.lex) } : Disp γ) =
            Disp.tagTail H inp lx ({ d with ctl := g', flags := fn } : Disp γ) := by
          rw [handleTag_eq, flush_idle (by exact hm.tp), DRes.bind_ok' _ rfl]
          have : (Directive.lex == Directive.lex) = true := rfl
          simp only [this, if_true]
          rw [DRes.bind_ok' _ rfl]
          have e : ({ ({ d with ctl := g', flags := fn, gotFlagsFromHint := true } : Disp γ) with gotFlagsFromHint := false } : Disp γ) =
              { d with ctl := g', flags := fn } := by
            cases d; simp only at hgf; subst hgf; rfl
          rw [e]
        rw [hH]
        exact tagTail_obs hdec lx
    | infoRequest =>
      right; right
      rw [withObs_start_info hr]
      dsimp only
      refine ⟨rfl, ?_⟩
      have hH : Disp.handleTag H inp lx ({ d with ctl := g', gotFlagsFromHint := false, pendingAux := true } : Disp γ) =
          DRes.bind (({ d with ctl := g' } : Disp γ).answerAux H ⟨inp, as, sc⟩) (fun k _ => k.tagTail H inp lx) := by
        rw [handleTag_eq, flush_idle (by exact hm.tp), DRes.bind_ok' _ rfl]
        simp only [Bool.false_eq_true, if_false]
        unfold Disp.adjustFlagsForTag
        simp only [if_true, hol]
        have e : ({ ({ d with ctl := g', gotFlagsFromHint := false, pendingAux := true } : Disp γ) with pendingAux := false } : Disp γ) =
            { d with ctl := g' } := by
          cases d; simp only at hgf hpa; subst hgf hpa; rfl
        rw [e]
      rw [hH]
      apply DRelO.bindT (answerAux_obs (o := o) (fun hl => by cases hl) (Or.inl ho) (f2.setCtl g') hm.tp f4 _)
      intro k' k _ hK
      exact tagTail_obs hK lx


/-- **an end tag while the plain run scans**, except in the one case the dispatcher treats differently in
the two modes: emission is to be resumed at this end tag and `H` did not ask for it (`handle_end_tag_hint`
then forces `NEXT_END_TAG`, `handle_tag` does not). -/
theorem endTag_event_obs {d' : Disp (γ × Flags)} {d : Disp γ} (h : ObsR false d' d) (hm : ScanMode H d)
    (lx : TagLexeme) {name : Range} {hsh : Nat} (hol : lx.outline = .endTag name hsh) {ln : LocalName}
    (hln : LocalName.new inp name hsh = some ln) :
    ((({ d with ctl := (H.endTag d.ctl ln).1 } : Disp γ).shouldStopRemoving H = true ∧ (H.endTag d.ctl ln).2.nextEndTag = false)) ∨
    ((Disp.endTagHint H ln d).2 = .ok .scan ∧
      (IsPanic (Disp.handleTag (withObs H o) inp lx d').2 ∨
       ((Disp.handleTag (withObs H o) inp lx d').2 = .ok .lex ∧
        ObsR false (Disp.handleTag (withObs H o) inp lx d').1 (Disp.endTagHint H ln d).1 ∧
        ScanMode H (Disp.endTagHint H ln d).1))) ∨
    ((Disp.endTagHint H ln d).2 = .ok .lex ∧
      TagOut false (Disp.handleTag (withObs H o) inp lx d') (Disp.handleTag H inp lx (Disp.endTagHint H ln d).1)) := by
  by_cases hforced : (({ d with ctl := (H.endTag d.ctl ln).1 } : Disp γ).shouldStopRemoving H = true ∧ (H.endTag d.ctl ln).2.nextEndTag = false)
  · exact Or.inl hforced
  right
  have hgf : d.gotFlagsFromHint = false := h.gf
  obtain ⟨f1, f2, _, f4⟩ := flush_obs (H := H) (o := o) h
  rw [flush_idle hm.tp] at f1 f2
  have hc' : (d'.flushPendingText (withObs H o)).1.ctl = (d.ctl, d.flags) := f2.ctl
  have g2 : (d'.flushPendingText (withObs H o)).1.gotFlagsFromHint = false := f2.gf'
  have p2 : (d'.flushPendingText (withObs H o)).1.pendingAux = false := f2.pa'
  have hHO : Disp.handleTag (withObs H o) inp lx d' =
      DRes.bind ((d'.flushPendingText (withObs H o)).1.adjustFlagsForTag (withObs H o) inp lx)
        (fun k _ => k.tagTail (withObs H o) inp lx) := by
    rw [handleTag_eq, DRes.bind_ok' _ f1, g2]
    simp only [Bool.false_eq_true, if_false]
  rw [hHO]
  generalize (d'.flushPendingText (withObs H o)).1 = fl' at f2 f4 hc' g2 p2 ⊢
  have hadj : fl'.adjustFlagsForTag (withObs H o) inp lx =
      (({ fl' with ctl := ((H.endTag d.ctl ln).1, (H.endTag d.ctl ln).2), flags := (H.endTag d.ctl ln).2.join o } : Disp (γ × Flags)), Except.ok ()) := by
    unfold Disp.adjustFlagsForTag
    rw [if_neg (by rw [p2]; simp), hol]
    dsimp only
    rw [hln]
    dsimp only
    rw [hc']
    rfl
  rw [hadj, DRes.bind_ok' _ rfl]
  have hdec := f2.decide (o := o) hm.tp f4 (H.endTag d.ctl ln).1 (H.endTag d.ctl ln).2 (fun hl => by cases hl) (Or.inl ho)
  -- the hint
  have hf : (if ({ d with ctl := (H.endTag d.ctl ln).1 } : Disp γ).shouldStopRemoving H = true
      then { (H.endTag d.ctl ln).2 with nextEndTag := true } else (H.endTag d.ctl ln).2) = (H.endTag d.ctl ln).2 := by
    split
    · rename_i hst
      have : (H.endTag d.ctl ln).2.nextEndTag = true := by
        cases hn : (H.endTag d.ctl ln).2.nextEndTag with
        | true => rfl
        | false => exact absurd ⟨hst, hn⟩ hforced
      generalize (H.endTag d.ctl ln).2 = fe at this ⊢
      cases fe; simp only at this; subst this; rfl
    · rfl
  have hhint : Disp.endTagHint H ln d =
      (({ d with ctl := (H.endTag d.ctl ln).1, flags := (H.endTag d.ctl ln).2, gotFlagsFromHint := (({ d with ctl := (H.endTag d.ctl ln).1, flags := (H.endTag d.ctl ln).2 } : Disp γ).nextDirective == .lex) } : Disp γ),
       Except.ok ({ d with ctl := (H.endTag d.ctl ln).1, flags := (H.endTag d.ctl ln).2 } : Disp γ).nextDirective) := by
    unfold Disp.endTagHint
    rw [flush_idle hm.tp, DRes.bind_ok' _ rfl]
    dsimp only
    rw [hf]
    rfl
  rw [hhint]
  generalize hg' : (H.endTag d.ctl ln).1 = g' at hdec hforced ⊢
  generalize hfe' : (H.endTag d.ctl ln).2 = fe at hdec hforced ⊢
  cases hfe : fe.isEmpty with
  | true =>
    left
    simp only [Disp.nextDirective, hfe, if_true]
    refine ⟨by first | rfl | trivial, ?_⟩
    have hd2 : ({ d with ctl := g', flags := fe, gotFlagsFromHint := (Directive.scan == Directive.lex) } : Disp γ) =
        { d with ctl := g', flags := fe } := by
      cases d; simp only at hgf; subst hgf; rfl
    rw [hd2]
    have hnet : fe.nextEndTag = false := by
      cases fe
      simp only [Flags.isEmpty, Bool.and_eq_true, Bool.not_eq_true'] at hfe
      exact hfe.1.2
    have hstop : ({ d with ctl := g' } : Disp γ).shouldStopRemoving H = false := by
      cases hs : ({ d with ctl := g' } : Disp γ).shouldStopRemoving H with
      | false => rfl
      | true => exact absurd ⟨hs, hnet⟩ hforced
    have hres : ({ d with ctl := g', flags := fe } : Disp γ).resumeEmission H lx = { d with ctl := g', flags := fe } := by
      unfold Disp.resumeEmission
      have : ({ d with ctl := g', flags := fe } : Disp γ).shouldStopRemoving H = false := hstop
      rw [this]
      simp
    have hidle := tagTail_idle (H := H) (inp := inp) (d := ({ d with ctl := g', flags := fe } : Disp γ)) hfe lx hres
    have hem : H.shouldEmit g' = d.emissionEnabled := by
      cases hde : d.emissionEnabled with
      | true =>
        have h1 : H.shouldEmit d.ctl = true := by rw [← hm.emis]; exact hde
        have := ed.end_ d.ctl ln h1
        rw [hg'] at this
        exact this
      | false =>
        unfold Disp.shouldStopRemoving at hstop
        simp only [hde] at hstop
        simpa using hstop
    have hsame : ({ ({ d with ctl := g', flags := fe } : Disp γ) with emissionEnabled := H.shouldEmit g' } : Disp γ) =
        { d with ctl := g', flags := fe } := by rw [hem]
    rcases tagTail_obs (H := H) (o := o) (inp := inp) hdec lx with hp | ⟨hR, ⟨e, e1, e2⟩ | ⟨e1, e2⟩⟩
    · exact Or.inl hp
    · rw [hidle] at e2; cases e2
    · rw [hidle] at hR
      simp only at hR
      rw [hsame] at hR
      exact Or.inr ⟨e1, hR, ⟨hfe, hm.tp, by show d.emissionEnabled = H.shouldEmit g'; exact hem.symm⟩⟩
  | false =>
    right
    simp only [Disp.nextDirective, hfe, Bool.false_eq_true, if_false]
    refine ⟨by first | rfl | trivial, ?_⟩
    have hH : Disp.handleTag H inp lx ({ d with ctl := g', flags := fe, gotFlagsFromHint := (Directive.lex == Directive.lex) } : Disp γ) =
        Disp.tagTail H inp lx ({ d with ctl := g', flags := fe } : Disp γ) := by
      rw [handleTag_eq, flush_idle (by exact hm.tp), DRes.bind_ok' _ rfl]
      have : (Directive.lex == Directive.lex) = true := rfl
      simp only [this, if_true]
      rw [DRes.bind_ok' _ rfl]
      have e : ({ ({ d with ctl := g', flags := fe, gotFlagsFromHint := true } : Disp γ) with gotFlagsFromHint := false } : Disp γ) =
          { d with ctl := g', flags := fe } := by
        cases d; simp only at hgf; subst hgf; rfl
      rw [e]
    rw [hH]
    exact tagTail_obs hdec lx

end

/-! ### back to the scanner -/

section
variable {H : Controller γ} {inp : Bytes}

theorem adjust_tp (d : Disp γ) (lx : TagLexeme) :
    (d.adjustFlagsForTag H inp lx).1.textPending = d.textPending := by
  unfold Disp.adjustFlagsForTag Disp.answerAux
  dsimp only
  (repeat' split) <;> rfl

theorem produceTag_tp (d : Disp γ) (lx : TagLexeme) (h : (d.produceTag H inp lx).2 = .ok ()) :
    (d.produceTag H inp lx).1.textPending = d.textPending := by
  unfold Disp.produceTag at h ⊢
  split
  · rfl
  · rename_i ft hft
    rw [hft] at h
    dsimp only at h ⊢
    split
    · rfl
    · rename_i tok htok
      rw [htok] at h
      dsimp only at h
      rcases emitToken_vspec H ({ d with flags := ft.1 } : Disp γ) inp lx.raw tok with ⟨_, s, hs, _⟩ | ⟨_, _, _, hv⟩
      · rw [hs] at h; cases h
      · exact congrArg DView.tp hv

/-- when the plain run's `handle_tag` answers `scan`, its dispatcher is in scan mode -/
theorem handleTag_scanMode (d : Disp γ) (lx : TagLexeme) (h : (Disp.handleTag H inp lx d).2 = .ok .scan) :
    ScanMode H (Disp.handleTag H inp lx d).1 := by
  rw [handleTag_eq] at h ⊢
  have hfl : (d.flushPendingText H).1.textPending = false := by
    rcases flushPendingText_vspec H d with ⟨hd, he⟩ | ⟨_, _, _, hv⟩
    · rw [he]; exact hd
    · exact congrArg DView.tp hv
  cases hfr : (d.flushPendingText H).2 with
  | error e => rw [DRes.bind_err' _ hfr] at h; cases h
  | ok u =>
    rw [DRes.bind_ok' _ hfr] at h ⊢
    generalize (d.flushPendingText H).1 = fl at hfl h ⊢
    have hadj : (if fl.gotFlagsFromHint then (({ fl with gotFlagsFromHint := false }, .ok ()) : DRes γ Unit)
        else fl.adjustFlagsForTag H inp lx).1.textPending = false := by
      split
      · exact hfl
      · rw [adjust_tp]; exact hfl
    generalize (if fl.gotFlagsFromHint then (({ fl with gotFlagsFromHint := false }, .ok ()) : DRes γ Unit)
        else fl.adjustFlagsForTag H inp lx) = ad at hadj h ⊢
    cases har : ad.2 with
    | error e => rw [DRes.bind_err' _ har] at h; cases h
    | ok u2 =>
      rw [DRes.bind_ok' _ har] at h ⊢
      unfold Disp.tagTail at h ⊢
      have hres : (ad.1.resumeEmission H lx).textPending = false := by
        unfold Disp.resumeEmission; split <;> exact hadj
      generalize ad.1.resumeEmission H lx = rs at hres h ⊢
      cases hpr : (rs.produceTag H inp lx).2 with
      | error e => rw [DRes.bind_err' _ hpr] at h; cases h
      | ok u3 =>
        rw [DRes.bind_ok' _ hpr] at h ⊢
        have htp := produceTag_tp (H := H) (inp := inp) rs lx (by rw [hpr])
        dsimp only at h ⊢
        simp only [Except.ok.injEq] at h
        refine ⟨?_, ?_, rfl⟩
        · unfold Disp.nextDirective at h
          split at h
          · rename_i he; exact he
          · cases h
        · show (rs.produceTag H inp lx).1.textPending = false
          rw [htp]; exact hres

end
end LolHtml.Model
