import LolHtml.Lemmas.ParseRelE
/-!
# Guarding the ARGUMENTS of a sink — generic part (no parser invariant)

`guardArgs G ops` is a copy of the sink `ops` whose `handle_tag` / `handle_non_tag_content` first look at
the lexeme they are handed (`G.tag inp lx`, `G.nonTag inp lx`) and refuse it with the given error;
otherwise they are `ops`. `cleanOps ops` reports every failure of `ops` as the handler error.

`guardArgs_parse_eq`: for a table whose sink-calling actions are written with `?` (`EmitsChecked`), if
`Parser.parse` over the guarded AND cleaned sink never returns a guard error (this is where a parser
invariant comes in: that sink never fails at a panic site of its own, so the C15 theorems apply to it),
and — on sink states with an invariant `Dk` that successful operations keep — the real sink never reports a guard
error itself on a lexeme the guard lets through (`ArgFresh`),
then `Parser.parse` over the guarded sink IS `Parser.parse` over the real sink, does not return a guard
error, and if it succeeds it is also the parse over the guarded-and-cleaned sink.
Nothing is assumed about what the real sink answers.
-/
set_option linter.unusedSimpArgs false
set_option linter.unusedVariables false
namespace LolHtml.Model

variable {κ : Type}

/-- a check of the lexemes handed to the sink: `some e` = refuse with `e` -/
structure ArgGuard where
  tag : Bytes → TagLexeme → Option Err
  nonTag : Bytes → NonTagLexeme → Option Err

/-- `e` is an error with which the guard refuses some lexeme of `inp` -/
def ArgGuard.Fires (G : ArgGuard) (inp : Bytes) (e : Err) : Prop :=
  (∃ lx, G.tag inp lx = some e) ∨ (∃ lx, G.nonTag inp lx = some e)

/-- the guarded copy of a sink -/
def guardArgs (G : ArgGuard) (ops : SinkOps κ) : SinkOps κ :=
  { ops with
    handleTag := fun inp lx k => match G.tag inp lx with | some e => (k, .error e) | none => ops.handleTag inp lx k
    handleNonTag := fun inp lx k => match G.nonTag inp lx with | some e => (k, .error e) | none => ops.handleNonTag inp lx k }

def cleanRes {α : Type} (r : κ × Except Err α) : κ × Except Err α :=
  (r.1, match r.2 with | .ok a => .ok a | .error _ => .error .handler)

/-- every failure reported as the handler error -/
def cleanOps (ops : SinkOps κ) : SinkOps κ :=
  { handleTag := fun inp lx k => cleanRes (ops.handleTag inp lx k)
    handleNonTag := fun inp lx k => cleanRes (ops.handleNonTag inp lx k)
    startTagHint := fun n ns k => cleanRes (ops.startTagHint n ns k)
    endTagHint := fun n k => cleanRes (ops.endTagHint n k) }

theorem cleanRes_fst {α : Type} (r : κ × Except Err α) : (cleanRes r).1 = r.1 := rfl

theorem cleanRes_ok {α : Type} {r : κ × Except Err α} {a : α} (h : r.2 = .ok a) : cleanRes r = r := by
  obtain ⟨k, x⟩ := r
  simp only at h
  subst h
  rfl

theorem cleanRes_err {α : Type} (r : κ × Except Err α) {e : Err} (h : (cleanRes r).2 = .error e) : e = .handler := by
  unfold cleanRes at h
  dsimp only at h
  split at h
  · cases h
  · simp only [Except.error.injEq] at h; exact h.symm

theorem guardArgs_tag_err {G : ArgGuard} {ops : SinkOps κ} {inp : Bytes} {lx : TagLexeme} {k : κ} {e : Err}
    (h : ((guardArgs G ops).handleTag inp lx k).2 = .error e) :
    G.tag inp lx = some e ∨ (G.tag inp lx = none ∧ (ops.handleTag inp lx k).2 = .error e) := by
  simp only [guardArgs] at h
  cases hg : G.tag inp lx with
  | some e' => rw [hg] at h; simp only [Except.error.injEq] at h; subst h; exact Or.inl rfl
  | none => rw [hg] at h; exact Or.inr ⟨rfl, h⟩

theorem guardArgs_nonTag_err {G : ArgGuard} {ops : SinkOps κ} {inp : Bytes} {lx : NonTagLexeme} {k : κ} {e : Err}
    (h : ((guardArgs G ops).handleNonTag inp lx k).2 = .error e) :
    G.nonTag inp lx = some e ∨ (G.nonTag inp lx = none ∧ (ops.handleNonTag inp lx k).2 = .error e) := by
  simp only [guardArgs] at h
  cases hg : G.nonTag inp lx with
  | some e' => rw [hg] at h; simp only [Except.error.injEq] at h; subst h; exact Or.inl rfl
  | none => rw [hg] at h; exact Or.inr ⟨rfl, h⟩

/-- on sink states with `Dk`: the real sink never reports a guard error itself on a lexeme the guard lets
through, and a successful operation keeps `Dk` (`Dk := fun _ => True` for "all states") -/
structure ArgFresh (G : ArgGuard) (ops : SinkOps κ) (inp : Bytes) (Dk : κ → Prop) : Prop where
  handleTag : ∀ lx k, Dk k → G.tag inp lx = none →
    (∀ e, G.Fires inp e → (ops.handleTag inp lx k).2 ≠ .error e) ∧
    (∀ a, (ops.handleTag inp lx k).2 = .ok a → Dk (ops.handleTag inp lx k).1)
  handleNonTag : ∀ lx k, Dk k → G.nonTag inp lx = none →
    (∀ e, G.Fires inp e → (ops.handleNonTag inp lx k).2 ≠ .error e) ∧
    (∀ a, (ops.handleNonTag inp lx k).2 = .ok a → Dk (ops.handleNonTag inp lx k).1)
  startTagHint : ∀ n ns k, Dk k →
    (∀ e, G.Fires inp e → (ops.startTagHint n ns k).2 ≠ .error e) ∧
    (∀ a, (ops.startTagHint n ns k).2 = .ok a → Dk (ops.startTagHint n ns k).1)
  endTagHint : ∀ n k, Dk k →
    (∀ e, G.Fires inp e → (ops.endTagHint n k).2 ≠ .error e) ∧
    (∀ a, (ops.endTagHint n k).2 = .ok a → Dk (ops.endTagHint n k).1)

theorem PR_eq' {p₁ p₂ : Parser κ} (h : PR (fun a b : κ => a = b) p₁ p₂) : p₁ = p₂ := by
  obtain ⟨a, b, c, d, e, f1, f2, f3⟩ := h
  obtain ⟨lc, lr, sc, sr, dr, ⟨sk, sm, pc⟩⟩ := p₁
  obtain ⟨lc', lr', sc', sr', dr', ⟨sk', sm', pc'⟩⟩ := p₂
  simp only at a b c d e f1 f2 f3
  subst a b c d e f1 f2 f3
  rfl

theorem PR_refl (p : Parser κ) : PR (fun a b : κ => a = b) p p := ⟨rfl, rfl, rfl, rfl, rfl, rfl, rfl, rfl⟩

theorem PR_eqD {Dk : κ → Prop} {p₁ p₂ : Parser κ} (h : PR (fun a b : κ => a = b ∧ Dk a) p₁ p₂) :
    p₁ = p₂ ∧ Dk p₁.x.sink := by
  obtain ⟨a, b, c, d, e, ⟨f1, fD⟩, f2, f3⟩ := h
  refine ⟨PR_eq' ⟨a, b, c, d, e, f1, f2, f3⟩, fD⟩

theorem PR_reflD {Dk : κ → Prop} (p : Parser κ) (h : Dk p.x.sink) : PR (fun a b : κ => a = b ∧ Dk a) p p :=
  ⟨rfl, rfl, rfl, rfl, rfl, ⟨rfl, h⟩, rfl, rfl⟩

section
variable {G : ArgGuard} {ops : SinkOps κ} {inp : Bytes}

/-- guarded vs. real: equal, or the guard fired -/
theorem guardArgs_relReal : RelE.OpsRelE (guardArgs G ops) ops inp (fun a b : κ => a = b) (G.Fires inp) where
  handleTag := fun lx k₁ k₂ hk => by
    subst hk
    simp only [guardArgs]
    cases hg : G.tag inp lx with
    | some e => exact Or.inr ⟨e, Or.inl ⟨lx, hg⟩, rfl⟩
    | none => exact Or.inl ⟨rfl, rfl⟩
  handleNonTag := fun lx k₁ k₂ hk => by
    subst hk
    simp only [guardArgs]
    cases hg : G.nonTag inp lx with
    | some e => exact Or.inr ⟨e, Or.inr ⟨lx, hg⟩, rfl⟩
    | none => exact Or.inl ⟨rfl, rfl⟩
  startTagHint := fun n ns k₁ k₂ hk => by subst hk; exact Or.inl ⟨rfl, rfl⟩
  endTagHint := fun n k₁ k₂ hk => by subst hk; exact Or.inl ⟨rfl, rfl⟩

theorem cleanRes_rel {α : Type} {Dk : κ → Prop} (r : κ × Except Err α) (hf : ∀ e, G.Fires inp e → r.2 ≠ .error e)
    (hD : ∀ a, r.2 = .ok a → Dk r.1) :
    ((r.1 = (cleanRes r).1 ∧ Dk r.1) ∧ r.2 = (cleanRes r).2) ∨ ∃ eA, ¬ G.Fires inp eA ∧ r.2 = .error eA := by
  cases hr : r.2 with
  | ok a => rw [cleanRes_ok hr]; exact Or.inl ⟨⟨rfl, hD a hr⟩, hr.symm⟩
  | error e => exact Or.inr ⟨e, fun hF => hf e hF hr, rfl⟩

/-- guarded vs. guarded-and-cleaned: equal, or the real sink failed with an error that is not a guard error -/
theorem guardArgs_relClean {Dk : κ → Prop} (hf : ArgFresh G ops inp Dk) :
    RelE.OpsRelE (guardArgs G ops) (guardArgs G (cleanOps ops)) inp (fun a b : κ => a = b ∧ Dk a)
      (fun e => ¬ G.Fires inp e) where
  handleTag := fun lx k₁ k₂ hk => by
    obtain ⟨hk, hD⟩ := hk
    subst hk
    simp only [guardArgs, cleanOps]
    cases hg : G.tag inp lx with
    | some e => exact Or.inl ⟨⟨rfl, hD⟩, rfl⟩
    | none => exact cleanRes_rel _ (hf.handleTag lx k₁ hD hg).1 (hf.handleTag lx k₁ hD hg).2
  handleNonTag := fun lx k₁ k₂ hk => by
    obtain ⟨hk, hD⟩ := hk
    subst hk
    simp only [guardArgs, cleanOps]
    cases hg : G.nonTag inp lx with
    | some e => exact Or.inl ⟨⟨rfl, hD⟩, rfl⟩
    | none => exact cleanRes_rel _ (hf.handleNonTag lx k₁ hD hg).1 (hf.handleNonTag lx k₁ hD hg).2
  startTagHint := fun n ns k₁ k₂ hk => by
    obtain ⟨hk, hD⟩ := hk
    subst hk
    simp only [guardArgs, cleanOps]
    exact cleanRes_rel _ (hf.startTagHint n ns k₁ hD).1 (hf.startTagHint n ns k₁ hD).2
  endTagHint := fun n k₁ k₂ hk => by
    obtain ⟨hk, hD⟩ := hk
    subst hk
    simp only [guardArgs, cleanOps]
    exact cleanRes_rel _ (hf.endTagHint n k₁ hD).1 (hf.endTagHint n k₁ hD).2

variable {tbl : Table} {cfg : TagCfg}

/-- **Guarded = real.** -/
theorem guardArgs_parse_eq {Dk : κ → Prop} (ht : EmitsChecked tbl = true) (hf : ArgFresh G ops inp Dk)
    (hpanic : ∀ e, G.Fires inp e → ∃ s, e = .panic s) (last : Bool) (p : Parser κ) (hDk : Dk p.x.sink)
    (hD : ∀ e, G.Fires inp e → (Parser.parse ⟨tbl, cfg, guardArgs G (cleanOps ops)⟩ inp last p).2 ≠ .error e) :
    Parser.parse ⟨tbl, cfg, guardArgs G ops⟩ inp last p = Parser.parse ⟨tbl, cfg, ops⟩ inp last p ∧
    (∀ e, G.Fires inp e → (Parser.parse ⟨tbl, cfg, ops⟩ inp last p).2 ≠ .error e) ∧
    (∀ k, (Parser.parse ⟨tbl, cfg, ops⟩ inp last p).2 = .ok k →
      Parser.parse ⟨tbl, cfg, ops⟩ inp last p = Parser.parse ⟨tbl, cfg, guardArgs G (cleanOps ops)⟩ inp last p ∧
      Dk (Parser.parse ⟨tbl, cfg, ops⟩ inp last p).1.x.sink) := by
  have h1 := RelE.parse_relE (tbl := tbl) (cfg := cfg) (inp := inp) (guardArgs_relReal (G := G) (ops := ops)) ht last p p (PR_refl p)
  have h2 := RelE.parse_relE (tbl := tbl) (cfg := cfg) (inp := inp) (guardArgs_relClean hf) ht last p p (PR_reflD p hDk)
  -- the guarded parse does not return a guard error
  have hno : ∀ e, G.Fires inp e → (Parser.parse ⟨tbl, cfg, guardArgs G ops⟩ inp last p).2 ≠ .error e := by
    intro e hF he
    obtain ⟨s, rfl⟩ := hpanic e hF
    rcases h2 with ⟨_, hres⟩ | ⟨eA, hnA, hres⟩
    · rw [hres] at he
      exact hD _ hF he
    · rw [hres] at he
      simp only [Except.error.injEq] at he
      cases eA <;> simp only [RelE.parseErr] at he <;> first | (cases he; done) | (rw [he] at hnA; exact hnA hF)
  have heq : Parser.parse ⟨tbl, cfg, guardArgs G ops⟩ inp last p = Parser.parse ⟨tbl, cfg, ops⟩ inp last p := by
    rcases h1 with ⟨hp, hres⟩ | ⟨eA, hFA, hres⟩
    · exact Prod.ext (PR_eq' hp) hres
    · obtain ⟨s, rfl⟩ := hpanic eA hFA
      exact absurd hres (hno _ hFA)
  refine ⟨heq, fun e hF => by rw [← heq]; exact hno e hF, fun k hk => ?_⟩
  rw [← heq] at hk ⊢
  rcases h2 with ⟨hp, hres⟩ | ⟨eA, _, hres⟩
  · obtain ⟨e1, e2⟩ := PR_eqD hp
    exact ⟨Prod.ext e1 hres, e2⟩
  · rw [hres] at hk; cases hk

end
end LolHtml.Model
