import LolHtml.Lemmas.Locations
import LolHtml.Lemmas.StreamTiling
/-!
The location invariant across `write` calls: after a successful `write` the parser's byte count has
grown by the number of bytes consumed, `remaining_content_start` is back at 0, and every token handed
over so far ends at or before the new document offset — so the tokens of the next `write` follow.
In every outcome (errors included) the tokens handed over so far are ordered and disjoint.
-/
namespace LolHtml.Model

variable {γ : Type} {w : World γ} {log : γ → List Token}

/-- between calls -/
def Stream.LocInv (log : γ → List Token) (s : Stream γ) : Prop :=
  LInv log s.parser.x.prevConsumed s.disp ∧ s.disp.rcs = 0

theorem Stream.bail_log (hlog : Logging w.ctl log) (s : Stream γ) (e : Err) (slices : List Bytes) :
    log (s.bail w e slices).disp.ctl = log s.disp.ctl := by
  have hfold : ∀ (sl : List Bytes) (d : Disp γ),
      (sl.foldl (fun d sl => match d.flushForBailOut sl with | .ok d => d | .error _ => d) d).ctl = d.ctl := by
    intro sl
    induction sl with
    | nil => intro d; rfl
    | cons a as ih =>
      intro d
      simp only [List.foldl_cons]
      rw [ih]
      unfold Disp.flushForBailOut
      split
      · rename_i heq
        split at heq
        · simp at heq
        · simp only [Except.ok.injEq] at heq
          subst heq
          split <;> rfl
      · rfl
  unfold Stream.bail
  split
  · show log (Stream.setDisp s _).disp.ctl = _
    rw [setDisp_disp]
    have h2 := hfold slices (Disp.runBailOut w.ctl s.disp e)
    exact (congrArg log h2).trans (by simp [Disp.runBailOut, hlog.bailOut])
  · rfl

theorem flushRemaining_LInv {pc consumed : Nat} {inp : Bytes} {d d' : Disp γ} (h : LInv log pc d)
    (hf : d.flushRemaining inp consumed = .ok d') : LInv log (pc + consumed) d' ∧ d'.rcs = 0 := by
  unfold Disp.flushRemaining at hf
  rw [if_pos h.emission] at hf
  split at hf
  · simp at hf
  · rename_i out hs
    obtain ⟨h1, _, _⟩ := checkedSlice_some hs
    simp only at h1
    simp only [Except.ok.injEq] at hf
    subst hf
    have hc : (if out.isEmpty = true then d else d.push out).ctl = d.ctl := by split <;> rfl
    have htp : (if out.isEmpty = true then d else d.push out).textPending = d.textPending := by split <;> rfl
    have hts : (if out.isEmpty = true then d else d.push out).textPendingStart = d.textPendingStart := by split <;> rfl
    have hem : (if out.isEmpty = true then d else d.push out).emissionEnabled = d.emissionEnabled := by split <;> rfl
    refine ⟨⟨?_, ?_, ?_, ?_⟩, rfl⟩
    · simp only; rw [hc]; exact h.ordered
    · intro a ha
      simp only at ha ⊢
      rw [hc] at ha
      have := h.below a ha
      omega
    · intro hp
      simp only at hp ⊢
      rw [htp] at hp
      obtain ⟨p1, p2⟩ := h.pending hp
      rw [hts, hc]
      exact ⟨by omega, p2⟩
    · simp only; rw [hem]; exact h.emission

theorem Stream.keepTail_disp (s : Stream γ) (data chunk : Bytes) (consumed : Nat)
    (hok : (s.keepTail w data chunk consumed).2 = .ok ()) :
    (s.keepTail w data chunk consumed).1.disp = s.disp ∧ (s.keepTail w data chunk consumed).1.parser = s.parser := by
  unfold Stream.keepTail at hok ⊢
  by_cases hlt : consumed < chunk.length
  · rw [if_pos hlt] at hok ⊢
    by_cases hb : s.hasBuffered = true
    · rw [if_pos hb] at hok ⊢
      split <;> exact ⟨rfl, rfl⟩
    · rw [if_neg hb] at hok ⊢
      dsimp only at hok ⊢
      by_cases hi : (s.buf.initWith (List.drop consumed data)).2 = true
      · rw [if_pos hi]; exact ⟨rfl, rfl⟩
      · rw [if_neg hi] at hok; simp at hok
  · rw [if_neg hlt]; exact ⟨rfl, rfl⟩

theorem Stream.keepTail_log (hlog : Logging w.ctl log) (s : Stream γ) (data chunk : Bytes) (consumed : Nat) :
    log (s.keepTail w data chunk consumed).1.disp.ctl = log s.disp.ctl := by
  unfold Stream.keepTail
  split
  · split
    · split <;> rfl
    · dsimp only
      split
      · rfl
      · rw [Stream.bail_log hlog]; rfl
  · rfl

/-- one `write`: the invariant is kept on success; the log stays ordered in every outcome -/
theorem Stream.write_LocInv (hlog : Logging w.ctl log) (htame : Tame w.ctl) (s : Stream γ) (data : Bytes)
    (h : s.LocInv log) :
    Ordered (log (s.write w data).1.disp.ctl) ∧ ((s.write w data).2 = .ok () → (s.write w data).1.LocInv log) := by
  obtain ⟨hinv, hrcs⟩ := h
  unfold Stream.write
  cases hcf : s.chunkFor w data with
  | inl s' =>
    obtain ⟨_, hs'⟩ := Stream.chunkFor_inl hcf
    simp only
    refine ⟨?_, fun h => by simp at h⟩
    rw [hs', Stream.bail_log hlog]
    exact hinv.ordered
  | inr sc =>
    obtain ⟨s1, chunk⟩ := sc
    obtain ⟨_, c2, _, _, _⟩ := Stream.chunkFor_inr hcf
    simp only
    have hp := Parser.parse_at (env := w.env) (inp := chunk) (pc := s.parser.x.prevConsumed)
      (P := LInv log s.parser.x.prevConsumed) (dispOps_LInv hlog htame) false s1.parser
      (by rw [c2]; exact ⟨rfl, hinv⟩)
    obtain ⟨hP, hpc⟩ := hp
    cases hpr : (s1.parser.parse w.env chunk false).2 with
    | error e =>
      simp only
      refine ⟨?_, fun h => by simp at h⟩
      rw [Stream.bail_log hlog]
      exact hP.ordered
    | ok consumed =>
      simp only
      rw [hpr] at hpc
      simp only at hpc
      cases hfl : Disp.flushRemaining (Stream.disp { s1 with parser := (s1.parser.parse w.env chunk false).1 }) chunk consumed with
      | error e =>
        simp only
        exact ⟨hP.ordered, fun h => by simp at h⟩
      | ok d =>
        simp only
        obtain ⟨hd, hd0⟩ := flushRemaining_LInv (d := Stream.disp { s1 with parser := (s1.parser.parse w.env chunk false).1 }) hP hfl
        refine ⟨?_, ?_⟩
        · rw [Stream.keepTail_log hlog]
          exact hd.ordered
        · intro hok
          obtain ⟨k1, k2⟩ := Stream.keepTail_disp _ _ _ _ hok
          unfold Stream.LocInv
          rw [k1, k2]
          simp only [setDisp_disp, Stream.setDisp]
          rw [hpc]
          exact ⟨hd, hd0⟩

/-- `end`: the log stays ordered -/
theorem Stream.end_ordered (hlog : Logging w.ctl log) (htame : Tame w.ctl) (s : Stream γ) (h : s.LocInv log) :
    Ordered (log (s.end w).1.disp.ctl) := by
  obtain ⟨hinv, hrcs⟩ := h
  unfold Stream.end
  generalize (if s.hasBuffered = true then s.buf.data else []) = chunk
  have hp := Parser.parse_at (env := w.env) (inp := chunk) (pc := s.parser.x.prevConsumed)
    (P := LInv log s.parser.x.prevConsumed) (dispOps_LInv hlog htame) true s.parser ⟨rfl, hinv⟩
  obtain ⟨hP, _⟩ := hp
  simp only
  cases hpr : (s.parser.parse w.env chunk true).2 with
  | error e =>
    simp only
    rw [Stream.bail_log hlog]
    exact hP.ordered
  | ok consumed =>
    simp only [setDisp_disp]
    unfold Disp.finish
    cases hfl : Disp.flushRemaining (Stream.disp { s with parser := (s.parser.parse w.env chunk true).1 }) chunk chunk.length with
    | error e =>
      simp only [DRes.ofExcept, DRes.bind]
      exact hP.ordered
    | ok d =>
      obtain ⟨hd, _⟩ := flushRemaining_LInv (d := Stream.disp { s with parser := (s.parser.parse w.env chunk true).1 }) hP hfl
      simp only [DRes.ofExcept, DRes.bind]
      split <;> simp only [hlog.handleEnd] <;> exact hd.ordered

end LolHtml.Model
