import LolHtml.Model.Stream
import LolHtml.Lemmas.Preserve
/-!
Tiling invariant of the dispatcher for observing controllers: at every moment during the processing
of an input slice `inp`, the bytes the sink has received are `pre ++ inp.take rcs` — everything
emitted before this slice, followed by exactly the first `remaining_content_start` bytes of it.
Holds for every table and both machines (the parser part is `Parser.parse_sink`).
-/
namespace LolHtml.Model

variable {γ : Type}

/-- A controller that only observes: tokens are serialised back to their raw bytes, emission is
never disabled. (Handlers may fail.) -/
structure Observing (ctl : Controller γ) : Prop where
  token_raw : ∀ g t, (ctl.token g t).2.err = none → (ctl.token g t).2.chunks.flatten = t.raw
  token_err : ∀ g t e, (ctl.token g t).2.err = some e → (ctl.token g t).2.chunks.flatten = []
  shouldEmit : ∀ g, ctl.shouldEmit g = true

def DInv (pre inp : Bytes) (d : Disp γ) : Prop :=
  sinkBytes d.sink = pre ++ inp.take d.rcs ∧ d.rcs ≤ inp.length ∧ d.emissionEnabled = true

@[simp] theorem sinkBytes_nil : sinkBytes ([] : List SinkEv) = [] := rfl

@[simp] theorem sinkBytes_append (a b : List SinkEv) : sinkBytes (a ++ b) = sinkBytes a ++ sinkBytes b := by
  simp [sinkBytes]

@[simp] theorem sinkBytes_chunks (cs : List Bytes) : sinkBytes (cs.map .chunk) = cs.flatten := by
  induction cs with
  | nil => rfl
  | cons c cs ih =>
    simp only [List.map_cons, List.flatten_cons]
    rw [show (SinkEv.chunk c :: cs.map SinkEv.chunk) = [SinkEv.chunk c] ++ cs.map SinkEv.chunk from rfl,
      sinkBytes_append, ih]
    simp [sinkBytes]

@[simp] theorem sinkBytes_enc (e : Nat) : sinkBytes [SinkEv.enc e] = [] := by simp [sinkBytes]
@[simp] theorem sinkBytes_chunk (b : Bytes) : sinkBytes [SinkEv.chunk b] = b := by simp [sinkBytes]

theorem checkedSlice_some {xs : Bytes} {r : Range} {b : Bytes} (h : checkedSlice xs r = some b) :
    r.start ≤ r.end ∧ r.end ≤ xs.length ∧ b = slice xs r.start r.end := by
  unfold checkedSlice at h
  split at h
  · rename_i hc; simp at h; exact ⟨hc.1, hc.2, h.symm⟩
  · simp at h

theorem take_append_slice (xs : List α) (a b : Nat) (hab : a ≤ b) :
    xs.take a ++ slice xs a b = xs.take b := by
  unfold slice
  have : xs.take a = (xs.take b).take a := by
    rw [List.take_take]; congr 1; omega
  rw [this, List.take_append_drop]

/-! ### DRes.bind -/

theorem DRes.bind_fst {α β : Type} (Q : Disp γ → Prop) (r : DRes γ α) (f : Disp γ → α → DRes γ β)
    (hr : Q r.1) (hf : ∀ d a, Q d → Q (f d a).1) : Q (DRes.bind r f).1 := by
  unfold DRes.bind
  split
  · exact hr
  · exact hf _ _ hr

/-! ### steps -/

section
variable {ctl : Controller γ} {pre inp : Bytes}

theorem noteNextEncoding_frame (d : Disp γ) (o : Option Nat) :
    (d.noteNextEncoding o).sink = d.sink ∧ (d.noteNextEncoding o).rcs = d.rcs ∧
    (d.noteNextEncoding o).emissionEnabled = d.emissionEnabled := by
  unfold Disp.noteNextEncoding
  (repeat' split) <;> simp

theorem pushChunks_spec (d : Disp γ) (cs : List Bytes) :
    (d.pushChunks cs).rcs = d.rcs ∧ (d.pushChunks cs).emissionEnabled = d.emissionEnabled ∧
    sinkBytes (d.pushChunks cs).sink = sinkBytes d.sink ++ (if d.emissionEnabled then cs.flatten else []) := by
  unfold Disp.pushChunks
  have hf : ∀ cs : List Bytes, (cs.filter (fun c => !c.isEmpty)).flatten = cs.flatten := by
    intro cs
    induction cs with
    | nil => rfl
    | cons c cs ih =>
      cases c with
      | nil => simpa using ih
      | cons x xs => simp [ih]
  split <;> simp_all

/-- what `token_produced` does to the tiling-relevant fields -/
theorem tokenProduced_spec (hobs : Observing ctl) (d : Disp γ) (t : Token) :
    (Disp.tokenProduced ctl d t).1.rcs = d.rcs ∧
    (Disp.tokenProduced ctl d t).1.emissionEnabled = d.emissionEnabled ∧
    (match (Disp.tokenProduced ctl d t).2 with
     | .ok _ => sinkBytes (Disp.tokenProduced ctl d t).1.sink
          = sinkBytes d.sink ++ (if d.emissionEnabled then t.raw else [])
     | .error _ => sinkBytes (Disp.tokenProduced ctl d t).1.sink = sinkBytes d.sink) := by
  unfold Disp.tokenProduced
  obtain ⟨h1, h2, h3⟩ := noteNextEncoding_frame { d with ctl := (ctl.token d.ctl t).1 } (ctl.token d.ctl t).2.nextEncoding
  obtain ⟨p1, p2, p3⟩ := pushChunks_spec (({ d with ctl := (ctl.token d.ctl t).1 }).noteNextEncoding (ctl.token d.ctl t).2.nextEncoding) (ctl.token d.ctl t).2.chunks
  dsimp only at h1 h2 h3 ⊢
  cases herr : (ctl.token d.ctl t).2.err with
  | some e =>
    have := hobs.token_err _ _ _ herr
    dsimp only
    refine ⟨by rw [p1, h2], by rw [p2, h3], ?_⟩
    rw [p3, h1, h3, this]; simp
  | none =>
    have hraw := hobs.token_raw _ _ herr
    dsimp only
    refine ⟨by rw [p1, h2], by rw [p2, h3], ?_⟩
    rw [p3, h1, h3, hraw]

theorem tokenProduced_DInv_empty (hobs : Observing ctl) (d : Disp γ) (t : Token) (ht : t.raw = [])
    (h : DInv pre inp d) : DInv pre inp (Disp.tokenProduced ctl d t).1 := by
  obtain ⟨h1, h2, h3⟩ := tokenProduced_spec hobs d t
  obtain ⟨a, b, c⟩ := h
  refine ⟨?_, by omega, by rw [h2]; exact c⟩
  rw [h1]
  split at h3 <;> simp_all

theorem flushPendingText_DInv (hobs : Observing ctl) (d : Disp γ) (h : DInv pre inp d) :
    DInv pre inp (d.flushPendingText ctl).1 := by
  unfold Disp.flushPendingText
  split
  · apply tokenProduced_DInv_empty hobs _ _ rfl
    exact h
  · exact h

theorem flushEncodingChange_DInv (d : Disp γ) (h : DInv pre inp d) : DInv pre inp d.flushEncodingChange := by
  unfold Disp.flushEncodingChange
  obtain ⟨a, b, c⟩ := h
  (repeat' split) <;> refine ⟨?_, ?_, ?_⟩ <;> simp_all

theorem emitChunkBefore_DInv (d d' : Disp γ) (raw : Range) (h : DInv pre inp d)
    (he : d.emitChunkBefore inp raw = .ok d') : DInv pre inp d' ∧ d'.rcs = raw.start := by
  unfold Disp.emitChunkBefore at he
  split at he
  · simp at he
  · rename_i chunk hs
    obtain ⟨h1, h2, h3⟩ := checkedSlice_some hs
    simp only at h1 h2
    obtain ⟨a, b, c⟩ := h
    simp only [Except.ok.injEq] at he
    subst he
    refine ⟨⟨?_, ?_, ?_⟩, ?_⟩
    · split
      · simp only [Disp.push, sinkBytes_append, sinkBytes_chunk, a, h3, List.append_assoc]
        rw [take_append_slice _ _ _ h1]
      · rename_i hne
        have hempty : chunk = [] := by
          cases chunk with
          | nil => rfl
          | cons x xs => simp [c] at hne
        rw [a, ← take_append_slice inp d.rcs raw.start h1, ← h3, hempty, List.append_nil]
    · exact h2
    · split <;> simpa [Disp.push] using c
    · split <;> rfl

/-- the tail of `try_produce_token_from_lexeme` keeps the tiling when the token's raw bytes are the
lexeme's raw slice -/
theorem emitToken_DInv (hobs : Observing ctl) (d : Disp γ) (raw : Range) (tok : Token)
    (hraw : checkedSlice inp raw = some tok.raw) (h : DInv pre inp d) :
    DInv pre inp (d.emitToken ctl inp raw tok).1 := by
  obtain ⟨r1, r2, r3⟩ := checkedSlice_some hraw
  unfold Disp.emitToken
  cases he : d.emitChunkBefore inp raw with
  | error e => simpa [DRes.ofExcept, DRes.bind] using h
  | ok d1 =>
    obtain ⟨hd1, hrcs⟩ := emitChunkBefore_DInv d d1 raw h he
    simp only [DRes.ofExcept, DRes.bind]
    obtain ⟨s1, s2, s3⟩ := tokenProduced_spec hobs d1 tok
    obtain ⟨a, b, c⟩ := hd1
    cases hr : (Disp.tokenProduced ctl d1 tok).2 with
    | error e =>
      simp only [hr] at s3 ⊢
      exact ⟨by rw [s3, a, s1], by omega, by rw [s2]; exact c⟩
    | ok u =>
      simp only [hr] at s3 ⊢
      apply flushEncodingChange_DInv
      refine ⟨?_, r2, by simpa [s2] using c⟩
      simp only
      rw [s3, a, c, hrcs]
      simp only [if_true, List.append_assoc, r3]
      rw [take_append_slice _ _ _ r1]

theorem attrs_irrelevant : True := trivial

theorem tagToToken_raw {f f' : Flags} {lx : TagLexeme} {tok : Token}
    (h : tagToToken f inp lx = some (f', some tok)) : checkedSlice inp lx.raw = some tok.raw := by
  unfold tagToToken at h
  split at h
  · split at h
    · split at h
      · rename_i hraw
        simp only [Option.some.injEq, Prod.mk.injEq] at h
        rw [← h.2]; simpa [Token.raw] using hraw
      · simp at h
    · simp at h
  · split at h
    · split at h
      · rename_i hraw
        simp only [Option.some.injEq, Prod.mk.injEq] at h
        rw [← h.2]; simpa [Token.raw] using hraw
      · simp at h
    · simp at h

theorem nonTagToToken_raw {f : Flags} {lx : NonTagLexeme} {tok : Token}
    (h : nonTagToToken f inp lx = some (some tok)) : checkedSlice inp lx.raw = some tok.raw := by
  unfold nonTagToToken at h
  simp only at h
  split at h
  · split at h
    · split at h
      · rename_i hraw
        simp only [Option.some.injEq] at h
        rw [← h]; simpa [Token.raw] using hraw
      · simp at h
    · simp at h
  · split at h
    · split at h
      · rename_i hraw
        simp only [Option.some.injEq] at h
        rw [← h]; simpa [Token.raw] using hraw
      · simp at h
    · simp at h
  · simp at h

theorem produceTag_DInv (hobs : Observing ctl) (d : Disp γ) (lx : TagLexeme) (h : DInv pre inp d) :
    DInv pre inp (d.produceTag ctl inp lx).1 := by
  unfold Disp.produceTag
  split
  · exact h
  · rename_i ft hft
    split
    · exact h
    · rename_i tok htok
      apply emitToken_DInv hobs
      · apply tagToToken_raw (f := d.flags) (f' := ft.1)
        rw [hft, ← htok]
      · exact h

theorem produceText_DInv (hobs : Observing ctl) (d : Disp γ) (lx : NonTagLexeme) (tt : TextType)
    (h : DInv pre inp d) : DInv pre inp (d.produceText ctl inp lx tt).1 := by
  unfold Disp.produceText
  split
  · exact h
  · rename_i rawb hraw
    obtain ⟨r1, r2, r3⟩ := checkedSlice_some hraw
    cases he : d.emitChunkBefore inp lx.raw with
    | error e => simpa [DRes.ofExcept, DRes.bind] using h
    | ok d1 =>
      obtain ⟨hd1, hrcs⟩ := emitChunkBefore_DInv d d1 lx.raw h he
      simp only [DRes.ofExcept, DRes.bind]
      obtain ⟨s1, s2, s3⟩ := tokenProduced_spec hobs { d1 with lastTextType := tt } (.text rawb tt false (srcOf lx.prevConsumed lx.raw))
      obtain ⟨a, b, c⟩ := hd1
      cases hr : (Disp.tokenProduced ctl { d1 with lastTextType := tt } (.text rawb tt false (srcOf lx.prevConsumed lx.raw))).2 with
      | error e =>
        simp only [hr] at s3 ⊢
        exact ⟨by rw [s3]; simpa [s1] using a, by simpa [s1] using b, by rw [s2]; exact c⟩
      | ok u =>
        simp only [hr] at s3 ⊢
        refine ⟨?_, r2, by simpa [s2] using c⟩
        simp only
        rw [s3]
        simp only [a, c, hrcs, if_true, List.append_assoc, Token.raw, r3]
        rw [take_append_slice _ _ _ r1]

theorem produceNonTag_DInv (hobs : Observing ctl) (d : Disp γ) (lx : NonTagLexeme) (h : DInv pre inp d) :
    DInv pre inp (d.produceNonTag ctl inp lx).1 := by
  unfold Disp.produceNonTag
  split
  · split
    · exact produceText_DInv hobs d lx _ h
    · exact h
  · split
    · exact h
    · exact h
    · rename_i tok htok
      exact emitToken_DInv hobs d lx.raw tok (nonTagToToken_raw htok) h

theorem answerAux_frame (d : Disp γ) (info : AuxInfo) :
    (d.answerAux ctl info).1.sink = d.sink ∧ (d.answerAux ctl info).1.rcs = d.rcs ∧
    (d.answerAux ctl info).1.emissionEnabled = d.emissionEnabled := by
  unfold Disp.answerAux
  dsimp only
  split <;> simp

theorem adjustFlagsForTag_frame (d : Disp γ) (lx : TagLexeme) :
    (d.adjustFlagsForTag ctl inp lx).1.sink = d.sink ∧ (d.adjustFlagsForTag ctl inp lx).1.rcs = d.rcs ∧
    (d.adjustFlagsForTag ctl inp lx).1.emissionEnabled = d.emissionEnabled := by
  unfold Disp.adjustFlagsForTag
  split
  · dsimp only
    split
    · exact answerAux_frame _ _
    · simp
  · split
    · split
      · simp
      · dsimp only
        split
        · simp
        · have := answerAux_frame (ctl := ctl) { d with ctl := (ctl.startTag d.ctl ‹LocalName› ‹Ns›).1 } ⟨inp, ‹List AttrOutline›, ‹Bool›⟩
          simpa using this
        · simp
    · split <;> simp

theorem DInv_of_frame {d d' : Disp γ} (h : DInv pre inp d) (hs : d'.sink = d.sink) (hr : d'.rcs = d.rcs)
    (he : d'.emissionEnabled = d.emissionEnabled) : DInv pre inp d' := by
  obtain ⟨a, b, c⟩ := h
  exact ⟨by rw [hs, hr]; exact a, by rw [hr]; exact b, by rw [he]; exact c⟩

theorem handleTag_DInv (hobs : Observing ctl) (lx : TagLexeme) (d : Disp γ) (h : DInv pre inp d) :
    DInv pre inp (Disp.handleTag ctl inp lx d).1 := by
  unfold Disp.handleTag
  apply DRes.bind_fst (DInv pre inp) _ _ (flushPendingText_DInv hobs d h)
  intro d1 _ h1
  apply DRes.bind_fst (DInv pre inp)
  · split
    · exact DInv_of_frame h1 rfl rfl rfl
    · obtain ⟨a, b, c⟩ := adjustFlagsForTag_frame (ctl := ctl) (inp := inp) d1 lx
      exact DInv_of_frame h1 a b c
  · intro d2 _ h2
    apply DRes.bind_fst (DInv pre inp)
    · apply produceTag_DInv hobs
      unfold Disp.resumeEmission
      split
      · rename_i hc
        simp [Disp.shouldStopRemoving, h2.2.2] at hc
      · exact h2
    · intro d3 _ h3
      exact DInv_of_frame h3 rfl rfl (by simp [hobs.shouldEmit, h3.2.2])

theorem handleNonTag_DInv (hobs : Observing ctl) (lx : NonTagLexeme) (d : Disp γ) (h : DInv pre inp d) :
    DInv pre inp (Disp.handleNonTag ctl inp lx d).1 := by
  unfold Disp.handleNonTag
  apply DRes.bind_fst (DInv pre inp)
  · split
    · exact h
    · exact flushPendingText_DInv hobs d h
  · intro d1 _ h1
    exact produceNonTag_DInv hobs d1 lx h1

theorem applyHintFlags_frame (d : Disp γ) (f : Flags) :
    (d.applyHintFlags f).1.sink = d.sink ∧ (d.applyHintFlags f).1.rcs = d.rcs ∧
    (d.applyHintFlags f).1.emissionEnabled = d.emissionEnabled := by
  simp [Disp.applyHintFlags]

theorem startTagHint_DInv (name : LocalName) (ns : Ns) (d : Disp γ) (h : DInv pre inp d) :
    DInv pre inp (Disp.startTagHint ctl name ns d).1 := by
  unfold Disp.startTagHint
  dsimp only
  split
  · obtain ⟨a, b, c⟩ := applyHintFlags_frame { d with ctl := (ctl.startTag d.ctl name ns).1 } ‹Flags›
    exact DInv_of_frame h a b c
  · exact DInv_of_frame h rfl rfl rfl
  · exact DInv_of_frame h rfl rfl rfl

theorem endTagHint_DInv (hobs : Observing ctl) (name : LocalName) (d : Disp γ) (h : DInv pre inp d) :
    DInv pre inp (Disp.endTagHint ctl name d).1 := by
  unfold Disp.endTagHint
  apply DRes.bind_fst (DInv pre inp) _ _ (flushPendingText_DInv hobs d h)
  intro d1 _ h1
  dsimp only
  obtain ⟨a, b, c⟩ := applyHintFlags_frame { d1 with ctl := (ctl.endTag d1.ctl name).1 }
    (if Disp.shouldStopRemoving ctl { d1 with ctl := (ctl.endTag d1.ctl name).1 } = true then
      { (ctl.endTag d1.ctl name).2 with nextEndTag := true } else (ctl.endTag d1.ctl name).2)
  exact DInv_of_frame h1 a b c

/-- The dispatcher's four sink operations preserve the tiling invariant. -/
theorem dispOps_DInv (hobs : Observing ctl) : OpsPreserve (dispOps ctl) inp (DInv (γ := γ) pre inp) where
  handleTag := fun lx k hk => handleTag_DInv hobs lx k hk
  handleNonTag := fun lx k hk => handleNonTag_DInv hobs lx k hk
  startTagHint := fun n ns k hk => startTagHint_DInv n ns k hk
  endTagHint := fun n k hk => endTagHint_DInv hobs n k hk

end
end LolHtml.Model
