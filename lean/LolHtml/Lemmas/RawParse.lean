import LolHtml.Lemmas.RawLoop
import LolHtml.Lemmas.TokParse
/-!
# Attribute raw ranges: `Parser::parse` keeps the certificate invariant and never fails at `rawSite`
(the structure of `Lemmas/TokParse.lean`)
-/
set_option linter.unusedSimpArgs false
set_option linter.unusedVariables false
namespace LolHtml.Model

variable {κ : Type}

theorem RawB_congr {t : Table} {cert : RCert} {m m' : M κ} (h : RawB t cert m) (hS : m'.c.state = m.c.state)
    (hN : m'.c.nextPos = m.c.nextPos) (hE : m'.c.entered = m.c.entered) (hr : m'.r = m.r) : RawB t cert m' := by
  obtain ⟨a, sd, h1, h2, h3⟩ := h
  refine ⟨a, sd, by rw [hS]; exact h1, by rw [hN]; exact RawM_regs h2 hr, ?_⟩
  have : enterPending sd m'.c = enterPending sd m.c := by simp only [enterPending, hE]
  rw [this, hS]
  exact h3

/-- raw-range invariant of the parser between `parse` calls / loop iterations -/
def PRaw (t : Table) (cert : RCert) (p : Parser κ) : Prop := RawB t cert (p.machine false)

/-- a machine freshly loaded at a text state is accounted for by the certificate -/
theorem RawB_loaded {t : Table} {cert : RCert} (hchk : checkRaw t cert = true) (m : M κ) (tt : TextType)
    (hst : m.c.state = t.textState tt) (hent : m.c.entered = false) : RawB t cert m := by
  apply RawB_of_succ (a := RV.top) (RawM.top _ _) hent
  rw [hst]
  exact rcert_text hchk tt

section
variable {env : Env κ} {inp : Bytes} {W : κ → Nat}

theorem parseLoop_raw {cert : RCert} (hchk : checkRaw env.tbl cert = true) (hs : SinkSafe env.ops W inp U1)
    (hs3 : SinkSafe3 env.ops inp) (hw : Wf env.tbl) (last : Bool) (n : Nat) (p : Parser κ)
    (hp : PInv env.tbl inp.length W p) (htp : PRaw env.tbl cert p) (hn : p.nu inp.length < n) :
    (∀ e, (Parser.parseLoop env inp last n p).2 = .error e → ErrNot T3 e) ∧
    (∀ c, (Parser.parseLoop env inp last n p).2 = .ok c → last = false →
      PRaw env.tbl cert (Parser.parseLoop env inp last n p).1) := by
  induction n generalizing p with
  | zero => omega
  | succ n ih =>
    have hpos := posOf_le p hp
    cases hd : p.directive with
    | lex =>
      obtain ⟨l, hl, hlast, hsig⟩ := lexRun_post hs hw last p hp hd
      have hm0 : MInvB env.tbl inp.length (W (p.machine last).x.sink) p.lexC.nextPos (p.machine last) := by
        obtain ⟨⟨a1, a2, sd, hsd, a3⟩, _⟩ := hp
        simp only [Parser.machine, hd] at a1 a2 hsd a3 ⊢
        exact ⟨Nat.le_refl _, a2, sd, hsd, a3⟩
      have htb0 : RawB env.tbl cert (p.machine last) := by
        unfold PRaw at htp
        simp only [Parser.machine, hd] at htp ⊢
        exact RawB_congr htp rfl rfl rfl rfl
      have hlt := runLoop_raw hchk hs hs3 hw (defaultFuel inp) (p.machine last) hm0 htb0 (mu_lt_defaultFuel _ hw _)
      have hlt2 := hlt
      unfold LoopRaw at hlt2
      have hnu : p.nu inp.length = 2 * (inp.length - p.lexC.nextPos) := by
        simp only [Parser.nu, Parser.posOf, hd, Nat.add_zero]
      have hst := store_lex p _ hl
      simp only [Parser.parseLoop]
      split
      · rename_i consumed hres
        rw [hres] at hsig hlt2
        rw [hst]
        refine ⟨fun e h => (by cases h), fun c _ hlf => ?_⟩
        subst hlf
        have := hlt2 hlast
        unfold PRaw
        simp only [Parser.machine, hd] at this hl ⊢
        exact RawB_congr this rfl rfl rfl hl.symm
      · rename_i d bm hres
        rw [hres] at hsig
        obtain ⟨s1, s2, s3⟩ := hsig
        rw [hl] at s3
        obtain ⟨s3a, s3b⟩ := s3
        subst s3a
        rw [hst]
        obtain ⟨sd, hsd⟩ := Table.state?_isSome (hw.textState bm.textType)
        obtain ⟨ht1, ht2⟩ := hp.2 hd
        apply ih
        · refine ⟨?_, fun h => by simp [loadBookmark] at h⟩
          simp only [loadBookmark, Parser.machine]
          refine ⟨Nat.zero_le _, s2, sd, hsd, ?_⟩
          simp only [RegsB]
          refine ⟨s1, fun q hq => ?_, Or.inl ht2⟩
          rw [ht1] at hq; cases hq
        · unfold PRaw
          simp only [loadBookmark, Parser.machine]
          exact RawB_loaded hchk _ bm.textType rfl rfl
        · have : (loadBookmark env Directive.scan bm
              { p with lexC := (runLoop env inp (defaultFuel inp) (p.machine last)).1.c, lexR := l,
                       x := (runLoop env inp (defaultFuel inp) (p.machine last)).1.x }).nu inp.length
              = 2 * (inp.length - bm.pos) + 1 := by
            simp only [Parser.nu, Parser.posOf, loadBookmark, ht1, Option.getD_none]
          rw [this]
          omega
      · refine ⟨fun e h => ?_, fun c h => by cases h⟩
        simp only [Except.error.injEq] at h
        subst h
        trivial
      · rename_i e hne hres
        rw [hres] at hlt2
        refine ⟨fun e' h => ?_, fun c h => by cases h⟩
        simp only [Except.error.injEq] at h
        subst h
        exact hlt2
    | scan =>
      obtain ⟨s, hsr, hlast, hsig⟩ := scanRun_post hs hw last p hp hd
      have hm0 : MInvB env.tbl inp.length (W (p.machine last).x.sink) p.posOf (p.machine last) := by
        obtain ⟨⟨a1, a2, sd, hsd, a3⟩, _⟩ := hp
        simp only [Parser.machine, hd, RegsB] at a1 a2 hsd a3 ⊢
        simp only [Parser.posOf, hd]
        cases hts : p.scanR.tagStart with
        | none =>
          refine ⟨Nat.le_refl _, a2, sd, hsd, a3.1, fun q hq => ?_, a3.2.2⟩
          rw [hts] at hq; cases hq
        | some q0 =>
          have h0 := a3.2.1 q0 hts
          refine ⟨h0.2.2, a2, sd, hsd, a3.1, fun q hq => ?_, a3.2.2⟩
          rw [hts] at hq
          have : q0 = q := by simpa using hq
          subst this
          exact ⟨h0.1, Nat.le_refl _, h0.2.2⟩
      have htb0 : RawB env.tbl cert (p.machine last) := by
        unfold PRaw at htp
        simp only [Parser.machine, hd] at htp ⊢
        exact RawB_congr htp rfl rfl rfl rfl
      have hlt := runLoop_raw hchk hs hs3 hw (defaultFuel inp) (p.machine last) hm0 htb0 (mu_lt_defaultFuel _ hw _)
      have hlt2 := hlt
      unfold LoopRaw at hlt2
      have hnu : p.nu inp.length = 2 * (inp.length - p.posOf) + 1 := by
        simp only [Parser.nu, hd]
      have hst := store_scan p _ hsr
      simp only [Parser.parseLoop]
      split
      · rename_i consumed hres
        rw [hres] at hsig hlt2
        rw [hst]
        refine ⟨fun e h => (by cases h), fun c _ hlf => ?_⟩
        subst hlf
        have := hlt2 hlast
        unfold PRaw
        simp only [Parser.machine, hd] at this hsr ⊢
        exact RawB_congr this rfl rfl rfl hsr.symm
      · rename_i d bm hres
        rw [hres] at hsig
        obtain ⟨s1, s2, s3⟩ := hsig
        rw [hsr] at s3
        obtain ⟨s3a, s3b, s3c, s3d⟩ := s3
        subst s3a
        rw [hst]
        obtain ⟨sd, hsd⟩ := Table.state?_isSome (hw.textState bm.textType)
        apply ih
        · refine ⟨?_, fun _ => ⟨s3c, s3d⟩⟩
          simp only [loadBookmark, Parser.machine]
          refine ⟨Nat.zero_le _, s2, sd, hsd, ?_⟩
          simp only [RegsB]
          exact ⟨s1, Nat.le_refl _⟩
        · unfold PRaw
          simp only [loadBookmark, Parser.machine]
          exact RawB_loaded hchk _ bm.textType rfl rfl
        · have : (loadBookmark env Directive.lex bm
              { p with scanC := (runLoop env inp (defaultFuel inp) (p.machine last)).1.c, scanR := s,
                       x := (runLoop env inp (defaultFuel inp) (p.machine last)).1.x }).nu inp.length
              = 2 * (inp.length - bm.pos) := by
            simp only [Parser.nu, Parser.posOf, loadBookmark, Nat.add_zero]
          rw [this]
          omega
      · refine ⟨fun e h => ?_, fun c h => by cases h⟩
        simp only [Except.error.injEq] at h
        subst h
        trivial
      · rename_i e hne hres
        rw [hres] at hlt2
        refine ⟨fun e' h => ?_, fun c h => by cases h⟩
        simp only [Except.error.injEq] at h
        subst h
        exact hlt2

/-- **`Parser::parse`** keeps the raw-range invariant and does not fail at `rawSite` -/
theorem parse_raw {cert : RCert} (hchk : checkRaw env.tbl cert = true) (hs : SinkSafe env.ops W inp U1)
    (hs3 : SinkSafe3 env.ops inp) (hw : Wf env.tbl) (last : Bool) (p : Parser κ)
    (hp : PInv env.tbl inp.length W p) (htp : PRaw env.tbl cert p) :
    (∀ e, (Parser.parse env inp last p).2 = .error e → ErrNot T3 e) ∧
    (∀ c, (Parser.parse env inp last p).2 = .ok c → last = false → PRaw env.tbl cert (Parser.parse env inp last p).1) :=
  parseLoop_raw hchk hs hs3 hw last _ p hp htp (nu_lt p hp)

theorem PRaw_new (t : Table) (cert : RCert) (hchk : checkRaw t cert = true) (sink : κ) (d : Directive) (strict : Bool) :
    PRaw t cert (Parser.new t sink d strict) := by
  unfold PRaw
  cases d
  · simp only [Parser.new, Parser.machine]
    exact RawB_loaded hchk _ .data rfl rfl
  · simp only [Parser.new, Parser.machine]
    exact RawB_loaded hchk _ .data rfl rfl

end

/-! ### the sink may be replaced -/

variable {γ : Type}

theorem PRaw_setSink {t : Table} {cert : RCert} {p : Parser γ} (d : γ) (h : PRaw t cert p) :
    PRaw t cert { p with x := { p.x with sink := d } } := by
  unfold PRaw at *
  cases hd : p.directive with
  | lex => simp only [Parser.machine, hd] at h ⊢; exact RawB_congr h rfl rfl rfl rfl
  | scan => simp only [Parser.machine, hd] at h ⊢; exact RawB_congr h rfl rfl rfl rfl

end LolHtml.Model
