import LolHtml.Lemmas.TbSw1
import LolHtml.Lemmas.TbTactics
/-!
The invariant of `Spec.TreeBuilder` runs over HTML-namespace token sequences **with** `template` start tags
(`TInv`): every element on the stack is an HTML element, no `frameset` unless `b`; the stack of template
insertion modes holds modes "in template" can switch to; facts about the insertion mode. Tactics as in
`Lemmas/TbTactics.lean`.
-/
namespace LolHtml.Spec.TreeBuilder
open LolHtml.Model (Ns)

/-- stack predicate: HTML namespace; not `frameset` unless `b` -/
def PT (b : Bool) : NP := fun n ns => ns = .html ∧ (b = false → n ≠ .frameset)

theorem fmtOk_PT (b : Bool) : FmtOk (PT b) := by
  intro n hn
  cases n <;> simp [formattingNames, Name.isIn] at hn <;> simp [PT]

/-- the modes on the stack of template insertion modes -/
def templateModes : List Mode := [.inTemplate, .inBody, .inTable, .inColumnGroup, .inTableBody, .inRow]

def TmOk (tm : List Mode) : Prop := ∀ m ∈ tm, m ∈ templateModes

theorem TmOk.tail {tm : List Mode} (h : TmOk tm) : TmOk tm.tail := fun m hm => h m (List.mem_of_mem_tail hm)

theorem TmOk.cons {tm : List Mode} {m : Mode} (hm : m ∈ templateModes) (h : TmOk tm) : TmOk (m :: tm) := by
  intro x hx
  rcases List.mem_cons.mp hx with rfl | hx
  · exact hm
  · exact h x hx

theorem TmOk.nil : TmOk [] := fun _ h => by cases h

def OkMode (b : Bool) (m : Mode) : Prop := m ≠ .inSelect ∧ m ≠ .inSelectInTable ∧ (b = false → m ∉ framesetModes)

/-- facts about insertion mode `m` and original insertion mode `o` -/
def MT (b : Bool) (m o : Mode) : Prop :=
  OkMode b m ∧ (m = .inTableText → o = .inTable ∨ o = .inTableBody ∨ o = .inRow) ∧
  (m = .text → o ≠ .text ∧ o ≠ .inTableText ∧ OkMode b o)

structure TInv (b : Bool) (s : State) : Prop where
  tree : TreeOk (PT b) s.tree
  tmodes : TmOk s.tmodes
  head : HeadOk s
  modes : MT b s.mode s.origMode

/-- what a rule may return -/
def TPost (b : Bool) : Res → Prop
  | .done s' _ => TInv b s'
  | .reprocess s' h => TInv b s' ∧ h = false
  | .impossible _ => False

variable {b : Bool} {c : Cfg} {s : State}

theorem okMode_template {m : Mode} (h : m ∈ templateModes) : OkMode b m := by
  simp only [templateModes, List.mem_cons, List.mem_nil_iff, or_false] at h
  rcases h with rfl | rfl | rfl | rfl | rfl | rfl <;> simp [OkMode, framesetModes]

theorem mt_text {m o : Mode} (h : MT b m o) (h1 : m ≠ .text) (h2 : m ≠ .inTableText) : MT b .text m :=
  ⟨by simp [OkMode, framesetModes], by simp, fun _ => ⟨h1, h2, h.1⟩⟩

/-- leaving "text" / "in table text": the original insertion mode becomes the mode -/
theorem mt_restore {m o : Mode} (h : MT b m o) (hm : m = .text ∨ m = .inTableText) : MT b o o := by
  obtain ⟨a1, a2, a3⟩ := h
  rcases hm with rfl | rfl
  · obtain ⟨b1, b2, b3⟩ := a3 rfl
    exact ⟨b3, fun h => absurd h b2, fun h => absurd h b1⟩
  · rcases a2 rfl with rfl | rfl | rfl <;> simp [MT, OkMode, framesetModes]

theorem ite_pred {α : Sort _} {P : α → Prop} {p : Prop} [Decidable p] {x y : α} (hx : p → P x) (hy : ¬p → P y) :
    P (if p then x else y) := by
  by_cases h : p
  · rw [if_pos h]; exact hx h
  · rw [if_neg h]; exact hy h

/-- the mode "reset the insertion mode appropriately" yields -/
def ResetOk (b : Bool) (m : Mode) : Prop := OkMode b m ∧ m ≠ .text ∧ m ≠ .inTableText ∧ m ≠ .inHeadNoscript

theorem resetLoop_okT (hleg : c.legacySelect = false) (tm : List Mode) (htm : TmOk tm) (hn : Bool) (st : List El)
    (hst : ∀ e ∈ st, PT b e.name e.ns) : ResetOk b (resetLoop c tm hn st) := by
  induction st with
  | nil => simp [resetLoop, ResetOk, OkMode, framesetModes]
  | cons e es ih =>
    have he := hst e (by simp)
    have ih := ih (fun x hx => hst x (List.mem_cons_of_mem _ hx))
    have hhd : ResetOk b (tm.headD .inBody) := by
      cases tm with
      | nil => simp [ResetOk, OkMode, framesetModes]
      | cons m tm' =>
        have := htm m (by simp)
        refine ⟨okMode_template this, ?_⟩
        simp only [templateModes, List.mem_cons, List.mem_nil_iff, or_false] at this
        rcases this with rfl | rfl | rfl | rfl | rfl | rfl <;> simp
    unfold resetLoop
    simp only [hleg, Bool.false_and, Bool.false_eq_true, if_false]
    repeat' (apply ite_pred <;> intro _)
    all_goals first
      | exact ih
      | exact hhd
      | (simp [ResetOk, OkMode, framesetModes]; done)
      | (rename_i hfs
         have hb : b = true := by
           cases hq : b
           · have := he.2 hq
             simp only [El.isHtml, Bool.and_eq_true, beq_iff_eq] at hfs
             exact absurd hfs.2 this
           · rfl
         subst hb
         simp [ResetOk, OkMode])

/-- resetting the insertion mode of a state whose stack and pointers satisfy the invariant -/
theorem resetMode_tinv (hleg : c.legacySelect = false) {s' : State} (ht : TreeOk (PT b) s'.tree) (htm : TmOk s'.tmodes)
    (hh : HeadOk s') : TInv b (s'.resetMode c) := by
  obtain ⟨h1, h2, h3, _⟩ := resetLoop_okT (b := b) (c := c) hleg s'.tmodes htm s'.headPtr.isNone s'.tree.stack ht.stack
  exact ⟨ht, htm, hh, h1, fun h => absurd h h3, fun h => absurd h h2⟩

/-- `PT b n .html` from the branch hypotheses -/
syntax "pt" (ppSpace ident)? : tactic
macro_rules
  | `(tactic| pt) => `(tactic| first
    | (simp [PT]; done)
    | (simp_all [PT]; done))
  | `(tactic| pt $n:ident) => `(tactic| first
    | (simp [PT]; done)
    | (simp_all [PT]; done)
    | (cases $n:ident <;> simp_all [PT]; done))

/-- `TreeOk (PT b) <tree expression>` -/
syntax "ttree_ok" (ppSpace ident)? : tactic
macro_rules
  | `(tactic| ttree_ok $[$n]?) => `(tactic| first
    | assumption
    | exact TInv.tree ‹_›
    | (refine TreeOk.insertAndPop ?_ _ _; ttree_ok $[$n]?)
    | (refine TreeOk.insertHtml ?_ _ _ ?_ <;> first | ttree_ok $[$n]? | pt $[$n]?)
    | (refine TreeOk.pushNew ?_ _ _ _ ?_ <;> first | ttree_ok $[$n]? | pt $[$n]?)
    | (refine TreeOk.insertFormatting ?_ _ _ ?_ ?_ <;> first | ttree_ok $[$n]? | pt $[$n]? | fmt_name $[$n]?)
    | (refine TreeOk.reconstructAfe (fmtOk_PT _) ?_; ttree_ok $[$n]?)
    | (refine TreeOk.adoptionAgency (fmtOk_PT _) _ _ ?_; ttree_ok $[$n]?)
    | (refine TreeOk.pushEl' _ ?_ ?_ <;> first | ttree_ok $[$n]? | assumption)
    | (refine TreeOk.pop' ?_; ttree_ok $[$n]?)
    | (refine TreeOk.popToRoot' ?_; ttree_ok $[$n]?)
    | (refine TreeOk.popUntilNamed' _ ?_; ttree_ok $[$n]?)
    | (refine TreeOk.popUntilIn' _ ?_; ttree_ok $[$n]?)
    | (refine TreeOk.clearToTableContext' ?_; ttree_ok $[$n]?)
    | (refine TreeOk.clearToTableBodyContext' ?_; ttree_ok $[$n]?)
    | (refine TreeOk.clearToTableRowContext' ?_; ttree_ok $[$n]?)
    | (refine TreeOk.genImplied' _ ?_; ttree_ok $[$n]?)
    | (refine TreeOk.genImpliedThoroughly' ?_; ttree_ok $[$n]?)
    | (refine TreeOk.closeP' ?_; ttree_ok $[$n]?)
    | (refine TreeOk.closePInButtonScope' _ ?_; ttree_ok $[$n]?)
    | (refine TreeOk.removeFromStack' _ ?_; ttree_ok $[$n]?)
    | (refine TreeOk.anyOtherEndTag' _ _ ?_; ttree_ok $[$n]?)
    | (refine TreeOk.pushMarker' ?_; ttree_ok $[$n]?)
    | (refine TreeOk.clearAfeToMarker' ?_; ttree_ok $[$n]?)
    | (refine TreeOk.removeFromAfe' _ ?_; ttree_ok $[$n]?)
    | (refine TreeOk.closeListItem' _ _ ?_; ttree_ok $[$n]?))

/-- `TmOk <stack of template insertion modes>` -/
syntax "tm_ok" ident : tactic
macro_rules
  | `(tactic| tm_ok $hI:ident) => `(tactic| first
    | exact (TInv.tmodes $hI :)
    | exact (TmOk.tail (TInv.tmodes $hI) :)
    | (refine (TmOk.cons ?_ (TInv.tmodes $hI) :); simp [templateModes]; done)
    | (refine (TmOk.cons ?_ (TmOk.tail (TInv.tmodes $hI)) :); simp [templateModes]; done))

theorem rawText_tinv (hI : TInv b s) (h1 : s.mode ≠ .text) (h2 : s.mode ≠ .inTableText) (n : Name) (a : Attrs)
    (sw : Switch) (hn : PT b n .html) : TPost b (rawText s n a sw) :=
  ⟨hI.tree.insertHtml n a hn, hI.tmodes, hI.head, mt_text hI.modes h1 h2⟩

/-- `TInv b <state expression>`, mode unchanged or a literal -/
syntax "tinv_core" ident (ppSpace ident)? : tactic
macro_rules
  | `(tactic| tinv_core $hI:ident $[$n]?) =>
  `(tactic| (refine ⟨?_, ?_, ?_, ?_⟩
             · ((try dsimp only [onTree_tree]); ttree_ok $[$n]?)
             · tm_ok $hI
             · exact (TInv.head $hI :)
             · first | exact (TInv.modes $hI :) | (simp [MT, OkMode, framesetModes]; done)
                     | (simp_all [MT, OkMode, framesetModes]; done)))

/-- `TInv b <state expression>` where the new mode is "text" and the original insertion mode the old mode -/
syntax "tinv_text" ident ident ident (ppSpace ident)? : tactic
macro_rules
  | `(tactic| tinv_text $hI:ident $h1:ident $h2:ident $[$n]?) =>
  `(tactic| (refine ⟨?_, ?_, ?_, ?_⟩
             · ((try dsimp only [onTree_tree]); ttree_ok $[$n]?)
             · tm_ok $hI
             · exact (TInv.head $hI :)
             · exact (mt_text (TInv.modes $hI) $h1 $h2 :)))

/-- finish a branch of a rule: `TPost b <result>` -/
syntax "thop_branch" ident ident ident ident (ppSpace ident)? : tactic
macro_rules
  | `(tactic| thop_branch $hleg:ident $hI:ident $h1:ident $h2:ident $[$n]?) => `(tactic| first
    | exact $hI
    | contradiction
    | (show TInv _ _; tinv_core $hI $[$n]?)
    | (refine ⟨?_, rfl⟩; tinv_core $hI $[$n]?)
    | (apply rawText_tinv <;> first | exact $h1 | exact $h2 | pt $[$n]? | tinv_core $hI $[$n]?)
    | (show TInv _ _; tinv_text $hI $h1 $h2 $[$n]?)
    | (show TInv _ _; refine resetMode_tinv $hleg ?_ ?_ (TInv.head $hI :)
       · ((try dsimp only [onTree_tree]); ttree_ok $[$n]?)
       · tm_ok $hI)
    | (refine ⟨resetMode_tinv $hleg ?_ ?_ (TInv.head $hI :), rfl⟩
       · ((try dsimp only [onTree_tree]); ttree_ok $[$n]?)
       · tm_ok $hI)
    | (exfalso; simp_all; done))

end LolHtml.Spec.TreeBuilder
