/-
`Utf8.scan` on concatenations: well-formed ++ anything scans like the second part.
-/
import LolHtml.Model.Utf8

namespace LolHtml.Enc.Utf8

theorem scan_append_done : ∀ (n : Nat) (a b : Bytes), a.length = n → (scan a).fin = .done →
    (scan (a ++ b)).fin = (scan b).fin := by
  intro n
  induction n using Nat.strongRecOn with
  | _ n ih =>
  intro a b hlen hfin
  match a, hlen with
  | [], _ => simp
  | b0 :: r0, hlen =>
    rw [List.cons_append, Utf8.scan.eq_def]
    rw [Utf8.scan.eq_def] at hfin
    simp only at hfin ⊢
    by_cases hA : b0 < 0x80
    · simp only [hA, if_true, Scan.cons] at hfin ⊢
      exact ih r0.length (by simp at hlen; omega) r0 b rfl hfin
    · simp only [hA, if_false] at hfin ⊢
      by_cases hB : inR 0xC2 0xDF b0 = true
      · simp only [hB, if_true] at hfin ⊢
        match r0, hlen with
        | [], _ => simp [Scan.stop] at hfin
        | b1 :: r1, hlen =>
          simp only [List.cons_append] at hfin ⊢
          by_cases h1 : isCont b1 = true
          · simp only [h1, if_true, Scan.cons] at hfin ⊢
            exact ih r1.length (by simp at hlen; omega) r1 b rfl hfin
          · simp [h1, Scan.stop] at hfin
      · simp only [hB, Bool.false_eq_true, if_false] at hfin ⊢
        by_cases hC : inR 0xE0 0xEF b0 = true
        · simp only [hC, if_true] at hfin ⊢
          match r0, hlen with
          | [], _ => simp [Scan.stop] at hfin
          | b1 :: r1, hlen =>
            simp only [List.cons_append] at hfin ⊢
            by_cases h1 : inR (lo3 b0) (hi3 b0) b1 = true
            · simp only [h1, Bool.not_true, Bool.false_eq_true, if_false] at hfin ⊢
              match r1, hlen with
              | [], _ => simp [Scan.stop] at hfin
              | b2 :: r2, hlen =>
                simp only [List.cons_append] at hfin ⊢
                by_cases h2 : isCont b2 = true
                · simp only [h2, if_true, Scan.cons] at hfin ⊢
                  exact ih r2.length (by simp at hlen; omega) r2 b rfl hfin
                · simp [h2, Scan.stop] at hfin
            · simp [h1, Scan.stop] at hfin
        · simp only [hC, Bool.false_eq_true, if_false] at hfin ⊢
          by_cases hD : inR 0xF0 0xF4 b0 = true
          · simp only [hD, if_true] at hfin ⊢
            match r0, hlen with
            | [], _ => simp [Scan.stop] at hfin
            | b1 :: r1, hlen =>
              simp only [List.cons_append] at hfin ⊢
              by_cases h1 : inR (lo4 b0) (hi4 b0) b1 = true
              · simp only [h1, Bool.not_true, Bool.false_eq_true, if_false] at hfin ⊢
                match r1, hlen with
                | [], _ => simp [Scan.stop] at hfin
                | b2 :: r2, hlen =>
                  simp only [List.cons_append] at hfin ⊢
                  by_cases h2 : isCont b2 = true
                  · simp only [h2, Bool.not_true, Bool.false_eq_true, if_false] at hfin ⊢
                    match r2, hlen with
                    | [], _ => simp [Scan.stop] at hfin
                    | b3 :: r3, hlen =>
                      simp only [List.cons_append] at hfin ⊢
                      by_cases h3 : isCont b3 = true
                      · simp only [h3, if_true, Scan.cons] at hfin ⊢
                        exact ih r3.length (by simp at hlen; omega) r3 b rfl hfin
                      · simp [h3, Scan.stop] at hfin
                  · simp [h2, Scan.stop] at hfin
              · simp [h1, Scan.stop] at hfin
          · simp [hD, Scan.stop] at hfin

/-- a concatenation of well-formed fragments is well-formed -/
theorem scan_flatten_done (fs : List Bytes) (h : ∀ f ∈ fs, (scan f).fin = .done) :
    (scan fs.flatten).fin = .done := by
  induction fs with
  | nil => simp [scan, Scan.stop]
  | cons f fs ih =>
    rw [List.flatten_cons, scan_append_done f.length f _ rfl (h f (by simp))]
    exact ih (fun g hg => h g (by simp [hg]))

end LolHtml.Enc.Utf8
