/-
The concrete codecs of `Model.Codecs` satisfy the codec laws (so the hypotheses of the C13 theorems
are not vacuous).
-/
import LolHtml.Model.Codecs
import LolHtml.Spec.Enc
import LolHtml.Lemmas.EncCodec

namespace LolHtml.Enc

theorem utf8Len_single (ch : Char) : utf8Len [ch] ≤ 4 := by
  simp only [utf8Len]; have := Char.utf8Size_le_four ch; omega

/-! ### single-byte -/

theorem singleByte_lawful (t : List Nat) : (singleByte t).Lawful where
  ascii := by intro b hb; simp [singleByte, hb]
  unread_once := Codec.unread_once_of _
    (by
      intro b; simp only [singleByte]
      split
      · rfl
      · split <;> rfl)
    (by
      intro s b _; rfl)
  flush_init := rfl
  step_small := by
    intro s b; simp only [singleByte]
    split
    · exact utf8Len_single _
    · split <;> exact utf8Len_single _
  flush_small := by intro s; simp [singleByte, utf8Len]
  enc_ascii := by intro ch h; simp [singleByte, h]
  enc_size := by
    intro ch bs h
    simp only [singleByte] at h
    split at h
    · simp at h; subst h; simp
    · simp only [tblFind] at h
      split at h
      · simp at h; subst h; simp
      · simp at h

theorem singleByteEnc_lawful (t : List Nat) : (⟨singleByte t, false⟩ : Encoding).Lawful :=
  ⟨singleByte_lawful t, by intro h; cases h⟩

theorem windows1252_lawful : windows1252.Lawful := singleByteEnc_lawful windows1252Table

theorem iso88597_lawful : iso88597.Lawful := singleByteEnc_lawful iso88597Table

/-! ### toy two-byte code -/

theorem toy2_lawful : toy2.Lawful where
  ascii := by intro b hb; simp [toy2, hb]
  unread_once := Codec.unread_once_of _
    (by
      intro b; simp only [toy2]
      split
      · rfl
      · split <;> rfl)
    (by
      intro s b h
      cases s with
      | none =>
        simp only [toy2] at h
        split at h <;> (try split at h) <;> simp at h
      | some l =>
        simp only [toy2] at h ⊢
        split <;> (try split) <;> rfl)
  flush_init := rfl
  step_small := by
    intro s b
    cases s with
    | none =>
      simp only [toy2]
      split
      · exact utf8Len_single _
      · split
        · simp [utf8Len]
        · exact utf8Len_single _
    | some l =>
      simp only [toy2]
      split
      · exact utf8Len_single _
      · split <;> exact utf8Len_single _
  flush_small := by
    intro s
    cases s with
    | none => simp [toy2, utf8Len]
    | some l => exact utf8Len_single _
  enc_ascii := by intro ch h; simp [toy2, h]
  enc_size := by
    intro ch bs h
    simp only [toy2] at h
    split at h
    · simp at h; subst h; simp
    · split at h
      · simp at h; subst h; simp
      · simp at h

theorem toy2Enc_lawful : toy2Enc.Lawful := ⟨toy2_lawful, by intro h; cases h⟩

/-! ### UTF-8 -/

theorem utf8Codec_lawful : utf8Codec.Lawful where
  ascii := by
    intro b hb
    have : b < 0x80 := hb
    simp [utf8Codec, u8Step, U8.init, this]
  unread_once := Codec.unread_once_of _
    (by
      intro b
      simp only [utf8Codec, u8Step, U8.init, if_true]
      split <;> (try split) <;> (try split) <;> (try split) <;> (try split) <;> rfl)
    (by
      intro s b h
      simp only [utf8Codec, u8Step] at h ⊢
      split at h
      · split at h <;> (try split at h) <;> (try split at h) <;> (try split at h) <;> (try split at h) <;> simp at h
      · rename_i hn
        simp only [hn, if_false]
        split
        · rfl
        · rename_i hr
          simp only [hr, Bool.false_eq_true, if_false] at h
          split at h <;> simp at h)
  flush_init := by simp [utf8Codec, U8.init]
  step_small := by
    intro s b
    simp only [utf8Codec, u8Step]
    split
    · split
      · exact utf8Len_single _
      · split
        · exact utf8Len_single _
        · split
          · simp [utf8Len]
          · split
            · simp [utf8Len]
            · split
              · simp [utf8Len]
              · exact utf8Len_single _
    · split
      · exact utf8Len_single _
      · split
        · exact utf8Len_single _
        · simp [utf8Len]
  flush_small := by
    intro s
    simp only [utf8Codec]
    split
    · simp [utf8Len]
    · exact utf8Len_single _
  enc_ascii := by
    intro ch h
    simp [utf8Codec, Utf8.encodeChar, h]
  enc_size := by
    intro ch bs h
    simp only [utf8Codec, Utf8.encodeChar, Option.some.injEq] at h
    subst h
    split
    · simp
    · split
      · simp
      · split <;> simp

end LolHtml.Enc
