import LolHtml.Model.SM
import LolHtml.Lemmas.PreserveOk
/-!
Interpreter-level congruence: the two-machine analogue of `Lemmas/Preserve.lean`.

Two machines run the same table over the same input, in environments `env₁`, `env₂` (possibly
different sink types). They are related by `MR`: equal `Common` registers, equal action-set
registers, and contexts related by an arbitrary relation `Rx`. If every *action* maps related
machines to related results with the same signal — or makes the first machine `Stop` — then so does
every layer of the interpreter up to `Parser.parse`.

* `Stop` describes results of the first machine after which nothing is claimed (e.g. the guard of
  the strict simulator refused a tag). A stopping action must carry a signal, and only
  sink-calling actions may stop; with `EmitsChecked` (all those are written with `?`) a stop
  propagates unchanged to the top.
* `Good` is a predicate on the common signal that all signals created by the plumbing itself
  (panics, end of input) satisfy.

A unary invariant `J` on contexts is the special case `env₂ = env₁`, `Rx x y := x = y ∧ J x`.
-/
namespace LolHtml.Model


/-! ### the plumbing as functions of the registers only -/

/-- signals created by the interpreter itself -/
def PlumbSig (s : Option Signal) : Prop :=
  s = none ∨ (∃ p, s = some (.err (.panic p))) ∨ ∃ n, s = some (.endOfInput n)

def transC (tbl : Table) (t : Trans) (c : Common) : Common × Option Signal :=
  match t with
  | .goto s => ({ c with state := s, entered := false }, none)
  | .gotoDyn => ({ c with state := tbl.textState c.lastTextType, entered := false }, none)
  | .reconsume s =>
      if c.nextPos = 0 then (c, some (.err (.panic "unconsume_ch underflow")))
      else ({ c with nextPos := c.nextPos - 1, state := s, entered := false }, none)

theorem applyTrans_eq {κ : Type} (env : Env κ) (t : Trans) (c : Common) (r : Regs) (x : Ctx κ) :
    applyTrans env t ⟨c, r, x⟩ = (⟨(transC env.tbl t c).1, r, x⟩, (transC env.tbl t c).2) := by
  cases t <;> simp only [applyTrans, transC]
  split <;> rfl

theorem transC_sig (tbl : Table) (t : Trans) (c : Common) : PlumbSig (transC tbl t c).2 := by
  cases t <;> simp only [transC]
  · exact .inl rfl
  · exact .inl rfl
  · split
    · exact .inr (.inl ⟨_, rfl⟩)
    · exact .inl rfl


def enterSeqR (c : Common) : Regs → Regs
  | .scanner s => .scanner { s with chSeqStart := some c.pos }
  | .lexer l => .lexer l

def leaveSeqR : Regs → Regs
  | .scanner s => .scanner { s with chSeqStart := none }
  | .lexer l => .lexer l

theorem enterSeq_eq {κ : Type} (c : Common) (r : Regs) (x : Ctx κ) :
    enterSeq (⟨c, r, x⟩ : M κ) = ⟨c, enterSeqR c r, x⟩ := by
  cases r <;> rfl

theorem leaveSeq_eq {κ : Type} (c : Common) (r : Regs) (x : Ctx κ) :
    leaveSeq (⟨c, r, x⟩ : M κ) = ⟨c, leaveSeqR r, x⟩ := by
  cases r <;> rfl

def consumedR (inp : Bytes) : Regs → Nat
  | .lexer l => l.lexemeStart
  | .scanner s =>
    match s.tagStart, s.chSeqStart with
    | some a, some b => min a b
    | some a, none => a
    | none, some b => b
    | none, none => inp.length

def adjustR : Regs → Regs
  | .lexer l =>
    let o := l.lexemeStart
    .lexer { l with
        tokenPartStart := alignNat l.tokenPartStart o
        curTag := l.curTag.map (·.align o)
        curNonTag := l.curNonTag.map (·.align o)
        curAttr := l.curAttr.map (·.align o)
        lexemeStart := 0 }
  | .scanner s =>
    match s.tagStart with
    | some ts => .scanner { s with tagNameStart := alignNat s.tagNameStart ts, tagStart := some 0 }
    | none => .scanner s

def breakCR (inp : Bytes) (c : Common) (r : Regs) : Common × Regs × Option Signal :=
  let consumed := consumedR inp r
  let r' := if c.isLast then r else adjustR r
  if c.nextPos = 0 ∨ c.nextPos - 1 < consumed then
    (c, r', some (.err (.panic "break_on_end_of_input: pos - consumed_byte_count underflow")))
  else ({ c with nextPos := c.nextPos - 1 - consumed }, r', some (.endOfInput consumed))

theorem consumed_eq {κ : Type} (inp : Bytes) (c : Common) (r : Regs) (x : Ctx κ) :
    consumedByteCount inp (⟨c, r, x⟩ : M κ) = consumedR inp r := by
  cases r <;> rfl

theorem adjust_eq {κ : Type} (c : Common) (r : Regs) (x : Ctx κ) :
    adjustForNextInput (⟨c, r, x⟩ : M κ) = ⟨c, adjustR r, x⟩ := by
  cases r with
  | lexer l => rfl
  | scanner s =>
    simp only [adjustForNextInput, adjustR]
    cases s.tagStart <;> rfl

theorem break_eq {κ : Type} (inp : Bytes) (c : Common) (r : Regs) (x : Ctx κ) :
    breakOnEndOfInput inp (⟨c, r, x⟩ : M κ) =
      (⟨(breakCR inp c r).1, (breakCR inp c r).2.1, x⟩, (breakCR inp c r).2.2) := by
  unfold breakOnEndOfInput breakCR
  simp only [consumed_eq]
  by_cases hl : c.isLast = true
  · simp only [hl, if_true]
    split <;> rfl
  · simp only [hl, Bool.false_eq_true, if_false, adjust_eq]
    split <;> rfl

theorem breakCR_sig (inp : Bytes) (c : Common) (r : Regs) : PlumbSig (breakCR inp c r).2.2 := by
  unfold breakCR
  dsimp only
  split
  · exact .inr (.inl ⟨_, rfl⟩)
  · exact .inr (.inr ⟨_, rfl⟩)


/-- the enter-action prelude of `stateFn` -/
def sfPreC {κ : Type} (env : Env κ) (inp : Bytes) (sd : StateDef) (m : M κ) : StepRes κ :=
  if !sd.enter.isEmpty && !m.c.entered then
    let m1 := { m with c := { m.c with nextPos := m.c.nextPos + 1 } }
    let r := runCalls env inp sd.enter m1
    match r.2 with
    | some sig => (r.1, some sig)
    | none =>
      let m2 := r.1
      ({ m2 with c := { m2.c with nextPos := m2.c.nextPos - 1, entered := true } }, none)
  else (m, none)

/-- the byte consumption and arm dispatch of `stateFn` -/
def sfRest {κ : Type} (env : Env κ) (inp : Bytes) (sd : StateDef) (pre : StepRes κ) : StepRes κ :=
  match pre.2 with
  | some sig => (pre.1, some sig)
  | none =>
    let m := pre.1
    match sd.memchr with
    | some needle =>
      let rest := inp.drop m.c.nextPos
      match findByte needle rest with
      | some p =>
        dispatch env inp (some needle) sd.arms { m with c := { m.c with nextPos := m.c.nextPos + 1 + p } }
      | none =>
        dispatch env inp none sd.arms { m with c := { m.c with nextPos := m.c.nextPos + 1 + rest.length } }
    | none =>
      let ch := inp[m.c.nextPos]?
      dispatch env inp ch sd.arms { m with c := { m.c with nextPos := m.c.nextPos + 1 } }

theorem stateFn_split {κ : Type} (env : Env κ) (inp : Bytes) (m : M κ) :
    stateFn env inp m =
      match env.tbl.state? m.c.state with
      | none => (m, some (.err (.panic "unknown state")))
      | some sd => sfRest env inp sd (sfPreC env inp sd m) := by
  unfold stateFn sfRest sfPreC
  cases env.tbl.state? m.c.state with
  | none => rfl
  | some sd => rfl

variable {κ₁ κ₂ : Type}

/-- the data of a congruence -/
structure Cong (κ₁ κ₂ : Type) where
  Rx : Ctx κ₁ → Ctx κ₂ → Prop
  /-- an invariant of the action-set registers (e.g. "the lexer has no pending feedback directive") -/
  Jr : Regs → Prop
  Stop : M κ₁ × Option Signal → Prop
  Good : Option Signal → Prop

namespace Cong
variable (C : Cong κ₁ κ₂)

/-- related machines -/
def MR (m₁ : M κ₁) (m₂ : M κ₂) : Prop := m₁.c = m₂.c ∧ m₁.r = m₂.r ∧ C.Jr m₁.r ∧ C.Rx m₁.x m₂.x

/-- related step results -/
def Out (r₁ : M κ₁ × Option Signal) (r₂ : M κ₂ × Option Signal) : Prop :=
  C.Stop r₁ ∨ (C.MR r₁.1 r₂.1 ∧ r₁.2 = r₂.2 ∧ C.Good r₁.2)

def Out3 (t₁ : M κ₁ × Option Signal × SeqEnd) (t₂ : M κ₂ × Option Signal × SeqEnd) : Prop :=
  C.Stop (t₁.1, t₁.2.1) ∨ (C.MR t₁.1 t₂.1 ∧ t₁.2 = t₂.2 ∧ C.Good t₁.2.1)

def OutSum : (M κ₁ × Option Signal) ⊕ M κ₁ → (M κ₂ × Option Signal) ⊕ M κ₂ → Prop
  | .inl r₁, .inl r₂ => C.Out r₁ r₂
  | .inr m₁, .inr m₂ => C.MR m₁ m₂
  | _, _ => False

/-- hypotheses of the lifting theorem -/
structure Ok (env₁ : Env κ₁) (env₂ : Env κ₂) (inp : Bytes) : Prop where
  tbl : env₁.tbl = env₂.tbl
  stop_err : ∀ r, C.Stop r → ∃ e, r.2 = some (.err e)
  good_none : C.Good none
  good_panic : ∀ s, C.Good (some (.err (.panic s)))
  good_eoi : ∀ n, C.Good (some (.endOfInput n))
  act : ∀ a m₁ m₂, C.MR m₁ m₂ → C.Out (Model.act env₁ a inp m₁) (Model.act env₂ a inp m₂)
  silent : ∀ a m₁, a.callsSink = false → ¬ C.Stop (Model.act env₁ a inp m₁)
  pc : ∀ x₁ x₂ n, C.Rx x₁ x₂ →
    C.Rx { x₁ with prevConsumed := x₁.prevConsumed + n } { x₂ with prevConsumed := x₂.prevConsumed + n }
  jr_enter : ∀ c r, C.Jr r → C.Jr (enterSeqR c r)
  jr_leave : ∀ r, C.Jr r → C.Jr (leaveSeqR r)
  jr_adjust : ∀ r, C.Jr r → C.Jr (adjustR r)
  jr_load_lex : ∀ bm (l : LexRegs), C.Good (some (.directive .lex bm)) →
    C.Jr (.lexer { l with lexemeStart := bm.pos, fd := bm.fd })
  jr_load_scan : ∀ bm (s : ScanRegs), C.Good (some (.directive .scan bm)) → C.Jr (.scanner s)

section
variable {C} {env₁ : Env κ₁} {env₂ : Env κ₂} {inp : Bytes}

/-- related machines are the same machine up to the context -/
theorem MR.cases {m₁ : M κ₁} {m₂ : M κ₂} (h : C.MR m₁ m₂) :
    ∃ c r x₁ x₂, m₁ = ⟨c, r, x₁⟩ ∧ m₂ = ⟨c, r, x₂⟩ ∧ C.Jr r ∧ C.Rx x₁ x₂ := by
  obtain ⟨c₁, r₁, x₁⟩ := m₁
  obtain ⟨c₂, r₂, x₂⟩ := m₂
  obtain ⟨h1, h2, hj, h3⟩ := h
  simp only at h1 h2 h3 hj
  subst h1 h2
  exact ⟨_, _, _, _, rfl, rfl, hj, h3⟩

theorem Ok.jr_break (h : C.Ok env₁ env₂ inp) (c : Common) {r : Regs} (hj : C.Jr r) :
    C.Jr (breakCR inp c r).2.1 := by
  unfold breakCR
  dsimp only
  split <;> (split <;> first | exact hj | exact h.jr_adjust _ hj)

theorem Ok.stop_some (h : C.Ok env₁ env₂ inp) (m : M κ₁) : ¬ C.Stop (m, none) := by
  intro hs
  obtain ⟨e, he⟩ := h.stop_err _ hs
  cases he

/-- a stopping result carries a signal -/
theorem Ok.stop_sig (h : C.Ok env₁ env₂ inp) {r : M κ₁ × Option Signal} (hs : C.Stop r) :
    ∃ s, r.2 = some s := by
  cases h2 : r.2 with
  | some s => exact ⟨s, rfl⟩
  | none =>
    exfalso
    apply h.stop_some r.1
    have : r = (r.1, none) := by rw [← h2]
    rw [← this]; exact hs

theorem Ok.good_plumb (h : C.Ok env₁ env₂ inp) {s : Option Signal} (hp : PlumbSig s) : C.Good s := by
  rcases hp with rfl | ⟨p, rfl⟩ | ⟨n, rfl⟩
  · exact h.good_none
  · exact h.good_panic p
  · exact h.good_eoi n

theorem runCalls_cong (h : C.Ok env₁ env₂ inp) (cs : List Call) (hc : cs.all Call.checked = true)
    (m₁ : M κ₁) (m₂ : M κ₂) (hm : C.MR m₁ m₂) :
    C.Out (runCalls env₁ inp cs m₁) (runCalls env₂ inp cs m₂) := by
  induction cs generalizing m₁ m₂ with
  | nil => exact .inr ⟨hm, rfl, h.good_none⟩
  | cons cl cs ih =>
    simp only [List.all_cons, Bool.and_eq_true] at hc
    simp only [runCalls]
    rcases h.act cl.act m₁ m₂ hm with hs | ⟨hmr, hsig, hg⟩
    · -- the first machine stops
      cases h2 : (Model.act env₁ cl.act inp m₁).2 with
      | none =>
        exfalso
        apply h.stop_some (Model.act env₁ cl.act inp m₁).1
        have : Model.act env₁ cl.act inp m₁ = ((Model.act env₁ cl.act inp m₁).1, none) := by
          rw [← h2]
        rw [← this]; exact hs
      | some s =>
        have hq : cl.q = true := by
          cases hq : cl.q
          · exfalso
            have hck := hc.1
            unfold Call.checked at hck
            simp only [hq, Bool.or_false, Bool.not_eq_true'] at hck
            exact h.silent cl.act m₁ hck hs
          · rfl
        simp only [hq, if_true]
        left
        have : Model.act env₁ cl.act inp m₁ = ((Model.act env₁ cl.act inp m₁).1, some s) := by
          rw [← h2]
        rw [← this]; exact hs
    · rw [← hsig]
      cases h2 : (Model.act env₁ cl.act inp m₁).2 with
      | none => exact ih hc.2 _ _ hmr
      | some s =>
        simp only
        by_cases hq : cl.q = true
        · simp only [hq, if_true]
          exact .inr ⟨hmr, rfl, by rw [← h2]; exact hg⟩
        · simp only [hq, Bool.false_eq_true, if_false]
          exact ih hc.2 _ _ hmr

theorem runSeq_cong (h : C.Ok env₁ env₂ inp) (s : ActSeq) (hc : s.calls.all Call.checked = true)
    (m₁ : M κ₁) (m₂ : M κ₂) (hm : C.MR m₁ m₂) :
    C.Out3 (runSeq env₁ inp s m₁) (runSeq env₂ inp s m₂) := by
  unfold runSeq
  dsimp only
  rcases runCalls_cong h s.calls hc m₁ m₂ hm with hs | ⟨hmr, hsig, hg⟩
  · obtain ⟨sig, h2⟩ := h.stop_sig hs
    left
    simp only [h2]
    have : runCalls env₁ inp s.calls m₁ = ((runCalls env₁ inp s.calls m₁).1, some sig) := by rw [← h2]
    rw [← this]; exact hs
  · rw [← hsig]
    cases h2 : (runCalls env₁ inp s.calls m₁).2 with
    | some sig =>
      try simp only [h2] at hg ⊢
      exact .inr ⟨hmr, rfl, hg⟩
    | none =>
      try simp only [h2] at hg ⊢
      cases s.trans with
      | none => exact .inr ⟨hmr, rfl, h.good_none⟩
      | some t =>
        simp only
        obtain ⟨c, r, x₁, x₂, e1, e2, hj, hx⟩ := hmr.cases
        rw [e1, e2, applyTrans_eq, applyTrans_eq, h.tbl]
        exact .inr ⟨⟨rfl, rfl, hj, hx⟩, rfl, h.good_plumb (transC_sig _ _ _)⟩

theorem cond_cong {c : Common} {r : Regs} {x₁ : Ctx κ₁} {x₂ : Ctx κ₂} (cnd : Cond) :
    cond cnd (⟨c, r, x₁⟩ : M κ₁) = cond cnd (⟨c, r, x₂⟩ : M κ₂) := by
  cases cnd <;> cases r <;> rfl

theorem runBody_cong (h : C.Ok env₁ env₂ inp) (b : Body)
    (hc : ∀ s ∈ b.seqs, s.calls.all Call.checked = true)
    (m₁ : M κ₁) (m₂ : M κ₂) (hm : C.MR m₁ m₂) :
    C.Out3 (runBody env₁ inp b m₁) (runBody env₂ inp b m₂) := by
  cases b with
  | seq s => exact runSeq_cong h s (hc s (by simp [Body.seqs])) m₁ m₂ hm
  | ite cnd t e =>
    obtain ⟨c, r, x₁, x₂, rfl, rfl, hj, hx⟩ := hm.cases
    simp only [runBody]
    rw [cond_cong (x₁ := x₁) (x₂ := x₂) cnd]
    cases cond cnd (⟨c, r, x₂⟩ : M κ₂) with
    | none => exact .inr ⟨⟨rfl, rfl, hj, hx⟩, rfl, h.good_panic _⟩
    | some b =>
      cases b
      · exact runSeq_cong h e (hc e (by simp [Body.seqs])) _ _ ⟨rfl, rfl, hj, hx⟩
      · exact runSeq_cong h t (hc t (by simp [Body.seqs])) _ _ ⟨rfl, rfl, hj, hx⟩

theorem seqs_checked {a : Arm} (h : (callsOfArm a).all Call.checked = true) :
    ∀ s ∈ a.body.seqs, s.calls.all Call.checked = true := by
  intro s hs
  unfold callsOfArm at h
  rw [List.all_eq_true] at h ⊢
  intro cl hcl
  exact h cl (List.mem_flatMap.mpr ⟨s, hs, hcl⟩)

theorem runSeqArms_cong (h : C.Ok env₁ env₂ inp) (ch : Option UInt8) (arms : List Arm)
    (ha : ArmsChecked arms) (c : Common) (r : Regs) (x₁ : Ctx κ₁) (x₂ : Ctx κ₂) (hj : C.Jr r)
    (hx : C.Rx x₁ x₂) :
    C.OutSum (runSeqArms env₁ inp ch arms ⟨c, r, x₁⟩) (runSeqArms env₂ inp ch arms ⟨c, r, x₂⟩) := by
  induction arms generalizing r with
  | nil => exact ⟨rfl, rfl, hj, hx⟩
  | cons arm rest ih =>
    have ha' : ArmsChecked rest := fun a h' => ha a (List.mem_cons_of_mem _ h')
    have hb := seqs_checked (ha arm (by simp))
    have hje : C.Jr (enterSeqR c r) := h.jr_enter c r hj
    have hjl : C.Jr (leaveSeqR (enterSeqR c r)) := h.jr_leave _ hje
    cases hp : arm.pat with
    | chSeq bytes ic =>
      simp only [runSeqArms, hp, enterSeq_eq, leaveSeq_eq]
      cases bytes with
      | nil => exact ih ha' _ hjl
      | cons e0 es =>
        simp only
        split
        · simp only [break_eq]
          exact .inr ⟨⟨rfl, rfl, h.jr_break _ hje, hx⟩, rfl, h.good_plumb (breakCR_sig _ _ _)⟩
        · exact ih ha' _ hjl
        · have := runBody_cong h arm.body hb
            ⟨{ c with nextPos := c.nextPos + es.length }, leaveSeqR (enterSeqR c r), x₁⟩
            ⟨{ c with nextPos := c.nextPos + es.length }, leaveSeqR (enterSeqR c r), x₂⟩ ⟨rfl, rfl, hjl, hx⟩
          rcases this with hs | ⟨a, b, g⟩
          · exact .inl hs
          · exact .inr ⟨a, by rw [b], g⟩
    | _ => simp only [runSeqArms, hp]; exact ih ha' _ hj

/-- the tail of an `eoc`/`eof` arm: propagate a signal, stop after a transition, else break -/
theorem finishArm_cong (h : C.Ok env₁ env₂ inp) (t₁ : M κ₁ × Option Signal × SeqEnd)
    (t₂ : M κ₂ × Option Signal × SeqEnd) (ht : C.Out3 t₁ t₂) :
    C.Out
      (match t₁.2.1, t₁.2.2 with
        | some sig, _ => (t₁.1, some sig)
        | none, .transitioned => (t₁.1, none)
        | none, .fell => breakOnEndOfInput inp t₁.1)
      (match t₂.2.1, t₂.2.2 with
        | some sig, _ => (t₂.1, some sig)
        | none, .transitioned => (t₂.1, none)
        | none, .fell => breakOnEndOfInput inp t₂.1) := by
  obtain ⟨m₁, s₁, e₁⟩ := t₁
  obtain ⟨m₂, s₂, e₂⟩ := t₂
  rcases ht with hs | ⟨hmr, heq, hg⟩
  · obtain ⟨sig, h2⟩ := h.stop_sig hs
    simp only at h2
    subst h2
    exact .inl hs
  · simp only [Prod.mk.injEq] at heq
    obtain ⟨rfl, rfl⟩ := heq
    cases s₁ with
    | some sig => exact .inr ⟨hmr, rfl, hg⟩
    | none =>
      cases e₁ with
      | transitioned => exact .inr ⟨hmr, rfl, h.good_none⟩
      | fell =>
        obtain ⟨c, r, x₁, x₂, rfl, rfl, hj, hx⟩ := hmr.cases
        simp only [break_eq]
        exact .inr ⟨⟨rfl, rfl, h.jr_break _ hj, hx⟩, rfl, h.good_plumb (breakCR_sig _ _ _)⟩

theorem dispatch_cong (h : C.Ok env₁ env₂ inp) (ch : Option UInt8) (arms : List Arm)
    (ha : ArmsChecked arms) (m₁ : M κ₁) (m₂ : M κ₂) (hm : C.MR m₁ m₂) :
    C.Out (dispatch env₁ inp ch arms m₁) (dispatch env₂ inp ch arms m₂) := by
  obtain ⟨c, r, x₁, x₂, rfl, rfl, hj, hx⟩ := hm.cases
  unfold dispatch
  have hsa := runSeqArms_cong h ch arms ha c r x₁ x₂ hj hx
  cases h1 : runSeqArms env₁ inp ch arms ⟨c, r, x₁⟩ with
  | inl r₁ =>
    cases h2 : runSeqArms env₂ inp ch arms ⟨c, r, x₂⟩ with
    | inl r₂ => rw [h1, h2] at hsa; exact hsa
    | inr _ => rw [h1, h2] at hsa; exact hsa.elim
  | inr m₁' =>
    cases h2 : runSeqArms env₂ inp ch arms ⟨c, r, x₂⟩ with
    | inl _ => rw [h1, h2] at hsa; exact hsa.elim
    | inr m₂' =>
      rw [h1, h2] at hsa
      obtain ⟨c', r', y₁, y₂, rfl, rfl, hj', hy⟩ := Cong.MR.cases hsa
      simp only [h.tbl]
      cases hf : findArm env₂.tbl c' ch arms with
      | none => exact .inr ⟨⟨rfl, rfl, hj', hy⟩, rfl, h.good_panic _⟩
      | some arm =>
        have hb := seqs_checked (ha arm (findArm_mem hf))
        have hbody := runBody_cong h arm.body hb ⟨c', r', y₁⟩ ⟨c', r', y₂⟩ ⟨rfl, rfl, hj', hy⟩
        simp only
        cases hp : arm.pat with
        | eoc => simp only; exact finishArm_cong h _ _ hbody
        | eof =>
          simp only
          by_cases hl : c'.isLast = true
          · simp only [hl, if_true]; exact finishArm_cong h _ _ hbody
          · simp only [hl, Bool.false_eq_true, if_false, break_eq]
            exact .inr ⟨⟨rfl, rfl, h.jr_break _ hj', hy⟩, rfl, h.good_plumb (breakCR_sig _ _ _)⟩
        | _ =>
          simp only
          rcases hbody with hs | ⟨a, b, g⟩
          · exact .inl hs
          · exact .inr ⟨a, by rw [b], g⟩

theorem sfPre_cong (h : C.Ok env₁ env₂ inp) (sd : StateDef) (hc : sd.enter.all Call.checked = true)
    (m₁ : M κ₁) (m₂ : M κ₂) (hm : C.MR m₁ m₂) :
    C.Out (sfPreC env₁ inp sd m₁) (sfPreC env₂ inp sd m₂) := by
  obtain ⟨c, r, x₁, x₂, rfl, rfl, hj, hx⟩ := hm.cases
  unfold sfPreC
  dsimp only
  by_cases hcond : (!sd.enter.isEmpty && !c.entered) = true
  · simp only [hcond, if_true]
    rcases runCalls_cong h sd.enter hc ⟨{ c with nextPos := c.nextPos + 1 }, r, x₁⟩
        ⟨{ c with nextPos := c.nextPos + 1 }, r, x₂⟩ ⟨rfl, rfl, hj, hx⟩ with hs | ⟨hmr, hsig, hg⟩
    · obtain ⟨sig, h2⟩ := h.stop_sig hs
      left
      simp only [h2]
      have : runCalls env₁ inp sd.enter ⟨{ c with nextPos := c.nextPos + 1 }, r, x₁⟩ =
          ((runCalls env₁ inp sd.enter ⟨{ c with nextPos := c.nextPos + 1 }, r, x₁⟩).1, some sig) := by
        rw [← h2]
      rw [← this]; exact hs
    · rw [← hsig]
      cases h2 : (runCalls env₁ inp sd.enter ⟨{ c with nextPos := c.nextPos + 1 }, r, x₁⟩).2 with
      | some sig =>
        try simp only [h2] at hg ⊢
        exact .inr ⟨hmr, by first | rfl | trivial, hg⟩
      | none =>
        try simp only [h2] at hg ⊢
        obtain ⟨h1, h2', hj', h3⟩ := hmr
        exact .inr ⟨⟨by simp only [h1], h2', hj', h3⟩, by first | rfl | trivial, h.good_none⟩
  · simp only [hcond, Bool.false_eq_true, if_false]
    exact .inr ⟨⟨rfl, rfl, hj, hx⟩, rfl, h.good_none⟩

theorem sfRest_cong (h : C.Ok env₁ env₂ inp) (sd : StateDef) (ha : ArmsChecked sd.arms)
    (p₁ : StepRes κ₁) (p₂ : StepRes κ₂) (hp : C.Out p₁ p₂) :
    C.Out (sfRest env₁ inp sd p₁) (sfRest env₂ inp sd p₂) := by
  obtain ⟨m₁, s₁⟩ := p₁
  obtain ⟨m₂, s₂⟩ := p₂
  unfold sfRest
  rcases hp with hs | ⟨hmr, heq, hg⟩
  · obtain ⟨sig, h2⟩ := h.stop_sig hs
    simp only at h2
    subst h2
    exact .inl hs
  · simp only at heq
    subst heq
    cases s₁ with
    | some sig => exact .inr ⟨hmr, rfl, hg⟩
    | none =>
      obtain ⟨c, r, x₁, x₂, rfl, rfl, hj, hx⟩ := Cong.MR.cases hmr
      dsimp only
      cases sd.memchr with
      | none => exact dispatch_cong h _ _ ha _ _ ⟨rfl, rfl, hj, hx⟩
      | some needle =>
        dsimp only
        cases findByte needle (List.drop c.nextPos inp) with
        | none => exact dispatch_cong h _ _ ha _ _ ⟨rfl, rfl, hj, hx⟩
        | some p => exact dispatch_cong h _ _ ha _ _ ⟨rfl, rfl, hj, hx⟩

theorem stateFn_cong (h : C.Ok env₁ env₂ inp) (ht : EmitsChecked env₁.tbl = true)
    (m₁ : M κ₁) (m₂ : M κ₂) (hm : C.MR m₁ m₂) :
    C.Out (stateFn env₁ inp m₁) (stateFn env₂ inp m₂) := by
  rw [stateFn_split, stateFn_split, ← h.tbl, ← hm.1]
  cases hsd : env₁.tbl.state? m₁.c.state with
  | none => exact .inr ⟨hm, rfl, h.good_panic _⟩
  | some sd =>
    obtain ⟨he, ha⟩ := state_checked ht hsd
    exact sfRest_cong h sd ha _ _ (sfPre_cong h sd he m₁ m₂ hm)

theorem runLoop_cong (h : C.Ok env₁ env₂ inp) (ht : EmitsChecked env₁.tbl = true) (n : Nat)
    (m₁ : M κ₁) (m₂ : M κ₂) (hm : C.MR m₁ m₂) :
    C.Stop ((runLoop env₁ inp n m₁).1, some (runLoop env₁ inp n m₁).2) ∨
    (C.MR (runLoop env₁ inp n m₁).1 (runLoop env₂ inp n m₂).1 ∧
      (runLoop env₁ inp n m₁).2 = (runLoop env₂ inp n m₂).2 ∧ C.Good (some (runLoop env₁ inp n m₁).2)) := by
  induction n generalizing m₁ m₂ with
  | zero => exact .inr ⟨hm, rfl, h.good_panic _⟩
  | succ n ih =>
    simp only [runLoop]
    rcases stateFn_cong h ht m₁ m₂ hm with hs | ⟨hmr, hsig, hg⟩
    · obtain ⟨sig, h2⟩ := h.stop_sig hs
      left
      simp only [h2]
      have : stateFn env₁ inp m₁ = ((stateFn env₁ inp m₁).1, some sig) := by rw [← h2]
      rw [← this]; exact hs
    · rw [← hsig]
      cases h2 : (stateFn env₁ inp m₁).2 with
      | some sig =>
        try simp only [h2] at hg ⊢
        exact .inr ⟨hmr, by first | rfl | trivial, hg⟩
      | none =>
        try simp only [h2] at hg ⊢
        exact ih _ _ hmr

/-! ### the parser loop -/

/-- related parsers: everything equal but the contexts, which are `Rx`-related -/
def PR (C : Cong κ₁ κ₂) (p₁ : Parser κ₁) (p₂ : Parser κ₂) : Prop :=
  p₁.lexC = p₂.lexC ∧ p₁.lexR = p₂.lexR ∧ p₁.scanC = p₂.scanC ∧ p₁.scanR = p₂.scanR ∧
  p₁.directive = p₂.directive ∧ C.Rx p₁.x p₂.x ∧
  C.Jr (match p₁.directive with | .lex => .lexer p₁.lexR | .scan => .scanner p₁.scanR)

/-- how `Parser.parse` reports an error signal (parser/mod.rs:96-101) -/
def sigErr : Err → Err
  | .internal _ => .handler
  | e => e

/-- related results of `Parser.parse` -/
def POut (C : Cong κ₁ κ₂) (r₁ : Parser κ₁ × Except Err Nat) (r₂ : Parser κ₂ × Except Err Nat) : Prop :=
  (∃ m e, C.Stop (m, some (.err e)) ∧ r₁.1.x = m.x ∧ r₁.2 = .error (sigErr e)) ∨
  (C.PR r₁.1 r₂.1 ∧ r₁.2 = r₂.2 ∧
    ∀ e, r₁.2 = .error e → (∃ s, e = .panic s) ∨ ∃ e', e = sigErr e' ∧ C.Good (some (.err e')))

theorem machine_cong {p₁ : Parser κ₁} {p₂ : Parser κ₂} (hp : C.PR p₁ p₂) (last : Bool) :
    C.MR (p₁.machine last) (p₂.machine last) := by
  obtain ⟨h1, h2, h3, h4, h5, h6, j⟩ := hp
  unfold Parser.machine
  rw [← h5]
  cases hd : p₁.directive
  · rw [hd] at j; exact ⟨by simp only [h3], by simp only [h4], j, h6⟩
  · rw [hd] at j; exact ⟨by simp only [h1], by simp only [h2], j, h6⟩

theorem store_cong {p₁ : Parser κ₁} {p₂ : Parser κ₂} (hp : C.PR p₁ p₂) {m₁ : M κ₁} {m₂ : M κ₂}
    (hm : C.MR m₁ m₂) : C.PR (p₁.store m₁) (p₂.store m₂) := by
  obtain ⟨h1, h2, h3, h4, h5, h6, j⟩ := hp
  obtain ⟨c, r, x₁, x₂, rfl, rfl, hj, hx⟩ := hm.cases
  cases r with
  | lexer l =>
    refine ⟨rfl, rfl, h3, h4, h5, hx, ?_⟩
    show C.Jr (match p₁.directive with | .lex => .lexer l | .scan => .scanner p₁.scanR)
    cases hd : p₁.directive
    · rw [hd] at j; exact j
    · exact hj
  | scanner s =>
    refine ⟨h1, h2, rfl, rfl, h5, hx, ?_⟩
    show C.Jr (match p₁.directive with | .lex => .lexer p₁.lexR | .scan => .scanner s)
    cases hd : p₁.directive
    · exact hj
    · rw [hd] at j; exact j

theorem store_x' {κ : Type} (p : Parser κ) (m : M κ) : (p.store m).x = m.x := by
  unfold Parser.store; split <;> rfl

theorem loadBookmark_cong (h : C.Ok env₁ env₂ inp) {p₁ : Parser κ₁} {p₂ : Parser κ₂} (hp : C.PR p₁ p₂)
    (d : Directive) (bm : Bookmark) (hg : C.Good (some (.directive d bm))) :
    C.PR (loadBookmark env₁ d bm p₁) (loadBookmark env₂ d bm p₂) := by
  obtain ⟨h1, h2, h3, h4, h5, h6, j⟩ := hp
  unfold loadBookmark
  cases d
  · exact ⟨h1, h2, by simp only [h3, h.tbl], h4, rfl, h6, h.jr_load_scan bm _ hg⟩
  · exact ⟨by simp only [h1, h.tbl], by simp only [h2], h3, h4, rfl, h6, h.jr_load_lex bm _ hg⟩

theorem parseLoop_cong (h : C.Ok env₁ env₂ inp) (ht : EmitsChecked env₁.tbl = true) (last : Bool)
    (n : Nat) (p₁ : Parser κ₁) (p₂ : Parser κ₂) (hp : C.PR p₁ p₂) :
    C.POut (Parser.parseLoop env₁ inp last n p₁) (Parser.parseLoop env₂ inp last n p₂) := by
  induction n generalizing p₁ p₂ with
  | zero => exact .inr ⟨hp, rfl, fun e he => .inl ⟨_, by simp only [Parser.parseLoop] at he; cases he; rfl⟩⟩
  | succ n ih =>
    simp only [Parser.parseLoop]
    rcases runLoop_cong h ht (defaultFuel inp) _ _ (machine_cong hp last) with hs | ⟨hmr, hsig, hg⟩
    · obtain ⟨e, he⟩ := h.stop_err _ hs
      simp only [Option.some.injEq] at he
      left
      refine ⟨(runLoop env₁ inp (defaultFuel inp) (p₁.machine last)).1, e, by rw [← he]; exact hs, ?_, ?_⟩
      · rw [he]
        cases e <;> simp only [store_x']
      · rw [he]
        cases e <;> rfl
    · rw [← hsig]
      have hst := store_cong hp hmr
      cases hsg : (runLoop env₁ inp (defaultFuel inp) (p₁.machine last)).2 with
      | endOfInput consumed =>
        try simp only [hsg] at hg ⊢
        obtain ⟨h1, h2, h3, h4, h5, h6, j⟩ := hst
        exact .inr ⟨⟨h1, h2, h3, h4, h5, h.pc _ _ _ h6, j⟩, by first | rfl | trivial, fun e he => by cases he⟩
      | directive d bm =>
        try simp only [hsg] at hg ⊢
        exact ih _ _ (loadBookmark_cong h hst d bm hg)
      | err e =>
        try simp only [hsg] at hg ⊢
        cases e with
        | internal s =>
          exact .inr ⟨hst, by first | rfl | trivial,
            fun e he => .inr ⟨.internal s, by cases he; rfl, hg⟩⟩
        | ambiguity t =>
          exact .inr ⟨hst, by first | rfl | trivial, fun e he => .inr ⟨.ambiguity t, by cases he; rfl, hg⟩⟩
        | handler =>
          exact .inr ⟨hst, by first | rfl | trivial, fun e he => .inr ⟨.handler, by cases he; rfl, hg⟩⟩
        | mem =>
          exact .inr ⟨hst, by first | rfl | trivial, fun e he => .inr ⟨.mem, by cases he; rfl, hg⟩⟩
        | panic s =>
          exact .inr ⟨hst, by first | rfl | trivial, fun e he => .inl ⟨s, by cases he; rfl⟩⟩

/-- **Generic congruence.** Two parsers that differ only in `Rx`-related contexts, run over the same
table and input in environments whose actions respect the congruence, produce related results —
unless the first one stops. -/
theorem parse_cong (h : C.Ok env₁ env₂ inp) (ht : EmitsChecked env₁.tbl = true) (last : Bool)
    (p₁ : Parser κ₁) (p₂ : Parser κ₂) (hp : C.PR p₁ p₂) :
    C.POut (Parser.parse env₁ inp last p₁) (Parser.parse env₂ inp last p₂) :=
  parseLoop_cong h ht last _ p₁ p₂ hp

end
end Cong
end LolHtml.Model
