import LolHtml.Lemmas.TbT5
/-!
A `template` start tag that is acted upon turns the frameset-ok flag off; outside the frameset modes every
`template` start tag is acted upon.
-/
namespace LolHtml.Spec.TreeBuilder
open LolHtml.Model (Ns)

variable {c : Cfg} {s : State}

/-- what a rule does with a `template` start tag -/
def TplPost (s : State) : Res → Prop
  | .done s' _ => s'.framesetOk = false
  | .reprocess s' _ => rank s'.mode < rank s.mode
  | .impossible _ => True

theorem inHead_tpl (sc : Bool) (a : Attrs) : TplPost s (inHead c s (.start .template sc a)) := by
  simp [inHead, TplPost, Name.isIn, Res.ok]

set_option maxHeartbeats 4000000 in
theorem stepMode_tpl (hI : TInv false s) (h1 : s.mode ≠ .text) (sc : Bool) (a : Attrs) :
    TplPost s (stepMode c s (.start .template sc a)) := by
  have hmf := hI.modes
  have hib : inBody c s (.start .template sc a) = inHead c s (.start .template sc a) := by
    simp only [inBody]
    eval_rule [inBodyStart, headStartNames]
  unfold stepMode
  cases hmode : s.mode <;> simp only
  case initial => simp [initial, Res.again, TplPost, hmode, rank]
  case beforeHtml => simp [beforeHtml, Res.again, TplPost, hmode, rank]
  case beforeHead => simp [beforeHead, Res.again, TplPost, hmode, rank]
  case inHead => exact inHead_tpl sc a
  case inHeadNoscript =>
    eval_rule [inHeadNoscript]
    simp [TplPost, hmode, rank]
  case afterHead =>
    eval_rule [afterHead, headStartNames]
    split
    · simp [inHead, Res.mapState, TplPost, Name.isIn, Res.ok]
    · exact inHead_tpl sc a
  case inBody => rw [hib]; exact inHead_tpl sc a
  case text => exact absurd hmode h1
  case inTable =>
    have : inTable c s (.start .template sc a) = inHead c s (.start .template sc a) := by
      eval_rule [inTable]
    rw [this]; exact inHead_tpl sc a
  case inTableText =>
    simp only [inTableText, Res.again, TplPost]
    rw [(flushPending_mode s).2]
    rcases hmf.2.1 hmode with e | e | e <;> simp [e, hmode, rank]
  case inCaption =>
    have : inCaption c s (.start .template sc a) = inBody c s (.start .template sc a) := by
      eval_rule [inCaption, tableSectionStartNames]
    rw [this, hib]; exact inHead_tpl sc a
  case inColumnGroup =>
    have : inColumnGroup c s (.start .template sc a) = inHead c s (.start .template sc a) := by
      eval_rule [inColumnGroup]
    rw [this]; exact inHead_tpl sc a
  case inTableBody =>
    have : inTableBody c s (.start .template sc a) = inHead c s (.start .template sc a) := by
      eval_rule [inTableBody, inTable]
    rw [this]; exact inHead_tpl sc a
  case inRow =>
    have : inRow c s (.start .template sc a) = inHead c s (.start .template sc a) := by
      eval_rule [inRow, inTable]
    rw [this]; exact inHead_tpl sc a
  case inCell =>
    have : inCell c s (.start .template sc a) = inBody c s (.start .template sc a) := by
      eval_rule [inCell, tableSectionStartNames]
    rw [this, hib]; exact inHead_tpl sc a
  case inSelect => exact absurd hmode hmf.1.1
  case inSelectInTable => exact absurd hmode hmf.1.2.1
  case inTemplate =>
    have : inTemplate c s (.start .template sc a) = inHead c s (.start .template sc a) := by
      eval_rule [inTemplate, headStartNames]
    rw [this]; exact inHead_tpl sc a
  case afterBody => simp [afterBody, Res.again, TplPost, hmode, rank]
  case inFrameset => exact absurd (hmf.1.2.2 rfl) (by simp [hmode, framesetModes])
  case afterFrameset => exact absurd (hmf.1.2.2 rfl) (by simp [hmode, framesetModes])
  case afterAfterBody => simp [afterAfterBody, Res.again, TplPost, hmode, rank]
  case afterAfterFrameset => exact absurd (hmf.1.2.2 rfl) (by simp [hmode, framesetModes])

/-- after a `template` start tag outside the frameset modes: frameset-ok flag off -/
theorem loop_template (hleg : c.legacySelect = false) (sc : Bool) (a : Attrs) (f : Bool) :
    ∀ (fuel : Nat) (s : State), TInv false s → NsOk c s → s.mode ≠ .text → rank s.mode ≤ fuel →
      (loop c (.start .template sc a) f fuel s false).st.framesetOk = false := by
  intro fuel
  induction fuel with
  | zero =>
    intro s _ _ _ hr
    have := rank_pos s.mode
    omega
  | succ fuel ih =>
    intro s hI hns h1 hr
    have hI' := stepMode_tinv (c := c) hleg hI (.start .template sc a) ⟨by decide, by decide⟩
      (fun sc' a' h => by cases h) (fun h => (h1 h).elim)
    have hS := stepMode_swT (c := c) hI hns h1 (.start .template sc a)
    have hT := stepMode_tpl (c := c) hI h1 sc a
    have hstep : stepOnce c s (.start .template sc a) false = stepMode c s (.start .template sc a) := by
      simp [stepOnce, useHtmlRules_of_tinv hI _]
    simp only [loop, hstep]
    cases hres : stepMode c s (.start .template sc a) with
    | done s' sw => rw [hres] at hT; exact hT
    | reprocess s' h =>
      rw [hres] at hI' hS hT
      obtain ⟨hG', hh⟩ := hI'
      subst hh
      exact ih s' hG' (hS.1 hns) hS.2.1 (by simp only [TplPost] at hT; omega)
    | impossible s' => rw [hres] at hI'; exact hI'.elim

end LolHtml.Spec.TreeBuilder
