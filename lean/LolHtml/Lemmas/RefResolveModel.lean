import LolHtml.Model.SM
import LolHtml.Ref.Resolve
/-!
Link between `Ref.resolve` and the executable model (`Model.dispatch`, lean/LolHtml/Model/SM.lean):
the ordinary arm that `resolve` reports is the arm `Model.findArm` selects, and the look-ahead arms it
reports are the ones `Model.runSeqArms` does not skip on the first byte.
(The remaining steps of `dispatch` — how the selected arm is run — are mirrored by `RKind`; a full
bisimulation "equal resolution ⇒ equal runs up to renaming of state numbers" is not proved.)
-/
namespace LolHtml.Ref
open LolHtml.Model

theorem patMatches_some (t : Table) (c : Common) (x : UInt8) (p : Pat) :
    Model.patMatches t c (some x) p = matchesByte t c.closingQuote x p := by
  cases p <;> simp [Model.patMatches, matchesByte]

theorem patMatches_none (t : Table) (c : Common) (p : Pat) :
    Model.patMatches t c none p = matchesEnd c.isLast p := by
  cases p <;> simp [Model.patMatches, matchesEnd]

/-- on a consumed byte the model selects the arm `resolveSome` reports -/
theorem findArm_some (t : Table) (c : Common) (x : UInt8) (arms : List Arm) :
    Model.findArm t c (some x) arms = findByteArm t c.closingQuote x arms := by
  induction arms with
  | nil => rfl
  | cons a rest ih => simp only [Model.findArm, findByteArm, patMatches_some, ih]

/-- on exhausted input the model selects the arm `resolveNone` reports -/
theorem findArm_none (t : Table) (c : Common) (arms : List Arm) :
    Model.findArm t c none arms = findEndArm c.isLast arms := by
  induction arms with
  | nil => rfl
  | cons a rest ih => simp only [Model.findArm, findEndArm, patMatches_none, ih]

theorem seqCmp_eq (ch e : UInt8) (ic : Bool) : Ref.seqCmp ch e ic = Model.seqCmp ch e ic := rfl

/-- A state without a look-ahead arm whose first byte is `x` (`seqArmsFor … = []`): the model's
`runSeqArms` falls through to the ordinary arms, leaving a lexer machine untouched. -/
theorem runSeqArms_lexer_of_no_candidate {κ : Type} (env : Env κ) (inp : Bytes) (x : UInt8)
    (arms : List Arm) (m : M κ) (l : LexRegs) (hm : m.r = .lexer l)
    (h : seqArmsFor env.tbl x arms = []) :
    runSeqArms env inp (some x) arms m = .inr m := by
  induction arms with
  | nil => rfl
  | cons a rest ih =>
    unfold runSeqArms
    unfold seqArmsFor at h
    cases hp : a.pat with
    | chSeq bytes ic =>
      rw [hp] at h
      have he : enterSeq m = m := by simp [enterSeq, hm]
      have hl : leaveSeq m = m := by simp [leaveSeq, hm]
      cases bytes with
      | nil => simp only [he, hl]; exact ih h
      | cons e0 es =>
        simp only at h
        by_cases hc : Ref.seqCmp x e0 ic = true
        · rw [if_pos hc] at h; exact absurd h (by simp)
        · rw [if_neg hc] at h
          have hc' : Model.seqCmp x e0 ic = false := by
            rw [← seqCmp_eq]; simpa using hc
          simp only [he, hl, hc', Bool.false_eq_true, if_false]
          exact ih h
    | _ => rw [hp] at h; simp only at h ⊢; exact ih h

end LolHtml.Ref
