/-
Helper lemmas for `C04_attr_ops`: the value-level closures of attribute_matcher.rs against the
declarative CSS definitions of `Spec/AttrOps.lean`.
-/
import LolHtml.Model.AttrMatch
import LolHtml.Spec.AttrOps

namespace LolHtml.Lemmas.AttrMatch
open LolHtml LolHtml.Model.AttrMatch LolHtml.Spec.AttrOps

/-! ### bytes -/

theorem lo_toNat (x : UInt8) : (toAsciiLowercase x).toNat =
    if 65 ≤ x.toNat ∧ x.toNat ≤ 90 then x.toNat + 32 else x.toNat := by
  have hx := x.toNat_lt
  unfold toAsciiLowercase
  by_cases h : 65 ≤ x.toNat ∧ x.toNat ≤ 90
  · have h' : (decide (65 ≤ x) && decide (x ≤ 90)) = true := by
      simp only [Bool.and_eq_true, decide_eq_true_eq, UInt8.le_iff_toNat_le]; exact h
    rw [if_pos h', if_pos h, UInt8.toNat_add]
    have : (32 : UInt8).toNat = 32 := rfl
    omega
  · have h' : ¬ (decide (65 ≤ x) && decide (x ≤ 90)) = true := by
      simp only [Bool.and_eq_true, decide_eq_true_eq, UInt8.le_iff_toNat_le]; exact h
    rw [if_neg h', if_neg h]

theorem up_toNat (x : UInt8) : (toAsciiUppercase x).toNat =
    if 97 ≤ x.toNat ∧ x.toNat ≤ 122 then x.toNat - 32 else x.toNat := by
  have hx := x.toNat_lt
  unfold toAsciiUppercase
  by_cases h : 97 ≤ x.toNat ∧ x.toNat ≤ 122
  · have h' : (decide (97 ≤ x) && decide (x ≤ 122)) = true := by
      simp only [Bool.and_eq_true, decide_eq_true_eq, UInt8.le_iff_toNat_le]; exact h
    rw [if_pos h', if_pos h, UInt8.toNat_sub_of_le]
    · rfl
    · rw [UInt8.le_iff_toNat_le]; have : (32 : UInt8).toNat = 32 := rfl; omega
  · have h' : ¬ (decide (97 ≤ x) && decide (x ≤ 122)) = true := by
      simp only [Bool.and_eq_true, decide_eq_true_eq, UInt8.le_iff_toNat_le]; exact h
    rw [if_neg h', if_neg h]

/-- `memchr2(lo, up)` finds exactly the bytes that equal `f` ASCII-case-insensitively. -/
theorem lo_or_up_iff (b f : UInt8) :
    (b = toAsciiLowercase f ∨ b = toAsciiUppercase f) ↔ toAsciiLowercase b = toAsciiLowercase f := by
  have hb := b.toNat_lt
  have hf := f.toNat_lt
  rw [← UInt8.toNat_inj, ← UInt8.toNat_inj, ← UInt8.toNat_inj, lo_toNat, lo_toNat, up_toNat]
  split <;> split <;> split <;> omega

theorem lower_eq (b : UInt8) : lower b = toAsciiLowercase b := by
  unfold lower toAsciiLowercase
  by_cases h : 65 ≤ b ∧ b ≤ 90
  · rw [if_pos h, if_pos (by simp only [Bool.and_eq_true, decide_eq_true_eq]; exact h)]
  · rw [if_neg h, if_neg (by simp only [Bool.and_eq_true, decide_eq_true_eq]; exact h)]

theorem map_lower_eq (bs : Bytes) : bs.map lower = bs.map toAsciiLowercase := by
  induction bs with
  | nil => rfl
  | cons b t ih => simp only [List.map_cons, ih, lower_eq]

theorem isAttrWhitespace_iff (b : UInt8) : isAttrWhitespace b = true ↔ IsWhitespace b := by
  unfold isAttrWhitespace IsWhitespace
  simp only [Bool.or_eq_true, beq_iff_eq]
  constructor
  · rintro ((((h | h) | h) | h) | h) <;> simp [h]
  · rintro (h | h | h | h | h) <;> simp [h]

theorem lower_ws (b : UInt8) : IsWhitespace (lower b) ↔ IsWhitespace b := by
  have hb := b.toNat_lt
  unfold IsWhitespace
  rw [lower_eq]
  simp only [← UInt8.toNat_inj, lo_toNat]
  have e1 : (32 : UInt8).toNat = 32 := rfl
  have e2 : (9 : UInt8).toNat = 9 := rfl
  have e3 : (10 : UInt8).toNat = 10 := rfl
  have e4 : (13 : UInt8).toNat = 13 := rfl
  have e5 : (12 : UInt8).toNat = 12 := rfl
  split <;> omega

/-! ### case modes -/

def toCase : CaseSensitivity → Case
  | .caseSensitive => .sensitive
  | .asciiCaseInsensitive => .asciiInsensitive

theorem eqIgnoreAsciiCase_iff (a b : Bytes) :
    Model.AttrMatch.eqIgnoreAsciiCase a b = true ↔ a.map lower = b.map lower := by
  induction a generalizing b with
  | nil => cases b <;> simp [Model.AttrMatch.eqIgnoreAsciiCase]
  | cons x xs ih =>
    cases b with
    | nil => simp [Model.AttrMatch.eqIgnoreAsciiCase]
    | cons y ys =>
      simp only [Model.AttrMatch.eqIgnoreAsciiCase, Bool.and_eq_true, beq_iff_eq, ih, List.map_cons, List.cons.injEq,
        lower_eq]

theorem csEq_iff (cs : CaseSensitivity) (a b : Bytes) :
    cs.eq a b = true ↔ CEq (toCase cs) a b := by
  cases cs
  · simp [CaseSensitivity.eq, toCase, CEq]
  · simp only [CaseSensitivity.eq, toCase, CEq]; exact eqIgnoreAsciiCase_iff a b

theorem CEq_length {c : Case} {a b : Bytes} (h : CEq c a b) : a.length = b.length := by
  cases c
  · simp only [CEq] at h; rw [h]
  · simp only [CEq] at h
    have := congrArg List.length h
    simpa using this

theorem CEq_nil_right {c : Case} {a : Bytes} : CEq c a [] ↔ a = [] := by
  cases c <;> simp [CEq]

theorem CEq_refl (c : Case) (a : Bytes) : CEq c a a := by cases c <;> simp [CEq]

/-! ### `get(..n)`, `get(n..)`, `get(n)` -/

theorem getTo_append {p s : Bytes} : getTo (p ++ s) p.length = some p := by
  simp [getTo]

/-! ### `=` -/

theorem attrEqV_iff (cs : CaseSensitivity) (v n : Bytes) :
    attrEqV cs v n = true ↔ OpEqual (toCase cs) v n := csEq_iff cs v n

/-! ### `^=` -/

theorem hasAttrWithPrefixV_iff (cs : CaseSensitivity) (v n : Bytes) :
    hasAttrWithPrefixV cs v n = true ↔ OpPrefix (toCase cs) v n := by
  unfold hasAttrWithPrefixV getTo OpPrefix
  simp only [Bool.and_eq_true, decide_eq_true_eq, ge_iff_le, ne_eq, List.length_eq_zero_iff]
  constructor
  · rintro ⟨⟨hne, hlen⟩, h⟩
    rw [if_pos hlen] at h
    exact ⟨hne, v.take n.length, v.drop n.length, (List.take_append_drop _ _).symm, (csEq_iff _ _ _).1 h⟩
  · rintro ⟨hne, p, s, rfl, hp⟩
    have hl := CEq_length hp
    have hlen : n.length ≤ (p ++ s).length := by simp; omega
    refine ⟨⟨hne, hlen⟩, ?_⟩
    rw [if_pos hlen, ← hl, List.take_left']
    · exact (csEq_iff _ _ _).2 hp
    · rfl

/-! ### `$=` -/

theorem hasAttrWithSuffixV_iff (cs : CaseSensitivity) (v n : Bytes) :
    ∃ r, hasAttrWithSuffixV cs v n = some r ∧ (r = true ↔ OpSuffix (toCase cs) v n) := by
  unfold hasAttrWithSuffixV checkedSub getFrom OpSuffix
  by_cases hne : n = []
  · subst hne; exact ⟨false, by simp, by simp⟩
  · have he : n.length ≠ 0 := by simpa using hne
    simp only [ne_eq, he, not_false_eq_true, not_true_eq_false, ↓reduceIte, ge_iff_le, Nat.not_le]
    by_cases hlen : n.length ≤ v.length
    · have h1 : ¬ v.length < n.length := by omega
      have h2 : v.length - n.length ≤ v.length := by omega
      simp only [if_neg h1, if_pos hlen, if_pos h2]
      refine ⟨_, rfl, ?_⟩
      rw [csEq_iff]
      constructor
      · intro h
        exact ⟨hne, v.take (v.length - n.length), v.drop (v.length - n.length),
          (List.take_append_drop _ _).symm, h⟩
      · rintro ⟨_, p, s, rfl, hs⟩
        have hl := CEq_length hs
        have : (p ++ s).length - n.length = p.length := by simp; omega
        rw [this, List.drop_left']
        · exact hs
        · rfl
    · have h1 : v.length < n.length := by omega
      simp only [if_pos h1]
      refine ⟨false, rfl, ?_⟩
      simp only [Bool.false_eq_true, false_iff, not_and]
      rintro _ ⟨p, s, rfl, hs⟩
      have hl := CEq_length hs
      simp at h1; omega

/-! ### `|=` -/

theorem hasDashMatchingAttrV_iff (cs : CaseSensitivity) (v n : Bytes) :
    hasDashMatchingAttrV cs v n = true ↔ OpDashMatch (toCase cs) v n := by
  unfold hasDashMatchingAttrV OpDashMatch getAt getTo
  by_cases heq : cs.eq v n = true
  · simp only [heq, ↓reduceIte, true_iff]; left; exact (csEq_iff _ _ _).1 heq
  · have hne : ¬ CEq (toCase cs) v n := fun h => heq ((csEq_iff _ _ _).2 h)
    simp only [heq, Bool.false_eq_true, ↓reduceIte, Bool.and_eq_true, beq_iff_eq, hne, false_or]
    constructor
    · rintro ⟨hdash, h⟩
      have hlt : n.length < v.length := by
        rcases Nat.lt_or_ge n.length v.length with h' | h'
        · exact h'
        · rw [List.getElem?_eq_none h'] at hdash; cases hdash
      rw [if_pos (by omega)] at h
      refine ⟨v.take n.length, v.drop (n.length + 1), ?_, (csEq_iff _ _ _).1 h⟩
      have hd : v.drop n.length = 45 :: v.drop (n.length + 1) := by
        rw [List.drop_eq_getElem_cons hlt]
        rw [List.getElem?_eq_getElem hlt] at hdash
        simp only [Option.some.injEq] at hdash
        rw [hdash]
      rw [← hd, List.take_append_drop]
    · rintro ⟨p, s, rfl, hp⟩
      have hl := CEq_length hp
      rw [← hl]
      refine ⟨by simp, ?_⟩
      rw [if_pos (by simp), List.take_left']
      · exact (csEq_iff _ _ _).2 hp
      · rfl

/-! ### `<[u8]>::split` and `~=` -/

/-- `w` is one of the pieces of `v` between separator bytes (possibly empty). -/
def IsPiece (p : UInt8 → Bool) (v w : Bytes) : Prop :=
  (∀ b ∈ w, p b = false) ∧
  ∃ pre suf, v = pre ++ w ++ suf ∧
    (pre = [] ∨ ∃ pre' c, pre = pre' ++ [c] ∧ p c = true) ∧
    (suf = [] ∨ ∃ c s', suf = c :: s' ∧ p c = true)

theorem split_ne_nil (p : UInt8 → Bool) (v : Bytes) : split p v ≠ [] := by
  cases v with
  | nil => simp [split]
  | cons b t =>
    unfold split
    split
    · simp
    · split <;> simp

theorem split_noSep {p : UInt8 → Bool} {w : Bytes} (h : ∀ b ∈ w, p b = false) : split p w = [w] := by
  induction w with
  | nil => rfl
  | cons b t ih =>
    have hb : p b = false := h b (by simp)
    have ht := ih (fun x hx => h x (by simp [hx]))
    unfold split
    simp [hb, ht]

theorem split_append_sep {p : UInt8 → Bool} (x : Bytes) (c : UInt8) (rest : Bytes) (hc : p c = true) :
    split p (x ++ c :: rest) = split p x ++ split p rest := by
  induction x with
  | nil => simp [split, hc]
  | cons b t ih =>
    by_cases hb : p b = true
    · simp only [List.cons_append, split, hb, ↓reduceIte, ih]
    · simp only [List.cons_append, split, hb, Bool.false_eq_true, ↓reduceIte, ih]
      cases hs : split p t with
      | nil => exact absurd hs (split_ne_nil p t)
      | cons hd tl => simp

/-- The first piece of `w ++ suf` is `w` when `w` is separator-free and `suf` is empty or starts
with a separator. -/
theorem head_mem_split {p : UInt8 → Bool} {w suf : Bytes} (hw : ∀ b ∈ w, p b = false)
    (hs : suf = [] ∨ ∃ c s', suf = c :: s' ∧ p c = true) : w ∈ split p (w ++ suf) := by
  rcases hs with rfl | ⟨c, s', rfl, hc⟩
  · simp [split_noSep hw]
  · rw [split_append_sep _ _ _ hc, split_noSep hw]; simp

theorem split_spec (p : UInt8 → Bool) (v : Bytes) :
    ∃ hd tl, split p v = hd :: tl ∧ (∀ b ∈ hd, p b = false) ∧
      (∃ suf, v = hd ++ suf ∧ (suf = [] ∨ ∃ c s', suf = c :: s' ∧ p c = true)) ∧
      ∀ w ∈ tl, (∀ b ∈ w, p b = false) ∧
        ∃ pre c suf, v = pre ++ [c] ++ w ++ suf ∧ p c = true ∧
          (suf = [] ∨ ∃ c s', suf = c :: s' ∧ p c = true) := by
  induction v with
  | nil => exact ⟨[], [], rfl, by simp, ⟨[], rfl, Or.inl rfl⟩, by simp⟩
  | cons b t ih =>
    obtain ⟨hd, tl, hsp, hhd, ⟨suf, hsuf, hsufS⟩, htl⟩ := ih
    by_cases hb : p b = true
    · refine ⟨[], hd :: tl, by simp [split, hb, hsp], by simp, ⟨b :: t, rfl, Or.inr ⟨b, t, rfl, hb⟩⟩, ?_⟩
      intro w hw
      rcases List.mem_cons.1 hw with rfl | hw
      · exact ⟨hhd, [], b, suf, by simp [hsuf], hb, hsufS⟩
      · obtain ⟨hwn, pre, c, suf', hv, hc, hS⟩ := htl w hw
        exact ⟨hwn, b :: pre, c, suf', by simp [hv], hc, hS⟩
    · have hb' : p b = false := by simpa using hb
      refine ⟨b :: hd, tl, by simp [split, hb', hsp], ?_, ⟨suf, by simp [hsuf], hsufS⟩, ?_⟩
      · intro x hx
        rcases List.mem_cons.1 hx with rfl | hx
        · exact hb'
        · exact hhd x hx
      · intro w hw
        obtain ⟨hwn, pre, c, suf', hv, hc, hS⟩ := htl w hw
        exact ⟨hwn, b :: pre, c, suf', by simp [hv], hc, hS⟩

theorem mem_split_iff (p : UInt8 → Bool) (v w : Bytes) : w ∈ split p v ↔ IsPiece p v w := by
  constructor
  · intro hw
    obtain ⟨hd, tl, hsp, hhd, ⟨suf, hsuf, hsufS⟩, htl⟩ := split_spec p v
    rw [hsp] at hw
    rcases List.mem_cons.1 hw with rfl | hw
    · exact ⟨hhd, [], suf, by simp [hsuf], Or.inl rfl, hsufS⟩
    · obtain ⟨hwn, pre, c, suf', hv, hc, hS⟩ := htl w hw
      exact ⟨hwn, pre ++ [c], suf', hv, Or.inr ⟨pre, c, rfl, hc⟩, hS⟩
  · rintro ⟨hwn, pre, suf, rfl, hpre, hsuf⟩
    rcases hpre with rfl | ⟨pre', c, rfl, hc⟩
    · simpa using head_mem_split hwn hsuf
    · have : pre' ++ [c] ++ w ++ suf = pre' ++ c :: (w ++ suf) := by simp
      rw [this, split_append_sep _ _ _ hc]
      exact List.mem_append_right _ (head_mem_split hwn hsuf)

/-- `~=` in terms of pieces: the operand is non-empty and some piece equals it. -/
theorem matchesSplittedByWhitespaceV_iff (cs : CaseSensitivity) (v n : Bytes) :
    matchesSplittedByWhitespaceV cs v n = true ↔
      n ≠ [] ∧ ∃ w, IsPiece isAttrWhitespace v w ∧ CEq (toCase cs) w n := by
  unfold matchesSplittedByWhitespaceV
  simp only [Bool.and_eq_true, Bool.not_eq_true', List.isEmpty_eq_false_iff, List.any_eq_true,
    mem_split_iff, csEq_iff, ne_eq]

theorem isPiece_isWord {v w : Bytes} (hw : w ≠ []) : IsPiece isAttrWhitespace v w ↔ IsWord v w := by
  unfold IsPiece IsWord
  have hws : ∀ b, isAttrWhitespace b = false ↔ ¬ IsWhitespace b := by
    intro b; rw [← isAttrWhitespace_iff]; simp
  constructor
  · rintro ⟨h1, pre, suf, hv, hp, hs⟩
    refine ⟨hw, fun b hb => (hws b).1 (h1 b hb), pre, suf, hv, ?_, ?_⟩
    · rcases hp with h | ⟨p', c, h, hc⟩
      · exact Or.inl h
      · exact Or.inr ⟨p', c, h, (isAttrWhitespace_iff c).1 hc⟩
    · rcases hs with h | ⟨c, s', h, hc⟩
      · exact Or.inl h
      · exact Or.inr ⟨c, s', h, (isAttrWhitespace_iff c).1 hc⟩
  · rintro ⟨_, h1, pre, suf, hv, hp, hs⟩
    refine ⟨fun b hb => (hws b).2 (h1 b hb), pre, suf, hv, ?_, ?_⟩
    · rcases hp with h | ⟨p', c, h, hc⟩
      · exact Or.inl h
      · exact Or.inr ⟨p', c, h, (isAttrWhitespace_iff c).2 hc⟩
    · rcases hs with h | ⟨c, s', h, hc⟩
      · exact Or.inl h
      · exact Or.inr ⟨c, s', h, (isAttrWhitespace_iff c).2 hc⟩

/-! ### `memchr`, the `search` loop and `*=` -/

def memchrBy (q : UInt8 → Bool) : Bytes → Option Nat
  | [] => none
  | h :: t => if q h then some 0 else (memchrBy q t).map (· + 1)

theorem memchr_eq (f : UInt8) : memchr f = memchrBy (fun h => h == f) := by
  funext hay
  induction hay with
  | nil => rfl
  | cons h t ih => simp only [memchr, memchrBy, ih]

theorem memchr2_eq (lo up : UInt8) : memchr2 lo up = memchrBy (fun h => h == lo || h == up) := by
  funext hay
  induction hay with
  | nil => rfl
  | cons h t ih => simp only [memchr2, memchrBy, ih]

theorem memchrBy_none {q : UInt8 → Bool} {hay : Bytes} (h : memchrBy q hay = none) :
    ∀ b ∈ hay, q b = false := by
  induction hay with
  | nil => simp
  | cons x t ih =>
    unfold memchrBy at h
    by_cases hx : q x = true
    · simp [hx] at h
    · simp only [hx, Bool.false_eq_true, ↓reduceIte, Option.map_eq_none_iff] at h
      intro b hb
      rcases List.mem_cons.1 hb with rfl | hb
      · simpa using hx
      · exact ih h b hb

theorem memchrBy_some {q : UInt8 → Bool} {hay : Bytes} {k : Nat} (h : memchrBy q hay = some k) :
    ∃ pre b post, hay = pre ++ b :: post ∧ pre.length = k ∧ q b = true ∧ ∀ x ∈ pre, q x = false := by
  induction hay generalizing k with
  | nil => simp [memchrBy] at h
  | cons x t ih =>
    unfold memchrBy at h
    by_cases hx : q x = true
    · simp only [hx, ↓reduceIte, Option.some.injEq] at h
      exact ⟨[], x, t, rfl, by simp [h], hx, by simp⟩
    · simp only [hx, Bool.false_eq_true, ↓reduceIte, Option.map_eq_some_iff] at h
      obtain ⟨k', hk', rfl⟩ := h
      obtain ⟨pre, b, post, rfl, hl, hb, hpre⟩ := ih hk'
      refine ⟨x :: pre, b, post, rfl, by simp [hl], hb, ?_⟩
      intro y hy
      rcases List.mem_cons.1 hy with rfl | hy
      · simpa using hx
      · exact hpre y hy

/-- One-pass formulation of the `search` loop. -/
def scan (q : UInt8 → Bool) (rest : Bytes) (cs : CaseSensitivity) : Bytes → Bool
  | [] => false
  | h :: t =>
    (q h && decide (rest.length ≤ t.length) && cs.eq (t.take rest.length) rest) || scan q rest cs t

theorem scan_short {q : UInt8 → Bool} {rest : Bytes} {cs : CaseSensitivity} {t : Bytes}
    (h : t.length < rest.length) : scan q rest cs t = false := by
  induction t with
  | nil => rfl
  | cons x t ih =>
    have h1 : ¬ rest.length ≤ t.length := by simp at h; omega
    have h2 : t.length < rest.length := by simp at h; omega
    simp [scan, h1, ih h2]

theorem scan_skip {q : UInt8 → Bool} {rest : Bytes} {cs : CaseSensitivity} {pre l : Bytes}
    (h : ∀ x ∈ pre, q x = false) : scan q rest cs (pre ++ l) = scan q rest cs l := by
  induction pre with
  | nil => rfl
  | cons x t ih =>
    have hx : q x = false := h x (by simp)
    simp [scan, hx, ih (fun y hy => h y (by simp [hy]))]

theorem searchLoop_eq (q : UInt8 → Bool) (rest : Bytes) (cs : CaseSensitivity) (fuel : Nat) (hay : Bytes)
    (hf : hay.length < fuel) :
    searchLoop rest cs (memchrBy q) fuel hay = some (scan q rest cs hay) := by
  induction fuel generalizing hay with
  | zero => omega
  | succ fuel ih =>
    unfold searchLoop
    cases hm : memchrBy q hay with
    | none =>
      have hno := memchrBy_none hm
      have : scan q rest cs hay = false := by
        have := scan_skip (q := q) (rest := rest) (cs := cs) (pre := hay) (l := []) hno
        simpa [scan] using this
      simp [this]
    | some k =>
      obtain ⟨pre, b, post, rfl, hl, hb, hpre⟩ := memchrBy_some hm
      have hget : getFrom (pre ++ b :: post) (k + 1) = some post := by
        unfold getFrom
        have hle : k + 1 ≤ (pre ++ b :: post).length := by simp; omega
        rw [if_pos hle]
        have : pre ++ b :: post = (pre ++ [b]) ++ post := by simp
        rw [this, List.drop_left']
        simp [hl]
      simp only [hget]
      rw [scan_skip hpre]
      unfold getTo
      by_cases hlen : rest.length ≤ post.length
      · simp only [if_pos hlen]
        by_cases heq : cs.eq (post.take rest.length) rest = true
        · simp [scan, hb, hlen, heq]
        · have hfuel : post.length < fuel := by simp at hf; omega
          simp only [heq, Bool.false_eq_true, ↓reduceIte, ih post hfuel]
          simp [scan, heq]
      · simp only [if_neg hlen]
        have : scan q rest cs post = false := scan_short (by omega)
        simp [scan, hlen, this]

theorem take_ceq_iff (cs : CaseSensitivity) (t rest : Bytes) :
    (rest.length ≤ t.length ∧ cs.eq (t.take rest.length) rest = true) ↔
      ∃ m s, t = m ++ s ∧ CEq (toCase cs) m rest := by
  constructor
  · rintro ⟨_, h⟩
    exact ⟨t.take rest.length, t.drop rest.length, (List.take_append_drop _ _).symm, (csEq_iff _ _ _).1 h⟩
  · rintro ⟨m, s, rfl, hm⟩
    have hl := CEq_length hm
    refine ⟨by simp; omega, ?_⟩
    rw [← hl, List.take_left']
    · exact (csEq_iff _ _ _).2 hm
    · rfl

theorem scan_iff (q : UInt8 → Bool) (rest : Bytes) (cs : CaseSensitivity) (hay : Bytes) :
    scan q rest cs hay = true ↔
      ∃ pre b post, hay = pre ++ b :: post ∧ q b = true ∧ ∃ m s, post = m ++ s ∧ CEq (toCase cs) m rest := by
  induction hay with
  | nil => simp [scan]
  | cons x t ih =>
    simp only [scan, Bool.or_eq_true, Bool.and_eq_true, decide_eq_true_eq, ih]
    constructor
    · rintro (⟨⟨hx, hlen⟩, heq⟩ | ⟨pre, b, post, rfl, hb, hm⟩)
      · exact ⟨[], x, t, rfl, hx, (take_ceq_iff cs t rest).1 ⟨hlen, heq⟩⟩
      · exact ⟨x :: pre, b, post, rfl, hb, hm⟩
    · rintro ⟨pre, b, post, hv, hb, hm⟩
      cases pre with
      | nil =>
        simp only [List.nil_append, List.cons.injEq] at hv
        obtain ⟨rfl, rfl⟩ := hv
        have := (take_ceq_iff cs t rest).2 hm
        exact Or.inl ⟨⟨hb, this.1⟩, this.2⟩
      | cons y pre =>
        simp only [List.cons_append, List.cons.injEq] at hv
        obtain ⟨rfl, rfl⟩ := hv
        exact Or.inr ⟨pre, b, post, rfl, hb, hm⟩

/-- Single-byte equality in a case mode. -/
def ByteEq : Case → UInt8 → UInt8 → Prop
  | .sensitive, x, y => x = y
  | .asciiInsensitive, x, y => lower x = lower y

theorem CEq_cons_right {c : Case} {m' : Bytes} {f : UInt8} {rest : Bytes} :
    CEq c m' (f :: rest) ↔ ∃ b m, m' = b :: m ∧ ByteEq c b f ∧ CEq c m rest := by
  cases c
  · simp only [CEq, ByteEq]
    constructor
    · rintro rfl; exact ⟨f, rest, rfl, rfl, rfl⟩
    · rintro ⟨b, m, rfl, rfl, rfl⟩; rfl
  · simp only [CEq, ByteEq]
    constructor
    · intro h
      cases m' with
      | nil => simp at h
      | cons b m =>
        simp only [List.map_cons, List.cons.injEq] at h
        exact ⟨b, m, rfl, h.1, h.2⟩
    · rintro ⟨b, m, rfl, h1, h2⟩
      simp only [List.map_cons, h1, h2]

theorem substring_of_scan (c : Case) (q : UInt8 → Bool) (f : UInt8) (rest v : Bytes)
    (hq : ∀ b, q b = true ↔ ByteEq c b f) :
    (∃ pre b post, v = pre ++ b :: post ∧ q b = true ∧ ∃ m s, post = m ++ s ∧ CEq c m rest) ↔
      OpSubstring c v (f :: rest) := by
  unfold OpSubstring
  constructor
  · rintro ⟨pre, b, post, rfl, hb, m, s, rfl, hm⟩
    refine ⟨by simp, pre, b :: m, s, by simp, ?_⟩
    exact CEq_cons_right.2 ⟨b, m, rfl, (hq b).1 hb, hm⟩
  · rintro ⟨_, p, m', s, rfl, hm'⟩
    obtain ⟨b, m, rfl, hb, hm⟩ := CEq_cons_right.1 hm'
    exact ⟨p, b, m ++ s, by simp, (hq b).2 hb, m, s, rfl, hm⟩

theorem hasAttrWithSubstringV_iff (cs : CaseSensitivity) (v n : Bytes) :
    ∃ r, hasAttrWithSubstringV cs v n = some r ∧ (r = true ↔ OpSubstring (toCase cs) v n) := by
  unfold hasAttrWithSubstringV
  cases n with
  | nil => exact ⟨false, rfl, by simp [OpSubstring]⟩
  | cons f rest =>
    cases cs with
    | caseSensitive =>
      simp only [search, memchr_eq]
      rw [searchLoop_eq _ _ _ _ _ (Nat.lt_succ_self _)]
      refine ⟨_, rfl, ?_⟩
      rw [scan_iff]
      exact substring_of_scan .sensitive _ f rest v (by intro b; simp [ByteEq])
    | asciiCaseInsensitive =>
      simp only [search, memchr2_eq]
      rw [searchLoop_eq _ _ _ _ _ (Nat.lt_succ_self _)]
      refine ⟨_, rfl, ?_⟩
      rw [scan_iff]
      refine substring_of_scan .asciiInsensitive _ f rest v ?_
      intro b
      simp only [Bool.or_eq_true, beq_iff_eq, ByteEq, lower_eq]
      exact lo_or_up_iff b f

/-- Enough fuel: any fuel above the haystack length gives the same (never `none`) result. -/
theorem search_fuel_irrelevant (q : UInt8 → Bool) (rest : Bytes) (cs : CaseSensitivity) (hay : Bytes)
    (fuel : Nat) (hf : hay.length < fuel) :
    searchLoop rest cs (memchrBy q) fuel hay = search hay rest cs (memchrBy q) := by
  rw [search, searchLoop_eq _ _ _ _ _ hf, searchLoop_eq _ _ _ _ _ (Nat.lt_succ_self _)]

/-! ### the matcher object: `find`, `get_value` -/

theorem find_lowercased (m : AttributeMatcher) (key : Bytes) :
    m.find (makeAsciiLowercase key) =
      m.attributes.find? (fun a => a.1.map lower == key.map lower) := by
  unfold AttributeMatcher.find makeAsciiLowercase
  congr 1
  funext a
  rw [map_lower_eq, map_lower_eq]
  by_cases hl : a.1.length = key.length
  · simp [hl]
  · have hne : ¬ a.1.map toAsciiLowercase = key.map toAsciiLowercase := by
      intro h; apply hl; simpa using congrArg List.length h
    simp [hl, hne]

theorem getValue_lowercased (m : AttributeMatcher) (key : Bytes) :
    m.getValue (makeAsciiLowercase key) = firstAttr m.attributes key := by
  unfold AttributeMatcher.getValue firstAttr
  rw [find_lowercased]

theorem lo_idem (b : UInt8) : toAsciiLowercase (toAsciiLowercase b) = toAsciiLowercase b := by
  have hb := b.toNat_lt
  rw [← UInt8.toNat_inj, lo_toNat, lo_toNat]
  by_cases h : 65 ≤ b.toNat ∧ b.toNat ≤ 90
  · rw [if_pos h, if_neg (by omega)]
  · rw [if_neg h, if_neg h]

theorem map_lower_makeAsciiLowercase (n : Bytes) : (makeAsciiLowercase n).map lower = n.map lower := by
  unfold makeAsciiLowercase
  rw [map_lower_eq, map_lower_eq, List.map_map]
  congr 1
  funext b
  exact lo_idem b

theorem firstAttr_makeAsciiLowercase (attrs : List (Bytes × Bytes)) (n : Bytes) :
    firstAttr attrs (makeAsciiLowercase n) = firstAttr attrs n := by
  unfold firstAttr
  rw [map_lower_makeAsciiLowercase]

theorem idAttr_lower : makeAsciiLowercase idAttr = idAttr := by decide
theorem classAttr_lower : makeAsciiLowercase classAttr = classAttr := by decide

end LolHtml.Lemmas.AttrMatch
