/-
Package `full`: the adapter `unhash` (Model/Full.lean) inverts `LocalNameHash` (Model/NameHash.lean)
on every hashable name that starts with a letter: the name bytes the glue hands to the selector VM
for a hashed `LocalName` are the lower-cased tag name.
-/
import LolHtml.Model.Full

namespace LolHtml.Model.Full
open LolHtml LolHtml.Model

theorem snoc_induction {α : Type} {P : List α → Prop} (nil : P []) (snoc : ∀ l a, P l → P (l ++ [a])) :
    ∀ l, P l := by
  intro l
  have : ∀ r : List α, P r.reverse := by
    intro r
    induction r with
    | nil => exact nil
    | cons a r ih => simpa using snoc r.reverse a ih
  simpa using this l.reverse

/-- the base-32 digit `LocalNameHash::update` appends for a character, if it accepts it -/
def digitOf (ch : UInt8) : Option Nat :=
  if isAsciiAlpha ch then some ((ch.toNat &&& 0x1F) + 5)
  else if 49 ≤ ch && ch ≤ 54 then some ((ch.toNat &&& 0x0F) - 1)
  else none

theorem digitOf_facts_nat : ∀ n, n < 256 → ∀ d, digitOf (UInt8.ofNat n) = some d →
    d < 32 ∧ unhashDigit d = asciiLower (UInt8.ofNat n) ∧ (isAsciiAlpha (UInt8.ofNat n) = true → 6 ≤ d) := by
  decide +kernel

theorem digitOf_facts (ch : UInt8) (d : Nat) (h : digitOf ch = some d) :
    d < 32 ∧ unhashDigit d = asciiLower ch ∧ (isAsciiAlpha ch = true → 6 ≤ d) := by
  have := digitOf_facts_nat ch.toNat ch.toNat_lt d
  simpa using this (by simpa using h)

theorem update_of_digit (h : Nat) (ch : UInt8) (d : Nat) (hh : h < 2 ^ 59) (hd : digitOf ch = some d) :
    NameHash.update h ch = h * 32 + d := by
  have hlt := (digitOf_facts ch d hd).1
  have h0 : h / 2 ^ 59 = 0 := Nat.div_eq_of_lt hh
  have hor : ∀ x, x < 32 → (h * 32) ||| x = h * 32 + x := by
    intro x hx
    have := Nat.two_pow_add_eq_or_of_lt (i := 5) (b := x) (by simpa using hx) h
    rw [Nat.mul_comm] at this
    exact this.symm
  unfold NameHash.update
  unfold digitOf at hd
  simp only [h0, beq_self_eq_true, if_true]
  split at hd
  · rename_i ha
    simp only [Option.some.injEq] at hd
    simp only [ha, if_true]
    rw [← hd] at hlt ⊢
    exact hor _ hlt
  · rename_i ha
    split at hd
    · rename_i hb
      simp only [Option.some.injEq] at hd
      simp only [ha, hb, if_true]
      rw [← hd] at hlt ⊢
      exact hor _ hlt
    · simp at hd

theorem update_empty_of_bad (h : Nat) (ch : UInt8) (hbad : ¬ (h < 2 ^ 59) ∨ digitOf ch = none) :
    NameHash.update h ch = emptyHash := by
  unfold NameHash.update
  rcases hbad with hb | hb
  · have : ¬ (h / 2 ^ 59 = 0) := by
      intro h0
      exact hb ((Nat.div_eq_zero_iff_lt (by decide)).1 h0)
    simp [this]
  · unfold digitOf at hb
    split
    · split at hb
      · simp at hb
      · rename_i ha
        split at hb
        · simp at hb
        · rename_i hc
          simp [ha, hc]
    · rfl

theorem emptyHash_big : ¬ (emptyHash < 2 ^ 59) := by decide

theorem foldl_update_empty (cs : Bytes) : cs.foldl NameHash.update emptyHash = emptyHash := by
  induction cs with
  | nil => rfl
  | cons c cs ih =>
    simp only [List.foldl_cons]
    rw [update_empty_of_bad _ _ (Or.inl emptyHash_big), ih]

/-- value of a digit string, most significant first -/
def val (ds : List Nat) : Nat := ds.foldl (fun h d => h * 32 + d) 0

theorem val_snoc (ds : List Nat) (d : Nat) : val (ds ++ [d]) = val ds * 32 + d := by
  simp [val, List.foldl_append]

/-- a hash that is not `EMPTY_HASH` is the base-32 value of the characters' digits, and every
intermediate hash passed the overflow guard -/
theorem ofBytes_val (n : Bytes) (hne : NameHash.ofBytes n ≠ emptyHash) :
    ∃ ds, n.mapM digitOf = some ds ∧ NameHash.ofBytes n = val ds ∧
      (∀ init d, ds = init ++ [d] → val init < 2 ^ 59) := by
  induction n using snoc_induction with
  | nil => exact ⟨[], rfl, rfl, fun init d h => by simp at h⟩
  | snoc cs c ih =>
    have hstep : NameHash.ofBytes (cs ++ [c]) = NameHash.update (NameHash.ofBytes cs) c := by
      simp [NameHash.ofBytes, List.foldl_append]
    rw [hstep] at hne ⊢
    by_cases hprev : NameHash.ofBytes cs = emptyHash
    · rw [hprev, update_empty_of_bad _ _ (Or.inl emptyHash_big)] at hne
      exact absurd rfl hne
    · obtain ⟨ds, hds, hv, _⟩ := ih hprev
      by_cases hlt : NameHash.ofBytes cs < 2 ^ 59
      · cases hd : digitOf c with
        | none => rw [update_empty_of_bad _ _ (Or.inr hd)] at hne; exact absurd rfl hne
        | some d =>
          refine ⟨ds ++ [d], ?_, ?_, ?_⟩
          · rw [List.mapM_append]
            simp [hds, hd]
          · rw [update_of_digit _ _ _ hlt hd, val_snoc, hv]
          · intro init d' h
            obtain ⟨h1, _⟩ := List.append_inj' h rfl
            rw [← h1, ← hv]; exact hlt
      · rw [update_empty_of_bad _ _ (Or.inl hlt)] at hne
        exact absurd rfl hne

theorem val_lower (ds : List Nat) (d0 : Nat) (rest : List Nat) (h : ds = d0 :: rest) (h6 : 6 ≤ d0) :
    6 * 32 ^ rest.length ≤ val ds := by
  subst h
  induction rest using snoc_induction with
  | nil => simp [val]; omega
  | snoc r d ih =>
    rw [show d0 :: (r ++ [d]) = (d0 :: r) ++ [d] from rfl, val_snoc]
    simp only [List.length_append, List.length_singleton, Nat.pow_succ]
    have := ih
    calc 6 * (32 ^ r.length * 32) = (6 * 32 ^ r.length) * 32 := by rw [Nat.mul_assoc]
      _ ≤ val (d0 :: r) * 32 := Nat.mul_le_mul_right _ this
      _ ≤ val (d0 :: r) * 32 + d := Nat.le_add_right _ _

theorem unhashAux_val (ds : List Nat) (hlt : ∀ d ∈ ds, d < 32) (hhead : ∀ d0 rest, ds = d0 :: rest → 1 ≤ d0)
    (fuel : Nat) (hf : ds.length ≤ fuel) (acc : Bytes) :
    unhashAux fuel (val ds) acc = ds.map unhashDigit ++ acc := by
  induction ds using snoc_induction generalizing fuel acc with
  | nil => cases fuel <;> simp [unhashAux, val]
  | snoc r d ih =>
    cases fuel with
    | zero => simp at hf
    | succ fuel =>
      have hd : d < 32 := hlt d (by simp)
      have hpos : val (r ++ [d]) ≠ 0 := by
        rw [val_snoc]
        cases r with
        | nil => have := hhead d [] rfl; simp [val]; omega
        | cons d0 rest =>
          have h1 := hhead d0 (rest ++ [d]) rfl
          have hge : 1 ≤ val (d0 :: rest) := by
            have h2 : ∀ (l : List Nat) (a : Nat), 1 ≤ a → 1 ≤ l.foldl (fun h d => h * 32 + d) a := by
              intro l
              induction l with
              | nil => intro a ha; exact ha
              | cons x xs ihx => intro a ha; exact ihx _ (by show 1 ≤ a * 32 + x; omega)
            simpa [val] using h2 rest (0 * 32 + d0) (by omega)
          omega
      simp only [unhashAux]
      have hbeq : (val (r ++ [d]) == 0) = false := by simpa using hpos
      rw [hbeq]
      simp only [Bool.false_eq_true, if_false]
      rw [val_snoc]
      have e1 : (val r * 32 + d) / 32 = val r := by omega
      have e2 : (val r * 32 + d) % 32 = d := by omega
      rw [e1, e2]
      rw [ih (fun x hx => hlt x (by simp [hx]))
        (fun d0 rest h => hhead d0 (rest ++ [d]) (by rw [h]; rfl)) fuel (by simp at hf; omega)]
      simp

/-- **unhash inverts the hash** on hashable names that start with a letter. -/
theorem unhash_ofBytes (c : UInt8) (rest : Bytes) (halpha : isAsciiAlpha c = true)
    (hne : NameHash.ofBytes (c :: rest) ≠ emptyHash) :
    unhash (NameHash.ofBytes (c :: rest)) = asciiLowerBytes (c :: rest) := by
  obtain ⟨ds, hds, hv, hguard⟩ := ofBytes_val (c :: rest) hne
  -- per-character facts
  have hall : ∀ (n : Bytes) (ds : List Nat), n.mapM digitOf = some ds →
      ds.map unhashDigit = asciiLowerBytes n ∧ (∀ d ∈ ds, d < 32) ∧ ds.length = n.length := by
    intro n
    induction n with
    | nil => intro ds h; simp at h; subst h; exact ⟨rfl, by simp, rfl⟩
    | cons x xs ih =>
      intro ds h
      rw [List.mapM_cons] at h
      cases hx : digitOf x with
      | none => simp [hx] at h
      | some d =>
        cases hxs : xs.mapM digitOf with
        | none => simp [hx, hxs] at h
        | some ds' =>
          simp [hx, hxs] at h
          subst h
          obtain ⟨a, b, c'⟩ := ih ds' hxs
          obtain ⟨f1, f2, _⟩ := digitOf_facts x d hx
          refine ⟨?_, ?_, ?_⟩
          · simp [asciiLowerBytes, f2]; exact a
          · intro y hy; simp at hy; rcases hy with rfl | hy; exact f1; exact b y hy
          · simp [c']
  obtain ⟨hmap, hlt, hlen⟩ := hall _ _ hds
  -- the first digit is a letter's
  have hhead6 : ∀ d0 r, ds = d0 :: r → 6 ≤ d0 := by
    intro d0 r h
    rw [List.mapM_cons] at hds
    cases hc : digitOf c with
    | none => simp [hc] at hds
    | some d =>
      cases hr : rest.mapM digitOf with
      | none => simp [hc, hr] at hds
      | some ds' =>
        simp [hc, hr] at hds
        rw [h] at hds
        simp only [List.cons.injEq] at hds
        rw [← hds.1]
        exact (digitOf_facts c d hc).2.2 halpha
  -- at most 13 digits
  have hlen13 : ds.length ≤ 13 := by
    cases hds' : ds with
    | nil => simp
    | cons d0 r =>
      have h6 := hhead6 d0 r hds'
      rcases List.eq_nil_or_concat r with hr | ⟨init, dl, hr⟩
      · subst hr; simp
      · have hg := hguard (d0 :: init) dl (by rw [hds', hr]; simp)
        have hlow := val_lower (d0 :: init) d0 init rfl h6
        have : init.length ≤ 11 := by
          by_cases hcon : init.length ≤ 11
          · exact hcon
          · exfalso
            have h12 : 12 ≤ init.length := by omega
            have : (32 : Nat) ^ 12 ≤ 32 ^ init.length := Nat.pow_le_pow_right (by decide) h12
            have e : (32 : Nat) ^ 12 = 2 ^ 60 := by decide
            have e2 : (2 : Nat) ^ 60 = 2 * 2 ^ 59 := by decide
            omega
        rw [hr]; simp; omega
  unfold unhash
  rw [hv, unhashAux_val ds hlt (fun d0 r h => by have := hhead6 d0 r h; omega) 13 hlen13 []]
  simp [hmap]

end LolHtml.Model.Full
