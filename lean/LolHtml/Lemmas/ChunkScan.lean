import LolHtml.Lemmas.ChunkLexAct
/-!
Tag scanner actions, and `act` / `cond` for either machine.
-/
namespace LolHtml.Model.Chunk
open LolHtml LolHtml.Model

variable {κ : Type}

section
variable {env : Env κ} {inpS inpW : Bytes} {δ : Nat} {K : Nat → κ → κ → Prop} {Loc : κ → Nat → Nat → TextType → Prop}

theorem ScanRel.weaken' {np : Nat} {ab ab' : Ab} {ss sw : ScanRegs} (h : ScanRel δ ab np ss sw)
    (hP : ab'.P = true → ab.P = true) (hSt : ab'.St = true → ab.St = true) (hSn : ab'.Sn = true → ab.Sn = true) :
    ScanRel δ ab' np ss sw :=
  ⟨h.ts, h.ts_le, fun g => h.p (hP g), fun g => h.st (hSt g), fun g => h.tns (hSn g), h.endTag, h.hash, h.pend⟩

theorem ScanRel.weaken {np : Nat} {ab ab' : Ab} {ss sw : ScanRegs} (h : ScanRel δ ab np ss sw)
    (hle : ab'.le ab = true) : ScanRel δ ab' np ss sw := by
  obtain ⟨hP, _, _, _, _, _, _, hSt, hSn⟩ := (Ab.le_iff ab' ab).mp hle
  exact h.weaken' hP hSt hSn

/-- the standing assumptions of an action step in scanner mode -/
structure ScanPre (δ : Nat) (K : Nat → κ → κ → Prop) (ab : Ab) (cs cw : Common) (ss sw : ScanRegs) (xs xw : Ctx κ) : Prop where
  c : CRel δ 0 cs cw
  s : ScanRel δ ab cs.nextPos ss sw
  seqS : ss.chSeqStart = none
  seqW : sw.chSeqStart = none
  sim : xw.sim = xs.sim
  pc : xs.prevConsumed = xw.prevConsumed + δ
  k : K 0 xs.sink xw.sink

theorem ScanPre.ret {ab ab' : Ab} {cs cw cs' cw' : Common} {ss sw ss' sw' : ScanRegs} {xs xw : Ctx κ}
    (h : ScanPre δ K ab cs cw ss sw xs xw) (must : Bool) (hc' : CRel δ 0 cs' cw') (hnp : cs'.nextPos = cs.nextPos)
    (hs' : ScanRel δ ab' cs.nextPos ss' sw') (h1 : ss'.chSeqStart = ss.chSeqStart) (h2 : sw'.chSeqStart = sw.chSeqStart) :
    ActSim δ K ab' must ((⟨cs', .scanner ss', xs⟩ : M κ), none) ((⟨cw', .scanner sw', xw⟩ : M κ), none) :=
  ActSim.ret ⟨hc', by
    show 0 = 0 ∧ ScanRel δ ab' cs'.nextPos ss' sw' ∧ SeqRel δ cs'.nextPos .none ss'.chSeqStart sw'.chSeqStart
    rw [hnp, h1, h2]; exact ⟨rfl, hs', h.seqS, h.seqW⟩, h.sim, h.pc⟩ h.k

theorem ScanPre.pos {ab : Ab} {cs cw : Common} {ss sw : ScanRegs} {xs xw : Ctx κ}
    (h : ScanPre δ K ab cs cw ss sw xs xw) (hP : ab.P = true) :
    cw.pos = cs.pos + δ ∧ cs.pos + 1 = cs.nextPos ∧ ∀ t, ss.tagStart = some t → t ≤ cs.pos := by
  obtain ⟨hp1, hp2⟩ := h.s.p hP
  have hnp := h.c.nextPos
  have hpos : cw.pos = cs.pos + δ := h.c.pos hp1
  refine ⟨hpos, by unfold Common.pos; omega, fun t ht => ?_⟩
  have := hp2 t ht
  unfold Common.pos; omega

theorem scanApplyFeedback_sim {cs cw : Common} {ss sw : ScanRegs} (hc : CRel δ 0 cs cw) (f : Feedback) :
    CRel δ 0 (scanApplyFeedback cs ss f).1 (scanApplyFeedback cw sw f).1 ∧
    (scanApplyFeedback cs ss f).1.nextPos = cs.nextPos ∧
    (scanApplyFeedback cw sw f).2.2 = (scanApplyFeedback cs ss f).2.2 ∧
    (∃ g : Option TextType → Option TextType,
      (scanApplyFeedback cs ss f).2.1 = { ss with pendingTextTypeChange := g ss.pendingTextTypeChange } ∧
      (scanApplyFeedback cw sw f).2.1 = { sw with pendingTextTypeChange := g sw.pendingTextTypeChange }) := by
  cases f with
  | switchTextType t => exact ⟨hc, rfl, rfl, fun _ => some t, rfl, rfl⟩
  | setAllowCdata b => exact ⟨{ hc with cdataAllowed := rfl }, rfl, rfl, id, rfl, rfl⟩
  | requestLexeme k => exact ⟨hc, rfl, rfl, id, rfl, rfl⟩
  | none => exact ⟨hc, rfl, rfl, id, rfl, rfl⟩

theorem localName_sh (F : Frame inpS inpW δ) {r : Range} {h : Nat} {n : LocalName}
    (hn : LocalName.new inpS r h = some n) : LocalName.new inpW (shR δ r) h = some n := by
  unfold LocalName.new at *
  split
  · rename_i he
    rw [if_pos he] at hn
    simp only [Option.map_eq_some_iff] at hn ⊢
    obtain ⟨b, hb, rfl⟩ := hn
    exact ⟨b, F.checkedSlice hb, rfl⟩
  · rename_i he
    rw [if_neg he] at hn
    exact hn

theorem scanEmitHint_sim (F : Frame inpS inpW δ) (hops : OpsSim env.ops inpS inpW δ K Loc) {ab' : Ab}
    {cs cw : Common} {ss sw : ScanRegs} {xs xw : Ctx κ} (tsS : Nat) (ie : Bool)
    (hc : CRel δ 0 cs cw) (h1 : 1 ≤ cs.nextPos) (hs : ScanRel δ ab' cs.nextPos ss sw)
    (htns : sw.tagNameStart = ss.tagNameStart + δ) (htsn : ss.tagStart = none)
    (hq1 : ss.chSeqStart = none) (hq2 : sw.chSeqStart = none)
    (hsim : xw.sim = xs.sim) (hpc : xs.prevConsumed = xw.prevConsumed + δ) (hK : K 0 xs.sink xw.sink) :
    ActSim δ K ab' true (scanEmitHint env inpS cs ss xs tsS ie) (scanEmitHint env inpW cw sw xw (tsS + δ) ie) := by
  have hpos : cw.pos = cs.pos + δ := hc.pos h1
  unfold scanEmitHint
  have hr : (⟨sw.tagNameStart, cw.pos⟩ : Range) = shR δ ⟨ss.tagNameStart, cs.pos⟩ := by
    simp only [shR, htns, hpos]
  rw [hr, hs.hash]
  cases hn : LocalName.new inpS ⟨ss.tagNameStart, cs.pos⟩ ss.tagNameHash with
  | none => exact Or.inl ⟨rfl, trivial⟩
  | some name =>
    rw [localName_sh F hn]
    simp only
    have hc' : CRel δ 0 (if ie = true then cs else { cs with lastStartTagNameHash := ss.tagNameHash })
        (if ie = true then cw else { cw with lastStartTagNameHash := ss.tagNameHash }) := by
      split
      · exact hc
      · exact { hc with lastStartTagNameHash := rfl }
    have hnp' : (if ie = true then cs else { cs with lastStartTagNameHash := ss.tagNameHash }).nextPos = cs.nextPos := by
      split <;> rfl
    have hres : OpRel (K 0) (if ie = true then env.ops.endTagHint name xs.sink else env.ops.startTagHint name xs.sim.currentNs xs.sink)
        (if ie = true then env.ops.endTagHint name xw.sink else env.ops.startTagHint name xw.sim.currentNs xw.sink) := by
      split
      · exact hops.endHint name _ _ hK
      · rw [hsim]; exact hops.startHint name _ _ _ hK
    rcases hres with hpan | ⟨hr2, hK'⟩
    · left
      refine ⟨rfl, ?_⟩
      revert hpan
      generalize (if ie = true then env.ops.endTagHint name xs.sink else env.ops.startTagHint name xs.sim.currentNs xs.sink).2 = r
      intro hpan
      match r, hpan with
      | .error (.panic _), _ => exact trivial
    · rw [hr2]
      generalize (if ie = true then env.ops.endTagHint name xs.sink else env.ops.startTagHint name xs.sim.currentNs xs.sink).2 = r at hK' ⊢
      match r, hK' with
      | .error e, _ => exact Or.inr ⟨rfl, (fun hh => by rcases hh with hh | hh <;> cases hh), fun _ _ hh => by cases hh⟩
      | .ok .scan, hK' =>
        refine Or.inr ⟨trivial, fun _ => ⟨⟨hc', ?_, hsim, hpc⟩, hK' ⟨_, rfl⟩⟩, fun _ _ hh => by cases hh⟩
        show 0 = 0 ∧ ScanRel δ ab' _ ss sw ∧ SeqRel δ _ .none ss.chSeqStart sw.chSeqStart
        rw [hnp']
        exact ⟨rfl, hs, hq1, hq2⟩
      | .ok .lex, hK' =>
        refine Or.inr ⟨⟨rfl, ?_⟩, (fun hh => by rcases hh with hh | hh <;> cases hh), fun _ _ _ => ⟨ab', ⟨hc', ?_, hsim, hpc⟩, hK' ⟨_, rfl⟩, htsn⟩⟩
        · refine ⟨hc'.cdataAllowed, hc'.lastTextType, hc'.lastStartTagNameHash, rfl, ?_⟩
          simp only [mkBookmark, scanTakeFeedbackDirective, hs.pend]
        · dsimp only
          rw [hnp']
          exact ⟨rfl, { hs with pend := rfl, hash := rfl }, hq1, hq2⟩

theorem scanFinishTagName_sim (F : Frame inpS inpW δ) (hops : OpsSim env.ops inpS inpW δ K Loc) {ab ab' : Ab}
    {cs cw : Common} {ss sw : ScanRegs} {xs xw : Ctx κ} (h : ScanPre δ K ab cs cw ss sw xs xw)
    (hP : ab.P = true) (hSn : ab.Sn = true) (hP' : ab'.P = true → ab.P = true) (hSt' : ab'.St = false)
    (hSn' : ab'.Sn = false) :
    ActSim δ K ab' true (scanFinishTagName env inpS cs ss xs) (scanFinishTagName env inpW cw sw xw) := by
  obtain ⟨p1, p2, p3⟩ := h.pos hP
  have hts := h.s.ts
  unfold scanFinishTagName
  cases htS : ss.tagStart with
  | none =>
    rw [optRel_none_l hts htS]
    exact Or.inr ⟨rfl, (fun hh => by rcases hh with hh | hh <;> cases hh), fun _ _ hh => by cases hh⟩
  | some ts =>
    obtain ⟨tw, htW, hrel⟩ := optRel_some_l hts htS
    rw [htW]
    subst hrel
    simp only
    have hfb : (if sw.isInEndTag = true then xw.sim.feedbackForEndTag env.cfg sw.tagNameHash
          else xw.sim.feedbackForStartTag env.cfg sw.tagNameHash) =
        (if ss.isInEndTag = true then xs.sim.feedbackForEndTag env.cfg ss.tagNameHash
          else xs.sim.feedbackForStartTag env.cfg ss.tagNameHash) := by
      rw [h.s.endTag, h.s.hash, h.sim]
    rw [hfb]
    generalize (if ss.isInEndTag = true then xs.sim.feedbackForEndTag env.cfg ss.tagNameHash
      else xs.sim.feedbackForStartTag env.cfg ss.tagNameHash) = fb
    match fb with
    | .error e => exact Or.inr ⟨rfl, (fun hh => by rcases hh with hh | hh <;> cases hh), fun _ _ hh => by cases hh⟩
    | .ok (sim', f) =>
      have hs' : ∀ g : Option TextType → Option TextType, ScanRel δ ab' cs.nextPos
          { ss with tagStart := none, pendingTextTypeChange := g ss.pendingTextTypeChange, isInEndTag := false }
          { sw with tagStart := none, pendingTextTypeChange := g sw.pendingTextTypeChange, isInEndTag := false } :=
        fun g => ⟨trivial, (fun t ht => by cases ht), fun g' => ⟨(h.s.p (hP' g')).1, fun t ht => by cases ht⟩,
          (fun g' => by rw [hSt'] at g'; cases g'), (fun g' => by rw [hSn'] at g'; cases g'), rfl, h.s.hash,
          (by show g _ = g _; rw [h.s.pend])⟩
      have hx : ({ xw with sim := sim' } : Ctx κ).sim = ({ xs with sim := sim' } : Ctx κ).sim := rfl
      have htns := (h.s.tns hSn).1
      rw [h.s.endTag]
      cases f with
      | switchTextType t =>
        simp only [scanApplyFeedback]
        exact scanEmitHint_sim (ab' := ab') (xs := { xs with sim := sim' }) (xw := { xw with sim := sim' }) F hops ts
          ss.isInEndTag h.c (by omega) (hs' (fun _ => some t)) htns rfl h.seqS h.seqW hx h.pc h.k
      | setAllowCdata b =>
        simp only [scanApplyFeedback]
        exact scanEmitHint_sim (ab' := ab') (xs := { xs with sim := sim' }) (xw := { xw with sim := sim' }) F hops ts
          ss.isInEndTag (cs := { cs with cdataAllowed := b }) (cw := { cw with cdataAllowed := b })
          { h.c with cdataAllowed := rfl } (by show 1 ≤ cs.nextPos; omega) (hs' id) htns rfl h.seqS h.seqW hx h.pc h.k
      | requestLexeme k =>
        simp only [scanApplyFeedback]
        refine Or.inr ⟨⟨rfl, ?_⟩, (fun hh => by rcases hh with hh | hh <;> cases hh), fun _ _ _ => ⟨ab', ⟨h.c, ?_, hx, h.pc⟩, h.k, rfl⟩⟩
        · exact ⟨h.c.cdataAllowed, h.c.lastTextType, h.c.lastStartTagNameHash, rfl, rfl⟩
        · exact ⟨rfl, hs' id, h.seqS, h.seqW⟩
      | none =>
        simp only [scanApplyFeedback]
        exact scanEmitHint_sim (ab' := ab') (xs := { xs with sim := sim' }) (xw := { xw with sim := sim' }) F hops ts
          ss.isInEndTag h.c (by omega) (hs' id) htns rfl h.seqS h.seqW hx h.pc h.k

/-- **All tag scanner actions.** -/
theorem scanAct_sim (F : Frame inpS inpW δ) (hops : OpsSim env.ops inpS inpW δ K Loc) (a : ActName)
    {ab ab' : Ab} (habs : absAct a ab = some ab') {cs cw : Common} {ss sw : ScanRegs} {xs xw : Ctx κ}
    (h : ScanPre δ K ab cs cw ss sw xs xw)
    (hin : readsInp a = true → (cs.nextPos ≤ inpS.length ∨ Closed inpS inpW δ)) :
    ActSim δ K ab' (qRequired a) (scanAct env a inpS cs ss xs) (scanAct env a inpW cw sw xw) := by
  cases a <;> simp only [absAct] at habs <;> simp only [scanAct]
  case createStartTag =>
    split at habs
    · rename_i hP
      simp only [Option.some.injEq] at habs; subst habs
      obtain ⟨p1, p2, p3⟩ := h.pos hP
      exact h.ret _ h.c rfl { h.s with tns := fun _ => ⟨p1, p3⟩, hash := rfl } rfl rfl
    · cases habs
  case createEndTag =>
    split at habs
    · rename_i hP
      simp only [Option.some.injEq] at habs; subst habs
      obtain ⟨p1, p2, p3⟩ := h.pos hP
      exact h.ret _ h.c rfl { h.s with tns := fun _ => ⟨p1, p3⟩, hash := rfl, endTag := rfl } rfl rfl
    · cases habs
  case markTagStart =>
    split at habs
    · rename_i hP
      simp only [Option.some.injEq] at habs; subst habs
      obtain ⟨p1, p2, p3⟩ := h.pos hP
      refine h.ret _ h.c rfl ⟨p1, fun t ht => ?_, fun _ => ⟨(h.s.p hP).1, fun t ht => ?_⟩, fun _ => rfl,
        (fun g => by cases g), h.s.endTag, h.s.hash, h.s.pend⟩ rfl rfl
      · simp only [Option.some.injEq] at ht; omega
      · simp only [Option.some.injEq] at ht; omega
    · cases habs
  case unmarkTagStart =>
    simp only [Option.some.injEq] at habs; subst habs
    exact h.ret _ h.c rfl ⟨trivial, (fun t ht => by cases ht), fun g => ⟨(h.s.p g).1, fun t ht => by cases ht⟩,
      (fun g => by cases g), (fun g => by cases g), h.s.endTag, h.s.hash, h.s.pend⟩ rfl rfl
  case updateTagNameHash =>
    split at habs
    · rename_i hP
      simp only [Option.some.injEq] at habs; subst habs
      obtain ⟨p1, p2, p3⟩ := h.pos hP
      have hget : inpW[cw.pos]? = inpS[cs.pos]? := by
        rw [p1]; apply F.get'
        rcases hin rfl with hin | hin
        · left; omega
        · right; exact hin
      rw [hget]
      split
      · exact h.ret _ h.c rfl { h.s with hash := by show NameHash.update _ _ = NameHash.update _ _; rw [h.s.hash] } rfl rfl
      · exact h.ret _ h.c rfl h.s rfl rfl
    · cases habs
  case finishTagName =>
    split at habs
    · rename_i hPS
      simp only [Bool.and_eq_true] at hPS
      simp only [Option.some.injEq] at habs; subst habs
      exact scanFinishTagName_sim F hops h hPS.1 hPS.2 id rfl rfl
    · cases habs
  case emitTag =>
    split at habs
    · simp only [Option.some.injEq] at habs; subst habs
      rw [h.s.pend]
      exact h.ret _ { h.c with lastTextType := rfl } rfl
        { h.s.weaken' (ab' := { ab.stale with P := false }) (fun g => by cases g) id id with pend := rfl } rfl rfl
    · cases habs
  case setClosingQuoteToDouble =>
    simp only [Option.some.injEq] at habs; subst habs
    exact h.ret _ { h.c with closingQuote := rfl } rfl h.s rfl rfl
  case setClosingQuoteToSingle =>
    simp only [Option.some.injEq] at habs; subst habs
    exact h.ret _ { h.c with closingQuote := rfl } rfl h.s rfl rfl
  case enterCdata =>
    simp only [Option.some.injEq] at habs; subst habs
    exact h.ret _ { h.c with lastTextType := rfl } rfl h.s rfl rfl
  case leaveCdata =>
    simp only [Option.some.injEq] at habs; subst habs
    exact h.ret _ { h.c with lastTextType := rfl } rfl h.s rfl rfl
  all_goals
    first
      | (simp only [Option.some.injEq] at habs; subst habs
         exact h.ret _ h.c rfl (h.s.weaken' (fun g => g) (fun g => g) (fun g => g)) rfl rfl)
      | (split at habs
         · simp only [Option.some.injEq] at habs; subst habs
           exact h.ret _ h.c rfl (h.s.weaken' (fun g => by first | exact g | cases g) (fun g => g) (fun g => g)) rfl rfl
         · cases habs)

end
end LolHtml.Model.Chunk
