import LolHtml.Lemmas.LinLex
import LolHtml.Lemmas.LinScan
import LolHtml.Lemmas.InvLinear
import LolHtml.Thm.C09_Bound
/-!
# Linear work: one run of the parsing loop, accounted against the bytes it actually passed

`run_account`: a run from cursor `n0` that ends at a state function entered with cursor `Nl` performs at
most `8·(Nl − n0) + 8` state-function invocations (`steps + 8·(len − Nl) ≤ mu + 1`), and

* a lexer run that hands over does so right after a `>` at a position `≥ Nl` (`EmitTagGt`);
* a scanner run that hands over leaves a `>`-free zone between its bookmark and `Nl`
  (the tag head `<`[`/`]name it has just walked: `HeadOk`, the invariant `HInv` of C09).
-/
namespace LolHtml.Model

variable {κ : Type}

theorem isLex_not_scanner (m : M κ) : m.r.isLex = !m.isScanner := by
  obtain ⟨c, r, x⟩ := m
  cases r <;> rfl

theorem shape_no_gt {ph : Phase} {w : Bytes} (h : shapeB ph w = true) : ∀ b ∈ w, b ≠ 62 := by
  intro b hb hb62
  subst hb62
  cases ph with
  | lt => simp [shapeB] at h; subst h; simp at hb
  | slash => simp [shapeB] at h; subst h; simp at hb
  | name =>
    simp only [shapeB, Bool.and_eq_true, Bool.or_eq_true, beq_iff_eq] at h
    obtain ⟨hhead, hrest⟩ := h
    cases w with
    | nil => cases hb
    | cons x xs =>
      simp only [List.head?_cons, Option.some.injEq] at hhead
      subst hhead
      simp only [List.mem_cons] at hb
      rcases hb with hb | hb
      · exact absurd hb (by decide)
      · simp only [List.drop_succ_cons, List.drop_zero] at hrest
        have hall : ∀ n : Bytes, nameOk n = true → ∀ y ∈ n, y ≠ 62 := by
          intro n hn y hy hy62
          subst hy62
          unfold nameOk at hn
          cases n with
          | nil => cases hy
          | cons z zs =>
            simp only [Bool.and_eq_true, List.all_eq_true] at hn
            have := hn.2 62 hy
            simp [isNameEnd] at this
        rcases hrest with h1 | ⟨h1, h2⟩
        · exact hall xs h1 62 hb rfl
        · cases xs with
          | nil => cases hb
          | cons y ys =>
            simp only [List.getElem?_cons_succ, List.getElem?_cons_zero, Option.some.injEq] at h1
            subst h1
            simp only [List.mem_cons] at hb
            rcases hb with hb | hb
            · exact absurd hb (by decide)
            · simp only [List.drop_succ_cons, List.drop_zero] at h2
              exact hall ys h2 62 hb rfl

/-- the bytes between `tag_start` and the cursor contain no `>` -/
theorem HInv.zone {t : Table} {L : Labels} {inp : Bytes} {m : M κ} (h : HInv t L inp m) {p : Nat}
    (hp : m.ts = some p) : ∀ j, p ≤ j → j < m.c.nextPos → inp[j]? ≠ some 62 := by
  obtain ⟨ph, w, _, hsh, hlen, hpre⟩ := h.head p hp
  intro j h1 h2 hj
  obtain ⟨tl, htl⟩ := hpre
  have hi : j - p < w.length := by omega
  have h3 : (inp.drop p)[j - p]? = inp[j]? := by
    rw [List.getElem?_drop]
    congr 1
    omega
  rw [← htl, List.getElem?_append_left hi] at h3
  rw [hj] at h3
  have hmem : (62 : UInt8) ∈ w := by
    rw [List.getElem?_eq_getElem hi] at h3
    simp only [Option.some.injEq] at h3
    rw [← h3]
    exact List.getElem_mem hi
  exact shape_no_gt hsh 62 hmem rfl

/-- what the end of a run tells about the `>` bytes around it -/
def RunEnd (inp : Bytes) (isLex : Bool) (Nl : Nat) : Signal → Prop
  | .directive _ bm =>
      if isLex then Nl + 1 ≤ bm.pos ∧ inp[bm.pos - 1]? = some 62
      else ∀ j, bm.pos ≤ j → j < Nl → inp[j]? ≠ some 62
  | _ => True

section
variable {env : Env κ} {inp : Bytes} {W : κ → Nat} {lo : Nat} {L : Labels}

theorem run_account (hs : SinkSafe env.ops W inp U1) (hw : Wf env.tbl) (hgt : EmitTagGt env.tbl = true)
    (hhead : HeadOk env.tbl L = true) (fuel : Nat) (m : M κ)
    (hm : MInvB env.tbl inp.length (W m.x.sink) lo m)
    (hh : m.isScanner = true → HInv env.tbl L inp m) (hfuel : mu env.tbl inp.length m < fuel) :
    ∃ Nl, m.c.nextPos ≤ Nl ∧ Nl ≤ inp.length ∧
      runLoopSteps env inp fuel m + 8 * (inp.length - Nl) ≤ mu env.tbl inp.length m + 1 ∧
      RunEnd inp m.r.isLex Nl (runLoop env inp fuel m).2 := by
  induction fuel generalizing m with
  | zero => omega
  | succ n ih =>
    have h1 := stateFn_post hs hw m hm
    have hk := stateFn_keep (env := env) (inp := inp) m
    unfold StepPost at h1
    simp only [runLoop, runLoopSteps]
    cases hsig : (stateFn env inp m).2 with
    | none =>
      rw [hsig] at h1
      obtain ⟨hB, hP⟩ := h1
      have hdec := mu_decrease hw hB.2.1 hP
      have hh' : (stateFn env inp m).1.isScanner = true → HInv env.tbl L inp (stateFn env inp m).1 := by
        intro hsc
        have hms : m.isScanner = true := by
          have := hk.2
          rw [isLex_not_scanner, isLex_not_scanner, hsc] at this
          simpa using this.symm
        have := scan_stateFn_post (env := env) (inp := inp) rfl hhead m (hh hms)
        unfold ScanStepPost at this
        rw [hsig] at this
        exact this.1
      obtain ⟨Nl, a1, a2, a3, a4⟩ := ih (stateFn env inp m).1 hB hh' (by omega)
      dsimp only
      refine ⟨Nl, ?_, a2, by omega, by rw [← hk.2]; exact a4⟩
      rcases hP with h | ⟨h, _⟩ <;> omega
    | some sig =>
      dsimp only
      refine ⟨m.c.nextPos, Nat.le_refl _, hm.2.1, by unfold mu; simp only [maxRank]; omega, ?_⟩
      cases sig with
      | err e => trivial
      | endOfInput k => trivial
      | directive d bm =>
        simp only [RunEnd]
        cases hl : m.r.isLex
        · -- scanner
          simp only [Bool.false_eq_true, if_false]
          have hms : m.isScanner = true := by
            rw [isLex_not_scanner] at hl
            simpa using hl
          rcases scan_directive_pos m hms d bm hsig with hp | hp
          · exact (hh hms).zone hp
          · intro j h1 h2; omega
        · simp only [if_true]
          obtain ⟨g1, g2⟩ := lex_directive_gt hw hgt m hl d bm hsig
          refine ⟨by omega, ?_⟩
          rw [g1, Nat.add_sub_cancel]
          exact g2

end
end LolHtml.Model
