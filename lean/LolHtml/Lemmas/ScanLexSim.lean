import LolHtml.Lemmas.ScanLexAct
import LolHtml.Lemmas.ScanBound
/-!
C06: the relational walk — one state-function call of a scanner machine and of a lexer machine from
related machines, over the same table and input, leads to related machines.
-/
set_option linter.unusedSimpArgs false
set_option linter.unusedVariables false

namespace LolHtml.Model

variable {tbl : Table} {cfg : TagCfg} {inp : Bytes}

theorem Rel_destruct {ab : Ab} {ms ml : M L} (h : Rel cfg ab ms ml) :
    ∃ cs s xs cl l xl, ms = ⟨cs, .scanner s, xs⟩ ∧ ml = ⟨cl, .lexer l, xl⟩ ∧ Conc cfg ab cs s xs cl l xl := by
  obtain ⟨cs, rs, xs⟩ := ms
  obtain ⟨cl, rl, xl⟩ := ml
  cases rs with
  | lexer _ => simp [Rel] at h
  | scanner s =>
    cases rl with
    | scanner _ => simp [Rel] at h
    | lexer l => exact ⟨cs, s, xs, cl, l, xl, rfl, rfl, h⟩

/-- the relation at the label of the current state -/
def RelAt (cfg : TagCfg) (P : PLabels) (ms ml : M L) : Prop := Rel cfg (P.at ms.c.state) ms ml

/-- outcome of one step on both sides: both continue related, or both stop; a signal on one side
only is never "end of input" -/
def StepRel (cfg : TagCfg) (P : PLabels) (rs rl : M L × Option Signal) : Prop :=
  match rs.2, rl.2 with
  | none, none => RelAt cfg P rs.1 rl.1
  | none, some sig => Signal.isEnd (some sig) = false
  | some sig, none => Signal.isEnd (some sig) = false
  | some _, some _ => True

/-! ### signals of the lexer's actions -/

section
variable {κ : Type} {env : Env κ}

theorem lexEmitNonTag_sig (c : Common) (l : LexRegs) (x : Ctx κ) (o : Option NonTagOutline) (e : Nat) :
    Signal.isEnd (lexEmitNonTag env inp c l x o e).2 = false ∧
    ∃ l' x', (lexEmitNonTag env inp c l x o e).1 = ⟨c, .lexer l', x'⟩ := by
  unfold lexEmitNonTag
  dsimp only
  split <;> exact ⟨rfl, _, _, rfl⟩

theorem lexEmitText_sig (c : Common) (l : LexRegs) (x : Ctx κ) :
    Signal.isEnd (lexEmitText env inp c l x).2 = false ∧
    ∃ l' x', (lexEmitText env inp c l x).1 = ⟨c, .lexer l', x'⟩ := by
  unfold lexEmitText
  split
  · exact lexEmitNonTag_sig _ _ _ _ _
  · exact ⟨rfl, _, _, rfl⟩

theorem andThen_eof_sig (r : M κ × Option Signal) (h1 : Signal.isEnd r.2 = false)
    (h2 : ∃ c l' x', r.1 = ⟨c, .lexer l', x'⟩) :
    Signal.isEnd (andThen r (lexEmitEof env inp)).2 = false := by
  unfold andThen
  split
  · rename_i s hs; rw [hs] at h1; exact h1
  · obtain ⟨c, l', x', hr⟩ := h2
    rw [hr]
    exact (lexEmitNonTag_sig _ _ _ _ _).1

theorem lexAct_sig (a : ActName) (c : Common) (l : LexRegs) (x : Ctx κ) :
    Signal.isEnd (lexAct env a inp c l x).2 = false := by
  cases a <;> simp only [lexAct]
  case emitText => exact (lexEmitText_sig _ _ _).1
  case emitTextAndEof =>
    obtain ⟨h1, l', x', h2⟩ := lexEmitText_sig (env := env) (inp := inp) c l x
    exact andThen_eof_sig _ h1 ⟨_, _, _, h2⟩
  case emitCurrentToken => exact (lexEmitNonTag_sig _ _ _ _ _).1
  case emitCurrentTokenAndEof =>
    obtain ⟨h1, l', x', h2⟩ := lexEmitNonTag_sig (env := env) (inp := inp) c { l with curNonTag := none } x l.curNonTag c.pos
    exact andThen_eof_sig _ h1 ⟨_, _, _, h2⟩
  case emitRawWithoutToken => exact (lexEmitNonTag_sig _ _ _ _ _).1
  case emitRawWithoutTokenAndEof =>
    obtain ⟨h1, l', x', h2⟩ := lexEmitNonTag_sig (env := env) (inp := inp) c l x none c.pos
    exact andThen_eof_sig _ h1 ⟨_, _, _, h2⟩
  case emitTag =>
    unfold lexEmitTag
    split
    · rfl
    · dsimp only
      split
      · rfl
      · split
        · rfl
        · unfold lexEmitTagLexeme
          dsimp only
          split <;> rfl
  all_goals (first | rfl | (split <;> rfl) | (split <;> (first | rfl | (split <;> rfl))))

end

/-! ### action lists -/

theorem act_rel_m (a : ActName) (ab ab' : Ab) (habs : phAct a ab = some ab') (ms ml : M L)
    (h : Rel cfg ab ms ml)
    (hsig : silentAct a = true ∨ ((act (envS tbl cfg) a inp ms).2 = none ∧ (act (envL tbl cfg) a inp ml).2 = none)) :
    Rel cfg ab' (act (envS tbl cfg) a inp ms).1 (act (envL tbl cfg) a inp ml).1 := by
  obtain ⟨cs, s, xs, cl, l, xl, rfl, rfl, hc⟩ := Rel_destruct h
  exact act_rel a ab ab' habs cs s xs cl l xl hc hsig

theorem act_sig_m (a : ActName) (ab : Ab) (ms ml : M L) (h : Rel cfg ab ms ml) :
    Signal.isEnd (act (envS tbl cfg) a inp ms).2 = false ∧ Signal.isEnd (act (envL tbl cfg) a inp ml).2 = false := by
  obtain ⟨cs, s, xs, cl, l, xl, rfl, rfl, hc⟩ := Rel_destruct h
  exact ⟨scanAct_sig _ _ _ _, lexAct_sig _ _ _ _⟩

/-! ### lexer machines: kind and signals, relation-free -/

def M.isLexer {κ : Type} (m : M κ) : Bool := match m.r with | .lexer _ => true | .scanner _ => false

theorem lexer_destruct {κ : Type} (m : M κ) (h : m.isLexer = true) : ∃ c l x, m = ⟨c, .lexer l, x⟩ := by
  obtain ⟨c, r, x⟩ := m
  cases r with
  | scanner s => simp [M.isLexer] at h
  | lexer l => exact ⟨c, l, x, rfl⟩

section
variable {κ : Type} {env : Env κ}

theorem andThen_eof_kind (r : M κ × Option Signal) (h2 : r.1.isLexer = true) :
    (andThen r (lexEmitEof env inp)).1.isLexer = true := by
  unfold andThen
  split
  · exact h2
  · obtain ⟨c, l', x', hr⟩ := lexer_destruct _ h2
    rw [hr]
    obtain ⟨_, l'', x'', h⟩ := lexEmitNonTag_sig (env := env) (inp := inp) c l' x' (some .eof) c.pos
    show (lexEmitNonTag env inp c l' x' (some .eof) c.pos).1.isLexer = true
    rw [h]; rfl

theorem lexAct_kind (a : ActName) (c : Common) (l : LexRegs) (x : Ctx κ) :
    (lexAct env a inp c l x).1.isLexer = true := by
  have hnt : ∀ c l x o e, (lexEmitNonTag env inp c l x o e).1.isLexer = true := by
    intro c l x o e
    obtain ⟨_, l', x', h⟩ := lexEmitNonTag_sig (env := env) (inp := inp) c l x o e
    rw [h]; rfl
  have htx : ∀ c l x, (lexEmitText env inp c l x).1.isLexer = true := by
    intro c l x
    obtain ⟨_, l', x', h⟩ := lexEmitText_sig (env := env) (inp := inp) c l x
    rw [h]; rfl
  cases a <;> simp only [lexAct]
  case emitText => exact htx _ _ _
  case emitTextAndEof => exact andThen_eof_kind _ (htx _ _ _)
  case emitCurrentToken => exact hnt _ _ _ _ _
  case emitCurrentTokenAndEof => exact andThen_eof_kind _ (hnt _ _ _ _ _)
  case emitRawWithoutToken => exact hnt _ _ _ _ _
  case emitRawWithoutTokenAndEof => exact andThen_eof_kind _ (hnt _ _ _ _ _)
  case emitTag =>
    unfold lexEmitTag
    split
    · rfl
    · dsimp only
      split
      · rfl
      · split
        · rfl
        · unfold lexEmitTagLexeme
          dsimp only
          split <;> rfl
  all_goals (first | rfl | (split <;> rfl) | (split <;> (first | rfl | (split <;> rfl))))

theorem act_lex (a : ActName) (m : M κ) (h : m.isLexer = true) :
    Signal.isEnd (act env a inp m).2 = false ∧ (act env a inp m).1.isLexer = true := by
  obtain ⟨c, l, x, rfl⟩ := lexer_destruct _ h
  exact ⟨lexAct_sig _ _ _ _, lexAct_kind _ _ _ _⟩

theorem runCalls_lex (calls : List Call) (m : M κ) (h : m.isLexer = true) :
    Signal.isEnd (runCalls env inp calls m).2 = false ∧ (runCalls env inp calls m).1.isLexer = true := by
  induction calls generalizing m with
  | nil => exact ⟨rfl, h⟩
  | cons cl rest ih =>
    obtain ⟨h1, h2⟩ := act_lex (env := env) (inp := inp) cl.act m h
    simp only [runCalls]
    split
    · split
      · rename_i s hs _
        rw [hs] at h1; exact ⟨h1, h2⟩
      · exact ih _ h2
    · exact ih _ h2

theorem runCalls_cons_q (cl : Call) (rest : List Call) (m : M κ) (hq : cl.q = true) :
    runCalls env inp (cl :: rest) m =
      (match (act env cl.act inp m).2 with
       | some s => ((act env cl.act inp m).1, some s)
       | none => runCalls env inp rest (act env cl.act inp m).1) := by
  simp only [runCalls]
  split <;> simp [hq, *]

theorem runCalls_cons_nq (cl : Call) (rest : List Call) (m : M κ) (hq : cl.q = false) :
    runCalls env inp (cl :: rest) m = runCalls env inp rest (act env cl.act inp m).1 := by
  simp only [runCalls]
  split <;> simp [hq]

end

theorem Rel_kinds {ab : Ab} {ms ml : M L} (h : Rel cfg ab ms ml) : ms.isScanner = true ∧ ml.isLexer = true := by
  obtain ⟨cs, s, xs, cl, l, xl, rfl, rfl, _⟩ := Rel_destruct h
  exact ⟨rfl, rfl⟩

theorem runCalls_rel (calls : List Call) (ab ab' : Ab) (habs : phCalls calls ab = some ab')
    (hq : callsOk calls = true) (ms ml : M L) (h : Rel cfg ab ms ml)
    (hs : (runCalls (envS tbl cfg) inp calls ms).2 = none) (hl : (runCalls (envL tbl cfg) inp calls ml).2 = none) :
    Rel cfg ab' (runCalls (envS tbl cfg) inp calls ms).1 (runCalls (envL tbl cfg) inp calls ml).1 := by
  induction calls generalizing ab ms ml with
  | nil =>
    simp only [phCalls, Option.some.injEq] at habs
    subst habs
    exact h
  | cons cl rest ih =>
    simp only [phCalls] at habs
    cases hab1 : phAct cl.act ab with
    | none => simp [hab1] at habs
    | some ab1 =>
      simp only [hab1] at habs
      simp only [callsOk, List.all_cons, Bool.and_eq_true, Bool.or_eq_true] at hq
      obtain ⟨hq1, hq2⟩ := hq
      cases hqq : cl.q with
      | true =>
        simp only [runCalls_cons_q _ _ _ hqq] at hs hl ⊢
        cases hrs : (act (envS tbl cfg) cl.act inp ms).2 with
        | some sig => simp [hrs] at hs
        | none =>
          cases hrl : (act (envL tbl cfg) cl.act inp ml).2 with
          | some sig => simp [hrl] at hl
          | none =>
            simp only [hrs, hrl] at hs hl ⊢
            have hrel := act_rel_m (tbl := tbl) (inp := inp) cl.act ab ab1 hab1 ms ml h (Or.inr ⟨hrs, hrl⟩)
            exact ih ab1 habs (by simpa [callsOk] using hq2) _ _ hrel hs hl
      | false =>
        simp only [runCalls_cons_nq _ _ _ hqq] at hs hl ⊢
        have hsil : silentAct cl.act = true := by
          rcases hq1 with h' | h'
          · rw [hqq] at h'; simp at h'
          · exact h'
        have hrel := act_rel_m (tbl := tbl) (inp := inp) cl.act ab ab1 hab1 ms ml h (Or.inl hsil)
        exact ih ab1 habs (by simpa [callsOk] using hq2) _ _ hrel hs hl


/-! ### transitions, action lists with transition, arm bodies -/

theorem Rel_le {ab tgt : Ab} {ms ml : M L} (hle : ab.le tgt = true) (h : Rel cfg ab ms ml) : Rel cfg tgt ms ml := by
  obtain ⟨cs, s, xs, cl, l, xl, rfl, rfl, hc⟩ := Rel_destruct h
  exact Conc_le hle hc

theorem Rel_common {ab : Ab} {ms ml : M L} (f : Common → Common) (hf : ∀ c g key, f (commit c g key) = commit (f c) g key)
    (h : Rel cfg ab ms ml) : Rel cfg ab { ms with c := f ms.c } { ml with c := f ml.c } := by
  obtain ⟨cs, s, xs, cl, l, xl, rfl, rfl, hc⟩ := Rel_destruct h
  exact Conc_common f hf hc

theorem Rel_fields {ab : Ab} {ms ml : M L} (h : Rel cfg ab ms ml) :
    ms.c.nextPos = ml.c.nextPos ∧ ms.c.isLast = ml.c.isLast ∧ ms.c.state = ml.c.state ∧ ms.c.entered = ml.c.entered ∧
    ms.c.closingQuote = ml.c.closingQuote ∧ ms.c.lastTextType = ml.c.lastTextType := by
  obtain ⟨cs, s, xs, cl, l, xl, rfl, rfl, hc⟩ := Rel_destruct h
  exact Conc_fields hc

theorem textState_mem (t : Table) (tt : TextType) : t.textState tt ∈ textStates t := by
  cases tt <;> simp [Table.textState, textStates]

section
variable {κ : Type} {env : Env κ}

theorem applyTrans_sig (t : Trans) (m : M κ) : Signal.isEnd (applyTrans env t m).2 = false ∧
    (applyTrans env t m).1.r = m.r := by
  cases t <;> simp only [applyTrans]
  · constructor <;> first | rfl | trivial
  · constructor <;> first | rfl | trivial
  · split <;> constructor <;> first | rfl | trivial

theorem runSeq_lex (q : ActSeq) (m : M κ) (h : m.isLexer = true) :
    Signal.isEnd (runSeq env inp q m).2.1 = false ∧ (runSeq env inp q m).1.isLexer = true := by
  obtain ⟨h1, h2⟩ := runCalls_lex (env := env) (inp := inp) q.calls m h
  unfold runSeq
  dsimp only
  split
  · rename_i sig hs
    rw [hs] at h1; exact ⟨h1, h2⟩
  · split
    · exact ⟨rfl, h2⟩
    · rename_i t _
      obtain ⟨a1, a2⟩ := applyTrans_sig (env := env) t (runCalls env inp q.calls m).1
      exact ⟨a1, by simp only [M.isLexer] at h2 ⊢; rw [a2]; exact h2⟩

theorem runBody_lex (b : Body) (m : M κ) (h : m.isLexer = true) :
    Signal.isEnd (runBody env inp b m).2.1 = false ∧ (runBody env inp b m).1.isLexer = true := by
  cases b with
  | seq q => exact runSeq_lex q m h
  | ite c t e =>
    simp only [runBody]
    split
    · exact ⟨rfl, h⟩
    · exact runSeq_lex t m h
    · exact runSeq_lex e m h

theorem runBody_scan (b : Body) (m : M κ) (h : m.isScanner = true) :
    Signal.isEnd (runBody env inp b m).2.1 = false ∧ (runBody env inp b m).1.isScanner = true := by
  obtain ⟨q, _, hrun⟩ := runBody_seq (env := env) (inp := inp) b m h
  rw [hrun]
  obtain ⟨s1, _, _, s4, _⟩ := runSeq_spec (env := env) (inp := inp) q m h
  exact ⟨s4, s1⟩

end

theorem runSeq_rel (P : PLabels) (q : ActSeq) (self : StateId) (hok : seqOkP tbl P self q = true) (ms ml : M L)
    (h : Rel cfg (P.at self) ms ml) (hst : ms.c.state = self)
    (hs : (runSeq (envS tbl cfg) inp q ms).2.1 = none) (hl : (runSeq (envL tbl cfg) inp q ml).2.1 = none) :
    RelAt cfg P (runSeq (envS tbl cfg) inp q ms).1 (runSeq (envL tbl cfg) inp q ml).1 ∧
    (runSeq (envS tbl cfg) inp q ms).2.2 = (runSeq (envL tbl cfg) inp q ml).2.2 := by
  simp only [seqOkP, Bool.and_eq_true] at hok
  obtain ⟨hq, hok⟩ := hok
  cases habs : phCalls q.calls (P.at self) with
  | none => simp [habs] at hok
  | some ab' =>
    simp only [habs] at hok
    have hframe := (runCalls_frame (env := envS tbl cfg) (inp := inp) q.calls ms (Rel_kinds h).1).1
    unfold runSeq at hs hl ⊢
    dsimp only at hs hl ⊢
    cases hrs : (runCalls (envS tbl cfg) inp q.calls ms).2 with
    | some sig => simp [hrs] at hs
    | none =>
      cases hrl : (runCalls (envL tbl cfg) inp q.calls ml).2 with
      | some sig => simp [hrl] at hl
      | none =>
        have hrel := runCalls_rel (tbl := tbl) (inp := inp) q.calls _ ab' habs hq ms ml h hrs hrl
        simp only [hrs, hrl] at hs hl ⊢
        cases htr : q.trans with
        | none =>
          simp only [htr, transOk] at hok ⊢
          refine ⟨?_, by first | rfl | trivial⟩
          unfold RelAt
          rw [hframe.state, hst]
          exact Rel_le hok hrel
        | some t =>
          simp only [htr] at hs hl hok ⊢
          cases t with
          | goto j =>
            simp only [applyTrans, transOk] at hok ⊢
            refine ⟨?_, by first | rfl | trivial⟩
            unfold RelAt
            exact Rel_le hok (Rel_common (fun c => { c with state := j, entered := false }) (fun _ _ _ => rfl) hrel)
          | gotoDyn =>
            simp only [applyTrans, transOk, List.all_eq_true] at hok ⊢
            refine ⟨?_, by first | rfl | trivial⟩
            unfold RelAt
            have hlt := (Rel_fields hrel).2.2.2.2.2
            have := Rel_common (fun c => { c with state := tbl.textState c.lastTextType, entered := false })
              (fun _ _ _ => rfl) hrel
            simp only [envS, envL] at this ⊢
            exact Rel_le (hok _ (textState_mem _ _)) this
          | reconsume j =>
            simp only [applyTrans, transOk] at hs hl hok ⊢
            have hnp := (Rel_fields hrel).1
            split at hs
            · simp at hs
            · rename_i hne
              have hne' : ¬ (runCalls (envL tbl cfg) inp q.calls ml).1.c.nextPos = 0 := by rw [← hnp]; exact hne
              simp only [hne, hne', if_false]
              refine ⟨?_, by first | rfl | trivial⟩
              unfold RelAt
              exact Rel_le hok (Rel_common (fun c => { c with nextPos := c.nextPos - 1, state := j, entered := false })
                (fun _ _ _ => rfl) hrel)

/-- conditions agree outside a tag (or the lexer's assertion fires) -/
theorem cond_rel (cnd : Cond) (ab : Ab) (hab : ab = .outClean ∨ ab = .outEnd) (ms ml : M L) (h : Rel cfg ab ms ml) :
    cond cnd ml = none ∨ cond cnd ml = cond cnd ms := by
  obtain ⟨cs, s, xs, cl, l, xl, rfl, rfl, hc⟩ := Rel_destruct h
  have hra := Conc_out hc hab
  cases cnd with
  | cdataAllowed => right; simp [cond, hra.c_eq]
  | isAppropriateEndTag =>
    simp only [cond]
    cases hct : l.curTag with
    | none => left; rfl
    | some t =>
      cases t with
      | startTag => left; rfl
      | endTag n hh =>
        right
        have := hra.tag
        simp only [TagCorr, hct, Option.map_some, tagKey, Prod.mk.injEq] at this
        rw [hra.c_eq, this.2]
        simp [Bool.beq_comm]

theorem runBody_rel (P : PLabels) (b : Body) (self : StateId) (hok : bodyOkP tbl P self b = true) (ms ml : M L)
    (h : Rel cfg (P.at self) ms ml) (hst : ms.c.state = self)
    (hs : (runBody (envS tbl cfg) inp b ms).2.1 = none) (hl : (runBody (envL tbl cfg) inp b ml).2.1 = none) :
    RelAt cfg P (runBody (envS tbl cfg) inp b ms).1 (runBody (envL tbl cfg) inp b ml).1 ∧
    (runBody (envS tbl cfg) inp b ms).2.2 = (runBody (envL tbl cfg) inp b ml).2.2 := by
  cases b with
  | seq q => exact runSeq_rel P q self hok ms ml h hst hs hl
  | ite cnd t e =>
    simp only [bodyOkP, Bool.and_eq_true, Bool.or_eq_true, beq_iff_eq] at hok
    obtain ⟨⟨hab, hokt⟩, hoke⟩ := hok
    obtain ⟨bv, hbv⟩ := cond_scanner cnd ms (Rel_kinds h).1
    rcases cond_rel cnd _ hab ms ml h with hc | hc
    · simp [runBody, hc] at hl
    · rw [hbv] at hc
      simp only [runBody, hbv, hc] at hs hl ⊢
      cases bv with
      | true => exact runSeq_rel P t self hokt ms ml h hst hs hl
      | false => exact runSeq_rel P e self hoke ms ml h hst hs hl


/-! ### sequence arms, dispatch, state function -/

theorem StepRel.mk {P : PLabels} {rs rl : M L × Option Signal} (h1 : Signal.isEnd rs.2 = false)
    (h2 : Signal.isEnd rl.2 = false) (h3 : rs.2 = none → rl.2 = none → RelAt cfg P rs.1 rl.1) :
    StepRel cfg P rs rl := by
  unfold StepRel
  split
  · rename_i a b; exact h3 a b
  · rename_i a b; rw [b] at h2; exact h2
  · rename_i a b; rw [a] at h1; exact h1
  · trivial

theorem StepRel.both_some {P : PLabels} {rs rl : M L × Option Signal} (h1 : rs.2 ≠ none) (h2 : rl.2 ≠ none) :
    StepRel cfg P rs rl := by
  unfold StepRel
  split
  · rename_i a b; exact absurd a h1
  · rename_i a b; exact absurd a h1
  · rename_i a b; exact absurd b h2
  · trivial

theorem break_some {κ : Type} (m : M κ) : (breakOnEndOfInput inp m).2 ≠ none := by
  unfold breakOnEndOfInput
  dsimp only
  generalize (if m.c.isLast = true then m else adjustForNextInput m) = m'
  split <;> simp

theorem Rel_seqMark {ab : Ab} {ms ml : M L} (h : Rel cfg ab ms ml) :
    Rel cfg ab (enterSeq ms) (enterSeq ml) ∧ Rel cfg ab (leaveSeq ms) (leaveSeq ml) := by
  obtain ⟨cs, s, xs, cl, l, xl, rfl, rfl, hc⟩ := Rel_destruct h
  exact ⟨Conc_congr_scan hc rfl rfl rfl, Conc_congr_scan hc rfl rfl rfl⟩

theorem seqMark_c {κ : Type} (m : M κ) : (enterSeq m).c = m.c ∧ (leaveSeq m).c = m.c := by
  constructor
  · unfold enterSeq; split <;> rfl
  · unfold leaveSeq; split <;> rfl

theorem patMatches_congr {t : Table} {c c' : Common} (ch : Option UInt8) (p : Pat) (h1 : c.closingQuote = c'.closingQuote)
    (h2 : c.isLast = c'.isLast) : patMatches t c ch p = patMatches t c' ch p := by
  cases p <;> simp [patMatches, h1, h2]

theorem findArm_congr {t : Table} {c c' : Common} (ch : Option UInt8) (arms : List Arm) (h1 : c.closingQuote = c'.closingQuote)
    (h2 : c.isLast = c'.isLast) : findArm t c ch arms = findArm t c' ch arms := by
  induction arms with
  | nil => rfl
  | cons a rest ih => simp only [findArm]; rw [patMatches_congr ch a.pat h1 h2, ih]

/-- what `dispatch` does after the sequence arms -/
def finishArm {κ : Type} (inp : Bytes) (r : M κ × Option Signal × SeqEnd) : StepRes κ :=
  match r.2.1, r.2.2 with
  | some sig, _ => (r.1, some sig)
  | none, .transitioned => (r.1, none)
  | none, .fell => breakOnEndOfInput inp r.1

def afterSeq {κ : Type} (env : Env κ) (inp : Bytes) (ch : Option UInt8) (arms : List Arm) (m : M κ) : StepRes κ :=
  match findArm env.tbl m.c ch arms with
  | none => (m, some (.err (.panic "non-exhaustive match in state body")))
  | some arm =>
    match arm.pat with
    | .eoc => finishArm inp (runBody env inp arm.body m)
    | .eof => if m.c.isLast then finishArm inp (runBody env inp arm.body m) else breakOnEndOfInput inp m
    | _ => ((runBody env inp arm.body m).1, (runBody env inp arm.body m).2.1)

theorem dispatch_eq {κ : Type} (env : Env κ) (ch : Option UInt8) (arms : List Arm) (m : M κ) :
    dispatch env inp ch arms m =
      (match runSeqArms env inp ch arms m with
       | .inl r => r
       | .inr m => afterSeq env inp ch arms m) := by
  unfold dispatch afterSeq finishArm
  rfl

theorem bodyStep_rel (P : PLabels) (b : Body) (self : StateId) (hok : bodyOkP tbl P self b = true) (ms ml : M L)
    (h : Rel cfg (P.at self) ms ml) (hst : ms.c.state = self) :
    StepRel cfg P ((runBody (envS tbl cfg) inp b ms).1, (runBody (envS tbl cfg) inp b ms).2.1)
      ((runBody (envL tbl cfg) inp b ml).1, (runBody (envL tbl cfg) inp b ml).2.1) := by
  apply StepRel.mk
  · exact (runBody_scan b ms (Rel_kinds h).1).1
  · exact (runBody_lex b ml (Rel_kinds h).2).1
  · intro hs hl
    exact (runBody_rel P b self hok ms ml h hst hs hl).1

theorem finishArm_rel (P : PLabels) (b : Body) (self : StateId) (hok : bodyOkP tbl P self b = true) (ms ml : M L)
    (h : Rel cfg (P.at self) ms ml) (hst : ms.c.state = self) :
    StepRel cfg P (finishArm inp (runBody (envS tbl cfg) inp b ms)) (finishArm inp (runBody (envL tbl cfg) inp b ml)) := by
  have hS := (runBody_scan (env := envS tbl cfg) (inp := inp) b ms (Rel_kinds h).1).1
  have hL := (runBody_lex (env := envL tbl cfg) (inp := inp) b ml (Rel_kinds h).2).1
  unfold finishArm
  cases hs : (runBody (envS tbl cfg) inp b ms).2.1 with
  | some sigS =>
    cases hl : (runBody (envL tbl cfg) inp b ml).2.1 with
    | some sigL => exact StepRel.both_some (by simp) (by simp)
    | none =>
      cases (runBody (envL tbl cfg) inp b ml).2.2 with
      | transitioned =>
        apply StepRel.mk
        · rw [hs] at hS; exact hS
        · rfl
        · intro h1; simp at h1
      | fell => exact StepRel.both_some (by simp) (break_some _)
  | none =>
    cases hl : (runBody (envL tbl cfg) inp b ml).2.1 with
    | some sigL =>
      cases (runBody (envS tbl cfg) inp b ms).2.2 with
      | transitioned =>
        apply StepRel.mk
        · rfl
        · rw [hl] at hL; exact hL
        · intro _ h2; simp at h2
      | fell => exact StepRel.both_some (break_some _) (by simp)
    | none =>
      obtain ⟨hrel, hend⟩ := runBody_rel P b self hok ms ml h hst hs hl
      rw [← hend]
      cases (runBody (envS tbl cfg) inp b ms).2.2 with
      | transitioned => exact StepRel.mk rfl rfl (fun _ _ => hrel)
      | fell => exact StepRel.both_some (break_some _) (break_some _)

theorem afterSeq_rel (P : PLabels) (self : StateId) (ch : Option UInt8) (arms : List Arm)
    (hsub : ∀ a ∈ arms, bodyOkP tbl P self a.body = true) (ms ml : M L)
    (h : Rel cfg (P.at self) ms ml) (hst : ms.c.state = self) :
    StepRel cfg P (afterSeq (envS tbl cfg) inp ch arms ms) (afterSeq (envL tbl cfg) inp ch arms ml) := by
  obtain ⟨f1, f2, f3, f4, f5, f6⟩ := Rel_fields h
  unfold afterSeq
  have hfa : findArm (envS tbl cfg).tbl ms.c ch arms = findArm (envL tbl cfg).tbl ml.c ch arms :=
    findArm_congr ch arms f5 f2
  rw [hfa]
  cases hf : findArm (envL tbl cfg).tbl ml.c ch arms with
  | none => exact StepRel.both_some (by simp) (by simp)
  | some arm =>
    have harm := hsub arm (findArm_sel hf).1
    dsimp only
    split
    · exact finishArm_rel P arm.body self harm ms ml h hst
    · rw [f2]
      split
      · exact finishArm_rel P arm.body self harm ms ml h hst
      · exact StepRel.both_some (break_some _) (break_some _)
    · exact bodyStep_rel P arm.body self harm ms ml h hst

theorem firstMatch_congr {κ : Type} (m m' : M κ) (ch : Option UInt8) (e0 : UInt8) (es : List UInt8) (ic : Bool)
    (h1 : m.c.isLast = m'.c.isLast) (h2 : m.c.nextPos = m'.c.nextPos) :
    firstMatch inp m ch e0 es ic = firstMatch inp m' ch e0 es ic := by
  unfold firstMatch; rw [h1, h2]

theorem runSeqArms_rel (P : PLabels) (self : StateId) (ch : Option UInt8) (arms : List Arm)
    (hsub : ∀ a ∈ arms, bodyOkP tbl P self a.body = true) (ms ml : M L)
    (h : Rel cfg (P.at self) ms ml) (hst : ms.c.state = self) :
    match runSeqArms (envS tbl cfg) inp ch arms ms, runSeqArms (envL tbl cfg) inp ch arms ml with
    | .inr ms', .inr ml' => Rel cfg (P.at self) ms' ml' ∧ ms'.c.state = self
    | .inl rs, .inl rl => StepRel cfg P rs rl
    | _, _ => False := by
  induction arms generalizing ms ml with
  | nil => simp only [runSeqArms]; exact ⟨h, hst⟩
  | cons arm rest ih =>
    have hrest : ∀ a ∈ rest, bodyOkP tbl P self a.body = true := fun a ha => hsub a (by simp [ha])
    have harm := hsub arm (by simp)
    by_cases hseq : ∃ bytes ic, arm.pat = .chSeq bytes ic
    · obtain ⟨bytes, ic, hpat⟩ := hseq
      have hskip := ih hrest (leaveSeq (enterSeq ms)) (leaveSeq (enterSeq ml))
        (Rel_seqMark (Rel_seqMark h).1).2 (by rw [(seqMark_c _).2, (seqMark_c _).1]; exact hst)
      cases bytes with
      | nil =>
        rw [runSeqArms_cons_nil ch arm rest ms ic hpat, runSeqArms_cons_nil ch arm rest ml ic hpat]
        exact hskip
      | cons e0 es =>
        rw [runSeqArms_cons_cons ch arm rest ms ic e0 es hpat, runSeqArms_cons_cons ch arm rest ml ic e0 es hpat]
        obtain ⟨f1, f2, _⟩ := Rel_fields (Rel_seqMark h).1
        rw [firstMatch_congr (inp := inp) (enterSeq ms) (enterSeq ml) ch e0 es ic f2 f1]
        cases firstMatch inp (enterSeq ml) ch e0 es ic with
        | needMore => exact StepRel.both_some (break_some _) (break_some _)
        | mismatch => exact hskip
        | matched =>
          dsimp only
          have hrel2 := (Rel_seqMark (Rel_common (fun c => { c with nextPos := c.nextPos + es.length })
            (fun _ _ _ => rfl) (Rel_seqMark h).1)).2
          apply bodyStep_rel P arm.body self harm _ _ hrel2
          rw [(seqMark_c _).2]
          show (enterSeq ms).c.state = self
          rw [(seqMark_c _).1]; exact hst
    · have hnp : ∀ b ic, arm.pat ≠ .chSeq b ic := fun b ic hp => hseq ⟨b, ic, hp⟩
      rw [runSeqArms_cons_other ch arm rest ms hnp, runSeqArms_cons_other ch arm rest ml hnp]
      exact ih hrest ms ml h hst

theorem dispatch_rel (P : PLabels) (self : StateId) (ch : Option UInt8) (arms : List Arm)
    (hsub : ∀ a ∈ arms, bodyOkP tbl P self a.body = true) (ms ml : M L)
    (h : Rel cfg (P.at self) ms ml) (hst : ms.c.state = self) :
    StepRel cfg P (dispatch (envS tbl cfg) inp ch arms ms) (dispatch (envL tbl cfg) inp ch arms ml) := by
  rw [dispatch_eq, dispatch_eq]
  have := runSeqArms_rel (tbl := tbl) (cfg := cfg) (inp := inp) P self ch arms hsub ms ml h hst
  cases hs : runSeqArms (envS tbl cfg) inp ch arms ms with
  | inl rs =>
    cases hl : runSeqArms (envL tbl cfg) inp ch arms ml with
    | inl rl => rw [hs, hl] at this; exact this
    | inr ml' => rw [hs, hl] at this; exact this.elim
  | inr ms' =>
    cases hl : runSeqArms (envL tbl cfg) inp ch arms ml with
    | inl rl => rw [hs, hl] at this; exact this.elim
    | inr ml' =>
      rw [hs, hl] at this
      exact afterSeq_rel P self ch arms hsub ms' ml' this.1 this.2


/-- the enter-action prelude of `stateFn` -/
def preStep {κ : Type} (env : Env κ) (inp : Bytes) (sd : StateDef) (m : M κ) : StepRes κ :=
  if !sd.enter.isEmpty && !m.c.entered then
    let m1 := { m with c := { m.c with nextPos := m.c.nextPos + 1 } }
    let r := runCalls env inp sd.enter m1
    match r.2 with
    | some sig => (r.1, some sig)
    | none =>
      let m2 := r.1
      ({ m2 with c := { m2.c with nextPos := m2.c.nextPos - 1, entered := true } }, none)
  else (m, none)

/-- byte consumption + `dispatch` -/
def consumeStep {κ : Type} (env : Env κ) (inp : Bytes) (sd : StateDef) (m : M κ) : StepRes κ :=
  match sd.memchr with
  | some needle =>
    let rest := inp.drop m.c.nextPos
    match findByte needle rest with
    | some p =>
      dispatch env inp (some needle) sd.arms { m with c := { m.c with nextPos := m.c.nextPos + 1 + p } }
    | none =>
      dispatch env inp none sd.arms { m with c := { m.c with nextPos := m.c.nextPos + 1 + rest.length } }
  | none =>
    let ch := inp[m.c.nextPos]?
    dispatch env inp ch sd.arms { m with c := { m.c with nextPos := m.c.nextPos + 1 } }

theorem stateFn_preConsume {κ : Type} (env : Env κ) (m : M κ) :
    stateFn env inp m =
      (match env.tbl.state? m.c.state with
       | none => (m, some (.err (.panic "unknown state")))
       | some sd =>
         match (preStep env inp sd m).2 with
         | some sig => ((preStep env inp sd m).1, some sig)
         | none => consumeStep env inp sd (preStep env inp sd m).1) := by
  unfold stateFn preStep consumeStep
  rfl

theorem allIdxP_get {p : StateId → StateDef → Bool} {l : List StateDef} {k j : Nat} {sd : StateDef}
    (h : allIdxP p l k = true) (hj : l[j]? = some sd) : p (k + j) sd = true := by
  induction l generalizing k j with
  | nil => simp at hj
  | cons x xs ih =>
    simp only [allIdxP, Bool.and_eq_true] at h
    cases j with
    | zero => simp at hj; subst hj; simpa using h.1
    | succ j =>
      simp only [List.getElem?_cons_succ] at hj
      have := ih h.2 hj
      simpa [Nat.add_assoc, Nat.add_comm 1 j] using this

theorem preStep_rel (P : PLabels) (sd : StateDef) (self : StateId) (hok : stateOkP tbl P self sd = true) (ms ml : M L)
    (h : Rel cfg (P.at self) ms ml) (hst : ms.c.state = self) :
    Signal.isEnd (preStep (envS tbl cfg) inp sd ms).2 = false ∧
    Signal.isEnd (preStep (envL tbl cfg) inp sd ml).2 = false ∧
    ((preStep (envS tbl cfg) inp sd ms).2 = none → (preStep (envL tbl cfg) inp sd ml).2 = none →
      Rel cfg (P.at self) (preStep (envS tbl cfg) inp sd ms).1 (preStep (envL tbl cfg) inp sd ml).1 ∧
      (preStep (envS tbl cfg) inp sd ms).1.c.state = self) := by
  simp only [stateOkP, Bool.and_eq_true, beq_iff_eq] at hok
  obtain ⟨⟨⟨_, hq⟩, habs⟩, _⟩ := hok
  obtain ⟨f1, f2, f3, f4, f5, f6⟩ := Rel_fields h
  unfold preStep
  rw [f4]
  split
  · have hrel1 := Rel_common (fun c => { c with nextPos := c.nextPos + 1 }) (fun _ _ _ => rfl) h
    have hk := Rel_kinds hrel1
    have hsS := runCalls_sig (env := envS tbl cfg) (inp := inp) sd.enter _ hk.1
    have hfr := (runCalls_frame (env := envS tbl cfg) (inp := inp) sd.enter _ hk.1).1
    have hsL := (runCalls_lex (env := envL tbl cfg) (inp := inp) sd.enter _ hk.2).1
    dsimp only
    cases hrs : (runCalls (envS tbl cfg) inp sd.enter { ms with c := { ms.c with nextPos := ms.c.nextPos + 1 } }).2 with
    | some sig =>
      rw [hrs] at hsS
      refine ⟨hsS, ?_, fun hn => by simp at hn⟩
      cases hrl : (runCalls (envL tbl cfg) inp sd.enter { ml with c := { ml.c with nextPos := ml.c.nextPos + 1 } }).2 with
      | some sig' => rw [hrl] at hsL; exact hsL
      | none => rfl
    | none =>
      cases hrl : (runCalls (envL tbl cfg) inp sd.enter { ml with c := { ml.c with nextPos := ml.c.nextPos + 1 } }).2 with
      | some sig' =>
        rw [hrl] at hsL
        exact ⟨rfl, hsL, fun _ hn => by simp at hn⟩
      | none =>
        refine ⟨rfl, rfl, fun _ _ => ⟨?_, ?_⟩⟩
        · have hrel2 := runCalls_rel (tbl := tbl) (inp := inp) sd.enter _ _ habs hq _ _ hrel1 hrs hrl
          exact Rel_common (fun c => { c with nextPos := c.nextPos - 1, entered := true }) (fun _ _ _ => rfl) hrel2
        · simp only
          rw [hfr.state]; exact hst
  · exact ⟨rfl, rfl, fun _ _ => ⟨h, hst⟩⟩

theorem consumeStep_rel (P : PLabels) (sd : StateDef) (self : StateId) (hok : stateOkP tbl P self sd = true) (ms ml : M L)
    (h : Rel cfg (P.at self) ms ml) (hst : ms.c.state = self) :
    StepRel cfg P (consumeStep (envS tbl cfg) inp sd ms) (consumeStep (envL tbl cfg) inp sd ml) := by
  simp only [stateOkP, Bool.and_eq_true, List.all_eq_true] at hok
  have hsub : ∀ a ∈ sd.arms, bodyOkP tbl P self a.body = true := hok.2
  obtain ⟨f1, _⟩ := Rel_fields h
  unfold consumeStep
  rw [f1]
  have key : ∀ k : Nat, Rel cfg (P.at self) { ms with c := { ms.c with nextPos := ml.c.nextPos + k } }
      { ml with c := { ml.c with nextPos := ml.c.nextPos + k } } := by
    intro k
    have := Rel_common (fun c => { c with nextPos := c.nextPos + k }) (fun _ _ _ => rfl) h
    rw [f1] at this
    exact this
  split
  · dsimp only
    split
    · rename_i p _
      have := key (1 + p)
      simp only [← Nat.add_assoc] at this
      exact dispatch_rel P self _ sd.arms hsub _ _ this hst
    · have := key (1 + (inp.drop ml.c.nextPos).length)
      simp only [← Nat.add_assoc] at this
      exact dispatch_rel P self _ sd.arms hsub _ _ this hst
  · exact dispatch_rel P self _ sd.arms hsub _ _ (key 1) hst

/-- **One state-function call on both machines.** -/
theorem stateFn_rel (P : PLabels) (hok : PhaseOk tbl P = true) (ms ml : M L) (h : RelAt cfg P ms ml) :
    StepRel cfg P (stateFn (envS tbl cfg) inp ms) (stateFn (envL tbl cfg) inp ml) := by
  unfold RelAt at h
  obtain ⟨_, _, f3, _⟩ := Rel_fields h
  rw [stateFn_preConsume, stateFn_preConsume]
  show StepRel cfg P (match tbl.state? ms.c.state with | none => _ | some sd => _)
    (match tbl.state? ml.c.state with | none => _ | some sd => _)
  rw [← f3]
  cases hsd : tbl.state? ms.c.state with
  | none => exact StepRel.both_some (by simp) (by simp)
  | some sd =>
    have hst : stateOkP tbl P ms.c.state sd = true := by
      have := allIdxP_get (k := 0) hok hsd
      simpa using this
    obtain ⟨p1, p2, p3⟩ := preStep_rel (tbl := tbl) (cfg := cfg) (inp := inp) P sd ms.c.state hst ms ml h rfl
    dsimp only
    cases hps : (preStep (envS tbl cfg) inp sd ms).2 with
    | some sig =>
      cases hpl : (preStep (envL tbl cfg) inp sd ml).2 with
      | some sig' => exact StepRel.both_some (by simp) (by simp)
      | none =>
        -- the lexer goes on: whatever it does, the scanner's signal is not "end of input"
        dsimp only
        unfold StepRel
        rw [hps] at p1
        split
        · rename_i a _; simp at a
        · rename_i a _; simp at a
        · rename_i a _; simp only [Option.some.injEq] at a; rw [← a]; exact p1
        · trivial
    | none =>
      cases hpl : (preStep (envL tbl cfg) inp sd ml).2 with
      | some sig' =>
        dsimp only
        unfold StepRel
        rw [hpl] at p2
        split
        · rename_i _ b; simp at b
        · rename_i _ b; simp only [Option.some.injEq] at b; rw [← b]; exact p2
        · rename_i _ b; simp at b
        · trivial
      | none =>
        obtain ⟨hrel, hstate⟩ := p3 hps hpl
        dsimp only
        exact consumeStep_rel P sd ms.c.state hst _ _ hrel hstate

end LolHtml.Model
