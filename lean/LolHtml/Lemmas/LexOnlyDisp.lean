import LolHtml.Lemmas.LexOnly
/-!
# Pure lexer mode at the dispatcher, parser and stream level

`Sticky f`: one of the *persistent* capture flags (text, comments, doctypes) is set. `NEXT_START_TAG` /
`NEXT_END_TAG` are cleared by `to_token` as soon as the tag is produced, so "non-empty" flags are not
enough to keep the parser in lexer mode; sticky ones are. A controller whose every answer is sticky
(`AlwaysLex`) never sends the parser to the tag scanner, hence (by `Lemmas/LexOnly.lean`) no `U2` site
is reachable.
-/
namespace LolHtml.Model

open LolHtml.Lemmas.Sim (Inv inv_new)

variable {γ : Type}

def Flags.Sticky (f : Flags) : Bool := f.text || f.comments || f.doctypes

theorem Flags.Sticky.notEmpty {f : Flags} (h : f.Sticky = true) : f.isEmpty = false := by
  unfold Flags.Sticky at h
  unfold Flags.isEmpty
  cases h1 : f.text <;> cases h2 : f.comments <;> cases h3 : f.doctypes <;> simp_all

/-- every capture-flag answer of the controller keeps the parser in lexer mode -/
structure AlwaysLex (ctl : Controller γ) : Prop where
  initial : ∀ g, (ctl.initialFlags g).Sticky = true
  startTag : ∀ g n ns f, (ctl.startTag g n ns).2 = .flags f → f.Sticky = true
  endTag : ∀ g n, (ctl.endTag g n).2.Sticky = true

/-- no hint was ever answered -/
def JD (d : Disp γ) : Prop := d.pendingAux = false ∧ d.gotFlagsFromHint = false
def KS (d : Disp γ) : Prop := JD d ∧ d.flags.Sticky = true

/-- the three fields the argument looks at are unchanged -/
def Same (d d' : Disp γ) : Prop :=
  d'.pendingAux = d.pendingAux ∧ d'.gotFlagsFromHint = d.gotFlagsFromHint ∧ d'.flags = d.flags

theorem Same.rfl' (d : Disp γ) : Same d d := ⟨rfl, rfl, rfl⟩
theorem Same.jd {d d' : Disp γ} (h : Same d d') (hd : JD d) : JD d' := ⟨by rw [h.1]; exact hd.1, by rw [h.2.1]; exact hd.2⟩
theorem Same.ks {d d' : Disp γ} (h : Same d d') (hd : KS d) : KS d' := ⟨h.jd hd.1, by rw [h.2.2]; exact hd.2⟩

section
variable {ctl : Controller γ} {inp : Bytes}

def DLex {α : Type} (P : Disp γ → Prop) (V : α → Prop) (r : DRes γ α) : Prop :=
  JD r.1 ∧ (∀ e, r.2 = .error e → NoU2x e) ∧ (∀ a, r.2 = .ok a → P r.1 ∧ V a)

theorem DLex.bind {α β : Type} {P Q : Disp γ → Prop} {V : α → Prop} {V' : β → Prop} {r : DRes γ α}
    {f : Disp γ → α → DRes γ β} (hr : DLex P V r) (hf : ∀ d a, P d → V a → DLex Q V' (f d a)) :
    DLex Q V' (DRes.bind r f) := by
  unfold DRes.bind
  split
  · rename_i e he
    exact ⟨hr.1, fun e' h' => by simp only [Except.error.injEq] at h'; subst h'; exact hr.2.1 _ he,
      fun a h' => by cases h'⟩
  · rename_i a ha
    exact hf _ _ (hr.2.2 a ha).1 (hr.2.2 a ha).2

theorem tokenProduced_same (d : Disp γ) (t : Token) : Same d (Disp.tokenProduced ctl d t).1 := by
  unfold Disp.tokenProduced Disp.pushChunks Disp.noteNextEncoding
  dsimp only
  (repeat' split) <;> exact ⟨rfl, rfl, rfl⟩

theorem tokenProduced_lex (hn : NeverFails ctl) {P : Disp γ → Prop} (hP : ∀ d d', Same d d' → P d → P d')
    (hPJ : ∀ d, P d → JD d) (d : Disp γ) (t : Token) (hd : P d) :
    DLex P (fun _ => True) (Disp.tokenProduced ctl d t) := by
  have hs := tokenProduced_same (ctl := ctl) d t
  refine ⟨hs.jd (hPJ d hd), fun e he => ?_, fun _ _ => ⟨hP _ _ hs hd, trivial⟩⟩
  unfold Disp.tokenProduced at he
  dsimp only at he
  rw [hn.token] at he
  cases he

theorem flushPendingText_lex (hn : NeverFails ctl) {P : Disp γ → Prop} (hP : ∀ d d', Same d d' → P d → P d')
    (hPJ : ∀ d, P d → JD d) (d : Disp γ) (hd : P d) : DLex P (fun _ => True) (d.flushPendingText ctl) := by
  unfold Disp.flushPendingText
  split
  · exact tokenProduced_lex hn hP hPJ _ _ (hP d _ ⟨rfl, rfl, rfl⟩ hd)
  · exact ⟨hPJ d hd, fun e he => (by cases he), fun _ _ => ⟨hd, trivial⟩⟩

theorem ofExcept_emitChunkBefore_lex {P : Disp γ → Prop} (hP : ∀ d d', Same d d' → P d → P d')
    (hPJ : ∀ d, P d → JD d) (d : Disp γ) (raw : Range) (hd : P d) :
    DLex P (fun _ => True) (DRes.ofExcept d (d.emitChunkBefore inp raw)) := by
  unfold Disp.emitChunkBefore DRes.ofExcept
  split
  · rename_i e h'
    refine ⟨hPJ d hd, fun e' he => ?_, fun _ he => by cases he⟩
    simp only [Except.error.injEq] at he
    subst he
    split at h'
    · simp only [Except.error.injEq] at h'; subst h'; exact NoU2x.panic (by simp [U2])
    · cases h'
  · rename_i d' h'
    have hs : Same d d' := by
      split at h'
      · cases h'
      · simp only [Except.ok.injEq] at h'
        subst h'
        split <;> exact ⟨rfl, rfl, rfl⟩
    exact ⟨hs.jd (hPJ d hd), fun e he => (by cases he), fun _ _ => ⟨hP _ _ hs hd, trivial⟩⟩

theorem flushEncodingChange_same (d : Disp γ) : Same d d.flushEncodingChange := by
  unfold Disp.flushEncodingChange
  (repeat' split) <;> exact ⟨rfl, rfl, rfl⟩

theorem emitToken_lex (hn : NeverFails ctl) {P : Disp γ → Prop} (hP : ∀ d d', Same d d' → P d → P d')
    (hPJ : ∀ d, P d → JD d) (d : Disp γ) (raw : Range) (tok : Token) (hd : P d) :
    DLex P (fun _ => True) (d.emitToken ctl inp raw tok) := by
  unfold Disp.emitToken
  apply DLex.bind (ofExcept_emitChunkBefore_lex hP hPJ d raw hd)
  intro d1 _ h1 _
  apply DLex.bind (tokenProduced_lex hn hP hPJ d1 tok h1)
  intro d2 _ h2 _
  have hs : Same d2 ({ d2 with rcs := raw.end }).flushEncodingChange := by
    have := flushEncodingChange_same ({ d2 with rcs := raw.end })
    exact this
  exact ⟨hs.jd (hPJ _ h2), fun e he => (by cases he), fun _ _ => ⟨hP _ _ hs h2, trivial⟩⟩

theorem tagToToken_sticky {f f' : Flags} {lx : TagLexeme} {o : Option Token}
    (h : tagToToken f inp lx = some (f', o)) (hf : f.Sticky = true) : f'.Sticky = true := by
  unfold tagToToken at h
  (repeat' split at h) <;>
    first
    | (cases h; done)
    | (simp only [Option.some.injEq, Prod.mk.injEq] at h; rw [← h.1]; exact hf)

theorem KS.same_closed : ∀ d d' : Disp γ, Same d d' → KS d → KS d' := fun _ _ h hd => h.ks hd
theorem JD.same_closed : ∀ d d' : Disp γ, Same d d' → JD d → JD d' := fun _ _ h hd => h.jd hd

theorem produceTag_lex (hn : NeverFails ctl) (d : Disp γ) (lx : TagLexeme) (hd : KS d) :
    DLex KS (fun _ => True) (d.produceTag ctl inp lx) := by
  unfold Disp.produceTag
  split
  · exact ⟨hd.1, fun e he => (by simp only [Except.error.injEq] at he; subst he; exact NoU2x.panic (by simp [U2])),
      fun _ he => by cases he⟩
  · rename_i ft hft
    have hks : KS { d with flags := ft.1 } := ⟨hd.1, tagToToken_sticky (o := ft.2) hft hd.2⟩
    dsimp only
    split
    · exact ⟨hks.1, fun e he => (by cases he), fun _ _ => ⟨hks, trivial⟩⟩
    · exact emitToken_lex hn KS.same_closed (fun _ h => h.1) _ _ _ hks

theorem produceNonTag_lex (hn : NeverFails ctl) (d : Disp γ) (lx : NonTagLexeme) (hd : JD d) :
    DLex JD (fun _ => True) (d.produceNonTag ctl inp lx) := by
  unfold Disp.produceNonTag
  split
  · split
    · unfold Disp.produceText
      split
      · exact ⟨hd, fun e he => (by simp only [Except.error.injEq] at he; subst he; exact NoU2x.panic (by simp [U2])),
          fun _ he => by cases he⟩
      · apply DLex.bind (ofExcept_emitChunkBefore_lex JD.same_closed (fun _ h => h) d lx.raw hd)
        intro d1 _ h1 _
        refine DLex.bind (tokenProduced_lex hn JD.same_closed (fun _ h => h) _ _ ?_) ?_
        · exact h1
        · intro d2 _ h2 _
          exact ⟨h2, fun e he => (by cases he), fun _ _ => ⟨h2, trivial⟩⟩
    · exact ⟨hd, fun e he => (by cases he), fun _ _ => ⟨hd, trivial⟩⟩
  · split
    · exact ⟨hd, fun e he => (by simp only [Except.error.injEq] at he; subst he; exact NoU2x.panic (by simp [U2])),
        fun _ he => by cases he⟩
    · exact ⟨hd, fun e he => (by cases he), fun _ _ => ⟨hd, trivial⟩⟩
    · exact emitToken_lex hn JD.same_closed (fun _ h => h) _ _ _ hd

theorem adjustFlagsForTag_lex (hn : NeverFails ctl) (ha : AlwaysLex ctl) (d : Disp γ) (lx : TagLexeme) (hd : JD d) :
    DLex KS (fun _ => True) (d.adjustFlagsForTag ctl inp lx) := by
  unfold Disp.adjustFlagsForTag
  split
  · rename_i hp; rw [hd.1] at hp; cases hp
  · split
    · split
      · exact ⟨hd, fun e he => (by simp only [Except.error.injEq] at he; subst he; exact NoU2x.panic (by simp [U2])),
          fun _ he => by cases he⟩
      · dsimp only
        split
        · rename_i f hf
          exact ⟨hd, fun e he => (by cases he), fun _ _ => ⟨⟨hd, ha.startTag _ _ _ f hf⟩, trivial⟩⟩
        · rename_i hir
          obtain ⟨f, hf⟩ := hn.startTag d.ctl ‹LocalName› ‹Ns›
          rw [hf] at hir; cases hir
        · rename_i e herr
          obtain ⟨f, hf⟩ := hn.startTag d.ctl ‹LocalName› ‹Ns›
          rw [hf] at herr; cases herr
    · split
      · exact ⟨hd, fun e he => (by simp only [Except.error.injEq] at he; subst he; exact NoU2x.panic (by simp [U2])),
          fun _ he => by cases he⟩
      · exact ⟨hd, fun e he => (by cases he), fun _ _ => ⟨⟨hd, ha.endTag _ _⟩, trivial⟩⟩

theorem handleTag_lex (hn : NeverFails ctl) (ha : AlwaysLex ctl) (lx : TagLexeme) (d : Disp γ) (hd : JD d) :
    DLex JD (fun dir => dir = Directive.lex) (Disp.handleTag ctl inp lx d) := by
  unfold Disp.handleTag
  apply DLex.bind (flushPendingText_lex hn JD.same_closed (fun _ h => h) d hd)
  intro d1 _ h1 _
  apply DLex.bind (P := KS) (V := fun _ => True)
  · split
    · rename_i hg; rw [h1.2] at hg; cases hg
    · exact adjustFlagsForTag_lex hn ha d1 lx h1
  · intro d2 _ h2 _
    apply DLex.bind (P := KS) (V := fun _ => True)
    · apply produceTag_lex hn
      unfold Disp.resumeEmission
      split
      · exact h2
      · exact h2
    · intro d3 _ h3 _
      refine ⟨h3.1, fun e he => (by cases he), fun a he => ?_⟩
      simp only [Except.ok.injEq] at he
      subst he
      refine ⟨h3.1, ?_⟩
      unfold Disp.nextDirective
      dsimp only
      rw [Flags.Sticky.notEmpty h3.2]
      rfl

theorem handleNonTag_lex (hn : NeverFails ctl) (lx : NonTagLexeme) (d : Disp γ) (hd : JD d) :
    DLex JD (fun _ => True) (Disp.handleNonTag ctl inp lx d) := by
  unfold Disp.handleNonTag
  apply DLex.bind (P := JD) (V := fun _ => True)
  · split
    · exact ⟨hd, fun e he => (by cases he), fun _ _ => ⟨hd, trivial⟩⟩
    · exact flushPendingText_lex hn JD.same_closed (fun _ h => h) d hd
  · intro d1 _ h1 _
    exact produceNonTag_lex hn d1 lx h1

/-- **The dispatcher of a never-failing, always-lexing controller never asks for the tag scanner.** -/
theorem dispOps_lex (hn : NeverFails ctl) (ha : AlwaysLex ctl) : OpsLex (dispOps ctl) inp (JD (γ := γ)) where
  handleTag := fun lx k hk => by
    obtain ⟨h1, h2, h3⟩ := handleTag_lex (inp := inp) hn ha lx k hk
    refine ⟨h1, h2, fun hs => ?_⟩
    have := (h3 _ hs).2
    cases this
  handleNonTag := fun lx k hk => by
    obtain ⟨h1, h2, _⟩ := handleNonTag_lex (inp := inp) hn lx k hk
    exact ⟨h1, h2⟩

end

/-! ### `Parser::parse` in pure lexer mode -/

section
variable {κ : Type} {env : Env κ} {inp : Bytes} {J : κ → Prop}

/-- the parser is in lexer mode and its lexer was never loaded from a scanner bookmark -/
def PLex (J : κ → Prop) (p : Parser κ) : Prop :=
  p.directive = .lex ∧ p.lexR.fd = .none ∧ J p.x.sink ∧ Inv p.x.sim

theorem parse_lexonly (h : OpsLex env.ops inp J) (last : Bool) (p : Parser κ) (hp : PLex J p) :
    (∀ e, (Parser.parse env inp last p).2 = .error e → NoU2x e) ∧ PLex J (Parser.parse env inp last p).1 := by
  obtain ⟨hd, hfd, hJ, hi⟩ := hp
  have hm : p.machine last = ⟨{ p.lexC with isLast := last }, .lexer p.lexR, p.x⟩ := by
    unfold Parser.machine; rw [hd]
  have hl : LxInv J (p.machine last) := by rw [hm]; exact ⟨hJ, hi, _, rfl, hfd⟩
  obtain ⟨⟨r1, r2, l, r3, r4⟩, rs⟩ := runLoop_lexonly h (defaultFuel inp) (p.machine last) hl
  have hst : p.store (runLoop env inp (defaultFuel inp) (p.machine last)).1 =
      { p with lexC := (runLoop env inp (defaultFuel inp) (p.machine last)).1.c, lexR := l,
               x := (runLoop env inp (defaultFuel inp) (p.machine last)).1.x } := by
    simp only [Parser.store, r3]
  have hpl : PLex J (p.store (runLoop env inp (defaultFuel inp) (p.machine last)).1) := by
    rw [hst]; exact ⟨hd, r4, r1, r2⟩
  show (∀ e, (Parser.parseLoop env inp last (2 * inp.length + 7 + 1) p).2 = .error e → NoU2x e) ∧
    PLex J (Parser.parseLoop env inp last (2 * inp.length + 7 + 1) p).1
  simp only [Parser.parseLoop]
  split
  · exact ⟨fun e he => (by cases he), hpl⟩
  · rename_i d bm hsig
    rw [hsig] at rs
    exact rs.elim
  · refine ⟨fun e he => ?_, hpl⟩
    simp only [Except.error.injEq] at he
    subst he
    intro _ _ h'; cases h'
  · rename_i e _ hsig
    rw [hsig] at rs
    refine ⟨fun e' he => ?_, hpl⟩
    simp only [Except.error.injEq] at he
    subst he
    exact rs

end

/-! ### the stream -/

section
variable {w : World γ}

def SLex (s : Stream γ) : Prop := PLex (JD (γ := γ)) s.parser

theorem Stream.new_slex (ha : AlwaysLex w.ctl) (g : γ) (cfg : Settings) : SLex (Stream.new w g cfg) := by
  unfold SLex PLex Stream.new
  dsimp only
  rw [Flags.Sticky.notEmpty (ha.initial g)]
  exact ⟨rfl, rfl, ⟨rfl, rfl⟩, inv_new _⟩

theorem flushRemaining_same {d d' : Disp γ} {inp : Bytes} {c : Nat} (h : d.flushRemaining inp c = .ok d') :
    Same d d' := by
  unfold Disp.flushRemaining at h
  (repeat' split at h) <;>
    first | (cases h; done) | (simp only [Except.ok.injEq] at h; subst h; exact ⟨rfl, rfl, rfl⟩)

theorem flushRemaining_noU2 {d : Disp γ} {inp : Bytes} {c : Nat} {e : Err} (h : d.flushRemaining inp c = .error e) :
    NoU2x e := by
  unfold Disp.flushRemaining at h
  (repeat' split at h) <;>
    first | (cases h; done) | (simp only [Except.error.injEq] at h; subst h; exact NoU2x.panic (by simp [U2]))

theorem Stream.keepTail_lex (s : Stream γ) (data chunk : Bytes) (consumed : Nat) :
    (∀ e, (s.keepTail w data chunk consumed).2 = .error e → NoU2x e) ∧
    ((s.keepTail w data chunk consumed).2 = .ok () → (s.keepTail w data chunk consumed).1.parser = s.parser) := by
  unfold Stream.keepTail
  split
  · split
    · split
      · exact ⟨fun e he => (by cases he), fun _ => rfl⟩
      · exact ⟨fun e he => (by simp only [Except.error.injEq] at he; subst he; exact NoU2x.panic (by simp [U2])),
          fun he => by cases he⟩
    · dsimp only
      split
      · exact ⟨fun e he => (by cases he), fun _ => rfl⟩
      · exact ⟨fun e he => (by simp only [Except.error.injEq] at he; subst he; intro _ _ h'; cases h'),
          fun he => by cases he⟩
  · exact ⟨fun e he => (by cases he), fun _ => rfl⟩

/-- **One `write` in pure lexer mode**: whatever it fails with is not a panic at a `U2` site. -/
theorem Stream.write_lexonly (hn : NeverFails w.ctl) (ha : AlwaysLex w.ctl) (s : Stream γ) (data : Bytes)
    (hs : SLex s) :
    (∀ e, (s.write w data).2 = .error e → NoU2x e) ∧ ((s.write w data).2 = .ok () → SLex (s.write w data).1) := by
  unfold Stream.write
  cases hcf : s.chunkFor w data with
  | inl s' =>
    dsimp only
    exact ⟨fun e he => (by simp only [Except.error.injEq] at he; subst he; intro _ _ h'; cases h'), fun he => by cases he⟩
  | inr sc =>
    obtain ⟨s1, chunk⟩ := sc
    obtain ⟨_, c2, _, _, _⟩ := Stream.chunkFor_inr hcf
    dsimp only
    obtain ⟨t1, t2⟩ := parse_lexonly (env := w.env) (inp := chunk) (dispOps_lex hn ha) false s1.parser
      (by rw [c2]; exact hs)
    cases hpr : (s1.parser.parse w.env chunk false).2 with
    | error e =>
      dsimp only
      refine ⟨fun e' he => ?_, fun he => by cases he⟩
      simp only [Except.error.injEq] at he
      subst he
      exact t1 _ hpr
    | ok consumed =>
      dsimp only
      cases hfl : (Stream.disp { s1 with parser := (s1.parser.parse w.env chunk false).1 }).flushRemaining chunk consumed with
      | error e =>
        dsimp only
        refine ⟨fun e' he => ?_, fun he => by cases he⟩
        simp only [Except.error.injEq] at he
        subst he
        exact flushRemaining_noU2 hfl
      | ok d =>
        dsimp only
        obtain ⟨k1, k2⟩ := Stream.keepTail_lex (w := w)
          (Stream.setDisp { s1 with parser := (s1.parser.parse w.env chunk false).1 } d) data chunk consumed
        refine ⟨k1, fun hok => ?_⟩
        unfold SLex
        rw [k2 hok]
        obtain ⟨u1, u2, u3, u4⟩ := t2
        exact ⟨u1, u2, (flushRemaining_same hfl).jd u3, u4⟩

/-- **`end` in pure lexer mode** -/
theorem Stream.end_lexonly (hn : NeverFails w.ctl) (ha : AlwaysLex w.ctl) (s : Stream γ) (hs : SLex s) :
    ∀ e, (s.end w).2 = .error e → NoU2x e := by
  intro e he
  unfold Stream.end at he
  dsimp only at he
  obtain ⟨t1, _⟩ := parse_lexonly (env := w.env) (inp := if s.hasBuffered then s.buf.data else [])
    (dispOps_lex hn ha) true s.parser hs
  cases hpr : (s.parser.parse w.env (if s.hasBuffered then s.buf.data else []) true).2 with
  | error e' =>
    rw [hpr] at he
    dsimp only at he
    simp only [Except.error.injEq] at he
    subst he
    exact t1 _ hpr
  | ok consumed =>
    rw [hpr] at he
    dsimp only at he
    unfold Disp.finish at he
    cases hfl : (Stream.disp { s with parser := (s.parser.parse w.env (if s.hasBuffered then s.buf.data else []) true).1 }).flushRemaining
        (if s.hasBuffered then s.buf.data else []) (if s.hasBuffered then s.buf.data else []).length with
    | error e' =>
      rw [hfl] at he
      simp only [DRes.ofExcept, DRes.bind, Except.error.injEq] at he
      subst he
      exact flushRemaining_noU2 hfl
    | ok d =>
      rw [hfl] at he
      simp only [DRes.ofExcept, DRes.bind] at he
      rw [hn.handleEnd] at he
      cases he

end
end LolHtml.Model
