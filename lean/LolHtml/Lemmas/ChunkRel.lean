import LolHtml.Model.SM
/-!
# Chunk-boundary invariance: the relation between a "split" run and a "whole" run

Two runs of the same machine are compared. The *whole* run sees the input `inpW = pre ++ inpS ++ post`,
the *split* run sees `inpS` only, with all its positions re-based by `δ = pre.length`
(`break_on_end_of_input` + `Align`). The relation is parameterised by

* `δ`    — the frame offset (`whole position = split position + δ` for live positions);
* `d`    — the *text debt*: bytes of text the split run has already handed to the sink (by the
           `emit_text` of an `eoc` arm at a chunk end) that the whole run has not emitted yet;
* `skip` — the *memchr skip*: a `memchr` state that broke at a chunk end leaves the split cursor at the
           end of the scanned bytes, the whole cursor is still before them;
* `ab`   — abstract validity flags: which position registers are known to be live, i.e. hold
           `whole = split + δ` and lie at or after the split `lexeme_start` (so that `Align` re-bases
           them instead of leaving a stale value behind). Registers that are not flagged may hold
           arbitrary (stale) positions in either run: a decidable check of the table (`WfChunk`)
           guarantees that they are never read before being written.
-/
namespace LolHtml.Model.Chunk
open LolHtml LolHtml.Model

/-! ### Shifting positions -/

def shR (δ : Nat) (r : Range) : Range := ⟨r.start + δ, r.end + δ⟩

def shA (δ : Nat) (a : AttrOutline) : AttrOutline := ⟨shR δ a.name, shR δ a.value, shR δ a.raw⟩

def shTag (δ : Nat) : TagOutline → TagOutline
  | .startTag n h ns as sc => .startTag (shR δ n) h ns (as.map (shA δ)) sc
  | .endTag n h => .endTag (shR δ n) h

def shDoctype (δ : Nat) (d : DoctypeOutline) : DoctypeOutline :=
  ⟨d.name.map (shR δ), d.publicId.map (shR δ), d.systemId.map (shR δ), d.forceQuirks⟩

def shNonTag (δ : Nat) : NonTagOutline → NonTagOutline
  | .comment r => .comment (shR δ r)
  | .doctype d => .doctype (shDoctype δ d)
  | .text t => .text t
  | .eof => .eof

def geR (L : Nat) (r : Range) : Prop := L ≤ r.start ∧ L ≤ r.end

def geA (L : Nat) (a : AttrOutline) : Prop := geR L a.name ∧ geR L a.value ∧ geR L a.raw

def geOR (L : Nat) : Option Range → Prop
  | none => True
  | some r => geR L r

def geNonTag (L : Nat) : NonTagOutline → Prop
  | .comment r => geR L r
  | .doctype d => geOR L d.name ∧ geOR L d.publicId ∧ geOR L d.systemId
  | _ => True

/-- upper bounds of the parts of a doctype: they end at or before the cursor -/
def leOR (U : Nat) : Option Range → Prop
  | none => True
  | some r => r.end ≤ U

def leNonTag (U : Nat) : NonTagOutline → Prop
  | .doctype d => leOR U d.name ∧ leOR U d.publicId ∧ leOR U d.systemId
  | _ => True

def tagAttrs : TagOutline → List AttrOutline
  | .startTag _ _ _ as _ => as
  | .endTag .. => []

def tagNs : TagOutline → Ns
  | .startTag _ _ ns _ _ => ns
  | .endTag .. => .html

def tagSc : TagOutline → Bool
  | .startTag _ _ _ _ sc => sc
  | .endTag .. => false

theorem geR_mono {L L' : Nat} {r : Range} (h : L' ≤ L) (hr : geR L r) : geR L' r :=
  ⟨Nat.le_trans h hr.1, Nat.le_trans h hr.2⟩

theorem geA_mono {L L' : Nat} {a : AttrOutline} (h : L' ≤ L) (hr : geA L a) : geA L' a :=
  ⟨geR_mono h hr.1, geR_mono h hr.2.1, geR_mono h hr.2.2⟩

@[simp] theorem shR_zero (r : Range) : shR 0 r = r := rfl
@[simp] theorem shA_zero (a : AttrOutline) : shA 0 a = a := rfl

theorem shA_zero_fun : shA 0 = id := by funext a; rfl

@[simp] theorem shTag_zero (t : TagOutline) : shTag 0 t = t := by
  cases t <;> simp [shTag, shA_zero_fun]

@[simp] theorem shNonTag_zero (t : NonTagOutline) : shNonTag 0 t = t := by
  cases t with
  | doctype d =>
    simp only [shNonTag, shDoctype]
    have : shR 0 = id := by funext r; rfl
    simp [this]
  | _ => rfl

/-! ### Abstract validity flags -/

/-- Which position registers are valid. Lexer: `P` (`lexeme_start ≤ pos`), `T` (`token_part_start`),
`Gn` (name range of the current tag), `Ga` (its attribute buffer), `A` (current attribute),
`N` (current non-tag token), `Nc` (the current non-tag token is a comment).
Tag scanner: `P` (`tag_start ≤ pos`), `St` (`tag_start` is set), `Sn` (`tag_name_start`). -/
structure Ab where
  P : Bool := false
  T : Bool := false
  Gn : Bool := false
  Ga : Bool := false
  A : Bool := false
  N : Bool := false
  Nc : Bool := false
  St : Bool := false
  Sn : Bool := false
  deriving DecidableEq, Repr, Inhabited

/-- `a ≤ b`: everything `a` claims, `b` claims. -/
def Ab.le (a b : Ab) : Bool :=
  (!a.P || b.P) && (!a.T || b.T) && (!a.Gn || b.Gn) && (!a.Ga || b.Ga) && (!a.A || b.A) &&
  (!a.N || b.N) && (!a.Nc || b.Nc) && (!a.St || b.St) && (!a.Sn || b.Sn)

/-! ### Register relations -/

def OptRel {α : Type} (R : α → α → Prop) : Option α → Option α → Prop
  | none, none => True
  | some a, some b => R a b
  | _, _ => False

/-- current tag: split `t`, whole `t'` -/
structure TagRel (δ L : Nat) (gn ga : Bool) (t t' : TagOutline) : Prop where
  kind : t'.isStart = t.isStart
  hash : t'.nameHash = t.nameHash
  ns : tagNs t' = tagNs t
  sc : tagSc t' = tagSc t
  name : gn = true → t'.name = shR δ t.name ∧ geR L t.name
  attrs : ga = true → tagAttrs t' = (tagAttrs t).map (shA δ) ∧ ∀ a ∈ tagAttrs t, geA L a

structure AttrRel (δ L : Nat) (v : Bool) (a a' : AttrOutline) : Prop where
  val : v = true → a' = shA δ a ∧ geA L a

def sameCtor : NonTagOutline → NonTagOutline → Prop
  | .comment _, .comment _ => True
  | .doctype d, .doctype d' => d'.forceQuirks = d.forceQuirks
  | .text t, .text t' => t' = t
  | .eof, .eof => True
  | _, _ => False

structure NonTagRel (δ L : Nat) (v : Bool) (n n' : NonTagOutline) : Prop where
  ctor : sameCtor n n'
  val : v = true → n' = shNonTag δ n ∧ geNonTag L n

/-- the lexer's registers; `cs` is the split machine's `Common` (for `next_pos`). -/
structure LexRel (δ d : Nat) (ab : Ab) (np : Nat) (ls lw : LexRegs) : Prop where
  ls_le : ls.lexemeStart ≤ np
  ls_eq : lw.lexemeStart + d = ls.lexemeStart + δ
  p : ab.P = true → ls.lexemeStart + 1 ≤ np
  fd : lw.fd = ls.fd
  t : ab.T = true → lw.tokenPartStart = ls.tokenPartStart + δ ∧ ls.lexemeStart ≤ ls.tokenPartStart
  tag : OptRel (TagRel δ ls.lexemeStart ab.Gn ab.Ga) ls.curTag lw.curTag
  attr : OptRel (AttrRel δ ls.lexemeStart ab.A) ls.curAttr lw.curAttr
  nt : OptRel (NonTagRel δ ls.lexemeStart ab.N) ls.curNonTag lw.curNonTag
  nc : ab.Nc = true → ∃ r, ls.curNonTag = some (.comment r)
  ntu : ab.N = true → ∀ n, ls.curNonTag = some n → leNonTag np n
  ntp : ab.N = true → ab.P = true → ∀ n, ls.curNonTag = some n → leNonTag (np - 1) n

/-- the tag scanner's registers. `seq = true`: inside the sequence arms of a state function, where
`ch_sequence_matching_start` is set (in both runs, to the same byte); otherwise it is `none` in the
whole run, and in the split run it is `none` or a stale value that the next `enter_ch_sequence_
matching` overwrites (`stale = true`: allowed only at the entry of a state that has a sequence arm). -/
structure ScanRel (δ : Nat) (ab : Ab) (np : Nat) (ss sw : ScanRegs) : Prop where
  ts : OptRel (fun a b => b = a + δ) ss.tagStart sw.tagStart
  ts_le : ∀ t, ss.tagStart = some t → t ≤ np
  p : ab.P = true → 1 ≤ np ∧ ∀ t, ss.tagStart = some t → t + 1 ≤ np
  st : ab.St = true → ss.tagStart.isSome = true
  tns : ab.Sn = true → sw.tagNameStart = ss.tagNameStart + δ ∧ ∀ t, ss.tagStart = some t → t ≤ ss.tagNameStart
  endTag : sw.isInEndTag = ss.isInEndTag
  hash : sw.tagNameHash = ss.tagNameHash
  pend : sw.pendingTextTypeChange = ss.pendingTextTypeChange

structure CRel (δ skip : Nat) (cs cw : Common) : Prop where
  nextPos : cw.nextPos + skip = cs.nextPos + δ
  isLast : cw.isLast = cs.isLast
  state : cw.state = cs.state
  entered : cw.entered = cs.entered
  cdataAllowed : cw.cdataAllowed = cs.cdataAllowed
  lastStartTagNameHash : cw.lastStartTagNameHash = cs.lastStartTagNameHash
  closingQuote : cw.closingQuote = cs.closingQuote
  lastTextType : cw.lastTextType = cs.lastTextType

/-- how `ch_sequence_matching_start` of the two runs may relate -/
inductive SeqMode
  | none    -- `none` in both runs
  | stale   -- anything (state entry after a `needMore` break; overwritten before it is read)
  | inSeq   -- set to the consumed byte in both runs
  deriving DecidableEq

def SeqRel (δ : Nat) (np : Nat) : SeqMode → Option Nat → Option Nat → Prop
  | .none, a, b => a = none ∧ b = none
  | .stale, _, _ => True
  | .inSeq, a, b => ∃ p, a = some p ∧ b = some (p + δ) ∧ p + 1 = np

def RegsRel (δ d : Nat) (ab : Ab) (sm : SeqMode) (np : Nat) : Regs → Regs → Prop
  | .lexer ls, .lexer lw => LexRel δ d ab np ls lw
  | .scanner ss, .scanner sw => d = 0 ∧ ScanRel δ ab np ss sw ∧ SeqRel δ np sm ss.chSeqStart sw.chSeqStart
  | _, _ => False

variable {κ : Type}

/-- machines without their sinks -/
structure MRel (δ d skip : Nat) (ab : Ab) (sm : SeqMode) (ms mw : M κ) : Prop where
  c : CRel δ skip ms.c mw.c
  r : RegsRel δ d ab sm ms.c.nextPos ms.r mw.r
  sim : mw.x.sim = ms.x.sim
  pc : ms.x.prevConsumed = mw.x.prevConsumed + δ

/-! ### Signals -/

structure BmRel (δ : Nat) (bs bw : Bookmark) : Prop where
  cdataAllowed : bw.cdataAllowed = bs.cdataAllowed
  textType : bw.textType = bs.textType
  hash : bw.lastStartTagNameHash = bs.lastStartTagNameHash
  pos : bw.pos = bs.pos + δ
  fd : bw.fd = bs.fd

/-- split signal vs whole signal, as produced by actions and arm bodies (which never signal
`endOfInput`; breaks are compared separately) -/
def SigRel (δ d : Nat) : Option Signal → Option Signal → Prop
  | none, none => True
  | some (.err e), some (.err e') => e' = e
  | some (.directive dr bm), some (.directive dr' bm') => dr' = dr ∧ BmRel δ bm bm'
  | _, _ => False

/-- the split run hit one of the model's explicit panic branches -/
def SPanic : Option Signal → Prop
  | some (.err (.panic _)) => True
  | _ => False

end LolHtml.Model.Chunk
