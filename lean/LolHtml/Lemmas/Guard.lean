import LolHtml.Model.TreeSim
import LolHtml.Spec.Guard
/-!
The ambiguity guard (`Guard.trackStartTag` / `Guard.trackEndTag`) folded over an event sequence,
and its step-by-step simulation by `Spec.Guard`.
-/
namespace LolHtml.Model
open LolHtml.Spec.Guard (Ev)

/-- Fold of the guard over tag events, stopping at the first error (this is what
`get_feedback_for_start_tag`/`get_feedback_for_end_tag` do with the guard in strict mode). -/
def Guard.run (cfg : TagCfg) : GuardState → List Ev → Except Err GuardState
  | g, [] => .ok g
  | g, .start t :: es =>
    match Guard.trackStartTag cfg g t with
    | .ok g' => Guard.run cfg g' es
    | .error e => .error e
  | g, .end t :: es => Guard.run cfg (Guard.trackEndTag cfg g t) es

end LolHtml.Model

namespace LolHtml.Lemmas.Guard
open LolHtml.Model LolHtml.Spec.Guard

/-- The only fact about the tag lists the guard theorems need: `<template>` is not itself a
text-mode-switching tag. -/
def Side (cfg : TagCfg) : Prop := cfg.guardTextSwitch.contains cfg.gTemplate = false

instance (cfg : TagCfg) : Decidable (Side cfg) := by unfold Side; infer_instance

/-- Representation invariant of the specification state. -/
def Wf (s : St) : Prop := s.afterFrameset = true → s.inSelect = false

theorem wf_init : Wf init := by simp [Wf, init]

theorem wf_step (cfg : TagCfg) (s : St) (e : Ev) (h : Wf s) : Wf (step cfg s e) := by
  obtain ⟨f, sel, d⟩ := s
  cases e <;> cases f <;> cases sel <;> simp_all [Wf, step] <;> (repeat' split) <;> simp_all

theorem assert_eq (cfg : TagCfg) (t : Nat) :
    Guard.assertNotAmbiguous cfg t =
      if cfg.guardTextSwitch.contains t then .error (.ambiguity t) else .ok () := rfl

theorem sim_start (cfg : TagCfg) (hside : Side cfg) (s : St) (hw : Wf s) (t : Nat) :
    Guard.trackStartTag cfg (toGuard s) t =
      if ambiguous cfg s t then .error (.ambiguity t) else .ok (toGuard (step cfg s (.start t))) := by
  obtain ⟨f, sel, d⟩ := s
  unfold Side at hside
  cases f <;> cases sel <;> simp_all [Wf]
  · -- default
    by_cases h1 : t = cfg.gSelect
    · simp [toGuard, ambiguous, step, Guard.trackStartTag, h1]
    by_cases h2 : t = cfg.gFrameset
    · subst h2; simp [toGuard, ambiguous, step, Guard.trackStartTag, h1]
    · simp [toGuard, ambiguous, step, Guard.trackStartTag, h1, h2]
  · -- in select
    by_cases hd : d = 0
    · subst hd
      by_cases h1 : t ∈ cfg.gSelectExit
      · simp [toGuard, ambiguous, step, Guard.trackStartTag, h1]
      by_cases h2 : t = cfg.gTemplate
      · subst h2
        simp [toGuard, ambiguous, step, Guard.trackStartTag, h1, hside]
      by_cases h3 : t = cfg.gScript
      · subst h3; simp [toGuard, ambiguous, step, Guard.trackStartTag, h1, h2]
      by_cases h4 : t ∈ cfg.guardTextSwitch <;>
        simp [toGuard, ambiguous, step, Guard.trackStartTag, assert_eq, h1, h2, h3, h4]
    · by_cases h2 : t = cfg.gTemplate
      · subst h2
        simp [toGuard, ambiguous, step, Guard.trackStartTag, hd, hside]
      by_cases h4 : t ∈ cfg.guardTextSwitch <;>
        simp [toGuard, ambiguous, step, Guard.trackStartTag, assert_eq, hd, h2, h4]
  · -- frameset
    by_cases h3 : t = cfg.gNoframes
    · simp [toGuard, ambiguous, step, Guard.trackStartTag, h3]
    by_cases h4 : t ∈ cfg.guardTextSwitch <;>
      simp [toGuard, ambiguous, step, Guard.trackStartTag, assert_eq, h3, h4]

theorem sim_end (cfg : TagCfg) (s : St) (hw : Wf s) (t : Nat) :
    Guard.trackEndTag cfg (toGuard s) t = toGuard (step cfg s (.end t)) := by
  obtain ⟨f, sel, d⟩ := s
  cases f <;> cases sel <;> simp_all [Wf]
  · simp [toGuard, step, Guard.trackEndTag]
  · by_cases hd : d = 0
    · subst hd
      by_cases h : t = cfg.gSelect <;> simp [toGuard, step, Guard.trackEndTag, h]
    · by_cases h : t = cfg.gTemplate
      · by_cases h1 : d = 1
        · simp [toGuard, step, Guard.trackEndTag, h, h1]
        · have : d - 1 ≠ 0 := by omega
          simp [toGuard, step, Guard.trackEndTag, hd, h, h1, this]
      · simp [toGuard, step, Guard.trackEndTag, hd, h]
  · simp [toGuard, step, Guard.trackEndTag]

theorem run_sim (cfg : TagCfg) (hside : Side cfg) (es : List Ev) : ∀ s, Wf s →
    Guard.run cfg (toGuard s) es = (Spec.Guard.run cfg s es).map toGuard := by
  induction es with
  | nil => intro s _; rfl
  | cons e es ih =>
    intro s hw
    cases e with
    | start t =>
      simp only [Guard.run, Spec.Guard.run, sim_start cfg hside s hw t]
      by_cases ha : ambiguous cfg s t = true
      · simp [ha]; rfl
      · simp [ha]; exact ih _ (wf_step cfg s _ hw)
    | «end» t =>
      simp only [Guard.run, Spec.Guard.run, sim_end cfg s hw t]
      exact ih _ (wf_step cfg s _ hw)

end LolHtml.Lemmas.Guard
