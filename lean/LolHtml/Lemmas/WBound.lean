import LolHtml.Lemmas.ParseReach
/-!
# The sink watermark stays inside the input slice — at every exit, failing ones included

`SigOK` bounds the watermark (`remaining_content_start`) for `EndOfInput` and directive signals; this
pass adds the error exits: whatever `Parser::parse` returns, `W sink ≤ input length`. Needed by the
bail-out theorem (C11): the flush of "every remaining received byte" starts at the watermark.
-/
namespace LolHtml.Model

variable {κ : Type}

theorem MInvA_W {W : κ → Nat} {L lo : Nat} {hb f : Bool} {m : M κ} (h : MInvA W L lo hb f m)
    (hf : hb = true ∨ f = true) : W m.x.sink ≤ L := by
  obtain ⟨a1, a2, a3, a4, a5⟩ := h
  cases hr : m.r with
  | lexer l =>
    rw [hr] at a5
    simp only [RegsA] at a5
    rcases hf with h | h
    · have := a4 h; omega
    · have := a5.2.2 h; omega
  | scanner s =>
    rw [hr] at a5
    simp only [RegsA] at a5
    omega

theorem flagStep_keep {hb f f' : Bool} {a : ActName} (h : flagStep hb a f = some f') (hf : hb = true ∨ f = true) :
    hb = true ∨ f' = true := by
  cases hb
  · right
    rcases hf with hf | hf
    · cases hf
    · subst hf
      unfold flagStep at h
      simp only [Bool.false_eq_true, if_false, if_true] at h
      (repeat' split at h) <;> first | (cases h; done) | (simp only [Option.some.injEq] at h; exact h.symm)
  · exact Or.inl rfl

theorem MInvC_W {W : κ → Nat} {L lo n0 : Nat} {ch : Option UInt8} {rem : Bool} {m : M κ}
    (h : MInvC W L lo n0 ch rem m) : W m.x.sink ≤ L := by
  obtain ⟨a1, a2, a3, a4, a5, a6, a7⟩ := h
  cases hr : m.r with
  | lexer l => rw [hr] at a7; simp only [RegsC] at a7; omega
  | scanner s => rw [hr] at a7; simp only [RegsC] at a7; omega

theorem MInvB_W {t : Table} {L w lo : Nat} {m : M κ} (h : MInvB t L w lo m) : w ≤ L := by
  obtain ⟨a1, a2, sd, _, a3⟩ := h
  cases hr : m.r with
  | lexer l => rw [hr] at a3; simp only [RegsB] at a3; omega
  | scanner s => rw [hr] at a3; simp only [RegsB] at a3; omega

section
variable {env : Env κ} {inp : Bytes} {W : κ → Nat} {lo : Nat}

theorem runCalls_W (hs : SinkSafe env.ops W inp U1) {hb : Bool} (cs : List Call) {f f' : Bool} (m : M κ)
    (hm : MInvA W inp.length lo hb f m) (hc : flagCalls hb cs f = some f') (hf : hb = true ∨ f = true) :
    W (runCalls env inp cs m).1.x.sink ≤ inp.length := by
  induction cs generalizing m f with
  | nil => simp only [runCalls]; exact MInvA_W hm hf
  | cons cl cs ih =>
    simp only [flagCalls] at hc
    split at hc
    · cases hc
    · rename_i f1 hf1
      have h1 := act_post hs cl.act m hm hf1
      have hf1' := flagStep_keep hf1 hf
      simp only [runCalls]
      split
      · split
        · exact MInvA_W h1.2.1 hf1'
        · exact ih _ h1.2.1 hc hf1'
      · exact ih _ h1.2.1 hc hf1'

theorem runSeq_W (hs : SinkSafe env.ops W inp U1) {hb : Bool} (s : ActSeq) (m : M κ)
    (hm : MInvA W inp.length lo hb true m) (hok : seqOK hb s = true) :
    W (runSeq env inp s m).1.x.sink ≤ inp.length := by
  unfold seqOK at hok
  split at hok
  · cases hok
  · rename_i f' hf
    have h1 := runCalls_W hs s.calls m hm hf (Or.inr rfl)
    unfold runSeq
    dsimp only
    split
    · exact h1
    · split
      · exact h1
      · dsimp only; rw [applyTrans_sink]; exact h1

theorem runBody_W (hs : SinkSafe env.ops W inp U1) {hb : Bool} (b : Body) (m : M κ)
    (hm : MInvA W inp.length lo hb true m) (hok : ∀ s ∈ b.seqs, seqOK hb s = true) :
    W (runBody env inp b m).1.x.sink ≤ inp.length := by
  cases b with
  | seq s => exact runSeq_W hs s m hm (hok s (by simp [Body.seqs]))
  | ite c t e =>
    simp only [runBody]
    split
    · exact MInvA_W hm (Or.inr rfl)
    · exact runSeq_W hs t m hm (hok t (by simp [Body.seqs]))
    · exact runSeq_W hs e m hm (hok e (by simp [Body.seqs]))

/-- the invariant for the body of a matched sequence arm -/
theorem seqMatched_MInvA {n0 : Nat} {ch : Option UInt8} {rem : Bool} (m : M κ) (e0 : UInt8) (es : List UInt8) (ic : Bool)
    (hfirst : (match ch with
      | some c0 => if seqCmp c0 e0 ic then matchSeqFrom inp (enterSeq m).c.isLast ic (enterSeq m).c.nextPos 1 es else .mismatch
      | none => if (enterSeq m).c.isLast then .mismatch else .needMore) = SeqMatch.matched)
    (hm : MInvC W inp.length lo n0 ch rem m) :
    MInvA W inp.length lo true true
      (leaveSeq { enterSeq m with c := { (enterSeq m).c with nextPos := (enterSeq m).c.nextPos + es.length } }) := by
  obtain ⟨a1, a2, a3, a4, a5, a6, a7⟩ := hm
  have hmatch : ch.isSome = true ∧ (es ≠ [] → (enterSeq m).c.nextPos + es.length - 1 < inp.length) := by
    cases ch with
    | none => dsimp only at hfirst; split at hfirst <;> cases hfirst
    | some c0 =>
      refine ⟨rfl, fun hne => ?_⟩
      dsimp only at hfirst
      split at hfirst
      · have := matchSeqFrom_matched es 1 hfirst hne
        omega
      · cases hfirst
  have hpos := a5 hmatch.1
  have hc := (enterSeq_c m).1
  have hx := (enterSeq_c m).2
  have hN : (leaveSeq { enterSeq m with c := { (enterSeq m).c with nextPos := (enterSeq m).c.nextPos + es.length } }).c.nextPos
      = m.c.nextPos + es.length := by rw [(leaveSeq_c _).1, hc]
  have hX : (leaveSeq { enterSeq m with c := { (enterSeq m).c with nextPos := (enterSeq m).c.nextPos + es.length } }).x = m.x := by
    rw [(leaveSeq_c _).2, hx]
  have hlt : m.c.nextPos + es.length - 1 < inp.length := by
    cases es with
    | nil => simpa using hpos
    | cons e' es' => have := hmatch.2 (by simp); rw [hc] at this; exact this
  refine ⟨by rw [hN]; omega, by rw [hN]; omega, by rw [hN]; omega, fun _ => by rw [hN]; exact hlt, ?_⟩
  rw [hN, hX]
  cases m with
  | mk c r x =>
  cases r with
  | lexer l =>
    simp only [RegsC, RegsA, enterSeq, leaveSeq] at a7 ⊢
    dsimp only at a1 a2
    refine ⟨a7.1, by omega, fun _ => by omega⟩
  | scanner s =>
    simp only [RegsC, RegsA, enterSeq, leaveSeq] at a7 ⊢
    dsimp only at a1 a2
    refine ⟨by omega, fun p hp => ?_, trivial⟩
    have := a7.2.1 p hp
    omega

def SumW (W : κ → Nat) (L : Nat) : (M κ × Option Signal) ⊕ M κ → Prop
  | .inl r => W r.1.x.sink ≤ L
  | .inr _ => True

theorem runSeqArms_W (hs : SinkSafe env.ops W inp U1) (hw : Wf env.tbl) {sd : StateDef} {n0 : Nat}
    (ch : Option UInt8) (arms : List Arm) (m : M κ) (hst : env.tbl.state? m.c.state = some sd)
    (hsub : ∀ a ∈ arms, a ∈ sd.arms) (hm : MInvC W inp.length lo n0 ch (hasSeqArm arms) m) :
    SumW W inp.length (runSeqArms env inp ch arms m) := by
  induction arms generalizing m with
  | nil => trivial
  | cons arm rest ih =>
    have harm : arm ∈ sd.arms := hsub arm (by simp)
    have hsub' : ∀ a ∈ rest, a ∈ sd.arms := fun a ha => hsub a (by simp [ha])
    simp only [runSeqArms]
    split
    · rename_i bytes ic hpat
      have hc : (leaveSeq (enterSeq m)).c = m.c := by rw [(leaveSeq_c _).1, (enterSeq_c _).1]
      have hcont := ih (leaveSeq (enterSeq m)) (by rw [hc]; exact hst) hsub' (leave_enter_MInvC m hm)
      split
      · exact hcont
      · rename_i e0 es
        split
        · simp only [SumW]
          rw [breakOnEndOfInput_sink, enterSeq_sink]
          exact MInvC_W hm
        · exact hcont
        · rename_i hfirst
          simp only [SumW]
          have hA := seqMatched_MInvA m e0 es ic hfirst hm
          have hbody := hw.body_ok hst harm
          rw [hpat] at hbody
          exact runBody_W hs arm.body _ hA (fun s hs' => (hbody s hs').1)
    · rename_i hnot
      apply ih m hst hsub'
      have : hasSeqArm (arm :: rest) = hasSeqArm rest := by
        simp only [hasSeqArm, List.any_cons]
        have : arm.pat.isChSeq = false := by
          cases hp : arm.pat <;> first | rfl | exact absurd hp (hnot _ _)
        rw [this, Bool.false_or]
      rw [this] at hm
      exact hm

theorem dispatch_W (hs : SinkSafe env.ops W inp U1) (hw : Wf env.tbl) {sd : StateDef} {n0 : Nat}
    (ch : Option UInt8) (m : M κ) (hst : env.tbl.state? m.c.state = some sd)
    (hent : (sd.enter.isEmpty || m.c.entered) = true)
    (hm : MInvC W inp.length lo n0 ch (hasSeqArm sd.arms) m) :
    W (dispatch env inp ch sd.arms m).1.x.sink ≤ inp.length := by
  have h1 := runSeqArms_post hs hw ch sd.arms m hst (fun _ h => h) hent hm
  have w1 := runSeqArms_W hs hw ch sd.arms m hst (fun _ h => h) hm
  unfold dispatch
  split
  · rename_i r hr
    rw [hr] at w1
    exact w1
  · rename_i m' hr
    rw [hr] at h1
    obtain ⟨hC, hc⟩ := h1
    have hst' : env.tbl.state? m'.c.state = some sd := by rw [hc]; exact hst
    split
    · exact MInvC_W hC
    · rename_i arm hfind
      obtain ⟨harm, hpm⟩ := findArm_some hfind
      have hbody := hw.body_ok hst' harm
      have hbr : ∀ (hb : Bool), (hb = true → ch.isSome = true) → (∀ s ∈ arm.body.seqs, seqOK hb s = true) →
          W (match (runBody env inp arm.body m').2.1, (runBody env inp arm.body m').2.2 with
             | some sig, _ => ((runBody env inp arm.body m').1, some sig)
             | none, .transitioned => ((runBody env inp arm.body m').1, none)
             | none, .fell => breakOnEndOfInput inp (runBody env inp arm.body m').1).1.x.sink ≤ inp.length := by
        intro hb hbch hok
        have := runBody_W hs arm.body m' (MInvA_of_C m' hC hbch) hok
        split
        · exact this
        · exact this
        · rw [breakOnEndOfInput_sink]; exact this
      split
      · rename_i hpat
        rw [hpat] at hbody
        exact hbr false (fun h => by cases h) (fun s hs' => (hbody s hs').1)
      · rename_i hpat
        rw [hpat] at hbody
        split
        · exact hbr false (fun h => by cases h) (fun s hs' => (hbody s hs').1)
        · rw [breakOnEndOfInput_sink]; exact MInvC_W hC
      · rename_i hne1 hne2
        have hhb : arm.pat.hasByte = true := by
          cases hp : arm.pat <;> first | rfl | exact absurd hp hne1 | exact absurd hp hne2
        rw [hhb] at hbody
        have hsome := patMatches_some hpm hhb
        exact runBody_W hs arm.body m' (MInvA_of_C m' hC (fun _ => hsome)) (fun s hs' => (hbody s hs').1)

theorem stateFn_W (hs : SinkSafe env.ops W inp U1) (hw : Wf env.tbl) (m : M κ)
    (hm : MInvB env.tbl inp.length (W m.x.sink) lo m) :
    W (stateFn env inp m).1.x.sink ≤ inp.length := by
  have h1 := stateFn_post hs hw m hm
  unfold StepPost at h1
  cases hsig : (stateFn env inp m).2 with
  | none => rw [hsig] at h1; exact MInvB_W h1.1
  | some sig =>
    rw [hsig] at h1
    cases sig with
    | endOfInput c => have := h1.1; have := h1.2.1; omega
    | directive d bm => have := h1.1; have := h1.2.1; omega
    | err e =>
      -- the error exit: walk through the state function
      rw [stateFn_eq]
      have hm' := hm
      obtain ⟨b1, b2, sd, hst, b3⟩ := hm'
      rw [hst]
      dsimp only
      obtain ⟨e1, e2⟩ := enterPhase_post hs hw m hst hm
      split
      · -- signalled by an enter action
        unfold enterPhase
        split
        · rename_i hcond
          simp only [Bool.and_eq_true, Bool.not_eq_true'] at hcond
          have hres : seqResume sd m.c = false := by
            simp only [seqResume, hcond.1, hcond.2, Bool.or_false, Bool.and_false]
          rw [hres] at b3
          have hA : MInvA W inp.length lo false true { m with c := { m.c with nextPos := m.c.nextPos + 1 } } := by
            refine ⟨by dsimp only; omega, by dsimp only; omega, by dsimp only; omega, fun h => (by cases h), ?_⟩
            dsimp only
            cases hr : m.r with
            | lexer l => rw [hr] at b3; simp only [RegsB, RegsA] at b3 ⊢; refine ⟨b3.1, by omega, fun _ => by omega⟩
            | scanner s =>
              rw [hr] at b3
              simp only [RegsB, RegsA] at b3 ⊢
              refine ⟨by omega, fun p hp => by have := b3.2.1 p hp; omega, ?_⟩
              rcases b3.2.2 with h | h
              · exact h
              · cases h
          have := runCalls_W hs sd.enter _ hA (flagCalls_quiet false sd.enter (hw.enter_quiet hst)) (Or.inr rfl)
          dsimp only
          split
          · exact this
          · exact this
        · exact MInvB_W hm
      · rename_i hnone
        obtain ⟨i1, i2, i3, i4⟩ := e2 hnone
        obtain ⟨c1, c2, sd', hsd', c3⟩ := i1
        rw [i3, hst] at hsd'
        simp only [Option.some.injEq] at hsd'
        subst hsd'
        have hC : ∀ (N' : Nat) (ch : Option UInt8), (enterPhase env inp sd m).1.c.nextPos + 1 ≤ N' → N' - 1 ≤ inp.length →
            (ch.isSome = true → N' - 1 < inp.length) → (ch = none → N' - 1 = inp.length) →
            MInvC W inp.length lo (enterPhase env inp sd m).1.c.nextPos ch (hasSeqArm sd.arms)
              { (enterPhase env inp sd m).1 with c := { (enterPhase env inp sd m).1.c with nextPos := N' } } := by
          intro N' ch h1' h2 h3 h4
          refine ⟨by dsimp only; omega, by dsimp only; omega, by dsimp only; omega, h2, h3, h4, ?_⟩
          dsimp only
          cases hr : (enterPhase env inp sd m).1.r with
          | lexer l => rw [hr] at c3; simp only [RegsB, RegsC] at c3 ⊢; omega
          | scanner s =>
            rw [hr] at c3
            simp only [RegsB, RegsC] at c3 ⊢
            refine ⟨by omega, fun p hp => by have := c3.2.1 p hp; omega, ?_⟩
            rcases c3.2.2 with h | h
            · exact Or.inl h
            · right
              simp only [seqResume, Bool.and_eq_true] at h
              exact h.1
        have hst2 : env.tbl.state? (enterPhase env inp sd m).1.c.state = some sd := by rw [i3]; exact hst
        unfold consumePhase
        split
        · rename_i needle _
          dsimp only
          split
          · rename_i p hp
            have hlt := findByte_lt hp
            simp only [List.length_drop] at hlt
            exact dispatch_W hs hw (some needle) _ hst2 i4
              (hC _ _ (by omega) (by omega) (fun _ => by omega) (fun h => by cases h))
          · simp only [List.length_drop]
            exact dispatch_W hs hw none _ hst2 i4
              (hC _ _ (by omega) (by omega) (fun h => by cases h) (fun _ => by omega))
        · dsimp only
          cases hch : inp[(enterPhase env inp sd m).1.c.nextPos]? with
          | some x =>
            have hlt : (enterPhase env inp sd m).1.c.nextPos < inp.length := by
              rcases Nat.lt_or_ge (enterPhase env inp sd m).1.c.nextPos inp.length with h | h
              · exact h
              · rw [List.getElem?_eq_none h] at hch; cases hch
            exact dispatch_W hs hw (some x) _ hst2 i4
              (hC _ _ (by omega) (by omega) (fun _ => by omega) (fun h => by cases h))
          | none =>
            have hge : inp.length ≤ (enterPhase env inp sd m).1.c.nextPos := by
              rcases Nat.lt_or_ge (enterPhase env inp sd m).1.c.nextPos inp.length with h | h
              · rw [List.getElem?_eq_getElem h] at hch; cases hch
              · exact h
            exact dispatch_W hs hw none _ hst2 i4
              (hC _ _ (by omega) (by omega) (fun h => by cases h) (fun _ => by omega))

theorem runLoop_W (hs : SinkSafe env.ops W inp U1) (hw : Wf env.tbl) (fuel : Nat) (m : M κ)
    (hm : MInvB env.tbl inp.length (W m.x.sink) lo m) :
    W (runLoop env inp fuel m).1.x.sink ≤ inp.length := by
  induction fuel generalizing m with
  | zero => simp only [runLoop]; exact MInvB_W hm
  | succ n ih =>
    simp only [runLoop]
    have h1 := stateFn_post hs hw m hm
    have w1 := stateFn_W hs hw m hm
    unfold StepPost at h1
    split
    · exact w1
    · rename_i hnone
      rw [hnone] at h1
      exact ih _ h1.1

/-- **Whatever `parse` returns, the watermark is inside the slice.** -/
theorem parse_W {cert : Cert} (hchk : checkCert env.tbl cert = true) (hs : SinkSafe env.ops W inp U1)
    (hs2 : SinkSafe2 env.ops inp) (hw : Wf env.tbl) (last : Bool) (p : Parser κ)
    (hp : PInv env.tbl inp.length W p) (htp : PTok env.tbl cert p) :
    W (Parser.parse env inp last p).1.x.sink ≤ inp.length := by
  obtain ⟨p', k, r1, r2, _, r4, r5⟩ := parseLoop_reach hchk hs hs2 hw last (fun _ => True)
    (fun _ _ => trivial) (2 * inp.length + 8) p hp htp trivial (nu_lt p hp)
  unfold Parser.parse
  rw [r4]
  obtain ⟨h1, _⟩ := machine_invs (cert := cert) last p' r1 r2
  have w1 := runLoop_W hs hw (defaultFuel inp) (p'.machine last) h1
  simp only [Parser.parseLoop]
  split
  · dsimp only; rw [Parser.store_x]; exact w1
  · rename_i d bm hsig
    exact absurd hsig (r5 d bm)
  · dsimp only; rw [Parser.store_x]; exact w1
  · dsimp only; rw [Parser.store_x]; exact w1

end
end LolHtml.Model
