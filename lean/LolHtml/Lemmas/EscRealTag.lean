import LolHtml.Lemmas.EscNames
import LolHtml.Spec.Attrs
/-!
`Spec.Attrs` (package attrs' independent reading of a start tag) evaluated on the serialised form
`<` tag-name ` ` attr-name `="` value `">`: for names accepted by lol-html's validators and a value
without `"` it finds exactly one attribute, with the ranges of exactly those bytes.
-/
namespace LolHtml.Lemmas.EscRealTag
open LolHtml LolHtml.Model LolHtml.Spec.Attrs

/-- a byte that does not end a tag name -/
def NameByte (b : UInt8) : Prop := isWs b = false ∧ (b == 47) = false ∧ (b == 62) = false
/-- a byte that does not end an attribute name -/
def AttrNameByte (b : UInt8) : Prop := NameByte b ∧ (b == 61) = false

theorem tagName_skip (start : Nat) : ∀ (nm rest : List UInt8) (p : Nat), (∀ b ∈ nm, NameByte b) →
    tagName start (nm ++ rest) p = tagName start rest (p + nm.length)
  | [], rest, p, _ => by simp
  | b :: nm, rest, p, h => by
    obtain ⟨h1, h2, h3⟩ := h b (by simp)
    simp only [List.cons_append, tagName, h1, h2, h3, Bool.false_eq_true, if_false]
    rw [tagName_skip start nm rest (p + 1) (fun x hx => h x (by simp [hx]))]
    simp only [List.length_cons]
    congr 1; omega

theorem attrName_skip (nmr : Range) (acc : List AttrOutline) (s : Nat) : ∀ (n rest : List UInt8) (p : Nat),
    (∀ b ∈ n, AttrNameByte b) →
    attrs nmr acc (.attrName s) (n ++ rest) p = attrs nmr acc (.attrName s) rest (p + n.length)
  | [], rest, p, _ => by simp
  | b :: n, rest, p, h => by
    obtain ⟨⟨h1, h2, h3⟩, h4⟩ := h b (by simp)
    simp only [List.cons_append, attrs, h1, h2, h3, h4, Bool.false_eq_true, if_false]
    rw [attrName_skip nmr acc s n rest (p + 1) (fun x hx => h x (by simp [hx]))]
    simp only [List.length_cons]
    congr 1; omega

theorem valueQuoted_skip (nmr : Range) (acc : List AttrOutline) (q : UInt8) (nr : Range) (vs : Nat) :
    ∀ (v rest : List UInt8) (p : Nat), (∀ b ∈ v, (b == q) = false) →
    attrs nmr acc (.valueQuoted q nr vs) (v ++ rest) p = attrs nmr acc (.valueQuoted q nr vs) rest (p + v.length)
  | [], rest, p, _ => by simp
  | b :: v, rest, p, h => by
    have h1 := h b (by simp)
    simp only [List.cons_append, attrs, h1, Bool.false_eq_true, if_false]
    rw [valueQuoted_skip nmr acc q nr vs v rest (p + 1) (fun x hx => h x (by simp [hx]))]
    simp only [List.length_cons]
    congr 1; omega

/-- `<` tn `>` -/
theorem startTagAt_bare (pre tn rest : Bytes) (c : UInt8) (tl : Bytes) (htn : tn = c :: tl)
    (hc : isAsciiAlpha c = true) (hname : ∀ b ∈ tn, NameByte b) :
    startTagAt (pre ++ [60] ++ tn ++ [62] ++ rest) pre.length =
      some (.finished ⟨⟨pre.length + 1, pre.length + 1 + tn.length⟩, [], false, pre.length + 1 + tn.length + 1⟩) := by
  subst htn
  have hd : (pre ++ [60] ++ c :: tl ++ [62] ++ rest).drop pre.length = 60 :: c :: (tl ++ 62 :: rest) := by
    simp [List.append_assoc]
  unfold startTagAt
  rw [hd]
  simp only [hc, if_true]
  rw [tagName_skip _ tl _ _ (fun x hx => hname x (by simp [hx]))]
  simp only [tagName, show isWs 62 = false by decide, show ((62 : UInt8) == 47) = false by decide,
    show ((62 : UInt8) == 62) = true by decide, Bool.false_eq_true, if_false, if_true, List.length_cons]
  simp only [Option.some.injEq, Res.finished.injEq, Tag.mk.injEq, Range.mk.injEq, true_and]
  omega

/-- `<` tn ` ` n `="` v `">` -/
theorem startTagAt_one_attr (pre tn n v rest : Bytes) (c : UInt8) (tl : Bytes) (htn : tn = c :: tl)
    (hc : isAsciiAlpha c = true) (hname : ∀ b ∈ tn, NameByte b)
    (hne : n ≠ []) (hattr : ∀ b ∈ n, AttrNameByte b) (hv : ∀ b ∈ v, (b == 34) = false) :
    startTagAt (pre ++ [60] ++ tn ++ [32] ++ n ++ [61, 34] ++ v ++ [34, 62] ++ rest) pre.length =
      some (.finished
        ⟨⟨pre.length + 1, pre.length + 1 + tn.length⟩,
         [⟨⟨pre.length + tn.length + 2, pre.length + tn.length + 2 + n.length⟩,
           ⟨pre.length + tn.length + n.length + 4, pre.length + tn.length + n.length + 4 + v.length⟩,
           ⟨pre.length + tn.length + 2, pre.length + tn.length + n.length + v.length + 5⟩⟩],
         false, pre.length + tn.length + n.length + v.length + 6⟩) := by
  subst htn
  obtain ⟨d, n', hn⟩ := List.exists_cons_of_ne_nil hne
  subst hn
  have hd : (pre ++ [60] ++ c :: tl ++ [32] ++ d :: n' ++ [61, 34] ++ v ++ [34, 62] ++ rest).drop pre.length
      = 60 :: c :: (tl ++ 32 :: d :: (n' ++ 61 :: 34 :: (v ++ 34 :: 62 :: rest))) := by
    simp [List.append_assoc]
  obtain ⟨⟨d1, d2, d3⟩, d4⟩ := hattr d (by simp)
  unfold startTagAt
  rw [hd]
  simp only [hc, if_true]
  rw [tagName_skip _ tl _ _ (fun x hx => hname x (by simp [hx]))]
  simp only [tagName, show isWs 32 = true by decide, if_true]
  simp only [attrs, d1, d2, d3, Bool.false_eq_true, if_false]
  rw [attrName_skip _ _ _ n' _ _ (fun x hx => hattr x (by simp [hx]))]
  simp only [attrs, show isWs 61 = false by decide, show ((61 : UInt8) == 61) = true by decide,
    show isWs 34 = false by decide, show ((34 : UInt8) == 34 || (34 : UInt8) == 39) = true by decide,
    Bool.false_eq_true, if_false, if_true]
  rw [valueQuoted_skip _ _ _ _ _ v _ _ hv]
  simp only [attrs, show ((34 : UInt8) == 34) = true by decide, if_true, show isWs 62 = false by decide,
    show ((62 : UInt8) == 47) = false by decide, show ((62 : UInt8) == 62) = true by decide,
    Bool.false_eq_true, if_false, List.nil_append, valued, List.length_cons]
  congr 3
  · congr 1 <;> omega
  · congr 1
    congr 1
    · congr 1 <;> omega
    · congr 1 <;> omega
    · congr 1 <;> omega
  · omega

end LolHtml.Lemmas.EscRealTag
