import LolHtml.Lemmas.ChunkStep
/-!
The step lemma: one state-function invocation in the two runs is either the same step (`LockOut`) or,
when the split input ends first, a break of the split run alone (`BreakOut`).
-/
namespace LolHtml.Model.Chunk
open LolHtml LolHtml.Model

variable {κ : Type}

def hasSeq (sd : StateDef) : Bool := sd.arms.any fun a => isSeqPat a.pat
def hasEoc (sd : StateDef) : Bool := sd.arms.any fun a => isEoc a.pat

def flagsOf (tbl : Table) (fs : FlagMap) (c : Common) : Ab :=
  match tbl.state? c.state with
  | some sd => flagsAt fs sd c.state c.entered
  | none => Ab.none

/-- the whole cursor is `skip` bytes behind; none of them is the needle of the `memchr` state -/
def SkipOk (nd : UInt8) (inpW : Bytes) (npw skip : Nat) : Prop :=
  ∃ l r, inpW.drop npw = l ++ r ∧ l.length = skip ∧ findByte nd l = none

/-- side conditions of the boundary relation -/
def BSide (tbl : Table) (inpW : Bytes) (d skip : Nat) (sm : SeqMode) (cs : Common) (npw : Nat) : Prop :=
  ∀ sd, tbl.state? cs.state = some sd →
    (sm = .none ∨ (sm = .stale ∧ hasSeq sd = true ∧ (sd.enter.isEmpty = true ∨ cs.entered = true))) ∧
    (0 < d → hasEoc sd = true) ∧
    (0 < skip → ∃ nd, sd.memchr = some nd ∧ (sd.enter.isEmpty = true ∨ cs.entered = true) ∧ SkipOk nd inpW npw skip)

/-- the boundary relation without `prevConsumed` (which `Parser.parse` updates after a break) -/
def BCore (tbl : Table) (fs : FlagMap) (inpW : Bytes) (δ d skip : Nat) (ms mw : M κ) : Prop :=
  ∃ sm, BreakRel δ d skip (flagsOf tbl fs ms.c) sm ms mw ∧ BSide tbl inpW d skip sm ms.c mw.c.nextPos

/-- **The relation between the two machines between state-function invocations.** -/
def BRel (tbl : Table) (fs : FlagMap) (inpW : Bytes) (δ d skip : Nat) (ms mw : M κ) : Prop :=
  BCore tbl fs inpW δ d skip ms mw ∧ ms.x.prevConsumed = mw.x.prevConsumed + δ

/-- both runs made the same step. `eoi`: a common break (`endOfInput` in both runs) is an allowed outcome;
it then relates the two re-based machines in the frame of the remaining text debt. -/
def LockOut (tbl : Table) (fs : FlagMap) (inpW : Bytes) (δ : Nat) (K : Nat → κ → κ → Prop) (Loc : κ → Nat → Nat → TextType → Prop)
    (eoi : Bool) (rs rw : M κ × Option Signal) : Prop :=
  SPanic rs.2 ∨
  (match rs.2, rw.2 with
   | none, none => ∃ d', BRel tbl fs inpW δ d' 0 rs.1 rw.1 ∧ K d' rs.1.x.sink rw.1.x.sink ∧
       (0 < d' → Loc rs.1.x.sink rs.1.x.prevConsumed (lexStart rs.1.r) rs.1.c.lastTextType)
   | some (.endOfInput c), some (.endOfInput c') =>
       eoi = true ∧ ∃ d', c' + d' = c + δ ∧ K d' rs.1.x.sink rw.1.x.sink ∧ rw.1.x.sim = rs.1.x.sim ∧
         rs.1.x.prevConsumed = rw.1.x.prevConsumed + δ ∧
         (rs.1.c.isLast = false → BCore tbl fs inpW d' d' 0 rs.1 rw.1) ∧
         d' = 0 ∧
         (0 < d' → Loc rs.1.x.sink rs.1.x.prevConsumed c rs.1.c.lastTextType) ∧
         (rs.1.c.isLast = false → lexStart rs.1.r = 0)
   | some (.directive dr bm), some (.directive dr' bm') =>
       SigRel δ 0 (some (.directive dr bm)) (some (.directive dr' bm')) ∧
       ∃ ab'', MRel δ 0 0 ab'' .none rs.1 rw.1 ∧ K 0 rs.1.x.sink rw.1.x.sink ∧ ScanIdle rs.1.r
   | a, b => SigRel δ 0 a b)

/-- what the split run's sink has received in a breaking step: nothing, or one text lexeme (`eoc` arm) -/
def SinkBrk (ops : SinkOps κ) (Loc : κ → Nat → Nat → TextType → Prop) (inpS : Bytes) (d d' : Nat) (x0 : Ctx κ) (sink' : κ)
    (c : Nat) (tt : TextType) : Prop :=
  (d' = d ∧ sink' = x0.sink ∧ (0 < d → Loc x0.sink x0.prevConsumed c tt)) ∨
  ∃ a, a < c ∧ d' = d + (c - a) ∧
    ops.handleNonTag inpS ⟨x0.prevConsumed, ⟨a, c⟩, some (.text tt)⟩ x0.sink = (sink', .ok ()) ∧
    (0 < d → Loc x0.sink x0.prevConsumed a tt)

/-- the split run broke at the end of its input; `mw0` is the whole machine before the step (after its
enter actions); `x0`: the split machine's context after its enter actions -/
def BreakOut (tbl : Table) (fs : FlagMap) (ops : SinkOps κ) (Loc : κ → Nat → Nat → TextType → Prop) (inpS inpW : Bytes) (δ d : Nat)
    (x0 : Ctx κ) (mw0 : M κ) (rs : M κ × Option Signal) : Prop :=
  SPanic rs.2 ∨ ∃ c d' skip', rs.2 = some (.endOfInput c) ∧
    BCore tbl fs inpW (δ + c) d' skip' rs.1 mw0 ∧
    rs.1.x.sim = x0.sim ∧ rs.1.x.prevConsumed = x0.prevConsumed ∧
    SinkBrk ops Loc inpS d d' x0 rs.1.x.sink c rs.1.c.lastTextType ∧ lexStart rs.1.r = 0

theorem MRel.toBreakRel {δ d skip : Nat} {ab : Ab} {sm : SeqMode} {ms mw : M κ} (h : MRel δ d skip ab sm ms mw) :
    BreakRel δ d skip ab sm ms mw := ⟨h.c, h.r, h.sim⟩

theorem BreakRel.toMRel {δ d skip : Nat} {ab : Ab} {sm : SeqMode} {ms mw : M κ} (h : BreakRel δ d skip ab sm ms mw)
    (hpc : ms.x.prevConsumed = mw.x.prevConsumed + δ) : MRel δ d skip ab sm ms mw := ⟨h.c, h.r, h.sim, hpc⟩

theorem Ab.none_le (a : Ab) : Ab.none.le a = true := by
  rw [Ab.le_iff]; simp [Ab.none]

/-! ### extraction of the table facts -/

theorem wf_state {tbl : Table} {fs : FlagMap} (hwf : WfChunkWith tbl fs = true) {st : StateId} {sd : StateDef}
    (h : tbl.state? st = some sd) : stateOk tbl fs st sd = true := by
  unfold WfChunkWith at hwf
  simp only [Bool.and_eq_true, List.all_eq_true] at hwf
  have := hwf.1 (sd, st) (by
    rw [List.mem_zipIdx_iff_getElem?]
    exact h)
  exact this

theorem wf_text {tbl : Table} {fs : FlagMap} (hwf : WfChunkWith tbl fs = true) {s : StateId}
    (h : s ∈ textStates tbl) : (fs s).1 = Ab.none := by
  unfold WfChunkWith at hwf
  simp only [Bool.and_eq_true, List.all_eq_true] at hwf
  have := hwf.2 s h
  exact eq_of_beq this

/-- the conjuncts of `stateOk` -/
structure StOk (tbl : Table) (fs : FlagMap) (st : StateId) (sd : StateDef) : Prop where
  p1 : (fs st).1.P = false
  p2 : (fs st).2.P = false
  sn1 : (fs st).1.Sn = true → (fs st).1.St = true
  sn2 : (fs st).2.Sn = true → (fs st).2.St = true
  enterE : sd.enter.isEmpty = true → (fs st).2.le (fs st).1 = true
  enterN : sd.enter.isEmpty = false → (∀ c ∈ sd.enter, enterOk c.act = true) ∧
    ∃ e, absCalls sd.enter (fs st).1.inStep = some e ∧ (fs st).2.le e.boundary = true
  arms : ∀ a ∈ sd.arms, armOk tbl fs st (fs st).2.inStep a = true
  debt : hasEoc sd = true → sd.enter.isEmpty = true ∧ (fs st).2 = Ab.none ∧ (fs st).1 = Ab.none ∧ hasSeq sd = false ∧
    ∀ a ∈ sd.arms, debtArmOk a = true
  mem : sd.memchr.isSome = true → hasSeq sd = false
  eocF : hasEoc sd = true → eocFirst sd.arms = true

theorem stOk_of {tbl : Table} {fs : FlagMap} {st : StateId} {sd : StateDef} (h : stateOk tbl fs st sd = true) :
    StOk tbl fs st sd := by
  unfold stateOk at h
  simp only [Bool.and_eq_true, Bool.not_eq_true', Bool.or_eq_true, List.all_eq_true, beq_iff_eq] at h
  obtain ⟨⟨⟨⟨⟨⟨⟨⟨h1, h2⟩, h3⟩, h4⟩, h5⟩, h6⟩, h7⟩, h8⟩, h9⟩ := h
  refine ⟨h1, h2, fun g => ?_, fun g => ?_, fun g => ?_, fun g => ?_, h6, fun g => ?_, fun g => ?_, fun g => ?_⟩
  · rcases h3 with h3 | h3
    · rw [g] at h3; cases h3
    · exact h3
  · rcases h4 with h4 | h4
    · rw [g] at h4; cases h4
    · exact h4
  · rw [if_pos g] at h5; exact h5
  · rw [if_neg (by rw [g]; simp)] at h5
    simp only [Bool.and_eq_true, List.all_eq_true] at h5
    refine ⟨h5.1, ?_⟩
    have h52 := h5.2
    split at h52
    · cases h52
    · rename_i e he; exact ⟨e, he, h52⟩
  · rcases h7 with h7 | h7
    · unfold hasEoc at g; rw [g] at h7; cases h7
    · obtain ⟨⟨⟨⟨a, b⟩, c⟩, d⟩, e⟩ := h7
      exact ⟨a, b, c, d, e⟩
  · rcases h8 with h8 | h8
    · rw [Option.isNone_iff_eq_none] at h8; rw [h8] at g; cases g
    · exact h8
  · rcases h9 with h9 | h9
    · unfold hasEoc at g; rw [g] at h9; cases h9
    · exact h9

/-- static context of a step: the current state, its definition and the table facts -/
structure StepCtx (tbl : Table) (fs : FlagMap) (st : StateId) (sd : StateDef) (c : Common) : Prop where
  look : tbl.state? st = some sd
  ok : StOk tbl fs st sd
  wf : WfChunkWith tbl fs = true
  st_eq : c.state = st
  ent : sd.enter.isEmpty = true ∨ c.entered = true

theorem StepCtx.flagsOf {tbl : Table} {fs : FlagMap} {st : StateId} {sd : StateDef} {c c' : Common}
    (cx : StepCtx tbl fs st sd c) (h1 : c'.state = c.state) (h2 : c'.entered = c.entered) :
    flagsOf tbl fs c' = (fs st).2 := by
  unfold Chunk.flagsOf
  rw [h1, cx.st_eq, cx.look]
  unfold flagsAt
  rcases cx.ent with h | h
  · simp [h]
  · simp [h2, h]

theorem StepCtx.of_cfix {tbl : Table} {fs : FlagMap} {st : StateId} {sd : StateDef} {c c' : Common}
    (cx : StepCtx tbl fs st sd c) (h : CFix c c') : StepCtx tbl fs st sd c' :=
  ⟨cx.look, cx.ok, cx.wf, by rw [h.2.2.1]; exact cx.st_eq, by rw [h.2.2.2]; exact cx.ent⟩

section
variable {env : Env κ} {inpS inpW : Bytes} {δ : Nat} {K : Nat → κ → κ → Prop} {Loc : κ → Nat → Nat → TextType → Prop}

/-- the flags valid at the entry of a state, as the boundary relation wants them -/
theorem flagsOf_entry {tbl : Table} {fs : FlagMap} (hwf : WfChunkWith tbl fs = true) (c : Common) (he : c.entered = false) :
    (flagsOf tbl fs c).le (fs c.state).1 = true := by
  unfold flagsOf
  cases hl : tbl.state? c.state with
  | none => exact Ab.none_le _
  | some sd' =>
    simp only
    unfold flagsAt
    have hok := stOk_of (wf_state hwf hl)
    cases hemp : sd'.enter.isEmpty
    · simp only [he, Bool.not_false, Bool.and_self, if_true]
      rw [Ab.le_iff]; simp
    · simp only [Bool.not_true, Bool.false_and, Bool.false_eq_true, if_false]
      exact hok.enterE hemp

theorem BSide.plain {tbl : Table} (inpW : Bytes) (cs : Common) (npw : Nat) : BSide tbl inpW 0 0 .none cs npw :=
  fun _ _ => ⟨Or.inl rfl, fun h => absurd h (Nat.lt_irrefl 0), fun h => absurd h (Nat.lt_irrefl 0)⟩

/-- related signals (with the machine relation on a directive change) as a step outcome -/
theorem lockOut_of_sig {tbl : Table} {fs : FlagMap} {eoi : Bool} {ms mw : M κ} {sg sg' : Signal}
    (hs : SigRel δ 0 (some sg) (some sg')) (hdir : DirOk δ K (ms, some sg) (mw, some sg')) :
    LockOut tbl fs inpW δ K Loc eoi (ms, some sg) (mw, some sg') := by
  right
  cases sg with
  | err e => cases sg' <;> first | exact hs | exact hs.elim
  | endOfInput c => cases sg' <;> exact hs.elim
  | directive dr bm =>
    cases sg' with
    | directive dr' bm' => exact ⟨hs, hdir dr bm rfl⟩
    | err e => exact hs.elim
    | endOfInput c => exact hs.elim

/-- an arm body's outcome as a step outcome -/
theorem body_to_lock {fs : FlagMap} {st : StateId} {sd : StateDef} {c0 : Common} {eoi : Bool}
    (cx : StepCtx env.tbl fs st sd c0) {rs rw : M κ × Option Signal × SeqEnd}
    (hb : BodySim δ K fs st true c0 rs rw) :
    LockOut env.tbl fs inpW δ K Loc eoi (rs.1, rs.2.1) (rw.1, rw.2.1) := by
  rcases hb with hp | ⟨hs, hend, hdir, hm⟩
  · exact Or.inl hp
  · cases hrs : rs.2.1 with
    | some sg =>
      rw [hrs] at hs
      cases hrw : rw.2.1 with
      | none => rw [hrw] at hs; cases hs.none_right
      | some sg' =>
        rw [hrw] at hs
        rw [hrs, hrw] at hdir
        exact lockOut_of_sig hs hdir
    | none =>
      rw [hrs] at hs
      rw [hs.none_left]
      obtain ⟨hk, hcase⟩ := hm hrs
      right
      simp only
      refine ⟨0, ?_, hk, fun hh => absurd hh (Nat.lt_irrefl 0)⟩
      cases hse : rs.2.2 with
      | transitioned =>
        rw [hse] at hcase
        obtain ⟨hmr, hent⟩ := hcase
        have hle := flagsOf_entry cx.wf rs.1.c hent
        exact ⟨⟨.none, (hmr.weaken hle).toBreakRel, BSide.plain _ _ _⟩, hmr.pc⟩
      | fell =>
        rw [hse] at hcase
        obtain ⟨hfix, ab'', hmr, hle, _⟩ := hcase
        have hfl := cx.flagsOf hfix.2.2.1 hfix.2.2.2
        refine ⟨⟨.none, ?_, BSide.plain _ _ _⟩, hmr.pc⟩
        rw [hfl]
        exact (hmr.weaken (hle rfl)).toBreakRel

end

/-! ### sequence arms -/

theorem Ab.inStep_boundary {a : Ab} (h : a.P = false) : a.inStep.boundary = a := by
  cases a; simp only [Ab.inStep, Ab.boundary] at *; subst h; rfl

theorem leaveSeq_idem (m : M κ) : (leaveSeq (leaveSeq m)).r = (leaveSeq m).r := by
  obtain ⟨c, r, x⟩ := m; cases r <;> rfl

theorem leaveSeq_enterSeq_r (m : M κ) : (leaveSeq (enterSeq m)).r = (leaveSeq m).r := by
  obtain ⟨c, r, x⟩ := m; cases r <;> rfl

theorem leaveSeq_r_congr {m m' : M κ} (h : m'.r = m.r) : (leaveSeq m').r = (leaveSeq m).r := by
  obtain ⟨c, r, x⟩ := m; obtain ⟨c', r', x'⟩ := m'; simp only at h; subst h; cases r' <;> rfl

theorem LexRel.mono_np {δ d np np' : Nat} {ab : Ab} {ls lw : LexRegs} (hl : LexRel δ d ab np ls lw) (hk : np ≤ np') :
    LexRel δ d ab np' ls lw :=
  { hl with ls_le := Nat.le_trans hl.ls_le hk, p := fun g => Nat.le_trans (hl.p g) hk,
            ntu := fun g n hn => leNonTag_mono hk (hl.ntu g n hn),
            ntp := fun g g' n hn => leNonTag_mono (Nat.sub_le_sub_right hk 1) (hl.ntp g g' n hn) }

theorem RegsRel.mono_np {δ d np np' : Nat} {ab : Ab} {rs rw : Regs} (h : RegsRel δ d ab .none np rs rw) (hk : np ≤ np') :
    RegsRel δ d ab .none np' rs rw := by
  cases rs <;> cases rw
  · have hl : LexRel δ d ab np _ _ := h
    exact hl.mono_np hk
  · exact h
  · exact h
  · obtain ⟨h1, h2, h3⟩ := h
    exact ⟨h1, { h2 with ts_le := fun t ht => Nat.le_trans (h2.ts_le t ht) hk,
                         p := fun g => ⟨Nat.le_trans (h2.p g).1 hk, fun t ht => Nat.le_trans ((h2.p g).2 t ht) hk⟩ }, h3⟩

/-- `consume_several (n-1)` + `leave_ch_sequence_matching` after a matched sequence -/
theorem advLeave_sim {δ d : Nat} {ab : Ab} {sm : SeqMode} {ms mw : M κ} (h : MRel δ d 0 ab sm ms mw) (k : Nat) :
    MRel δ d 0 ab .none (leaveSeq { ms with c := { ms.c with nextPos := ms.c.nextPos + k } })
      (leaveSeq { mw with c := { mw.c with nextPos := mw.c.nextPos + k } }) := by
  obtain ⟨hc, hr, hsim, hpc⟩ := h
  have hnp := hc.nextPos
  obtain ⟨cs, rs, xs⟩ := ms
  obtain ⟨cw, rw, xw⟩ := mw
  cases rs with
  | lexer ls =>
    cases rw with
    | scanner sw => exact hr.elim
    | lexer lw =>
      have hl : LexRel δ d ab cs.nextPos ls lw := hr
      refine ⟨{ hc with nextPos := by show cw.nextPos + k + 0 = cs.nextPos + k + δ; simp only at hnp; omega }, ?_, hsim, hpc⟩
      show LexRel δ d ab (cs.nextPos + k) ls lw
      exact hl.mono_np (Nat.le_add_right _ _)
  | scanner ss =>
    cases rw with
    | lexer lw => exact hr.elim
    | scanner sw =>
      obtain ⟨h1, h2, _⟩ := hr
      refine ⟨{ hc with nextPos := by show cw.nextPos + k + 0 = cs.nextPos + k + δ; simp only at hnp; omega }, ?_, hsim, hpc⟩
      show d = 0 ∧ ScanRel δ ab (cs.nextPos + k) { ss with chSeqStart := none } { sw with chSeqStart := none } ∧
        SeqRel δ (cs.nextPos + k) .none none none
      refine ⟨h1, ?_, rfl, rfl⟩
      have h3 := h2.setSeq none none
      exact { h3 with ts_le := fun t ht => Nat.le_trans (h3.ts_le t ht) (Nat.le_add_right _ _),
                      p := fun g => ⟨Nat.le_trans (h3.p g).1 (Nat.le_add_right _ _),
                        fun t ht => Nat.le_trans ((h3.p g).2 t ht) (Nat.le_add_right _ _)⟩ }

section
variable {env : Env κ} {inpS inpW : Bytes} {δ : Nat} {K : Nat → κ → κ → Prop} {Loc : κ → Nat → Nat → TextType → Prop}

/-- the first comparison + look-ahead of a sequence arm -/
def firstOf (inp : Bytes) (ch : Option UInt8) (e0 : UInt8) (es : List UInt8) (ic il : Bool) (np : Nat) : SeqMatch :=
  match ch with
  | some c0 => if seqCmp c0 e0 ic then matchSeqFrom inp il ic np 1 es else .mismatch
  | none => if il then .mismatch else .needMore

theorem first_sim (F : Frame inpS inpW δ) (ch : Option UInt8) (e0 : UInt8) (es : List UInt8) (ic il : Bool) (nps : Nat)
    (hchin : ch.isSome = true → nps ≤ inpS.length) (hil : il = true → Closed inpS inpW δ) :
    (firstOf inpW ch e0 es ic il (nps + δ) = firstOf inpS ch e0 es ic il nps ∧
      (firstOf inpS ch e0 es ic il nps = .matched → nps + es.length ≤ inpS.length)) ∨
    (firstOf inpS ch e0 es ic il nps = .needMore ∧ ¬ Closed inpS inpW δ ∧ il = false) := by
  unfold firstOf
  cases ch with
  | none =>
    simp only
    exact Or.inl ⟨trivial, fun h => by cases il <;> simp at h⟩
  | some c0 =>
    simp only
    by_cases hc : seqCmp c0 e0 ic = true
    · rw [if_pos hc, if_pos hc]
      rcases matchSeq_sim F il ic hil nps es 1 (Nat.le_refl 1) with ⟨h1, h2⟩ | ⟨h3, h4, h5⟩
      · refine Or.inl ⟨h1, fun hm => ?_⟩
        cases es with
        | nil => exact hchin rfl
        | cons e' es' =>
          have := h2 hm (by simp)
          omega
      · exact Or.inr ⟨h3, h4, h5⟩
    · rw [if_neg hc, if_neg hc]
      exact Or.inl ⟨rfl, fun h => by cases h⟩

end

section
variable {env : Env κ} {inpS inpW : Bytes} {δ : Nat} {K : Nat → κ → κ → Prop} {Loc : κ → Nat → Nat → TextType → Prop}

theorem chSeqOf_none_of_rel {δ d skip : Nat} {ab : Ab} {ms mw : M κ} (h : MRel δ d skip ab .none ms mw) :
    chSeqOf ms.r = none ∧ chSeqOf mw.r = none := by
  obtain ⟨_, hr, _, _⟩ := h
  obtain ⟨cs, rs, xs⟩ := ms
  obtain ⟨cw, rw, xw⟩ := mw
  cases rs <;> cases rw
  · exact ⟨rfl, rfl⟩
  · exact hr.elim
  · exact hr.elim
  · exact hr.2.2

/-- with a text debt the machine is the lexer, whose consumed byte count is its lexeme start -/
theorem consumed_lexStart {d skip : Nat} {ab : Ab} {sm : SeqMode} {ms mw : M κ} (h : MRel δ d skip ab sm ms mw) (hd : 0 < d) :
    consumedByteCount inpS ms = lexStart ms.r := by
  obtain ⟨_, hr, _, _⟩ := h
  obtain ⟨cs, rs, xs⟩ := ms
  obtain ⟨cw, rw, xw⟩ := mw
  cases rs with
  | lexer ls => rfl
  | scanner ss =>
    cases rw with
    | lexer lw => exact hr.elim
    | scanner sw => have := hr.1; omega

/-- what a (non-last) break returns -/
theorem break_facts (inp : Bytes) (m : M κ) (hl : m.c.isLast = false) {c : Nat}
    (h : (breakOnEndOfInput inp m).2 = some (.endOfInput c)) :
    c = consumedByteCount inp m ∧ lexStart (breakOnEndOfInput inp m).1.r = 0 ∧
      (breakOnEndOfInput inp m).1.c.lastTextType = m.c.lastTextType := by
  rw [breakOnEndOfInput_eq inp m hl] at h ⊢
  split at h
  · cases h
  · rename_i hu
    rw [if_neg hu]
    simp only [Option.some.injEq, Signal.endOfInput.injEq] at h
    refine ⟨h.symm, ?_, by simp only [adjust_c]⟩
    simp only
    unfold adjustForNextInput
    obtain ⟨cm, r, x⟩ := m
    cases r with
    | lexer l => rfl
    | scanner sc => simp only; split <;> rfl

/-- `break_split`, packaged as a `BreakOut` -/
theorem breakOut_of_split {fs : FlagMap} {st : StateId} {sd : StateDef} {d0 d : Nat} {sm : SeqMode} {ms mw mw0 : M κ}
    (cx : StepCtx env.tbl fs st sd ms.c) (h : MRel δ d 0 (fs st).2.inStep sm ms mw) (hl : ms.c.isLast = false)
    (hsm : sm = .none ∨ (sm = .inSeq ∧ hasSeq sd = true)) (hdebt : 0 < d → hasEoc sd = true)
    (npw0 : Nat) (hnp : npw0 ≤ ms.c.nextPos - 1 + δ)
    (hskip : 0 < ms.c.nextPos - 1 + δ - npw0 → ∃ nd, sd.memchr = some nd ∧ SkipOk nd inpW npw0 (ms.c.nextPos - 1 + δ - npw0))
    (hc0 : mw0.c = { mw.c with nextPos := npw0 }) (hx0 : mw0.x = mw.x) (hr0 : (leaveSeq mw0).r = (leaveSeq mw).r)
    (hq0 : hasSeq sd = false → chSeqOf mw0.r = none)
    (x0 : Ctx κ) (hsim0 : ms.x.sim = x0.sim) (hpc0 : ms.x.prevConsumed = x0.prevConsumed)
    (hsink : SinkBrk env.ops Loc inpS d0 d x0 ms.x.sink (consumedByteCount inpS ms) ms.c.lastTextType) :
    BreakOut env.tbl fs env.ops Loc inpS inpW δ d0 x0 mw0 (breakOnEndOfInput inpS ms) := by
  have hsm' : sm ≠ .stale := by
    rcases hsm with h | ⟨h, _⟩ <;> rw [h] <;> intro hh <;> cases hh
  have hout : (if hasSeq sd = true then SeqMode.stale else SeqMode.none) = .stale ∨
      ((if hasSeq sd = true then SeqMode.stale else SeqMode.none) = .none ∧ chSeqOf ms.r = none ∧ chSeqOf mw0.r = none) := by
    cases hhs : hasSeq sd with
    | true => exact Or.inl rfl
    | false =>
      right
      refine ⟨rfl, ?_, hq0 hhs⟩
      rcases hsm with h' | ⟨_, h'⟩
      · subst h'; exact (chSeqOf_none_of_rel h).1
      · rw [hhs] at h'; cases h'
  rcases break_split (inpS := inpS) h rfl hl (fun g => cx.ok.sn2 g) hsm' npw0 hnp hc0 hx0 hr0 _ hout with hp | ⟨c, hsig, hbr, hx, hst, hent, hc1⟩
  · exact Or.inl hp
  · obtain ⟨bf1, bf2, bf3⟩ := break_facts inpS ms hl hsig
    refine Or.inr ⟨c, d, ms.c.nextPos - 1 + δ - npw0, hsig, ⟨(if hasSeq sd = true then SeqMode.stale else SeqMode.none), ?_, ?_⟩,
      by rw [hx]; exact hsim0, by rw [hx]; exact hpc0, by rw [hx, bf1, bf3]; exact hsink, bf2⟩
    · rw [cx.flagsOf hst hent]
      rw [Ab.inStep_boundary cx.ok.p2] at hbr
      exact hbr
    · intro sd' hlook
      rw [hst, cx.st_eq, cx.look] at hlook
      cases hlook
      refine ⟨?_, hdebt, fun hpos => ?_⟩
      · cases hhs : hasSeq sd with
        | true => right; exact ⟨by simp, rfl, by rw [hent]; exact cx.ent⟩
        | false => left; simp
      · obtain ⟨nd, h1, h2⟩ := hskip hpos
        refine ⟨nd, h1, by rw [hent]; exact cx.ent, ?_⟩
        rw [hc0]; exact h2

end

section
variable {env : Env κ}

theorem runSeqArms_seq (inp : Bytes) (ch : Option UInt8) (arm : Arm) (rest : List Arm) (m : M κ) (e0 : UInt8)
    (es : List UInt8) (ic : Bool) (hp : arm.pat = .chSeq (e0 :: es) ic) :
    runSeqArms env inp ch (arm :: rest) m =
      match firstOf inp ch e0 es ic (enterSeq m).c.isLast (enterSeq m).c.nextPos with
      | .needMore => .inl (breakOnEndOfInput inp (enterSeq m))
      | .mismatch => runSeqArms env inp ch rest (leaveSeq (enterSeq m))
      | .matched =>
        .inl ((runBody env inp arm.body (leaveSeq { enterSeq m with c := { (enterSeq m).c with nextPos := (enterSeq m).c.nextPos + es.length } })).1,
              (runBody env inp arm.body (leaveSeq { enterSeq m with c := { (enterSeq m).c with nextPos := (enterSeq m).c.nextPos + es.length } })).2.1) := by
  simp only [runSeqArms, hp, firstOf]
  cases ch <;> rfl

theorem runSeqArms_seq_nil (inp : Bytes) (ch : Option UInt8) (arm : Arm) (rest : List Arm) (m : M κ) (ic : Bool)
    (hp : arm.pat = .chSeq [] ic) :
    runSeqArms env inp ch (arm :: rest) m = runSeqArms env inp ch rest (leaveSeq (enterSeq m)) := by
  simp only [runSeqArms, hp]

theorem runSeqArms_skip (inp : Bytes) (ch : Option UInt8) (arm : Arm) (rest : List Arm) (m : M κ)
    (hp : isSeqPat arm.pat = false) :
    runSeqArms env inp ch (arm :: rest) m = runSeqArms env inp ch rest m := by
  simp only [runSeqArms]
  split
  · rename_i h; rw [h] at hp; cases hp
  · rfl

theorem enterSeq_c (m : M κ) : (enterSeq m).c = m.c := by obtain ⟨c, r, x⟩ := m; cases r <;> rfl
theorem enterSeq_x (m : M κ) : (enterSeq m).x = m.x := by obtain ⟨c, r, x⟩ := m; cases r <;> rfl
theorem leaveSeq_c (m : M κ) : (leaveSeq m).c = m.c := by obtain ⟨c, r, x⟩ := m; cases r <;> rfl
theorem leaveSeq_x (m : M κ) : (leaveSeq m).x = m.x := by obtain ⟨c, r, x⟩ := m; cases r <;> rfl

end

end LolHtml.Model.Chunk
