import LolHtml.Lemmas.ScanLexDefs
/-!
C06: one action, executed by the scanner and by the lexer from related machines, leads to related
machines (labels updated by `phAct`).
-/
set_option linter.unusedSimpArgs false
set_option linter.unusedVariables false

namespace LolHtml.Model

abbrev L := List TagEv

def envS (tbl : Table) (cfg : TagCfg) : Env L := ⟨tbl, cfg, scanLog⟩
def envL (tbl : Table) (cfg : TagCfg) : Env L := ⟨tbl, cfg, lexLog⟩

theorem lnHash_new {inp : Bytes} {r : Range} {h : Nat} {n : LocalName} (hn : LocalName.new inp r h = some n) :
    lnHash n = h := by
  unfold LocalName.new at hn
  split at hn
  · rename_i he
    cases hc : checkedSlice inp r with
    | none => simp [hc] at hn
    | some b =>
      simp only [hc, Option.map_some, Option.some.injEq] at hn
      subst hn
      simp only [NameHash.isEmpty, beq_iff_eq] at he
      simp [lnHash, he]
  · simp only [Option.some.injEq] at hn
    subst hn; rfl

/-! ### what the relation depends on -/

section
variable {cfg : TagCfg}

theorem Conc_congr_lex {ab : Ab} {cs : Common} {s : ScanRegs} {xs : Ctx L} {cl : Common} {l l' : LexRegs} {xl xl' : Ctx L}
    (h : Conc cfg ab cs s xs cl l xl) (h1 : l'.curTag.map tagKey = l.curTag.map tagKey) (h2 : l'.fd = l.fd)
    (h3 : xl'.sim = xl.sim) (h4 : xl'.sink = xl.sink) : Conc cfg ab cs s xs cl l' xl' := by
  cases ab with
  | unreach => exact h
  | outClean =>
    obtain ⟨⟨a1, a2, a3, a4, a5, a6⟩, b⟩ := h
    exact ⟨⟨a1, by rw [h3]; exact a2, by rw [h4]; exact a3, a4, by rw [h2]; exact a5, by unfold TagCorr at *; rw [h1]; exact a6⟩, b⟩
  | outEnd =>
    obtain ⟨a1, a2, a3, a4, a5, a6⟩ := h
    exact ⟨a1, by rw [h3]; exact a2, by rw [h4]; exact a3, a4, by rw [h2]; exact a5, by unfold TagCorr at *; rw [h1]; exact a6⟩
  | inTag =>
    obtain ⟨a1, a2, a3⟩ := h
    exact ⟨by rw [h1, h3, h4]; exact a1, a2, by rw [h2]; exact a3⟩

theorem Conc_congr_scan {ab : Ab} {cs : Common} {s s' : ScanRegs} {xs : Ctx L} {cl : Common} {l : LexRegs} {xl : Ctx L}
    (h : Conc cfg ab cs s xs cl l xl) (h1 : s'.isInEndTag = s.isInEndTag) (h2 : s'.tagNameHash = s.tagNameHash)
    (h3 : s'.pendingTextTypeChange = s.pendingTextTypeChange) : Conc cfg ab cs s' xs cl l xl := by
  cases ab with
  | unreach => exact h
  | outClean =>
    obtain ⟨⟨a1, a2, a3, a4, a5, a6⟩, b⟩ := h
    exact ⟨⟨a1, a2, a3, by rw [h3]; exact a4, a5, by unfold TagCorr at *; rw [h1, h2]; exact a6⟩, by rw [h1]; exact b⟩
  | outEnd =>
    obtain ⟨a1, a2, a3, a4, a5, a6⟩ := h
    exact ⟨a1, a2, a3, by rw [h3]; exact a4, a5, by unfold TagCorr at *; rw [h1, h2]; exact a6⟩
  | inTag =>
    obtain ⟨a1, a2, a3⟩ := h
    exact ⟨by rw [h3]; exact a1, by rw [h1]; exact a2, a3⟩

/-- an update of the common registers that commutes with `commit` -/
theorem Conc_common {ab : Ab} {cs : Common} {s : ScanRegs} {xs : Ctx L} {cl : Common} {l : LexRegs} {xl : Ctx L}
    (f : Common → Common) (hf : ∀ c g key, f (commit c g key) = commit (f c) g key)
    (h : Conc cfg ab cs s xs cl l xl) : Conc cfg ab (f cs) s xs (f cl) l xl := by
  cases ab with
  | unreach => exact h
  | outClean =>
    obtain ⟨⟨a1, a2, a3, a4, a5, a6⟩, b⟩ := h
    exact ⟨⟨by rw [a1], a2, a3, a4, a5, a6⟩, b⟩
  | outEnd =>
    obtain ⟨a1, a2, a3, a4, a5, a6⟩ := h
    exact ⟨by rw [a1], a2, a3, a4, a5, a6⟩
  | inTag =>
    obtain ⟨⟨key, S1, g, e1, e2, e3, e4, e5, e6, e7⟩, a2, a3⟩ := h
    exact ⟨⟨key, S1, g, e1, e2, e3, e4, e5, by rw [e6, hf], e7⟩, a2, a3⟩

theorem Conc_le {ab tgt : Ab} {cs : Common} {s : ScanRegs} {xs : Ctx L} {cl : Common} {l : LexRegs} {xl : Ctx L}
    (hle : ab.le tgt = true) (h : Conc cfg ab cs s xs cl l xl) : Conc cfg tgt cs s xs cl l xl := by
  cases ab <;> cases tgt <;> simp [Ab.le] at hle <;> first | exact h | exact h.1

/-- registers that steer the table agree in every phase -/
theorem Conc_fields {ab : Ab} {cs : Common} {s : ScanRegs} {xs : Ctx L} {cl : Common} {l : LexRegs} {xl : Ctx L}
    (h : Conc cfg ab cs s xs cl l xl) :
    cs.nextPos = cl.nextPos ∧ cs.isLast = cl.isLast ∧ cs.state = cl.state ∧ cs.entered = cl.entered ∧
    cs.closingQuote = cl.closingQuote ∧ cs.lastTextType = cl.lastTextType := by
  cases ab with
  | unreach => exact h.elim
  | outClean => rw [h.1.c_eq]; simp
  | outEnd => rw [h.c_eq]; simp
  | inTag =>
    obtain ⟨⟨key, S1, g, _, _, _, _, _, e6, _⟩, _, _⟩ := h
    rw [e6]; simp [commit]

theorem Conc_out {ab : Ab} {cs : Common} {s : ScanRegs} {xs : Ctx L} {cl : Common} {l : LexRegs} {xl : Ctx L}
    (h : Conc cfg ab cs s xs cl l xl) (hab : ab = .outClean ∨ ab = .outEnd) : RA cs s xs cl l xl := by
  rcases hab with rfl | rfl
  · exact h.1
  · exact h

end

/-! ### the actions -/

section
variable {tbl : Table} {cfg : TagCfg} {inp : Bytes}

theorem Rel_mk {ab : Ab} {cs : Common} {s : ScanRegs} {xs : Ctx L} {cl : Common} {l : LexRegs} {xl : Ctx L} :
    Rel cfg ab ⟨cs, .scanner s, xs⟩ ⟨cl, .lexer l, xl⟩ = Conc cfg ab cs s xs cl l xl := rfl

theorem lexEmitNonTag_log (c : Common) (l : LexRegs) (x : Ctx L) (o : Option NonTagOutline) (e : Nat) :
    lexEmitNonTag (envL tbl cfg) inp c l x o e = (⟨c, .lexer { l with lexemeStart := e }, x⟩, none) := by
  simp [lexEmitNonTag, envL, lexLog]

theorem lexEmitText_log (c : Common) (l : LexRegs) (x : Ctx L) :
    ∃ e, lexEmitText (envL tbl cfg) inp c l x = (⟨c, .lexer { l with lexemeStart := e }, x⟩, none) := by
  unfold lexEmitText
  split
  · exact ⟨_, lexEmitNonTag_log _ _ _ _ _⟩
  · exact ⟨l.lexemeStart, rfl⟩

theorem lexEmitEof_log (c : Common) (l : LexRegs) (x : Ctx L) :
    ∃ e, lexEmitEof (envL tbl cfg) inp ⟨c, .lexer l, x⟩ = (⟨c, .lexer { l with lexemeStart := e }, x⟩, none) :=
  ⟨_, lexEmitNonTag_log _ _ _ _ _⟩

/-- lexer actions that touch only lexer-private state and do not signal (with the logging sink) -/
def lexPrivate : ActName → Bool
  | .emitText | .emitTextAndEof | .emitCurrentToken | .emitCurrentTokenAndEof
  | .emitRawWithoutToken | .emitRawWithoutTokenAndEof
  | .createDoctype | .createComment | .startTokenPart | .markCommentTextEnd | .shiftCommentTextEndBy _
  | .setForceQuirks | .finishDoctypeName | .finishDoctypePublicId | .finishDoctypeSystemId
  | .markAsSelfClosing | .startAttr | .finishAttrName | .finishAttrValue | .finishAttr
  | .markTagStart | .unmarkTagStart => true
  | _ => false

theorem tagKey_attrs (n : Range) (h : Nat) (ns : Ns) (as as' : List AttrOutline) (sc sc' : Bool) :
    tagKey (.startTag n h ns as sc) = tagKey (.startTag n h ns as' sc') := rfl

theorem lexAct_private (a : ActName) (ha : lexPrivate a = true) (c : Common) (l : LexRegs) (x : Ctx L) :
    ∃ l', lexAct (envL tbl cfg) a inp c l x = (⟨c, .lexer l', x⟩, none) ∧
      l'.curTag.map tagKey = l.curTag.map tagKey ∧ l'.fd = l.fd := by
  cases a <;> simp only [lexPrivate, Bool.false_eq_true] at ha <;> simp only [lexAct]
  case emitText =>
    obtain ⟨e, he⟩ := lexEmitText_log (tbl := tbl) (cfg := cfg) (inp := inp) c l x
    exact ⟨_, he, rfl, rfl⟩
  case emitTextAndEof =>
    obtain ⟨e, he⟩ := lexEmitText_log (tbl := tbl) (cfg := cfg) (inp := inp) c l x
    rw [he]
    obtain ⟨e2, he2⟩ := lexEmitEof_log (tbl := tbl) (cfg := cfg) (inp := inp) c { l with lexemeStart := e } x
    exact ⟨_, he2, rfl, rfl⟩
  case emitCurrentToken => exact ⟨_, lexEmitNonTag_log _ _ _ _ _, rfl, rfl⟩
  case emitCurrentTokenAndEof =>
    rw [lexEmitNonTag_log]
    obtain ⟨e2, he2⟩ := lexEmitEof_log (tbl := tbl) (cfg := cfg) (inp := inp) c
      { { l with curNonTag := none } with lexemeStart := c.pos } x
    exact ⟨_, he2, rfl, rfl⟩
  case emitRawWithoutToken => exact ⟨_, lexEmitNonTag_log _ _ _ _ _, rfl, rfl⟩
  case emitRawWithoutTokenAndEof =>
    rw [lexEmitNonTag_log]
    obtain ⟨e2, he2⟩ := lexEmitEof_log (tbl := tbl) (cfg := cfg) (inp := inp) c { l with lexemeStart := c.pos } x
    exact ⟨_, he2, rfl, rfl⟩
  case markAsSelfClosing =>
    split
    · rename_i n h ns as sc heq
      exact ⟨_, rfl, by simp [heq, tagKey], rfl⟩
    · exact ⟨_, rfl, rfl, rfl⟩
  case finishAttr =>
    split
    · split
      · rename_i n h ns as sc heq
        exact ⟨_, rfl, by simp [heq, tagKey], rfl⟩
      · exact ⟨_, rfl, rfl, rfl⟩
    · exact ⟨_, rfl, rfl, rfl⟩
  all_goals (first
    | exact ⟨_, rfl, rfl, rfl⟩
    | (split <;> exact ⟨_, rfl, rfl, rfl⟩))

/-- on these actions the scanner changes nothing the relation depends on -/
theorem scanAct_private (a : ActName) (ha : lexPrivate a = true) (c : Common) (s : ScanRegs) (x : Ctx L) :
    ∃ s', scanAct (envS tbl cfg) a inp c s x = (⟨c, .scanner s', x⟩, none) ∧
      s'.isInEndTag = s.isInEndTag ∧ s'.tagNameHash = s.tagNameHash ∧
      s'.pendingTextTypeChange = s.pendingTextTypeChange := by
  cases a <;> simp only [lexPrivate, Bool.false_eq_true] at ha <;> simp only [scanAct] <;>
    exact ⟨_, rfl, rfl, rfl, rfl⟩


theorem absAct_private {a : ActName} {ab ab' : Ab} (ha : lexPrivate a = true) (h : phAct a ab = some ab') : ab' = ab := by
  cases a <;> simp only [lexPrivate, Bool.false_eq_true] at ha <;> cases ab <;> simp [phAct] at h <;> exact h.symm

/-- the scanner's hint emission with the logging sink -/
theorem scanEmitHint_log (c : Common) (s : ScanRegs) (x : Ctx L) (ts : Nat) (ie : Bool)
    (hnone : (scanEmitHint (envS tbl cfg) inp c s x ts ie).2 = none) :
    (scanEmitHint (envS tbl cfg) inp c s x ts ie).1 =
      ⟨(if ie then c else { c with lastStartTagNameHash := s.tagNameHash }), .scanner s,
       { x with sink := x.sink ++ [evOf (!ie, s.tagNameHash) x.sim.currentNs] }⟩ := by
  unfold scanEmitHint at hnone ⊢
  split at hnone
  · simp at hnone
  · rename_i name hname
    have hh := lnHash_new hname
    cases ie <;> simp [envS, scanLog, evOf, hh]

/-- `finish_tag_name` of the scanner when it neither fails nor hands over -/
theorem scanFinishTagName_ok (c : Common) (s : ScanRegs) (x : Ctx L) (hp : s.pendingTextTypeChange = none)
    (hnone : (scanFinishTagName (envS tbl cfg) inp c s x).2 = none) :
    ∃ S1 f, feedbackOf cfg x.sim (!s.isInEndTag, s.tagNameHash) = .ok (S1, f) ∧ f.isRL = false ∧
      (scanFinishTagName (envS tbl cfg) inp c s x).1 =
        ⟨commit c f (!s.isInEndTag, s.tagNameHash),
         .scanner { s with tagStart := none, isInEndTag := false, pendingTextTypeChange := ttOf f },
         { x with sim := S1, sink := x.sink ++ [evOf (!s.isInEndTag, s.tagNameHash) S1.currentNs] }⟩ := by
  unfold scanFinishTagName at hnone ⊢
  cases hts : s.tagStart with
  | none => simp [hts] at hnone
  | some ts =>
    simp only [hts] at hnone ⊢
    have hfb : (if s.isInEndTag = true then x.sim.feedbackForEndTag cfg s.tagNameHash
        else x.sim.feedbackForStartTag cfg s.tagNameHash) = feedbackOf cfg x.sim (!s.isInEndTag, s.tagNameHash) := by
      cases s.isInEndTag <;> simp [feedbackOf]
    simp only [envS] at hnone ⊢
    rw [hfb] at hnone ⊢
    cases hf : feedbackOf cfg x.sim (!s.isInEndTag, s.tagNameHash) with
    | error e => simp [hf] at hnone
    | ok sf =>
      obtain ⟨S1, f⟩ := sf
      simp only [hf] at hnone ⊢
      cases f with
      | requestLexeme k => simp [scanApplyFeedback] at hnone
      | switchTextType t =>
        simp only [scanApplyFeedback] at hnone ⊢
        refine ⟨S1, _, rfl, rfl, ?_⟩
        have := scanEmitHint_log (tbl := tbl) (cfg := cfg) (inp := inp) _ _ _ _ _ hnone
        simp only [envS] at this
        rw [this]
        cases hie : s.isInEndTag <;> simp [commit, ttOf]
      | setAllowCdata b =>
        simp only [scanApplyFeedback] at hnone ⊢
        refine ⟨S1, _, rfl, rfl, ?_⟩
        have := scanEmitHint_log (tbl := tbl) (cfg := cfg) (inp := inp) _ _ _ _ _ hnone
        simp only [envS] at this
        rw [this]
        cases hie : s.isInEndTag <;> simp [commit, ttOf, hp]
      | none =>
        simp only [scanApplyFeedback] at hnone ⊢
        refine ⟨S1, _, rfl, rfl, ?_⟩
        have := scanEmitHint_log (tbl := tbl) (cfg := cfg) (inp := inp) _ _ _ _ _ hnone
        simp only [envS] at this
        rw [this]
        cases hie : s.isInEndTag <;> simp [commit, ttOf, hp]


/-- `emit_tag` of the lexer for a tag whose simulator feedback is not `RequestLexeme` -/
theorem lexEmitTag_ok (c : Common) (l : LexRegs) (x : Ctx L) (token : TagOutline) (hct : l.curTag = some token)
    (hfd : l.fd = .none) (S1 : Sim) (f : Feedback) (hfb : feedbackOf cfg x.sim (tagKey token) = .ok (S1, f))
    (hrl : f.isRL = false) :
    lexEmitTag (envL tbl cfg) inp c l x =
      (⟨{ commit c f (tagKey token) with lastTextType := (ttOf f).getD .data },
        .lexer { l with curTag := none, fd := .none, lexemeStart := c.pos + 1 },
        { x with sink := x.sink ++ [evOf (tagKey token) S1.currentNs], sim := S1 }⟩, none) := by
  unfold lexEmitTag
  rw [hct]
  simp only [hfd, envL]
  cases token with
  | startTag n h ns as sc =>
    simp only [feedbackOf, tagKey, if_true] at hfb
    simp only [lexGetFeedback, hfb, Except.map]
    cases f with
    | requestLexeme k => simp [Feedback.isRL] at hrl
    | switchTextType t =>
      simp [lexHandleFeedback, lexStampTag, lexEmitTagLexeme, lexLog, commit, ttOf, evOf, tagKey, Common.pos]
    | setAllowCdata b =>
      simp [lexHandleFeedback, lexStampTag, lexEmitTagLexeme, lexLog, commit, ttOf, evOf, tagKey, Common.pos]
    | none =>
      simp [lexHandleFeedback, lexStampTag, lexEmitTagLexeme, lexLog, commit, ttOf, evOf, tagKey, Common.pos]
  | endTag n h =>
    simp only [feedbackOf, tagKey, Bool.false_eq_true, if_false] at hfb
    simp only [lexGetFeedback, hfb, Except.map]
    cases f with
    | requestLexeme k => simp [Feedback.isRL] at hrl
    | switchTextType t =>
      simp [lexHandleFeedback, lexStampTag, lexEmitTagLexeme, lexLog, commit, ttOf, evOf, tagKey, Common.pos]
    | setAllowCdata b =>
      simp [lexHandleFeedback, lexStampTag, lexEmitTagLexeme, lexLog, commit, ttOf, evOf, tagKey, Common.pos]
    | none =>
      simp [lexHandleFeedback, lexStampTag, lexEmitTagLexeme, lexLog, commit, ttOf, evOf, tagKey, Common.pos]

theorem tagKey_setTagName (t : TagOutline) (r : Range) : tagKey (setTagName t r) = tagKey t := by
  cases t <;> rfl

theorem tagKey_updTagHash (t : TagOutline) (ch : UInt8) :
    tagKey (updTagHash t ch) = ((tagKey t).1, NameHash.update (tagKey t).2 ch) := by
  cases t <;> rfl

/-- **one action on both machines.** -/
theorem act_rel (a : ActName) (ab ab' : Ab) (habs : phAct a ab = some ab')
    (cs : Common) (s : ScanRegs) (xs : Ctx L) (cl : Common) (l : LexRegs) (xl : Ctx L)
    (h : Conc cfg ab cs s xs cl l xl)
    (hsig : silentAct a = true ∨ ((scanAct (envS tbl cfg) a inp cs s xs).2 = none ∧
      (lexAct (envL tbl cfg) a inp cl l xl).2 = none)) :
    Rel cfg ab' (scanAct (envS tbl cfg) a inp cs s xs).1 (lexAct (envL tbl cfg) a inp cl l xl).1 := by
  by_cases hpriv : lexPrivate a = true
  · obtain ⟨s', hs, s1, s2, s3⟩ := scanAct_private (tbl := tbl) (cfg := cfg) (inp := inp) a hpriv cs s xs
    obtain ⟨l', hl, l1, l2⟩ := lexAct_private (tbl := tbl) (cfg := cfg) (inp := inp) a hpriv cl l xl
    rw [hs, hl, absAct_private hpriv habs, Rel_mk]
    exact Conc_congr_lex (Conc_congr_scan h s1 s2 s3) l1 l2 rfl rfl
  · cases a <;> simp only [lexPrivate, not_true_eq_false] at hpriv
    case setClosingQuoteToDouble =>
      have : ab' = ab := by cases ab <;> simp [phAct] at habs <;> exact habs.symm
      subst this
      simp only [scanAct, lexAct, Rel_mk]
      exact Conc_common (fun c => { c with closingQuote := 34 }) (fun _ _ _ => rfl) h
    case setClosingQuoteToSingle =>
      have : ab' = ab := by cases ab <;> simp [phAct] at habs <;> exact habs.symm
      subst this
      simp only [scanAct, lexAct, Rel_mk]
      exact Conc_common (fun c => { c with closingQuote := 39 }) (fun _ _ _ => rfl) h
    case enterCdata =>
      have : ab' = ab := by cases ab <;> simp [phAct] at habs <;> exact habs.symm
      subst this
      simp only [scanAct, lexAct, Rel_mk]
      exact Conc_common (fun c => { c with lastTextType := .cdataSection }) (fun _ _ _ => rfl) h
    case leaveCdata =>
      have : ab' = ab := by cases ab <;> simp [phAct] at habs <;> exact habs.symm
      subst this
      simp only [scanAct, lexAct, Rel_mk]
      exact Conc_common (fun c => { c with lastTextType := .data }) (fun _ _ _ => rfl) h
    case createStartTag =>
      cases ab <;> simp [phAct] at habs
      subst habs
      obtain ⟨⟨a1, a2, a3, a4, a5, a6⟩, b⟩ := h
      simp only [scanAct, lexAct, Rel_mk]
      exact ⟨⟨a1, a2, a3, a4, a5, by simp [TagCorr, tagKey, b]⟩, b⟩
    case createEndTag =>
      have hra : RA cs s xs cl l xl ∧ ab' = .outEnd := by
        cases ab <;> simp [phAct] at habs
        · exact ⟨h.1, habs.symm⟩
        · exact ⟨h, habs.symm⟩
      obtain ⟨⟨a1, a2, a3, a4, a5, a6⟩, rfl⟩ := hra
      simp only [scanAct, lexAct, Rel_mk]
      exact ⟨a1, a2, a3, a4, a5, by simp [TagCorr, tagKey]⟩
    case updateTagNameHash =>
      have hab : (ab = .outClean ∨ ab = .outEnd) ∧ ab' = ab := by
        cases ab <;> simp [phAct] at habs <;> simp [habs]
      obtain ⟨hab, rfl⟩ := hab
      have hra := Conc_out h hab
      have hpos : cs.pos = cl.pos := by rw [hra.c_eq]
      simp only [scanAct, lexAct]
      rw [hpos]
      cases hch : inp[cl.pos]? with
      | none => simp only [Rel_mk]; exact h
      | some ch =>
        simp only
        cases hct : l.curTag with
        | none =>
          simp only [Rel_mk]
          have hc : Conc cfg ab' cs { s with tagNameHash := NameHash.update s.tagNameHash ch } xs cl l xl := by
            have htc : ∀ s' : ScanRegs, s'.isInEndTag = s.isInEndTag → TagCorr s l → TagCorr s' l := by
              intro s' h1 h2
              simp only [TagCorr, hct, Option.map_none] at h2 ⊢
              rw [h1]; exact h2
            rcases hab with rfl | rfl
            · obtain ⟨⟨a1, a2, a3, a4, a5, a6⟩, b⟩ := h
              exact ⟨⟨a1, a2, a3, a4, a5, htc _ rfl a6⟩, b⟩
            · obtain ⟨a1, a2, a3, a4, a5, a6⟩ := h
              exact ⟨a1, a2, a3, a4, a5, htc _ rfl a6⟩
          exact hc
        | some t =>
          simp only [Rel_mk]
          have htc : TagCorr s l → TagCorr { s with tagNameHash := NameHash.update s.tagNameHash ch }
              { l with curTag := some (updTagHash t ch) } := by
            intro h2
            simp only [TagCorr, hct, Option.map_some, tagKey_updTagHash] at h2 ⊢
            rw [h2]
          rcases hab with rfl | rfl
          · obtain ⟨⟨a1, a2, a3, a4, a5, a6⟩, b⟩ := h
            exact ⟨⟨a1, a2, a3, a4, a5, htc a6⟩, b⟩
          · obtain ⟨a1, a2, a3, a4, a5, a6⟩ := h
            exact ⟨a1, a2, a3, a4, a5, htc a6⟩
    case finishTagName =>
      have hab : (ab = .outClean ∨ ab = .outEnd) ∧ ab' = .inTag := by
        cases ab <;> simp [phAct] at habs <;> simp [habs]
      obtain ⟨hab, rfl⟩ := hab
      obtain ⟨a1, a2, a3, a4, a5, a6⟩ := Conc_out h hab
      simp only [silentAct, Bool.false_eq_true, false_or] at hsig
      obtain ⟨hs, hl⟩ := hsig
      simp only [scanAct, lexAct] at hs hl ⊢
      obtain ⟨S1, f, hfb, hrl, hres⟩ := scanFinishTagName_ok (tbl := tbl) (cfg := cfg) (inp := inp) cs s xs a4 hs
      rw [hres]
      cases hct : l.curTag with
      | none => simp [hct] at hl
      | some t =>
        simp only [Rel_mk]
        have hkey : tagKey t = (!s.isInEndTag, s.tagNameHash) := by
          simpa [TagCorr, hct] using a6
        refine ⟨⟨tagKey t, S1, f, by simp [tagKey_setTagName], by rw [← a2, hkey]; exact hfb, hrl, rfl, rfl,
          by rw [a1, hkey], by rw [a3, hkey]⟩, rfl, a5⟩
    case emitTag =>
      cases ab <;> simp [phAct] at habs
      subst habs
      obtain ⟨⟨key, S1, f, e1, e2, e3, e4, e5, e6, e7⟩, b1, b2⟩ := h
      cases hct : l.curTag with
      | none => simp [hct] at e1
      | some t =>
        simp only [hct, Option.map_some, Option.some.injEq] at e1
        subst e1
        simp only [scanAct, lexAct]
        rw [lexEmitTag_ok (tbl := tbl) (cfg := cfg) (inp := inp) cl l xl t hct b2 S1 f e2 e3]
        simp only [Rel_mk]
        refine ⟨⟨?_, e4, e7, rfl, rfl, by simp [TagCorr, b1]⟩, b1⟩
        rw [e6, e5]

end
end LolHtml.Model
