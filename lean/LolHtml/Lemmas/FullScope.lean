/-
Package `full`: the real controller model (`Model/Full.lean`) projects onto package scope's controller
model (`Model/Controller.lean`): same dispatcher, and the VM's open-element stack zipped with the
controller-owned descriptors is scope's abstract stack. Every callback of the real controller is the
corresponding function of the scope model on the projection (`toScope`).
-/
import LolHtml.Lemmas.FullSync
import LolHtml.Model.Controller
import LolHtml.Lemmas.SelVM
import LolHtml.Lemmas.ScopeRel

namespace LolHtml.Model.Full
open LolHtml LolHtml.Model LolHtml.Model.Handlers LolHtml.EditModel

/-- one open element as package scope sees it -/
def scopeItem (it : SelVM.StackItem) (de : Desc) : Controller.StackItem :=
  { name := asciiLowerBytes it.localName
    desc := { matched := it.matchedIds, endTagHandlerIdx := de.endTagHandlerIdx, removeContent := de.removeContent }
    ord := de.ord }

def scopeStack (items : List SelVM.StackItem) (descs : List Desc) : List Controller.StackItem :=
  List.zipWith scopeItem items descs

/-- the projection onto package scope's `Controller` -/
def toScope (s : St) : Controller.Controller :=
  { disp := s.disp, vm := s.vm.map fun vm => scopeStack vm.stack.items s.descs }

/-! ### lists -/

theorem zipWith_getLast? {α β γ : Type} (f : α → β → γ) : ∀ (a : List α) (b : List β), a.length = b.length →
    (List.zipWith f a b).getLast? =
      match a.getLast?, b.getLast? with
      | some x, some y => some (f x y)
      | _, _ => none := by
  intro a
  induction a with
  | nil => intro b h; cases b <;> simp at h ⊢
  | cons x xs ih =>
    intro b h
    cases b with
    | nil => simp at h
    | cons y ys =>
      simp only [List.length_cons, Nat.add_right_cancel_iff] at h
      cases xs with
      | nil => cases ys <;> simp at h ⊢
      | cons x2 xs2 =>
        cases ys with
        | nil => simp at h
        | cons y2 ys2 =>
          have := ih (y2 :: ys2) h
          simp only [List.zipWith_cons_cons, List.getLast?_cons_cons] at this ⊢
          exact this

theorem zipWith_dropLast {α β γ : Type} (f : α → β → γ) : ∀ (a : List α) (b : List β), a.length = b.length →
    (List.zipWith f a b).dropLast = List.zipWith f a.dropLast b.dropLast := by
  intro a
  induction a with
  | nil => intro b h; cases b <;> simp at h ⊢
  | cons x xs ih =>
    intro b h
    cases b with
    | nil => simp at h
    | cons y ys =>
      simp only [List.length_cons, Nat.add_right_cancel_iff] at h
      cases xs with
      | nil => cases ys <;> simp at h ⊢
      | cons x2 xs2 =>
        cases ys with
        | nil => simp at h
        | cons y2 ys2 =>
          have := ih (y2 :: ys2) h
          simp only [List.zipWith_cons_cons, List.dropLast_cons_cons] at this ⊢
          rw [this]

theorem zipWith_append_single {α β γ : Type} (f : α → β → γ) (a : List α) (b : List β) (x : α) (y : β)
    (h : a.length = b.length) : List.zipWith f (a ++ [x]) (b ++ [y]) = List.zipWith f a b ++ [f x y] := by
  rw [List.zipWith_append h]; rfl

theorem dropLast_append_getLast {α : Type} (l : List α) (x : α) (h : l.getLast? = some x) : l.dropLast ++ [x] = l := by
  induction l with
  | nil => simp at h
  | cons a l ih =>
    cases l with
    | nil => simp at h ⊢; exact h.symm
    | cons b l =>
      simp only [List.getLast?_cons_cons] at h
      simp only [List.dropLast_cons_cons, List.cons_append, ih h]

/-! ### `current_element_data_mut` and the write-back -/

theorem toScope_currentElementData (s : St) (hs : Sync s) :
    (toScope s).currentElementData = s.currentElementData := by
  unfold Controller.Controller.currentElementData St.currentElementData toScope
  cases hv : s.vm with
  | none => rfl
  | some vm =>
    have hl : vm.stack.items.length = s.descs.length := by
      have := hs; simp only [Sync, hv] at this; exact this.symm
    simp only [Option.map_some, scopeStack]
    rw [zipWith_getLast? _ _ _ hl]
    cases vm.stack.items.getLast? <;> cases s.descs.getLast? <;> rfl

theorem scopeStack_writeBack (items : List SelVM.StackItem) (descs : List Desc) (hl : items.length = descs.length)
    (desc : Option ElementDescriptor)
    (hm : ∀ d it, desc = some d → items.getLast? = some it → d.matched = it.matchedIds) :
    Controller.writeBack (some (scopeStack items descs)) desc = some (scopeStack items (writeBack descs desc)) := by
  cases desc with
  | none => rfl
  | some d =>
    rcases List.eq_nil_or_concat descs with hd | ⟨dinit, de, hd⟩
    · subst hd
      have : items = [] := List.eq_nil_of_length_eq_zero (by simpa using hl)
      subst this
      rfl
    · rcases List.eq_nil_or_concat items with hi | ⟨init, it, hi⟩
      · subst hi hd; simp at hl
      · subst hi hd
        simp only [List.concat_eq_append, List.length_append, List.length_singleton, Nat.add_right_cancel_iff] at hl
        simp only [List.concat_eq_append, Controller.writeBack, Controller.setTopDesc, writeBack, scopeStack,
          zipWith_append_single _ _ _ _ _ hl, List.getLast?_append, List.getLast?_singleton, Option.some_or,
          List.dropLast_concat, List.dropLast_append_of_ne_nil, List.dropLast_singleton, List.append_nil]
        have := hm d it rfl (by simp)
        cases d
        simp only at this
        subst this
        rfl

theorem toScope_writeBack (s : St) (hs : Sync s) (desc : Option ElementDescriptor)
    (hm : ∀ d c, desc = some d → s.currentElementData = some c → d.matched = c.matched) :
    Controller.writeBack (toScope s).vm desc = (toScope { s with descs := writeBack s.descs desc }).vm := by
  unfold toScope
  cases hv : s.vm with
  | none => cases desc <;> rfl
  | some vm =>
    have hl : vm.stack.items.length = s.descs.length := by
      have := hs; simp only [Sync, hv] at this; exact this.symm
    simp only [Option.map_some]
    apply scopeStack_writeBack _ _ hl desc
    intro d it hd hi
    cases hde : s.descs.getLast? with
    | none =>
      have h0 : s.descs = [] := by simpa using hde
      have : vm.stack.items = [] := List.eq_nil_of_length_eq_zero (by rw [hl, h0]; rfl)
      rw [this] at hi; simp at hi
    | some de =>
      exact hm d ⟨it.matchedIds, de.endTagHandlerIdx, de.removeContent⟩ hd (by simp [St.currentElementData, hv, hi, hde])

/-! ### `start_matching` / `stop_matching` -/

theorem startMatchingInfos_eq (d : Dispatcher) (wc : Bool) (ids : List Nat) :
    startMatchingInfos d (ids.map fun i => ⟨i, wc⟩) = Controller.startMatchingAll d wc ids := by
  induction ids generalizing d with
  | nil => rfl
  | cons m ms ih =>
    simp only [List.map_cons, startMatchingInfos, Controller.startMatchingAll]
    cases d.startMatching m wc with
    | error e => rfl
    | ok d' => exact ih d'

theorem stopMatchingPopped_eq (d : Dispatcher) : ∀ (its : List SelVM.StackItem) (des : List Desc),
    its.length = des.length →
    stopMatchingPopped d its des = Controller.stopMatchingAll d (scopeStack its des) := by
  intro its
  induction its generalizing d with
  | nil => intro des h; cases des <;> simp at h ⊢ <;> rfl
  | cons it its ih =>
    intro des h
    cases des with
    | nil => simp at h
    | cons de des =>
      simp only [List.length_cons, Nat.add_right_cancel_iff] at h
      simp only [stopMatchingPopped, scopeStack, List.zipWith_cons_cons, Controller.stopMatchingAll, scopeItem]
      split
      · rename_i e h1; simp only [h1]
      · rename_i d' h1; simp only [h1]; exact ih d' des h

/-! ### start tags: the VM part -/

open LolHtml.SelVM in
theorem handleStartTag_closed {vm vm' : SelVM.Vm} {t : Sel.StartTag} {ms : List SelVM.MatchInfo}
    (h : vm.handleStartTag t = .ok (vm', ms)) :
    ∃ item : SelVM.StackItem, item.localName = t.name ∧
      ms = item.matchedIds.map (fun i => ⟨i, Spec.Css.staysOpen t vm.enableEsiTags⟩) ∧
      vm'.stack.items = if Spec.Css.staysOpen t vm.enableEsiTags
        then incLastChildCounter vm.stack.items ++ [item] else incLastChildCounter vm.stack.items := by
  rw [Vm.handleStartTag_eq] at h
  simp only [bind, Except.bind] at h
  split at h
  · cases h
  · rename_i ctx' hc
    have sf := Vm.execAllWithAttrs_sameFrame _ _ _ _ hc
    simp only [pure, Except.pure, Except.ok.injEq] at h
    have h1 := congrArg Prod.fst h
    have h2 := congrArg Prod.snd h
    simp only at h1 h2
    have hw : ctx'.withContent = Spec.Css.staysOpen t vm.enableEsiTags := sf.2.2.1
    have hitems : (vm.stack.addChild t.name).items = incLastChildCounter vm.stack.items := by
      unfold Stack.addChild
      dsimp only
      split
      · rename_i he
        have : vm.stack.items = [] := by simpa using he
        simp [this, incLastChildCounter]
      · rfl
    refine ⟨ctx'.stackItem, sf.1, ?_, ?_⟩
    · rw [← h2, ← hw]; rfl
    · rw [← h1, ← hw]
      unfold Vm.finish
      split
      · simp [Stack.pushItem, hitems]
      · simp [hitems]

open LolHtml.SelVM in
theorem scopeStack_incLast : ∀ (items : List SelVM.StackItem) (descs : List Desc),
    scopeStack (incLastChildCounter items) descs = scopeStack items descs := by
  intro items
  induction items with
  | nil => intro d; rfl
  | cons x xs ih =>
    intro d
    cases xs with
    | nil => cases d <;> rfl
    | cons y ys =>
      cases d with
      | nil => rfl
      | cons de des =>
        have := ih des
        simp only [incLastChildCounter, scopeStack, List.zipWith_cons_cons] at this ⊢
        rw [this]

/-- **start tag, controller part**: `SelVM.Vm.handleStartTag` followed by `start_matching` for every
reported match and the push of a fresh descriptor is package scope's `Controller.handleStartTag` for the
event (lower-cased name, a stack directive with the same `with_content`, the VM's match set). -/
theorem toScope_handleStartTag (s : St) (vm vm' : SelVM.Vm) (hv : s.vm = some vm) (hs : Sync s)
    (t : Sel.StartTag) (ms : List SelVM.MatchInfo) (h : vm.handleStartTag t = .ok (vm', ms)) (ord : Nat) :
    ∃ matched : List Nat,
      ms = matched.map (fun i => ⟨i, Spec.Css.staysOpen t vm.enableEsiTags⟩) ∧
      (toScope s).handleStartTag ord (asciiLowerBytes t.name)
          (if Spec.Css.staysOpen t vm.enableEsiTags then .push else .popImmediately) t.selfClosing matched =
        (startMatchingInfos s.disp ms).map fun d =>
          toScope { s with disp := d, vm := some vm',
                           descs := if vm'.stack.items.length > vm.stack.items.length
                                    then s.descs ++ [{ ord := ord }] else s.descs } := by
  obtain ⟨item, hname, hms, hitems⟩ := handleStartTag_closed h
  have hl : vm.stack.items.length = s.descs.length := by
    have := hs; simp only [Sync, hv] at this; exact this.symm
  refine ⟨item.matchedIds, hms, ?_⟩
  unfold Controller.Controller.handleStartTag toScope
  simp only [hv, Option.map_some]
  rw [hms, startMatchingInfos_eq]
  cases hw : Spec.Css.staysOpen t vm.enableEsiTags with
  | true =>
    simp only [hw, if_true] at hitems ⊢
    simp only [Controller.withContentOf]
    cases Controller.startMatchingAll s.disp true item.matchedIds with
    | error e => rfl
    | ok d =>
      simp only [Except.map]
      have hlen : vm'.stack.items.length > vm.stack.items.length := by
        rw [hitems]; simp [incLast_length]
      simp only [hlen, if_true]
      rw [hitems]
      congr 2
      have hl' : (SelVM.incLastChildCounter vm.stack.items).length = s.descs.length := by
        rw [incLast_length]; exact hl
      unfold scopeStack
      rw [zipWith_append_single _ _ _ _ _ hl']
      have := scopeStack_incLast vm.stack.items s.descs
      unfold scopeStack at this
      rw [this]
      simp [scopeItem, hname, ElementDescriptor.new]
  | false =>
    simp only [hw, Bool.false_eq_true, if_false] at hitems ⊢
    simp only [Controller.withContentOf]
    cases Controller.startMatchingAll s.disp false item.matchedIds with
    | error e => rfl
    | ok d =>
      simp only [Except.map]
      have hlen : ¬ (vm'.stack.items.length > vm.stack.items.length) := by
        rw [hitems]; simp [incLast_length]
      simp only [hlen, if_false, Bool.false_eq_true]
      rw [hitems, scopeStack_incLast]

end LolHtml.Model.Full
