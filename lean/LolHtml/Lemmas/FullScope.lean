/-
Package `full`: the real controller model (`Model/Full.lean`) projects onto package scope's controller
model (`Model/Controller.lean`): same dispatcher, and the VM's open-element stack zipped with the
controller-owned descriptors is scope's abstract stack. Every callback of the real controller is the
corresponding function of the scope model on the projection (`toScope`).
-/
import LolHtml.Lemmas.FullSync
import LolHtml.Model.Controller
import LolHtml.Lemmas.SelVM
import LolHtml.Lemmas.ScopeRel

namespace LolHtml.Model.Full
open LolHtml LolHtml.Model LolHtml.Model.Handlers LolHtml.EditModel

/-- one open element as package scope sees it -/
def scopeItem (it : SelVM.StackItem) (de : Desc) : Controller.StackItem :=
  { name := asciiLowerBytes it.localName
    desc := { matched := it.matchedIds, endTagHandlerIdx := de.endTagHandlerIdx, removeContent := de.removeContent }
    ord := de.ord }

def scopeStack (items : List SelVM.StackItem) (descs : List Desc) : List Controller.StackItem :=
  List.zipWith scopeItem items descs

/-- the projection onto package scope's `Controller` -/
def toScope (s : St) : Controller.Controller :=
  { disp := s.disp, vm := s.vm.map fun vm => scopeStack vm.stack.items s.descs }

/-! ### lists -/

theorem zipWith_getLast? {α β γ : Type} (f : α → β → γ) : ∀ (a : List α) (b : List β), a.length = b.length →
    (List.zipWith f a b).getLast? =
      match a.getLast?, b.getLast? with
      | some x, some y => some (f x y)
      | _, _ => none := by
  intro a
  induction a with
  | nil => intro b h; cases b <;> simp at h ⊢
  | cons x xs ih =>
    intro b h
    cases b with
    | nil => simp at h
    | cons y ys =>
      simp only [List.length_cons, Nat.add_right_cancel_iff] at h
      cases xs with
      | nil => cases ys <;> simp at h ⊢
      | cons x2 xs2 =>
        cases ys with
        | nil => simp at h
        | cons y2 ys2 =>
          have := ih (y2 :: ys2) h
          simp only [List.zipWith_cons_cons, List.getLast?_cons_cons] at this ⊢
          exact this

theorem zipWith_dropLast {α β γ : Type} (f : α → β → γ) : ∀ (a : List α) (b : List β), a.length = b.length →
    (List.zipWith f a b).dropLast = List.zipWith f a.dropLast b.dropLast := by
  intro a
  induction a with
  | nil => intro b h; cases b <;> simp at h ⊢
  | cons x xs ih =>
    intro b h
    cases b with
    | nil => simp at h
    | cons y ys =>
      simp only [List.length_cons, Nat.add_right_cancel_iff] at h
      cases xs with
      | nil => cases ys <;> simp at h ⊢
      | cons x2 xs2 =>
        cases ys with
        | nil => simp at h
        | cons y2 ys2 =>
          have := ih (y2 :: ys2) h
          simp only [List.zipWith_cons_cons, List.dropLast_cons_cons] at this ⊢
          rw [this]

theorem zipWith_append_single {α β γ : Type} (f : α → β → γ) (a : List α) (b : List β) (x : α) (y : β)
    (h : a.length = b.length) : List.zipWith f (a ++ [x]) (b ++ [y]) = List.zipWith f a b ++ [f x y] := by
  rw [List.zipWith_append h]; rfl

theorem dropLast_append_getLast {α : Type} (l : List α) (x : α) (h : l.getLast? = some x) : l.dropLast ++ [x] = l := by
  induction l with
  | nil => simp at h
  | cons a l ih =>
    cases l with
    | nil => simp at h ⊢; exact h.symm
    | cons b l =>
      simp only [List.getLast?_cons_cons] at h
      simp only [List.dropLast_cons_cons, List.cons_append, ih h]

/-! ### `current_element_data_mut` and the write-back -/

theorem toScope_currentElementData (s : St) (hs : Sync s) :
    (toScope s).currentElementData = s.currentElementData := by
  unfold Controller.Controller.currentElementData St.currentElementData toScope
  cases hv : s.vm with
  | none => rfl
  | some vm =>
    have hl : vm.stack.items.length = s.descs.length := by
      have := hs; simp only [Sync, hv] at this; exact this.symm
    simp only [Option.map_some, scopeStack]
    rw [zipWith_getLast? _ _ _ hl]
    cases vm.stack.items.getLast? <;> cases s.descs.getLast? <;> rfl

theorem scopeStack_writeBack (items : List SelVM.StackItem) (descs : List Desc) (hl : items.length = descs.length)
    (desc : Option ElementDescriptor)
    (hm : ∀ d it, desc = some d → items.getLast? = some it → d.matched = it.matchedIds) :
    Controller.writeBack (some (scopeStack items descs)) desc = some (scopeStack items (writeBack descs desc)) := by
  cases desc with
  | none => rfl
  | some d =>
    rcases List.eq_nil_or_concat descs with hd | ⟨dinit, de, hd⟩
    · subst hd
      have : items = [] := List.eq_nil_of_length_eq_zero (by simpa using hl)
      subst this
      rfl
    · rcases List.eq_nil_or_concat items with hi | ⟨init, it, hi⟩
      · subst hi hd; simp at hl
      · subst hi hd
        simp only [List.concat_eq_append, List.length_append, List.length_singleton, Nat.add_right_cancel_iff] at hl
        simp only [List.concat_eq_append, Controller.writeBack, Controller.setTopDesc, writeBack, scopeStack,
          zipWith_append_single _ _ _ _ _ hl, List.getLast?_append, List.getLast?_singleton, Option.some_or,
          List.dropLast_concat, List.dropLast_append_of_ne_nil, List.dropLast_singleton, List.append_nil]
        have := hm d it rfl (by simp)
        cases d
        simp only at this
        subst this
        rfl

theorem toScope_writeBack (s : St) (hs : Sync s) (desc : Option ElementDescriptor)
    (hm : ∀ d c, desc = some d → s.currentElementData = some c → d.matched = c.matched) :
    Controller.writeBack (toScope s).vm desc = (toScope { s with descs := writeBack s.descs desc }).vm := by
  unfold toScope
  cases hv : s.vm with
  | none => cases desc <;> rfl
  | some vm =>
    have hl : vm.stack.items.length = s.descs.length := by
      have := hs; simp only [Sync, hv] at this; exact this.symm
    simp only [Option.map_some]
    apply scopeStack_writeBack _ _ hl desc
    intro d it hd hi
    cases hde : s.descs.getLast? with
    | none =>
      have h0 : s.descs = [] := by simpa using hde
      have : vm.stack.items = [] := List.eq_nil_of_length_eq_zero (by rw [hl, h0]; rfl)
      rw [this] at hi; simp at hi
    | some de =>
      exact hm d ⟨it.matchedIds, de.endTagHandlerIdx, de.removeContent⟩ hd (by simp [St.currentElementData, hv, hi, hde])

/-! ### `start_matching` / `stop_matching` -/

theorem startMatchingInfos_eq (d : Dispatcher) (wc : Bool) (ids : List Nat) :
    startMatchingInfos d (ids.map fun i => ⟨i, wc⟩) = Controller.startMatchingAll d wc ids := by
  induction ids generalizing d with
  | nil => rfl
  | cons m ms ih =>
    simp only [List.map_cons, startMatchingInfos, Controller.startMatchingAll]
    cases d.startMatching m wc with
    | error e => rfl
    | ok d' => exact ih d'

theorem stopMatchingPopped_eq (d : Dispatcher) : ∀ (its : List SelVM.StackItem) (des : List Desc),
    its.length = des.length →
    stopMatchingPopped d its des = Controller.stopMatchingAll d (scopeStack its des) := by
  intro its
  induction its generalizing d with
  | nil => intro des h; cases des <;> simp at h ⊢ <;> rfl
  | cons it its ih =>
    intro des h
    cases des with
    | nil => simp at h
    | cons de des =>
      simp only [List.length_cons, Nat.add_right_cancel_iff] at h
      simp only [stopMatchingPopped, scopeStack, List.zipWith_cons_cons, Controller.stopMatchingAll, scopeItem]
      split
      · rename_i e h1; simp only [h1]
      · rename_i d' h1; simp only [h1]; exact ih d' des h

/-! ### start tags: the VM part -/

open LolHtml.SelVM in
theorem handleStartTag_closed {vm vm' : SelVM.Vm} {t : Sel.StartTag} {ms : List SelVM.MatchInfo}
    (h : vm.handleStartTag t = .ok (vm', ms)) :
    ∃ item : SelVM.StackItem, item.localName = t.name ∧
      ms = item.matchedIds.map (fun i => ⟨i, Spec.Css.staysOpen t vm.enableEsiTags⟩) ∧
      vm'.stack.items = if Spec.Css.staysOpen t vm.enableEsiTags
        then incLastChildCounter vm.stack.items ++ [item] else incLastChildCounter vm.stack.items := by
  rw [Vm.handleStartTag_eq] at h
  simp only [bind, Except.bind] at h
  split at h
  · cases h
  · rename_i ctx' hc
    have sf := Vm.execAllWithAttrs_sameFrame _ _ _ _ hc
    simp only [pure, Except.pure, Except.ok.injEq] at h
    have h1 := congrArg Prod.fst h
    have h2 := congrArg Prod.snd h
    simp only at h1 h2
    have hw : ctx'.withContent = Spec.Css.staysOpen t vm.enableEsiTags := sf.2.2.1
    have hitems : (vm.stack.addChild t.name).items = incLastChildCounter vm.stack.items := by
      unfold Stack.addChild
      dsimp only
      split
      · rename_i he
        have : vm.stack.items = [] := by simpa using he
        simp [this, incLastChildCounter]
      · rfl
    refine ⟨ctx'.stackItem, sf.1, ?_, ?_⟩
    · rw [← h2, ← hw]; rfl
    · rw [← h1, ← hw]
      unfold Vm.finish
      split
      · simp [Stack.pushItem, hitems]
      · simp [hitems]

open LolHtml.SelVM in
theorem scopeStack_incLast : ∀ (items : List SelVM.StackItem) (descs : List Desc),
    scopeStack (incLastChildCounter items) descs = scopeStack items descs := by
  intro items
  induction items with
  | nil => intro d; rfl
  | cons x xs ih =>
    intro d
    cases xs with
    | nil => cases d <;> rfl
    | cons y ys =>
      cases d with
      | nil => rfl
      | cons de des =>
        have := ih des
        simp only [incLastChildCounter, scopeStack, List.zipWith_cons_cons] at this ⊢
        rw [this]

/-- **start tag, controller part**: `SelVM.Vm.handleStartTag` followed by `start_matching` for every
reported match and the push of a fresh descriptor is package scope's `Controller.handleStartTag` for the
event (lower-cased name, a stack directive with the same `with_content`, the VM's match set). -/
theorem toScope_handleStartTag (s : St) (vm vm' : SelVM.Vm) (hv : s.vm = some vm) (hs : Sync s)
    (t : Sel.StartTag) (ms : List SelVM.MatchInfo) (h : vm.handleStartTag t = .ok (vm', ms)) (ord : Nat) :
    ∃ matched : List Nat,
      ms = matched.map (fun i => ⟨i, Spec.Css.staysOpen t vm.enableEsiTags⟩) ∧
      (toScope s).handleStartTag ord (asciiLowerBytes t.name)
          (if Spec.Css.staysOpen t vm.enableEsiTags then .push else .popImmediately) t.selfClosing matched =
        (startMatchingInfos s.disp ms).map fun d =>
          toScope { s with disp := d, vm := some vm',
                           descs := if vm'.stack.items.length > vm.stack.items.length
                                    then s.descs ++ [{ ord := ord }] else s.descs } := by
  obtain ⟨item, hname, hms, hitems⟩ := handleStartTag_closed h
  have hl : vm.stack.items.length = s.descs.length := by
    have := hs; simp only [Sync, hv] at this; exact this.symm
  refine ⟨item.matchedIds, hms, ?_⟩
  unfold Controller.Controller.handleStartTag toScope
  simp only [hv, Option.map_some]
  rw [hms, startMatchingInfos_eq]
  cases hw : Spec.Css.staysOpen t vm.enableEsiTags with
  | true =>
    simp only [hw, if_true] at hitems ⊢
    simp only [Controller.withContentOf]
    cases Controller.startMatchingAll s.disp true item.matchedIds with
    | error e => rfl
    | ok d =>
      simp only [Except.map]
      have hlen : vm'.stack.items.length > vm.stack.items.length := by
        rw [hitems]; simp [incLast_length]
      simp only [hlen, if_true]
      rw [hitems]
      congr 2
      have hl' : (SelVM.incLastChildCounter vm.stack.items).length = s.descs.length := by
        rw [incLast_length]; exact hl
      unfold scopeStack
      rw [zipWith_append_single _ _ _ _ _ hl']
      have := scopeStack_incLast vm.stack.items s.descs
      unfold scopeStack at this
      rw [this]
      simp [scopeItem, hname, ElementDescriptor.new]
  | false =>
    simp only [hw, Bool.false_eq_true, if_false] at hitems ⊢
    simp only [Controller.withContentOf]
    cases Controller.startMatchingAll s.disp false item.matchedIds with
    | error e => rfl
    | ok d =>
      simp only [Except.map]
      have hlen : ¬ (vm'.stack.items.length > vm.stack.items.length) := by
        rw [hitems]; simp [incLast_length]
      simp only [hlen, if_false, Bool.false_eq_true]
      rw [hitems, scopeStack_incLast]

/-! ### end tags: `pop_up_to` -/

open LolHtml.SelVM in
theorem rposition_cons {α : Type} (p : α → Bool) (x : α) (xs : List α) :
    rposition p (x :: xs) =
      match rposition p xs with
      | some i => some (i + 1)
      | none => if p x then some 0 else none := by
  unfold rposition
  simp only [List.reverse_cons, List.findIdx?_append, List.length_reverse, List.length_cons]
  cases hf : xs.reverse.findIdx? p with
  | some k =>
    have hk : k < xs.length := by
      have := (List.findIdx?_eq_some_iff_getElem.mp hf).1
      simpa using this
    simp only [Option.some_or]
    congr 1
    omega
  | none =>
    simp only [Option.none_or, List.findIdx?_cons, List.findIdx?_nil]
    by_cases hp : p x = true
    · simp [hp]
    · simp [hp]

open LolHtml.SelVM in
theorem splitLast_eq_rposition {α : Type} (p : α → Bool) (l : List α) :
    Controller.splitLast p l = (rposition p l).map fun i => (l.take i, l.drop i) := by
  induction l with
  | nil => rfl
  | cons x xs ih =>
    rw [rposition_cons]
    simp only [Controller.splitLast, ih]
    cases rposition p xs with
    | some i => rfl
    | none =>
      by_cases hp : p x = true
      · simp [hp]
      · simp [hp]

theorem splitLast_zipWith {α β γ : Type} (f : α → β → γ) (p' : γ → Bool) (q : α → Bool)
    (hpq : ∀ x y, p' (f x y) = q x) : ∀ (a : List α) (b : List β), a.length = b.length →
    Controller.splitLast p' (List.zipWith f a b) =
      (Controller.splitLast q a).map fun kd =>
        (List.zipWith f kd.1 (b.take kd.1.length), List.zipWith f kd.2 (b.drop kd.1.length)) := by
  intro a
  induction a with
  | nil => intro b h; cases b <;> simp at h ⊢ <;> rfl
  | cons x xs ih =>
    intro b h
    cases b with
    | nil => simp at h
    | cons y ys =>
      simp only [List.length_cons, Nat.add_right_cancel_iff] at h
      simp only [List.zipWith_cons_cons, Controller.splitLast, ih ys h]
      cases Controller.splitLast q xs with
      | some kd => rfl
      | none =>
        simp only [Option.map_none, hpq]
        by_cases hq : q x = true
        · simp [hq]
        · simp [hq]

/-- the `open_name_counts` pre-check of `pop_up_to` agrees with the items (from package selvm's
`StackInv`: `countsOk`, `counts`) -/
def PreOk (st : SelVM.Stack) : Prop :=
  ∀ name : Bytes, (st.openNameCounts.any fun e => e.1 == asciiLowerBytes name) = false →
    ∀ it ∈ st.items, Sel.localNameEq it.localName name = false

open LolHtml.SelVM in
theorem rposition_lt {α : Type} (p : α → Bool) (l : List α) (i : Nat) (h : rposition p l = some i) : i < l.length := by
  unfold rposition at h
  split at h
  · rename_i k hk
    have hk' : k < l.length := by
      have := (List.findIdx?_eq_some_iff_getElem.mp hk).1
      simpa using this
    simp only [Option.some.injEq] at h
    omega
  · cases h

open LolHtml.SelVM in
theorem rposition_none_of_all_false {α : Type} (p : α → Bool) (l : List α) (h : ∀ x ∈ l, p x = false) :
    rposition p l = none := by
  unfold rposition
  have : l.reverse.findIdx? p = none := by
    rw [List.findIdx?_eq_none_iff]
    intro x hx
    exact h x (by simpa using hx)
  rw [this]

open LolHtml.SelVM in
/-- `Stack::pop_up_to` in closed form -/
theorem popUpTo_closed (st st' : Stack) (name : Bytes) (drained : List StackItem) (hpre : PreOk st)
    (h : st.popUpTo name = .ok (st', drained)) :
    match rposition (fun it => Sel.localNameEq it.localName name) st.items with
    | none => st'.items = st.items ∧ drained = []
    | some i => st'.items = st.items.take i ∧ drained = st.items.drop i := by
  unfold Stack.popUpTo at h
  split at h
  · rename_i hany
    have hany' : (st.openNameCounts.any fun e => e.1 == asciiLowerBytes name) = false := by simpa using hany
    rw [rposition_none_of_all_false _ _ (hpre name hany')]
    simp only [pure, Except.pure, Except.ok.injEq, Prod.mk.injEq] at h
    exact ⟨by rw [← h.1], h.2.symm⟩
  · split at h
    · rename_i hr
      rw [hr]
      simp only [pure, Except.pure, Except.ok.injEq, Prod.mk.injEq] at h
      exact ⟨by rw [← h.1], h.2.symm⟩
    · rename_i index hr
      rw [hr]
      simp only [bind, Except.bind, pure, Except.pure] at h
      split at h
      · cases h
      · simp only [Except.ok.injEq, Prod.mk.injEq] at h
        exact ⟨by rw [← h.1], h.2.symm⟩

/-- **end tag, controller part**: `exec_for_end_tag` + `stop_matching` for the drained items is package
scope's `Controller.handleEndTag` for the lower-cased name. -/
theorem toScope_handleEndTag (s : St) (vm vm' : SelVM.Vm) (hv : s.vm = some vm) (hs : Sync s)
    (hpre : PreOk vm.stack) (name : Bytes) (popped : List SelVM.StackItem)
    (he : vm.execForEndTag name = .ok (vm', popped)) :
    popped.length ≤ s.descs.length ∧
    (toScope s).handleEndTag (asciiLowerBytes name) =
      (stopMatchingPopped s.disp popped (s.descs.drop (s.descs.length - popped.length))).map fun d =>
        toScope { s with disp := d, vm := some vm', descs := s.descs.take (s.descs.length - popped.length) } := by
  have hl : vm.stack.items.length = s.descs.length := by
    have := hs; simp only [Sync, hv] at this; exact this.symm
  have hpop : vm.stack.popUpTo name = .ok (vm'.stack, popped) := by
    unfold SelVM.Vm.execForEndTag at he
    simp only [bind, Except.bind, pure, Except.pure] at he
    split at he
    · cases he
    · rename_i r hr
      simp only [Except.ok.injEq, Prod.mk.injEq] at he
      rw [hr, ← he.1, ← he.2]
  have hcl := popUpTo_closed _ _ _ _ hpre hpop
  have hpq : ∀ (it : SelVM.StackItem) (de : Desc),
      (fun it : Controller.StackItem => decide (it.name = asciiLowerBytes name)) (scopeItem it de) =
        (fun it : SelVM.StackItem => Sel.localNameEq it.localName name) it := by
    intro it de
    simp only [scopeItem, Sel.localNameEq, eqIgnoreAsciiCase]
    rw [Bool.eq_iff_iff]
    simp only [beq_iff_eq]
    exact decide_eq_true_iff
  unfold Controller.Controller.handleEndTag toScope
  simp only [hv, Option.map_some, Controller.popUpTo, scopeStack]
  rw [splitLast_zipWith scopeItem _ _ hpq _ _ hl, splitLast_eq_rposition]
  cases hr : SelVM.rposition (fun it : SelVM.StackItem => Sel.localNameEq it.localName name) vm.stack.items with
  | none =>
    rw [hr] at hcl
    obtain ⟨h1, h2⟩ := hcl
    subst h2
    simp only [Option.map_none, List.length_nil, Nat.zero_le, true_and, Nat.sub_zero, List.drop_length,
      stopMatchingPopped, Except.map, List.take_length, h1, hv]
  | some i =>
    rw [hr] at hcl
    obtain ⟨h1, h2⟩ := hcl
    have hi : i ≤ vm.stack.items.length := Nat.le_of_lt (rposition_lt _ _ _ hr)
    have hplen : popped.length = vm.stack.items.length - i := by rw [h2]; simp
    have hkeep : s.descs.length - popped.length = i := by rw [hplen, ← hl]; omega
    refine ⟨by rw [hplen, ← hl]; omega, ?_⟩
    simp only [Option.map_some, List.length_take, Nat.min_eq_left hi, hkeep]
    rw [← h2, stopMatchingPopped_eq _ _ _ (by rw [hplen, List.length_drop, ← hl])]
    unfold scopeStack
    cases Controller.stopMatchingAll s.disp (List.zipWith scopeItem popped (List.drop i s.descs)) with
    | error e => rfl
    | ok d =>
      simp only [Except.map, h1]

end LolHtml.Model.Full
